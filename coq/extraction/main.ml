(* Line-protocol driver around the extracted model. It only converts between text and the
   extracted datatypes; all logic is in model.ml (extracted from coq/theories). *)
open Model

(* ---- decimal I/O for extracted positive / N / Z via digit lists (little endian) ---- *)
let rec dbl (l:int list) (carry:int) : int list = match l with
  | [] -> if carry = 0 then [] else [carry]
  | d::r -> let v = 2*d + carry in (v mod 10) :: dbl r (v/10)
let rec pos_digits (p:positive) : int list = match p with
  | XH -> [1] | XO q -> dbl (pos_digits q) 0 | XI q -> dbl (pos_digits q) 1
let str_digits l = String.concat "" (List.rev_map string_of_int l)
let str_pos p = str_digits (pos_digits p)
let str_z (z:z) = match z with Z0 -> "0" | Zpos p -> str_pos p | Zneg p -> "-" ^ str_pos p
let str_n (n:n) = match n with N0 -> "0" | Npos p -> str_pos p
let rec pos_of_int (k:int) : positive =
  if k = 1 then XH else if k land 1 = 0 then XO (pos_of_int (k lsr 1)) else XI (pos_of_int (k lsr 1))
let n_of_int k = if k = 0 then N0 else Npos (pos_of_int k)
let z_of_int k = if k = 0 then Z0 else if k > 0 then Zpos (pos_of_int k) else Zneg (pos_of_int (-k))
let int_of_n (x:n) = int_of_string (str_n x)
let z_of_string (s:string) : z =
  let neg = String.length s > 0 && s.[0] = '-' in
  let ds = if neg then String.sub s 1 (String.length s - 1) else s in
  let acc = ref Z0 in
  String.iter (fun ch -> acc := Z.add (Z.mul !acc (z_of_int 10)) (z_of_int (Char.code ch - 48))) ds;
  if neg then Z.opp !acc else !acc

let words (s:string) = List.filter (fun w -> w <> "") (String.split_on_char ' ' s)
let cps_of (ws:string list) : n list = List.map (fun x -> n_of_int (int_of_string x)) ws
let str_cps (l:n list) = String.concat "." (List.map str_n l)

let str_token (t:token) = str_n (tok_code t.tk) ^ ":" ^ str_cps t.tv


(* ---- numbers and S-expressions ---- *)
let pos_of_z = function Zpos p -> p | _ -> XH
let str_num (x:num) = match x with
  | NInt z -> "i" ^ str_z z
  | NFlt q -> let q = qred q in "f" ^ str_z q.qnum ^ "/" ^ str_pos q.qden
  | NNonFinite -> "nan"
let num_of_string (s:string) : num =
  if s = "nan" then NNonFinite else
  let body = String.sub s 1 (String.length s - 1) in
  if s.[0] = 'i' then NInt (z_of_string body)
  else match String.split_on_char '/' body with
    | [a;b] -> NFlt (qred { qnum = z_of_string a; qden = pos_of_z (z_of_string b) })
    | _ -> failwith "num"
let rec str_expr (e:expr) = match e with
  | Const x -> "(c " ^ str_num x ^ ")"
  | Var v -> "(v " ^ str_n v ^ ")"
  | Un (u, c) -> "(" ^ (match u with UNeg -> "neg" | UFact -> "fact" | USgn -> "sgn" | UAbs -> "abs") ^ " " ^ str_expr c ^ ")"
  | Bin (k, l, r) -> "(" ^ (match k with KEq -> "eq" | KAdd -> "add" | KSub -> "sub" | KMul -> "mul" | KDiv -> "div" | KPow -> "pow") ^ " " ^ str_expr l ^ " " ^ str_expr r ^ ")"
let tokens_of (s:string) : string list =
  let b = Buffer.create 16 in let out = ref [] in
  let flush () = if Buffer.length b > 0 then (out := Buffer.contents b :: !out; Buffer.clear b) in
  String.iter (fun c -> match c with
    | '(' | ')' -> flush (); out := String.make 1 c :: !out
    | ' ' -> flush ()
    | _ -> Buffer.add_char b c) s; flush (); List.rev !out
let rec read (ts:string list) : expr * string list = match ts with
  | "(" :: "c" :: x :: ")" :: r -> (Const (num_of_string x), r)
  | "(" :: "v" :: x :: ")" :: r -> (Var (n_of_int (int_of_string x)), r)
  | "(" :: op :: r ->
    (match op with
     | "neg" | "fact" | "sgn" | "abs" -> let (c, r) = read r in
        let u = (match op with "neg" -> UNeg | "fact" -> UFact | "abs" -> UAbs | _ -> USgn) in
        (match r with ")" :: r -> (Un (u, c), r) | _ -> failwith "un")
     | _ -> let k = (match op with "eq" -> KEq | "add" -> KAdd | "sub" -> KSub | "mul" -> KMul | "div" -> KDiv | "pow" -> KPow | _ -> failwith ("op " ^ op)) in
        let (a, r) = read r in let (b, r) = read r in
        (match r with ")" :: r -> (Bin (k, a, b), r) | _ -> failwith "bin"))
  | _ -> failwith "read"
let expr_of (ws:string list) : expr = fst (read (tokens_of (String.concat " " ws)))
let str_path (p:path) = "[" ^ String.concat "" (List.map (function DL -> "L" | DR -> "R") p) ^ "]"
let path_of (s:string) : path =
  let l = ref [] in String.iter (fun c -> match c with 'L' -> l := DL :: !l | 'R' -> l := DR :: !l | _ -> ()) s; List.rev !l
let str_exn = function ValueError -> "ValueError" | InvalidSyntax -> "InvalidSyntax" | InvalidExpression -> "InvalidExpression"
  | OutOfTokens -> "OutOfTokens" | UnexpectedBehavior -> "UnexpectedBehavior" | TrailingTokens -> "TrailingTokens"
  | IndexError -> "IndexError" | KeyError -> "KeyError" | OutOfFuel -> "OutOfFuel"
let str_rexn = function RValueError -> "ValueError" | RAssertion -> "AssertionError" | RAttribute -> "AttributeError"
  | RNotImplemented -> "NotImplementedError" | ROther -> "Other" | RInexact -> "INEXACT"
let rule_of (name:string) (opt:string) : rule = match name with
  | "AS" -> RAssoc | "CS" -> RComm (opt = "1") | "CA" -> RConst | "DF" -> RFactor (opt = "1") | "DM" -> RDistr
  | "MI" -> RInverse | "RS" -> RRestate | "VM" -> RVarMul | "BM" -> RBalanced | _ -> failwith "rule"
let rec split_at (sep:string) (l:string list) : string list * string list = match l with
  | [] -> ([], []) | x :: r -> if x = sep then ([], r) else let (a, b) = split_at sep r in (x :: a, b)
let str_onum = function Some n -> str_num n | None -> "-"
let str_ovar = function Some v -> str_n v | None -> "-"
let str_term (t:termex) = str_onum t.t_coef ^ "," ^ str_ovar t.t_var ^ "," ^ str_onum t.t_exp
let onum_of s = if s = "-" then None else Some (num_of_string s)
let ovar_of s = if s = "-" then None else Some (n_of_int (int_of_string s))
let term_of (s:string) : termex = match String.split_on_char ',' s with
  | [a;b;c] -> { t_coef = onum_of a; t_var = ovar_of b; t_exp = onum_of c } | _ -> failwith "term"

(* ---- shapes:  .  |  ( <shape> <id> <shape> ) ---- *)
let rec nat_of_int k = if k <= 0 then O else S (nat_of_int (k - 1))
let rec int_of_nat = function O -> 0 | S m -> 1 + int_of_nat m
let rec read_bt (ts:string list) : nat bt * string list = match ts with
  | "." :: r -> (E, r)
  | "(" :: r -> let (l, r) = read_bt r in
      (match r with
       | i :: r -> let (rt, r) = read_bt r in
           (match r with ")" :: r -> (T (l, nat_of_int (int_of_string i), rt), r) | _ -> failwith "bt )")
       | [] -> failwith "bt id")
  | _ -> failwith "bt"
let bt_of (ws:string list) : nat bt = fst (read_bt (tokens_of (String.concat " " ws)))
let rec str_bt (t:nat bt) = match t with E -> "." | T (l, i, r) -> "(" ^ str_bt l ^ " " ^ string_of_int (int_of_nat i) ^ " " ^ str_bt r ^ ")"
let str_calls l = String.concat " " (List.map (fun (a, d) -> string_of_int (int_of_nat a) ^ ":" ^ string_of_int (int_of_nat d)) l)
let side_path (s:string) : side list =
  let l = ref [] in String.iter (fun c -> match c with 'L' -> l := SL :: !l | 'R' -> l := SR :: !l | _ -> ()) s; List.rev !l

let str_bres = function BOk b -> if b then "1" else "0" | BAssert -> "EXC AssertionError" | BFuel -> "FUEL" | BUnmodelled -> "UNMODELLED"

let handle (line:string) : string =
  match words line with
  | "TOK" :: ex :: cps ->
    (match tokenize (ex = "1") (cps_of cps) with
     | LOk ts -> "OK " ^ String.concat " " (List.map str_token ts)
     | LErr c -> "ERR " ^ str_n c
     | LFuel -> "FUEL")
  | "PARSE" :: cps ->
    (match parse (cps_of cps) with
     | Ok e -> "OK " ^ str_expr e
     | Raises x -> "EXC " ^ str_exn x)
  | "PRINT" :: ws ->
    (match show_top (expr_of ws) with Some s -> "OK " ^ String.concat " " (List.map str_n s) | None -> "NONE")
  | "EVAL" :: ws ->
    let (ews, bws) = split_at ";" ws in
    let e = expr_of ews in
    let binds = List.map (fun b -> match String.split_on_char '=' b with
      | [v; x] -> (int_of_string v, x) | _ -> failwith "bind") bws in
    let rho (v:n) : num option =
      (match List.assoc_opt (int_of_n v) binds with Some "none" -> None | Some x -> Some (num_of_string x) | None -> None) in
    (match eval rho e with EOk x -> "OK " ^ str_num x | EInexact -> "INEXACT" | EValueError -> "EXC ValueError" | ENonFinite -> "NONFINITE")
  | "RULE" :: name :: opt :: ws ->
    let e = expr_of ws in
    let r = rule_of name opt in
    let outs = List.map (fun p ->
      if can_apply e p r then
        (match apply e p r with
         | ROk (e', p') -> "1 " ^ str_path p' ^ " " ^ str_expr e'
         | RRaises x -> "1 EXC " ^ str_rexn x)
      else "0") (inorder_paths e []) in
    String.concat " | " outs
  | "APPLY" :: name :: opt :: pth :: ws ->
    let e = expr_of ws in
    let r = rule_of name opt in
    let p = path_of pth in
    if can_apply e p r then
      (match apply e p r with
       | ROk (e', p') -> "1 " ^ str_path p' ^ " " ^ str_expr e'
       | RRaises x -> "1 EXC " ^ str_rexn x)
    else "0"
  | "PLAN" :: name :: opt :: pth :: ws ->
    (* object-level plan of a rewrite: attachment path, linear flag, result tree, provenance of every result node in pre-order *)
    let e = expr_of ws in
    let r = rule_of name opt in
    let p = path_of pth in
    (match plan_result e p r with
     | Some (((q, e'), pv), lin) ->
       "OK " ^ str_path q ^ " " ^ (if lin then "1" else "0") ^ " " ^ str_expr e' ^ " ; " ^
         String.concat " " (List.map (function Some o -> str_path o | None -> "-") pv)
     | None -> "NONE")
  | "FIND" :: name :: opt :: ws ->
    let e = expr_of ws in
    let r = rule_of name opt in
    let l = find_nodes r e in
    let rec nat_int = function O -> 0 | S m -> 1 + nat_int m in
    "OK " ^ (match find_node r e with Some p -> str_path p | None -> "-") ^ " " ^
      String.concat " " (List.map (fun (i, p) -> string_of_int (nat_int i) ^ ":" ^ str_path p) l)
  | "TERMEX" :: pp :: ws ->
    (match get_term_ex (pp = "1") (expr_of ws) with Some t -> "OK " ^ str_term t | None -> "NONE")
  | "FACTOR" :: x :: [] ->
    "OK " ^ String.concat " " (List.map (fun (a, b) -> str_num a ^ ":" ^ str_num b) (factor (num_of_string x)))
  | "FACTORADD" :: a :: b :: [] ->
    (match factor_add_terms_ex (term_of a) (term_of b) with
     | None -> "NONE"
     | Some f -> "OK " ^ String.concat " " [str_num f.best; str_num f.f_left; str_num f.f_right; str_ovar f.f_var; str_onum f.f_exp;
                                            str_onum f.l_exp; str_onum f.r_exp; str_ovar f.l_var; str_ovar f.r_var])
  | "HIST" :: ws ->
    (* ops separated by "|":  P <cps> | T <cps> | C | POP k | SET k i kindcode:cps | CLR k   (k = index of the k-th list handed out) *)
    let rec split_bar acc cur = function
      | [] -> List.rev (List.rev cur :: acc)
      | "|" :: r -> split_bar (List.rev cur :: acc) [] r
      | x :: r -> split_bar acc (x :: cur) r in
    let ops = split_bar [] [] ws in
    let st = ref init in
    let handed = ref [] in
    let rec nat_of_int k = if k <= 0 then O else S (nat_of_int (k - 1)) in
    let kind_of_code c = List.find (fun k -> int_of_n (tok_code k) = c)
      [TConst; TVar; TPlus; TMinus; TMul; TDiv; TExp; TFact; TOpen; TClose; TFunc; TEqual; TPad; TEOF; TInvalid] in
    let href k = (try List.nth (List.rev !handed) k with _ -> nat_of_int 100000) in
    let outs = List.map (fun o ->
      let op = (match o with
        | "P" :: cps -> OParse (cps_of cps)
        | "T" :: cps -> OTokenize (cps_of cps)
        | ["C"] -> OClear
        | ["POP"; k] -> OClientPop (href (int_of_string k))
        | ["CLR"; k] -> OClientClear (href (int_of_string k))
        | ["SET"; k; i; t] ->
          let (c, v) = (match String.split_on_char ':' t with [c; v] -> (c, v) | _ -> failwith "tok") in
          let cps = List.filter (fun w -> w <> "") (String.split_on_char '.' v) in
          OClientSet (href (int_of_string k), nat_of_int (int_of_string i), { tk = kind_of_code (int_of_string c); tv = cps_of cps })
        | _ -> failwith "hist op") in
      let (st', out) = pstep !st op in
      st := st';
      (match out with
       | RTree (Ok e) -> "OK " ^ str_expr e
       | RTree (Raises x) -> "EXC " ^ str_exn x
       | RTokens (Some (r, ts)) -> handed := r :: !handed; "TOKS " ^ String.concat " " (List.map str_token ts)
       | RTokens None -> "EXC ValueError"
       | RUnit -> "-")) ops in
    String.concat " | " outs
  | "BTVISIT" :: ord :: stop :: ws ->
    (* visitor = logger that returns STOP on node id `stop` (-1: never) *)
    let t = bt_of ws in
    let st = int_of_string stop in
    let f = logger (fun a _ -> int_of_nat a = st) in
    let (calls, stopped) = (match ord with "pre" -> visit_pre f t O [] | "in" -> visit_in f t O [] | _ -> visit_post f t O []) in
    (if stopped then "STOP " else "DONE ") ^ str_calls calls
  | "BTORD" :: ord :: ws ->
    let t = bt_of ws in
    "OK " ^ str_calls (match ord with "pre" -> pre t O | "in" -> ino t O | _ -> post t O)
  | "BTLIST" :: ord :: ws ->
    let t = bt_of ws in
    "OK " ^ String.concat " " (List.map (fun a -> string_of_int (int_of_nat a)) (to_list (match ord with "pre" -> OPre | "in" -> OIn | _ -> OPost) t))
  | "BTFINDID" :: i :: ws ->
    let t = bt_of ws in let k = int_of_string i in
    (match find_id (fun a -> int_of_nat a mod 7 = k) t with Some a -> "OK " ^ string_of_int (int_of_nat a) | None -> "NONE")
  | "BTFINDTYPE" :: i :: ws ->
    let t = bt_of ws in let k = int_of_string i in
    "OK " ^ String.concat " " (List.map (fun a -> string_of_int (int_of_nat a)) (find_type (fun a -> int_of_nat a mod 3 = k) t))
  | "BTROT" :: pth :: ws ->
    let t = bt_of ws in
    "OK " ^ str_bt (rotate_tree t (side_path pth))
  | "LAYOUT" :: rep :: ux :: uy :: ws ->
    (* repeated layout() calls on the same nodes; coordinates id:x:y in in-order, then bounds *)
    let t = bt_of ws in
    let q_of s = (match num_of_string s with NFlt q -> q | NInt z -> { qnum = z; qden = XH } | NNonFinite -> failwith "q") in
    let ux = q_of ux and uy = q_of uy in
    let str_q (q:q) = let q = qred q in str_z q.qnum ^ "/" ^ str_pos q.qden in
    let st = ref [] in
    let outs = ref [] in
    for _ = 1 to int_of_string rep do
      let (s', c) = layout t !st in
      st := s';
      let b = measure_bounds ux uy c in
      let cs = String.concat " " (List.map (fun ((i, x), d) ->
        string_of_int (int_of_nat i) ^ ":" ^ str_q (qmult x ux) ^ ":" ^ str_q (qmult { qnum = z_of_int (int_of_nat d); qden = XH } uy)) c) in
      outs := (cs ^ " ; " ^ str_q b.minX ^ " " ^ str_q b.maxX ^ " " ^ str_q b.minY ^ " " ^ str_q b.maxY) :: !outs
    done;
    String.concat " | " (List.rev !outs)
  | "MAKETERM" :: c :: v :: e :: [] ->
    (match make_term (num_of_string c) (ovar_of v) (onum_of e) with Some t -> "OK " ^ str_expr t | None -> "NONE")
  | "SUBTERMS" :: ws ->
    let so = function Some e -> str_expr e | None -> "-" in
    (match get_sub_terms (expr_of ws) with
     | GTerms l -> "OK " ^ String.concat " ; " (List.map (fun ((c, v), e) -> so c ^ " , " ^ so v ^ " , " ^ so e) l)
     | GFalse -> "FALSE" | GAssert -> "EXC AssertionError" | GFuel -> "FUEL")
  | "SIMPLE" :: ws -> str_bres (is_simple_term (expr_of ws))
  | "PREFERRED" :: pp :: ws -> str_bres (is_preferred_term_form (expr_of ws) (path_of pp))
  | "GETTERM" :: pp :: ws ->
    (match get_term (expr_of ws) (path_of pp) with
     | None -> "FALSE"
     | Some t -> "OK " ^ String.concat "," (List.map str_num t.tr_coefs) ^ " | " ^ String.concat "," (List.map str_n t.tr_vars) ^ " | " ^ str_onum t.tr_exp)
  | "GETTERMS" :: pp :: ws -> "OK " ^ String.concat " " (List.map str_path (get_terms (expr_of ws) (path_of pp)))
  | "HASLIKE" :: pp :: ws -> if has_like_terms (expr_of ws) (path_of pp) then "1" else "0"
  | "LIKE" :: p1 :: p2 :: ws ->
    let (a, b) = split_at ";" ws in
    if terms_are_like (expr_of a) (path_of p1) (expr_of b) (path_of p2) then "1" else "0"
  | "HEAP" :: op :: target :: ws ->
    (* node records separated by "|":  cls id val ident col l r p cn ct   ('-' = None; ct: '-' None, 'e' "", else dotted class tags) *)
    let rec split_bar acc cur = function
      | [] -> List.rev (List.rev cur :: acc)
      | "|" :: r -> split_bar (List.rev cur :: acc) [] r
      | x :: r -> split_bar acc (x :: cur) r in
    let oaddr x = if x = "-" then None else Some (nat_of_int (int_of_string x)) in
    let node_of = function
      | [cls; id; v; ident; col; l; r; p; cn; ct] ->
        { h_cls = n_of_int (int_of_string cls); h_id = n_of_int (int_of_string id); h_val = onum_of v; h_ident = ovar_of ident; h_col = (col = "1");
          h_l = oaddr l; h_r = oaddr r; h_p = oaddr p; h_cn = oaddr cn;
          h_ct = (if ct = "-" then None else if ct = "e" then Some [] else Some (List.map (fun x -> n_of_int (int_of_string x)) (String.split_on_char '.' ct))) }
      | _ -> failwith "hnode" in
    let heap = List.map node_of (List.filter (fun l -> l <> []) (split_bar [] [] ws)) in
    let soa = function None -> "-" | Some a -> string_of_int (int_of_nat a) in
    let str_node n = String.concat " " [str_n n.h_cls; str_n n.h_id; str_onum n.h_val; str_ovar n.h_ident; (if n.h_col then "1" else "0"); soa n.h_l; soa n.h_r; soa n.h_p; soa n.h_cn;
                                        (match n.h_ct with None -> "-" | Some [] -> "e" | Some l -> String.concat "." (List.map str_n l))] in
    let fin = function
      | HOk (h, a) -> "OK " ^ string_of_int (int_of_nat a) ^ " | " ^ String.concat " | " (List.map str_node h)
      | HFuel -> "FUEL" | HBad -> "BAD" in
    let a = nat_of_int (int_of_string target) in
    (match op with
     | "clone" -> fin (clone (nat_of_int (List.length heap + 1)) heap a)
     | "cfr" -> fin (clone_from_root heap a)
     | "rotate" -> fin (HOk (hrotate heap a, a))
     | _ -> "?")
  | "PROB" :: ws ->
    let (ps, ds) = split_at "|" ws in
    let draws = List.map z_of_string ds in
    let b x = (x = "1") in
    let q x = (match String.split_on_char '/' x with [a; d] -> { qnum = z_of_string a; qden = pos_of_z (z_of_string d) } | _ -> failwith "q") in
    let z = z_of_string in
    let opc_of c = (match c with '+' -> OPlus | '-' -> OMinus | _ -> OTimes) in
    let total = List.length draws in
    let fin (r : (problem * z) pres) = (match r with
      | POk ((p, c), rest) -> "OK " ^ string_of_int (total - List.length rest) ^ " " ^ str_z c ^ " " ^ String.concat " " (List.map str_n (render p))
      | PRaise -> "RAISE" | PBad -> "BAD" | PRange -> "RANGE") in
    (match ps with
     | ["combine"; pr; mn; mx; easy; pw] -> fin (gen_combine_terms_in_place (b pr) (z mn) (z mx) (b easy) (b pw) draws)
     | ["haystack"; pr; mn; mx; bl; easy; pw] -> fin (gen_commute_haystack (b pr) (z mn) (z mx) (z bl) (b easy) (b pw) draws)
     | ["blockers1"; pr; n; pp] -> fin (gen_move_around_blockers_one (b pr) (z n) (q pp) draws)
     | ["blockers2"; pr; n; pp] -> fin (gen_move_around_blockers_two (b pr) (z n) (q pp) draws)
     | ["binbin"; pr; mn; mx; simple; pp; lp] -> fin (gen_binomial_times_binomial (b pr) (z mn) (z mx) (b simple) (q pp) (q lp) draws)
     | ["binmono"; pr; mn; mx; simple; pp; lp] -> fin (gen_binomial_times_monomial (b pr) (z mn) (z mx) (b simple) (q pp) (q lp) draws)
     | ["simplify"; pr; nt; ov; om; its; pp; ovp; np; shp; svp; gnp; noise] ->
       let mode = (if om = "R" then OpRand else if om.[0] = 'F' then OpFixed (opc_of om.[1])
                   else OpChoice (List.init (String.length om - 1) (fun i -> opc_of om.[i + 1]))) in
       fin (gen_simplify_multiple_terms (b pr) (z nt) (b ov) mode (q its) (q pp) (q ovp) (q np) (q shp) (q svp) (q gnp)
              (if noise = "-" then None else Some (z noise)) draws)
     | ["rvars"; n; common; excl] ->
       let ex = (if excl = "-" then [] else List.map (fun i -> { v_common = b common; v_idx = nat_of_int (int_of_string i) }) (String.split_on_char ',' excl)) in
       (match get_rand_vars (z n) ex (b common) draws with
        | POk (vs, rest) -> "OK " ^ string_of_int (total - List.length rest) ^ " " ^ String.concat " " (List.map (fun v -> str_n (letter v)) vs)
        | PRaise -> "RAISE" | PBad -> "BAD" | PRange -> "RANGE")
     | ["split"; v] ->
       (match split_in_two_random (z v) draws with
        | POk ((a, c), rest) -> "OK " ^ string_of_int (total - List.length rest) ^ " " ^ str_z a ^ " " ^ str_z c
        | PRaise -> "RAISE" | PBad -> "BAD" | PRange -> "RANGE")
     | ["rnum"; pr] ->
       (match rand_number (b pr) draws with
        | POk (c, rest) -> "OK " ^ string_of_int (total - List.length rest) ^ " " ^ String.concat " " (List.map str_n (r_num c))
        | PRaise -> "RAISE" | PBad -> "BAD" | PRange -> "RANGE")
     | _ -> "?")
  | _ -> "?"

let () =
  try while true do
    let line = input_line stdin in
    print_endline (try handle line with e -> "DRIVER-EXC " ^ Printexc.to_string e)
  done with End_of_file -> ()
