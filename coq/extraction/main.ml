(* Line-protocol driver around the extracted model. It only converts between text and the
   extracted datatypes; all logic is in model.ml (extracted from coq/theories). *)
open Model

(* ---- decimal I/O for extracted positive / N / Z via digit lists (little endian) ---- *)
let rec dbl (l:int list) (carry:int) : int list = match l with
  | [] -> if carry = 0 then [] else [carry]
  | d::r -> let v = 2*d + carry in (v mod 10) :: dbl r (v/10)
let rec pos_digits (p:positive) : int list = match p with
  | XH -> [1] | XO q -> dbl (pos_digits q) 0 | XI q -> dbl (pos_digits q) 1
let str_digits l = String.concat "" (List.rev_map string_of_int l)
let str_pos p = str_digits (pos_digits p)
let str_z (z:z) = match z with Z0 -> "0" | Zpos p -> str_pos p | Zneg p -> "-" ^ str_pos p
let str_n (n:n) = match n with N0 -> "0" | Npos p -> str_pos p
let rec pos_of_int (k:int) : positive =
  if k = 1 then XH else if k land 1 = 0 then XO (pos_of_int (k lsr 1)) else XI (pos_of_int (k lsr 1))
let n_of_int k = if k = 0 then N0 else Npos (pos_of_int k)
let z_of_int k = if k = 0 then Z0 else if k > 0 then Zpos (pos_of_int k) else Zneg (pos_of_int (-k))
let int_of_n (x:n) = int_of_string (str_n x)
let z_of_string (s:string) : z =
  let neg = String.length s > 0 && s.[0] = '-' in
  let ds = if neg then String.sub s 1 (String.length s - 1) else s in
  let acc = ref Z0 in
  String.iter (fun ch -> acc := Z.add (Z.mul !acc (z_of_int 10)) (z_of_int (Char.code ch - 48))) ds;
  if neg then Z.opp !acc else !acc

let words (s:string) = List.filter (fun w -> w <> "") (String.split_on_char ' ' s)
let cps_of (ws:string list) : n list = List.map (fun x -> n_of_int (int_of_string x)) ws
let str_cps (l:n list) = String.concat "." (List.map str_n l)

let str_token (t:token) = str_n (tok_code t.tk) ^ ":" ^ str_cps t.tv

let handle (line:string) : string =
  match words line with
  | "TOK" :: ex :: cps ->
    (match tokenize (ex = "1") (cps_of cps) with
     | LOk ts -> "OK " ^ String.concat " " (List.map str_token ts)
     | LErr c -> "ERR " ^ str_n c
     | LFuel -> "FUEL")
  | _ -> "?"

let () =
  try while true do
    let line = input_line stdin in
    print_endline (try handle line with e -> "DRIVER-EXC " ^ Printexc.to_string e)
  done with End_of_file -> ()
