(* Extraction of the executable model for the correspondence driver.
   ExtrOcamlBasic only (bool, option, unit, list, prod, sumbool -> OCaml's); no Extract Constant;
   nat, positive, N, Z, Q stay extracted inductives. *)
From Coq Require Import List NArith ZArith QArith.
From Mathy Require Import Tok Params Lexer.
Require Extraction. Require Import ExtrOcamlBasic.
Extraction Language OCaml.
Extraction "model.ml" tokenize tok_code Z.add Z.mul Z.opp Qred.
