(* Extraction of the executable model for the correspondence driver.
   ExtrOcamlBasic only (bool, option, unit, list, prod, sumbool -> OCaml's); no Extract Constant;
   nat, positive, N, Z, Q stay extracted inductives. *)
From Coq Require Import List NArith ZArith QArith.
From Mathy Require Import Tok Params TokSet Lexer Num Expr Parser ParserObj Printer Eval Util Terms Problems Rules Plans Bt Heap Layout.
Require Extraction. Require Import ExtrOcamlBasic.
Extraction Language OCaml.
Extraction "model.ml" plan_result tokenize tok_code parse parse_tokens show_top eval can_apply apply find_nodes find_node inorder_paths
  gen_combine_terms_in_place gen_commute_haystack gen_move_around_blockers_one gen_move_around_blockers_two gen_binomial_times_binomial gen_binomial_times_monomial gen_simplify_multiple_terms get_rand_vars split_in_two_random rand_number render r_num letter get_sub_terms is_simple_term is_preferred_term_form get_term get_terms has_like_terms terms_are_like get_term_ex factor factor_add_terms_ex make_term pstep init clone clone_from_root hrotate
  visit_pre visit_in visit_post logger pre ino post to_list find_id find_type rotate_tree bpaths label shapes_upto layout measure_bounds
  Z.add Z.mul Z.opp Qred.
