(* C04 — Printing an expression and parsing it back preserves its meaning.
   `printable` is the class of trees inside the property's quantifier: '=' only along the left spine from the root; below it no '=',
   factorial operands are literals, variables are letters, and every constant satisfies the round-trip condition `const_text`
   (its text is [-]run with run a number run that coerce reads back to the same number). That condition is PROVED for every constant
   that has a text at all: all integers of any size and all numbers with at most 40 decimal places (C04_constants), so `printable`
   is the purely structural predicate `shape` (C04_structural). *)
From Coq Require Import List NArith ZArith QArith Bool Reals.
From Mathy Require Import Num Expr Parser Printer Sem Rules Walk.
From MathyProofs Require Import PrintTokens PrintGrammar PrintPhrase PrintParse PrintInt PrintDec VarsFacts RulesVarsD ShapeFacts RulesShapeD ParserShape.
Import ListNotations.

(* the text of a printable tree is accepted by the parser, and the re-parsed tree has the same value at EVERY assignment (defined
   exactly where the original is, hence also the same solution set for equations) and the same variables in the same order.
   So parentheses are emitted wherever dropping them would change grouping, sign or exponent scope. *)
Theorem C04_print_then_parse : forall e, printable e ->
  exists s e', show_top e = Some s /\ parse s = Ok e' /\ (forall rho, den rho e' = den rho e) /\ vars e' = vars e.
Proof. intros e P. destruct (print_parse e P) as (s & e' & S & Q & R1 & R2). exists s, e'. auto. Qed.
Print Assumptions C04_print_then_parse.

(* the printed characters lex to exactly the tokens the printer means (no two printed tokens merge, nothing is lost) *)
Theorem C04_printed_text_lexes : forall e s, printable e -> show_top e = Some s -> Lexer.tokenize true s = Lexer.LOk (ptoks e None ++ [LexerFacts.EOFtok]).
Proof.
  intros e s P S. apply LexerFacts.tokenize_complete. cbn [negb].
  pose proof (lex_spine e None s P (or_introl eq_refl) S [] [LexerFacts.EOFtok]) as L. rewrite app_nil_r in L. apply L; [split; reflexivity|constructor].
Qed.
Print Assumptions C04_printed_text_lexes.

(* integer constants of any magnitude satisfy the constant condition *)
Theorem C04_integer_constants : forall z, pr0 (Const (NInt z)).
Proof. intros z. cbn [pr0]. exists (z <? 0)%Z, (show_nat (Z.abs z)), (NInt (Z.abs z)). apply const_text_int. Qed.
Print Assumptions C04_integer_constants.

(* every constant the printer can print (finite; at most 40 decimal places) satisfies the constant condition *)
Theorem C04_constants : forall c, show_num c <> None -> pr0 (Const c).
Proof. intros c H. cbn [pr0]. now apply const_text_all. Qed.
Print Assumptions C04_constants.

(* the structural form of the class: '=' on the left spine; below it no '=', factorial of literals, letters, constants that have a text *)
Fixpoint shape0 (e:expr) : Prop :=
  match e with
  | Const c => show_num c <> None
  | Var v => Lexer.is_alpha v = true
  | Un UFact c => (exists n, c = Const n) /\ shape0 c
  | Un UAbs _ => False
  | Un _ c => shape0 c
  | Bin KEq _ _ => False
  | Bin _ l r => shape0 l /\ shape0 r end.
Fixpoint shape (e:expr) : Prop := match e with Bin KEq l r => shape l /\ shape0 r | _ => shape0 e end.
Lemma shape0_pr0 e : shape0 e -> pr0 e.
Proof.
  induction e as [c|v|u c IH|k l IHl r IHr]; cbn [shape0 pr0].
  - apply const_text_all.
  - auto.
  - destruct u; try (intros [A B]; split); auto.
  - destruct k; try tauto.
Qed.
Lemma shape_printable e : shape e -> printable e.
Proof.
  induction e as [c|v|u c IH|k l IHl r IHr]; try (intros H; apply pr0_printable, shape0_pr0; exact H).
  destruct k; try (intros H; apply pr0_printable, shape0_pr0; exact H). cbn [shape printable]. intros [A B]. split; [auto|now apply shape0_pr0].
Qed.
Theorem C04_structural : forall e, shape e ->
  exists s e', show_top e = Some s /\ parse s = Ok e' /\ (forall rho, den rho e' = den rho e) /\ vars e' = vars e.
Proof. intros e H. apply C04_print_then_parse. now apply shape_printable. Qed.
Print Assumptions C04_structural.

(* The class is closed under the rewrite rules, up to the constants a rule creates: from a tree of the class with at most one '='
   every sequence of applicable rewrites (any rules, any nodes) leads to a tree with the same structure (no '=' below the root,
   factorial only of literals: RulesShapeD) and the same variables (RulesVarsD); so whenever its constants still have a text, it
   prints and re-parses to the same meaning - after every step. (A fold can produce a constant with more decimal places than the
   printer model renders, 40: that is the one hypothesis left.) *)
Lemma sk0_shape0 e : sk0 e -> (forall v, In v (vars e) -> Lexer.is_alpha v = true) -> (forall c, In c (consts e) -> show_num c <> None) -> shape0 e.
Proof.
  induction e as [c|v|u c IH|k l IHl r IHr]; cbn [sk0 shape0 vars consts]; intros S V K.
  - apply K. now left.
  - apply V. now left.
  - destruct u; try (apply IH; assumption); try contradiction. split; [exact S|]. destruct S as (n & ->). cbn [shape0]. apply K. now left.
  - destruct k; try contradiction; destruct S as (S1 & S2); (split; [apply IHl|apply IHr]); auto; intros x Hx; (apply V || apply K); apply in_or_app; auto.
Qed.
Lemma sk1_shape e : sk1 e -> (forall v, In v (vars e) -> Lexer.is_alpha v = true) -> (forall c, In c (consts e) -> show_num c <> None) -> shape e.
Proof.
  intros S V K. destruct e as [c|v|u c|k l r]; try (apply sk0_shape0; assumption).
  destruct k; try (apply sk0_shape0; assumption). cbn [sk1 shape vars consts] in *. destruct S as (S1 & S2).
  assert (shape0 l) as Hl by (apply sk0_shape0; auto; intros x Hx; (apply V || apply K); apply in_or_app; auto).
  split; [|apply sk0_shape0; auto; intros x Hx; (apply V || apply K); apply in_or_app; auto].
  destruct l as [| | |[] ? ?]; try exact Hl. contradiction.
Qed.
Theorem C04_round_trip_along_rewrites : forall root steps final,
  sk1 root -> (forall v, In v (vars root) -> Lexer.is_alpha v = true) ->
  run root steps = Some final -> (forall c, In c (consts final) -> show_num c <> None) ->
  exists s e', show_top final = Some s /\ parse s = Ok e' /\ (forall rho, den rho e' = den rho final) /\ vars e' = vars final.
Proof.
  intros root steps final S V R K. apply C04_structural. apply sk1_shape; auto.
  - eapply run_keeps_structure; eauto.
  - intros v Hv. apply V. apply (run_same_vars steps root final R v). exact Hv.
Qed.
Print Assumptions C04_round_trip_along_rewrites.

(* ... and everything the parser returns is in the class, provided its constants have a text: '=' only along the left spine from
   the root, no '=' below it, factorial only of literals, variables letters (proofs/ParserShape.v). So a string that parses, prints
   and re-parses to the same meaning. *)
Lemma spine_shape e : sk_spine e -> (forall v, In v (vars e) -> Lexer.is_alpha v = true) -> (forall c, In c (consts e) -> show_num c <> None) -> shape e.
Proof.
  induction e as [c|v|u c IH|k l IHl r IHr]; intros S V K; try (apply sk0_shape0; assumption).
  destruct k; try (apply sk0_shape0; assumption). cbn [sk_spine shape vars consts] in *. destruct S as (S1 & S2). split.
  - apply IHl; auto; intros x Hx; (apply V || apply K); apply in_or_app; auto.
  - apply sk0_shape0; auto; intros x Hx; (apply V || apply K); apply in_or_app; auto.
Qed.
Theorem C04_parsed_trees_round_trip : forall s0 e, parse s0 = Ok e -> (forall c, In c (consts e) -> show_num c <> None) ->
  exists s e', show_top e = Some s /\ parse s = Ok e' /\ (forall rho, den rho e' = den rho e) /\ vars e' = vars e.
Proof.
  intros s0 e H K. destruct (parse_shape s0 e H) as (S & V). apply C04_structural. now apply spine_shape.
Qed.
Print Assumptions C04_parsed_trees_round_trip.

(* equations: the re-parsed equation has the same solutions *)
Theorem C04_equation_solutions : forall l r, printable (Bin KEq l r) ->
  exists s e', show_top (Bin KEq l r) = Some s /\ parse s = Ok e' /\ forall rho v, den rho e' = Some v <-> den rho (Bin KEq l r) = Some v.
Proof. intros l r P. destruct (print_parse _ P) as (s & e' & S & Q & R1 & _). exists s, e'. split; [exact S|]. split; [exact Q|]. intros rho v. now rewrite R1. Qed.
Print Assumptions C04_equation_solutions.

Example C04_example :
  let e := Bin KMul (Un UNeg (Bin KPow (Un UNeg (Var 120%N)) (Const (NInt 2)))) (Bin KPow (Bin KMul (Const (NInt 2)) (Var 121%N)) (Bin KPow (Var 122%N) (Const (NInt 3)))) in
  show_top e = Some [45;40;45;120;41;94;50;32;42;32;40;50;121;41;94;40;122;94;51;41]%N /\
  parse [45;40;45;120;41;94;50;32;42;32;40;50;121;41;94;40;122;94;51;41]%N = Ok e.
Proof. vm_compute. split; reflexivity. Qed.   (* "-(-x)^2 * (2y)^(z^3)" *)
