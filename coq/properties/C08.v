(* C08 — Each rule performs its documented transformation on its documented forms.
   Schema theorems over the model (theories/Rules.v), for ALL operands / coefficients / variables / exponents and an
   ARBITRARY surrounding context (root, path): the rule reports applicable and the result has the documented shape.
   The documented non-applicable forms are theorems too. *)
From Coq Require Import List NArith ZArith QArith Reals Bool.
From Mathy Require Import Num Expr Util Rules Sem.
From MathyProofs Require Import ExprFacts SemFacts RulesSoundA RulesSoundC.
Import ListNotations.

Definition not_kind (k:bk) (e:expr) : Prop := match e with Bin k' _ _ => k' <> k | _ => True end.

(* ---- commutative swap: a + b -> b + a, a * b -> b * a (a not itself a sum / product: then the chain is regrouped) ---- *)
Theorem C08_commute_add : forall root p a b pr, subtree root p = Some (Bin KAdd a b) -> not_kind KAdd a ->
  can_apply root p (RComm pr) = true /\ apply root p (RComm pr) = ROk (replace root p (Bin KAdd b a), p).
Proof.
  intros root p a b pr Hs Ha. unfold can_apply, apply, comm_can, comm_apply, node. rewrite Hs. split; [reflexivity|].
  destruct a as [| | |k x y]; try reflexivity. destruct k; try reflexivity. exfalso. now apply Ha.
Qed.
Print Assumptions C08_commute_add.
Theorem C08_commute_mul : forall root p a b, subtree root p = Some (Bin KMul a b) -> not_kind KMul a ->
  can_apply root p (RComm true) = true /\ apply root p (RComm true) = ROk (replace root p (Bin KMul b a), p).
Proof.
  intros root p a b Hs Ha. unfold can_apply, apply, comm_can, comm_apply, node. rewrite Hs. split; [reflexivity|].
  destruct a as [| | |k x y]; try reflexivity. destruct k; try reflexivity. exfalso. now apply Ha.
Qed.
Print Assumptions C08_commute_mul.
Theorem C08_commute_chain : forall root p x y b pr, subtree root p = Some (Bin KAdd (Bin KAdd x y) b) ->
  apply root p (RComm pr) = ROk (replace root p (Bin KAdd (Bin KAdd x b) y), p).
Proof. intros. unfold apply, comm_apply, node. rewrite H. reflexivity. Qed.
Print Assumptions C08_commute_chain.
(* documented non-applicability: a quotient or a difference is never swapped *)
Theorem C08_no_commute_sub_div : forall root p a b pr k, (k = KSub \/ k = KDiv \/ k = KPow) -> subtree root p = Some (Bin k a b) ->
  can_apply root p (RComm pr) = false.
Proof. intros root p a b pr k Hk Hs. unfold can_apply, comm_can, node. rewrite Hs. destruct Hk as [-> | [-> | ->]]; reflexivity. Qed.
Print Assumptions C08_no_commute_sub_div.

(* ---- associative regrouping: (a + b) + c -> a + (b + c) and a + (b + c) -> (a + b) + c, same for * ---- *)
Theorem C08_assoc_left : forall root q k a b c, (k = KAdd \/ k = KMul) -> subtree root q = Some (Bin k (Bin k a b) c) ->
  can_apply root (q ++ [DL]) RAssoc = true /\ apply root (q ++ [DL]) RAssoc = ROk (replace root q (Bin k a (Bin k b c)), q).
Proof.
  intros root q k a b c Hk Hs.
  assert (parent_path (q ++ [DL]) = Some (q, DL)) as PP by (unfold parent_path; rewrite rev_app_distr; simpl; now rewrite rev_involutive).
  unfold can_apply, apply, assoc_can, assoc_apply, node, par, parent. rewrite PP, subtree_app, Hs. simpl.
  destruct Hk as [-> | ->]; split; reflexivity.
Qed.
Print Assumptions C08_assoc_left.
Theorem C08_assoc_right : forall root q k a b c, (k = KAdd \/ k = KMul) -> subtree root q = Some (Bin k a (Bin k b c)) ->
  can_apply root (q ++ [DR]) RAssoc = true /\ apply root (q ++ [DR]) RAssoc = ROk (replace root q (Bin k (Bin k a b) c), q).
Proof.
  intros root q k a b c Hk Hs.
  assert (parent_path (q ++ [DR]) = Some (q, DR)) as PP by (unfold parent_path; rewrite rev_app_distr; simpl; now rewrite rev_involutive).
  unfold can_apply, apply, assoc_can, assoc_apply, node, par, parent. rewrite PP, subtree_app, Hs. simpl.
  destruct Hk as [-> | ->]; split; reflexivity.
Qed.
Print Assumptions C08_assoc_right.

(* ---- constant arithmetic: c1 op c2 -> the constant (exact; powers with an irrational value are marked inexact) ---- *)
Theorem C08_fold : forall root p k x y, k <> KEq -> subtree root p = Some (Bin k (Const x) (Const y)) ->
  can_apply root p RConst = true /\
  apply root p RConst = match fold_bin k x y with FNum n => ROk (replace root p (Const n), p) | FInexact => RRaises RInexact | FRaise e => RRaises e end.
Proof.
  intros root p k x y Hk Hs.
  assert (const_type root p = Some (C_SIMPLE, x, y)) as CT.
  { unfold const_type, node. rewrite Hs. destruct k; try reflexivity. exfalso. now apply Hk. }
  unfold can_apply, apply, const_apply. rewrite CT. unfold node. rewrite Hs. split; [reflexivity|].
  destruct (fold_bin k x y); reflexivity.
Qed.
Print Assumptions C08_fold.
Theorem C08_fold_values : forall x y, fold_bin KAdd (NInt x) (NInt y) = FNum (NInt (x + y)) /\ fold_bin KSub (NInt x) (NInt y) = FNum (NInt (x - y)) /\
  fold_bin KMul (NInt x) (NInt y) = FNum (NInt (x * y)).
Proof. intros. repeat split. Qed.
Print Assumptions C08_fold_values.

(* ---- factor out: t1 + t2 (two terms) -> (left + right) * common, where best * left = coefficient of t1 etc. ---- *)
Theorem C08_factor_shape : forall root p cst l r lt rt f a b c,
  subtree root p = Some (Bin KAdd l r) -> get_term_ex false l = Some lt -> get_term_ex false r = Some rt ->
  factor_add_terms_ex lt rt = Some f ->
  make_term (best f) (f_var f) (f_exp f) = Some a -> make_term (f_left f) (l_var f) (l_exp f) = Some b -> make_term (f_right f) (r_var f) (r_exp f) = Some c ->
  apply root p (RFactor cst) = ROk (replace root p (Bin KMul (Bin KAdd b c) a), p).
Proof.
  intros root p cst l r lt rt f a b c Hs GL GR FA MA MB MC. unfold apply, df_apply, df_type, node. rewrite Hs. cbn [is_k bk_eqb negb olft orgt lft rgt].
  rewrite !gte_some, GL, GR, FA. unfold mk_term. rewrite MA, MB, MC. reflexivity.
Qed.
Print Assumptions C08_factor_shape.
(* the number pulled out is a common factor: best * left = first coefficient, best * right = second coefficient (over the reals) *)
Theorem C08_factor_common : forall lt rt f, factor_add_terms_ex lt rt = Some f ->
  exists rb rl rr c1 c2, numR (best f) = Some rb /\ numR (f_left f) = Some rl /\ numR (f_right f) = Some rr /\
    coefR (t_coef lt) = Some c1 /\ coefR (t_coef rt) = Some c2 /\ (rb * rl = c1)%R /\ (rb * rr = c2)%R.
Proof.
  intros lt rt f FA. unfold factor_add_terms_ex in FA. destruct (common _ _) as [|c0 cs]; [discriminate|].
  match type of FA with context[flookup ?d ?b] => destruct (flookup d b) as [fl|] eqn:LL; [|discriminate] end.
  match type of FA with context[flookup ?d ?b] => destruct (flookup d b) as [fr|] eqn:LR; [|discriminate] end.
  apply coef_factor in LL. destruct LL as (rb & rfl & rcl & Hb & Hfl & Hcl & Hmul).
  apply coef_factor in LR. destruct LR as (rb' & rfr & rcr & Hb' & Hfr & Hcr & Hmur).
  rewrite Hb in Hb'. inversion Hb'; subst rb'. inversion FA; subst f. cbn [best f_left f_right].
  exists rb, rfl, rfr, rcl, rcr. repeat split; auto.
Qed.
Print Assumptions C08_factor_common.
(* documented non-applicability: pure constants are not factored unless enabled; unlike variables share nothing *)
Theorem C08_no_factor_constants : forall root p x y, subtree root p = Some (Bin KAdd (Const x) (Const y)) -> can_apply root p (RFactor false) = false.
Proof. intros root p x y Hs. unfold can_apply, df_can, df_type, node. rewrite Hs. reflexivity. Qed.
Print Assumptions C08_no_factor_constants.

(* ---- distribute: a * (b + c) -> a*b + a*c and (b + c) * a -> a*b + a*c (operand order inside each product is free) ---- *)
Theorem C08_distribute : forall root p a b c, subtree root p = Some (Bin KMul a (Bin KAdd b c)) -> not_kind KAdd a ->
  can_apply root p RDistr = true /\
  exists ab ac, apply root p RDistr = ROk (replace root p (Bin KAdd ab ac), p) /\ (ab = Bin KMul a b \/ ab = Bin KMul b a) /\ (ac = Bin KMul a c \/ ac = Bin KMul c a).
Proof.
  intros root p a b c Hs Ha. unfold can_apply, apply, dm_can, dm_apply, node. rewrite Hs. split; [cbn; now rewrite orb_true_r|].
  destruct a as [| | |k x y]; cbn [rbind];
    try (eexists; eexists; split; [reflexivity|]; split; match goal with |- context[if ?c then _ else _] => destruct c end; auto).
  destruct k; try (exfalso; now apply Ha); cbn [rbind];
    (eexists; eexists; split; [reflexivity|]; split; match goal with |- context[if ?c then _ else _] => destruct c end; auto).
Qed.
Print Assumptions C08_distribute.

(* ---- multiplicative inverse: a / b -> a * (1 / b); a negated denominator gives a * (-1 / c) ---- *)
Theorem C08_inverse : forall root p a b, subtree root p = Some (Bin KDiv a b) -> (forall c, b <> Un UNeg c) ->
  can_apply root p RInverse = true /\ apply root p RInverse = ROk (replace root p (Bin KMul a (Bin KDiv (Const (NInt 1)) b)), p).
Proof.
  intros root p a b Hs Hb. unfold can_apply, apply, mi_can, mi_apply, node. rewrite Hs. split; [reflexivity|].
  destruct b as [| |u c|]; try reflexivity. destruct u; try reflexivity. exfalso. now apply (Hb c).
Qed.
Print Assumptions C08_inverse.

(* ---- restate subtraction: a - b -> a + (-b) (general form), at the root or below = or + ---- *)
Theorem C08_restate_root : forall a b, not_kind KMul b -> not_kind KDiv b -> (forall n, b <> Const n) -> (forall c, b <> Un UNeg c) ->
  can_apply (Bin KSub a b) [] RRestate = true /\ apply (Bin KSub a b) [] RRestate = ROk (Bin KAdd a (Un UNeg b), []).
Proof.
  intros a b H1 H2 H3 H4. unfold can_apply, apply, rs_apply, rs_type, node, par, parent. simpl.
  destruct b as [n|v|u c|k x y]; try (exfalso; now apply (H3 n)); try (split; reflexivity).
  - destruct u; try (split; reflexivity). exfalso. now apply (H4 c).
  - destruct k; try (exfalso; now (apply H1 || apply H2)); split; reflexivity.
Qed.
Print Assumptions C08_restate_root.
(* ... and back: a + (-c) -> a - c for a negative constant *)
Theorem C08_restate_back : forall a v, nlt0 v = true ->
  apply (Bin KAdd a (Const v)) [] RRestate = ROk (Bin KSub a (Const (nneg v)), []).
Proof. intros a v H. unfold apply, rs_apply, rs_type, node, par, parent. simpl. rewrite H. reflexivity. Qed.
Print Assumptions C08_restate_back.

(* ---- variable multiply: x^a * x^b -> x^(a + b) (implicit exponents are 1); unlike variables are refused ---- *)
Theorem C08_variable_multiply : forall root p x a b, subtree root p = Some (Bin KMul (Bin KPow (Var x) (Const a)) (Bin KPow (Var x) (Const b))) ->
  can_apply root p RVarMul = true /\
  apply root p RVarMul = ROk (replace root p (Bin KPow (Var x) (Bin KAdd (Const a) (Const b))), p).
Proof.
  intros root p x a b Hs. unfold can_apply, apply, vm_can, vm_apply, vm_type, node. rewrite Hs. cbn. rewrite N.eqb_refl. cbn. split; reflexivity.
Qed.
Print Assumptions C08_variable_multiply.
Theorem C08_variable_multiply_implicit : forall root p x b, subtree root p = Some (Bin KMul (Var x) (Bin KPow (Var x) (Const b))) ->
  apply root p RVarMul = ROk (replace root p (Bin KPow (Var x) (Bin KAdd (Const (NInt 1)) (Const b))), p).
Proof. intros root p x b Hs. unfold apply, vm_apply, vm_type, node. rewrite Hs. cbn. rewrite N.eqb_refl. cbn. reflexivity. Qed.
Print Assumptions C08_variable_multiply_implicit.
Theorem C08_no_multiply_unlike : forall root p x y, x <> y -> subtree root p = Some (Bin KMul (Var x) (Var y)) -> can_apply root p RVarMul = false.
Proof.
  intros root p x y Hxy Hs. unfold can_apply, vm_can, vm_type, node. rewrite Hs. cbn.
  destruct (N.eqb x y) eqn:E; [apply N.eqb_eq in E; contradiction|reflexivity].
Qed.
Print Assumptions C08_no_multiply_unlike.

(* ---- balanced move: t + k = r -> t = r - k ; c * x = r -> (c * x) / c = r / c ---- *)
Theorem C08_balanced_add : forall t k r, (exists n, k = Const n) ->
  can_apply (Bin KEq (Bin KAdd t k) r) [DL; DR] RBalanced = true /\
  apply (Bin KEq (Bin KAdd t k) r) [DL; DR] RBalanced = ROk (Bin KEq t (Bin KSub r k), []).
Proof. intros t k r (n & ->). unfold can_apply, apply, bm_can, bm_apply, bm_type. cbn. split; reflexivity. Qed.
Print Assumptions C08_balanced_add.
Theorem C08_balanced_multiply : forall c x r, truthy c = true -> contains_add x = false ->
  can_apply (Bin KEq (Bin KMul (Const c) x) r) [DL; DL] RBalanced = true /\
  apply (Bin KEq (Bin KMul (Const c) x) r) [DL; DL] RBalanced = ROk (Bin KEq (Bin KDiv (Bin KMul (Const c) x) (Const c)) (Bin KDiv r (Const c)), []).
Proof.
  intros c x r Hc Hx. unfold can_apply, apply, bm_can, bm_apply, bm_type. cbn. rewrite Hc. cbn. rewrite Hx. split; reflexivity.
Qed.
Print Assumptions C08_balanced_multiply.
