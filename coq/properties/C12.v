(* C12 — Parser results do not depend on call history.
   Model: theories/ParserObj.v (memo tables, token lists as heap objects, per-parse cursor fields).
   For EVERY sequence of parse / tokenize / clear_cache calls, failing ones included, interleaved with
   a client popping from, overwriting or clearing the lists it was handed, the next parse / tokenize
   of ANY string returns what the pure functions return (= what a fresh parser returns). *)
From Coq Require Import List NArith ZArith Bool.
From Mathy Require Import Tok Lexer Num Expr Parser ParserObj.
From MathyProofs Require Import ParserObjFacts.
Import ListNotations.

Theorem C12_parse_history_independent : forall ops s,
  snd (pstep (run ops init) (OParse s)) = RTree (parse s).
Proof. exact history_independent_parse. Qed.
Print Assumptions C12_parse_history_independent.

Theorem C12_tokenize_history_independent : forall ops s,
  tokens_of (snd (pstep (run ops init) (OTokenize s))) = match tokenize true s with LOk ts => Some ts | _ => None end.
Proof. exact history_independent_tokenize. Qed.
Print Assumptions C12_tokenize_history_independent.

(* in particular a fresh parser (empty history) gives the same answers *)
Theorem C12_same_as_fresh : forall ops s,
  snd (pstep (run ops init) (OParse s)) = snd (pstep init (OParse s)).
Proof. intros. rewrite history_independent_parse. symmetry. exact (history_independent_parse [] s). Qed.
Print Assumptions C12_same_as_fresh.

(* token lists handed out are new list objects (never the cached list, never a list handed out before) *)
Theorem C12_handed_lists_fresh : forall ops s r ts,
  snd (pstep (run ops init) (OTokenize s)) = RTokens (Some (r, ts)) -> (length (heap (run ops init)) <= r)%nat.
Proof. exact handed_list_fresh. Qed.
Print Assumptions C12_handed_lists_fresh.

(* the invariant behind it holds in every reachable state *)
Theorem C12_invariant : forall ops, Inv (run ops init).
Proof. intros. apply run_inv. apply inv_init. Qed.
Print Assumptions C12_invariant.

(* non-vacuity: a history with a failing parse, a client consuming its list, a cache clear *)
Example C12_example :
  let ops := [OParse [120;43]%N; OTokenize [52;120]%N; OClientPop 1%nat; OClientPop 1%nat; OParse [52;120]%N; OClear; OTokenize [52;120]%N] in
  snd (pstep (run ops init) (OParse [52;120]%N)) = RTree (Ok (Bin KMul (Const (NInt 4%Z)) (Var 120%N))).
Proof. vm_compute. reflexivity. Qed.
