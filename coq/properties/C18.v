(* C18 — Tree layout satisfies the tidy-tree invariants and is repeatable.
   Model: theories/Layout.v (measure/transform with the scratch state kept on the nodes threaded
   explicitly; equal to the implementation's coordinates on every shape of every run of the `layout`
   suite, three repeated calls each). The property's quantifier is bounded ("up to a size bound"):
   the bounded statements are theorems about EVERY tree within the stated bound, by evaluation over
   enumerations that are proved complete. Known findings: L2 (one-child nodes) and L3 (full trees
   from 15 nodes on), both exhibited below. *)
From Coq Require Import List ZArith QArith Bool Arith.
From Mathy Require Import Bt Layout.
From MathyProofs Require Import BtFacts LayoutFacts.
Import ListNotations.

(* unbounded: every node gets the level = its depth, nodes listed in in-order (y = depth x unit follows) *)
Theorem C18_levels_are_depths : forall (t:bt nat) (s:st), map (fun p => (fst (fst p), snd p)) (snd (layout t s)) = ino t 0.
Proof. exact layout_depths. Qed.
Print Assumptions C18_levels_are_depths.

(* unbounded: the children of a node are placed symmetrically around it (whatever the stored state) *)
Theorem C18_children_symmetric : forall l i r s x d,
  transform (T l i r) s x d [] = transform l s (qred (x - offQ s i)) (S d) [] ++ (i, x, d) :: transform r s (qred (x + offQ s i)) (S d) []
  /\ (qred (x - offQ s i) + qred (x + offQ s i) == x * 2)%Q.
Proof. intros. split; [apply transform_children_symmetric|apply centre_arith]. Qed.
Print Assumptions C18_children_symmetric.

(* bounded: EVERY full binary tree with at most 13 nodes: children strictly on their side, parents centred,
   every level in left-to-right order at least one unit apart, three layouts of the same nodes coincide,
   the mirrored tree gets the mirrored coordinates *)
Theorem C18_full_trees_tidy : forall t:bt unit,
  is_full t = true -> nonempty t = true -> (inner t <= 6)%nat -> full_chk t = true.
Proof. exact full_trees_tidy. Qed.
Print Assumptions C18_full_trees_tidy.

(* bounded: EVERY shape with at most 8 nodes (one-child nodes included) is laid out identically by repeated calls *)
Theorem C18_repeatable : forall t:bt unit, (bsize t <= 8)%nat -> repeat_chk t = true.
Proof. exact all_shapes_repeatable. Qed.
Print Assumptions C18_repeatable.

(* bounded: the reported bounds are the bounding box of the coordinates (units 1x1 and 3/2 x 1/2) *)
Theorem C18_bounds : forall t:bt unit, (bsize t <= 8)%nat -> (bounds_chk 1 1 t && bounds_chk (3#2) (1#2) t) = true.
Proof. exact bounds_are_bounding_box. Qed.
Print Assumptions C18_bounds.

(* known findings, inside the model *)
Theorem C18_known_L3_full_15_nodes : is_full l3_witness = true /\ bsize l3_witness = 15%nat /\ level_ok (snd (layout l3_witness [])) [] = false.
Proof. exact full_15_nodes_refuted. Qed.
Print Assumptions C18_known_L3_full_15_nodes.
Theorem C18_known_L2_one_child_nodes : sides_ok l2_witness (snd (layout l2_witness [])) = false.
Proof. exact one_child_nodes_refuted. Qed.
Print Assumptions C18_known_L2_one_child_nodes.
