(* C15 — Rotation preserves the in-order sequence (tree level). rotate_tree is the function on shapes that
   BinaryTreeNode.rotate computes (tied to the code by the `rotate` correspondence suite, which reads the
   real nodes back after node.rotate() and audits every parent/child link). *)
From Coq Require Import List Arith Bool Permutation.
From Mathy Require Import Bt Heap.
From MathyProofs Require Import BtFacts BtRotateInv HeapFacts HeapRotate.
Import ListNotations.

Theorem C15_rotate_inorder : forall (A:Type) (t:bt A) (p:list side), inorder (rotate_tree t p) = inorder t.
Proof. intros. apply rotate_inorder. Qed.
Print Assumptions C15_rotate_inorder.

Theorem C15_rotate_root : forall (A:Type) (t:bt A), rotate_tree t [] = t.
Proof. intros. apply rotate_root. Qed.
Print Assumptions C15_rotate_root.

Theorem C15_rotate_size : forall (A:Type) (t:bt A) p, bsize (rotate_tree t p) = bsize t.
Proof. intros. apply rotate_size. Qed.
Print Assumptions C15_rotate_size.

(* the rotated node moves above its parent: left-child case and right-child case, under any context *)
Theorem C15_rotate_shape : forall (A:Type) (a b c:bt A) (n p:A),
  rotate_tree (T (T a n b) p c) [SL] = T a n (T b p c) /\ rotate_tree (T a p (T b n c)) [SR] = T (T a p b) n c.
Proof. intros. split; [destruct c|destruct a]; reflexivity. Qed.
Print Assumptions C15_rotate_shape.

(* the same at ANY depth q: the node at q ++ [d] ends up at q, its former parent p is its child on the other side, and the three
   subtrees a, c, and the parent's other subtree keep their left-to-right order *)
Theorem C15_rotate_moves_up : forall (A:Type) (t:bt A) q d n a c, bsub t (q ++ [d]) = T a n c ->
  exists p x y, bsub t q = (match d with SL => T (T a n c) p y | SR => T x p (T a n c) end) /\
    bsub (rotate_tree t (q ++ [d])) q = (match d with SL => T a n (T c p y) | SR => T (T x p a) n c end).
Proof. intros A t q d n a c. apply rotate_moves_up. Qed.
Print Assumptions C15_rotate_moves_up.
(* every subtree that hangs off the path to the parent (r is at least as long as q and q is not a prefix of r) is untouched *)
Theorem C15_rotate_context : forall (A:Type) (t:bt A) q d r, (forall k, firstn k r <> q) -> length q <= length r ->
  bsub (rotate_tree t (q ++ [d])) r = bsub t r.
Proof. intros A t q d r. apply rotate_context. Qed.
Print Assumptions C15_rotate_context.
(* nothing is lost: rotating the former parent (now the child on the other side) restores the tree exactly *)
Theorem C15_rotate_undo : forall (A:Type) (t:bt A) q d, bsub t (q ++ [d]) <> E ->
  rotate_tree (rotate_tree t (q ++ [d])) (q ++ [flip d]) = t.
Proof. intros A t q d. apply rotate_undo. Qed.
Print Assumptions C15_rotate_undo.
Example C15_undo_example : let t := T (T (T E 3 E) 1 (T E 4 E)) 0 (T E 2 E) in
  bsub t ([SL] ++ [SR]) <> E /\ rotate_tree (rotate_tree t [SL; SR]) [SL; SL] = t /\ rotate_tree t [SL; SR] <> t.
Proof. cbv. repeat split; discriminate. Qed.
(* HEAP LEVEL (theories/Heap.v: hrotate = the pointer writes of BinaryTreeNode.rotate, in order). For every heap that represents an
   abstract tree T at A (links mutually consistent: rep), with no node object twice, every node of the tree other than its root:
   after node.rotate() the heap represents a tree T' at A' over the same node objects (a permutation of the addresses: none lost, none
   twice), the in-order sequence of node objects is unchanged, nothing outside the tree is written except the child pointer of the
   tree's parent (when the tree's root changes), and the heap keeps its size. rep of the result IS link consistency: every child's
   parent pointer is its parent, the root's parent pointer is the old one. *)
Theorem C15_heap_rotate : forall T h A P node,
  rep h (Some A) P T -> NoDup (oaddrs h (Some A) T) -> In node (oaddrs h (Some A) T) -> node <> A ->
  (forall g, P = Some g -> ~ In g (oaddrs h (Some A) T)) ->
  let h' := hrotate h node in
  exists T' A', rep h' (Some A') P T' /\ ainorder h' (Some A') T' = ainorder h (Some A) T /\
    Permutation (oaddrs h' (Some A') T') (oaddrs h (Some A) T) /\
    (forall x, ~ In x (oaddrs h (Some A) T) -> P <> Some x -> nth_error h' x = nth_error h x) /\
    (A' = A \/ A' = node) /\
    (forall g gn, P = Some g -> nth_error h g = Some gn ->
       nth_error h' g = Some (if Nat.eqb A' A then gn else if is_ptr (h_l gn) A then set_l (Some A') gn else set_r (Some A') gn)) /\
    length h' = length h.
Proof. exact rotate_global. Qed.
Print Assumptions C15_heap_rotate.
(* rotating the root (no parent) writes nothing *)
Theorem C15_heap_rotate_root : forall h node n, nth_error h node = Some n -> h_p n = None -> hrotate h node = h.
Proof. intros h node n Hn Hp. unfold hrotate. rewrite Hn, Hp. reflexivity. Qed.
Print Assumptions C15_heap_rotate_root.

Example C15_example :
  rotate_tree (T (T (T E 3 E) 1 (T E 4 E)) 0 (T E 2 E)) [SL; SR] = T (T (T (T E 3 E) 1 E) 4 E) 0 (T E 2 E).
Proof. reflexivity. Qed.
