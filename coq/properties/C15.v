(* C15 — Rotation preserves the in-order sequence (tree level). rotate_tree is the function on shapes that
   BinaryTreeNode.rotate computes (tied to the code by the `rotate` correspondence suite, which reads the
   real nodes back after node.rotate() and audits every parent/child link). *)
From Coq Require Import List Arith Bool Permutation.
From Mathy Require Import Bt Heap.
From MathyProofs Require Import BtFacts HeapFacts HeapRotate.
Import ListNotations.

Theorem C15_rotate_inorder : forall (A:Type) (t:bt A) (p:list side), inorder (rotate_tree t p) = inorder t.
Proof. intros. apply rotate_inorder. Qed.
Print Assumptions C15_rotate_inorder.

Theorem C15_rotate_root : forall (A:Type) (t:bt A), rotate_tree t [] = t.
Proof. intros. apply rotate_root. Qed.
Print Assumptions C15_rotate_root.

Theorem C15_rotate_size : forall (A:Type) (t:bt A) p, bsize (rotate_tree t p) = bsize t.
Proof. intros. apply rotate_size. Qed.
Print Assumptions C15_rotate_size.

(* the rotated node moves above its parent: left-child case and right-child case, under any context *)
Theorem C15_rotate_shape : forall (A:Type) (a b c:bt A) (n p:A),
  rotate_tree (T (T a n b) p c) [SL] = T a n (T b p c) /\ rotate_tree (T a p (T b n c)) [SR] = T (T a p b) n c.
Proof. intros. split; [destruct c|destruct a]; reflexivity. Qed.
Print Assumptions C15_rotate_shape.

(* HEAP LEVEL (theories/Heap.v: hrotate = the pointer writes of BinaryTreeNode.rotate, in order). For every heap that represents an
   abstract tree T at A (links mutually consistent: rep), with no node object twice, every node of the tree other than its root:
   after node.rotate() the heap represents a tree T' at A' over the same node objects (a permutation of the addresses: none lost, none
   twice), the in-order sequence of node objects is unchanged, nothing outside the tree is written except the child pointer of the
   tree's parent (when the tree's root changes), and the heap keeps its size. rep of the result IS link consistency: every child's
   parent pointer is its parent, the root's parent pointer is the old one. *)
Theorem C15_heap_rotate : forall T h A P node,
  rep h (Some A) P T -> NoDup (oaddrs h (Some A) T) -> In node (oaddrs h (Some A) T) -> node <> A ->
  (forall g, P = Some g -> ~ In g (oaddrs h (Some A) T)) ->
  let h' := hrotate h node in
  exists T' A', rep h' (Some A') P T' /\ ainorder h' (Some A') T' = ainorder h (Some A) T /\
    Permutation (oaddrs h' (Some A') T') (oaddrs h (Some A) T) /\
    (forall x, ~ In x (oaddrs h (Some A) T) -> P <> Some x -> nth_error h' x = nth_error h x) /\
    (A' = A \/ A' = node) /\
    (forall g gn, P = Some g -> nth_error h g = Some gn ->
       nth_error h' g = Some (if Nat.eqb A' A then gn else if is_ptr (h_l gn) A then set_l (Some A') gn else set_r (Some A') gn)) /\
    length h' = length h.
Proof. exact rotate_global. Qed.
Print Assumptions C15_heap_rotate.
(* rotating the root (no parent) writes nothing *)
Theorem C15_heap_rotate_root : forall h node n, nth_error h node = Some n -> h_p n = None -> hrotate h node = h.
Proof. intros h node n Hn Hp. unfold hrotate. rewrite Hn, Hp. reflexivity. Qed.
Print Assumptions C15_heap_rotate_root.

Example C15_example :
  rotate_tree (T (T (T E 3 E) 1 (T E 4 E)) 0 (T E 2 E)) [SL; SR] = T (T (T (T E 3 E) 1 E) 4 E) 0 (T E 2 E).
Proof. reflexivity. Qed.
