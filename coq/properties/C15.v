(* C15 — Rotation preserves the in-order sequence (tree level). rotate_tree is the function on shapes that
   BinaryTreeNode.rotate computes (tied to the code by the `rotate` correspondence suite, which reads the
   real nodes back after node.rotate() and audits every parent/child link). *)
From Coq Require Import List Arith Bool.
From Mathy Require Import Bt.
From MathyProofs Require Import BtFacts.
Import ListNotations.

Theorem C15_rotate_inorder : forall (A:Type) (t:bt A) (p:list side), inorder (rotate_tree t p) = inorder t.
Proof. intros. apply rotate_inorder. Qed.
Print Assumptions C15_rotate_inorder.

Theorem C15_rotate_root : forall (A:Type) (t:bt A), rotate_tree t [] = t.
Proof. intros. apply rotate_root. Qed.
Print Assumptions C15_rotate_root.

Theorem C15_rotate_size : forall (A:Type) (t:bt A) p, bsize (rotate_tree t p) = bsize t.
Proof. intros. apply rotate_size. Qed.
Print Assumptions C15_rotate_size.

(* the rotated node moves above its parent: left-child case and right-child case, under any context *)
Theorem C15_rotate_shape : forall (A:Type) (a b c:bt A) (n p:A),
  rotate_tree (T (T a n b) p c) [SL] = T a n (T b p c) /\ rotate_tree (T a p (T b n c)) [SR] = T (T a p b) n c.
Proof. intros. split; [destruct c|destruct a]; reflexivity. Qed.
Print Assumptions C15_rotate_shape.

Example C15_example :
  rotate_tree (T (T (T E 3 E) 1 (T E 4 E)) 0 (T E 2 E)) [SL; SR] = T (T (T (T E 3 E) 1 E) 4 E) 0 (T E 2 E).
Proof. reflexivity. Qed.
