(* C16 — Term analysis is order-invariant and inverse to term construction. *)
From Coq Require Import List NArith ZArith QArith Bool Permutation Reals.
From Mathy Require Import Tok Num Expr Parser Util Terms Sem.
From MathyProofs Require Import SemFacts TermsFacts TermsSigned FactorFacts TermText.
Import ListNotations.

(* "has like terms" does not depend on the order or the grouping of the added terms: two sums whose addends (the maximal
   non-sum operands) are permutations of each other get the same answer *)
Theorem C16_like_terms_order_invariant : forall e1 e2, is_k KAdd (Some e1) = true -> is_k KAdd (Some e2) = true ->
  Permutation (addends e1) (addends e2) -> has_like_terms e1 [] = has_like_terms e2 [].
Proof. exact has_like_terms_perm. Qed.
Print Assumptions C16_like_terms_order_invariant.

(* 'are like terms' is symmetric, and reflexive on everything get_term recognises as a term (with a finite exponent:
   nan is not equal to itself) *)
(* the same for SIGNED sums: the added terms of a sum are its maximal operands that are neither + nor - (t1 - t2 + t3 has the
   terms t1, t2, t3); two sums or differences whose terms are permutations of each other get the same answer, however grouped *)
Theorem C16_like_terms_signed_order_invariant : forall e1 e2, is_addsub_e e1 = true -> is_addsub_e e2 = true ->
  Permutation (saddends e1) (saddends e2) -> has_like_terms e1 [] = has_like_terms e2 [].
Proof. exact has_like_terms_signed_perm. Qed.
Print Assumptions C16_like_terms_signed_order_invariant.
(* x - y + xy  and  xy + x - y : same terms, no like terms in either order *)
Example C16_signed_example : let x := Var 120%N in let y := Var 121%N in
  let e1 := Bin KAdd (Bin KSub x y) (Bin KMul x y) in let e2 := Bin KSub (Bin KAdd (Bin KMul x y) x) y in
  Permutation (saddends e1) (saddends e2) /\ has_like_terms e1 [] = false /\ has_like_terms e2 [] = false /\
  has_like_terms (Bin KSub (Bin KAdd (Bin KMul x y) x) (Bin KMul y x)) [] = true.
Proof. cbv zeta. split; [cbn; apply Permutation_sym, (Permutation_cons_app [_; _] [] _); reflexivity|]. repeat split; vm_compute; reflexivity. Qed.

Theorem C16_like_symmetric : forall root1 p1 root2 p2, terms_are_like root1 p1 root2 p2 = terms_are_like root2 p2 root1 p1.
Proof. intros. unfold terms_are_like. apply like_sym. Qed.
Print Assumptions C16_like_symmetric.
Theorem C16_like_reflexive : forall root p t, get_term root p = Some t -> finite_exp t -> terms_are_like root p root p = true.
Proof. intros root p t H F. unfold terms_are_like. rewrite H. now apply like_refl. Qed.
Print Assumptions C16_like_reflexive.

(* the text  [-][c]x[^[-]e]  (token level) parses, and get_term_ex returns exactly what was written *)
Theorem C16_term_text : forall neg c x e cn en,
  (forall ct, c = Some ct -> coerce ct = Ok cn) -> (forall s et, e = Some (s, et) -> coerce et = Ok en) ->
  exists t, parse_tokens (term_tokens neg c x e) = Ok t /\ get_term_ex false t = Some (mk (written_coef neg c cn) (Some x) (exp_value e en)).
Proof. exact term_text_var. Qed.
Print Assumptions C16_term_text.
Theorem C16_term_text_literal : forall (neg:bool) ct cn, coerce ct = Ok cn ->
  exists t, parse_tokens ((if neg then [T TMinus [45%N]] else []) ++ [T TConst ct; EOFT]) = Ok t /\
            get_term_ex false t = Some (mk (Some (if neg then nneg cn else cn)) None None).
Proof. exact term_text_const. Qed.
Print Assumptions C16_term_text_literal.

(* a term built from a triple has the value c * x^e ... *)
(* varpow rho v e = 1 | rho x | (rho x)^k   (proofs/SemFacts.v) *)
Theorem C16_make_term_value : forall rho c v e t, make_term c v e = Some t ->
  den rho t = bind2 (numR c) (varpow rho v e) (fun a b => Some (a * b)%R).
Proof. exact make_term_den. Qed.
Print Assumptions C16_make_term_value.
(* ... and decomposes back to the same triple (an implicit coefficient 1 is read back as absent) *)
Theorem C16_make_term_inverse : forall c v e t, make_term c v e = Some t -> get_term_ex false t = Some (mk (norm_coef c v) v e).
Proof. exact make_term_inverse. Qed.
Print Assumptions C16_make_term_inverse.
Theorem C16_make_term_defined : forall c v e, (v = None -> e = None) -> exists t, make_term c v e = Some t.
Proof. exact make_term_defined. Qed.
Print Assumptions C16_make_term_defined.

(* the factor table of a positive integer lists exactly its divisor pairs *)
Theorem C16_factor_table : forall z, (0 < z)%Z ->
  (forall k w, flookup (factor (NInt z)) k = Some w -> exists a b, (0 < a)%Z /\ (a * b = z)%Z /\ isZ k a /\ isZ w b) /\
  (forall a b, (0 < a)%Z -> (a * b = z)%Z -> exists w, flookup (factor (NInt z)) (NInt a) = Some w /\ isZ w b).
Proof. exact factor_table. Qed.
Print Assumptions C16_factor_table.

(* the term predicates never raise on an expression without '=' (the assert sites of get_sub_terms are the only raise sites
   of the seven functions; GFuel is the model's own out-of-fuel outcome) *)
Theorem C16_get_sub_terms_total : forall e, noeq e = true -> get_sub_terms e = GFalse \/ exists l, get_sub_terms e = GTerms l.
Proof. exact get_sub_terms_total. Qed.
Print Assumptions C16_get_sub_terms_total.
Theorem C16_is_simple_term_total : forall e, noeq e = true -> is_simple_term e <> BAssert /\ is_simple_term e <> BFuel.
Proof. exact is_simple_term_total. Qed.
Print Assumptions C16_is_simple_term_total.
Theorem C16_is_preferred_total : forall root p e, subtree root p = Some e -> noeq e = true ->
  is_preferred_term_form root p <> BAssert /\ is_preferred_term_form root p <> BFuel.
Proof. exact is_preferred_total. Qed.
Print Assumptions C16_is_preferred_total.

Example C16_example :
  has_like_terms (Bin KAdd (Bin KAdd (Bin KMul (Const (NInt 2)) (Var 120%N)) (Const (NInt 3))) (Var 120%N)) [] = true /\
  has_like_terms (Bin KAdd (Var 120%N) (Bin KAdd (Const (NInt 3)) (Bin KPow (Var 120%N) (Const (NInt 2))))) [] = false /\
  get_sub_terms (Bin KEq (Const (NInt 2)) (Var 120%N)) = GAssert /\
  map fst (factor (NInt 12)) = [NInt 1; NInt 12; NInt 2; NFlt (6#1); NInt 3; NFlt (4#1)].
Proof. vm_compute. repeat split. Qed.
