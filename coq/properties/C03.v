(* C03 — Text is read according to the documented grammar and order of operations.
   The grammar is theories/Grammar.v (`Derives`): one constructor per production of the parser
   docstring, lookahead conditions explicit. Its product level nests to the right, which is what the
   implementation does and is the recorded finding P2 (known_findings.json): see C03_known_P2 below. *)
From Coq Require Import List NArith ZArith QArith Bool.
From Mathy Require Import Tok Lexer Num Expr Parser Grammar Eval.
From MathyProofs Require Import LexerFacts ParserComplete ParserOperands ParserTop.
Import ListNotations.

(* parsing succeeds only on derivable strings, and returns the derived tree *)
Theorem C03_parse_sound : forall s e, parse s = Ok e -> exists ts, tokenize true s = LOk ts /\ Derives ts e.
Proof.
  intros s e H. unfold parse in H. destruct (tokenize true s) as [ts|c|] eqn:T; try discriminate.
  exists ts. split; auto. exact (parse_tokens_sound ts e H).
Qed.
Print Assumptions C03_parse_sound.

(* parsing succeeds on every derivable string (so: exactly on the language, with a unique tree) *)
Theorem C03_parse_complete : forall s ts e, tokenize true s = LOk ts -> Derives ts e -> parse s = Ok e.
Proof.
  intros s ts e T D. unfold parse. rewrite T. exact (parse_tokens_complete ts e (tokenize_eof_ok _ _ _ T) D).
Qed.
Print Assumptions C03_parse_complete.

Theorem C03_tree_unique : forall s ts e e', tokenize true s = LOk ts -> Derives ts e -> Derives ts e' -> e = e'.
Proof.
  intros s ts e e' T D D'. pose proof (C03_parse_complete s ts e T D) as H. rewrite (C03_parse_complete s ts e' T D') in H. congruence.
Qed.
Print Assumptions C03_tree_unique.

(* no operand is dropped, duplicated or reordered: the leaves of the tree, left to right, are exactly
   the Constant and Variable tokens of the text, in order *)
Theorem C03_operands_in_order : forall s ts e, tokenize true s = LOk ts -> parse s = Ok e -> opds ts = leaves e.
Proof.
  intros s ts e T H. unfold parse in H. rewrite T in H.
  exact (derives_operands ts e (tokenize_eof_ok _ _ _ T) (parse_tokens_sound ts e H)).
Qed.
Print Assumptions C03_operands_in_order.

(* known finding P2, exhibited inside the model: a chain of / is nested to the right *)
Theorem C03_known_P2 :
  parse [56;47;52;47;50]%N (* "8/4/2" *) = Ok (Bin KDiv (Const (NInt 8)) (Bin KDiv (Const (NInt 4)) (Const (NInt 2))))
  /\ eval no_env (Bin KDiv (Const (NInt 8)) (Bin KDiv (Const (NInt 4)) (Const (NInt 2)))) = EOk (NFlt (4#1))
  /\ eval no_env (Bin KDiv (Bin KDiv (Const (NInt 8)) (Const (NInt 4))) (Const (NInt 2))) = EOk (NFlt (1#1)).
Proof. repeat split; vm_compute; reflexivity. Qed.
Print Assumptions C03_known_P2.

(* non-vacuity: a string with every construct parses, and its derivation exists *)
Example C03_example : exists e, parse [45;50;120;121;94;50;32;43;32;115;103;110;40;51;33;41;32;61;32;40;122;41;40;119;41]%N (* "-2xy^2 + sgn(3!) = (z)(w)" *) = Ok e.
Proof. eexists. vm_compute. reflexivity. Qed.
