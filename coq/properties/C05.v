(* C05 — Evaluation computes the mathematically correct number.
   Model: theories/Eval.v (MathExpression.evaluate with explicit outcomes; ints unbounded, floats idealised as exact
   rationals - the "within a few ulps" clause is measured by the suite, not proved). Specification: Sem.den. *)
From Coq Require Import List NArith ZArith QArith Reals Bool.
From Mathy Require Import Num Expr Eval Sem.
From MathyProofs Require Import SemFacts NumSem EvalFacts.
Import ListNotations.

(* a returned value IS the mathematical value (whenever that exists): never a wrapped / defaulted number *)
Theorem C05_eval_sound : forall rho e n v, eval rho e = EOk n -> den (envR rho) e = Some v -> numR n = Some v.
Proof. exact eval_sound. Qed.
Print Assumptions C05_eval_sound.

(* wherever the mathematical value exists, evaluate does not raise *)
Theorem C05_eval_complete : forall rho e v, den (envR rho) e = Some v ->
  (exists n, eval rho e = EOk n /\ numR n = Some v) \/ eval rho e = EInexact.
Proof. exact eval_complete. Qed.
Print Assumptions C05_eval_complete.

(* integer addition, subtraction, multiplication, negation, non-negative integer powers and factorials: the result is the
   exact integer, of any magnitude (and a factorial of a negative number raises) *)
Theorem C05_int_exact : forall rho e, int_expr rho e = true ->
  match evalZ rho e with Some z => eval rho e = EOk (NInt z) | None => eval rho e = EValueError end.
Proof. exact eval_int_exact. Qed.
Print Assumptions C05_int_exact.

(* a variable without a value (missing, or mapped to None) is never defaulted: no value is returned *)
Theorem C05_missing_variable : forall rho e n x, eval rho e = EOk n -> In x (vars e) -> rho x <> None.
Proof. intros. eapply eval_needs_all_variables; eauto. Qed.
Print Assumptions C05_missing_variable.
Theorem C05_unbound_variable_raises : forall rho x, rho x = None -> eval rho (Var x) = EValueError.
Proof. intros rho x H. simpl. now rewrite H. Qed.
Print Assumptions C05_unbound_variable_raises.

(* division by zero yields NaN (here: the non-finite value), not an exception and not a number *)
Theorem C05_division_by_zero : forall rho a b x y, eval rho a = EOk x -> eval rho b = EOk y -> x <> NNonFinite -> qv y = Some 0%Q -> eval rho (Bin KDiv a b) = EOk NNonFinite.
Proof.
  intros rho a b x y Ha Hb Hx Hy. cbn [eval]. rewrite Ha, Hb. destruct x; [| |contradiction]; (destruct y; [| |discriminate Hy]); cbn [ebind operate]; unfold ndiv; rewrite Hy; reflexivity.
Qed.
Print Assumptions C05_division_by_zero.

(* an equation evaluates to its common value, or raises when the sides differ *)
Theorem C05_equation : forall rho l r a b, eval rho l = EOk a -> eval rho r = EOk b -> a <> NNonFinite -> b <> NNonFinite ->
  eval rho (Bin KEq l r) = if num_eqb a b then EOk a else EValueError.
Proof. intros rho l r a b Hl Hr Ha Hb. cbn [eval]. rewrite Hl, Hr. destruct a; [| |contradiction]; (destruct b; [| |contradiction]); reflexivity. Qed.
(* an operation on a non-finite operand (nan / inf) is outside the model: the explicit outcome ENonFinite, never a number *)
Theorem C05_nonfinite_operand_not_modelled : forall rho k l r, eval rho l = EOk NNonFinite -> eval rho (Bin k l r) = ENonFinite.
Proof. intros rho k l r H. cbn [eval]. rewrite H. reflexivity. Qed.
Print Assumptions C05_nonfinite_operand_not_modelled.
Print Assumptions C05_equation.

(* 2^64 and 10^20 are exact (the int64 wrap-around of numpy is gone), (-3)^40 likewise *)
Example C05_example :
  eval no_env (Bin KPow (Const (NInt 2)) (Const (NInt 64))) = EOk (NInt 18446744073709551616) /\
  eval no_env (Bin KPow (Const (NInt (-3))) (Const (NInt 40))) = EOk (NInt 12157665459056928801) /\
  eval no_env (Un UFact (Const (NInt 25))) = EOk (NInt 15511210043330985984000000) /\
  eval no_env (Bin KPow (Const (NInt 2)) (Const (NInt (-1)))) = EOk (NFlt (1#2)).
Proof. repeat split; vm_compute; reflexivity. Qed.

(* the case of defect V1 (AbsExpression through np.absolute wrapped at 64 bits): in the model |-2^63| * |-2^63| is the exact 2^126 *)
Example C05_abs_example :
  eval (fun _ => None) (Bin KMul (Un UAbs (Const (NInt (- 2 ^ 63)))) (Un UAbs (Const (NInt (- 2 ^ 63))))) = EOk (NInt (2 ^ 126)).
Proof. vm_compute. reflexivity. Qed.
