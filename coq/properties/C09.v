(* C09 — Any sequence of rewrites keeps the expression equivalent to the original.
   theories/Walk.v: run root steps applies the steps in turn, each where the rule reports applicable. The model's
   trees are immutable values, so "states reached earlier are never altered" holds in the model by construction; for the
   implementation it is the clone_from_root discipline, checked by the `walks` suite (snapshots of all earlier roots). *)
From Coq Require Import List NArith ZArith QArith Reals Bool.
From Mathy Require Import Num Expr Util Rules Sem Walk Heap Plans HeapPlan.
From MathyProofs Require Import SemFacts RulesSoundA RulesSoundD WalkFacts HeapFacts HeapPlanFacts HeapPlanSeq HeapSearch.
Import ListNotations.

(* expressions: after any finite sequence of applicable rewrites the value is preserved wherever the start is defined *)
Theorem C09_walk_refines : forall steps root en,
  Forall (fun s => not_balanced (fst s) = true) steps -> run root steps = Some en -> refines root en /\ agree root en.
Proof. intros. split; [|apply refines_agree]; eapply walk_refines; eauto. Qed.
Print Assumptions C09_walk_refines.

(* balanced move applies only to equations, so the restriction above is no restriction for plain expressions *)
Theorem C09_balanced_only_on_equations : forall root p, can_apply root p RBalanced = true -> is_equation root = true.
Proof. intros root p. unfold can_apply. destruct (node root p); [|discriminate]. apply bm_needs_equation. Qed.
Print Assumptions C09_balanced_only_on_equations.

(* equations: any sequence of rewrites (balanced moves included) ends in an equation with the same solution set *)
Theorem C09_walk_equation : forall steps l r en, run (Bin KEq l r) steps = Some en ->
  exists l' r', en = Bin KEq l' r' /\ eq_refines l r l' r' /\ same_solutions l r l' r'.
Proof.
  intros steps l r en H. destruct (walk_equation steps l r en H) as (l' & r' & E & R).
  exists l', r'. split; [exact E|]. split; [assumption|]. now apply eq_refines_same.
Qed.
Print Assumptions C09_walk_equation.

(* non-vacuity: 2x + 3x = 10  --factor-->  (2 + 3) * x = 10  --fold-->  5 * x = 10  --balanced-->  (5 * x) / 5 = 10 / 5 *)
Definition x := Var 120%N. Definition c (z:Z) := Const (NInt z).
(* "States reached earlier in the sequence are never altered by later steps", at heap level. The loop of a search agent: clone the
   current tree from its root (through ANY node of it: `pick`), rewrite the copy, continue from the copy. From a heap that holds the
   current tree with consistent links (wf_tree) and scratch fields at rest, after any sequence of applicable steps the final tree is
   well-formed and is the expression the expression-level model computes, and EVERYTHING that stood in the heap at the start - hence,
   by the same theorem from each intermediate heap, every tree reached on the way - still stands at the end with the same objects,
   links and payloads (C13's rep). all_ok excludes only the rotation that makes the node itself the root (C15_heap_rotate_root). *)
Theorem C09_earlier_states_stand : forall (pick : heap -> iexpr -> nat), (forall h T, In (pick h T) (iaddrs T)) ->
  forall steps h T final,
  wf_tree h T -> dead_tree h T -> run (ierase T) steps = Some final -> all_ok (ierase T) steps = true ->
  exists h' T', Sreach pick h T steps h' T' /\ wf_tree h' T' /\ dead_tree h' T' /\ ierase T' = final /\
    (forall a0 p0 t0, rep h (Some a0) p0 t0 -> rep h' (Some a0) p0 t0).
Proof. exact search_loop. Qed.
Print Assumptions C09_earlier_states_stand.

Example C09_example :
  run (Bin KEq (Bin KAdd (Bin KMul (c 2) x) (Bin KMul (c 3) x)) (c 10))
      [(RFactor false, [DL]); (RConst, [DL; DL]); (RBalanced, [DL; DL])]
  = Some (Bin KEq (Bin KDiv (Bin KMul (c 5) x) (c 5)) (Bin KDiv (c 10) (c 5))).
Proof. vm_compute. reflexivity. Qed.
