(* C10 — Parsing is total and has a closed error contract. (The "no sticky state" clause is the
   history-independence theorem of the parser-object model, properties/C12.v; the CPython recursion
   limit is a runtime constant outside the model: DESIGN section 7.) *)
From Coq Require Import List NArith ZArith QArith Bool.
From Mathy Require Import Tok Lexer Num Expr Parser Grammar ParserObj.
From MathyProofs Require Import LexerFacts ParserTop ParserValueError ParserConsts ParserObjFacts.
Import ListNotations.

(* the fuel 10*|tokens|+20 always suffices: parsing terminates with a tree or an exception *)
Theorem C10_total : forall s, parse s <> Raises OutOfFuel.
Proof.
  intros s. unfold parse. destruct (tokenize true s) as [ts|c|] eqn:T.
  - apply parse_tokens_total.
  - discriminate.
  - exfalso. revert T. apply lex_total. auto.
Qed.
Print Assumptions C10_total.

(* closed contract: a documented parse exception, or ValueError (unsupported character / malformed
   number) - never IndexError, KeyError (the model's names for an exhausted token queue / a missing
   function entry); AttributeError and AssertionError have no source in the model at all *)
Theorem C10_error_closed : forall s x, parse s = Raises x ->
  x = InvalidExpression \/ x = InvalidSyntax \/ x = OutOfTokens \/ x = UnexpectedBehavior \/ x = TrailingTokens \/ x = ValueError.
Proof.
  intros s x H. unfold parse in H. destruct (tokenize true s) as [ts|c|] eqn:T.
  - exact (parse_tokens_errors ts x (tokenize_eof_ok _ _ _ T) H).
  - inversion H. auto 10.
  - exfalso. revert T. apply lex_total. auto.
Qed.
Print Assumptions C10_error_closed.

(* no sticky state: after ANY history of calls on one parser object - failed parses included - a
   parse behaves as on a fresh parser (the cursor fields are dead at entry of _parse; only successful
   results are memoised) *)
Theorem C10_no_sticky : forall ops s,
  snd (pstep (run ops init) (OParse s)) = RTree (parse s) /\ snd (pstep init (OParse s)) = RTree (parse s).
Proof. intros. split; [exact (history_independent_parse ops s)|exact (history_independent_parse [] s)]. Qed.
Print Assumptions C10_no_sticky.

(* where a ValueError comes from: an unsupported character, or a number token that coerce_to_number rejects
   (more than one '.', or a lone '.') - nothing else *)
Theorem C10_value_error_sources : forall s, parse s = Raises ValueError ->
  forallb supported s = false \/
  exists ts t, tokenize true s = LOk ts /\ In t ts /\ ((2 <= dots (tv t))%nat \/ tv t = [46%N]).
Proof.
  intros s H. unfold parse in H. destruct (tokenize true s) as [ts|c|] eqn:T.
  - right. destruct (parse_tokens_value_error ts H) as (t & Hin & B). exists ts, t. split; [reflexivity|]. split; [exact Hin|]. now apply bad_number_spec.
  - left. apply (proj1 (lex_invalid_iff true s)). eauto.
  - discriminate.
Qed.
Print Assumptions C10_value_error_sources.

(* and an unsupported character always gives ValueError, whatever else is wrong with the input *)
Theorem C10_unsupported_character : forall s, forallb supported s = false -> parse s = Raises ValueError.
Proof.
  intros s H. destruct (proj2 (lex_invalid_iff true s) H) as (c & T). unfold parse. now rewrite T.
Qed.
Print Assumptions C10_unsupported_character.

(* a malformed number is never accepted: a successful parse has converted every number token of the input *)
Theorem C10_malformed_number_rejected : forall s e, parse s = Ok e ->
  forall ts t, tokenize true s = LOk ts -> In t ts -> tk t = TConst -> ~ ((2 <= dots (tv t))%nat \/ tv t = [46%N]).
Proof.
  intros s e H ts t T Hin Hk B. apply (parse_rejects_malformed_numbers s e H ts t T Hin Hk). now apply bad_number_spec.
Qed.
Print Assumptions C10_malformed_number_rejected.

Example C10_example :
  parse [40;120]%N = Raises InvalidSyntax /\ parse [49;46;50;46;51]%N = Raises ValueError /\ parse [50;32;51]%N = Raises TrailingTokens
  /\ parse []%N = Raises InvalidExpression /\ parse [120;43]%N = Raises UnexpectedBehavior /\ parse [35]%N = Raises ValueError.
Proof. repeat split; vm_compute; reflexivity. Qed.
