(* C06 — A rule that reports it applies can be applied; the applicability check is pure; node search.
   In the model can_apply and apply are FUNCTIONS of (tree, position, rule): asking whether a rule applies cannot
   modify anything and always gives the same answer (the implementation's purity is checked by the suite: identity /
   pointer / payload snapshots around every can_apply_to call, and query-rewrite-query sequences on long-lived rule
   instances). What needs proof is that `apply` never fails when `can_apply` holds, and the specification of the search. *)
From Coq Require Import List NArith ZArith QArith Bool Arith Lia.
From Mathy Require Import Num Expr Util Rules.
From MathyProofs Require Import ExprFacts ApplyTotal.
From Coq Require Import Sorted.
Import ListNotations.
Local Open Scope nat_scope.

(* for ALL trees, positions, rules and options: if the rule reports applicable, applying it completes
   (the only non-Ok outcome of the model is the marker for a folded power whose exact value is irrational) *)
Theorem C06_apply_completes : forall r root p, can_apply root p r = true ->
  (exists z, apply root p r = ROk z) \/ apply root p r = RRaises RInexact.
Proof. exact apply_total. Qed.
Print Assumptions C06_apply_completes.

(* none of the internal failures is reachable: no AssertionError, AttributeError (None dereference), NotImplementedError, ValueError *)
Theorem C06_no_internal_error : forall r root p e, can_apply root p r = true -> apply root p r = RRaises e -> e = RInexact.
Proof. intros r root p e C A. destruct (apply_total r root p C) as [(z & H)|H]; rewrite H in A; [discriminate|]. now inversion A. Qed.
Print Assumptions C06_no_internal_error.

(* the node search returns exactly the positions at which the rule reports applicable, in in-order, with their in-order indices *)
Lemma combine_seq_in {A} (l:list A) : forall s i p, In (i, p) (combine (seq s (length l)) l) <-> (s <= i /\ nth_error l (i - s) = Some p).
Proof.
  induction l as [|a l IH]; intros s i p; simpl.
  - split; [contradiction|]. intros (_ & H). destruct (i - s); discriminate.
  - split.
    + intros [H|H].
      * inversion H; subst. rewrite Nat.sub_diag. auto.
      * apply IH in H. destruct H as (L & E). split; [lia|]. replace (i - s) with (S (i - S s)) by lia. exact E.
    + intros (L & E). destruct (Nat.eq_dec i s) as [->|Hne].
      * rewrite Nat.sub_diag in E. simpl in E. inversion E. now left.
      * right. apply IH. split; [lia|]. replace (i - s) with (S (i - S s)) in E by lia. exact E.
Qed.
Theorem C06_find_nodes_spec : forall r root i p,
  In (i, p) (find_nodes r root) <-> (nth_error (inorder_paths root []) i = Some p /\ can_apply root p r = true).
Proof.
  intros r root i p. unfold find_nodes. rewrite filter_In. simpl. rewrite combine_seq_in. rewrite Nat.sub_0_r. split.
  - intros ((_ & H) & C). auto.
  - intros (H & C). split; auto. split; [lia|exact H].
Qed.
Print Assumptions C06_find_nodes_spec.

(* ... and in in-order: the in-order indices of the returned list are strictly increasing *)
Lemma combine_seq_sorted {A} (l:list A) : forall s, StronglySorted (fun a b : nat * A => fst a < fst b) (combine (seq s (length l)) l).
Proof.
  induction l as [|x l IH]; intros s; cbn [length seq combine]; [constructor|]. constructor; [apply IH|].
  apply Forall_forall. intros [i y] Hin. apply in_combine_l in Hin. apply in_seq in Hin. cbn [fst]. lia.
Qed.
Lemma filter_sorted {A} (R:A -> A -> Prop) f l : StronglySorted R l -> StronglySorted R (filter f l).
Proof.
  induction 1 as [|x l Hl IH Hx]; cbn [filter]; [constructor|]. destruct (f x); [|exact IH]. constructor; [exact IH|].
  apply Forall_forall. intros y Hy. apply filter_In in Hy. rewrite Forall_forall in Hx. apply Hx. tauto.
Qed.
Theorem C06_find_nodes_in_order : forall r root, StronglySorted (fun a b : nat * path => fst a < fst b) (find_nodes r root).
Proof. intros. unfold find_nodes. apply filter_sorted. apply combine_seq_sorted. Qed.
Print Assumptions C06_find_nodes_in_order.

(* the in-order enumeration lists every node of the tree exactly once *)
Theorem C06_inorder_positions : forall root,
  length (inorder_paths root []) = size root /\ Forall (fun p => subtree root p <> None) (inorder_paths root []) /\
  (forall p, subtree root p <> None -> In p (inorder_paths root [])).
Proof. intros. split; [apply inorder_paths_length|split; [apply inorder_paths_valid|apply inorder_paths_complete]]. Qed.
Print Assumptions C06_inorder_positions.

(* the first-match search returns the first of them *)
Theorem C06_find_node_spec : forall r root, find_node r root = match find_nodes r root with (_, p) :: _ => Some p | [] => None end.
Proof. reflexivity. Qed.
Print Assumptions C06_find_node_spec.

Example C06_example :
  find_nodes (RComm true) (Bin KAdd (Bin KMul (Const (NInt 4)) (Var 120%N)) (Bin KSub (Var 121%N) (Const (NInt 1))))
  = [(1, [DL]); (3, [])].
Proof. vm_compute. reflexivity. Qed.
