(* C02 — Rewrites preserve the solution set of equations.
   eq_refines l r l' r' : wherever both sides of the original equation are defined, both sides of the new one are,
   and the new equation holds exactly when the original does. It implies same_solutions (the property's wording,
   "exactly the same assignments wherever both are defined") and composes along sequences of rewrites. *)
From Coq Require Import List NArith ZArith QArith Reals Bool.
From Mathy Require Import Num Expr Util Rules Sem.
From MathyProofs Require Import SemFacts RulesSoundA RulesSoundD WalkFacts.
Import ListNotations.

(* ANY rule (balanced move, the flip of the two sides, or a rewrite inside one side), any option, any node of an equation *)
Theorem C02_step : forall r l0 r0 p z,
  can_apply (Bin KEq l0 r0) p r = true -> apply (Bin KEq l0 r0) p r = ROk z ->
  exists l' r', fst z = Bin KEq l' r' /\ eq_refines l0 r0 l' r' /\ same_solutions l0 r0 l' r'.
Proof.
  intros r l0 r0 p z C A. destruct (equation_step r l0 r0 p z C A) as (l' & r' & E & H).
  exists l', r'. split; [exact E|]. split; [assumption|]. now apply eq_refines_same.
Qed.
Print Assumptions C02_step.

(* a balanced move of an addend only takes a TOP-LEVEL addend of its side: every node between it and the equation
   is an addition - never out of a product, quotient, power, negation or subtrahend *)
Theorem C02_balanced_addend_toplevel : forall root p, bm_type root p = Some B_ADD -> top_level_addend root p = true.
Proof.
  intros root p. unfold bm_type. destruct root as [| | |k rl rr]; try discriminate. destruct k; try discriminate.
  destruct (is_k KEq (par (Bin KEq rl rr) p)); [discriminate|].
  destruct (is_k KMul (par (Bin KEq rl rr) p) && is_const (node (Bin KEq rl rr) p)).
  - destruct (cval (node (Bin KEq rl rr) p)) as [v|]; [|discriminate]. destruct (truthy v); [|discriminate].
    destruct (root_side p) as [[]|]; [destruct (contains_add rl)|destruct (contains_add rr)|]; discriminate.
  - destruct (is_k KAdd (par (Bin KEq rl rr) p)); [|discriminate].
    destruct (top_level_addend (Bin KEq rl rr) p); [reflexivity|]. rewrite andb_false_r. discriminate.
Qed.
Print Assumptions C02_balanced_addend_toplevel.

(* a balanced move never divides by zero *)
Theorem C02_balanced_divisor_nonzero : forall root p, bm_type root p = Some B_MUL ->
  exists v, node root p = Some (Const v) /\ truthy v = true.
Proof.
  intros root p. unfold bm_type. destruct root as [| | |k rl rr]; try discriminate. destruct k; try discriminate.
  destruct (is_k KEq (par (Bin KEq rl rr) p)); [discriminate|].
  destruct (is_k KMul (par (Bin KEq rl rr) p) && is_const (node (Bin KEq rl rr) p)) eqn:E.
  - destruct (node (Bin KEq rl rr) p) as [[v| | |]|]; simpl; try discriminate. destruct (truthy v) eqn:T; [|discriminate]. eauto.
  - destruct (is_k KAdd (par (Bin KEq rl rr) p)); [|discriminate].
    destruct ((is_const (node (Bin KEq rl rr) p) || isSome (gte (node (Bin KEq rl rr) p))) && top_level_addend (Bin KEq rl rr) p); discriminate.
Qed.
Print Assumptions C02_balanced_divisor_nonzero.

(* non-vacuity: 2(x + 3) = 8 : the 3 is NOT movable; x + 3 = 8 : it is, giving x = 8 - 3; 4x = 8 gives 4x / 4 = 8 / 4; 0x = 0 is refused *)
Definition x := Var 120%N. Definition c (z:Z) := Const (NInt z).
Example C02_examples :
  can_apply (Bin KEq (Bin KMul (c 2) (Bin KAdd x (c 3))) (c 8)) [DL; DR; DR] RBalanced = false
  /\ apply (Bin KEq (Bin KAdd x (c 3)) (c 8)) [DL; DR] RBalanced = ROk (Bin KEq x (Bin KSub (c 8) (c 3)), [])
  /\ apply (Bin KEq (Bin KMul (c 4) x) (c 8)) [DL; DL] RBalanced = ROk (Bin KEq (Bin KDiv (Bin KMul (c 4) x) (c 4)) (Bin KDiv (c 8) (c 4)), [])
  /\ can_apply (Bin KEq (Bin KMul (c 0) x) (c 0)) [DL; DL] RBalanced = false.
Proof. repeat split; vm_compute; reflexivity. Qed.
