(* C07 — Rewritten trees are structurally sound and leave the untouched context intact.
   At the level of the model, structural soundness is by construction: `expr` is arity-correct (a binary node has two
   operands, a unary node one), a value has no sharing and no parent pointers to get wrong. What is proved is that a
   rewrite touches only the rewritten node's neighbourhood and that the set of variables is unchanged (every rule, balanced
   move included, and every sequence). The pointer-level claims about the implementation (links
   mutually consistent, no node object twice, root without parent, source tree of the clone unmodified) are audited on the
   real heap for every rewrite of every suite run (harness/pyside.py: ser with audit, snapshot). *)
From Coq Require Import List NArith ZArith QArith Bool.
From Mathy Require Import Num Expr Util Rules Sem.
From Mathy Require Import Walk.
From MathyProofs Require Import ExprFacts RulesSoundA RulesSoundB RulesSoundC RulesSoundD VarsFacts RulesVarsA RulesVarsB RulesVarsC RulesVarsD.
Import ListNotations.

(* the neighbourhood of a rewrite: the node itself, or its parent for the associative rotation *)
Theorem C07_neighbourhood : forall r root p z, not_balanced r = true -> can_apply root p r = true -> apply root p r = ROk z ->
  exists q b, (q = p \/ exists d, p = q ++ [d]) /\ subtree root q <> None /\ fst z = replace root q b.
Proof.
  intros r root p z NB C A. unfold can_apply, apply in *. destruct (node root p) eqn:N; [|discriminate].
  destruct r; try discriminate NB.
  - destruct (assoc_vars _ _ _ C A) as (q & d & PP & (a & b & Hs & E & _) & _). exists q, b. split; [right; exists d; now apply parent_path_app|]. split; [congruence|exact E].
  - destruct (comm_vars _ _ _ _ C A) as (a & b & Hs & E & _). exists p, b. split; auto. split; [congruence|exact E].
  - destruct (const_vars _ _ _ C A) as (a & b & Hs & E & _). exists p, b. split; auto. split; [congruence|exact E].
  - destruct (df_vars _ _ _ _ C A) as (a & b & Hs & E & _). exists p, b. split; auto. split; [congruence|exact E].
  - destruct (dm_vars _ _ _ C A) as (a & b & Hs & E & _). exists p, b. split; auto. split; [congruence|exact E].
  - destruct (mi_vars _ _ _ C A) as (a & b & Hs & E & _). exists p, b. split; auto. split; [congruence|exact E].
  - destruct (rs_vars _ _ _ C A) as (a & b & Hs & E & _). exists p, b. split; auto. split; [congruence|exact E].
  - destruct (vm_vars _ _ _ C A) as (a & b & Hs & E & _). exists p, b. split; auto. split; [congruence|exact E].
Qed.
Print Assumptions C07_neighbourhood.

(* everything hanging off the path to the neighbourhood is unchanged: same subtree at every position that is neither inside
   nor above the rewritten node ... *)
Theorem C07_context_preserved : forall r root p z, not_balanced r = true -> can_apply root p r = true -> apply root p r = ROk z ->
  exists q, (q = p \/ exists d, p = q ++ [d]) /\ forall q2, incomparable q q2 -> subtree (fst z) q2 = subtree root q2.
Proof.
  intros r root p z NB C A. destruct (C07_neighbourhood r root p z NB C A) as (q & b & Hq & _ & E).
  exists q. split; auto. intros q2 H. rewrite E. now apply replace_disjoint.
Qed.
Print Assumptions C07_context_preserved.

(* ... and every node above it keeps its kind and payload (only its rewritten descendant differs) *)
Theorem C07_ancestors_preserved : forall r root p z, not_balanced r = true -> can_apply root p r = true -> apply root p r = ROk z ->
  exists q, (q = p \/ exists d, p = q ++ [d]) /\ forall q2 d c, q = q2 ++ d :: c -> option_map label (subtree (fst z) q2) = option_map label (subtree root q2).
Proof.
  intros r root p z NB C A. destruct (C07_neighbourhood r root p z NB C A) as (q & b & Hq & Hs & E).
  exists q. split; auto. intros q2 d c ->. rewrite E. now apply replace_above.
Qed.
Print Assumptions C07_ancestors_preserved.

(* balanced move rebuilds both sides: the result is again an equation *)
Theorem C07_balanced_shape : forall root p z, can_apply root p RBalanced = true -> apply root p RBalanced = ROk z ->
  exists l r l' r', root = Bin KEq l r /\ fst z = Bin KEq l' r'.
Proof.
  intros root p z C A. unfold can_apply, apply in *. destruct (node root p); [|discriminate].
  exact (bm_shape _ _ _ C A).
Qed.
Print Assumptions C07_balanced_shape.

(* the set of variables of the expression is unchanged by every applicable rewrite of every rule, balanced move included
   (which moves an addend to the other side, or divides both sides by a constant): a variable occurs after the rewrite
   exactly when it occurred before *)
Theorem C07_variables_preserved : forall r root p z, can_apply root p r = true -> apply root p r = ROk z ->
  forall x, In x (vars root) <-> In x (vars (fst z)).
Proof. intros r root p z C A. apply sv_elim. exact (any_step_same_vars r root p z C A). Qed.
Print Assumptions C07_variables_preserved.

(* ... hence by every sequence of rewrites *)
Theorem C07_variables_preserved_sequence : forall steps root final, run root steps = Some final ->
  forall x, In x (vars root) <-> In x (vars final).
Proof. exact run_same_vars. Qed.
Print Assumptions C07_variables_preserved_sequence.

Example C07_variables_example :
  let root := Bin KEq (Bin KAdd (Bin KMul (Const (NInt 4)) (Var 120%N)) (Var 121%N)) (Const (NInt 2)) in
  exists z, apply root [DL; DR] RBalanced = ROk z /\ can_apply root [DL; DR] RBalanced = true /\ fst z <> root /\ vars (fst z) = [120%N; 121%N].
Proof. eexists. vm_compute. repeat split. discriminate. Qed.

Example C07_example :
  let root := Bin KSub (Bin KMul (Var 121%N) (Bin KAdd (Bin KMul (Const (NInt 4)) (Var 120%N)) (Bin KMul (Const (NInt 2)) (Var 120%N)))) (Var 122%N) in
  exists z, apply root [DL; DR] (RFactor false) = ROk z /\ subtree (fst z) [DR] = Some (Var 122%N) /\ subtree (fst z) [DL; DL] = Some (Var 121%N).
Proof. eexists. vm_compute. repeat split. Qed.
