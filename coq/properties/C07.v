(* C07 — Rewritten trees are structurally sound and leave the untouched context intact.
   At the level of the model, structural soundness is by construction: `expr` is arity-correct (a binary node has two
   operands, a unary node one), a value has no sharing and no parent pointers to get wrong. What is proved is that a
   rewrite touches only the rewritten node's neighbourhood and that the set of variables is unchanged (every rule, balanced
   move included, and every sequence). The pointer-level claims about the implementation (links
   mutually consistent, no node object twice, root without parent, source tree of the clone unmodified) are audited on the
   real heap for every rewrite of every suite run (harness/pyside.py: ser with audit, snapshot). *)
From Coq Require Import List NArith ZArith QArith Bool.
From Mathy Require Import Num Expr Util Rules Sem.
From Mathy Require Import Walk Heap Plans HeapPlan.
From MathyProofs Require Import ExprFacts RulesSoundA RulesSoundB RulesSoundC RulesSoundD VarsFacts RulesVarsA RulesVarsB RulesVarsC RulesVarsD PlansFacts HeapFacts HeapPlanFacts HeapPlanClone HeapPlanSeq.
Import ListNotations.

(* the neighbourhood of a rewrite: the node itself, or its parent for the associative rotation *)
Theorem C07_neighbourhood : forall r root p z, not_balanced r = true -> can_apply root p r = true -> apply root p r = ROk z ->
  exists q b, (q = p \/ exists d, p = q ++ [d]) /\ subtree root q <> None /\ fst z = replace root q b.
Proof.
  intros r root p z NB C A. unfold can_apply, apply in *. destruct (node root p) eqn:N; [|discriminate].
  destruct r; try discriminate NB.
  - destruct (assoc_vars _ _ _ C A) as (q & d & PP & (a & b & Hs & E & _) & _). exists q, b. split; [right; exists d; now apply parent_path_app|]. split; [congruence|exact E].
  - destruct (comm_vars _ _ _ _ C A) as (a & b & Hs & E & _). exists p, b. split; auto. split; [congruence|exact E].
  - destruct (const_vars _ _ _ C A) as (a & b & Hs & E & _). exists p, b. split; auto. split; [congruence|exact E].
  - destruct (df_vars _ _ _ _ C A) as (a & b & Hs & E & _). exists p, b. split; auto. split; [congruence|exact E].
  - destruct (dm_vars _ _ _ C A) as (a & b & Hs & E & _). exists p, b. split; auto. split; [congruence|exact E].
  - destruct (mi_vars _ _ _ C A) as (a & b & Hs & E & _). exists p, b. split; auto. split; [congruence|exact E].
  - destruct (rs_vars _ _ _ C A) as (a & b & Hs & E & _). exists p, b. split; auto. split; [congruence|exact E].
  - destruct (vm_vars _ _ _ C A) as (a & b & Hs & E & _). exists p, b. split; auto. split; [congruence|exact E].
Qed.
Print Assumptions C07_neighbourhood.

(* everything hanging off the path to the neighbourhood is unchanged: same subtree at every position that is neither inside
   nor above the rewritten node ... *)
Theorem C07_context_preserved : forall r root p z, not_balanced r = true -> can_apply root p r = true -> apply root p r = ROk z ->
  exists q, (q = p \/ exists d, p = q ++ [d]) /\ forall q2, incomparable q q2 -> subtree (fst z) q2 = subtree root q2.
Proof.
  intros r root p z NB C A. destruct (C07_neighbourhood r root p z NB C A) as (q & b & Hq & _ & E).
  exists q. split; auto. intros q2 H. rewrite E. now apply replace_disjoint.
Qed.
Print Assumptions C07_context_preserved.

(* ... and every node above it keeps its kind and payload (only its rewritten descendant differs) *)
Theorem C07_ancestors_preserved : forall r root p z, not_balanced r = true -> can_apply root p r = true -> apply root p r = ROk z ->
  exists q, (q = p \/ exists d, p = q ++ [d]) /\ forall q2 d c, q = q2 ++ d :: c -> option_map label (subtree (fst z) q2) = option_map label (subtree root q2).
Proof.
  intros r root p z NB C A. destruct (C07_neighbourhood r root p z NB C A) as (q & b & Hq & Hs & E).
  exists q. split; auto. intros q2 d c ->. rewrite E. now apply replace_above.
Qed.
Print Assumptions C07_ancestors_preserved.

(* balanced move rebuilds both sides: the result is again an equation *)
Theorem C07_balanced_shape : forall root p z, can_apply root p RBalanced = true -> apply root p RBalanced = ROk z ->
  exists l r l' r', root = Bin KEq l r /\ fst z = Bin KEq l' r'.
Proof.
  intros root p z C A. unfold can_apply, apply in *. destruct (node root p); [|discriminate].
  exact (bm_shape _ _ _ C A).
Qed.
Print Assumptions C07_balanced_shape.

(* the set of variables of the expression is unchanged by every applicable rewrite of every rule, balanced move included
   (which moves an addend to the other side, or divides both sides by a constant): a variable occurs after the rewrite
   exactly when it occurred before *)
Theorem C07_variables_preserved : forall r root p z, can_apply root p r = true -> apply root p r = ROk z ->
  forall x, In x (vars root) <-> In x (vars (fst z)).
Proof. intros r root p z C A. apply sv_elim. exact (any_step_same_vars r root p z C A). Qed.
Print Assumptions C07_variables_preserved.

(* ... hence by every sequence of rewrites *)
Theorem C07_variables_preserved_sequence : forall steps root final, run root steps = Some final ->
  forall x, In x (vars root) <-> In x (vars final).
Proof. exact run_same_vars. Qed.
Print Assumptions C07_variables_preserved_sequence.

Example C07_variables_example :
  let root := Bin KEq (Bin KAdd (Bin KMul (Const (NInt 4)) (Var 120%N)) (Var 121%N)) (Const (NInt 2)) in
  exists z, apply root [DL; DR] RBalanced = ROk z /\ can_apply root [DL; DR] RBalanced = true /\ fst z <> root /\ vars (fst z) = [120%N; 121%N].
Proof. eexists. vm_compute. repeat split. discriminate. Qed.

(* ---- the node OBJECTS (theories/Plans.v, theories/HeapPlan.v) ----
   Every rule's apply_to has an object-level plan: which old node objects are in its result and where, which are fresh. *)

(* the plan stands for exactly the tree the expression-level model computes ... *)
Theorem C07_plan_is_the_rewrite : forall r root p z, can_apply root p r = true -> apply root p r = ROk z ->
  exists q pl at_ e, rule_plan root p r = Some (q, pl) /\ subtree root q = Some at_ /\ erasep at_ pl = Some e /\ fst z = replace root q e.
Proof. exact plan_matches. Qed.
Print Assumptions C07_plan_is_the_rewrite.

(* ... and no old node object is used twice in it (no node object occurs twice in the result) *)
Theorem C07_no_object_twice : forall r root p q pl, rule_plan root p r = Some (q, pl) -> linearb pl = true.
Proof. exact plans_linear. Qed.
Print Assumptions C07_no_object_twice.

(* Executed on ANY heap that holds the tree with consistent links (wf_tree: every child's parent pointer leads back, arities by
   class, no object twice, root without parent) - constructors, set_left/set_right as in Heap.v, done() as parent.set_side - the
   rewrite leaves a heap that holds the rewritten tree with consistent links, no object twice and a parentless root; objects that
   do not belong to the tree (in particular the tree a copy was cloned from) are not written. Every rule; for the associative
   rotation whose parent is the root (the node itself becomes the root: rotate() clears its parent pointer) see C15_heap_rotate_root. *)
Theorem C07_heap_rewrite : forall r root p z whole h,
  ierase whole = root -> wf_tree h whole -> can_apply root p r = true -> apply root p r = ROk z ->
  exists q pl, rule_plan root p r = Some (q, pl) /\
    ((q = [] -> top_ok pl = true) ->
     exists h' T', run_plan whole q pl h = Some (h', iaddr T') /\ wf_tree h' T' /\ ierase T' = fst z /\
       (forall b, (b < length h)%nat -> ~ In b (iaddrs whole) -> nth_error h' b = nth_error h b) /\
       (forall b, In b (iaddrs T') -> In b (iaddrs whole) \/ (length h <= b)%nat)).
Proof.
  intros r root p z whole h Ew WF C A. destruct (plan_matches r root p z C A) as (q & pl & at_ & e & RP & Hs & Er & Ez).
  exists q, pl. split; [exact RP|]. intros TOP. subst root.
  destruct (subtree_isub _ _ _ Hs) as (ctx & Ec & Ee). subst at_.
  destruct (run_plan_wf whole h q ctx pl e WF Ec (plans_linear _ _ _ _ _ RP) Er TOP) as (h' & T' & X & W & E & F & I).
  exists h', T'. rewrite Ez, <- E. auto.
Qed.
Print Assumptions C07_heap_rewrite.

(* the side condition holds for every rule but the rotation *)
Theorem C07_heap_rewrite_side_condition : forall r root p q pl, r <> RAssoc -> rule_plan root p r = Some (q, pl) -> top_ok pl = true.
Proof. exact plans_top_ok. Qed.
Print Assumptions C07_heap_rewrite_side_condition.

(* non-vacuity: a heap built by the constructors holds a well-formed tree, and a rewrite on it (factor-out in the chained-left
   arrangement, below a subtraction) runs to a well-formed heap in which the kept objects are the old ones *)
Example C07_heap_example :
  let root := Bin KSub (Bin KAdd (Bin KAdd (Const (NInt 4)) (Var 112%N)) (Var 112%N)) (Var 122%N) in
  let h := fst (alloc [] root) in
  let whole := IBin 6 KSub (IBin 4 KAdd (IBin 2 KAdd (IConst 0 (NInt 4)) (IVar 1 112%N)) (IVar 3 112%N)) (IVar 5 122%N) in
  ierase whole = root /\ wf_tree h whole /\
    exists pl h', rule_plan root [DL] (RFactor false) = Some ([DL], pl) /\ run_plan whole [DL] pl h = Some (h', 6%nat) /\
      length h = 7%nat /\ length h' = 13%nat /\ option_map h_l (nth_error h' 12%nat) = Some (Some 0%nat) /\ option_map h_p (nth_error h' 0%nat) = Some (Some 12%nat) /\
      option_map h_l (nth_error h' 6%nat) = Some (Some 12%nat).
Proof.
  cbv zeta. split; [reflexivity|]. split.
  - split.
    + vm_compute. repeat (eexists; repeat (split; try reflexivity)).
    + vm_compute. repeat constructor; cbn; intuition discriminate.
  - eexists _, _. split; [vm_compute; reflexivity|]. split; [vm_compute; reflexivity|]. repeat split.
Qed.

(* The usual call sequence, at heap level from end to end: work = node.clone_from_root() (the heap-level clone of C13), then
   rule.apply_to(work). For any heap holding a tree t (C13's rep) with the classes and payloads of an expression e, any node of it
   and any applicable rule at any path of the copy: the copy is a well-formed tree of fresh objects, the rewrite leaves it
   well-formed, the result shares no object with the tree it was cloned from, and that tree still stands with the same objects,
   links and payloads (rep before = rep after). *)
Theorem C07_clone_then_rewrite : forall t e h root node r p z,
  rep h (Some root) None t -> NoDup (oaddrs h (Some root) t) -> In node (oaddrs h (Some root) t) ->
  (forall b n, In b (oaddrs h (Some root) t) -> b <> node -> nth_error h b = Some n -> dead (h_ct n)) ->
  shape_of t e -> can_apply e p r = true -> apply e p r = ROk z ->
  exists h1 k copy q pl,
    clone_from_root h node = HOk (h1, (length h + k)%nat) /\ ierase copy = e /\ wf_tree h1 copy /\ iaddr copy = length h /\
    rule_plan e p r = Some (q, pl) /\
    ((q = [] -> top_ok pl = true) ->
     exists h2 T', run_plan copy q pl h1 = Some (h2, iaddr T') /\ wf_tree h2 T' /\ ierase T' = fst z /\
       rep h2 (Some root) None t /\ (forall b, In b (iaddrs T') -> (length h <= b)%nat)).
Proof. exact clone_then_rewrite. Qed.
Print Assumptions C07_clone_then_rewrite.

(* ... and for every sequence of rewrites (any rules, any nodes), by induction: every heap reached from a well-formed one is
   well-formed and holds the expression the expression-level model computes; each step writes only objects of the current tree
   and fresh ones. (all_ok excludes, at each step, only the rotation that makes the node itself the root.) *)
Theorem C07_heap_sequence : forall steps h T final,
  wf_tree h T -> run (ierase T) steps = Some final -> all_ok (ierase T) steps = true ->
  exists h' T', Hreach h T steps h' T' /\ wf_tree h' T' /\ ierase T' = final.
Proof. exact heap_sequence. Qed.
Print Assumptions C07_heap_sequence.

Example C07_clone_premises :
  let t := AN (cls_bin KAdd) 1 None None false (AN cls_var 2 None (Some 120%N) false AE AE) (AN cls_const 3 (Some (NInt 2)) None false AE AE) in
  let h := layout 0 None t in
  rep h (Some 0%nat) None t /\ NoDup (oaddrs h (Some 0%nat) t) /\ shape_of t (Bin KAdd (Var 120%N) (Const (NInt 2))) /\
  (forall b n, In b (oaddrs h (Some 0%nat) t) -> nth_error h b = Some n -> dead (h_ct n)).
Proof.
  cbv zeta. split; [|split; [|split]].
  - vm_compute. repeat (eexists; repeat (split; try reflexivity)).
  - vm_compute. repeat constructor; cbn; intuition discriminate.
  - cbn [shape_of]. repeat eexists.
  - intros b n Hb Hn. vm_compute in Hb. destruct Hb as [<-|[<-|[<-|[]]]]; vm_compute in Hn; inversion Hn; right; reflexivity.
Qed.

Example C07_example :
  let root := Bin KSub (Bin KMul (Var 121%N) (Bin KAdd (Bin KMul (Const (NInt 4)) (Var 120%N)) (Bin KMul (Const (NInt 2)) (Var 120%N)))) (Var 122%N) in
  exists z, apply root [DL; DR] (RFactor false) = ROk z /\ subtree (fst z) [DR] = Some (Var 122%N) /\ subtree (fst z) [DL; DL] = Some (Var 121%N).
Proof. eexists. vm_compute. repeat split. Qed.
