(* C11 — Tokenizing is lossless, total and faithful to character classes.
   Only statements, each closed by `exact <lemma>`, with Print Assumptions beneath. *)
From Coq Require Import List NArith Bool.
From Mathy Require Import Tok Params Lexer.
From MathyProofs Require Import ParamsFacts LexerFacts.
Import ListNotations.

(* the token values, padding retained, reproduce the input up to the three normalisations *)
Theorem C11_lossless : forall s ts, tokenize false s = LOk ts -> values ts = map norm s.
Proof. intros s ts. exact (lex_lossless _ s ts). Qed.
Print Assumptions C11_lossless.

(* maximal munch / character classes / one Variable per letter / function names, in both modes:
   the stream satisfies the declarative specification LexSpec *)
Theorem C11_stream_spec : forall ex s ts, tokenize ex s = LOk ts -> LexSpec (negb ex) s ts.
Proof. intros ex s ts. exact (lex_sound _ _ s ts). Qed.
Print Assumptions C11_stream_spec.

(* exactly one end marker, last; every other token covers at least one character *)
Theorem C11_partition : forall ex s ts, tokenize ex s = LOk ts ->
  exists body, ts = body ++ [EOFtok] /\ Forall (fun t => tv t <> [] /\ tk t <> TEOF /\ tk t <> TInvalid) body.
Proof. intros ex s ts H. exact (spec_shape _ _ _ (lex_sound _ _ _ _ H)). Qed.
Print Assumptions C11_partition.

(* dropping padding only removes the whitespace tokens *)
Theorem C11_padding : forall s ts, tokenize false s = LOk ts -> LexSpec false s (filter not_pad ts).
Proof. intros s ts H. exact (spec_padding _ _ (lex_sound _ _ _ _ H)). Qed.
Print Assumptions C11_padding.

(* total: never out of fuel *)
Theorem C11_total : forall ex s, tokenize ex s <> LFuel.
Proof. intros ex s. apply lex_total. auto. Qed.
Print Assumptions C11_total.

(* ValueError exactly on unsupported characters *)
Theorem C11_invalid : forall ex s,
  (exists c, tokenize ex s = LErr c) <-> forallb supported s = false.
Proof.
  intros ex s. split.
  - intros [c H]. destruct (lex_err_unsupported _ _ _ _ H) as (Hin & Hs).
    destruct (forallb supported s) eqn:E; auto. rewrite forallb_forall in E. rewrite (E _ Hin) in Hs. discriminate.
  - intros H. destruct (tokenize ex s) as [ts|c|] eqn:E.
    + apply lex_ok_supported in E. congruence.
    + eauto.
    + exfalso. revert E. apply lex_total. auto.
Qed.
Print Assumptions C11_invalid.

(* the declarative stream specification is complete: whatever stream it allows for an input IS the tokenizer's result
   (with C11_stream_spec: tokenize s = LOk ts  <->  LexSpec s ts) *)
Theorem C11_spec_complete : forall ex s ts, LexSpec (negb ex) s ts -> tokenize ex s = LOk ts.
Proof. exact tokenize_complete. Qed.
Print Assumptions C11_spec_complete.

(* non-vacuity: a concrete input with every token class, both modes *)
Example C11_example :
  tokenize false [52;120;32;43;32;115;103;110;40;8211;51;46;53;93]%N
  = LOk [ {|tk:=TConst;tv:=[52]|}; {|tk:=TVar;tv:=[120]|}; {|tk:=TPad;tv:=[32]|}; {|tk:=TPlus;tv:=[43]|};
          {|tk:=TPad;tv:=[32]|}; {|tk:=TFunc;tv:=[115;103;110]|}; {|tk:=TOpen;tv:=[40]|}; {|tk:=TMinus;tv:=[45]|};
          {|tk:=TConst;tv:=[51;46;53]|}; {|tk:=TClose;tv:=[41]|}; EOFtok ]%N
  /\ tokenize true [115;103;32;35]%N = LErr 35%N.
Proof. split; reflexivity. Qed.
