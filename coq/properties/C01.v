(* C01 — Every applicable rewrite preserves the value of the expression.
   Model: theories/Rules.v (classifiers + apply of the nine rules, eleven configurations), tied to
   mathy_core/rules/*.py by the `rules` correspondence suite. Specification: theories/Sem.v (den: the
   real-valued partial function an expression denotes). A position is (root, path), so "every position in
   the tree, not only the root or the first match" is in the quantifier.
   Exact arithmetic: a fold of c1 ^ c2 with a non-integral exponent and positive base has an irrational
   value; the model marks it (RInexact) and the theorems speak of ROk results (the rounding the property allows). *)
From Coq Require Import List NArith ZArith QArith Reals Bool.
From Mathy Require Import Num Expr Util Rules Sem.
From MathyProofs Require Import SemFacts RulesSoundA RulesSoundD.
Import ListNotations.

(* every rule except balanced move (which only applies below an equation: C02), under every option, at every node:
   wherever the original is defined the rewritten WHOLE expression is defined and has the same value *)
Theorem C01_step_refines : forall r root p z,
  not_balanced r = true -> can_apply root p r = true -> apply root p r = ROk z -> refines root (fst z).
Proof. exact step_refines. Qed.
Print Assumptions C01_step_refines.

(* the literal statement: at every assignment where both are defined they evaluate to the same number *)
Theorem C01_step_agree : forall r root p z,
  not_balanced r = true -> can_apply root p r = true -> apply root p r = ROk z -> agree root (fst z).
Proof. intros. apply refines_agree. eapply step_refines; eauto. Qed.
Print Assumptions C01_step_agree.

(* the rewrite is local: one subtree is replaced by a refinement of it, everything else is untouched *)
Theorem C01_step_local : forall r root p z,
  not_balanced r = true -> can_apply root p r = true -> apply root p r = ROk z ->
  exists q a b, subtree root q = Some a /\ fst z = replace root q b /\ refines a b.
Proof. intros r root p z NB C A. destruct (step_local r root p z NB C A) as (q & a & b & H). eauto. Qed.
Print Assumptions C01_step_local.

(* non-vacuity: each rule fires at an INNER node of a concrete tree (x = 120, y = 121) *)
Definition ex_x := Var 120%N. Definition ex_y := Var 121%N. Definition c (z:Z) := Const (NInt z).
Example C01_examples :
  (* 7 + (4x + 2x)  --factor-->  7 + (4 + 2) * x   (node at path R) *)
  apply (Bin KAdd (c 7) (Bin KAdd (Bin KMul (c 4) ex_x) (Bin KMul (c 2) ex_x))) [DR] (RFactor false)
    = ROk (Bin KAdd (c 7) (Bin KMul (Bin KAdd (c 4) (c 2)) ex_x), [DR])
  /\ can_apply (Bin KAdd (c 7) (Bin KAdd (Bin KMul (c 4) ex_x) (Bin KMul (c 2) ex_x))) [DR] (RFactor false) = true
  (* y * (x^2 * x^3)  --variable multiply-->  y * x^(2 + 3) *)
  /\ apply (Bin KMul ex_y (Bin KMul (Bin KPow ex_x (c 2)) (Bin KPow ex_x (c 3)))) [DR] RVarMul
    = ROk (Bin KMul ex_y (Bin KPow ex_x (Bin KAdd (c 2) (c 3))), [DR])
  (* (y - (3 - x))^2 : restate subtraction at the inner difference gives y + -(3 - x), never y + (-3 - x) *)
  /\ apply (Bin KPow (Bin KSub ex_y (Bin KSub (c 3) ex_x)) (c 2)) [DL] RRestate
    = RRaises RAssertion
  /\ can_apply (Bin KPow (Bin KSub ex_y (Bin KSub (c 3) ex_x)) (c 2)) [DL] RRestate = false
  /\ apply (Bin KAdd ex_x (Bin KSub ex_y (Bin KSub (c 3) ex_x))) [DR] RRestate
    = ROk (Bin KAdd ex_x (Bin KAdd ex_y (Un UNeg (Bin KSub (c 3) ex_x))), [DR]).
Proof. repeat split; vm_compute; reflexivity. Qed.
