(* C13 — Cloning yields an identical, independent tree and locates the cloned node.
   Heap-level: node objects are addresses, links are pointers, cloned_node / cloned_target are fields (theories/Heap.v).
   `rep h (Some a) p t` : the structure rooted at address a, with parent pointer p, is the abstract tree t (class, id, payload, operand
   side of every node; any node may lack either child, so one-operand nodes with the operand on either side are covered). *)
From Coq Require Import List NArith ZArith Arith.
From Mathy Require Import Num Heap.
From MathyProofs Require Import HeapFacts.
Import ListNotations.

(* clone() of any node of any tree (no clone_from_root in progress: every marker is "" or None): the result heap is the old heap,
   untouched, followed by the copy; the copy is the same abstract tree as a root, made of exactly the fresh addresses (so it shares
   no node with the original); the original is still there *)
Theorem C13_clone_identical_and_fresh : forall t h a p pl,
  rep h (Some a) p t -> ptr h a pl -> length pl <= length h -> NoDup (oaddrs h (Some a) t) -> all_dead h (oaddrs h (Some a) t) ->
  exists h', clone (size t) h a = HOk (h', length h) /\
    h' = h ++ layout (length h) None t /\
    rep h' (Some (length h)) None t /\
    rep h' (Some a) p t /\
    oaddrs h' (Some (length h)) t = seq (length h) (size t) /\
    (forall b, In b (oaddrs h' (Some a) t) -> b < length h).
Proof. exact clone_spec. Qed.
Print Assumptions C13_clone_identical_and_fresh.

(* changing either tree afterwards never affects the other: whatever is later written to the addresses of one of them, the other
   is still the same tree *)
Theorem C13_clone_independent : forall t h a p g, rep h (Some a) p t ->
  let h' := h ++ layout (length h) None t in
  ((forall b, b < length h -> nth_error g b = nth_error h' b) -> rep g (Some a) p t) /\
  ((forall b, length h <= b < length h + size t -> nth_error g b = nth_error h' b) -> rep g (Some (length h)) None t).
Proof. exact clone_independent. Qed.
Print Assumptions C13_clone_independent.

(* node.clone_from_root(): a complete copy of the whole tree is made and the returned address is the copy of that same node - the
   k-th node of the copy in pre-order when the node is the k-th node of the original -; the original is intact *)
Theorem C13_clone_from_root_locates : forall t h root node,
  rep h (Some root) None t -> NoDup (oaddrs h (Some root) t) -> In node (oaddrs h (Some root) t) ->
  (forall b n, In b (oaddrs h (Some root) t) -> b <> node -> nth_error h b = Some n -> dead (h_ct n)) ->
  exists h' k,
    clone_from_root h node = HOk (h', length h + k) /\
    nth_error (oaddrs h (Some root) t) k = Some node /\
    nth_error (oaddrs h' (Some (length h)) t) k = Some (length h + k) /\
    rep h' (Some (length h)) None t /\
    rep h' (Some root) None t /\
    length h' = length h + size t.
Proof. exact clone_from_root_spec. Qed.
Print Assumptions C13_clone_from_root_locates.

(* non-vacuity: x * (y + 3) with equal ids on three nodes; clone_from_root of the node "3" (address 4) returns address 9 = 5 + 4 *)
Definition mk (c i:N) (v:option num) (x:option N) (l r p:option nat) : hnode :=
  {| h_cls := c; h_id := i; h_val := v; h_ident := x; h_col := false; h_l := l; h_r := r; h_p := p; h_cn := None; h_ct := Some [] |}.
Example C13_example :
  let h := [mk 1 7 None None (Some 1) (Some 2) None; mk 2 8 None (Some 120%N) None None (Some 0); mk 3 9 None None (Some 3) (Some 4) (Some 0);
            mk 2 8 None (Some 121%N) None None (Some 2); mk 4 8 (Some (NInt 3%Z)) None None None (Some 2)] in
  match clone_from_root h 4 with HOk (h', c) => c = 9 /\ length h' = 10 /\ option_map h_p (nth_error h' 9) = Some (Some 7) | _ => False end.
Proof. vm_compute. repeat split. Qed.
