(* C17 — Generated problems are always valid and contain what they promise.
   Generators are functions of an oracle stream of draws (theories/Problems.v); "for every stream" covers every seed. *)
From Coq Require Import List NArith ZArith QArith Qround Bool.
From Mathy Require Import Params Lexer Expr Parser Problems.
From MathyProofs Require Import ProblemsFacts SimplifyLike.
Import ListNotations.

(* every structured problem text, whatever its terms, groups and operators, renders to a string the parser accepts *)
Theorem C17_rendered_text_parses : forall p : problem, exists e, parse (render p) = Ok e.
Proof. exact render_parses. Qed.
Print Assumptions C17_rendered_text_parses.

(* for every draw stream and every parameter setting, in both number modes: when a generator returns, the text parses and the
   complexity is positive.  (The other outcomes: PRaise = ValueError for an infeasible request; PRange = parameters outside
   the documented range; PBad = the stream is not a legal sequence of draws.) *)
Definition valid (r:pres (problem * Z)) : Prop :=
  match r with POk (p, c) _ => (exists e, parse (render p) = Ok e) /\ (0 < c)%Z | _ => True end.
Theorem C17_combine_terms_in_place : forall pretty mn mx easy powers s, valid (gen_combine_terms_in_place pretty mn mx easy powers s).
Proof. intros. unfold valid. destruct (gen_combine_terms_in_place _ _ _ _ _ s) as [[p c] r| | |] eqn:E; auto. split; [apply render_parses|eapply combine_complexity; eauto]. Qed.
Theorem C17_commute_haystack : forall pretty mn mx bl easy powers s, valid (gen_commute_haystack pretty mn mx bl easy powers s).
Proof. intros. unfold valid. destruct (gen_commute_haystack _ _ _ _ _ _ s) as [[p c] r| | |] eqn:E; auto. split; [apply render_parses|eapply haystack_complexity; eauto]. Qed.
Theorem C17_move_around_blockers_one : forall pretty n pp s, valid (gen_move_around_blockers_one pretty n pp s).
Proof. intros. unfold valid. destruct (gen_move_around_blockers_one _ _ _ s) as [[p c] r| | |] eqn:E; auto. split; [apply render_parses|eapply blockers1_complexity; eauto]. Qed.
Theorem C17_move_around_blockers_two : forall pretty n pp s, valid (gen_move_around_blockers_two pretty n pp s).
Proof. intros. unfold valid. destruct (gen_move_around_blockers_two _ _ _ s) as [[p c] r| | |] eqn:E; auto. split; [apply render_parses|eapply blockers2_complexity; eauto]. Qed.
Theorem C17_binomial_times_binomial : forall pretty mn mx simple pp lp s, valid (gen_binomial_times_binomial pretty mn mx simple pp lp s).
Proof. intros. unfold valid. destruct (gen_binomial_times_binomial _ _ _ _ _ _ s) as [[p c] r| | |] eqn:E; auto. split; [apply render_parses|eapply binbin_complexity; eauto]. Qed.
Theorem C17_binomial_times_monomial : forall pretty mn mx simple pp lp s, valid (gen_binomial_times_monomial pretty mn mx simple pp lp s).
Proof. intros. unfold valid. destruct (gen_binomial_times_monomial _ _ _ _ _ _ s) as [[p c] r| | |] eqn:E; auto. split; [apply render_parses|eapply binmono_complexity; eauto]. Qed.
Theorem C17_simplify_multiple_terms : forall pretty nt ov m its pp ovp np shp svp gnp noise s,
  valid (gen_simplify_multiple_terms pretty nt ov m its pp ovp np shp svp gnp noise s).
Proof. intros. unfold valid. destruct (gen_simplify_multiple_terms _ _ _ _ _ _ _ _ _ _ _ _ s) as [[p c] r| | |] eqn:E; auto. split; [apply render_parses|eapply simplify_complexity; eauto]. Qed.
Print Assumptions C17_simplify_multiple_terms.

(* the four generators that promise a pair of like terms among distractors: two terms over the same variable with the same power
   (the implementation-level reading, has_like_terms(parse(text)), is the suite's oracle) *)
Theorem C17_like_pair_promised : forall pretty s p c r,
  (forall mn mx easy powers, gen_combine_terms_in_place pretty mn mx easy powers s = POk (p, c) r -> like_pair (terms_of p)) /\
  (forall mn mx bl easy powers, gen_commute_haystack pretty mn mx bl easy powers s = POk (p, c) r -> like_pair (terms_of p)) /\
  (forall n pp, gen_move_around_blockers_one pretty n pp s = POk (p, c) r -> like_pair (terms_of p)) /\
  (forall n pp, gen_move_around_blockers_two pretty n pp s = POk (p, c) r -> like_pair (terms_of p)).
Proof.
  intros. split; [intros; eapply combine_like; eauto|]. split; [intros; eapply haystack_like; eauto|].
  split; [intros; eapply blockers1_like; eauto|intros; eapply blockers2_like; eauto].
Qed.
Print Assumptions C17_like_pair_promised.

(* gen_simplify_multiple_terms ("a polynomial problem with like terms that need to be combined") keeps that promise whenever the
   like-term templates are repeated - fewer templates than terms - and the variable of a term is not optional: for every seed, both
   number modes, every operator mode and every probability setting the result contains two terms over the same variable with the same
   power (through noise terms, shuffling and grouping). With more templates than terms (inner_terms_scaling = 1) there is no such pair
   in general, and with '*' as operator the pair is a product, not a sum: the implementation's has_like_terms is held to the promise
   by the suite only for the additive operator modes. *)
Theorem C17_simplify_like_pair_promised : forall pretty nt m its pp ovp np shp svp gnp noise s p c r,
  gen_simplify_multiple_terms pretty nt false m its pp ovp np shp svp gnp noise s = POk (p, c) r ->
  ((if nt =? 2 then 1 else Z.max 2 (Qfloor (inject_Z nt * its))) < nt)%Z ->
  like_pair (terms_of p).
Proof. exact simplify_like. Qed.
Print Assumptions C17_simplify_like_pair_promised.

(* requested variable sets: the requested number, pairwise distinct, from the alphabet, none of the excluded; raising exactly
   when the request is infeasible *)
Theorem C17_rand_vars : forall n exclude common s vs r, get_rand_vars n exclude common s = POk vs r ->
  Z.of_nat (length vs) = n /\ NoDup (map letter vs) /\
  (forall v, In v vs -> In (letter v) (pool_of common) /\ forall x, In x exclude -> letter v <> letter x).
Proof. exact get_rand_vars_spec. Qed.
Print Assumptions C17_rand_vars.
Theorem C17_rand_vars_raises : forall n exclude common s,
  get_rand_vars n exclude common s = PRaise <-> (25 < n \/ n < 0 \/ Z.of_nat (length (available exclude common)) < n)%Z.
Proof. exact get_rand_vars_raises. Qed.
Print Assumptions C17_rand_vars_raises.

(* random two-way splits sum to their input *)
Theorem C17_split : forall v s a b r, split_in_two_random v s = POk (a, b) r -> (a + b = v /\ a <= b)%Z.
Proof. exact split_spec. Qed.
Print Assumptions C17_split.

Example C17_example :
  match gen_move_around_blockers_one true 2 (1#2) [23; 10; 3; 5; 0; 90; 17; 9; 50; 4; 95]%Z with
  | POk (p, c) _ => render p = [52; 122; 94; 51; 32; 43; 32; 103; 32; 43; 32; 57; 97; 32; 43; 32; 122; 94; 51]%N /\ c = 4%Z
  | _ => False end.
Proof. vm_compute. split; reflexivity. Qed.   (* "4z^3 + g + 9a + z^3", complexity 4 *)
