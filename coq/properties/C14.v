(* C14 — Traversals and look-ups visit exactly the right nodes in the right order.
   Trees: any node may lack either child (Bt.bt). The visitor is an ARBITRARY state transformer that
   may return STOP; visit_pre/in/post follow tree.py line by line (STOP propagation included). *)
From Coq Require Import List Arith Bool Permutation.
From Mathy Require Import Bt.
From MathyProofs Require Import BtFacts.
Import ListNotations.

(* each traversal = running the visitor over the defining order (with true depths) until the first STOP *)
Theorem C14_preorder : forall (A S:Type) (f:S -> A -> nat -> S * bool) t d s, visit_pre f t d s = run f (pre t d) s.
Proof. intros. apply visit_pre_spec. Qed.
Print Assumptions C14_preorder.
Theorem C14_inorder : forall (A S:Type) (f:S -> A -> nat -> S * bool) t d s, visit_in f t d s = run f (ino t d) s.
Proof. intros. apply visit_in_spec. Qed.
Print Assumptions C14_inorder.
Theorem C14_postorder : forall (A S:Type) (f:S -> A -> nat -> S * bool) t d s, visit_post f t d s = run f (post t d) s.
Proof. intros. apply visit_post_spec. Qed.
Print Assumptions C14_postorder.

(* the callbacks actually made: exactly the prefix of the order up to and including the first node on which the
   visitor returns STOP - no further callbacks - and the traversal reports STOP iff some callback did *)
Theorem C14_calls_prefix : forall (A:Type) (stop:A -> nat -> bool) (t:bt A),
  visit_pre (logger stop) t 0 [] = (upto stop (pre t 0), existsb (fun p => stop (fst p) (snd p)) (pre t 0)) /\
  visit_in (logger stop) t 0 [] = (upto stop (ino t 0), existsb (fun p => stop (fst p) (snd p)) (ino t 0)) /\
  visit_post (logger stop) t 0 [] = (upto stop (post t 0), existsb (fun p => stop (fst p) (snd p)) (post t 0)).
Proof. intros. split; [apply preorder_calls|split; [apply inorder_calls|apply postorder_calls]]. Qed.
Print Assumptions C14_calls_prefix.

(* exactly once per node: each order lists every node once (they are permutations of one another, of length = size) *)
Theorem C14_once_per_node : forall (A:Type) (t:bt A),
  Permutation (pre t 0) (ino t 0) /\ Permutation (post t 0) (ino t 0) /\ length (ino t 0) = bsize t.
Proof. intros. destruct (orders_perm t 0) as (P & Q). destruct (order_lengths t 0) as (_ & L & _). auto. Qed.
Print Assumptions C14_once_per_node.

(* listing, find-by-id (first in in-order), find-by-type (in-order filter) agree with the traversals *)
Theorem C14_lookups : forall (A:Type) (t:bt A) (eqb is_type:A -> bool),
  to_list OPre t = map fst (pre t 0) /\ to_list OIn t = map fst (ino t 0) /\ to_list OPost t = map fst (post t 0) /\
  find_id eqb t = find eqb (inorder t) /\ find_type is_type t = filter is_type (inorder t).
Proof.
  intros. repeat split; try (apply (to_list_spec OPre)) ; try (apply (to_list_spec OIn)); try (apply (to_list_spec OPost)).
  - apply find_id_spec. - apply find_type_spec.
Qed.
Print Assumptions C14_lookups.

Example C14_example :
  let t := T (T E 1 (T E 2 E)) 0 (T (T E 4 E) 3 E) in
  visit_in (logger (fun a _ => Nat.eqb a 0)) t 0 [] = ([(1,1); (2,2); (0,0)], true) /\
  map fst (post t 0) = [2; 1; 4; 3; 0].
Proof. split; reflexivity. Qed.
