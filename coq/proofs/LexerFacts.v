(* Proofs about the tokenizer model (property C11). *)
From Coq Require Import List NArith Bool Lia.
From Mathy Require Import Tok Params Lexer.
From MathyProofs Require Import ParamsFacts.
Import ListNotations.
Open Scope N_scope.

Definition EOFtok : token := {|tk:=TEOF; tv:=[]|}.
Definition values (ts:list token) : list N := concat (map tv ts).
Definition var_tokens (v:list N) : list token := map (fun ch => {|tk:=TVar;tv:=[ch]|}) v.
Definition starts_with (f:N->bool) (s:list N) : bool := match s with c::_ => f c | [] => false end.

(* ---------- SPEC: declarative description of the token stream (maximal munch made explicit) ---------- *)
Inductive LexSpec (keep_pad:bool) : list N -> list token -> Prop :=
| LS_eof : LexSpec keep_pad [] [EOFtok]
| LS_const : forall run rest ts,
    run <> [] -> forallb is_number run = true -> starts_with is_number rest = false ->
    LexSpec keep_pad rest ts -> LexSpec keep_pad (run ++ rest) ({|tk:=TConst;tv:=run|} :: ts)
| LS_func : forall run rest ts,
    run <> [] -> forallb is_alpha run = true -> starts_with is_alpha rest = false ->
    starts_with is_number run = false -> In run spec_function_names ->
    LexSpec keep_pad rest ts -> LexSpec keep_pad (run ++ rest) ({|tk:=TFunc;tv:=run|} :: ts)
| LS_vars : forall run rest ts,
    run <> [] -> forallb is_alpha run = true -> starts_with is_alpha rest = false ->
    starts_with is_number run = false -> ~ In run spec_function_names ->
    LexSpec keep_pad rest ts -> LexSpec keep_pad (run ++ rest) (var_tokens run ++ ts)
| LS_op : forall c rest k ts,
    is_number c = false -> is_alpha c = false -> In (c,k) spec_ops -> k <> TPad ->
    LexSpec keep_pad rest ts -> LexSpec keep_pad (c :: rest) ({|tk:=k;tv:=[norm c]|} :: ts)
| LS_pad : forall c rest ts,
    is_number c = false -> is_alpha c = false -> In (c,TPad) spec_ops ->
    LexSpec keep_pad rest ts ->
    LexSpec keep_pad (c :: rest) (if keep_pad then {|tk:=TPad;tv:=[c]|} :: ts else ts).

(* ---------- span ---------- *)
Lemma span_spec f s a b : span f s = (a,b) -> s = a ++ b /\ forallb f a = true /\ starts_with f b = false.
Proof.
  revert a b; induction s as [|c r IH]; simpl; intros a b.
  - intros [= <- <-]; auto.
  - destruct (f c) eqn:Hc.
    + destruct (span f r) as [a' b'] eqn:E. intros [= <- <-]. destruct (IH _ _ eq_refl) as (-> & H1 & H2).
      simpl. rewrite Hc, H1. auto.
    + intros [= <- <-]. simpl. auto.
Qed.
Lemma span_first f c r a b : f c = true -> span f (c::r) = (a,b) -> exists a', a = c :: a' /\ (length b <= length r)%nat.
Proof.
  simpl. intros ->. destruct (span f r) as [a' b'] eqn:E. intros [= <- <-]. exists a'. split; auto.
  destruct (span_spec _ _ _ _ E) as (-> & _). rewrite app_length. lia.
Qed.

Lemma list_eqb_eq a b : list_eqb a b = true <-> a = b.
Proof. unfold list_eqb. destruct (list_eq_dec N.eq_dec a b); split; auto; discriminate. Qed.
Lemma is_function_name_iff v : is_function_name v = true <-> In v spec_function_names.
Proof.
  unfold is_function_name. rewrite function_names_spec, existsb_exists. split.
  - intros (x & Hx & E). apply list_eqb_eq in E. now subst.
  - intros H. exists v. split; auto. now apply list_eqb_eq.
Qed.

Lemma map_norm_id f a : (forall c, f c = true -> norm c = c) -> forallb f a = true -> map norm a = a.
Proof. intros Hf. induction a as [|c a IH]; simpl; auto. rewrite andb_true_iff. intros [H1 H2]. f_equal; auto. Qed.

Lemma values_vars v : values (var_tokens v) = v.
Proof. induction v; simpl; auto. unfold values, var_tokens in *. simpl. now f_equal. Qed.
Lemma values_app a b : values (a ++ b) = values a ++ values b.
Proof. unfold values. now rewrite map_app, concat_app. Qed.

(* ---------- the tokenizer satisfies the declarative spec ---------- *)
Theorem lex_sound : forall fuel kp s ts, lex fuel kp s = LOk ts -> LexSpec kp s ts.
Proof.
  induction fuel as [|n IH]; simpl; intros kp s ts; [discriminate|].
  destruct s as [|c r]; [intros [= <-]; constructor|].
  destruct (is_number c) eqn:Hn.
  - destruct (span is_number (c::r)) as [v rest] eqn:E.
    destruct (lex n kp rest) eqn:L; try discriminate. intros [= <-].
    destruct (span_spec _ _ _ _ E) as (A & F & S). rewrite A.
    destruct (span_first _ _ _ _ _ Hn E) as (a' & -> & _).
    apply LS_const; auto. discriminate.
  - destruct (is_alpha c) eqn:Ha.
    + destruct (span is_alpha (c::r)) as [v rest] eqn:E.
      destruct (lex n kp rest) eqn:L; try discriminate. intros [= <-].
      destruct (span_spec _ _ _ _ E) as (A & F & S). rewrite A.
      destruct (span_first _ _ _ _ _ Ha E) as (a' & -> & _).
      destruct (is_function_name (c::a')) eqn:Fn.
      * apply is_function_name_iff in Fn. apply LS_func; auto. discriminate.
      * apply LS_vars; auto; try discriminate. rewrite <- is_function_name_iff. congruence.
    + destruct (op_of c) as [[k v]|] eqn:O; try discriminate.
      destruct (lex n kp (tl (c::r))) as [l| |] eqn:L; try discriminate. simpl in L.
      intros [= <-]. pose proof (op_norm _ _ _ O) as ->. pose proof (op_kind _ _ _ O) as K.
      destruct k; try (apply LS_op; auto; discriminate).
      assert (norm c = c) as -> by (destruct (op_pad _ _ O) as [->|[->|[->| ->]]]; reflexivity).
      replace (if negb kp then l else {| tk := TPad; tv := [c] |} :: l)
        with (if kp then {| tk := TPad; tv := [c] |} :: l else l) by (destruct kp; reflexivity).
      apply LS_pad; auto.
Qed.

(* ---------- consequences of the spec ---------- *)
Lemma spec_lossless s ts : LexSpec true s ts -> values ts = map norm s.
Proof.
  induction 1; auto.
  - rewrite map_app, (map_norm_id _ _ norm_number H0). unfold values in *. simpl. now f_equal.
  - rewrite map_app, (map_norm_id _ _ norm_alpha H0). unfold values in *. simpl. now f_equal.
  - rewrite map_app, (map_norm_id _ _ norm_alpha H0), values_app, values_vars. now f_equal.
  - unfold values in *. simpl. now f_equal.
  - unfold values in *. simpl. f_equal; auto.
    simpl in H1. repeat (destruct H1 as [H1|H1]; [inversion H1; reflexivity|]); try contradiction;
    try (inversion H1; fail).
Qed.

Theorem lex_lossless fuel s ts : lex fuel true s = LOk ts -> values ts = map norm s.
Proof. intros H. apply spec_lossless. eapply lex_sound; eauto. Qed.

(* exactly one EOF, at the end; every other token is non-empty and not an EOF/Invalid token *)
Lemma spec_shape kp s ts : LexSpec kp s ts ->
  exists body, ts = body ++ [EOFtok] /\ Forall (fun t => tv t <> [] /\ tk t <> TEOF /\ tk t <> TInvalid) body.
Proof.
  induction 1.
  - exists []. split; auto.
  - destruct IHLexSpec as (b & -> & F). exists ({| tk := TConst; tv := run |} :: b). split; auto.
    constructor; auto. simpl. repeat split; auto; discriminate.
  - destruct IHLexSpec as (b & -> & F). exists ({| tk := TFunc; tv := run |} :: b). split; auto.
    constructor; auto. simpl. repeat split; auto; discriminate.
  - destruct IHLexSpec as (b & -> & F). exists (var_tokens run ++ b). split; [now rewrite app_assoc|].
    apply Forall_app. split; auto. unfold var_tokens. apply Forall_forall. intros t Ht. apply in_map_iff in Ht.
    destruct Ht as (ch & <- & _). simpl. repeat split; discriminate.
  - destruct IHLexSpec as (b & -> & F). exists ({| tk := k; tv := [norm c] |} :: b). split; auto.
    constructor; auto. simpl. repeat split; try discriminate.
    + intros ->. simpl in H1. repeat (destruct H1 as [H1|H1]; [discriminate|]). contradiction.
    + intros ->. simpl in H1. repeat (destruct H1 as [H1|H1]; [discriminate|]). contradiction.
  - destruct IHLexSpec as (b & -> & F). destruct kp.
    + exists ({| tk := TPad; tv := [c] |} :: b). split; auto. constructor; auto. simpl. repeat split; discriminate.
    + exists b. auto.
Qed.

(* dropping padding only removes the Pad tokens *)
Definition not_pad (t:token) : bool := negb (tkind_eqb (tk t) TPad).
Lemma filter_var_tokens v : filter not_pad (var_tokens v) = var_tokens v.
Proof. induction v; simpl; auto. now f_equal. Qed.
Lemma spec_padding s ts : LexSpec true s ts -> LexSpec false s (filter not_pad ts).
Proof.
  induction 1; simpl.
  - constructor.
  - apply LS_const; auto.
  - apply LS_func; auto.
  - rewrite filter_app, filter_var_tokens. apply LS_vars; auto.
  - assert (not_pad {| tk := k; tv := [norm c] |} = true) as -> by (destruct k; auto; congruence).
    apply LS_op; auto.
  - unfold not_pad at 1. simpl. apply (LS_pad false); auto.
Qed.

(* ---------- totality: the fuel |s|+1 always suffices ---------- *)
Theorem lex_total : forall fuel kp s, (length s < fuel)%nat -> lex fuel kp s <> LFuel.
Proof.
  induction fuel as [|n IH]; intros kp s H; [lia|]. simpl.
  destruct s as [|c r]; [discriminate|]. simpl in H.
  destruct (is_number c) eqn:Hn.
  - destruct (span is_number (c::r)) as [v rest] eqn:E.
    destruct (span_first _ _ _ _ _ Hn E) as (a' & _ & Hl).
    specialize (IH kp rest). destruct (lex n kp rest); try discriminate. apply IH. lia.
  - destruct (is_alpha c) eqn:Ha.
    + destruct (span is_alpha (c::r)) as [v rest] eqn:E.
      destruct (span_first _ _ _ _ _ Ha E) as (a' & _ & Hl).
      specialize (IH kp rest). destruct (lex n kp rest); try discriminate. apply IH. lia.
    + destruct (op_of c) as [[k v]|]; try discriminate. simpl.
      specialize (IH kp r). destruct (lex n kp r); try discriminate. apply IH. lia.
Qed.

(* ---------- errors: ValueError exactly when some character is unsupported ---------- *)
Definition supported (c:N) : bool := is_number c || is_alpha c || (match op_of c with Some _ => true | None => false end).

Lemma span_suffix f s a b : span f s = (a,b) -> exists a', s = a' ++ b.
Proof. intros H. apply span_spec in H. destruct H as (-> & _). eauto. Qed.

Theorem lex_err_unsupported : forall fuel kp s c, lex fuel kp s = LErr c -> In c s /\ supported c = false.
Proof.
  induction fuel as [|n IH]; simpl; intros kp s c0; [discriminate|].
  destruct s as [|c r]; [discriminate|].
  destruct (is_number c) eqn:Hn.
  - destruct (span is_number (c::r)) as [v rest] eqn:E.
    destruct (lex n kp rest) eqn:L; try discriminate. intros [= <-].
    destruct (IH _ _ _ L) as (Hin & Hs). split; auto.
    destruct (span_suffix _ _ _ _ E) as (a' & ->). apply in_or_app; auto.
  - destruct (is_alpha c) eqn:Ha.
    + destruct (span is_alpha (c::r)) as [v rest] eqn:E.
      destruct (lex n kp rest) eqn:L; try discriminate. intros [= <-].
      destruct (IH _ _ _ L) as (Hin & Hs). split; auto.
      destruct (span_suffix _ _ _ _ E) as (a' & ->). apply in_or_app; auto.
    + destruct (op_of c) as [[k v]|] eqn:O.
      * destruct (lex n kp (tl (c::r))) eqn:L; try discriminate. simpl in L. intros [= <-].
        destruct (IH _ _ _ L) as (Hin & Hs). split; auto. now right.
      * intros [= <-]. split; [now left|]. unfold supported. now rewrite Hn, Ha, O.
Qed.

Theorem lex_ok_supported : forall fuel kp s ts, lex fuel kp s = LOk ts -> forallb supported s = true.
Proof.
  intros fuel kp s ts H. apply lex_sound in H. induction H; auto.
  - rewrite forallb_app, IHLexSpec, andb_true_r. apply forallb_forall. intros c Hc.
    rewrite forallb_forall in H0. unfold supported. now rewrite (H0 _ Hc).
  - rewrite forallb_app, IHLexSpec, andb_true_r. apply forallb_forall. intros c Hc.
    rewrite forallb_forall in H0. unfold supported. rewrite (H0 _ Hc). now rewrite orb_true_r.
  - rewrite forallb_app, IHLexSpec, andb_true_r. apply forallb_forall. intros c Hc.
    rewrite forallb_forall in H0. unfold supported. rewrite (H0 _ Hc). now rewrite orb_true_r.
  - simpl. rewrite IHLexSpec, andb_true_r. unfold supported, op_of. rewrite op_table_spec.
    clear -H1. simpl in H1. repeat (destruct H1 as [H1|H1]; [inversion H1; subst; reflexivity|]). contradiction.
  - simpl. rewrite IHLexSpec, andb_true_r. unfold supported, op_of. rewrite op_table_spec.
    clear -H1. simpl in H1. repeat (destruct H1 as [H1|H1]; [inversion H1; subst; reflexivity|]). contradiction.
Qed.

(* the spec determines the stream: two streams satisfying it for one input are equal *)
Lemma forallb_starts f run rest run' rest' :
  run ++ rest = run' ++ rest' -> forallb f run = true -> forallb f run' = true ->
  starts_with f rest = false -> starts_with f rest' = false -> run = run' /\ rest = rest'.
Proof.
  revert run'. induction run as [|c r IH]; intros [|c' r']; simpl; intros E F F' S S'.
  - auto.
  - subst rest. simpl in S. apply andb_true_iff in F'. destruct F' as [F' _]. congruence.
  - subst rest'. simpl in S'. apply andb_true_iff in F. destruct F as [F _]. congruence.
  - inversion E; subst. apply andb_true_iff in F, F'. destruct F as [_ F], F' as [_ F'].
    destruct (IH r' H1 F F' S S') as [-> ->]. auto.
Qed.

(* ---------- completeness: every stream the spec allows is the one the tokenizer returns ---------- *)
Lemma span_app f run rest : forallb f run = true -> starts_with f rest = false -> span f (run ++ rest) = (run, rest).
Proof.
  induction run as [|c r IH]; cbn [app forallb]; intros F S.
  - destruct rest as [|d rest']; [reflexivity|]. cbn [span]. cbn [starts_with] in S. now rewrite S.
  - apply andb_true_iff in F. destruct F as [Fc Fr]. cbn [span]. rewrite Fc, (IH Fr S). reflexivity.
Qed.
Lemma op_of_spec c k : In (c,k) spec_ops -> op_of c = Some (k, [norm c]).
Proof. intros H. simpl in H. repeat (destruct H as [H|H]; [inversion H; subst; reflexivity|]). contradiction. Qed.
Theorem lex_complete kp s ts : LexSpec kp s ts -> forall fuel, (length s < fuel)%nat -> lex fuel kp s = LOk ts.
Proof.
  induction 1 as [|run rest ts Hne Hf Hs Hr IH|run rest ts Hne Hf Hs Hn Hin Hr IH|run rest ts Hne Hf Hs Hn Hin Hr IH|c rest k ts Hn Ha Hin Hk Hr IH|c rest ts Hn Ha Hin Hr IH];
    intros [|fuel] L; try (cbn [length] in L; lia).
  - reflexivity.
  - destruct run as [|c run']; [contradiction|]. cbn [app lex]. cbn [forallb] in Hf. apply andb_true_iff in Hf. destruct Hf as [Hc Hf'].
    rewrite Hc. change (c :: run' ++ rest) with ((c :: run') ++ rest). rewrite span_app; [|cbn [forallb]; now rewrite Hc, Hf'|exact Hs].
    rewrite IH; [reflexivity|]. rewrite app_length in L. cbn [length] in L. lia.
  - destruct run as [|c run']; [contradiction|]. cbn [app lex]. cbn [forallb] in Hf. apply andb_true_iff in Hf. destruct Hf as [Hc Hf'].
    cbn [starts_with] in Hn. rewrite Hn, Hc. change (c :: run' ++ rest) with ((c :: run') ++ rest). rewrite span_app; [|cbn [forallb]; now rewrite Hc, Hf'|exact Hs].
    apply is_function_name_iff in Hin. rewrite Hin. rewrite IH; [reflexivity|]. rewrite app_length in L. cbn [length] in L. lia.
  - destruct run as [|c run']; [contradiction|]. cbn [app lex]. cbn [forallb] in Hf. apply andb_true_iff in Hf. destruct Hf as [Hc Hf'].
    cbn [starts_with] in Hn. rewrite Hn, Hc. change (c :: run' ++ rest) with ((c :: run') ++ rest). rewrite span_app; [|cbn [forallb]; now rewrite Hc, Hf'|exact Hs].
    destruct (is_function_name (c :: run')) eqn:E; [apply is_function_name_iff in E; contradiction|].
    rewrite IH; [reflexivity|]. rewrite app_length in L. cbn [length] in L. lia.
  - cbn [lex]. rewrite Hn, Ha, (op_of_spec c k Hin). cbn [tl]. rewrite IH; [|cbn [length] in L; lia].
    destruct k; try reflexivity. contradiction.
  - cbn [lex]. rewrite Hn, Ha, (op_of_spec c TPad Hin). cbn [tl]. rewrite IH; [|cbn [length] in L; lia].
    destruct kp; cbn [negb]; [|reflexivity]. f_equal. f_equal. f_equal. f_equal.
    simpl in Hin. repeat (destruct Hin as [Hin|Hin]; [inversion Hin; subst; reflexivity|]). contradiction.
Qed.
Corollary tokenize_complete ex s ts : LexSpec (negb ex) s ts -> tokenize ex s = LOk ts.
Proof. intros H. unfold tokenize. apply lex_complete; [exact H|lia]. Qed.
