(* The set of variables of an expression under rewriting (C07): same_vars is an equivalence, a congruence, and stable under replacing a
   subtree; vauto decides the structural goals. *)
From Coq Require Import List NArith ZArith QArith Bool Lia.
From Mathy Require Import Num Expr Util.
From MathyProofs Require Import ExprFacts.
Import ListNotations.

(* two constructors so that `split` / `repeat split` in the re-used proof scripts leave such a goal alone *)
Inductive same_vars (a b:expr) : Prop := SV (H : forall x, In x (vars a) <-> In x (vars b)) | SV_absurd (H : False).
Lemma sv_elim a b : same_vars a b -> forall x, In x (vars a) <-> In x (vars b). Proof. intros [H|[]]. exact H. Qed.
Ltac vauto :=
  intros; repeat match goal with H : same_vars _ _ |- _ => let H' := fresh in pose proof (sv_elim _ _ H) as H'; clear H end;
  repeat match goal with |- context[if ?c then _ else _] => destruct c end;
  apply SV; let x := fresh "x" in intros x;
  repeat match goal with H : forall _ : N, _ <-> _ |- _ => specialize (H x) end;
  cbn [vars] in *; rewrite ?in_app_iff in *; cbn [In] in *; tauto.
Lemma same_vars_refl a : same_vars a a. Proof. vauto. Qed.
Lemma same_vars_trans a b c : same_vars a b -> same_vars b c -> same_vars a c. Proof. vauto. Qed.
Lemma same_vars_sym a b : same_vars a b -> same_vars b a. Proof. vauto. Qed.
Lemma same_vars_replace : forall q root a b, subtree root q = Some a -> same_vars a b -> same_vars root (replace root q b).
Proof.
  induction q as [|d q IH]; intros root a b Hs Hv.
  - cbn in Hs. inversion Hs; subst. exact Hv.
  - destruct root as [n|v|u c|k l r]; destruct d; cbn [subtree] in Hs; try discriminate; cbn [replace].
    + specialize (IH c a b Hs Hv). vauto.
    + specialize (IH l a b Hs Hv). vauto.
    + specialize (IH r a b Hs Hv). vauto.
Qed.
(* terms *)
Lemma make_term_vars c v e t : make_term c v e = Some t -> vars t = match v with Some x => [x] | None => [] end.
Proof. unfold make_term. destruct v as [x|], e as [k|]; try discriminate; try (destruct (num_eqb c one)); intros [= <-]; reflexivity. Qed.
Lemma get_term_ex_vars b e t : get_term_ex b e = Some t -> vars e = match t_var t with Some x => [x] | None => [] end.
Proof.
  unfold get_term_ex. destruct e as [n|x|u c|k l r].
  - destruct b; [discriminate|]. intros [= <-]. reflexivity.
  - destruct b; [discriminate|]. intros [= <-]. reflexivity.
  - destruct u; try discriminate. destruct c as [|x| |k l r]; try discriminate; [intros [= <-]; reflexivity|].
    destruct k; try discriminate. destruct l; try discriminate. destruct r; try discriminate. intros [= <-]. reflexivity.
  - destruct k; try discriminate.
    + destruct l; try discriminate. destruct r as [|x| |k2 l2 r2]; try discriminate; [intros [= <-]; reflexivity|].
      destruct k2; try discriminate. destruct l2; try discriminate. destruct r2; try discriminate. intros [= <-]. reflexivity.
    + destruct l; try discriminate. destruct r; try discriminate. intros [= <-]. reflexivity.
Qed.
