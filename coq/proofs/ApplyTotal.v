(* C06: a rule that reports it applies can be applied - in the model, apply never raises when can_apply holds
   (the only non-Ok outcome is RInexact, the marker for a folded power with an irrational value). *)
From Coq Require Import List NArith ZArith QArith Qreals Reals Lra Lia Bool.
From Mathy Require Import Num Expr Util Rules Sem.
From MathyProofs Require Import ExprFacts SemFacts RulesSoundA RulesSoundB RulesSoundC.
Import ListNotations.

Definition completes (r:rres (expr * path)) : Prop := (exists z, r = ROk z) \/ r = RRaises RInexact.
Lemma completes_ok z : completes (ROk z). Proof. left. eauto. Qed.

Lemma fconst_completes k x y K root p : k <> KEq ->
  completes (dor res <- fconst (fold_bin k x y) K; ROk (replace root p res, p)).
Proof.
  intros Hk. unfold fold_bin. destruct x, y; try (right; reflexivity);
    (destruct k; try (exfalso; now apply Hk); cbn [fold_fin fconst rbind]; try apply completes_ok;
     match goal with |- context[npow ?a ?b] => destruct (npow a b); cbn [fconst rbind]; [apply completes_ok|right; reflexivity] end).
Qed.
Lemma fconst_completes_add_mul k x y K root p : (k = KAdd \/ k = KMul) ->
  completes (dor res <- fconst (fold_bin k x y) K; ROk (replace root p res, p)).
Proof. intros [-> | ->]; apply fconst_completes; discriminate. Qed.

(* ---------- constant arithmetic ---------- *)
Theorem const_total root p : isSome (const_type root p) = true -> completes (const_apply root p).
Proof.
  unfold const_apply. destruct (const_type root p) as [[[arr x] y]|] eqn:T; [|discriminate]. intros _.
  unfold node in *. destruct (subtree root p) as [n|] eqn:Hs; [|unfold const_type, node in T; rewrite Hs in T; simpl in T; discriminate].
  unfold const_type, node in T. rewrite Hs in T. cbv zeta in T. clear Hs.
  casc T C.
  { inversion T; subst arr x y. clear T. ifc C Cn. ifc C Cf. apply both_inv in C. destruct C as (B1 & B2). unfold foldable in Cf. ands.
    match goal with H : negb _ = true |- _ => apply negb_true_iff in H end. shapes. cbn [rgt].
    apply fconst_completes. intros ->. simpl in *. discriminate. }
  clear C. casc T C.
  { inversion T; subst arr x y. clear T. ifc C Cf. apply both_inv in C. destruct C as (B1 & B2). unfold foldable in Cf. ands.
    match goal with H : negb _ = true |- _ => apply negb_true_iff in H end. shapes.
    apply fconst_completes. intros ->. simpl in *. discriminate. }
  clear C. casc T C.
  { inversion T; subst arr x y. clear T. ifc C Cf. apply both_inv in C. destruct C as (B1 & B2). shapes. cbn [get rbind olft orgt lft rgt]. apply fconst_completes_add_mul. auto. }
  clear C. casc T C.
  { inversion T; subst arr x y. clear T. ifc C Cf. apply both_inv in C. destruct C as (B1 & B2). ands.
    match goal with H : (_ || _) = true |- _ => apply orb_prop in H; destruct H as [H|H] end; shapes; cbn [get rbind is_k bk_eqb olft orgt lft rgt];
      apply fconst_completes_add_mul; auto. }
  clear C. casc T C.
  { inversion T; subst arr x y. clear T. ifc C Cf. apply both_inv in C. destruct C as (B1 & B2). ands.
    match goal with H : (_ || _) = true |- _ => apply orb_prop in H; destruct H as [H|H] end; shapes; cbn [get rbind is_k bk_eqb olft orgt lft rgt];
      apply fconst_completes_add_mul; auto. }
  clear C. casc T C.
  { inversion T; subst arr x y. clear T. ifc C Cf. apply both_inv in C. destruct C as (B1 & B2). shapes. cbn [get rbind olft orgt lft rgt]. apply fconst_completes_add_mul. auto. }
  clear C. casc T C.
  { inversion T; subst arr x y. clear T. ifc C Cf. apply both_inv in C. destruct C as (B1 & B2). shapes. cbn [get rbind olft orgt lft rgt]. apply fconst_completes_add_mul. auto. }
  clear C. casc T C; [|discriminate T].
  { inversion T; subst arr x y. clear T. ifc C Cf. apply both_inv in C. destruct C as (B1 & B2). shapes. cbn [get rbind olft orgt lft rgt]. apply fconst_completes_add_mul. auto. }
Qed.

(* ---------- factor out ---------- *)
Lemma onum_eqb_self_of a b : onum_eqb a b = true -> onum_eqb a a = true.
Proof. destruct a, b; simpl; try discriminate; auto. apply num_eqb_refl_l. Qed.
Lemma make_term_some c v e : (v = None -> e = None) -> exists t, make_term c v e = Some t.
Proof.
  intros H. unfold make_term. destruct v as [x|], e as [k|].
  - destruct (num_eqb c one); eauto.
  - destruct (num_eqb c one); eauto.
  - specialize (H eq_refl). discriminate.
  - eauto.
Qed.
Lemma factor_terms_ok lt rt f : (t_var lt = None -> t_exp lt = None) -> (t_var rt = None -> t_exp rt = None) ->
  factor_add_terms_ex lt rt = Some f ->
  (f_var f = None -> f_exp f = None) /\ (l_var f = None -> l_exp f = None) /\ (r_var f = None -> r_exp f = None).
Proof.
  intros SL SR FA. unfold factor_add_terms_ex in FA. destruct (common _ _) as [|c0 cs]; [discriminate|].
  match type of FA with context[flookup ?d ?b] => destruct (flookup d b) as [fl|]; [|discriminate] end.
  match type of FA with context[flookup ?d ?b] => destruct (flookup d b) as [fr|]; [|discriminate] end.
  inversion FA; subst f; clear FA. cbn [f_var f_exp l_var l_exp r_var r_exp].
  destruct (t_var lt) as [x|] eqn:VL, (t_var rt) as [y|] eqn:VR, (t_exp lt) as [kl|] eqn:XL, (t_exp rt) as [kr|] eqn:XR;
    try (specialize (SL eq_refl); discriminate SL); try (specialize (SR eq_refl); discriminate SR);
    cbn [isSome andb orb negb ovar_eqb onum_eqb].
  - (* x^kl , y^kr *)
    destruct (N.eqb x y) eqn:Exy; cbn [andb negb]; [|repeat split; intros; discriminate].
    destruct (num_eqb kl kr) eqn:EK; cbn [andb negb orb]; [|repeat split; intros; discriminate].
    apply N.eqb_eq in Exy. subst y. rewrite ?N.eqb_refl, (num_eqb_refl_l _ _ EK), (num_eqb_sym _ _ EK). cbn. repeat split; intros; try discriminate; auto.
  - destruct (N.eqb x y); cbn; repeat split; intros; discriminate.
  - destruct (N.eqb x y); cbn; repeat split; intros; discriminate.
  - destruct (N.eqb x y) eqn:Exy; [apply N.eqb_eq in Exy; subst y; rewrite ?N.eqb_refl|]; cbn; repeat split; intros; try discriminate; auto.
  - cbn. repeat split; intros; try discriminate; auto.
  - cbn. repeat split; intros; try discriminate; auto.
  - cbn. repeat split; intros; try discriminate; auto.
  - cbn. repeat split; intros; try discriminate; auto.
  - cbn. repeat split; intros; try discriminate; auto.
Qed.
Lemma gte_shape o t : gte o = Some t -> (t_var t = None -> t_exp t = None).
Proof. destruct o as [e|]; [|discriminate]. apply get_term_ex_shape. Qed.

Theorem df_total root p cst : df_can root p cst = true -> completes (df_apply root p).
Proof.
  unfold df_can, df_apply. destruct (df_type root p) as [[[pos lt] rt]|] eqn:T; [|discriminate].
  destruct (negb cst && negb (isSome (t_var lt)) && negb (isSome (t_var rt))); [discriminate|].
  destruct (factor_add_terms_ex lt rt) as [f|] eqn:FA; [|discriminate]. intros _.
  assert ((t_var lt = None -> t_exp lt = None) /\ (t_var rt = None -> t_exp rt = None)) as (SL & SR).
  { unfold df_type in T. destruct (negb (is_k KAdd (node root p))); [discriminate|]. cbv zeta in T.
    repeat (cbn beta iota zeta in *; dcase_any); cbn beta iota zeta in *; try (solve [simpl in *; congruence]);
      repeat match goal with H : Some _ = Some _ |- _ => inversion H; clear H; subst end;
      split; eapply gte_shape; eauto. }
  destruct (factor_terms_ok lt rt f SL SR FA) as (S1 & S2 & S3).
  unfold mk_term.
  destruct (make_term_some (best f) _ _ S1) as (a & ->). destruct (make_term_some (f_left f) _ _ S2) as (b & ->). destruct (make_term_some (f_right f) _ _ S3) as (c & ->).
  cbn [rbind]. clear FA S1 S2 S3 SL SR.
  unfold df_type in T. unfold node in *. destruct (subtree root p) as [n|] eqn:Hs; [|simpl in T; discriminate].
  destruct (negb (is_k KAdd (Some n))) eqn:NA; [discriminate|]. apply negb_false_iff in NA.
  apply is_k_inv in NA. destruct NA as (l & r & [= ->]). cbv zeta in T. cbn [olft orgt lft rgt] in T. rewrite !gte_some in T. cbn [olft orgt lft rgt].
  repeat dcase T; try (solve [simpl in *; congruence]); inversion T; subst pos lt rt; clear T; shapes; try (solve [simpl in *; congruence]);
    cbn [get rbind olft orgt lft rgt]; apply completes_ok.
Qed.

(* ---------- variable multiply ---------- *)
Lemma get_term_ex_mul_var a b t : get_term_ex false (Bin KMul a b) = Some t -> t_var t <> None.
Proof.
  simpl. destruct a as [c| | |]; try discriminate. destruct b as [|x| |k l r]; try discriminate.
  - intros [= <-]. discriminate.
  - destruct k; try discriminate. destruct l; try discriminate. destruct r; try discriminate. intros [= <-]. discriminate.
Qed.
Theorem vm_total root p : vm_can root p = true -> completes (vm_apply root p).
Proof.
  unfold vm_can, vm_apply. destruct (vm_type root p) as [[[pos lt] rt]|] eqn:T; [|discriminate]. intros _.
  destruct (vm_type_mul _ _ _ _ _ T) as (l & r & Hn). unfold node in *.
  assert (subtree root p = Some (Bin KMul l r)) as Hs by exact Hn. clear Hn.
  unfold vm_type, node in T. rewrite Hs in T. cbn [is_k bk_eqb negb] in T. cbv zeta in T. cbn [olft orgt lft rgt] in T. rewrite !gte_some in T.
  rewrite Hs. cbn [olft orgt lft rgt].
  repeat (cbn beta iota zeta in *; dcase_any); cbn beta iota zeta in *;
    repeat match goal with H : Some _ = Some _ |- _ => inversion H; clear H; subst end; shapes;
    repeat match goal with H : gte (Some _) = _ |- _ => rewrite gte_some in H end;
    repeat match goal with H : negb _ = false |- _ => apply negb_false_iff in H end;
    repeat match goal with H : negb _ = true |- _ => apply negb_true_iff in H end;
    repeat match goal with H : ovar_eqb _ _ = true |- _ => apply ovar_eqb_eq in H end;
    try (solve [simpl in *; congruence]).
  all: cbn [olft orgt lft rgt] in *; repeat match goal with H : gte (Some _) = _ |- _ => rewrite gte_some in H end.
  all: match goal with |- context[t_var ?t] => destruct (t_var t) as [x|] eqn:VL end.
  all: try (cbn [get rbind olft orgt lft rgt]; apply completes_ok).
  all: exfalso.
  all: try (match goal with H : isSome None = true |- _ => discriminate H end).
  all: match goal with
       | GR : get_term_ex false (Bin KMul _ _) = Some ?rt', E : ?a = t_var ?rt' |- _ => apply get_term_ex_mul_var in GR; apply GR; congruence
       | GR : get_term_ex false (Bin KMul _ _) = Some ?rt', E : t_var ?rt' = ?a |- _ => apply get_term_ex_mul_var in GR; apply GR; congruence
       end.
Qed.

(* ---------- the simple rules ---------- *)
Theorem assoc_total root p : completes (assoc_apply root p).
Proof. unfold assoc_apply. destruct (parent_path p) as [[q d]|]; [|apply completes_ok]. destruct (node root p) as [[| | |]|]; try apply completes_ok. destruct (par root p) as [[| | |]|]; apply completes_ok. Qed.
Theorem comm_total root p pr : comm_can root p pr = true -> completes (comm_apply root p).
Proof.
  intros Hc. apply comm_can_kind in Hc. unfold comm_apply.
  destruct (node root p) as [[| | |k a b]|]; try (destruct Hc as [H|[H|H]]; discriminate). apply completes_ok.
Qed.
Theorem dm_total root p : dm_can root p = true -> completes (dm_apply root p).
Proof.
  unfold dm_can, dm_apply. destruct (node root p) as [[| | |k l r]|]; try discriminate. destruct k; try discriminate. cbn [is_k bk_eqb andb olft orgt lft rgt].
  intros H. destruct l as [| | |kl ll lr].
  1-3: destruct r as [| | |kr rl rr]; try discriminate; destruct kr; try discriminate; cbn [rbind]; apply completes_ok.
  destruct kl; try (cbn [rbind]; apply completes_ok);
    destruct r as [| | |kr rl rr]; try discriminate; destruct kr; try discriminate; cbn [rbind]; apply completes_ok.
Qed.
Theorem mi_total root p : mi_can root p = true -> completes (mi_apply root p).
Proof.
  unfold mi_can, mi_apply. destruct (node root p) as [[| | |k l r]|]; try discriminate. destruct k; try discriminate. intros _.
  destruct r as [| |u c|]; try apply completes_ok. destruct u; apply completes_ok.
Qed.
Theorem rs_total root p : isSome (rs_type root p) = true -> completes (rs_apply root p).
Proof.
  unfold rs_apply. destruct (rs_type root p) as [op|] eqn:T; [|discriminate]. intros _.
  unfold node in *. destruct (subtree root p) as [n|] eqn:Hs; [|unfold rs_type, node in T; rewrite Hs in T; simpl in T; discriminate].
  unfold rs_type, node in T. rewrite Hs in T. cbv zeta in T.
  destruct n as [| | |k l r]; try (simpl in T; discriminate).
  change (orgt (Some (Bin k l r))) with (Some r) in T.
  repeat dcase T; try (solve [simpl in *; congruence]); inversion T; subst op; clear T; shapes; try (solve [simpl in *; congruence]);
    cbn [rbind]; try apply completes_ok.
  all: destruct r; simpl in *; try discriminate; apply completes_ok.
Qed.
Theorem bm_total root p : bm_can root p = true -> completes (bm_apply root p).
Proof.
  unfold bm_can, bm_apply. destruct (bm_type root p) as [t|] eqn:T; [|discriminate]. intros _.
  unfold bm_type in T. destruct root as [| | |k rl rr]; try discriminate. destruct k; try discriminate.
  destruct (is_k KEq (par (Bin KEq rl rr) p)) eqn:PE; [discriminate|].
  destruct (is_k KMul (par (Bin KEq rl rr) p) && is_const (node (Bin KEq rl rr) p)) eqn:MC.
  - apply andb_prop in MC. destruct MC as (_ & NC). apply is_const_inv in NC. destruct NC as (c & NC). rewrite NC in *. cbn [cval] in T.
    destruct (truthy c); [|discriminate]. destruct p as [|s q']; [simpl in T; discriminate|]. cbn [root_side] in T.
    assert (t = B_MUL) as -> by (destruct s; [destruct (contains_add rl)|destruct (contains_add rr)]; try discriminate; inversion T; reflexivity).
    apply completes_ok.
  - destruct (is_k KAdd (par (Bin KEq rl rr) p)) eqn:PA; [|discriminate].
    destruct ((is_const (node (Bin KEq rl rr) p) || isSome (gte (node (Bin KEq rl rr) p))) && top_level_addend (Bin KEq rl rr) p) eqn:TA; [|discriminate].
    inversion T; subst t. clear T. apply andb_prop in TA. destruct TA as (NT & TL).
    assert (exists n, node (Bin KEq rl rr) p = Some n) as (n & N).
    { destruct (node (Bin KEq rl rr) p); [eauto|]. simpl in NT. discriminate. }
    rewrite N. unfold par, parent in PA. destruct (parent_path p) as [[q d]|] eqn:PP; [|simpl in PA; discriminate].
    apply is_k_inv in PA. destruct PA as (x & y & PA). unfold sibling. rewrite PP, PA.
    destruct q as [|s q0]; [simpl in PA; discriminate|].
    pose proof (parent_path_app _ _ _ PP) as ->. cbn [root_side app].
    assert (exists sib, match d with DL => rgt (Bin KAdd x y) | DR => lft (Bin KAdd x y) end = Some sib) as (sib & ->) by (destruct d; simpl; eauto).
    destruct s; simpl; apply completes_ok.
Qed.

Theorem apply_total r root p : can_apply root p r = true -> completes (apply root p r).
Proof.
  unfold can_apply, apply. destruct (node root p) eqn:N; [|discriminate]. destruct r; intros C.
  - apply assoc_total. - eapply comm_total; eauto. - now apply const_total. - eapply df_total; eauto. - now apply dm_total.
  - now apply mi_total. - now apply rs_total. - now apply vm_total. - now apply bm_total.
Qed.
