(* Facts about the layout model (C18): unbounded structural facts, and bounded facts by complete
   enumeration (the property's own quantifier is bounded: "up to a size bound"). *)
From Coq Require Import List ZArith QArith Qabs Bool Arith Lia.
From Mathy Require Import Bt Layout.
From MathyProofs Require Import BtFacts.
Import ListNotations.
Local Open Scope nat_scope.

(* ---------- unbounded: transform lists the nodes in in-order with their true depths ---------- *)
Lemma transform_acc t : forall s x d acc, transform t s x d acc = transform t s x d [] ++ acc.
Proof.
  induction t as [|l IHl i r IHr]; intros s x d acc; simpl; [reflexivity|].
  rewrite IHl. rewrite (IHl _ _ _ (_ :: _)). rewrite (IHr _ _ _ acc). rewrite <- app_assoc. reflexivity.
Qed.
Theorem transform_depths t : forall s x d, map (fun p => (fst (fst p), snd p)) (transform t s x d []) = ino t d.
Proof.
  induction t as [|l IHl i r IHr]; intros s x d; simpl; [reflexivity|].
  rewrite transform_acc, map_app. simpl. rewrite IHl, IHr. replace (S d) with (d + 1)%nat by lia. reflexivity.
Qed.
Theorem layout_depths t s : map (fun p => (fst (fst p), snd p)) (snd (layout t s)) = ino t 0.
Proof. unfold layout. destruct (measure _ _ t s) as [s' e]. simpl. apply transform_depths. Qed.

(* a node with two children is centred over them, whatever the state (offsets are symmetric) *)
Definition root_x (c:list (nat*Q*nat)) (t:bt nat) : Q := match t with E => 0%Q | T _ i _ => xof c i end.
Theorem transform_children_symmetric l i r s x d :
  transform (T l i r) s x d [] =
  transform l s (qred (x - offQ s i)%Q) (S d) [] ++ (i, x, d) :: transform r s (qred (x + offQ s i)%Q) (S d) [].
Proof. simpl. now rewrite transform_acc. Qed.
Lemma centre_arith x o : (qred (x - o) + qred (x + o) == x * 2)%Q.
Proof. unfold qred. rewrite !Qred_correct. ring. Qed.

(* ---------- complete enumeration of FULL binary trees by number of inner nodes ---------- *)
Fixpoint fulls (fuel k:nat) : list (bt unit) :=
  match fuel with O => [] | S f =>
  match k with O => [T E tt E] | S m =>
    flat_map (fun i => flat_map (fun l => map (fun r => T l tt r) (fulls f (m - i))) (fulls f i)) (seq 0 (S m))
  end end.
Definition fulls_upto (K:nat) : list (bt unit) := flat_map (fun k => fulls (S k) k) (seq 0 (S K)).
Fixpoint inner {A} (t:bt A) : nat := match t with E => 0 | T E _ E => 0 | T l _ r => S (inner l + inner r) end.
Definition nonempty {A} (t:bt A) : bool := match t with E => false | _ => true end.

Lemma fulls_S f m : fulls (S f) (S m) =
  flat_map (fun i => flat_map (fun l => map (fun r => T l tt r) (fulls f (m - i))) (fulls f i)) (seq 0 (S m)).
Proof. reflexivity. Qed.
Lemma fulls_complete : forall fuel k (t:bt unit), is_full t = true -> nonempty t = true -> inner t = k -> k < fuel -> In t (fulls fuel k).
Proof.
  induction fuel as [|f IH]; intros k t Hf Hn Hk Hlt; [lia|].
  destruct t as [|l [] r]; [discriminate|].
  destruct l as [|ll la lr], r as [|rl ra rr]; simpl in Hf; try discriminate.
  - simpl in Hk. subst k. left. reflexivity.
  - simpl in Hk. subst k. rewrite fulls_S. apply andb_prop in Hf. destruct Hf as (Hl & Hr).
    apply in_flat_map. exists (inner (T ll la lr)). split; [apply in_seq; simpl; lia|].
    apply in_flat_map. exists (T ll la lr). split; [apply IH; auto; simpl; lia|].
    apply in_map. apply IH; auto; simpl in *; lia.
Qed.
Lemma fulls_upto_complete K (t:bt unit) : is_full t = true -> nonempty t = true -> inner t <= K -> In t (fulls_upto K).
Proof.
  intros Hf Hn Hk. unfold fulls_upto. apply in_flat_map. exists (inner t). split; [apply in_seq; lia|]. apply fulls_complete; auto.
Qed.
Theorem by_full_enumeration (chk:bt unit -> bool) (K:nat) :
  forallb chk (fulls_upto K) = true -> forall t, is_full t = true -> nonempty t = true -> inner t <= K -> chk t = true.
Proof. intros H t Hf Hn Hk. rewrite forallb_forall in H. apply H. now apply fulls_upto_complete. Qed.
Lemma full_size {A} (t:bt A) : is_full t = true -> nonempty t = true -> bsize t = 2 * inner t + 1.
Proof.
  induction t as [|l IHl a r IHr]; [discriminate|]. intros Hf _.
  destruct l as [|ll la lr], r as [|rl ra rr]; simpl in Hf; try discriminate; [reflexivity|].
  apply andb_prop in Hf. destruct Hf as (Hl & Hr). specialize (IHl Hl eq_refl). specialize (IHr Hr eq_refl).
  change (bsize (T (T ll la lr) a (T rl ra rr))) with (S (bsize (T ll la lr) + bsize (T rl ra rr))).
  change (inner (T (T ll la lr) a (T rl ra rr))) with (S (inner (T ll la lr) + inner (T rl ra rr))). lia.
Qed.

(* ---------- the bounded theorems (vm_compute over the complete enumerations) ---------- *)
Definition full_chk (t:bt unit) : bool := tidy_once (lab t) && repeat_ok (lab t) && mirror_ok (lab t).
Theorem full_trees_tidy : forall t:bt unit, is_full t = true -> nonempty t = true -> inner t <= 6 -> full_chk t = true.
Proof. apply by_full_enumeration. vm_compute. reflexivity. Qed.

Definition repeat_chk (t:bt unit) : bool := repeat_ok (lab t).
Theorem all_shapes_repeatable : forall t:bt unit, bsize t <= 8 -> repeat_chk t = true.
Proof. apply by_enumeration. vm_compute. reflexivity. Qed.

(* measurement = bounding box of the assigned coordinates, unit multipliers 1 and a non-trivial pair *)
Local Open Scope Q_scope.
Definition bounds_chk (ux uy:Q) (t:bt unit) : bool :=
  let c := snd (layout (lab t) []) in
  let b := measure_bounds ux uy c in
  match c with
  | [] => true
  | _ =>
    forallb (fun p => let '(i,x,d) := p in Qle_bool (minX b) (x*ux) && Qle_bool (x*ux) (maxX b) &&
                                            Qle_bool (minY b) (inject_Z (Z.of_nat d) * uy) && Qle_bool (inject_Z (Z.of_nat d) * uy) (maxY b)) c &&
    existsb (fun p => let '(i,x,d) := p in Qeq_bool (minX b) (x*ux)) c && existsb (fun p => let '(i,x,d) := p in Qeq_bool (maxX b) (x*ux)) c &&
    existsb (fun p => let '(i,x,d) := p in Qeq_bool (minY b) (inject_Z (Z.of_nat d) * uy)) c &&
    existsb (fun p => let '(i,x,d) := p in Qeq_bool (maxY b) (inject_Z (Z.of_nat d) * uy)) c
  end.
Local Close Scope Q_scope.
Theorem bounds_are_bounding_box : forall t:bt unit, bsize t <= 8 -> (bounds_chk 1%Q 1%Q t && bounds_chk (3#2)%Q (1#2)%Q t) = true.
Proof. apply (by_enumeration (fun t => bounds_chk 1%Q 1%Q t && bounds_chk (3#2)%Q (1#2)%Q t)). vm_compute. reflexivity. Qed.

(* known finding L3: a FULL binary tree with 15 nodes (7 inner nodes) whose level 3 is not separated by one unit
   (the "deeper extreme" tests read a level that is never recorded, so the wrong extreme is threaded) *)
Definition l3_witness : bt nat :=
  T (T (T E 2 E) 1 (T (T E 4 E) 3 (T E 5 E))) 0 (T (T E 7 E) 6 (T (T (T E 10 E) 9 (T E 11 E)) 8 (T (T E 13 E) 12 (T E 14 E)))).
Theorem full_15_nodes_refuted : is_full l3_witness = true /\ bsize l3_witness = 15 /\ level_ok (snd (layout l3_witness [])) [] = false.
Proof. vm_compute. auto. Qed.

(* known finding L2: one-child nodes *)
Definition l2_witness : bt nat := T (T E 1 (T E 2 (T E 3 E))) 0 (T (T E 5 E) 4 E).
Theorem one_child_nodes_refuted : sides_ok l2_witness (snd (layout l2_witness [])) = false.
Proof. vm_compute. reflexivity. Qed.
