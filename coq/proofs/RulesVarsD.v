(* Whole-tree variable preservation: every applicable rewrite - balanced move included - leaves the set of variables
   of the expression unchanged (C07). Parallel to RulesSoundD, with same_vars in place of refines. *)
From Coq Require Import List NArith ZArith Lia Bool.
From Mathy Require Import Num Expr Util Rules Sem Walk.
From MathyProofs Require Import ExprFacts SemFacts RulesSoundD.
From MathyProofs Require Import VarsFacts RulesVarsA RulesVarsB RulesVarsC.
Import ListNotations.

(* every rule except balanced move replaces one subtree by one with the same variables *)
Theorem step_localv r root p z : not_balanced r = true -> can_apply root p r = true -> apply root p r = ROk z -> LocalV root (fst z).
Proof.
  intros NB. unfold can_apply, apply. destruct (node root p) eqn:N; [|discriminate].
  destruct r; try discriminate NB; intros C A.
  - destruct (assoc_vars _ _ _ C A) as (q & d & _ & L & _). now exists q.
  - exists p. eapply comm_vars; eauto.
  - exists p. eapply const_vars; eauto.
  - exists p. eapply df_vars; eauto.
  - exists p. eapply dm_vars; eauto.
  - exists p. eapply mi_vars; eauto.
  - exists p. eapply rs_vars; eauto.
  - exists p. eapply vm_vars; eauto.
Qed.
Theorem step_same_vars r root p z : not_balanced r = true -> can_apply root p r = true -> apply root p r = ROk z -> same_vars root (fst z).
Proof. intros. apply localv_same_vars. eapply step_localv; eauto. Qed.

(* removing one child of a node somewhere in a tree: the variables are those of what is left plus those of the removed child *)
Lemma replace_vars_split : forall q e pe sib n, subtree e q = Some pe ->
  (forall x, In x (vars pe) <-> In x (vars sib) \/ In x (vars n)) ->
  forall x, In x (vars e) <-> In x (vars (replace e q sib)) \/ In x (vars n).
Proof.
  induction q as [|d q IH]; intros e pe sib n Hs Hv x.
  - cbn in Hs. inversion Hs; subst. cbn [replace]. apply Hv.
  - destruct e as [c|v|u c|k l r]; destruct d; cbn [subtree] in Hs; try discriminate; cbn [replace vars]; rewrite ?in_app_iff.
    + apply (IH c pe sib n Hs Hv).
    + pose proof (IH l pe sib n Hs Hv x). tauto.
    + pose proof (IH r pe sib n Hs Hv x). tauto.
Qed.

Theorem bm_vars root p z : bm_can root p = true -> bm_apply root p = ROk z -> same_vars root (fst z).
Proof.
  unfold bm_can, bm_apply. destruct (bm_type root p) as [t|] eqn:T; [|discriminate]. intros _.
  unfold bm_type in T. destruct root as [| | |k rl rr]; try discriminate. destruct k; try discriminate.
  destruct (is_k KEq (par (Bin KEq rl rr) p)) eqn:PE; [discriminate|].
  destruct (is_k KMul (par (Bin KEq rl rr) p) && is_const (node (Bin KEq rl rr) p)) eqn:MC.
  - apply andb_prop in MC. destruct MC as (_ & NC). apply is_const_inv in NC. destruct NC as (c & NC). rewrite NC in *. cbn [cval] in T.
    destruct (truthy c) eqn:TR; [|discriminate].
    destruct p as [|s q']; [simpl in T; discriminate|]. cbn [root_side] in T.
    assert (t = B_MUL) as -> by (destruct s; [destruct (contains_add rl)|destruct (contains_add rr)]; try discriminate; inversion T; reflexivity).
    intros [= <-]. cbn [fst]. apply SV. intros x. cbn [vars]. rewrite !in_app_iff. cbn [In]. tauto.
  - destruct (is_k KAdd (par (Bin KEq rl rr) p)) eqn:PA; [|discriminate].
    destruct ((is_const (node (Bin KEq rl rr) p) || isSome (gte (node (Bin KEq rl rr) p))) && top_level_addend (Bin KEq rl rr) p) eqn:TA; [|discriminate].
    inversion T; subst t. clear T. apply andb_prop in TA. destruct TA as (_ & TL).
    destruct (node (Bin KEq rl rr) p) as [n|] eqn:N; [|discriminate].
    destruct (parent_path p) as [[q d]|] eqn:PP; [|discriminate].
    destruct (sibling (Bin KEq rl rr) p) as [sib|] eqn:SB; [|discriminate].
    pose proof (parent_path_app _ _ _ PP) as ->.
    unfold sibling in SB. rewrite PP in SB. unfold node in N.
    destruct q as [|s q0].
    { unfold par, parent in PA. simpl in PA. discriminate. }
    assert (root_side ((s :: q0) ++ [d]) = Some s) as RS by reflexivity. rewrite RS.
    assert (forall e, subtree e (q0 ++ [d]) = Some n ->
              match subtree e q0 with Some pe => match d with DL => rgt pe | DR => lft pe end | None => None end = Some sib ->
              forall x, In x (vars e) <-> In x (vars (replace e q0 sib)) \/ In x (vars n)) as KEY.
    { intros e Hn Hsib. rewrite subtree_app in Hn. destruct (subtree e q0) as [pe|] eqn:Spe; [|discriminate].
      apply (replace_vars_split q0 e pe sib n Spe). intros x.
      destruct pe as [c0|v0|u0 c0|k0 a0 b0]; destruct d; cbn [subtree lft rgt] in Hn, Hsib; try discriminate;
        inversion Hn; inversion Hsib; subst; cbn [vars]; rewrite ?in_app_iff; tauto. }
    destruct s; simpl in SB, N |- *.
    + intros [= <-]. cbn [fst]. apply SV. intros x. cbn [vars]. rewrite !in_app_iff. pose proof (KEY rl N SB x). tauto.
    + intros [= <-]. cbn [fst]. apply SV. intros x. cbn [vars]. rewrite !in_app_iff. pose proof (KEY rr N SB x). tauto.
Qed.

Theorem bm_shape root p z : bm_can root p = true -> bm_apply root p = ROk z -> exists l r l' r', root = Bin KEq l r /\ fst z = Bin KEq l' r'.
Proof.
  unfold bm_can, bm_apply. destruct (bm_type root p) as [t|] eqn:T; [|discriminate]. intros _.
  unfold bm_type in T. destruct root as [| | |k rl rr]; try discriminate. destruct k; try discriminate.
  destruct (is_k KEq (par (Bin KEq rl rr) p)) eqn:PE; [discriminate|].
  destruct (is_k KMul (par (Bin KEq rl rr) p) && is_const (node (Bin KEq rl rr) p)) eqn:MC.
  - apply andb_prop in MC. destruct MC as (_ & NC). apply is_const_inv in NC. destruct NC as (c & NC). rewrite NC in *. cbn [cval] in T.
    destruct (truthy c) eqn:TR; [|discriminate].
    destruct p as [|s q']; [simpl in T; discriminate|]. cbn [root_side] in T.
    assert (t = B_MUL) as -> by (destruct s; [destruct (contains_add rl)|destruct (contains_add rr)]; try discriminate; inversion T; reflexivity).
    intros [= <-]. cbn [fst]. repeat eexists.
  - destruct (is_k KAdd (par (Bin KEq rl rr) p)) eqn:PA; [|discriminate].
    destruct ((is_const (node (Bin KEq rl rr) p) || isSome (gte (node (Bin KEq rl rr) p))) && top_level_addend (Bin KEq rl rr) p) eqn:TA; [|discriminate].
    inversion T; subst t. clear T. apply andb_prop in TA. destruct TA as (_ & TL).
    destruct (node (Bin KEq rl rr) p) as [n|] eqn:N; [|discriminate].
    destruct (parent_path p) as [[q d]|] eqn:PP; [|discriminate].
    destruct (sibling (Bin KEq rl rr) p) as [sib|] eqn:SB; [|discriminate].
    pose proof (parent_path_app _ _ _ PP) as ->.
    unfold sibling in SB. rewrite PP in SB. unfold node in N.
    destruct q as [|s q0].
    { unfold par, parent in PA. simpl in PA. discriminate. }
    assert (root_side ((s :: q0) ++ [d]) = Some s) as RS by reflexivity. rewrite RS.
    destruct s; simpl in SB, N |- *.
    + intros [= <-]. cbn [fst]. repeat eexists.
    + intros [= <-]. cbn [fst]. repeat eexists.
Qed.


(* every applicable rewrite, of every rule, keeps the variable set *)
Theorem any_step_same_vars r root p z : can_apply root p r = true -> apply root p r = ROk z -> same_vars root (fst z).
Proof.
  intros C A. destruct (not_balanced r) eqn:NB; [eapply step_same_vars; eauto|].
  destruct r; try discriminate NB. unfold can_apply, apply in *. destruct (node root p); [|discriminate]. eapply bm_vars; eauto.
Qed.

(* sequences of rewrites *)
Lemma run_same_vars : forall steps root final, run root steps = Some final -> forall x, In x (vars root) <-> In x (vars final).
Proof.
  induction steps as [|[r p] rest IH]; intros root final R x; cbn [run] in R.
  - inversion R. tauto.
  - destruct (can_apply root p r) eqn:C; [|discriminate]. destruct (apply root p r) as [[root' p']|] eqn:A; [|discriminate].
    pose proof (sv_elim _ _ (any_step_same_vars r root p (root', p') C A) x) as H. cbn [fst] in H. rewrite H. now apply IH.
Qed.
