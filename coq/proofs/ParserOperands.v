(* ported from design/prototypes.md (A.15-1-Operands.v); statements are about the normal form NF, transferred to the model by nf_eq *)
From Coq Require Import List NArith ZArith QArith Bool Lia.
From Mathy Require Import Tok Params TokSet Lexer Num Expr Parser Grammar.
From MathyProofs Require Import ParserNF.
Import ListNotations.
Import NF.
From MathyProofs Require Import ParserSound.


(* operands of a tree, left to right; a constant is compared up to the sign absorbed from a preceding '-' *)
Inductive opd := OVar (v:N) | OConst (v:list N).   (* OConst carries the token text *)
Fixpoint leaves (e:expr) : list (option N) :=       (* Some v = variable v ; None = a constant *)
  match e with Const _ => [None] | Var v => [Some v] | Un _ c => leaves c | Bin _ l r => leaves l ++ leaves r end.
Definition tok_opd (t:token) : list (option N) :=
  match tk t with TConst => [None] | TVar => [Some (match tv t with c::_ => c | [] => 0%N end)] | _ => [] end.
Definition opds (ts:list token) : list (option N) := flat_map tok_opd ts.

Lemma opds_app a b : opds (a ++ b) = opds a ++ opds b. Proof. unfold opds. apply flat_map_app. Qed.
Lemma opds_cons_other t r : tk t <> TConst -> tk t <> TVar -> opds (t::r) = opds r.
Proof. intros H1 H2. unfold opds. simpl. unfold tok_opd. destruct (tk t); try reflexivity; contradiction. Qed.

Lemma leaves_fold fs f0 : leaves (fold_left (Bin KMul) fs f0) = leaves f0 ++ flat_map leaves fs.
Proof. revert f0; induction fs as [|f fs IH]; intros f0; simpl; [now rewrite app_nil_r|]. rewrite IH. simpl. now rewrite app_assoc. Qed.
Lemma leaves_prod fs e : prod fs = Some e -> leaves e = flat_map leaves fs.
Proof. destruct fs as [|f0 r]; [discriminate|]. intros [= <-]. simpl. apply leaves_fold. Qed.
Lemma flat_with_pow fs r : fs <> [] -> flat_map leaves (with_pow fs r) = flat_map leaves fs ++ leaves r.
Proof.
  intros H. unfold with_pow. destruct (rev fs) as [|l ri] eqn:E.
  - apply (f_equal (@rev _)) in E. rewrite rev_involutive in E. simpl in E. contradiction.
  - assert (fs = rev ri ++ [l]) as -> by (apply (f_equal (@rev _)) in E; rewrite rev_involutive in E; exact E).
    rewrite !flat_map_app. simpl. rewrite !app_nil_r. now rewrite app_assoc.
Qed.

(* every derivation consumes a prefix, and the tree's leaves are exactly the operand tokens of that prefix, in order *)
Definition Consumes (s s':st) (ls:list (option N)) : Prop := exists pre, s = pre ++ s' /\ opds pre = ls.
Lemma consumes_refl s : Consumes s s []. Proof. exists []. auto. Qed.
Lemma consumes_trans a b c l1 l2 : Consumes a b l1 -> Consumes b c l2 -> Consumes a c (l1 ++ l2).
Proof. intros (p1 & -> & <-) (p2 & -> & <-). exists (p1 ++ p2). split; [now rewrite app_assoc|apply opds_app]. Qed.
Lemma consumes_tok t s : Consumes (t::s) s (tok_opd t).
Proof. exists [t]. split; auto. unfold opds. simpl. now rewrite app_nil_r. Qed.
Lemma consumes_skip t s : tk t <> TConst -> tk t <> TVar -> Consumes (t::s) s [].
Proof. intros H1 H2. exists [t]. split; auto. rewrite (opds_cons_other t []); auto. Qed.

Theorem operands_in_order :
  (forall s e s', G_add s e s' -> Consumes s s' (leaves e)) /\
  (forall e0 s e s', G_addl e0 s e s' -> exists l, Consumes s s' l /\ leaves e = leaves e0 ++ l) /\
  (forall s e s', G_mult s e s' -> Consumes s s' (leaves e)) /\
  (forall e0 s e s', G_multl e0 s e s' -> exists l, Consumes s s' l /\ leaves e = leaves e0 ++ l) /\
  (forall s e s', G_exp s e s' -> Consumes s s' (leaves e)) /\
  (forall s e s', G_unary s e s' -> Consumes s s' (leaves e)) /\
  (forall b s e s', G_prefix b s e s' -> Consumes s s' (leaves e)) /\
  (forall s e s', G_factors s e s' -> Consumes s s' (leaves e)) /\
  (forall s fs s', G_atoms s fs s' -> fs <> [] /\ Consumes s s' (flat_map leaves fs)) /\
  (forall s a s', G_atom s a s' -> Consumes s s' (leaves a)).
Proof.
  apply G_mutind; intros.
  - destruct H0 as (l & C2 & L). rewrite L. eapply consumes_trans; eauto.
  - exists []. split; [apply consumes_refl|now rewrite app_nil_r].
  - destruct H0 as (l & C2 & L). exists (leaves r ++ l). split.
    + replace (leaves r ++ l) with ([] ++ leaves r ++ l) by reflexivity.
      eapply consumes_trans; [apply consumes_skip; rewrite e0; discriminate|]. eapply consumes_trans; eauto.
    + rewrite L. simpl. now rewrite app_assoc.
  - destruct H0 as (l & C2 & L). exists (leaves r ++ l). split.
    + replace (leaves r ++ l) with ([] ++ leaves r ++ l) by reflexivity.
      eapply consumes_trans; [apply consumes_skip; rewrite e0; discriminate|]. eapply consumes_trans; eauto.
    + rewrite L. simpl. now rewrite app_assoc.
  - destruct H0 as (l & C2 & L). rewrite L. eapply consumes_trans; eauto.
  - exists []. split; [apply consumes_refl|now rewrite app_nil_r].
  - destruct H0 as (l & C2 & L). exists (leaves r ++ l). split.
    + replace (leaves r ++ l) with ([] ++ leaves r ++ l) by reflexivity.
      eapply consumes_trans; [apply consumes_skip; rewrite e0; discriminate|]. eapply consumes_trans; eauto.
    + rewrite L. simpl. now rewrite app_assoc.
  - destruct H0 as (l & C2 & L). exists (leaves r ++ l). split.
    + replace (leaves r ++ l) with ([] ++ leaves r ++ l) by reflexivity.
      eapply consumes_trans; [apply consumes_skip; rewrite e0; discriminate|]. eapply consumes_trans; eauto.
    + rewrite L. simpl. now rewrite app_assoc.
  - assumption.
  - simpl. eapply consumes_trans; [exact H|]. replace (leaves r) with ([] ++ leaves r) by reflexivity.
    eapply consumes_trans; [apply consumes_skip; rewrite e0; discriminate|]. assumption.
  - assumption.
  - replace (leaves e) with ([] ++ leaves e) by reflexivity. eapply consumes_trans; [apply consumes_skip; rewrite e0; discriminate|]. assumption.
  - replace (leaves (Const (if neg then nneg v else v))) with (tok_opd t) by (unfold tok_opd; rewrite e; reflexivity). apply consumes_tok.
  - simpl. replace [None] with (tok_opd t ++ []) by (unfold tok_opd; rewrite e; reflexivity).
    eapply consumes_trans; [apply consumes_tok|]. apply consumes_skip; rewrite e1; discriminate.
  - simpl. change (None :: leaves f) with ([None] ++ leaves f). replace [None] with (tok_opd t) by (unfold tok_opd; rewrite e; reflexivity).
    eapply consumes_trans; [apply consumes_tok|]. assumption.
  - destruct neg; simpl; assumption.
  - destruct H as (_ & C). rewrite (leaves_prod _ _ e0). assumption.
  - destruct H as (Hne & C). rewrite (leaves_prod _ _ e1). rewrite flat_with_pow by assumption.
    eapply consumes_trans; [exact C|]. replace (leaves r) with ([] ++ leaves r) by reflexivity.
    eapply consumes_trans; [apply consumes_skip; rewrite e0; discriminate|]. assumption.
  - split; [discriminate|]. simpl. now rewrite app_nil_r.
  - destruct H0 as (_ & C). split; [discriminate|]. simpl. eapply consumes_trans; eauto.
  - replace (leaves (Var (varname (t :: s1)))) with (tok_opd t) by (unfold tok_opd, varname, tval; rewrite e; reflexivity). apply consumes_tok.
  - simpl. replace (leaves e) with ([] ++ [] ++ leaves e ++ []) by (simpl; now rewrite app_nil_r).
    eapply consumes_trans; [apply consumes_skip; rewrite e0; discriminate|].
    eapply consumes_trans; [apply consumes_skip; rewrite e1; discriminate|].
    eapply consumes_trans; [exact H|]. apply consumes_skip; rewrite e2; discriminate.
  - replace (leaves e) with ([] ++ leaves e ++ []) by (simpl; now rewrite app_nil_r).
    eapply consumes_trans; [apply consumes_skip; rewrite e0; discriminate|].
    eapply consumes_trans; [exact H|]. apply consumes_skip; rewrite e1; discriminate.
Qed.
Print Assumptions operands_in_order.
