(* History independence of the parser object (C12, and the "no sticky state" clause of C10). *)
From Coq Require Import List NArith Bool Arith Lia.
From Mathy Require Import Tok Lexer Num Expr Parser ParserObj.
From MathyProofs Require Import LexerFacts.
Import ListNotations.
Local Open Scope nat_scope.

Definition Inv (st:pstate) : Prop :=
  (forall s r, lookup (tcache st) s = Some r ->
     r < length (heap st) /\ tokenize true s = LOk (hget (heap st) r) /\ ~ In r (handed st)) /\
  (forall s e, lookup (pcache st) s = Some e -> parse s = Ok e) /\
  (forall r, In r (handed st) -> r < length (heap st)).

Lemma inv_init : Inv init.
Proof. repeat split; simpl; intros; try discriminate; contradiction. Qed.

Lemma hget_app h x r : r < length h -> hget (h ++ x) r = hget h r.
Proof. intros H. unfold hget. now rewrite app_nth1. Qed.
Lemma hget_app_len h x y : hget (h ++ [x; y]) (length h) = x.
Proof. unfold hget. rewrite app_nth2 by lia. now rewrite Nat.sub_diag. Qed.
Lemma hget_app_len1 h x : hget (h ++ [x]) (length h) = x.
Proof. unfold hget. rewrite app_nth2 by lia. now rewrite Nat.sub_diag. Qed.
Lemma hget_app_slen h x y : hget (h ++ [x; y]) (S (length h)) = y.
Proof. unfold hget. rewrite app_nth2 by lia. replace (S (length h) - length h) with 1 by lia. reflexivity. Qed.
Lemma hset_length h r l : length (hset h r l) = length h.
Proof. revert r; induction h as [|x h IH]; intros [|r]; simpl; auto. Qed.
Lemma hget_hset_ne h r r' l : r <> r' -> hget (hset h r l) r' = hget h r'.
Proof.
  unfold hget. revert r r'; induction h as [|x h IH]; intros [|r] [|r'] H; simpl; auto; try congruence.
Qed.
Lemma existsb_eqb_in r l : existsb (Nat.eqb r) l = true <-> In r l.
Proof. rewrite existsb_exists. split; [intros (x & Hx & E); apply Nat.eqb_eq in E; now subst | intros H; exists r; split; auto; apply Nat.eqb_refl]. Qed.

Lemma lookup_cons_eq {A} (c:list (list N * A)) s v : lookup ((s, v) :: c) s = Some v.
Proof. simpl. assert (list_eqb s s = true) as -> by now apply list_eqb_eq. reflexivity. Qed.
Lemma lookup_cons {A} (c:list (list N * A)) k v s x : lookup ((k, v) :: c) s = Some x -> (k = s /\ x = v) \/ lookup c s = Some x.
Proof. simpl. destruct (list_eqb k s) eqn:E; [apply list_eqb_eq in E; intros [= <-]; auto | auto]. Qed.

(* what tokenize returns, and that it preserves the invariant *)
Lemma do_tokenize_spec st s st1 o : Inv st -> do_tokenize st s = (st1, o) ->
  Inv st1 /\ handed st1 = handed st /\ pcache st1 = pcache st /\ length (heap st) <= length (heap st1) /\
  match o with
  | Some r => length (heap st) <= r < length (heap st1) /\ tokenize true s = LOk (hget (heap st1) r) /\
              (forall s' r', lookup (tcache st1) s' = Some r' -> r' <> r)
  | None => st1 = st /\ exists c, tokenize true s = LErr c
  end.
Proof.
  intros (I1 & I2 & I3) H. unfold do_tokenize in H.
  destruct (lookup (tcache st) s) as [r|] eqn:L.
  - inversion H; subst; clear H. destruct (I1 _ _ L) as (Hr & Ht & Hn). simpl.
    split; [|split; [reflexivity|split; [reflexivity|split; [rewrite app_length; simpl; lia|]]]].
    + repeat split; simpl.
      * rewrite app_length. simpl. destruct (I1 _ _ H) as (A & _). lia.
      * destruct (I1 _ _ H) as (A & B & _). now rewrite hget_app.
      * destruct (I1 _ _ H) as (_ & _ & C). exact C.
      * exact I2.
      * intros r0 Hr0. rewrite app_length. simpl. specialize (I3 _ Hr0). lia.
    + rewrite app_length. simpl. split; [lia|]. split.
      * rewrite hget_app_len1. exact Ht.
      * intros s' r' L'. destruct (I1 _ _ L') as (A & _). lia.
  - destruct (tokenize true s) as [ts|c|] eqn:T.
    + inversion H; subst; clear H. simpl.
      split; [|split; [reflexivity|split; [reflexivity|split; [rewrite app_length; simpl; lia|]]]].
      * repeat split; simpl.
        -- apply lookup_cons in H. destruct H as [(<- & ->)|H]; rewrite app_length; simpl; [lia|]. destruct (I1 _ _ H) as (A & _). lia.
        -- apply lookup_cons in H. destruct H as [(<- & ->)|H]; [now rewrite hget_app_len|].
           destruct (I1 _ _ H) as (A & B & _). now rewrite hget_app.
        -- apply lookup_cons in H. destruct H as [(<- & ->)|H].
           ++ intros Q. specialize (I3 _ Q). lia.
           ++ destruct (I1 _ _ H) as (_ & _ & C). exact C.
        -- exact I2.
        -- intros r0 Hr0. rewrite app_length. simpl. specialize (I3 _ Hr0). lia.
      * rewrite app_length. simpl. split; [lia|]. split.
        -- now rewrite hget_app_slen.
        -- intros s' r' L'. apply lookup_cons in L'. destruct L' as [(_ & ->)|L']; [lia|]. destruct (I1 _ _ L') as (A & _). lia.
    + inversion H; subst. split; [exact (conj I1 (conj I2 I3))|]. split; auto. split; auto. split; auto. split; eauto.
    + exfalso. revert T. apply lex_total. auto.
Qed.

Lemma parse_of_tokens s ts : tokenize true s = LOk ts -> parse s = parse_tokens ts.
Proof. intros H. unfold parse. now rewrite H. Qed.

(* one step: the invariant is kept and the output does not depend on the state *)
Lemma pstep_inv st o : Inv st -> Inv (fst (pstep st o)).
Proof.
  intros HI. pose proof HI as (I1 & I2 & I3). destruct o as [s|s| |r|r i t|r]; simpl.
  - (* parse *)
    destruct (lookup (pcache st) s) as [e|] eqn:LP; [exact HI|].
    destruct (do_tokenize st s) as [st1 [r|]] eqn:DT; destruct (do_tokenize_spec _ _ _ _ HI DT) as ((J1 & J2 & J3) & Hh & Hp & Hl & Ho).
    + destruct Ho as (Hr & Ht & Hfresh). simpl. repeat split; simpl.
      * rewrite hset_length. destruct (J1 _ _ H) as (A & _). exact A.
      * destruct (J1 _ _ H) as (A & B & _). rewrite hget_hset_ne; [exact B|]. intros Q. apply (Hfresh _ _ H). now subst.
      * destruct (J1 _ _ H) as (_ & _ & C). exact C.
      * intros s0 e0 L0. destruct (parse_tokens (hget (heap st1) r)) as [e|x] eqn:PT.
        -- apply lookup_cons in L0. destruct L0 as [(<- & ->)|L0]; [rewrite (parse_of_tokens _ _ Ht); exact PT|]. apply J2; exact L0.
        -- apply J2; exact L0.
      * intros r0 Hr0. rewrite hset_length. apply J3; exact Hr0.
    + destruct Ho as (-> & _). exact HI.
  - (* tokenize *)
    destruct (do_tokenize st s) as [st1 [r|]] eqn:DT; destruct (do_tokenize_spec _ _ _ _ HI DT) as ((J1 & J2 & J3) & Hh & Hp & Hl & Ho); simpl.
    + destruct Ho as (Hr & Ht & Hfresh). repeat split; simpl.
      * destruct (J1 _ _ H) as (A & _). exact A.
      * destruct (J1 _ _ H) as (_ & B & _). exact B.
      * destruct (J1 _ _ H) as (_ & _ & C). intros [Q|Q]; [apply (Hfresh _ _ H); now subst|contradiction].
      * exact J2.
      * intros r0 [<-|Hr0]; [lia|apply J3; exact Hr0].
    + destruct Ho as (-> & _). exact HI.
  - (* clear *) repeat split; simpl; intros; try discriminate. apply I3; assumption.
  - (* client pop *)
    destruct (existsb (Nat.eqb r) (handed st)) eqn:E; [|exact HI]. apply existsb_eqb_in in E. simpl. repeat split; simpl.
    + rewrite hset_length. destruct (I1 _ _ H) as (A & _). exact A.
    + destruct (I1 _ _ H) as (_ & B & C). rewrite hget_hset_ne; [exact B|]. intros <-. contradiction.
    + destruct (I1 _ _ H) as (_ & _ & C). exact C.
    + exact I2.
    + intros r0 Hr0. rewrite hset_length. apply I3; exact Hr0.
  - (* client set *)
    destruct (existsb (Nat.eqb r) (handed st)) eqn:E; [|exact HI]. apply existsb_eqb_in in E. simpl. repeat split; simpl.
    + rewrite hset_length. destruct (I1 _ _ H) as (A & _). exact A.
    + destruct (I1 _ _ H) as (_ & B & C). rewrite hget_hset_ne; [exact B|]. intros <-. contradiction.
    + destruct (I1 _ _ H) as (_ & _ & C). exact C.
    + exact I2.
    + intros r0 Hr0. rewrite hset_length. apply I3; exact Hr0.
  - (* client clear *)
    destruct (existsb (Nat.eqb r) (handed st)) eqn:E; [|exact HI]. apply existsb_eqb_in in E. simpl. repeat split; simpl.
    + rewrite hset_length. destruct (I1 _ _ H) as (A & _). exact A.
    + destruct (I1 _ _ H) as (_ & B & C). rewrite hget_hset_ne; [exact B|]. intros <-. contradiction.
    + destruct (I1 _ _ H) as (_ & _ & C). exact C.
    + exact I2.
    + intros r0 Hr0. rewrite hset_length. apply I3; exact Hr0.
Qed.

Lemma run_inv ops : forall st, Inv st -> Inv (run ops st).
Proof. induction ops as [|o ops IH]; intros st H; [exact H|]. simpl. apply IH. now apply pstep_inv. Qed.

(* outputs under the invariant: exactly what the pure functions give *)
Definition tokens_of (o:out) : option (list token) := match o with RTokens (Some (_, ts)) => Some ts | _ => None end.

Lemma parse_out st s : Inv st -> snd (pstep st (OParse s)) = RTree (parse s).
Proof.
  intros HI. pose proof HI as (I1 & I2 & I3). simpl.
  destruct (lookup (pcache st) s) as [e|] eqn:LP; [simpl; now rewrite (I2 _ _ LP)|].
  destruct (do_tokenize st s) as [st1 [r|]] eqn:DT; destruct (do_tokenize_spec _ _ _ _ HI DT) as (_ & _ & _ & _ & Ho); simpl.
  - destruct Ho as (_ & Ht & _). now rewrite (parse_of_tokens _ _ Ht).
  - destruct Ho as (_ & c & Hc). unfold parse. now rewrite Hc.
Qed.

Lemma tokenize_out st s : Inv st ->
  tokens_of (snd (pstep st (OTokenize s))) = match tokenize true s with LOk ts => Some ts | _ => None end.
Proof.
  intros HI. simpl.
  destruct (do_tokenize st s) as [st1 [r|]] eqn:DT; destruct (do_tokenize_spec _ _ _ _ HI DT) as (_ & _ & _ & _ & Ho); simpl.
  - destruct Ho as (_ & Ht & _). now rewrite Ht.
  - destruct Ho as (_ & c & Hc). now rewrite Hc.
Qed.

Theorem history_independent_parse ops s : snd (pstep (run ops init) (OParse s)) = RTree (parse s).
Proof. apply parse_out. apply run_inv. apply inv_init. Qed.
Theorem history_independent_tokenize ops s :
  tokens_of (snd (pstep (run ops init) (OTokenize s))) = match tokenize true s with LOk ts => Some ts | _ => None end.
Proof. apply tokenize_out. apply run_inv. apply inv_init. Qed.
(* a list handed out is a fresh object: distinct from every list handed out before and from the cache *)
Theorem handed_list_fresh ops s r ts : snd (pstep (run ops init) (OTokenize s)) = RTokens (Some (r, ts)) ->
  length (heap (run ops init)) <= r.
Proof.
  set (st := run ops init). assert (Inv st) as HI by (apply run_inv, inv_init). simpl.
  destruct (do_tokenize st s) as [st1 [r0|]] eqn:DT; destruct (do_tokenize_spec _ _ _ _ HI DT) as (_ & _ & _ & _ & Ho); simpl; [|discriminate].
  intros [= <- _]. destruct Ho as (Hr & _). lia.
Qed.
