(* Lemmas about the real denotation: numbers, congruence of refines, the power law, term utilities
   (get_term_ex / make_term / factor table) against the denotation. Ported from design/prototypes.md A.3, A.6, A.8, A.12. *)
From Coq Require Import List ZArith QArith Qround Qreals Reals Lra Lia Bool.
From Mathy Require Import Num Expr Util Sem.
Import ListNotations.
Open Scope R_scope.

Lemma numR_m1 : numR (NInt (-1)) = Some (-1).
Proof. unfold numR; simpl. f_equal. unfold Q2R; simpl. lra. Qed.

Lemma numR_one : numR one = Some 1.
Proof. unfold numR; simpl. f_equal. unfold Q2R; simpl. lra. Qed.
Lemma num_eqb_R a b : num_eqb a b = true -> numR a = numR b /\ numR a <> None.
Proof.
  unfold num_eqb, numR. destruct (qv a), (qv b); try discriminate. intros H. apply Qeq_bool_eq in H.
  simpl. split; [f_equal; now apply Qeq_eqR | discriminate].
Qed.



Global Opaque numR rpow.

(* ---------- refines: preorder, congruence ---------- *)
Lemma refines_refl e : refines e e. Proof. intros rho v H; exact H. Qed.
Lemma refines_trans a b c : refines a b -> refines b c -> refines a c. Proof. intros H1 H2 rho v H; auto. Qed.
Lemma refines_agree e e' : refines e e' -> agree e e'.
Proof. intros H rho v v' H1 H2. apply H in H1. congruence. Qed.

Lemma refines_replace root p a b : subtree root p = Some a -> refines a b -> refines root (replace root p b).
Proof.
  revert root; induction p as [|d q IH]; intros root Hs Hab.
  - assert (root = a) as -> by (destruct root; cbn in Hs; congruence). destruct a; exact Hab.
  - destruct root as [n|x|u c|k l r]; simpl in *; try discriminate.
    + destruct d; try discriminate. specialize (IH c Hs Hab). intros rho v. simpl.
      destruct u; destruct (den rho c) eqn:E; simpl; try discriminate; intros H; rewrite (IH rho _ E); exact H.
    + destruct d.
      * specialize (IH l Hs Hab). intros rho v. simpl. destruct (den rho l) eqn:E; simpl; try discriminate. rewrite (IH rho _ E). auto.
      * specialize (IH r Hs Hab). intros rho v. simpl. destruct (den rho l) eqn:El; simpl; try discriminate.
        destruct (den rho r) eqn:E; simpl; try discriminate. rewrite (IH rho _ E). auto.
Qed.

(* every operator is strict: an undefined subtree makes the whole expression undefined *)
Lemma den_strict e : forall q s rho, subtree e q = Some s -> den rho s = None -> den rho e = None.
Proof.
  induction e as [n|x|u c IH|k l IHl r IHr]; intros q s rho Hs Hn; destruct q as [|d q']; simpl in Hs;
    try (inversion Hs; subst; exact Hn); try discriminate.
  - destruct d; [discriminate|]. specialize (IH _ _ rho Hs Hn). simpl. destruct u; rewrite IH; reflexivity.
  - destruct d.
    + specialize (IHl _ _ rho Hs Hn). simpl. rewrite IHl. reflexivity.
    + specialize (IHr _ _ rho Hs Hn). simpl. rewrite IHr. destruct (den rho l); reflexivity.
Qed.

(* ---------- the power law used by variable-multiply ---------- *)
Lemma Int_part_IZR z : Int_part (IZR z) = z.
Proof. unfold Int_part. rewrite <- (tech_up (IZR z) (z+1)); try lia; rewrite plus_IZR; lra. Qed.
Transparent rpow.
Lemma rpow_add a b c x y z :
  rpow a b = Some x -> rpow a c = Some y -> rpow a (b+c) = Some z -> x*y = z.
Proof.
  unfold rpow. destruct (Rlt_dec 0 a).
  - intros. inversion H; inversion H0; inversion H1; subst. symmetry. apply Rpower_plus.
  - destruct (Req_EM_T a 0).
    + destruct (Rlt_dec 0 b); destruct (Rlt_dec 0 c); destruct (Rlt_dec 0 (b+c));
      repeat match goal with |- context[Req_EM_T ?u ?v] => destruct (Req_EM_T u v) end;
      intros; try discriminate;
      repeat match goal with H: Some _ = Some _ |- _ => inversion H; clear H; subst end; try lra.
    + destruct (is_int b) as [[zb Hb]|]; [|discriminate].
      destruct (is_int c) as [[zc Hc]|]; [|discriminate].
      destruct (is_int (b+c)) as [[zbc Hbc]|]; [|discriminate].
      intros. inversion H; inversion H0; inversion H1; subst.
      rewrite <- plus_IZR. rewrite !Int_part_IZR. symmetry. apply powerRZ_add. assumption.
Qed.
Global Opaque rpow.


(* value of a term triple *)
Definition coefR (c:option num) : option R := match c with Some n => numR n | None => Some 1 end.
Definition varpow (rho:env) (v:option N) (e:option num) : option R :=
  match v, e with
  | None, None => Some 1
  | Some x, None => rho x
  | Some x, Some k => bind2 (rho x) (numR k) rpow
  | None, Some _ => None end.
Definition term_den rho (t:termex) : option R := bind2 (coefR (t_coef t)) (varpow rho (t_var t) (t_exp t)) (fun a b => Some (a*b)).

Ltac dd := repeat match goal with
  | H : Some _ = Some _ |- _ => inversion H; clear H; subst
  | H : None = Some _ |- _ => discriminate
  | H : context[match ?x with _ => _ end] |- _ => let E := fresh "E" in destruct x eqn:E; try discriminate
  end.

Lemma get_term_ex_den rho e t v : get_term_ex false e = Some t -> den rho e = Some v -> term_den rho t = Some v.
Proof.
  intros G D. unfold term_den.
  destruct e as [n|x|u c|k l r]; simpl in G.
  - inversion G; subst; simpl in *. rewrite D. simpl. f_equal. lra.
  - inversion G; subst; simpl in *. rewrite D. f_equal. lra.
  - destruct u; try discriminate. destruct c as [|x| |k l r]; try discriminate.
    + inversion G; subst; simpl in *. rewrite numR_m1. destruct (rho x); simpl in *; try discriminate. inversion D. f_equal. lra.
    + destruct k; try discriminate. destruct l; try discriminate. destruct r; try discriminate.
      inversion G; subst; simpl in *. rewrite numR_m1.
      destruct (rho v0); simpl in *; try discriminate. destruct (numR n); simpl in *; try discriminate.
      destruct (rpow r r0); simpl in *; try discriminate. inversion D. f_equal. lra.
  - destruct k; try discriminate.
    + destruct l; try discriminate. destruct r as [|x| |k l r]; try discriminate.
      * inversion G; subst; simpl in *. exact D.
      * destruct k; try discriminate. destruct l; try discriminate. destruct r; try discriminate.
        inversion G; subst; simpl in *. exact D.
    + destruct l; try discriminate. destruct r; try discriminate.
      inversion G; subst; simpl in *.
      destruct (rho v0); simpl in *; try discriminate. destruct (numR n); simpl in *; try discriminate.
      destruct (rpow r r0); simpl in *; try discriminate. inversion D. f_equal. lra.
Qed.

Lemma get_term_ex_shape e t : get_term_ex false e = Some t -> (t_var t = None -> t_exp t = None).
Proof.
  destruct e as [n|x|u c|k l r]; simpl; intros G; try (inversion G; subst; simpl; auto; fail).
  - destruct u; try discriminate. destruct c as [|x| |k l r]; try discriminate.
    + inversion G; subst; simpl; discriminate.
    + destruct k; try discriminate. destruct l; try discriminate. destruct r; try discriminate. inversion G; subst; simpl; discriminate.
  - destruct k; try discriminate.
    + destruct l; try discriminate. destruct r as [|x| |k l r]; try discriminate.
      * inversion G; subst; simpl; discriminate.
      * destruct k; try discriminate. destruct l; try discriminate. destruct r; try discriminate. inversion G; subst; simpl; discriminate.
    + destruct l; try discriminate. destruct r; try discriminate. inversion G; subst; simpl; discriminate.
Qed.

Lemma make_term_den rho c v e t : make_term c v e = Some t ->
  den rho t = bind2 (numR c) (varpow rho v e) (fun a b => Some (a*b)).
Proof.
  unfold make_term. destruct v as [x|], e as [k|]; try discriminate.
  - destruct (num_eqb c one) eqn:E.
    + intros [= <-]. apply num_eqb_R in E. destruct E as [E _]. rewrite E. simpl.
      rewrite numR_one.
      destruct (rho x), (numR k); simpl; auto. destruct (rpow r r0); simpl; auto. f_equal; lra.
    + intros [= <-]. simpl. destruct (numR c), (rho x), (numR k); simpl; auto; try (destruct (rpow r0 r1); auto).
  - destruct (num_eqb c one) eqn:E.
    + intros [= <-]. apply num_eqb_R in E. destruct E as [E _]. rewrite E. simpl.
      rewrite numR_one.
      destruct (rho x); simpl; auto. f_equal; lra.
    + intros [= <-]. simpl. destruct (numR c), (rho x); simpl; auto.
  - intros [= <-]. simpl. destruct (numR c); simpl; auto. f_equal; lra.
Qed.

(* ---- factor table is a table of factor pairs (in Q) ---- *)
Open Scope Q_scope.
Definition okpair (v:num) (p:num*num) : Prop :=
  exists x y q, qv (fst p) = Some x /\ qv (snd p) = Some y /\ qv v = Some q /\ x*y == q.

Lemma num_eqb_q a b : num_eqb a b = true -> exists x y, qv a = Some x /\ qv b = Some y /\ x == y.
Proof. unfold num_eqb. destruct (qv a), (qv b); try discriminate. intros H. apply Qeq_bool_eq in H. eauto. Qed.

Lemma fset_ok v d k w : Forall (okpair v) d -> okpair v (k,w) -> Forall (okpair v) (fset d k w).
Proof.
  induction d as [|[a b] d IH]; simpl; intros Hd Hk.
  - constructor; auto.
  - inversion Hd; subst. destruct (num_eqb a k) eqn:E.
    + constructor; auto. destruct Hk as (x & y & q & Hx & Hy & Hq & Hxy). simpl in *.
      apply num_eqb_q in E. destruct E as (xa & xk & Ha & Hk' & Hak). rewrite Hx in Hk'. inversion Hk'; subst.
      exists xa, y, q. simpl. repeat split; auto. rewrite Hak. exact Hxy.
    + constructor; auto.
Qed.

Lemma frange_ok v z q n : qv v = Some q -> forall i d, (1 <= i)%Z -> Forall (okpair v) d -> Forall (okpair v) (frange d v z i n).
Proof.
  intros Hq. induction n as [|n IH]; simpl; intros i d Hi Hd; auto.
  apply IH; [lia|]. destruct (z mod i =? 0)%Z; auto.
  assert (okpair v (NInt i, ndivf v i)) as P1.
  { exists (inject_Z i), (Qred (q / inject_Z i)), q. unfold ndivf. rewrite Hq. simpl. repeat split; auto.
    setoid_rewrite (Qred_correct (q / inject_Z i)). field. unfold Qeq; simpl. lia. }
  apply fset_ok; [apply fset_ok; auto|].
  destruct P1 as (x & y & q' & Hx & Hy & Hq' & Hxy). simpl in *. exists y, x, q'. simpl. repeat split; auto. rewrite Qmult_comm. exact Hxy.
Qed.

Lemma factor_ok v : Forall (okpair v) (factor v).
Proof.
  unfold factor. destruct (qv v) as [q|] eqn:Hq; [|constructor].
  destruct (Qeq_bool q 0); [constructor|].
  assert (okpair v (one, v)) as P1.
  { exists 1, q, q. simpl. repeat split; auto. ring. }
  assert (okpair v (v, one)) as P2.
  { exists q, 1, q. simpl. repeat split; auto. ring. }
  destruct (q ?= 0).
  - assert (Forall (okpair v) (fset [(one, v)] v one)) as F0 by (apply fset_ok; auto).
    destruct (is_intval v); auto. eapply frange_ok; eauto. lia.
  - constructor; auto.
  - assert (Forall (okpair v) (fset [(one, v)] v one)) as F0 by (apply fset_ok; auto).
    destruct (is_intval v); auto. eapply frange_ok; eauto. lia.
Qed.

Lemma flookup_ok v d k w : Forall (okpair v) d -> flookup d k = Some w ->
  exists x y q, qv k = Some x /\ qv w = Some y /\ qv v = Some q /\ x*y == q.
Proof.
  induction d as [|[a b] d IH]; simpl; [discriminate|]. intros Hd. inversion Hd; subst.
  destruct (num_eqb a k) eqn:E; [|auto].
  intros [= <-]. destruct H1 as (x & y & q & Hx & Hy & Hq & Hxy). simpl in *.
  apply num_eqb_q in E. destruct E as (xa & xk & Ha & Hk & Hak). rewrite Hx in Ha. inversion Ha; subst.
  exists xk, y, q. repeat split; auto. rewrite <- Hak. exact Hxy.
Qed.

Open Scope R_scope.
Transparent numR.
Lemma flookup_R v k w : flookup (factor v) k = Some w ->
  exists rk rw rv, numR k = Some rk /\ numR w = Some rw /\ numR v = Some rv /\ rk * rw = rv.
Proof.
  intros H. destruct (flookup_ok v _ _ _ (factor_ok v) H) as (x & y & q & Hx & Hy & Hq & Hxy).
  unfold numR. rewrite Hx, Hy, Hq. simpl. do 3 eexists. repeat split. rewrite <- Q2R_mult. now apply Qeq_eqR.
Qed.
Global Opaque numR.

