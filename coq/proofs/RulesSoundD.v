(* Whole-tree soundness: every applicable rewrite refines the expression (C01); equations keep their
   solution set, balanced move included (C02); sequences of rewrites (C09). *)
From Coq Require Import List NArith ZArith QArith Qreals Reals Lra Lia Bool.
From Mathy Require Import Num Expr Util Rules Sem.
From MathyProofs Require Import ExprFacts SemFacts NumSem PowSem RulesSoundA RulesSoundB RulesSoundC.
Import ListNotations.
Open Scope R_scope.

Definition not_balanced (r:rule) : bool := match r with RBalanced => false | _ => true end.

(* every rule except balanced move replaces one subtree by a refinement of it *)
Theorem step_local r root p z : not_balanced r = true -> can_apply root p r = true -> apply root p r = ROk z -> Local root (fst z).
Proof.
  intros NB. unfold can_apply, apply. destruct (node root p) eqn:N; [|discriminate].
  destruct r; try discriminate NB; intros C A.
  - destruct (assoc_sound _ _ _ C A) as (q & d & _ & L & _). now exists q.
  - exists p. eapply comm_sound; eauto.
  - exists p. eapply const_sound; eauto.
  - exists p. eapply df_sound; eauto.
  - exists p. eapply dm_sound; eauto.
  - exists p. eapply mi_sound; eauto.
  - exists p. eapply rs_sound; eauto.
  - exists p. eapply vm_sound; eauto.
Qed.
Theorem step_refines r root p z : not_balanced r = true -> can_apply root p r = true -> apply root p r = ROk z -> refines root (fst z).
Proof. intros. apply local_refines. eapply step_local; eauto. Qed.

(* ---------- equations ---------- *)
Lemma eq_refines_same l r l' r' : eq_refines l r l' r' -> same_solutions l r l' r'.
Proof.
  intros H rho a b a' b' Dl Dr Dl' Dr'. destruct (H rho a b Dl Dr) as (a2 & b2 & E1 & E2 & E3).
  rewrite Dl' in E1. rewrite Dr' in E2. inversion E1; inversion E2; subst. exact E3.
Qed.
Lemma eq_refines_refl l r : eq_refines l r l r.
Proof. intros rho a b Dl Dr. exists a, b. tauto. Qed.
Lemma eq_refines_trans l r l1 r1 l2 r2 : eq_refines l r l1 r1 -> eq_refines l1 r1 l2 r2 -> eq_refines l r l2 r2.
Proof.
  intros H1 H2 rho a b Dl Dr. destruct (H1 rho a b Dl Dr) as (a1 & b1 & E1 & E2 & E3).
  destruct (H2 rho a1 b1 E1 E2) as (a2 & b2 & F1 & F2 & F3). exists a2, b2. tauto.
Qed.
Lemma refines_eq_refines_l l l' r : refines l l' -> eq_refines l r l' r.
Proof. intros H rho a b Dl Dr. exists a, b. apply H in Dl. tauto. Qed.
Lemma refines_eq_refines_r l r r' : refines r r' -> eq_refines l r l r'.
Proof. intros H rho a b Dl Dr. exists a, b. apply H in Dr. tauto. Qed.
Lemma flip_eq_refines l r : eq_refines l r r l.
Proof. intros rho a b Dl Dr. exists b, a. repeat split; auto; intros; subst; reflexivity. Qed.

(* a local step strictly inside an equation keeps it an equation with the same solutions *)
Lemma local_inside_equation l r q root' : q <> [] -> LocalAt (Bin KEq l r) q root' ->
  exists l' r', root' = Bin KEq l' r' /\ eq_refines l r l' r'.
Proof.
  intros Hq (a & b & Hs & -> & Hr). destruct q as [|d q']; [contradiction|]. destruct d; simpl in *.
  - exists (replace l q' b), r. split; auto. apply refines_eq_refines_l. eapply refines_replace; eauto.
  - exists l, (replace r q' b). split; auto. apply refines_eq_refines_r. eapply refines_replace; eauto.
Qed.

(* which rules can fire AT an equation node: only the commutative swap (flip) *)
Lemma at_equation_only_comm r root p l0 r0 : node root p = Some (Bin KEq l0 r0) -> can_apply root p r = true -> not_balanced r = true ->
  exists pr, r = RComm pr.
Proof.
  intros N C NB. unfold can_apply in C. rewrite N in C. destruct r; try discriminate NB; eauto; exfalso.
  - unfold assoc_can in C. rewrite N in C. simpl in C. discriminate.
  - unfold const_type in C. rewrite N in C. cbn in C.
    repeat match type of C with context[is_k ?k (Some (Bin KEq _ _))] => change (is_k k (Some (Bin KEq l0 r0))) with false in C end.
    destruct r0 as [| | |k2 a2 b2]; cbn in C; try discriminate; destruct a2; cbn in C; try discriminate.
  - unfold df_can, df_type in C. rewrite N in C. simpl in C. discriminate.
  - unfold dm_can in C. rewrite N in C. simpl in C. discriminate.
  - unfold mi_can in C. rewrite N in C. simpl in C. discriminate.
  - unfold rs_type in C. rewrite N in C. simpl in C. discriminate.
  - unfold vm_can, vm_type in C. rewrite N in C. simpl in C. discriminate.
Qed.

(* ---------- balanced move ---------- *)
(* removing a top-level addend from a sum of additions: the sum is the rest plus the addend *)
Lemma spine_split : forall q0 e d n sib,
  add_spine e (q0 ++ [d]) = true -> subtree e (q0 ++ [d]) = Some n ->
  (match subtree e q0 with Some pe => match d with DL => rgt pe | DR => lft pe end | None => None end) = Some sib ->
  forall rho a, den rho e = Some a -> exists a' vn, den rho (replace e q0 sib) = Some a' /\ den rho n = Some vn /\ a = a' + vn.
Proof.
  induction q0 as [|d0 q1 IH]; intros e d n sib Hsp Hn Hsib rho a Da.
  - simpl in *. destruct e as [| | |k x y]; try discriminate. destruct k; try discriminate.
    cbn [den] in Da. apply bind2_some in Da. destruct Da as (vx & vy & Dx & Dy & E). cbn [binop] in E. inversion E; subst a.
    destruct d; simpl in *; inversion Hn; inversion Hsib; subst.
    + exists vy, vx. repeat split; auto. ring.
    + exists vx, vy. repeat split; auto.
  - simpl in Hsp, Hn, Hsib. destruct e as [| | |k x y]; try discriminate. destruct k; try (destruct d0; discriminate).
    cbn [den] in Da. apply bind2_some in Da. destruct Da as (vx & vy & Dx & Dy & E). cbn [binop] in E. inversion E; subst a.
    destruct d0; simpl.
    + destruct (IH x d n sib Hsp Hn Hsib rho vx Dx) as (a' & vn & D1 & D2 & ->).
      exists (a' + vy), vn. cbn [den]. rewrite D1, Dy. cbn [bind2 binop]. repeat split; auto. ring.
    + destruct (IH y d n sib Hsp Hn Hsib rho vy Dy) as (a' & vn & D1 & D2 & ->).
      exists (vx + a'), vn. cbn [den]. rewrite Dx, D1. cbn [bind2 binop]. repeat split; auto. ring.
Qed.

Theorem bm_sound root p z : bm_can root p = true -> bm_apply root p = ROk z ->
  exists l r l' r', root = Bin KEq l r /\ fst z = Bin KEq l' r' /\ eq_refines l r l' r'.
Proof.
  unfold bm_can, bm_apply. destruct (bm_type root p) as [t|] eqn:T; [|discriminate]. intros _.
  unfold bm_type in T. destruct root as [| | |k rl rr]; try discriminate. destruct k; try discriminate.
  destruct (is_k KEq (par (Bin KEq rl rr) p)) eqn:PE; [discriminate|].
  destruct (is_k KMul (par (Bin KEq rl rr) p) && is_const (node (Bin KEq rl rr) p)) eqn:MC.
  - (* divide both sides by a non-zero constant *)
    apply andb_prop in MC. destruct MC as (_ & NC). apply is_const_inv in NC. destruct NC as (c & NC). rewrite NC in *. cbn [cval] in T.
    destruct (truthy c) eqn:TR; [|discriminate].
    destruct p as [|s q']; [simpl in T; discriminate|]. cbn [root_side] in T.
    assert (t = B_MUL) as -> by (destruct s; [destruct (contains_add rl)|destruct (contains_add rr)]; try discriminate; inversion T; reflexivity).
    intros [= <-]. exists rl, rr, (Bin KDiv rl (Const c)), (Bin KDiv rr (Const c)). split; [reflexivity|]. split; [reflexivity|].
    intros rho a b Dl Dr. cbn [den]. rewrite Dl, Dr.
    destruct (numR c) as [rc|] eqn:Ec; cbn [bind2 binop].
    2: { (* a non-finite constant denotes nothing, and it sits inside one of the sides: that side is undefined *)
         exfalso. unfold node in NC. destruct s; simpl in NC.
         - rewrite (den_strict rl q' (Const c) rho NC Ec) in Dl. discriminate.
         - rewrite (den_strict rr q' (Const c) rho NC Ec) in Dr. discriminate. }
    assert (rc <> 0) as Hc by (apply (truthy_R _ _ Ec); exact TR).
    destruct (Req_EM_T rc 0); [contradiction|]. exists (a / rc), (b / rc). repeat split; auto; intros H.
    + now subst.
    + apply (Rmult_eq_reg_r (/ rc)); [exact H|]. now apply Rinv_neq_0_compat.
  - (* move a top-level addend *)
    destruct (is_k KAdd (par (Bin KEq rl rr) p)) eqn:PA; [|discriminate].
    destruct ((is_const (node (Bin KEq rl rr) p) || isSome (gte (node (Bin KEq rl rr) p))) && top_level_addend (Bin KEq rl rr) p) eqn:TA; [|discriminate].
    inversion T; subst t. clear T. apply andb_prop in TA. destruct TA as (_ & TL).
    destruct (node (Bin KEq rl rr) p) as [n|] eqn:N; [|discriminate].
    destruct (parent_path p) as [[q d]|] eqn:PP; [|discriminate].
    destruct (sibling (Bin KEq rl rr) p) as [sib|] eqn:SB; [|discriminate].
    pose proof (parent_path_app _ _ _ PP) as ->.
    unfold top_level_addend in TL. unfold sibling in SB. rewrite PP in SB. unfold node in N.
    destruct q as [|s q0].
    { (* the parent would be the equation itself *) unfold par, parent in PA. simpl in PA. discriminate. }
    assert (root_side ((s :: q0) ++ [d]) = Some s) as RS by reflexivity. rewrite RS.
    destruct s; simpl in TL, SB, N |- *.
    + (* left side: l = rest + n, the new right side is r - n *)
      intros [= <-]. simpl. exists rl, rr, (replace rl q0 sib), (Bin KSub rr n). split; [reflexivity|]. split; [reflexivity|].
      intros rho a b Dl Dr.
      destruct (spine_split q0 rl d n sib TL N SB rho a Dl) as (a2 & vn & D1 & D2 & ->).
      exists a2, (b - vn). cbn [den]. rewrite D1, Dr, D2. cbn [bind2 binop]. repeat split; auto; intros H; lra.
    + intros [= <-]. simpl. exists rl, rr, (Bin KSub rl n), (replace rr q0 sib). split; [reflexivity|]. split; [reflexivity|].
      intros rho a b Dl Dr.
      destruct (spine_split q0 rr d n sib TL N SB rho b Dr) as (b2 & vn & D1 & D2 & ->).
      exists (a - vn), b2. cbn [den]. rewrite Dl, D1, D2. cbn [bind2 binop]. repeat split; auto; intros H; lra.
Qed.
