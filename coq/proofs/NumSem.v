(* The model's number operations (Num.v) against the real denotation: numR of nadd/nsub/nmul/ndiv/nneg,
   and npow against rpow. *)
From Coq Require Import List ZArith QArith Qround Qreals Qpower Reals Lra Lia Bool.
From Mathy Require Import Num Expr Util Sem.
From MathyProofs Require Import SemFacts.
Import ListNotations.
Open Scope R_scope.

Transparent numR.
Lemma numR_int z : numR (NInt z) = Some (IZR z).
Proof. unfold numR. simpl. f_equal. unfold Q2R. simpl. field. Qed.
Lemma numR_flt q : numR (NFlt q) = Some (Q2R q).
Proof. reflexivity. Qed.
Lemma numR_nan : numR NNonFinite = None.
Proof. reflexivity. Qed.
Lemma numR_qv n r : numR n = Some r -> exists q, qv n = Some q /\ r = Q2R q.
Proof. unfold numR. destruct (qv n); simpl; [intros [= <-]; eauto|discriminate]. Qed.
Lemma qv_numR n q : qv n = Some q -> numR n = Some (Q2R q).
Proof. unfold numR. intros ->. reflexivity. Qed.
Lemma numR_nflt q : numR (nflt q) = Some (Q2R q).
Proof. unfold nflt, numR. simpl. f_equal. apply Qeq_eqR. apply Qred_correct. Qed.
Global Opaque numR.

Lemma Q2R_inject_Z z : Q2R (inject_Z z) = IZR z.
Proof. unfold Q2R. simpl. field. Qed.

Lemma numR_nadd a b x y : numR a = Some x -> numR b = Some y -> numR (nadd a b) = Some (x + y).
Proof.
  intros Ha Hb. destruct (numR_qv _ _ Ha) as (qa & Qa & ->), (numR_qv _ _ Hb) as (qb & Qb & ->).
  destruct a as [za|fa|], b as [zb|fb|]; simpl in *; try discriminate;
    inversion Qa; inversion Qb; subst; unfold nadd; simpl;
    rewrite ?numR_int, ?numR_nflt, ?Q2R_plus, ?Q2R_inject_Z, ?plus_IZR; reflexivity.
Qed.
Lemma numR_nsub a b x y : numR a = Some x -> numR b = Some y -> numR (nsub a b) = Some (x - y).
Proof.
  intros Ha Hb. destruct (numR_qv _ _ Ha) as (qa & Qa & ->), (numR_qv _ _ Hb) as (qb & Qb & ->).
  destruct a as [za|fa|], b as [zb|fb|]; simpl in *; try discriminate;
    inversion Qa; inversion Qb; subst; unfold nsub; simpl;
    rewrite ?numR_int, ?numR_nflt, ?Q2R_minus, ?Q2R_inject_Z, ?minus_IZR; reflexivity.
Qed.
Lemma numR_nmul a b x y : numR a = Some x -> numR b = Some y -> numR (nmul a b) = Some (x * y).
Proof.
  intros Ha Hb. destruct (numR_qv _ _ Ha) as (qa & Qa & ->), (numR_qv _ _ Hb) as (qb & Qb & ->).
  destruct a as [za|fa|], b as [zb|fb|]; simpl in *; try discriminate;
    inversion Qa; inversion Qb; subst; unfold nmul; simpl;
    rewrite ?numR_int, ?numR_nflt, ?Q2R_mult, ?Q2R_inject_Z, ?mult_IZR; reflexivity.
Qed.
Lemma numR_nneg a x : numR a = Some x -> numR (nneg a) = Some (- x).
Proof.
  intros Ha. destruct (numR_qv _ _ Ha) as (qa & Qa & ->).
  destruct a as [za|fa|]; simpl in *; try discriminate; inversion Qa; subst.
  - rewrite numR_int, Q2R_inject_Z, opp_IZR. reflexivity.
  - rewrite numR_flt, Q2R_opp. reflexivity.
Qed.
Lemma Q2R_zero_iff q : Q2R q = 0 <-> (q == 0)%Q.
Proof.
  split; intros H.
  - apply eqR_Qeq. rewrite H. unfold Q2R. simpl. lra.
  - apply Qeq_eqR in H. rewrite H. unfold Q2R. simpl. lra.
Qed.
Lemma numR_ndiv a b x y : numR a = Some x -> numR b = Some y -> y <> 0 -> numR (ndiv a b) = Some (x / y).
Proof.
  intros Ha Hb Hy. destruct (numR_qv _ _ Ha) as (qa & Qa & ->), (numR_qv _ _ Hb) as (qb & Qb & ->).
  unfold ndiv. rewrite Qb, Qa.
  destruct (Qeq_bool qb 0) eqn:E.
  - apply Qeq_bool_eq in E. apply Q2R_zero_iff in E. contradiction.
  - rewrite numR_nflt. f_equal. apply Q2R_div. intro Q. apply Hy. now apply Q2R_zero_iff.
Qed.
(* a division by zero folds to NaN, which denotes nothing; the original denotes nothing either *)
Lemma ndiv_zero a b y : numR b = Some y -> y = 0 -> numR (ndiv a b) = None.
Proof.
  intros Hb Hy. destruct (numR_qv _ _ Hb) as (qb & Qb & E). unfold ndiv. rewrite Qb.
  assert (Qeq_bool qb 0 = true) as ->; [|apply numR_nan].
  apply Qeq_bool_iff. apply Q2R_zero_iff. congruence.
Qed.

Lemma nlt0_R v x : numR v = Some x -> (nlt0 v = true <-> x < 0).
Proof.
  intros Hv. destruct (numR_qv _ _ Hv) as (q & Q & ->). unfold nlt0, nlt. rewrite Q. simpl.
  destruct (Qcompare q (inject_Z 0)) eqn:C; split; intros H; try discriminate; try reflexivity.
  - apply Qeq_alt in C. apply Qeq_eqR in C. rewrite C, Q2R_inject_Z in H. lra.
  - apply Qlt_alt in C. apply Qlt_Rlt in C. rewrite Q2R_inject_Z in C. exact C.
  - apply Qgt_alt in C. apply Qlt_Rlt in C. rewrite Q2R_inject_Z in C. lra.
Qed.
Lemma truthy_R v x : numR v = Some x -> (truthy v = true <-> x <> 0).
Proof.
  intros Hv. destruct (numR_qv _ _ Hv) as (q & Q & ->). unfold truthy. rewrite Q.
  split; intros H.
  - intros Z. apply Q2R_zero_iff in Z. apply Qeq_bool_iff in Z. rewrite Z in H. discriminate.
  - destruct (Qeq_bool q 0) eqn:E; [|reflexivity]. apply Qeq_bool_eq in E. apply Q2R_zero_iff in E. contradiction.
Qed.
