(* A successful parse has converted every constant token (C10): a string containing a malformed number - a number token that
   coerce_to_number rejects - never parses to a tree. *)
From Coq Require Import List NArith ZArith QArith Bool Lia.
From Mathy Require Import Tok Params TokSet Lexer Num Expr Parser Grammar.
From MathyProofs Require Import ParamsFacts LexerFacts ParserNF ParserSound ParserComplete ParserOperands ParserTotal ParserTop ParserValueError.
Import ListNotations.
Import NF.

Definition okc (t:token) : Prop := tk t = TConst -> exists v, coerce (tv t) = Ok v.
(* the result hands back a suffix; every constant token consumed on the way was converted *)
Definition consumed (s s':st) : Prop := exists pre, s = pre ++ s' /\ Forall okc pre.
Definition pc {A} (s:st) (r:res (A * st)) : Prop := match r with Ok (_, s') => consumed s s' | Raises _ => True end.
Definition pc0 (s:st) (r:res st) : Prop := match r with Ok s' => consumed s s' | Raises _ => True end.
Lemma consumed_refl s : consumed s s. Proof. exists []. split; [reflexivity|constructor]. Qed.
Lemma consumed_trans a b c : consumed a b -> consumed b c -> consumed a c.
Proof. intros (p & -> & F1) (q & -> & F2). exists (p ++ q). split; [now rewrite app_assoc|apply Forall_app; auto]. Qed.

Lemma tk_of_is s k t r : s = t :: r -> is s k = true -> tk t = k.
Proof. intros -> H. unfold is, check in H. cbn in H. destruct (tk t), k; cbn in H; try discriminate; reflexivity. Qed.
(* next after a test for a kind other than Constant *)
Lemma pc_next_kind s k : is s k = true -> k <> TConst -> pc0 s (next s).
Proof.
  intros H NE. unfold next. destruct s as [|t r]; [exact I|]. destruct (tkind_eqb (tk t) TEOF); [exact I|]. destruct r; [exact I|].
  exists [t]. split; [reflexivity|]. constructor; [|constructor]. intros Q. rewrite (tk_of_is _ k t _ eq_refl H) in Q. contradiction.
Qed.
(* next after the constant has been converted *)
Lemma pc_next_const s v : coerce (tval s) = Ok v -> pc0 s (next s).
Proof.
  intros H. unfold next. destruct s as [|t r]; [exact I|]. destruct (tkind_eqb (tk t) TEOF); [exact I|]. destruct r; [exact I|].
  exists [t]. split; [reflexivity|]. constructor; [|constructor]. intros _. exists v. exact H.
Qed.
Lemma pc_eat s k : k <> TConst -> pc0 s (eat s k).
Proof. intros NE. unfold eat. destruct (is s k) eqn:E; [now apply (pc_next_kind s k)|exact I]. Qed.
Lemma pc_bind0 {B} s (a:res st) (k:st -> res (B * st)) : pc0 s a -> (forall s', consumed s s' -> pc s' (k s')) -> pc s (bind a k).
Proof.
  destruct a as [s'|x]; cbn [bind pc0]; intros H K; [|exact I].
  specialize (K s' H). unfold pc in *. destruct (k s') as [[y s'']|]; auto. eapply consumed_trans; eauto.
Qed.
Lemma pc_bind {A B} s (a:res (A * st)) (k:A * st -> res (B * st)) : pc s a -> (forall x s', consumed s s' -> pc s' (k (x, s'))) -> pc s (bind a k).
Proof.
  destruct a as [[x s']|x]; cbn [bind]; intros H K; [|exact I]. cbn [pc] in H.
  specialize (K x s' H). unfold pc in *. destruct (k (x, s')) as [[y s'']|]; auto. eapply consumed_trans; eauto.
Qed.

Definition PC (n:nat) : Prop :=
  (forall s, pc s (parse_add n s)) /\
  (forall e s, pc s (add_loop n e s)) /\
  (forall s, pc s (parse_mult n s)) /\
  (forall e s, pc s (mult_loop n e s)) /\
  (forall s, pc s (parse_exponent n s)) /\
  (forall s, pc s (parse_unary n s)) /\
  (forall b s, pc s (parse_prefix n b s)) /\
  (forall s, pc s (parse_factors n s)) /\
  (forall a s, pc s (factors_loop n a s)).

Lemma or_is s a b : is s a || is s b = true -> exists k, (k = a \/ k = b) /\ is s k = true.
Proof. intros H. apply orb_prop in H. destruct H; eauto. Qed.

Ltac kind_ne := first [discriminate | (intros ->; discriminate) | (destruct 1; discriminate)].
Ltac pc_next :=
  match goal with
  | H : is ?s ?k = true |- pc0 ?s (next ?s) => apply (pc_next_kind s k H); discriminate
  | H : is ?s ?a || is ?s ?b = true |- pc0 ?s (next ?s) =>
      let k := fresh "k" in let Hk := fresh "Hk" in let E := fresh "E" in
      destruct (or_is s a b H) as (k & Hk & E); apply (pc_next_kind s k E); destruct Hk; subst k; discriminate
  | H : coerce (tval ?s) = Ok ?v |- pc0 ?s (next ?s) => apply (pc_next_const s v H)
  end.
Ltac pc_step :=
  first
  [ exact I
  | apply consumed_refl
  | match goal with |- pc ?s (bind (next ?s) _) => apply pc_bind0; [pc_next | intros ] end
  | match goal with |- pc ?s (bind (eat ?s _) _) => apply pc_bind0; [apply pc_eat; discriminate | intros ] end
  | match goal with |- pc _ (bind (coerce ?x) _) => destruct (coerce x) eqn:?; cbn [bind] end
  | match goal with |- pc _ (if ?c then _ else _) => destruct c eqn:? end
  | match goal with |- pc _ (match ?x with Some _ => _ | None => _ end) => destruct x eqn:? end
  | match goal with H : forall s, pc s (?f ?n s) |- pc _ (?f ?n _) => apply H end
  | match goal with H : forall a s, pc s (?f ?n a s) |- pc _ (?f ?n _ _) => apply H end
  | match goal with |- pc _ (bind _ _) => apply pc_bind; [ | intros ] end
  | match goal with |- pc _ (Ok (_, _)) => cbn [pc] end
  | match goal with |- pc _ (Raises _) => exact I end ].

Theorem pc_all : forall n, PC n.
Proof.
  induction n as [|n (IHa & IHal & IHm & IHml & IHe & IHu & IHp & IHf & IHfl)]; [repeat split; intros; exact I|].
  repeat split; intros.
  - cbn [parse_add]. repeat pc_step.
  - cbn [add_loop]. repeat pc_step.
  - cbn [parse_mult]. repeat pc_step.
  - cbn [mult_loop]. repeat pc_step.
  - cbn [parse_exponent]. repeat pc_step.
  - cbn [parse_unary]. repeat pc_step.
  - cbn [parse_prefix]. repeat pc_step.
  - cbn [parse_factors]. repeat pc_step.
  - cbn [factors_loop]. apply (pc_bind (A:=expr)).
    + repeat pc_step.
    + intros. repeat pc_step.
Qed.
Lemma pc_equal_loop n : forall m e s, pc s (equal_loop n m e s).
Proof.
  destruct (pc_all n) as (IHa & _).
  induction m as [|m IH]; intros e s; [exact I|]. cbn [equal_loop]. repeat pc_step.
Qed.

Theorem parse_tokens_consts ts e : eof_ok ts -> parse_tokens ts = Ok e -> Forall okc ts.
Proof.
  intros Hts. rewrite parse_tokens_nf. destruct ts as [|t r]; [discriminate|].
  destruct (is (t::r) TEOF); [discriminate|]. destruct (negb (check (t::r) first_unary)); [discriminate|].
  pose proof (proj1 (pc_all (parse_fuel (t::r))) (t::r)) as G1.
  destruct (parse_add _ _) as [[e1 s1]|y]; cbn [bind pc] in *; [|discriminate].
  pose proof (pc_equal_loop (parse_fuel (t::r)) (parse_fuel (t::r)) e1 s1) as G2.
  destruct (equal_loop _ _ e1 s1) as [[e2 s2]|y]; cbn [bind pc] in *; [|discriminate].
  destruct (is s2 TEOF) eqn:Q; [|discriminate]. intros _.
  destruct (consumed_trans _ _ _ G1 G2) as (pre & E & F). rewrite E. apply Forall_app. split; [exact F|].
  (* what is left is the end marker *)
  destruct Hts as (body & eo & Hb & He & Fb). rewrite Hb in E.
  assert (exists t2 r2, s2 = t2 :: r2 /\ tk t2 = TEOF) as (t2 & r2 & -> & Ht2).
  { destruct s2 as [|t2 r2]; [discriminate Q|]. exists t2, r2. split; [reflexivity|]. eapply tk_of_is; eauto. }
  (* the only TEOF token of body ++ [eo] is the last one *)
  assert (r2 = []) as ->.
  { assert (L : forall (b p:list token) x y q, b ++ [x] = p ++ y :: q -> Forall (fun t => tk t <> TEOF) b -> tk y = TEOF -> q = []).
    { induction b as [|b0 b IHb]; intros p x y q Eq Fb0 Hy.
      - destruct p as [|p0 p]; cbn in Eq; [inversion Eq; reflexivity|]. inversion Eq. destruct p; discriminate.
      - destruct p as [|p0 p]; cbn in Eq.
        + inversion Eq; subst. inversion Fb0; subst. contradiction.
        + inversion Eq; subst. inversion Fb0; subst. eapply IHb; eauto. }
    eapply (L body pre eo t2 r2); eauto. }
  constructor; [|constructor]. intros Q2. rewrite Ht2 in Q2. discriminate.
Qed.

(* strings: a malformed number token anywhere means no tree *)
Theorem parse_rejects_malformed_numbers s e : parse s = Ok e ->
  forall ts t, tokenize true s = LOk ts -> In t ts -> tk t = TConst -> ~ bad_number (tv t).
Proof.
  unfold parse. intros H ts t T Hin Hk B. rewrite T in H.
  pose proof (parse_tokens_consts ts e (tokenize_eof_ok _ _ _ T) H) as F. rewrite Forall_forall in F.
  destruct (F t Hin Hk) as (v & Hv). unfold bad_number in B. congruence.
Qed.
