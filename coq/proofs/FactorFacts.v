(* util.factor on a positive integer: the table holds exactly the divisor pairs. *)
From Coq Require Import List ZArith QArith Qround Bool Lia.
From Mathy Require Import Num Expr Util.
Import ListNotations.
Open Scope Q_scope.

Definition isZ (n:num) (a:Z) : Prop := exists x, qv n = Some x /\ x == inject_Z a.
Lemma isZ_int a : isZ (NInt a) a. Proof. exists (inject_Z a). split; reflexivity. Qed.
Lemma num_eqb_isZ n m a : num_eqb n m = true -> isZ m a -> isZ n a.
Proof.
  unfold num_eqb. intros H (x & Hx & Ex). rewrite Hx in H. destruct (qv n) as [y|] eqn:Hy; [|discriminate].
  apply Qeq_bool_iff in H. exists y. split; [exact Hy|]. now rewrite H.
Qed.
Lemma isZ_eqb n m a : isZ n a -> isZ m a -> num_eqb n m = true.
Proof. intros (x & Hx & Ex) (y & Hy & Ey). unfold num_eqb. rewrite Hx, Hy. apply Qeq_bool_iff. now rewrite Ex, Ey. Qed.
Lemma isZ_inj n a b : isZ n a -> isZ n b -> a = b.
Proof. intros (x & Hx & Ex) (y & Hy & Ey). rewrite Hx in Hy. inversion Hy; subst y. rewrite Ex in Ey. unfold Qeq in Ey. simpl in Ey. lia. Qed.
Lemma ndivf_exact z i : (0 < i)%Z -> (z mod i = 0)%Z -> isZ (ndivf (NInt z) i) (z / i).
Proof.
  intros Hi Hm. unfold ndivf, nflt. cbn [qv]. eexists. split; [reflexivity|]. rewrite Qred_correct.
  assert (z = i * (z / i))%Z as E by (apply Z.div_exact; lia). rewrite E at 1. rewrite inject_Z_mult. field.
  unfold Qeq. simpl. lia.
Qed.

(* every entry is a pair (a, b) of integers with 0 < a and a * b = z *)
Definition divpair (z:Z) (p:num*num) : Prop := exists a b, (0 < a)%Z /\ (a * b = z)%Z /\ isZ (fst p) a /\ isZ (snd p) b.
Lemma fset_div z d k w : Forall (divpair z) d -> divpair z (k, w) -> Forall (divpair z) (fset d k w).
Proof.
  induction d as [|[a b] d IH]; cbn [fset]; intros Hd Hk; [constructor; auto|].
  inversion Hd; subst. destruct (num_eqb a k) eqn:E; constructor; auto.
  destruct Hk as (x & y & Hx & Hxy & Ik & Iw). exists x, y. cbn [fst snd] in *. repeat split; auto. eapply num_eqb_isZ; eauto.
Qed.
Lemma frange_div z n : (0 < z)%Z -> forall i d, (1 <= i)%Z -> Forall (divpair z) d -> Forall (divpair z) (frange d (NInt z) z i n).
Proof.
  intros Hz. induction n as [|n IH]; cbn [frange]; intros i d Hi Hd; auto.
  apply IH; [lia|]. destruct (z mod i =? 0)%Z eqn:M; auto. apply Z.eqb_eq in M.
  assert (z = i * (z / i))%Z as E by (apply Z.div_exact; lia).
  assert (0 < z / i)%Z as Hq by nia.
  apply fset_div; [apply fset_div; auto|].
  - exists i, (z / i)%Z. cbn [fst snd]. split; [lia|split; [lia|split; [apply isZ_int|apply ndivf_exact; lia]]].
  - exists (z / i)%Z, i. cbn [fst snd]. split; [lia|split; [lia|split; [apply ndivf_exact; lia|apply isZ_int]]].
Qed.
Lemma factor_int z : (0 < z)%Z -> factor (NInt z) = frange (fset [(one, NInt z)] (NInt z) one) (NInt z) z 2 (Z.to_nat (Z.sqrt z - 1)).
Proof.
  intros Hz. unfold factor. cbn [qv is_intval].
  assert (Qeq_bool (inject_Z z) 0 = false) as E0.
  { destruct (Qeq_bool (inject_Z z) 0) eqn:E; auto. apply Qeq_bool_iff in E. unfold Qeq in E. simpl in E. lia. }
  rewrite E0. assert (inject_Z z ?= 0 = Gt) as EC by (unfold Qcompare; simpl; apply Z.compare_gt_iff; lia). rewrite EC. reflexivity.
Qed.
Theorem factor_div z : (0 < z)%Z -> Forall (divpair z) (factor (NInt z)).
Proof.
  intros Hz. rewrite (factor_int z Hz). apply frange_div; [exact Hz|lia|].
  apply fset_div; [constructor; [|constructor]|].
  - exists 1%Z, z. cbn [fst snd]. split; [lia|split; [lia|split; [apply isZ_int|apply isZ_int]]].
  - exists z, 1%Z. cbn [fst snd]. split; [lia|split; [lia|split; [apply isZ_int|apply isZ_int]]].
Qed.
Lemma flookup_div z d k w : Forall (divpair z) d -> flookup d k = Some w -> divpair z (k, w).
Proof.
  induction d as [|[a b] d IH]; cbn [flookup]; [discriminate|]. intros Hd. inversion Hd; subst.
  destruct (num_eqb a k) eqn:E; [|auto]. intros [= <-].
  destruct H1 as (x & y & Hx & Hxy & Ia & Ib). exists x, y. cbn [fst snd] in *. repeat split; auto.
  destruct Ia as (qa & Hqa & Eqa). unfold num_eqb in E. rewrite Hqa in E. destruct (qv k) as [qk|] eqn:Hk; [|discriminate].
  apply Qeq_bool_iff in E. exists qk. split; auto. now rewrite <- E.
Qed.

(* and every divisor has its entry *)
Definition has_key (d:fdict) (a:Z) : Prop := exists w, flookup d (NInt a) = Some w.
Lemma fset_keeps d k w a : has_key d a -> has_key (fset d k w) a.
Proof.
  unfold has_key. induction d as [|[x y] d IH]; cbn [flookup fset]; intros (v & H); [discriminate|].
  destruct (num_eqb x (NInt a)) eqn:E.
  - destruct (num_eqb x k); cbn [flookup]; rewrite E; eauto.
  - destruct (num_eqb x k); cbn [flookup]; rewrite E; eauto.
Qed.
Lemma fset_adds d k w a : isZ k a -> (forall x y, In (x, y) d -> exists b, isZ x b) -> has_key (fset d k w) a.
Proof.
  unfold has_key. intros Ik. induction d as [|[x y] d IH]; cbn [flookup fset]; intros Hd.
  - cbn [flookup]. rewrite (isZ_eqb k (NInt a) a Ik (isZ_int a)). eauto.
  - destruct (num_eqb x k) eqn:E; cbn [flookup].
    + assert (num_eqb x (NInt a) = true) as E'. { apply isZ_eqb with a; [eapply num_eqb_isZ; eauto|apply isZ_int]. }
      rewrite E'. eauto.
    + destruct (num_eqb x (NInt a)); eauto. apply IH. intros x0 y0 Hin. apply (Hd x0 y0). now right.
Qed.
Lemma keys_int z d : Forall (divpair z) d -> forall x y, In (x, y) d -> exists b, isZ x b.
Proof. intros F x y Hin. rewrite Forall_forall in F. destruct (F _ Hin) as (a & b & _ & _ & Ia & _). eauto. Qed.

Lemma frange_keeps z n : forall i d a, has_key d a -> has_key (frange d (NInt z) z i n) a.
Proof.
  induction n as [|n IH]; cbn [frange]; intros i d a H; auto. apply IH.
  destruct (z mod i =? 0)%Z; auto. now apply fset_keeps, fset_keeps.
Qed.
Lemma frange_adds z : (0 < z)%Z -> forall n i d j, (1 <= i)%Z -> Forall (divpair z) d -> (i <= j < i + Z.of_nat n)%Z -> (z mod j = 0)%Z ->
  has_key (frange d (NInt z) z i n) j /\ has_key (frange d (NInt z) z i n) (z / j).
Proof.
  intros Hz. induction n as [|n IH]; intros i d j Hi Hd Hj Hm; [lia|]. cbn [frange].
  destruct (Z.eq_dec i j) as [->|Ne].
  - rewrite Hm. cbn [Z.eqb]. assert (z = j * (z / j))%Z as E by (apply Z.div_exact; lia). assert (0 < z / j)%Z as Hq by nia.
    assert (Forall (divpair z) (fset d (NInt j) (ndivf (NInt z) j))) as F1.
    { apply fset_div; auto. exists j, (z / j)%Z. cbn [fst snd]. split; [lia|split; [lia|split; [apply isZ_int|apply ndivf_exact; lia]]]. }
    split; apply frange_keeps.
    + apply fset_keeps. apply fset_adds; [apply isZ_int|apply (keys_int z d Hd)].
    + apply fset_adds; [apply ndivf_exact; lia|apply (keys_int z _ F1)].
  - apply IH; [lia| |lia|exact Hm]. destruct (z mod i =? 0)%Z eqn:M; auto. apply Z.eqb_eq in M.
    assert (z = i * (z / i))%Z as E by (apply Z.div_exact; lia). assert (0 < z / i)%Z as Hq by nia.
    apply fset_div; [apply fset_div; auto|].
    + exists i, (z / i)%Z. cbn [fst snd]. split; [lia|split; [lia|split; [apply isZ_int|apply ndivf_exact; lia]]].
    + exists (z / i)%Z, i. cbn [fst snd]. split; [lia|split; [lia|split; [apply ndivf_exact; lia|apply isZ_int]]].
Qed.

Theorem factor_has_every_divisor z a b : (0 < z)%Z -> (0 < a)%Z -> (a * b = z)%Z -> has_key (factor (NInt z)) a.
Proof.
  intros Hz Ha Hab. rewrite (factor_int z Hz).
  set (d0 := fset [(one, NInt z)] (NInt z) one).
  assert (Forall (divpair z) d0) as F0.
  { apply fset_div; [constructor; [|constructor]|].
    - exists 1%Z, z. cbn [fst snd]. split; [lia|split; [lia|split; [apply isZ_int|apply isZ_int]]].
    - exists z, 1%Z. cbn [fst snd]. split; [lia|split; [lia|split; [apply isZ_int|apply isZ_int]]]. }
  assert (0 < b)%Z as Hb by nia.
  destruct (Z.eq_dec a 1) as [->|N1].
  { apply frange_keeps. subst d0. apply fset_keeps. exists (NInt z). cbn [flookup]. rewrite (isZ_eqb one (NInt 1) 1 (isZ_int 1) (isZ_int 1)). reflexivity. }
  destruct (Z.eq_dec a z) as [->|Nz].
  { apply frange_keeps. subst d0. apply fset_adds; [apply isZ_int|]. intros x y [H|[]]. inversion H; subst. exists 1%Z. apply isZ_int. }
  pose proof (Z.sqrt_spec z ltac:(lia)) as [S1 S2]. set (s := Z.sqrt z) in *.
  assert (2 <= b)%Z as Hb2 by nia.
  destruct (Z_le_gt_dec a s) as [Le|Gt].
  - assert (z mod a = 0)%Z as M by (rewrite <- Hab, Z.mul_comm; apply Z.mod_mul; lia).
    refine (proj1 (frange_adds z Hz _ 2 d0 a _ F0 _ M)); lia.
  - assert (b <= s)%Z as Lb by nia.
    assert (z mod b = 0)%Z as M by (rewrite <- Hab; apply Z.mod_mul; lia).
    assert (z / b = a)%Z as Q by (rewrite <- Hab; apply Z.div_mul; lia).
    rewrite <- Q. refine (proj2 (frange_adds z Hz _ 2 d0 b _ F0 _ M)); lia.
Qed.

(* the table of a positive integer: exactly the divisor pairs *)
Theorem factor_table z : (0 < z)%Z ->
  (forall k w, flookup (factor (NInt z)) k = Some w -> exists a b, (0 < a)%Z /\ (a * b = z)%Z /\ isZ k a /\ isZ w b) /\
  (forall a b, (0 < a)%Z -> (a * b = z)%Z -> exists w, flookup (factor (NInt z)) (NInt a) = Some w /\ isZ w b).
Proof.
  intros Hz. split.
  - intros k w H. exact (flookup_div z _ k w (factor_div z Hz) H).
  - intros a b Ha Hab. destruct (factor_has_every_divisor z a b Hz Ha Hab) as (w & Hw). exists w. split; [exact Hw|].
    destruct (flookup_div z _ _ _ (factor_div z Hz) Hw) as (a' & b' & Ha' & Hab' & Ia & Ib). cbn [fst snd] in *.
    assert (a' = a) by (eapply isZ_inj; [exact Ia|apply isZ_int]). subst a'. assert (b' = b) by nia. now subst b'.
Qed.
