(* The usual way a rule is applied: to a copy cloned from the root (C13's heap-level clone_from_root), then the rewrite on the copy
   (C07's object-level plans). Composition: the copy ends up well-formed and the tree it was cloned from still stands as it was. *)
From Coq Require Import List NArith ZArith Bool Arith Lia.
From Mathy Require Import Num Expr Heap Rules Plans HeapPlan.
From MathyProofs Require Import ExprFacts HeapFacts PlansFacts HeapPlanFacts.
Import ListNotations.

(* an abstract heap tree (C13's atree) that has the classes, payloads and operand sides of an expression (the operand of a unary
   node on the right); node ids, unused payload fields and the child_on_left flag are free *)
Fixpoint shape_of (t:atree) (e:expr) {struct e} : Prop :=
  match e with
  | Const n => exists i x col, t = AN cls_const i (Some n) x col AE AE
  | Var y => exists i v col, t = AN cls_var i v (Some y) col AE AE
  | Un u c0 => exists i v x col r, t = AN (cls_un u) i v x col AE r /\ shape_of r c0
  | Bin k a b => exists i v x col l r, t = AN (cls_bin k) i v x col l r /\ shape_of l a /\ shape_of r b
  end.
Lemma shape_of_not_AE t e : shape_of t e -> t <> AE.
Proof. destruct e; cbn [shape_of]; intros H; repeat (destruct H as (? & H)); try destruct H as (H & _); subst; discriminate. Qed.

Lemma rep_irep : forall e t h a p, rep h (Some a) p t -> shape_of t e ->
  exists T, ierase T = e /\ iaddr T = a /\ irep h T p /\ iaddrs T = oaddrs h (Some a) t.
Proof.
  induction e as [n|y|u c0 IH|k e1 IH1 e2 IH2]; intros t h a p R S; cbn [shape_of] in S.
  - destruct S as (i & x & col & ->). cbn [rep] in R. destruct R as (a' & nd & [= <-] & Hn & H1 & H2 & H3 & H4 & H5 & H6 & Hl & Hr).
    exists (IConst a n). cbn [ierase iaddr irep iaddrs oaddrs]. rewrite Hn. repeat split; auto. exists nd. repeat split; auto.
  - destruct S as (i & v & col & ->). cbn [rep] in R. destruct R as (a' & nd & [= <-] & Hn & H1 & H2 & H3 & H4 & H5 & H6 & Hl & Hr).
    exists (IVar a y). cbn [ierase iaddr irep iaddrs oaddrs]. rewrite Hn. repeat split; auto. exists nd. repeat split; auto.
  - destruct S as (i & v & x & col & r & -> & S). pose proof (shape_of_not_AE _ _ S) as NE.
    cbn [rep] in R. destruct R as (a' & nd & [= <-] & Hn & H1 & H2 & H3 & H4 & H5 & H6 & Hl & Hr).
    destruct (h_r nd) as [ar|] eqn:Er; [|apply rep_none in Hr; contradiction].
    destruct (IH r h ar (Some a) Hr S) as (T & E1 & E2 & E3 & E4).
    exists (IUn a u T). cbn [ierase iaddr irep iaddrs oaddrs]. rewrite Hn, Er, E1, E4. cbn [app]. repeat split; auto.
    exists nd. rewrite E2. repeat split; auto.
  - destruct S as (i & v & x & col & l & r & -> & S1 & S2). pose proof (shape_of_not_AE _ _ S1) as NE1. pose proof (shape_of_not_AE _ _ S2) as NE2.
    cbn [rep] in R. destruct R as (a' & nd & [= <-] & Hn & H1 & H2 & H3 & H4 & H5 & H6 & Hl & Hr).
    destruct (h_l nd) as [al|] eqn:El; [|apply rep_none in Hl; contradiction].
    destruct (h_r nd) as [ar|] eqn:Er; [|apply rep_none in Hr; contradiction].
    destruct (IH1 l h al (Some a) Hl S1) as (T1 & A1 & A2 & A3 & A4).
    destruct (IH2 r h ar (Some a) Hr S2) as (T2 & B1 & B2 & B3 & B4).
    exists (IBin a k T1 T2). cbn [ierase iaddr irep iaddrs oaddrs]. rewrite Hn, El, Er, A1, B1, A4, B4. repeat split; auto.
    exists nd. rewrite A2, B2. repeat split; auto.
Qed.

(* clone_from_root, then any applicable rule at any node of the copy *)
Theorem clone_then_rewrite t e h root node r p z :
  rep h (Some root) None t -> NoDup (oaddrs h (Some root) t) -> In node (oaddrs h (Some root) t) ->
  (forall b n, In b (oaddrs h (Some root) t) -> b <> node -> nth_error h b = Some n -> dead (h_ct n)) ->
  shape_of t e -> can_apply e p r = true -> apply e p r = ROk z ->
  exists h1 k copy q pl,
    clone_from_root h node = HOk (h1, length h + k) /\ ierase copy = e /\ wf_tree h1 copy /\ iaddr copy = length h /\
    rule_plan e p r = Some (q, pl) /\
    ((q = [] -> top_ok pl = true) ->
     exists h2 T', run_plan copy q pl h1 = Some (h2, iaddr T') /\ wf_tree h2 T' /\ ierase T' = fst z /\
       rep h2 (Some root) None t /\                                     (* the tree the copy was cloned from: same objects, same links, same payloads *)
       (forall b, In b (iaddrs T') -> length h <= b)).                  (* the result shares no object with it *)
Proof.
  intros R ND Hin DD S C A.
  destruct (clone_from_root_full t h root node R ND Hin DD) as (h1 & k & X & _ & _ & Rc & Ro & L1 & OC & OO & _ & _).
  destruct (rep_irep e t h1 (length h) None Rc S) as (copy & E1 & E2 & E3 & E4).
  assert (NDc : NoDup (iaddrs copy)) by (rewrite E4, OC; apply seq_NoDup).
  destruct (plan_matches r e p z C A) as (q & pl & at_ & e' & RP & Hs & Er & Ez).
  exists h1, k, copy, q, pl. split; [exact X|]. split; [exact E1|]. split; [exact (conj E3 NDc)|]. split; [exact E2|]. split; [exact RP|]. intros TOP.
  rewrite <- E1 in Hs. destruct (subtree_isub _ _ _ Hs) as (ctx & Ec & Ee). subst at_.
  destruct (run_plan_wf copy h1 q ctx pl e' (conj E3 NDc) Ec (plans_linear _ _ _ _ _ RP) Er TOP) as (h2 & T' & X2 & W & E & F & I).
  exists h2, T'. split; [exact X2|]. split; [exact W|]. split; [rewrite Ez, E, E1; reflexivity|]. split.
  - apply (rep_frame t h1 h2); [|exact Ro]. intros b Hb. rewrite OO in Hb.
    assert (b < length h) by (eapply oaddrs_in_heap; eauto). apply F; [lia|]. rewrite E4, OC. intros Q. apply in_seq in Q. lia.
  - intros b Hb. destruct (I b Hb) as [Q|Q]; [|lia]. rewrite E4, OC in Q. apply in_seq in Q. lia.
Qed.
