(* ported from design/prototypes.md (A.16-1-Total.v); statements are about the normal form NF, transferred to the model by nf_eq *)
From Coq Require Import List NArith ZArith QArith Bool Lia.
From Mathy Require Import Tok Params TokSet Lexer Num Expr Parser Grammar.
From MathyProofs Require Import ParserNF.
Import ListNotations.
Import NF.

Open Scope nat_scope.

Definition nofuel {A} (r:res A) : Prop := r <> Raises OutOfFuel.
Lemma next_len s s' : next s = Ok s' -> length s = S (length s').
Proof. unfold next. destruct s as [|t r]; [discriminate|]. destruct (tkind_eqb (tk t) TEOF); [discriminate|]. destruct r; [discriminate|]. intros [= <-]. reflexivity. Qed.
Lemma next_nofuel s : nofuel (next s).
Proof. unfold next, nofuel. destruct s as [|t r]; [discriminate|]. destruct (tkind_eqb (tk t) TEOF); [discriminate|]. destruct r; discriminate. Qed.
Lemma next_exn s x : next s = Raises x -> x <> OutOfFuel.
Proof. unfold next. destruct s as [|t r]; [intros [= <-]; discriminate|]. destruct (tkind_eqb (tk t) TEOF); [intros [= <-]; discriminate|]. destruct r; [intros [= <-]; discriminate|discriminate]. Qed.
Lemma eat_exn s k x : eat s k = Raises x -> x <> OutOfFuel.
Proof. unfold eat. destruct (is s k); [apply next_exn|intros [= <-]; discriminate]. Qed.
Lemma coerce_exn v x : coerce v = Raises x -> x <> OutOfFuel.
Proof. unfold coerce. destruct (split_dot v) as [a [b|]]; [|discriminate]. destruct (existsb _ b); [intros [= <-]; discriminate|]. destruct a, b; try discriminate. intros [= <-]; discriminate. Qed.
Lemma raises_nf {A} x : x <> OutOfFuel -> nofuel (@Raises A x). Proof. intros H E. inversion E. contradiction. Qed.
Lemma eat_len s k s' : eat s k = Ok s' -> length s = S (length s'). Proof. unfold eat. destruct (is s k); [apply next_len|discriminate]. Qed.

(* fuel that suffices: 8 per remaining token plus the level of the function in the same-input call chain *)
Definition ok (lvl n:nat) (s:st) : Prop := 8 * length s + lvl <= n.

Definition Tot (n:nat) : Prop :=
  (forall s, ok 7 n s -> nofuel (parse_add n s) /\ forall e s', parse_add n s = Ok (e,s') -> length s' < length s) /\
  (forall e0 s, ok 7 n s -> nofuel (add_loop n e0 s) /\ forall e s', add_loop n e0 s = Ok (e,s') -> length s' <= length s) /\
  (forall s, ok 6 n s -> nofuel (parse_mult n s) /\ forall e s', parse_mult n s = Ok (e,s') -> length s' < length s) /\
  (forall e0 s, ok 7 n s -> nofuel (mult_loop n e0 s) /\ forall e s', mult_loop n e0 s = Ok (e,s') -> length s' <= length s) /\
  (forall s, ok 5 n s -> nofuel (parse_exponent n s) /\ forall e s', parse_exponent n s = Ok (e,s') -> length s' < length s) /\
  (forall s, ok 4 n s -> nofuel (parse_unary n s) /\ forall e s', parse_unary n s = Ok (e,s') -> length s' < length s) /\
  (forall b s, ok 3 n s -> nofuel (parse_prefix n b s) /\ forall e s', parse_prefix n b s = Ok (e,s') -> length s' < length s) /\
  (forall s, ok 2 n s -> nofuel (parse_factors n s) /\ forall e s', parse_factors n s = Ok (e,s') -> length s' < length s) /\
  (forall a s, ok 1 n s -> nofuel (factors_loop n a s) /\ forall fs s', factors_loop n a s = Ok (fs,s') -> length s' < length s).

Ltac nf := unfold nofuel; try discriminate.
Lemma nf_transfer {A B} (x:exn) : nofuel (@Raises A x) -> nofuel (@Raises B x).
Proof. intros H E. apply H. inversion E. reflexivity. Qed.

Theorem total : forall n, Tot n.
Proof.
  induction n as [|n (IHa & IHal & IHm & IHml & IHe & IHu & IHp & IHf & IHfl)].
  { unfold Tot, ok. repeat split; intros; try lia; try discriminate. }
  unfold Tot. repeat split; unfold ok in *.
  - (* parse_add: nofuel *) intros. cbn [parse_add]. destruct (negb (check s FIRST_UNARY)); nf.
    destruct (IHm s) as (N1 & L1); [unfold ok; lia|]. destruct (parse_mult n s) as [[e1 s1]|x] eqn:E; cbn [bind].
    + specialize (L1 _ _ eq_refl). apply (IHal e1 s1). unfold ok. lia.
    + exact (nf_transfer _ N1).
  - intros e s' Hr. cbn [parse_add] in Hr. destruct (negb (check s FIRST_UNARY)); [discriminate|].
    destruct (IHm s) as (N1 & L1); [unfold ok; lia|]. destruct (parse_mult n s) as [[e1 s1]|x] eqn:E; cbn [bind] in Hr; [|discriminate].
    specialize (L1 _ _ eq_refl). destruct (IHal e1 s1) as (_ & L2); [unfold ok; lia|]. specialize (L2 _ _ Hr). lia.
  - (* add_loop *) intros. cbn [add_loop]. destruct (is s TPlus || is s TMinus); nf.
    destruct (next s) as [s1|x] eqn:N; cbn [bind]; [|apply (raises_nf _ (next_exn _ _ N))].
    apply next_len in N. destruct (check s1 FIRST_UNARY); nf.
    destruct (IHm s1) as (N1 & L1); [unfold ok; lia|]. destruct (parse_mult n s1) as [[r s2]|x] eqn:E; cbn [bind].
    + specialize (L1 _ _ eq_refl). apply (IHal _ s2). unfold ok. lia.
    + exact (nf_transfer _ N1).
  - intros e s' Hr. cbn [add_loop] in Hr. destruct (is s TPlus || is s TMinus); [|inversion Hr; subst; lia].
    destruct (next s) as [s1|x] eqn:N; cbn [bind] in Hr; [|discriminate]. apply next_len in N.
    destruct (check s1 FIRST_UNARY); [|discriminate].
    destruct (IHm s1) as (N1 & L1); [unfold ok; lia|]. destruct (parse_mult n s1) as [[r s2]|x] eqn:E; cbn [bind] in Hr; [|discriminate].
    specialize (L1 _ _ eq_refl). destruct (IHal (Bin (if is s TPlus then KAdd else KSub) e0 r) s2) as (_ & L2); [unfold ok; lia|]. specialize (L2 _ _ Hr). lia.
  - (* parse_mult *) intros. cbn [parse_mult]. destruct (negb (check s FIRST_UNARY)); nf.
    destruct (IHe s) as (N1 & L1); [unfold ok; lia|]. destruct (parse_exponent n s) as [[e1 s1]|x] eqn:E; cbn [bind].
    + specialize (L1 _ _ eq_refl). apply (IHml e1 s1). unfold ok. lia.
    + exact (nf_transfer _ N1).
  - intros e s' Hr. cbn [parse_mult] in Hr. destruct (negb (check s FIRST_UNARY)); [discriminate|].
    destruct (IHe s) as (N1 & L1); [unfold ok; lia|]. destruct (parse_exponent n s) as [[e1 s1]|x] eqn:E; cbn [bind] in Hr; [|discriminate].
    specialize (L1 _ _ eq_refl). destruct (IHml e1 s1) as (_ & L2); [unfold ok; lia|]. specialize (L2 _ _ Hr). lia.
  - (* mult_loop *) intros. cbn [mult_loop]. destruct (is s TMul || is s TDiv); nf.
    destruct (next s) as [s1|x] eqn:N; cbn [bind]; [|apply (raises_nf _ (next_exn _ _ N))].
    apply next_len in N. destruct (check s1 FIRST_UNARY); nf.
    destruct (IHm s1) as (N1 & L1); [unfold ok; lia|]. destruct (parse_mult n s1) as [[r s2]|x] eqn:E; cbn [bind].
    + specialize (L1 _ _ eq_refl). apply (IHml _ s2). unfold ok. lia.
    + exact (nf_transfer _ N1).
  - intros e s' Hr. cbn [mult_loop] in Hr. destruct (is s TMul || is s TDiv); [|inversion Hr; subst; lia].
    destruct (next s) as [s1|x] eqn:N; cbn [bind] in Hr; [|discriminate]. apply next_len in N.
    destruct (check s1 FIRST_UNARY); [|discriminate].
    destruct (IHm s1) as (N1 & L1); [unfold ok; lia|]. destruct (parse_mult n s1) as [[r s2]|x] eqn:E; cbn [bind] in Hr; [|discriminate].
    specialize (L1 _ _ eq_refl). destruct (IHml (Bin (if is s TMul then KMul else KDiv) e0 r) s2) as (_ & L2); [unfold ok; lia|]. specialize (L2 _ _ Hr). lia.
  - (* parse_exponent *) intros. cbn [parse_exponent]. destruct (negb (check s FIRST_UNARY)); nf.
    destruct (IHu s) as (N1 & L1); [unfold ok; lia|]. destruct (parse_unary n s) as [[e1 s1]|x] eqn:E; cbn [bind]; [|exact (nf_transfer _ N1)].
    specialize (L1 _ _ eq_refl). destruct (is s1 TExp); nf.
    destruct (next s1) as [s2|x] eqn:N; cbn [bind]; [|apply (raises_nf _ (next_exn _ _ N))]. apply next_len in N.
    destruct (negb (check s2 FIRST_UNARY)); nf.
    destruct (IHu s2) as (N2 & L2); [unfold ok; lia|]. destruct (parse_unary n s2) as [[e2 s3]|x] eqn:E2; cbn [bind]; nf. exact (nf_transfer _ N2).
  - intros e s' Hr. cbn [parse_exponent] in Hr. destruct (negb (check s FIRST_UNARY)); [discriminate|].
    destruct (IHu s) as (N1 & L1); [unfold ok; lia|]. destruct (parse_unary n s) as [[e1 s1]|x] eqn:E; cbn [bind] in Hr; [|discriminate].
    specialize (L1 _ _ eq_refl). destruct (is s1 TExp); [|inversion Hr; subst; lia].
    destruct (next s1) as [s2|x] eqn:N; cbn [bind] in Hr; [|discriminate]. apply next_len in N.
    destruct (negb (check s2 FIRST_UNARY)); [discriminate|].
    destruct (IHu s2) as (N2 & L2); [unfold ok; lia|]. destruct (parse_unary n s2) as [[e2 s3]|x] eqn:E2; cbn [bind] in Hr; [|discriminate].
    specialize (L2 _ _ eq_refl). inversion Hr; subst. lia.
  - (* parse_unary *) intros. cbn [parse_unary]. destruct (is s TMinus).
    + destruct (next s) as [s1|x] eqn:N; cbn [bind]; [|apply (raises_nf _ (next_exn _ _ N))]. apply next_len in N.
      apply (IHp true s1). unfold ok. lia.
    + apply (IHp false s). unfold ok. lia.
  - intros e s' Hr. cbn [parse_unary] in Hr. destruct (is s TMinus).
    + destruct (next s) as [s1|x] eqn:N; cbn [bind] in Hr; [|discriminate]. apply next_len in N.
      destruct (IHp true s1) as (_ & L); [unfold ok; lia|]. specialize (L _ _ Hr). lia.
    + destruct (IHp false s) as (_ & L); [unfold ok; lia|]. exact (L _ _ Hr).
  - (* parse_prefix *) intros. cbn [parse_prefix]. destruct (negb (check s FIRST_FACTOR_PREFIX)); nf.
    destruct (is s TConst).
    + destruct (coerce (tval s)) as [cv|cx] eqn:CO; cbn [bind]; [|apply (raises_nf _ (coerce_exn _ _ CO))].
      destruct (next s) as [s1|x] eqn:N; cbn [bind]; [|apply (raises_nf _ (next_exn _ _ N))]. apply next_len in N.
      destruct (check s1 FIRST_FACTOR); nf. destruct (is s1 TFact).
      * destruct (next s1) as [s2|x] eqn:N2; cbn [bind]; nf. apply (raises_nf _ (next_exn _ _ N2)).
      * destruct (IHf s1) as (N1 & L1); [unfold ok; lia|]. destruct (parse_factors n s1) as [[f s2]|x] eqn:E; cbn [bind]; nf. exact (nf_transfer _ N1).
    + destruct (IHf s) as (N1 & L1); [unfold ok; lia|]. destruct (parse_factors n s) as [[f s2]|x] eqn:E; cbn [bind]; nf. exact (nf_transfer _ N1).
  - intros e s' Hr. cbn [parse_prefix] in Hr. destruct (negb (check s FIRST_FACTOR_PREFIX)); [discriminate|].
    destruct (is s TConst).
    + destruct (coerce (tval s)); cbn [bind] in Hr; [|discriminate].
      destruct (next s) as [s1|x] eqn:N; cbn [bind] in Hr; [|discriminate]. apply next_len in N.
      destruct (check s1 FIRST_FACTOR); [|inversion Hr; subst; lia]. destruct (is s1 TFact).
      * destruct (next s1) as [s2|x] eqn:N2; cbn [bind] in Hr; [|discriminate]. apply next_len in N2. inversion Hr; subst. lia.
      * destruct (IHf s1) as (N1 & L1); [unfold ok; lia|]. destruct (parse_factors n s1) as [[f s2]|x] eqn:E; cbn [bind] in Hr; [|discriminate].
        specialize (L1 _ _ eq_refl). inversion Hr; subst. lia.
    + destruct (IHf s) as (N1 & L1); [unfold ok; lia|]. destruct (parse_factors n s) as [[f s2]|x] eqn:E; cbn [bind] in Hr; [|discriminate].
      specialize (L1 _ _ eq_refl). inversion Hr; subst. lia.
  - (* parse_factors *) intros. cbn [parse_factors].
    destruct (IHfl [] s) as (N1 & L1); [unfold ok; lia|]. destruct (factors_loop n [] s) as [[fs s1]|x] eqn:E; cbn [bind]; [|exact (nf_transfer _ N1)].
    specialize (L1 _ _ eq_refl). destruct (is s1 TExp).
    + destruct (next s1) as [s2|x] eqn:N; cbn [bind]; [|apply (raises_nf _ (next_exn _ _ N))]. apply next_len in N.
      destruct (negb (check s2 FIRST_UNARY)); nf.
      destruct (IHu s2) as (N2 & L2); [unfold ok; lia|]. destruct (parse_unary n s2) as [[r s3]|x] eqn:E2; cbn [bind]; [|exact (nf_transfer _ N2)].
      destruct (prod (with_pow fs r)); nf.
    + destruct (prod fs); nf.
  - intros e s' Hr. cbn [parse_factors] in Hr.
    destruct (IHfl [] s) as (N1 & L1); [unfold ok; lia|]. destruct (factors_loop n [] s) as [[fs s1]|x] eqn:E; cbn [bind] in Hr; [|discriminate].
    specialize (L1 _ _ eq_refl). destruct (is s1 TExp).
    + destruct (next s1) as [s2|x] eqn:N; cbn [bind] in Hr; [|discriminate]. apply next_len in N.
      destruct (negb (check s2 FIRST_UNARY)); [discriminate|].
      destruct (IHu s2) as (N2 & L2); [unfold ok; lia|]. destruct (parse_unary n s2) as [[r s3]|x] eqn:E2; cbn [bind] in Hr; [|discriminate].
      specialize (L2 _ _ eq_refl). destruct (prod (with_pow fs r)); [|discriminate]. inversion Hr; subst. lia.
    + destruct (prod fs); [|discriminate]. inversion Hr; subst. lia.
  - (* factors_loop: nofuel *) intros. cbn [factors_loop].
    assert (forall f s1, (if is s TVar then do s' <- next s; Ok (Var (varname s), s')
       else if is s TFunc then do s0 <- next s; do s2 <- eat s0 TOpen; do (e, s3) <- parse_add n s2; do s4 <- eat s3 TClose; Ok (Un USgn e, s4)
       else if is s TOpen then do s0 <- next s; do (e, s2) <- parse_add n s0; do s3 <- eat s2 TClose; Ok (e, s3)
       else Raises UnexpectedBehavior) = Ok (f, s1) -> length s1 < length s) as LA.
    { intros f s1 HA. destruct (is s TVar).
      - destruct (next s) as [sa|] eqn:N; cbn [bind] in HA; [|discriminate]. apply next_len in N. inversion HA; subst. lia.
      - destruct (is s TFunc).
        + destruct (next s) as [sa|] eqn:N; cbn [bind] in HA; [|discriminate]. apply next_len in N.
          destruct (eat sa TOpen) as [sb|] eqn:N2; cbn [bind] in HA; [|discriminate]. apply eat_len in N2.
          destruct (IHa sb) as (_ & L1); [unfold ok; lia|]. destruct (parse_add n sb) as [[e sc]|] eqn:E; cbn [bind] in HA; [|discriminate]. specialize (L1 _ _ eq_refl).
          destruct (eat sc TClose) as [sd|] eqn:N3; cbn [bind] in HA; [|discriminate]. apply eat_len in N3. inversion HA; subst. lia.
        + destruct (is s TOpen); [|discriminate]. destruct (next s) as [sa|] eqn:N; cbn [bind] in HA; [|discriminate]. apply next_len in N.
          destruct (IHa sa) as (_ & L1); [unfold ok; lia|]. destruct (parse_add n sa) as [[e sc]|] eqn:E; cbn [bind] in HA; [|discriminate]. specialize (L1 _ _ eq_refl).
          destruct (eat sc TClose) as [sd|] eqn:N3; cbn [bind] in HA; [|discriminate]. apply eat_len in N3. inversion HA; subst. lia. }
    assert (nofuel (if is s TVar then do s' <- next s; Ok (Var (varname s), s')
       else if is s TFunc then do s0 <- next s; do s2 <- eat s0 TOpen; do (e, s3) <- parse_add n s2; do s4 <- eat s3 TClose; Ok (Un USgn e, s4)
       else if is s TOpen then do s0 <- next s; do (e, s2) <- parse_add n s0; do s3 <- eat s2 TClose; Ok (e, s3)
       else Raises UnexpectedBehavior)) as NA.
    { assert (forall x k, nofuel (eat x k)) as EN by (intros x k; unfold eat; destruct (is x k); [apply next_nofuel|nf]).
      destruct (is s TVar).
      - destruct (next s) as [sa|x] eqn:N; cbn [bind]; nf. apply (raises_nf _ (next_exn _ _ N)).
      - destruct (is s TFunc).
        + destruct (next s) as [sa|x] eqn:N; cbn [bind]; [|apply (raises_nf _ (next_exn _ _ N))]. apply next_len in N.
          destruct (eat sa TOpen) as [sb|x] eqn:N2; cbn [bind]; [|apply (raises_nf _ (eat_exn _ _ _ N2))]. apply eat_len in N2.
          destruct (IHa sb) as (N1 & _); [unfold ok; lia|]. destruct (parse_add n sb) as [[e sc]|x] eqn:E; cbn [bind]; [|exact (nf_transfer _ N1)].
          destruct (eat sc TClose) as [sd|x] eqn:N3; cbn [bind]; nf. apply (raises_nf _ (eat_exn _ _ _ N3)).
        + destruct (is s TOpen); nf. destruct (next s) as [sa|x] eqn:N; cbn [bind]; [|apply (raises_nf _ (next_exn _ _ N))]. apply next_len in N.
          destruct (IHa sa) as (N1 & _); [unfold ok; lia|]. destruct (parse_add n sa) as [[e sc]|x] eqn:E; cbn [bind]; [|exact (nf_transfer _ N1)].
          destruct (eat sc TClose) as [sd|x] eqn:N3; cbn [bind]; nf. apply (raises_nf _ (eat_exn _ _ _ N3)). }
    match goal with |- nofuel (bind ?r _) => destruct r as [[f s1]|x] eqn:AT; cbn [bind]; [|exact (nf_transfer _ NA)] end.
    specialize (LA _ _ eq_refl). destruct (check s1 FIRST_FACTOR); nf. apply (IHfl (a ++ [f]) s1). unfold ok. lia.
  - intros fs s' Hr. cbn [factors_loop] in Hr.
    match type of Hr with bind ?r _ = _ => destruct r as [[f s1]|x] eqn:AT; cbn [bind] in Hr; [|discriminate] end.
    assert (length s1 < length s) as LA.
    { destruct (is s TVar).
      - destruct (next s) as [sa|] eqn:N; cbn [bind] in AT; [|discriminate]. apply next_len in N. inversion AT; subst. lia.
      - destruct (is s TFunc).
        + destruct (next s) as [sa|] eqn:N; cbn [bind] in AT; [|discriminate]. apply next_len in N.
          destruct (eat sa TOpen) as [sb|] eqn:N2; cbn [bind] in AT; [|discriminate]. apply eat_len in N2.
          destruct (IHa sb) as (_ & L1); [unfold ok; lia|]. destruct (parse_add n sb) as [[e sc]|] eqn:E; cbn [bind] in AT; [|discriminate]. specialize (L1 _ _ eq_refl).
          destruct (eat sc TClose) as [sd|] eqn:N3; cbn [bind] in AT; [|discriminate]. apply eat_len in N3. inversion AT; subst. lia.
        + destruct (is s TOpen); [|discriminate]. destruct (next s) as [sa|] eqn:N; cbn [bind] in AT; [|discriminate]. apply next_len in N.
          destruct (IHa sa) as (_ & L1); [unfold ok; lia|]. destruct (parse_add n sa) as [[e sc]|] eqn:E; cbn [bind] in AT; [|discriminate]. specialize (L1 _ _ eq_refl).
          destruct (eat sc TClose) as [sd|] eqn:N3; cbn [bind] in AT; [|discriminate]. apply eat_len in N3. inversion AT; subst. lia. }
    destruct (check s1 FIRST_FACTOR).
    + destruct (IHfl (a ++ [f]) s1) as (_ & L2); [unfold ok; lia|]. specialize (L2 _ _ Hr). lia.
    + inversion Hr; subst. lia.
Qed.
Print Assumptions total.
