(* Top-level results about the parser model: fuel independence (errors included), absence of
   internal errors under the "token list ends in one EOF" invariant, and soundness / completeness /
   totality of parse_tokens and parse with respect to the grammar. *)
From Coq Require Import List NArith ZArith QArith Bool Lia.
From Mathy Require Import Tok Params TokSet Lexer Num Expr Parser Grammar.
From MathyProofs Require Import ParamsFacts LexerFacts ParserNF ParserSound ParserComplete ParserOperands ParserTotal.
Import ListNotations.
Import NF.

(* ---------- fuel independence, for every outcome except OutOfFuel ---------- *)
Definition le_res {A} (r r':res A) : Prop := r = Raises OutOfFuel \/ r = r'.
Lemma le_refl {A} (r:res A) : le_res r r. Proof. now right. Qed.
Lemma le_fuel {A} (r:res A) : le_res (Raises OutOfFuel) r. Proof. now left. Qed.
Lemma le_bind {A B} (a a':res A) (k k':A -> res B) :
  le_res a a' -> (forall x, le_res (k x) (k' x)) -> le_res (bind a k) (bind a' k').
Proof. intros [->| ->] H; [now left|]. destruct a'; cbn; [apply H|now right]. Qed.

Definition LE (n m:nat) : Prop :=
  (forall s, le_res (parse_add n s) (parse_add m s)) /\
  (forall e s, le_res (add_loop n e s) (add_loop m e s)) /\
  (forall s, le_res (parse_mult n s) (parse_mult m s)) /\
  (forall e s, le_res (mult_loop n e s) (mult_loop m e s)) /\
  (forall s, le_res (parse_exponent n s) (parse_exponent m s)) /\
  (forall s, le_res (parse_unary n s) (parse_unary m s)) /\
  (forall b s, le_res (parse_prefix n b s) (parse_prefix m b s)) /\
  (forall s, le_res (parse_factors n s) (parse_factors m s)) /\
  (forall a s, le_res (factors_loop n a s) (factors_loop m a s)).

Ltac le_step :=
  first
  [ apply le_refl
  | apply le_bind; [ | intros ]
  | match goal with |- le_res (if ?c then _ else _) (if ?c then _ else _) => destruct c end
  | match goal with |- le_res (match ?x with Some _ => _ | None => _ end) (match ?x with Some _ => _ | None => _ end) => destruct x end
  | match goal with |- le_res (let '(a,b) := ?p in _) (let '(c,d) := ?p in _) => destruct p end
  | match goal with H : forall s, le_res (?f ?n s) (?f ?m s) |- le_res (?f ?n _) (?f ?m _) => apply H end
  | match goal with H : forall a s, le_res (?f ?n a s) (?f ?m a s) |- le_res (?f ?n _ _) (?f ?m _ _) => apply H end ].

Theorem le_all : forall n m, n <= m -> LE n m.
Proof.
  induction n as [|n IH]; intros m Hm.
  - repeat split; intros; apply le_fuel.
  - destruct m as [|m]; [lia|]. destruct (IH m ltac:(lia)) as (IHa & IHal & IHm & IHml & IHe & IHu & IHp & IHf & IHfl).
    repeat split; intros.
    + cbn [parse_add]. repeat le_step.
    + cbn [add_loop]. repeat le_step.
    + cbn [parse_mult]. repeat le_step.
    + cbn [mult_loop]. repeat le_step.
    + cbn [parse_exponent]. repeat le_step.
    + cbn [parse_unary]. repeat le_step.
    + cbn [parse_prefix]. repeat le_step.
    + cbn [parse_factors]. repeat le_step.
    + cbn [factors_loop]. repeat le_step.
Qed.

Lemma le_equal_loop n n' : n <= n' -> forall m m', m <= m' -> forall e s, le_res (equal_loop n m e s) (equal_loop n' m' e s).
Proof.
  intros Hn. destruct (le_all n n' Hn) as (IHa & _).
  induction m as [|m IH]; intros m' Hm e s; [apply le_fuel|].
  destruct m' as [|m']; [lia|]. cbn [equal_loop]. repeat le_step. apply IH. lia.
Qed.

(* ---------- the invariant "ends in exactly one EOF": no internal errors ---------- *)
Definition internal (x:exn) : bool := match x with IndexError | KeyError => true | _ => false end.
Definition good {A} (r:res (A * st)) : Prop :=
  match r with Ok (_, s') => eof_ok s' | Raises x => internal x = false end.
Definition good0 (r:res st) : Prop :=
  match r with Ok s' => eof_ok s' | Raises x => internal x = false end.

Lemma eof_ok_cons s : eof_ok s -> exists t r, s = t :: r.
Proof. intros (b & e & -> & _). destruct b; simpl; eauto. Qed.
Lemma good_next s : eof_ok s -> good0 (next s).
Proof.
  intros H. destruct (eof_ok_cons _ H) as (t & r & ->). unfold next.
  destruct (tkind_eqb (tk t) TEOF) eqn:E; [reflexivity|].
  assert (tk t <> TEOF) as Ht by (intros Q; rewrite Q in E; discriminate).
  destruct (next_ok _ _ H Ht) as (N & Hr). unfold next in N. rewrite E in N. rewrite N. exact Hr.
Qed.
Lemma good_eat s k : eof_ok s -> good0 (eat s k).
Proof. intros H. unfold eat. destruct (is s k); [now apply good_next|reflexivity]. Qed.
Lemma good_bind0 {B} (a:res st) (k:st -> res (B * st)) :
  good0 a -> (forall s', eof_ok s' -> good (k s')) -> good (bind a k).
Proof. destruct a as [s'|x]; cbn; auto. Qed.
Lemma good_bind {A B} (a:res (A * st)) (k:A * st -> res (B * st)) :
  good a -> (forall x s', eof_ok s' -> good (k (x, s'))) -> good (bind a k).
Proof. destruct a as [[x s']|x]; cbn; auto. Qed.
Lemma good_bind_num {B} (a:res num) (k:num -> res (B * st)) :
  (forall x, a = Raises x -> internal x = false) -> (forall v, good (k v)) -> good (bind a k).
Proof. destruct a as [v|x]; cbn; auto. Qed.
Lemma coerce_not_internal v x : coerce v = Raises x -> internal x = false.
Proof.
  unfold coerce. destruct (split_dot v) as [a [b|]]; [|discriminate].
  destruct (existsb _ b); [intros [= <-]; reflexivity|]. destruct a, b; try discriminate. intros [= <-]; reflexivity.
Qed.

Definition Good (n:nat) : Prop :=
  (forall s, eof_ok s -> good (parse_add n s)) /\
  (forall e s, eof_ok s -> good (add_loop n e s)) /\
  (forall s, eof_ok s -> good (parse_mult n s)) /\
  (forall e s, eof_ok s -> good (mult_loop n e s)) /\
  (forall s, eof_ok s -> good (parse_exponent n s)) /\
  (forall s, eof_ok s -> good (parse_unary n s)) /\
  (forall b s, eof_ok s -> good (parse_prefix n b s)) /\
  (forall s, eof_ok s -> good (parse_factors n s)) /\
  (forall a s, eof_ok s -> good (factors_loop n a s)).

Ltac good_step :=
  first
  [ assumption
  | reflexivity
  | match goal with |- good (bind (next _) _) => apply good_bind0; [apply good_next; assumption | intros ] end
  | match goal with |- good (bind (eat _ _) _) => apply good_bind0; [apply good_eat; assumption | intros ] end
  | match goal with |- good (bind (coerce _) _) => apply good_bind_num; [apply coerce_not_internal | intros ] end
  | match goal with |- good (bind _ _) => apply good_bind; [ | intros ] end
  | match goal with |- good (if ?c then _ else _) => destruct c end
  | match goal with |- good (match ?x with Some _ => _ | None => _ end) => destruct x end
  | match goal with H : forall s, eof_ok s -> good (?f ?n s) |- good (?f ?n _) => apply H end
  | match goal with H : forall a s, eof_ok s -> good (?f ?n a s) |- good (?f ?n _ _) => apply H end
  | match goal with |- good (Ok (_, _)) => cbn [good] end
  | match goal with |- good (Raises _) => cbn [good] end ].

Theorem good_all : forall n, Good n.
Proof.
  induction n as [|n (IHa & IHal & IHm & IHml & IHe & IHu & IHp & IHf & IHfl)]; [repeat split; intros; reflexivity|].
  repeat split; intros.
  - cbn [parse_add]. repeat good_step.
  - cbn [add_loop]. repeat good_step.
  - cbn [parse_mult]. repeat good_step.
  - cbn [mult_loop]. repeat good_step.
  - cbn [parse_exponent]. repeat good_step.
  - cbn [parse_unary]. repeat good_step.
  - cbn [parse_prefix]. repeat good_step.
  - cbn [parse_factors]. repeat good_step.
  - cbn [factors_loop].
    apply (good_bind (A:=expr)).
    + repeat good_step.
    + intros. repeat good_step.
Qed.

Lemma good_equal_loop n : forall m e s, eof_ok s -> good (equal_loop n m e s).
Proof.
  destruct (good_all n) as (IHa & _).
  induction m as [|m IH]; intros e s Hs; [reflexivity|]. cbn [equal_loop]. repeat good_step.
Qed.

(* ---------- equal_loop: soundness, completeness, fuel ---------- *)
Lemma equal_loop_sound n : forall m e0 s e s', equal_loop n m e0 s = Ok (e, s') -> G_eql e0 s e s'.
Proof.
  induction m as [|m IH]; intros e0 s e s' H; [discriminate|]. cbn [equal_loop] in H.
  destruct (is s TEqual) eqn:Q.
  - destruct (next s) as [s1|] eqn:N; cbn [bind] in H; [|discriminate].
    destruct (check s1 first_unary) eqn:C; [|discriminate].
    destruct (parse_add n s1) as [[r s2]|] eqn:E; cbn [bind] in H; [|discriminate].
    apply next_cons in N. destruct N as (t & -> & _ & _). apply is_hk in Q. destruct Q as (_ & t' & r' & [= <- <-] & Ht).
    eapply GQ_eq; eauto. eapply (proj1 (sound n)); eauto.
  - inversion H; subst. apply GQ_stop. destruct (is_false_hk _ _ Q) as [? | ->]; auto. discriminate.
Qed.

Lemma equal_loop_complete : forall e0 s e s', G_eql e0 s e s' -> eof_ok s -> eof_ok s' /\ exists n m, equal_loop n m e0 s = Ok (e, s').
Proof.
  induction 1 as [e s Hh | e t s1 r s2 e' s' Ht Hf Ha Hl IH]; intros Hs.
  - split; auto. exists 0, 1. cbn. rewrite (is_ne _ _ Hh). reflexivity.
  - assert (tk t <> TEOF) as Hne by (rewrite Ht; discriminate).
    destruct (next_ok _ _ Hs Hne) as (N & Hs1).
    destruct (proj1 complete _ _ _ Ha Hs1) as (Hs2 & n1 & P1).
    destruct (IH Hs2) as (Hs' & n2 & m2 & P2). split; auto.
    exists (max n1 n2), (S m2). cbn [equal_loop]. rewrite (is_cons _ _ _ Ht). rewrite N. cbn [bind].
    unfold in_first_unary in Hf. rewrite Hf.
    rewrite (ma _ _ _ (max n1 n2) P1) by lia. cbn [bind].
    destruct (le_equal_loop n2 (max n1 n2) ltac:(lia) m2 m2 ltac:(lia) (Bin KEq e r) s2) as [F|F]; rewrite F in P2; [discriminate|exact P2].
Qed.

Lemma equal_loop_total n : forall m e s, length s < m -> ok 7 n s -> nofuel (equal_loop n m e s).
Proof.
  destruct (total n) as (Ta & _).
  induction m as [|m IH]; intros e s Hm Hok; [lia|]. cbn [equal_loop].
  destruct (is s TEqual); [|discriminate].
  destruct (next s) as [s1|x] eqn:N; cbn [bind]; [|apply raises_nf; eapply next_exn; eauto].
  apply next_len in N.
  destruct (check s1 first_unary); [|discriminate].
  assert (ok 7 n s1) as Hok1 by (unfold ok in *; lia).
  destruct (Ta s1 Hok1) as (NF1 & L1).
  destruct (parse_add n s1) as [[r s2]|x] eqn:E; cbn [bind].
  - specialize (L1 _ _ eq_refl). apply IH; [lia|unfold ok in *; lia].
  - intros Q. apply NF1. inversion Q. reflexivity.
Qed.

(* ---------- parse_tokens (theories/Parser.v) against the grammar ---------- *)
Lemma parse_tokens_nf ts : parse_tokens ts =
  match ts with
  | [] => Raises IndexError
  | _ => if is ts TEOF then Raises InvalidExpression else
         if negb (check ts first_unary) then Raises InvalidSyntax else
         do (e, s) <- parse_add (parse_fuel ts) ts;
         do (e, s) <- equal_loop (parse_fuel ts) (parse_fuel ts) e s;
         if is s TEOF then Ok e else Raises TrailingTokens end.
Proof.
  unfold parse_tokens. destruct ts as [|t r]; [reflexivity|].
  rewrite first_add_eq, check_first_unary, (proj1 (nf_eq _)).
  destruct (is (t::r) TEOF); [reflexivity|]. destruct (negb (check (t::r) first_unary)); [reflexivity|].
  destruct (parse_add (parse_fuel (t::r)) (t::r)) as [[e s]|]; cbn [bind]; [|reflexivity].
  rewrite nf_equal_loop. reflexivity.
Qed.

Theorem parse_tokens_sound ts e : parse_tokens ts = Ok e -> Derives ts e.
Proof.
  rewrite parse_tokens_nf. destruct ts as [|t r]; [discriminate|].
  destruct (is (t::r) TEOF); [discriminate|].
  destruct (check (t::r) first_unary) eqn:C; cbn [negb]; [|discriminate].
  destruct (parse_add _ _) as [[e1 s1]|] eqn:PA; cbn [bind]; [|discriminate].
  destruct (equal_loop _ _ e1 s1) as [[e2 s2]|] eqn:EL; cbn [bind]; [|discriminate].
  destruct (is s2 TEOF) eqn:Q; [|discriminate]. intros [= <-].
  exists e1, s1, s2. split; [exact C|]. split; [eapply (proj1 (sound _)); eauto|]. split; [eapply equal_loop_sound; eauto|].
  apply is_hk in Q. destruct Q as (Q & t' & r' & -> & _). split; [exact Q|discriminate].
Qed.

Lemma parse_fuel_ok ts lvl : lvl <= 20 -> ok lvl (parse_fuel ts) ts.
Proof. unfold ok, parse_fuel. lia. Qed.

Theorem parse_tokens_total ts : parse_tokens ts <> Raises OutOfFuel.
Proof.
  rewrite parse_tokens_nf. destruct ts as [|t r]; [discriminate|].
  destruct (is (t::r) TEOF); [discriminate|]. destruct (negb (check (t::r) first_unary)); [discriminate|].
  set (n := parse_fuel (t::r)). set (ts := t::r) in *.
  destruct (total n) as (Ta & _). destruct (Ta ts (parse_fuel_ok ts 7 ltac:(lia))) as (NF1 & L1).
  destruct (parse_add n ts) as [[e1 s1]|x] eqn:PA; cbn [bind].
  - specialize (L1 _ _ eq_refl).
    assert (nofuel (equal_loop n n e1 s1)) as NF2.
    { apply equal_loop_total; unfold ok, n, parse_fuel in *; lia. }
    destruct (equal_loop n n e1 s1) as [[e2 s2]|y]; cbn [bind].
    + destruct (is s2 TEOF); discriminate.
    + intros Q. apply NF2. inversion Q. reflexivity.
  - intros Q. apply NF1. inversion Q. reflexivity.
Qed.

Theorem parse_tokens_complete ts e : eof_ok ts -> Derives ts e -> parse_tokens ts = Ok e.
Proof.
  intros Hts (e1 & s1 & s' & Hf & Ha & Hq & Hh & Hne).
  destruct (proj1 complete _ _ _ Ha Hts) as (Hs1 & n1 & P1).
  destruct (equal_loop_complete _ _ _ _ Hq Hs1) as (Hs' & n2 & m2 & P2).
  pose proof (parse_tokens_total ts) as NFt. rewrite parse_tokens_nf in *.
  destruct ts as [|t r]; [destruct Hts as (b & x & Q & _); destruct b; discriminate|].
  unfold in_first_unary in Hf.
  assert (is (t::r) TEOF = false) as NE.
  { unfold is, check in *. simpl in *. rewrite orb_false_r. destruct (tk t); simpl in *; try reflexivity; discriminate. }
  rewrite NE, Hf in *. cbn [negb] in *.
  set (N := parse_fuel (t::r)) in *.
  (* parse_add at fuel N: not OutOfFuel, hence equal to the result at the larger fuel *)
  destruct (proj1 (le_all N (max N n1) ltac:(lia)) (t::r)) as [F|F].
  { rewrite F in NFt. cbn in NFt. congruence. }
  rewrite (ma _ _ _ (max N n1) P1) in F by lia. rewrite F in *. cbn [bind] in *.
  destruct (le_equal_loop N (max N n2) ltac:(lia) N (max N m2) ltac:(lia) e1 s1) as [G|G].
  { rewrite G in NFt. cbn in NFt. congruence. }
  destruct (le_equal_loop n2 (max N n2) ltac:(lia) m2 (max N m2) ltac:(lia) e1 s1) as [G2|G2]; [rewrite G2 in P2; discriminate|].
  rewrite G, <- G2, P2. cbn [bind].
  assert (is s' TEOF = true) as Q.
  { destruct s' as [|t' r']; [contradiction|]. unfold is, check. simpl in *. rewrite Hh. reflexivity. }
  rewrite Q. reflexivity.
Qed.

(* closed error contract at token level *)
Theorem parse_tokens_errors ts x : eof_ok ts -> parse_tokens ts = Raises x ->
  x = InvalidExpression \/ x = InvalidSyntax \/ x = OutOfTokens \/ x = UnexpectedBehavior \/ x = TrailingTokens \/ x = ValueError.
Proof.
  intros Hts H.
  assert (internal x = false /\ x <> OutOfFuel) as (HI & HF).
  { split; [|intros ->; exact (parse_tokens_total ts H)].
    rewrite parse_tokens_nf in H. destruct ts as [|t r]; [destruct Hts as (b & y & Q & _); destruct b; discriminate|].
    destruct (is (t::r) TEOF); [inversion H; reflexivity|]. destruct (negb (check (t::r) first_unary)); [inversion H; reflexivity|].
    pose proof (proj1 (good_all (parse_fuel (t::r))) _ Hts) as G1.
    destruct (parse_add _ _) as [[e1 s1]|y]; cbn [bind good] in *; [|inversion H; subst; exact G1].
    pose proof (good_equal_loop (parse_fuel (t::r)) (parse_fuel (t::r)) e1 s1 G1) as G2.
    destruct (equal_loop _ _ e1 s1) as [[e2 s2]|y]; cbn [bind good] in *; [|inversion H; subst; exact G2].
    destruct (is s2 TEOF); inversion H. reflexivity. }
  destruct x; simpl in HI; try discriminate; auto 10. contradiction.
Qed.

(* ---------- strings ---------- *)
Lemma tokenize_eof_ok ex s ts : tokenize ex s = LOk ts -> eof_ok ts.
Proof.
  intros H. apply lex_sound in H. apply spec_shape in H. destruct H as (body & -> & F).
  exists body, EOFtok. split; auto. split; auto. eapply Forall_impl; [|exact F]. intros a (_ & Ha & _). exact Ha.
Qed.

(* ---------- operands in order, whole input ---------- *)
Lemma eql_operands : forall e0 s e s', G_eql e0 s e s' -> exists l, Consumes s s' l /\ leaves e = leaves e0 ++ l.
Proof.
  induction 1 as [e s Hh | e t s1 r s2 e' s' Ht Hf Ha Hl IH].
  - exists []. split; [apply consumes_refl|now rewrite app_nil_r].
  - destruct IH as (l & C2 & L). exists (leaves r ++ l). split.
    + replace (leaves r ++ l) with ([] ++ leaves r ++ l) by reflexivity.
      eapply consumes_trans; [apply consumes_skip; rewrite Ht; discriminate|].
      eapply consumes_trans; [apply (proj1 operands_in_order); eauto|exact C2].
    + rewrite L. cbn [leaves]. now rewrite app_assoc.
Qed.

Theorem derives_operands ts e : eof_ok ts -> Derives ts e -> opds ts = leaves e.
Proof.
  intros Hts (e1 & s1 & s' & Hf & Ha & Hq & Hh & Hne).
  pose proof (proj1 operands_in_order _ _ _ Ha) as C1.
  destruct (eql_operands _ _ _ _ Hq) as (l & C2 & L).
  pose proof (consumes_trans _ _ _ _ _ C1 C2) as (pre & E & O).
  destruct (proj1 complete _ _ _ Ha Hts) as (Hs1 & _).
  destruct (equal_loop_complete _ _ _ _ Hq Hs1) as (Hs' & _).
  (* s' ends in one EOF and starts with EOF: it is exactly [EOF] *)
  destruct Hs' as (b & x & Es & Hx & Fb).
  assert (b = []) as ->.
  { destruct b as [|t0 b0]; auto. subst s'. simpl in Hh. inversion Fb; subst. contradiction. }
  simpl in Es. subst s'. rewrite E, opds_app, O, L.
  assert (opds [x] = []) as -> by (unfold opds; simpl; unfold tok_opd; rewrite Hx; reflexivity).
  now rewrite app_nil_r.
Qed.
