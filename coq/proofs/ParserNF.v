(* Normal form of the parser used by the proofs: the same ten functions written with the literal
   FIRST sets of the grammar and `is`-tests instead of the mask-derived sets of theories/Parser.v,
   and the theorem that the two coincide (so every result about NF is a result about the model).
   The coincidence rests on the generated tables: FIRST/IS masks of Params.v. *)
From Coq Require Import List NArith ZArith QArith Bool Lia.
From Mathy Require Import Tok Params TokSet Lexer Num Expr Parser Grammar.
Import ListNotations.

Module NF.
Notation FIRST_FACTOR := first_factor.
Notation FIRST_FACTOR_PREFIX := first_factor_prefix.
Notation FIRST_UNARY := first_unary.
Fixpoint parse_add (n:nat) (s:st) : res (expr * st) :=
  match n with O => Raises OutOfFuel | S n =>
    if negb (check s FIRST_UNARY) then Raises InvalidSyntax else
    do (e, s) <- parse_mult n s; add_loop n e s end
with add_loop (n:nat) (e:expr) (s:st) : res (expr * st) :=
  match n with O => Raises OutOfFuel | S n =>
    if is s TPlus || is s TMinus then
      let plus := is s TPlus in
      do s <- next s;
      if check s FIRST_UNARY then do (r, s) <- parse_mult n s; add_loop n (Bin (if plus then KAdd else KSub) e r) s
      else Raises UnexpectedBehavior
    else Ok (e, s) end
with parse_mult (n:nat) (s:st) : res (expr * st) :=
  match n with O => Raises OutOfFuel | S n =>
    if negb (check s FIRST_UNARY) then Raises InvalidSyntax else
    do (e, s) <- parse_exponent n s; mult_loop n e s end
with mult_loop (n:nat) (e:expr) (s:st) : res (expr * st) :=
  match n with O => Raises OutOfFuel | S n =>
    if is s TMul || is s TDiv then
      let mul := is s TMul in
      do s <- next s;
      if check s FIRST_UNARY then do (r, s) <- parse_mult n s; mult_loop n (Bin (if mul then KMul else KDiv) e r) s
      else Raises InvalidSyntax
    else Ok (e, s) end
with parse_exponent (n:nat) (s:st) : res (expr * st) :=
  match n with O => Raises OutOfFuel | S n =>
    if negb (check s FIRST_UNARY) then Raises InvalidSyntax else
    do (e, s) <- parse_unary n s;
    if is s TExp then
      do s <- next s;
      if negb (check s FIRST_UNARY) then Raises InvalidSyntax else
      do (r, s) <- parse_unary n s; Ok (Bin KPow e r, s)
    else Ok (e, s) end
with parse_unary (n:nat) (s:st) : res (expr * st) :=
  match n with O => Raises OutOfFuel | S n =>
    if is s TMinus then do s1 <- next s; parse_prefix n true s1 else parse_prefix n false s end
with parse_prefix (n:nat) (negate:bool) (s:st) : res (expr * st) :=
  match n with O => Raises OutOfFuel | S n =>
    if negb (check s FIRST_FACTOR_PREFIX) then Raises InvalidSyntax else
    if is s TConst then
      do v <- coerce (tval s);
      do s' <- next s;
      let c := Const (if negate then nneg v else v) in
      if check s' FIRST_FACTOR then
        if is s' TFact then do s'' <- next s'; Ok (Un UFact c, s'')
        else do (f, s'') <- parse_factors n s'; Ok (Bin KMul c f, s'')
      else Ok (c, s')
    else
      do (e, s') <- parse_factors n s; Ok (if negate then Un UNeg e else e, s') end
with parse_factors (n:nat) (s:st) : res (expr * st) :=
  match n with O => Raises OutOfFuel | S n =>
    do (fs, s) <- factors_loop n [] s;
    if is s TExp then
      do s <- next s;
      if negb (check s FIRST_UNARY) then Raises InvalidSyntax else
      do (r, s) <- parse_unary n s;
      match prod (with_pow fs r) with Some e => Ok (e, s) | None => Raises InvalidExpression end
    else match prod fs with Some e => Ok (e, s) | None => Raises InvalidExpression end end
with factors_loop (n:nat) (acc:list expr) (s:st) : res (list expr * st) :=
  match n with O => Raises OutOfFuel | S n =>
    do (f, s) <-
      (if is s TVar then do s' <- next s; Ok (Var (varname s), s')
       else if is s TFunc then
         do s <- next s; do s <- eat s TOpen; do (e, s) <- parse_add n s; do s <- eat s TClose; Ok (Un USgn e, s)
       else if is s TOpen then
         do s <- next s; do (e, s) <- parse_add n s; do s <- eat s TClose; Ok (e, s)
       else Raises UnexpectedBehavior);
    if check s FIRST_FACTOR then factors_loop n (acc ++ [f]) s else Ok (acc ++ [f], s) end.

Fixpoint equal_loop (n m:nat) (e:expr) (s:st) : res (expr * st) :=
  match m with O => Raises OutOfFuel | S m =>
    if is s TEqual then
      do s <- next s;
      if check s FIRST_UNARY then do (r, s) <- parse_add n s; equal_loop n m (Bin KEq e r) s
      else Raises UnexpectedBehavior
    else Ok (e, s) end.

End NF.

(* ---------- the generated token sets are the grammar's FIRST sets ---------- *)
Lemma first_mult_eq : Parser.FIRST_MULT = Parser.FIRST_UNARY. Proof. reflexivity. Qed.
Lemma first_exp_eq : Parser.FIRST_EXP = Parser.FIRST_UNARY. Proof. reflexivity. Qed.
Lemma first_add_eq : Parser.FIRST_ADD = Parser.FIRST_UNARY. Proof. reflexivity. Qed.
Lemma check_first_unary s : check s Parser.FIRST_UNARY = check s first_unary.
Proof. destruct s as [|t r]; [reflexivity|]. unfold check. destruct (tk t); reflexivity. Qed.
Lemma check_first_factor s : check s Parser.FIRST_FACTOR = check s first_factor.
Proof. destruct s as [|t r]; [reflexivity|]. unfold check. destruct (tk t); reflexivity. Qed.
Lemma check_first_factor_prefix s : check s Parser.FIRST_FACTOR_PREFIX = check s first_factor_prefix.
Proof. destruct s as [|t r]; [reflexivity|]. unfold check. destruct (tk t); reflexivity. Qed.
Lemma check_is_add s : check s Parser.IS_ADD = is s TPlus || is s TMinus.
Proof. destruct s as [|t r]; [reflexivity|]. unfold is, check. destruct (tk t); reflexivity. Qed.
Lemma check_is_mult s : check s Parser.IS_MULT = is s TMul || is s TDiv.
Proof. destruct s as [|t r]; [reflexivity|]. unfold is, check. destruct (tk t); reflexivity. Qed.
Lemma check_is_exp s : check s Parser.IS_EXP = is s TExp.
Proof. destruct s as [|t r]; [reflexivity|]. unfold is, check. destruct (tk t); reflexivity. Qed.
Lemma check_is_equal s : check s Parser.IS_EQUAL = is s TEqual.
Proof. destruct s as [|t r]; [reflexivity|]. unfold is, check. destruct (tk t); reflexivity. Qed.
Lemma prefix_not_const_factor s : check s first_factor_prefix = true -> is s TConst = false -> check s first_factor = true.
Proof. destruct s as [|t r]; [discriminate|]. unfold is, check. destruct (tk t); simpl; try discriminate; auto. Qed.
Lemma is_plus_minus s : is s TPlus = true -> is s TMinus = false.
Proof. destruct s as [|t r]; [discriminate|]. unfold is, check. destruct (tk t); simpl; try discriminate; auto. Qed.
Lemma is_mul_div s : is s TMul = true -> is s TDiv = false.
Proof. destruct s as [|t r]; [discriminate|]. unfold is, check. destruct (tk t); simpl; try discriminate; auto. Qed.

Definition Eqv (n:nat) : Prop :=
  (forall s, Parser.parse_add n s = NF.parse_add n s) /\
  (forall e s, Parser.add_loop n e s = NF.add_loop n e s) /\
  (forall s, Parser.parse_mult n s = NF.parse_mult n s) /\
  (forall e s, Parser.mult_loop n e s = NF.mult_loop n e s) /\
  (forall s, Parser.parse_exponent n s = NF.parse_exponent n s) /\
  (forall s, Parser.parse_unary n s = NF.parse_unary n s) /\
  (forall b s, Parser.parse_prefix n b s = NF.parse_prefix n b s) /\
  (forall s, Parser.parse_factors n s = NF.parse_factors n s) /\
  (forall a s, Parser.factors_loop n a s = NF.factors_loop n a s).

Ltac dbind := match goal with |- bind ?r _ = bind ?r _ => destruct r as [[? ?]|]; cbn [bind]; [|reflexivity] end.
Ltac dnext := match goal with |- bind (next ?s) _ = bind (next ?s) _ => destruct (next s); cbn [bind]; [|reflexivity] end.

Ltac dchk := match goal with |- context[check ?x ?l] => destruct (check x l); cbn [negb] end.
Ltac nfu := idtac.
Ltac rw := rewrite ?first_mult_eq, ?first_exp_eq, ?first_add_eq, ?check_first_unary, ?check_first_factor, ?check_first_factor_prefix; nfu.

Theorem nf_eq : forall n, Eqv n.
Proof.
  induction n as [|n (IHa & IHal & IHm & IHml & IHe & IHu & IHp & IHf & IHfl)]; [repeat split; reflexivity|].
  unfold Eqv. repeat split.
  - intros s. cbn [Parser.parse_add NF.parse_add]. rw. dchk; [|reflexivity]. rewrite IHm. dbind. apply IHal.
  - intros e s. cbn [Parser.add_loop NF.add_loop]. cbv zeta. rewrite check_is_add.
    destruct (is s TPlus) eqn:P; cbn [orb].
    + dnext. rw. dchk; [|reflexivity]. rewrite IHm. dbind. apply IHal.
    + destruct (is s TMinus) eqn:M; [|reflexivity]. dnext. rw. dchk; [|reflexivity]. rewrite IHm. dbind. apply IHal.
  - intros s. cbn [Parser.parse_mult NF.parse_mult]. rw. dchk; [|reflexivity]. rewrite IHe. dbind. apply IHml.
  - intros e s. cbn [Parser.mult_loop NF.mult_loop]. cbv zeta. rewrite check_is_mult.
    destruct (is s TMul) eqn:P; cbn [orb].
    + dnext. rw. dchk; [|reflexivity]. rewrite IHm. dbind. apply IHml.
    + destruct (is s TDiv) eqn:M; [|reflexivity]. dnext. rw. dchk; [|reflexivity]. rewrite IHm. dbind. apply IHml.
  - intros s. cbn [Parser.parse_exponent NF.parse_exponent]. cbv zeta. rw. dchk; [|reflexivity]. rewrite IHu. dbind. rewrite check_is_exp.
    match goal with |- context[is ?x TExp] => destruct (is x TExp) eqn:X; [|reflexivity] end. dnext. rw. dchk; [|reflexivity]. rewrite IHu. dbind. reflexivity.
  - intros s. cbn [Parser.parse_unary NF.parse_unary]. destruct (is s TMinus); [dnext; apply IHp | apply IHp].
  - intros b s. cbn [Parser.parse_prefix NF.parse_prefix]. rw.
    destruct (check s first_factor_prefix) eqn:C; cbn [negb]; [|reflexivity].
    destruct (is s TConst) eqn:IC.
    + destruct (coerce (tval s)); cbn [bind]; [|reflexivity]. dnext. rw. dchk; [|reflexivity].
      match goal with |- context[is ?x TFact] => destruct (is x TFact); [reflexivity|] end. rewrite IHf. reflexivity.
    + rewrite (prefix_not_const_factor _ C IC). rewrite IHf. reflexivity.
  - intros s. cbn [Parser.parse_factors NF.parse_factors]. rewrite IHfl. dbind. rewrite check_is_exp.
    match goal with |- context[is ?x TExp] => destruct (is x TExp); [|reflexivity] end. dnext. rw. dchk; [|reflexivity]. rewrite IHu. reflexivity.
  - intros a s. cbn [Parser.factors_loop NF.factors_loop].
    assert (forall X Y : res (expr * st), X = Y ->
      bind X (fun '(f, s1) => if check s1 Parser.FIRST_FACTOR then Parser.factors_loop n (a ++ [f]) s1 else Ok (a ++ [f], s1)) =
      bind Y (fun '(f, s1) => if check s1 NF.FIRST_FACTOR then NF.factors_loop n (a ++ [f]) s1 else Ok (a ++ [f], s1))) as HB.
    { intros X Y ->. destruct Y as [[f s1]|]; cbn [bind]; [|reflexivity]. rw. dchk; [apply IHfl|reflexivity]. }
    apply HB. destruct (is s TVar); [reflexivity|]. destruct (is s TFunc).
    + dnext. match goal with |- context[eat ?x TOpen] => destruct (eat x TOpen); cbn [bind]; [|reflexivity] end. rewrite IHa. reflexivity.
    + destruct (is s TOpen); [|reflexivity]. dnext. rewrite IHa. reflexivity.
Qed.

Lemma nf_equal_loop n : forall m e s, Parser.equal_loop n m e s = NF.equal_loop n m e s.
Proof.
  induction m as [|m IH]; intros e s; [reflexivity|]. cbn [Parser.equal_loop NF.equal_loop]. rewrite check_is_equal.
  destruct (is s TEqual); [|reflexivity]. dnext. rw. dchk; [|reflexivity]. rewrite (proj1 (nf_eq n)). dbind. apply IH.
Qed.
