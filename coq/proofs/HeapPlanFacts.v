(* Executing a linear plan on a heap that holds a well-formed tree gives a heap that holds the result as a well-formed tree:
   mutually consistent parent/child links, no node object twice, only the claimed and the fresh objects written. *)
From Coq Require Import List NArith ZArith Bool Arith Lia.
From Mathy Require Import Num Expr Heap Plans HeapPlan.
From MathyProofs Require Import ExprFacts HeapFacts.
Import ListNotations.

Lemma nth_upd {A} (l:list A) a f b : nth_error (upd l a f) b = if Nat.eqb a b then option_map f (nth_error l b) else nth_error l b.
Proof.
  revert a b. induction l as [|x l IH]; intros a b; cbn [upd].
  - destruct b; destruct (Nat.eqb a _); reflexivity.
  - destruct a, b; cbn; auto.
Qed.
Lemma nth_app_new {A} (h:list A) x : nth_error (h ++ [x]) (length h) = Some x.
Proof. rewrite nth_error_app2 by lia. now rewrite Nat.sub_diag. Qed.
Lemma nth_app_old {A} (h:list A) x b : b < length h -> nth_error (h ++ x) b = nth_error h b.
Proof. intros. now apply nth_error_app1. Qed.

(* ---------- irep: frame, reparenting, addresses ---------- *)
Lemma irep_frame t : forall h g p, (forall b, In b (iaddrs t) -> nth_error g b = nth_error h b) -> irep h t p -> irep g t p.
Proof.
  induction t as [a n|a v|a u c IH|a k l IHl r IHr]; intros h g p F; cbn [irep iaddrs] in *.
  - intros (nd & H & R). exists nd. rewrite F by (now left). auto.
  - intros (nd & H & R). exists nd. rewrite F by (now left). auto.
  - intros (nd & H & H1 & H2 & H3 & H4 & Hc). exists nd. rewrite F by (now left). repeat (split; [assumption|]).
    apply (IH h g); auto. intros b Hb. apply F. now right.
  - intros (nd & H & H1 & H2 & H3 & H4 & Hl & Hr). exists nd. rewrite F by (now left). repeat (split; [assumption|]). split.
    + apply (IHl h g); auto. intros b Hb. apply F. right. apply in_or_app. auto.
    + apply (IHr h g); auto. intros b Hb. apply F. right. apply in_or_app. auto.
Qed.
Lemma iaddr_in t : In (iaddr t) (iaddrs t). Proof. destruct t; now left. Qed.
Lemma irep_root h t p : irep h t p -> exists nd, nth_error h (iaddr t) = Some nd /\ h_p nd = p.
Proof. destruct t; cbn [irep iaddr]; intros (nd & H & R); exists nd; (split; [exact H|]); tauto. Qed.
Lemma irep_in_heap t : forall h p b, irep h t p -> In b (iaddrs t) -> b < length h.
Proof.
  induction t as [a n|a v|a u c IH|a k l IHl r IHr]; intros h p b; cbn [irep iaddrs].
  - intros (nd & H & _) [<-|[]]. apply nth_error_Some. congruence.
  - intros (nd & H & _) [<-|[]]. apply nth_error_Some. congruence.
  - intros (nd & H & _ & _ & _ & _ & Hc) [<-|Hb]; [apply nth_error_Some; congruence|eauto].
  - intros (nd & H & _ & _ & _ & _ & Hl & Hr) [<-|Hb]; [apply nth_error_Some; congruence|]. apply in_app_or in Hb. destruct Hb; eauto.
Qed.
(* the same structure under another parent: only the root's parent pointer differs *)
Lemma irep_reparent t h g p q :
  (forall b, In b (iaddrs t) -> b <> iaddr t -> nth_error g b = nth_error h b) ->
  (forall nd, nth_error h (iaddr t) = Some nd -> nth_error g (iaddr t) = Some (set_p q nd)) ->
  NoDup (iaddrs t) -> irep h t p -> irep g t q.
Proof.
  destruct t as [a n|a v|a u c|a k l r]; intros F R ND; cbn [irep iaddrs iaddr] in *.
  - intros (nd & H & R1 & R2 & R3 & R4 & R5). exists (set_p q nd). split; [now apply R|]. cbn. auto.
  - intros (nd & H & R1 & R2 & R3 & R4 & R5). exists (set_p q nd). split; [now apply R|]. cbn. auto.
  - intros (nd & H & H1 & H2 & H3 & H4 & Hc). exists (set_p q nd). split; [now apply R|]. cbn. repeat (split; [assumption||reflexivity|]).
    inversion ND as [|? ? NA ND']; subst. apply (irep_frame c h g); auto. intros b Hb. apply F; [now right|]. intros ->. contradiction.
  - intros (nd & H & H1 & H2 & H3 & H4 & Hl & Hr). exists (set_p q nd). split; [now apply R|]. cbn. repeat (split; [assumption||reflexivity|]).
    inversion ND as [|? ? NA ND']; subst. split.
    + apply (irep_frame l h g); auto. intros b Hb. apply F; [right; apply in_or_app; auto|]. intros ->. apply NA. apply in_or_app. auto.
    + apply (irep_frame r h g); auto. intros b Hb. apply F; [right; apply in_or_app; auto|]. intros ->. apply NA. apply in_or_app. auto.
Qed.

(* ---------- one node over two built subtrees (a constructor call, or an old node whose children are set anew) ---------- *)
Ltac eqb_cases := repeat match goal with
  | |- context[Nat.eqb ?a ?b] => destruct (Nat.eqb_spec a b); subst
  | H : context[Nat.eqb ?a ?b] |- _ => destruct (Nat.eqb_spec a b); subst
  end.
Lemma link_length_l h a c : length (link_l h a c) = length h. Proof. unfold link_l. now rewrite !upd_length. Qed.
Lemma link_length_r h a c : length (link_r h a c) = length h. Proof. unfold link_r. now rewrite !upd_length. Qed.

Lemma build_bin h b k nd t1 t2 p1 p2 :
  nth_error h b = Some nd -> h_cls nd = cls_bin k ->
  irep h t1 p1 -> irep h t2 p2 -> NoDup (iaddrs t1 ++ iaddrs t2) -> ~ In b (iaddrs t1 ++ iaddrs t2) ->
  let h3 := link_r (link_l h b (iaddr t1)) b (iaddr t2) in
  irep h3 (IBin b k t1 t2) (h_p nd) /\ length h3 = length h /\
  (forall x, x <> b -> x <> iaddr t1 -> x <> iaddr t2 -> nth_error h3 x = nth_error h x).
Proof.
  intros Hb Hc R1 R2 ND NB h3.
  destruct (NoDup_app_inv _ _ ND) as (ND1 & ND2 & DIS).
  assert (B1 : b <> iaddr t1) by (intros ->; apply NB; apply in_or_app; left; apply iaddr_in).
  assert (B2 : b <> iaddr t2) by (intros ->; apply NB; apply in_or_app; right; apply iaddr_in).
  assert (A12 : iaddr t1 <> iaddr t2) by (intros E; apply (DIS (iaddr t1)); [apply iaddr_in|rewrite E; apply iaddr_in]).
  assert (NTH : forall x, nth_error h3 x =
            if Nat.eqb x b then Some (set_r (Some (iaddr t2)) (set_l (Some (iaddr t1)) nd))
            else if Nat.eqb x (iaddr t1) then option_map (set_p (Some b)) (nth_error h x)
            else if Nat.eqb x (iaddr t2) then option_map (set_p (Some b)) (nth_error h x) else nth_error h x).
  { intros x. subst h3. unfold link_r, link_l. rewrite !nth_upd. eqb_cases; try congruence; try (rewrite Hb; reflexivity); reflexivity. }
  split; [|split].
  - cbn [irep]. exists (set_r (Some (iaddr t2)) (set_l (Some (iaddr t1)) nd)). rewrite NTH, Nat.eqb_refl. cbn [set_r set_l h_cls h_l h_r h_p].
    repeat (split; [assumption||reflexivity|]). split.
    + apply (irep_reparent t1 h h3 p1); auto.
      * intros x Hx Nx. rewrite NTH. destruct (Nat.eqb_spec x b) as [->|_]; [exfalso; apply NB; apply in_or_app; auto|].
        destruct (Nat.eqb_spec x (iaddr t1)); [contradiction|]. destruct (Nat.eqb_spec x (iaddr t2)) as [->|_]; [|reflexivity].
        exfalso. apply (DIS (iaddr t2)); [exact Hx|apply iaddr_in].
      * intros n1 H1. rewrite NTH. destruct (Nat.eqb_spec (iaddr t1) b); [congruence|]. rewrite Nat.eqb_refl, H1. reflexivity.
    + apply (irep_reparent t2 h h3 p2); auto.
      * intros x Hx Nx. rewrite NTH. destruct (Nat.eqb_spec x b) as [->|_]; [exfalso; apply NB; apply in_or_app; auto|].
        destruct (Nat.eqb_spec x (iaddr t1)) as [->|_]; [exfalso; apply (DIS (iaddr t1)); [apply iaddr_in|exact Hx]|].
        destruct (Nat.eqb_spec x (iaddr t2)); [contradiction|reflexivity].
      * intros n2 H2. rewrite NTH. destruct (Nat.eqb_spec (iaddr t2) b); [congruence|].
        destruct (Nat.eqb_spec (iaddr t2) (iaddr t1)); [congruence|]. rewrite Nat.eqb_refl, H2. reflexivity.
  - subst h3. now rewrite link_length_r, link_length_l.
  - intros x X1 X2 X3. rewrite NTH. destruct (Nat.eqb_spec x b); [contradiction|]. destruct (Nat.eqb_spec x (iaddr t1)); [contradiction|].
    destruct (Nat.eqb_spec x (iaddr t2)); [contradiction|reflexivity].
Qed.

Lemma build_un h b u nd t p1 :
  nth_error h b = Some nd -> h_cls nd = cls_un u -> h_l nd = None ->
  irep h t p1 -> NoDup (iaddrs t) -> ~ In b (iaddrs t) ->
  let h3 := link_r h b (iaddr t) in
  irep h3 (IUn b u t) (h_p nd) /\ length h3 = length h /\
  (forall x, x <> b -> x <> iaddr t -> nth_error h3 x = nth_error h x).
Proof.
  intros Hb Hc Hl R ND NB h3.
  assert (B1 : b <> iaddr t) by (intros ->; apply NB; apply iaddr_in).
  assert (NTH : forall x, nth_error h3 x =
            if Nat.eqb x b then Some (set_r (Some (iaddr t)) nd)
            else if Nat.eqb x (iaddr t) then option_map (set_p (Some b)) (nth_error h x) else nth_error h x).
  { intros x. subst h3. unfold link_r. rewrite !nth_upd. eqb_cases; try congruence; try (rewrite Hb; reflexivity); reflexivity. }
  split; [|split].
  - cbn [irep]. exists (set_r (Some (iaddr t)) nd). rewrite NTH, Nat.eqb_refl. cbn [set_r h_cls h_l h_r h_p].
    repeat (split; [assumption||reflexivity|]).
    apply (irep_reparent t h h3 p1); auto.
    + intros x Hx Nx. rewrite NTH. destruct (Nat.eqb_spec x b) as [->|_]; [contradiction|]. destruct (Nat.eqb_spec x (iaddr t)); [contradiction|reflexivity].
    + intros n1 H1. rewrite NTH. destruct (Nat.eqb_spec (iaddr t) b); [congruence|]. rewrite Nat.eqb_refl, H1. reflexivity.
  - subst h3. now rewrite link_length_r.
  - intros x X1 X2. rewrite NTH. destruct (Nat.eqb_spec x b); [contradiction|]. destruct (Nat.eqb_spec x (iaddr t)); [contradiction|reflexivity].
Qed.

Lemma NoDup_app_intro {A} (l m:list A) : NoDup l -> NoDup m -> (forall x, In x l -> In x m -> False) -> NoDup (l ++ m).
Proof.
  induction l as [|x l IH]; intros Hl Hm D; [exact Hm|]. inversion Hl; subst. cbn. constructor.
  - intros Hin. apply in_app_or in Hin. destruct Hin; [contradiction|]. apply (D x); [now left|assumption].
  - apply IH; auto. intros y Y1 Y2. apply (D y); [now right|assumption].
Qed.
Lemma irep_app t h x p : irep h t p -> irep (h ++ x) t p.
Proof. intros R. apply (irep_frame t h); [|exact R]. intros b Hb. apply nth_app_old. eapply irep_in_heap; eauto. Qed.

(* ---------- fresh objects ---------- *)
Lemma alloc_ok e : forall h h' a, alloc h e = (h', a) ->
  exists t, ierase t = e /\ iaddr t = a /\ irep h' t None /\ NoDup (iaddrs t) /\ (forall b, In b (iaddrs t) -> length h <= b < length h') /\
            length h <= length h' /\ (forall b, b < length h -> nth_error h' b = nth_error h b).
Proof.
  induction e as [n|v|u c IH|k l IHl r IHr]; intros h h' a; cbn [alloc].
  - intros [= <- <-]. exists (IConst (length h) n). cbn [ierase iaddr irep iaddrs]. rewrite app_length. cbn [length].
    repeat split; try reflexivity; try lia.
    + exists (new_node cls_const (Some n) None). rewrite nth_app_new. repeat split.
    + constructor; [intros []|constructor].
    + destruct H as [<-|[]]. lia.
    + destruct H as [<-|[]]. lia.
    + intros b Hb. now apply nth_app_old.
  - intros [= <- <-]. exists (IVar (length h) v). cbn [ierase iaddr irep iaddrs]. rewrite app_length. cbn [length].
    repeat split; try reflexivity; try lia.
    + exists (new_node cls_var None (Some v)). rewrite nth_app_new. repeat split.
    + constructor; [intros []|constructor].
    + destruct H as [<-|[]]. lia.
    + destruct H as [<-|[]]. lia.
    + intros b Hb. now apply nth_app_old.
  - destruct (alloc h c) as [h1 a1] eqn:E. intros [= <- <-].
    destruct (IH h h1 a1 E) as (t & Et & At & R & ND & RG & LE & FR).
    set (hx := h1 ++ [new_node (cls_un u) None None]).
    assert (NB : ~ In (length h1) (iaddrs t)) by (intros Hin; apply RG in Hin; lia).
    destruct (build_un hx (length h1) u (new_node (cls_un u) None None) t None) as (R3 & L3 & F3); auto.
    { unfold hx. apply nth_app_new. } { now apply irep_app. }
    rewrite <- At. exists (IUn (length h1) u t). cbn [ierase iaddr iaddrs]. rewrite Et. split; [reflexivity|]. split; [reflexivity|]. split; [exact R3|].
    rewrite L3. unfold hx. rewrite app_length. cbn [length]. split; [constructor; assumption|]. split; [|split; [lia|]].
    + intros b [<-|Hb]; [lia|]. apply RG in Hb. lia.
    + intros b Hb. rewrite F3.
      * unfold hx. rewrite nth_app_old by lia. now apply FR.
      * lia.
      * intros ->. pose proof (RG _ (iaddr_in t)). lia.
  - destruct (alloc h l) as [h1 a1] eqn:E1. destruct (alloc h1 r) as [h2 a2] eqn:E2. intros [= <- <-].
    destruct (IHl h h1 a1 E1) as (t1 & Et1 & At1 & R1 & ND1 & RG1 & LE1 & FR1).
    destruct (IHr h1 h2 a2 E2) as (t2 & Et2 & At2 & R2 & ND2 & RG2 & LE2 & FR2).
    set (hx := h2 ++ [new_node (cls_bin k) None None]).
    assert (R1' : irep h2 t1 None). { apply (irep_frame t1 h1); [|exact R1]. intros b Hb. apply FR2. apply RG1 in Hb. lia. }
    assert (ND : NoDup (iaddrs t1 ++ iaddrs t2)).
    { apply NoDup_app_intro; auto. intros b H1 H2. apply RG1 in H1. apply RG2 in H2. lia. }
    assert (NB : ~ In (length h2) (iaddrs t1 ++ iaddrs t2)).
    { intros Hin. apply in_app_or in Hin. destruct Hin as [Hin|Hin]; [apply RG1 in Hin|apply RG2 in Hin]; lia. }
    destruct (build_bin hx (length h2) k (new_node (cls_bin k) None None) t1 t2 None None) as (R3 & L3 & F3); auto.
    { unfold hx. apply nth_app_new. } { now apply irep_app. } { now apply irep_app. }
    rewrite <- At1, <- At2. exists (IBin (length h2) k t1 t2). cbn [ierase iaddr iaddrs]. rewrite Et1, Et2.
    split; [reflexivity|]. split; [reflexivity|]. split; [exact R3|].
    rewrite L3. unfold hx. rewrite app_length. cbn [length]. split; [constructor; assumption|]. split; [|split; [lia|]].
    + intros b [<-|Hb]; [lia|]. apply in_app_or in Hb. destruct Hb as [Hb|Hb]; [apply RG1 in Hb|apply RG2 in Hb]; lia.
    + intros b Hb. rewrite F3.
      * unfold hx. rewrite nth_app_old by lia. rewrite FR2 by lia. now apply FR1.
      * lia.
      * intros ->. pose proof (RG1 _ (iaddr_in t1)). lia.
      * intros ->. pose proof (RG2 _ (iaddr_in t2)). lia.
Qed.

(* ---------- plans: the addresses they claim, what they need of the heap ---------- *)
Fixpoint caddrs (ctx:iexpr) (pl:plan) : list nat :=
  match pl with
  | PKeep q => match isub ctx q with Some t => iaddrs t | None => [] end
  | PNew _ => []
  | PBin _ l r => caddrs ctx l ++ caddrs ctx r
  | PUn _ c => caddrs ctx c
  | POld q l r => match isub ctx q with Some t => [iaddr t] | None => [] end ++ caddrs ctx l ++ caddrs ctx r
  end.
Fixpoint pre (h:heap) (ctx:iexpr) (pl:plan) : Prop :=
  match pl with
  | PKeep q => exists t p, isub ctx q = Some t /\ irep h t p
  | PNew _ => True
  | PBin _ l r => pre h ctx l /\ pre h ctx r
  | PUn _ c => pre h ctx c
  | POld q l r => (exists a k l0 r0 nd, isub ctx q = Some (IBin a k l0 r0) /\ nth_error h a = Some nd /\ h_cls nd = cls_bin k) /\ pre h ctx l /\ pre h ctx r
  end.
Lemma pre_frame ctx pl : forall h g, (forall b, In b (caddrs ctx pl) -> nth_error g b = nth_error h b) -> pre h ctx pl -> pre g ctx pl.
Proof.
  induction pl as [q|e|k l IHl r IHr|u c IH|q l IHl r IHr]; intros h g F; cbn [pre caddrs] in *.
  - intros (t & p & E & R). exists t, p. split; [exact E|]. rewrite E in F. now apply (irep_frame t h g).
  - auto.
  - intros (P1 & P2). split; [apply (IHl h g)|apply (IHr h g)]; auto; intros b Hb; apply F; apply in_or_app; auto.
  - now apply IH.
  - intros ((a & k & l0 & r0 & nd & E & Hn & Hc) & P1 & P2). rewrite E in F. cbn [iaddr app] in F. split; [|split].
    + exists a, k, l0, r0, nd. rewrite F by (now left). auto.
    + apply (IHl h g); auto. intros b Hb. apply F. right. apply in_or_app; auto.
    + apply (IHr h g); auto. intros b Hb. apply F. right. apply in_or_app; auto.
Qed.
Lemma caddrs_in_heap ctx pl : forall h b, pre h ctx pl -> In b (caddrs ctx pl) -> b < length h.
Proof.
  induction pl as [q|e|k l IHl r IHr|u c IH|q l IHl r IHr]; intros h b; cbn [pre caddrs].
  - intros (t & p & E & R). rewrite E. now apply irep_in_heap with (p := p).
  - intros _ [].
  - intros (P1 & P2) Hb. apply in_app_or in Hb. destruct Hb; eauto.
  - eauto.
  - intros ((a & k & l0 & r0 & nd & E & Hn & Hc) & P1 & P2). rewrite E. cbn [iaddr app]. intros [<-|Hb]; [apply nth_error_Some; congruence|].
    apply in_app_or in Hb. destruct Hb; eauto.
Qed.
Lemma isub_erase : forall q ctx t, isub ctx q = Some t -> subtree (ierase ctx) q = Some (ierase t).
Proof.
  induction q as [|d q IH]; intros ctx t; cbn [isub subtree]; [now intros [= ->]|].
  destruct ctx as [| |a u c|a k l r]; destruct d; cbn [ierase]; try discriminate; apply IH.
Qed.
Lemma subtree_isub : forall q ctx e, subtree (ierase ctx) q = Some e -> exists t, isub ctx q = Some t /\ ierase t = e.
Proof.
  induction q as [|d q IH]; intros ctx e; cbn [isub subtree]; [intros [= <-]; eauto|].
  destruct ctx as [| |a u c|a k l r]; destruct d; cbn [ierase]; try discriminate; apply IH.
Qed.

(* ---------- executing a plan ---------- *)
Definition old_parent (h:heap) (a:nat) : option nat := match nth_error h a with Some nd => h_p nd | None => None end.

Theorem exec_ok pl : forall ctx h e, pre h ctx pl -> NoDup (caddrs ctx pl) -> erasep (ierase ctx) pl = Some e ->
  exists h' t', exec ctx pl h = Some (h', iaddr t') /\ ierase t' = e /\ irep h' t' (old_parent h (iaddr t')) /\ NoDup (iaddrs t') /\
    (forall b, In b (iaddrs t') -> In b (caddrs ctx pl) \/ length h <= b) /\
    length h <= length h' /\ (forall b, b < length h -> ~ In b (caddrs ctx pl) -> nth_error h' b = nth_error h b).
Proof.
  induction pl as [q|e0|k l IHl r IHr|u c IH|q l IHl r IHr]; intros ctx h e P ND E; cbn [pre caddrs erasep exec] in *.
  - destruct P as (t & p & Eq & R). rewrite Eq in *. exists h, t. split; [reflexivity|]. split; [rewrite (isub_erase _ _ _ Eq) in E; congruence|].
    split. { unfold old_parent. destruct (irep_root _ _ _ R) as (nd & Hn & <-). now rewrite Hn. }
    split; [exact ND|]. split; [auto|]. split; [lia|auto].
  - inversion E; subst e0. destruct (alloc h e) as [h' a] eqn:A. destruct (alloc_ok e h h' a A) as (t & Et & At & R & NDt & RG & LE & FR).
    exists h', t. rewrite At. split; [reflexivity|]. split; [exact Et|]. split.
    { unfold old_parent. destruct (nth_error h a) eqn:Hn; [|exact R]. exfalso. assert (a < length h) by (apply nth_error_Some; congruence).
      rewrite <- At in H. pose proof (RG _ (iaddr_in t)). lia. }
    split; [exact NDt|]. split; [intros b Hb; right; apply RG in Hb; lia|]. split; [exact LE|]. intros b Hb _. now apply FR.
  - destruct P as (P1 & P2). destruct (NoDup_app_inv _ _ ND) as (ND1 & ND2 & DIS).
    destruct (erasep (ierase ctx) l) as [e1|] eqn:E1; [|discriminate]. destruct (erasep (ierase ctx) r) as [e2|] eqn:E2; [|discriminate]. inversion E; subst e.
    destruct (IHl ctx h e1 P1 ND1 E1) as (h1 & t1 & X1 & Et1 & R1 & NDt1 & RG1 & LE1 & FR1).
    assert (P2' : pre h1 ctx r).
    { apply (pre_frame ctx r h h1); [|exact P2]. intros b Hb. apply FR1; [now apply (caddrs_in_heap ctx r h)|]. intros Hb1. now apply (DIS b). }
    destruct (IHr ctx h1 e2 P2' ND2 E2) as (h2 & t2 & X2 & Et2 & R2 & NDt2 & RG2 & LE2 & FR2).
    rewrite X1, X2.
    assert (IN1 : forall b, In b (iaddrs t1) -> b < length h1) by (intros b Hb; eapply irep_in_heap; eauto).
    assert (IN2 : forall b, In b (iaddrs t2) -> b < length h2) by (intros b Hb; eapply irep_in_heap; eauto).
    assert (C2 : forall b, In b (caddrs ctx r) -> b < length h) by (intros b Hb; now apply (caddrs_in_heap ctx r h)).
    assert (D12 : forall b, In b (iaddrs t1) -> In b (iaddrs t2) -> False).
    { intros b H1 H2. destruct (RG2 b H2) as [Hc|Hf]; [|apply IN1 in H1; lia]. destruct (RG1 b H1) as [Hc1|Hf1]; [now apply (DIS b)|]. apply C2 in Hc. lia. }
    assert (R1' : irep h2 t1 (old_parent h (iaddr t1))).
    { apply (irep_frame t1 h1); [|exact R1]. intros b Hb. apply FR2; [now apply IN1|]. intros Hc. destruct (RG1 b Hb) as [Hc1|Hf1]; [now apply (DIS b)|]. apply C2 in Hc. lia. }
    set (hx := h2 ++ [new_node (cls_bin k) None None]).
    assert (NDx : NoDup (iaddrs t1 ++ iaddrs t2)) by (apply NoDup_app_intro; auto).
    assert (NB : ~ In (length h2) (iaddrs t1 ++ iaddrs t2)).
    { intros Hin. apply in_app_or in Hin. destruct Hin as [Hin|Hin]; [apply IN1 in Hin|apply IN2 in Hin]; lia. }
    destruct (build_bin hx (length h2) k (new_node (cls_bin k) None None) t1 t2 _ _ (nth_app_new h2 _) eq_refl (irep_app _ _ _ _ R1') (irep_app _ _ _ _ R2) NDx NB) as (R3 & L3 & F3).
    exists (link_r (link_l hx (length h2) (iaddr t1)) (length h2) (iaddr t2)), (IBin (length h2) k t1 t2). cbn [iaddr ierase iaddrs]. rewrite Et1, Et2.
    split; [reflexivity|]. split; [reflexivity|]. split.
    { unfold old_parent. destruct (nth_error h (length h2)) eqn:Hn; [|exact R3]. exfalso. assert (length h2 < length h) by (apply nth_error_Some; congruence). lia. }
    split; [constructor; assumption|]. split; [|split].
    + intros b [<-|Hb]; [right; lia|]. apply in_app_or in Hb. destruct Hb as [Hb|Hb].
      * destruct (RG1 b Hb); [left; apply in_or_app; auto|right; lia].
      * destruct (RG2 b Hb); [left; apply in_or_app; auto|right; lia].
    + rewrite L3. unfold hx. rewrite app_length. cbn [length]. lia.
    + intros b Hb Nb. rewrite F3.
      * unfold hx. rewrite nth_app_old by lia. rewrite FR2 by (try lia; intros Hc; apply Nb; apply in_or_app; auto). apply FR1; [lia|]. intros Hc; apply Nb; apply in_or_app; auto.
      * lia.
      * intros ->. destruct (RG1 _ (iaddr_in t1)); [apply Nb; apply in_or_app; auto|lia].
      * intros ->. destruct (RG2 _ (iaddr_in t2)); [apply Nb; apply in_or_app; auto|lia].
  - destruct (erasep (ierase ctx) c) as [e1|] eqn:E1; [|discriminate]. inversion E; subst e.
    destruct (IH ctx h e1 P ND E1) as (h1 & t1 & X1 & Et1 & R1 & NDt1 & RG1 & LE1 & FR1). rewrite X1.
    assert (IN1 : forall b, In b (iaddrs t1) -> b < length h1) by (intros b Hb; eapply irep_in_heap; eauto).
    set (hx := h1 ++ [new_node (cls_un u) None None]).
    assert (NB : ~ In (length h1) (iaddrs t1)) by (intros Hin; apply IN1 in Hin; lia).
    destruct (build_un hx (length h1) u (new_node (cls_un u) None None) t1 _ (nth_app_new h1 _) eq_refl eq_refl (irep_app _ _ _ _ R1) NDt1 NB) as (R3 & L3 & F3).
    exists (link_r hx (length h1) (iaddr t1)), (IUn (length h1) u t1). cbn [iaddr ierase iaddrs]. rewrite Et1.
    split; [reflexivity|]. split; [reflexivity|]. split.
    { unfold old_parent. destruct (nth_error h (length h1)) eqn:Hn; [|exact R3]. exfalso. assert (length h1 < length h) by (apply nth_error_Some; congruence). lia. }
    split; [constructor; assumption|]. split; [|split].
    + intros b [<-|Hb]; [right; lia|]. destruct (RG1 b Hb); auto.
    + rewrite L3. unfold hx. rewrite app_length. cbn [length]. lia.
    + intros b Hb Nb. rewrite F3.
      * unfold hx. rewrite nth_app_old by lia. now apply FR1.
      * lia.
      * intros ->. destruct (RG1 _ (iaddr_in t1)); [contradiction|lia].
  - destruct P as ((a & k & l0 & r0 & nd & Eq & Hn & Hc) & P1 & P2). rewrite Eq in *. cbn [iaddr app] in *.
    inversion ND as [|? ? NA ND']; subst. destruct (NoDup_app_inv _ _ ND') as (ND1 & ND2 & DIS).
    rewrite (isub_erase _ _ _ Eq) in E. cbn [ierase] in E.
    destruct (erasep (ierase ctx) l) as [e1|] eqn:E1; [|discriminate]. destruct (erasep (ierase ctx) r) as [e2|] eqn:E2; [|discriminate]. inversion E; subst e.
    destruct (IHl ctx h e1 P1 ND1 E1) as (h1 & t1 & X1 & Et1 & R1 & NDt1 & RG1 & LE1 & FR1).
    assert (C1 : forall b, In b (caddrs ctx l) -> b < length h) by (intros b Hb; now apply (caddrs_in_heap ctx l h)).
    assert (C2 : forall b, In b (caddrs ctx r) -> b < length h) by (intros b Hb; now apply (caddrs_in_heap ctx r h)).
    assert (P2' : pre h1 ctx r).
    { apply (pre_frame ctx r h h1); [|exact P2]. intros b Hb. apply FR1; [now apply C2|]. intros Hb1. now apply (DIS b). }
    destruct (IHr ctx h1 e2 P2' ND2 E2) as (h2 & t2 & X2 & Et2 & R2 & NDt2 & RG2 & LE2 & FR2).
    rewrite X1, X2.
    assert (IN1 : forall b, In b (iaddrs t1) -> b < length h1) by (intros b Hb; eapply irep_in_heap; eauto).
    assert (IN2 : forall b, In b (iaddrs t2) -> b < length h2) by (intros b Hb; eapply irep_in_heap; eauto).
    assert (D12 : forall b, In b (iaddrs t1) -> In b (iaddrs t2) -> False).
    { intros b H1 H2. destruct (RG2 b H2) as [Hc2|Hf]; [|apply IN1 in H1; lia]. destruct (RG1 b H1) as [Hc1|Hf1]; [now apply (DIS b)|]. apply C2 in Hc2. lia. }
    assert (R1' : irep h2 t1 (old_parent h (iaddr t1))).
    { apply (irep_frame t1 h1); [|exact R1]. intros b Hb. apply FR2; [now apply IN1|]. intros Hc2. destruct (RG1 b Hb) as [Hc1|Hf1]; [now apply (DIS b)|]. apply C2 in Hc2. lia. }
    assert (AL : a < length h) by (apply nth_error_Some; congruence).
    assert (Hn2 : nth_error h2 a = Some nd).
    { rewrite FR2; [rewrite FR1; auto|lia|]; intros Hc'; apply NA; apply in_or_app; auto. }
    assert (NDx : NoDup (iaddrs t1 ++ iaddrs t2)) by (apply NoDup_app_intro; auto).
    assert (NB : ~ In a (iaddrs t1 ++ iaddrs t2)).
    { intros Hin. apply in_app_or in Hin. destruct Hin as [Hin|Hin].
      - destruct (RG1 a Hin); [apply NA; apply in_or_app; auto|lia].
      - destruct (RG2 a Hin); [apply NA; apply in_or_app; auto|lia]. }
    destruct (build_bin h2 a k nd t1 t2 _ _ Hn2 Hc R1' R2 NDx NB) as (R3 & L3 & F3).
    exists (link_r (link_l h2 a (iaddr t1)) a (iaddr t2)), (IBin a k t1 t2). cbn [iaddr ierase iaddrs]. rewrite Et1, Et2.
    split; [reflexivity|]. split; [reflexivity|]. split; [unfold old_parent; rewrite Hn; exact R3|].
    split; [constructor; [exact NB|exact NDx]|]. split; [|split].
    + intros b [<-|Hb]; [left; now left|]. apply in_app_or in Hb. destruct Hb as [Hb|Hb].
      * destruct (RG1 b Hb); [left; right; apply in_or_app; auto|right; lia].
      * destruct (RG2 b Hb); [left; right; apply in_or_app; auto|right; lia].
    + rewrite L3. lia.
    + intros b Hb Nb. rewrite F3.
      * rewrite FR2 by (try lia; intros Hc'; apply Nb; right; apply in_or_app; auto). apply FR1; [lia|]. intros Hc'; apply Nb; right; apply in_or_app; auto.
      * intros ->. apply Nb. now left.
      * intros ->. destruct (RG1 _ (iaddr_in t1)); [apply Nb; right; apply in_or_app; auto|lia].
      * intros ->. destruct (RG2 _ (iaddr_in t2)); [apply Nb; right; apply in_or_app; auto|lia].
Qed.

(* ---------- linear plans claim disjoint sets of objects ---------- *)
Lemma isub_incl : forall q t t', isub t q = Some t' -> incl (iaddrs t') (iaddrs t).
Proof.
  induction q as [|d q IH]; intros t t'; cbn [isub]; [intros [= ->]; apply incl_refl|].
  destruct t as [| |a u c|a k l r]; destruct d; try discriminate; intros H b Hb; cbn [iaddrs]; right; pose proof (IH _ _ H b Hb); try apply in_or_app; auto.
Qed.
Lemma isub_nodup : forall q t t', isub t q = Some t' -> NoDup (iaddrs t) -> NoDup (iaddrs t').
Proof.
  induction q as [|d q IH]; intros t t'; cbn [isub]; [intros [= ->]; auto|].
  destruct t as [| |a u c|a k l r]; destruct d; try discriminate; intros H ND; cbn [iaddrs] in ND; inversion ND as [|? ? NA ND']; subst.
  - eauto.
  - destruct (NoDup_app_inv _ _ ND') as (N1 & N2 & _). eauto.
  - destruct (NoDup_app_inv _ _ ND') as (N1 & N2 & _). eauto.
Qed.
Lemma isub_app : forall q s t, isub t (q ++ s) = match isub t q with Some t' => isub t' s | None => None end.
Proof.
  induction q as [|d q IH]; intros s t; cbn [app isub]; [reflexivity|].
  destruct t as [| |a u c|a k l r]; destruct d; auto.
Qed.
Lemma sub_addr t : forall b, In b (iaddrs t) -> exists s t3, isub t s = Some t3 /\ iaddr t3 = b.
Proof.
  induction t as [a n|a v|a u c IH|a k l IHl r IHr]; intros b; cbn [iaddrs].
  - intros [<-|[]]. exists [], (IConst a n). auto.
  - intros [<-|[]]. exists [], (IVar a v). auto.
  - intros [<-|Hb]; [exists [], (IUn a u c); auto|]. destruct (IH b Hb) as (s & t3 & E & A). exists (DR :: s), t3. auto.
  - intros [<-|Hb]; [exists [], (IBin a k l r); auto|]. apply in_app_or in Hb. destruct Hb as [Hb|Hb].
    + destruct (IHl b Hb) as (s & t3 & E & A). exists (DL :: s), t3. auto.
    + destruct (IHr b Hb) as (s & t3 & E & A). exists (DR :: s), t3. auto.
Qed.
Lemma prefix_of_addr : forall q1 ctx q2 t1 t2, NoDup (iaddrs ctx) -> isub ctx q1 = Some t1 -> isub ctx q2 = Some t2 -> In (iaddr t2) (iaddrs t1) -> is_prefix q1 q2 = true.
Proof.
  induction q1 as [|d q1 IH]; intros ctx q2 t1 t2 ND E1 E2 Hin; [reflexivity|].
  destruct q2 as [|d2 q2].
  - cbn [isub] in E2. inversion E2; subst t2. exfalso.
    pose proof (isub_incl _ _ _ E1) as INC. cbn [isub] in E1.
    destruct ctx as [| |a u c|a k l r]; destruct d; try discriminate; cbn [iaddr iaddrs] in *; inversion ND as [|? ? NA ND']; subst; apply NA.
    + eapply (isub_incl _ _ _ E1); eauto.
    + apply in_or_app. left. eapply (isub_incl _ _ _ E1); eauto.
    + apply in_or_app. right. eapply (isub_incl _ _ _ E1); eauto.
  - cbn [isub] in E1, E2. cbn [is_prefix].
    destruct ctx as [| |a u c|a k l r]; destruct d, d2; try discriminate; cbn [iaddrs dir_eqb andb] in *; inversion ND as [|? ? NA ND']; subst.
    + apply (IH c q2 t1 t2); auto.
    + destruct (NoDup_app_inv _ _ ND') as (N1 & N2 & D). apply (IH l q2 t1 t2); auto.
    + exfalso. destruct (NoDup_app_inv _ _ ND') as (N1 & N2 & D). apply (D (iaddr t2)).
      * eapply (isub_incl _ _ _ E1); eauto.
      * eapply (isub_incl _ _ _ E2). apply iaddr_in.
    + exfalso. destruct (NoDup_app_inv _ _ ND') as (N1 & N2 & D). apply (D (iaddr t2)).
      * eapply (isub_incl _ _ _ E2). apply iaddr_in.
      * eapply (isub_incl _ _ _ E1); eauto.
    + destruct (NoDup_app_inv _ _ ND') as (N1 & N2 & D). apply (IH r q2 t1 t2); auto.
Qed.
Lemma is_prefix_app q s : is_prefix q (q ++ s) = true.
Proof. induction q as [|d q IH]; [reflexivity|]. cbn. destruct d; exact IH. Qed.
Lemma prefix_comparable : forall a b c, is_prefix a c = true -> is_prefix b c = true -> is_prefix a b || is_prefix b a = true.
Proof.
  induction a as [|x a IH]; intros b c Ha Hb; [reflexivity|].
  destruct b as [|y b]; [reflexivity|]. destruct c as [|z c]; [discriminate|]. cbn [is_prefix] in *.
  apply andb_prop in Ha. destruct Ha as (X1 & Ha). apply andb_prop in Hb. destruct Hb as (Y1 & Hb).
  assert (dir_eqb x y = true /\ dir_eqb y x = true) as (-> & ->) by (destruct x, y, z; try discriminate; auto). cbn [andb]. eauto.
Qed.

Definition claim_addrs (ctx:iexpr) (c:path*bool) : list nat :=
  match isub ctx (fst c) with Some t => if snd c then iaddrs t else [iaddr t] | None => [] end.
Lemma caddrs_flat ctx pl : caddrs ctx pl = flat_map (claim_addrs ctx) (claims pl).
Proof.
  induction pl as [q|e|k l IHl r IHr|u c IH|q l IHl r IHr]; cbn [caddrs claims flat_map]; rewrite ?flat_map_app, ?app_nil_r; try congruence.
  - unfold claim_addrs. cbn [fst snd]. destruct (isub ctx q); reflexivity.
  - unfold claim_addrs at 1. cbn [fst snd]. rewrite IHl, IHr. reflexivity.
Qed.
Lemma apart_disjoint ctx c1 c2 : NoDup (iaddrs ctx) -> apart c1 c2 = true -> forall b, In b (claim_addrs ctx c1) -> In b (claim_addrs ctx c2) -> False.
Proof.
  intros ND AP b. destruct c1 as [q1 s1], c2 as [q2 s2]. unfold claim_addrs. cbn [fst snd].
  destruct (isub ctx q1) as [t1|] eqn:E1; [|intros []]. destruct (isub ctx q2) as [t2|] eqn:E2; [|intros _ []].
  destruct s1, s2; cbn [apart] in AP.
  - intros H1 H2. apply andb_prop in AP. destruct AP as (A1 & A2). apply negb_true_iff in A1, A2.
    destruct (sub_addr t2 b H2) as (s & t3 & E3 & <-).
    assert (X : is_prefix q1 (q2 ++ s) = true). { eapply (prefix_of_addr q1 ctx (q2 ++ s) t1 t3); eauto. rewrite isub_app, E2. exact E3. }
    pose proof (prefix_comparable q1 q2 (q2 ++ s) X (is_prefix_app q2 s)) as Y. rewrite A1, A2 in Y. discriminate.
  - intros H1 [<-|[]]. apply negb_true_iff in AP. rewrite (prefix_of_addr q1 ctx q2 t1 t2 ND E1 E2 H1) in AP. discriminate.
  - intros [<-|[]] H2. apply negb_true_iff in AP. rewrite (prefix_of_addr q2 ctx q1 t2 t1 ND E2 E1 H2) in AP. discriminate.
  - intros [<-|[]] [E|[]]. apply negb_true_iff in AP. unfold path_eqb in AP.
    rewrite (prefix_of_addr q1 ctx q2 t1 t2 ND E1 E2) in AP by (rewrite E; apply iaddr_in).
    rewrite (prefix_of_addr q2 ctx q1 t2 t1 ND E2 E1) in AP by (rewrite <- E; apply iaddr_in). discriminate.
Qed.
Lemma linear_nodup ctx pl : NoDup (iaddrs ctx) -> linearb pl = true -> NoDup (caddrs ctx pl).
Proof.
  intros ND. unfold linearb. rewrite caddrs_flat. induction (claims pl) as [|c rest IH]; cbn [all_apart flat_map]; [constructor|].
  intros H. apply andb_prop in H. destruct H as (H1 & H2). apply NoDup_app_intro; auto.
  - unfold claim_addrs. destruct (isub ctx (fst c)) as [t|] eqn:E; [|constructor]. destruct (snd c); [eapply isub_nodup; eauto|constructor; [intros []|constructor]].
  - intros b B1 B2. apply in_flat_map in B2. destruct B2 as (c2 & I2 & B2). rewrite forallb_forall in H1. eapply (apart_disjoint ctx c c2); eauto.
Qed.

(* a represented tree represents its subtrees *)
Lemma irep_sub : forall q t t' h p, isub t q = Some t' -> irep h t p -> exists p', irep h t' p'.
Proof.
  induction q as [|d q IH]; intros t t' h p; cbn [isub]; [intros [= ->]; eauto|].
  destruct t as [| |a u c|a k l r]; destruct d; try discriminate; cbn [irep]; intros E (nd & R).
  - apply (IH c t' h (Some a)); tauto.
  - apply (IH l t' h (Some a)); tauto.
  - apply (IH r t' h (Some a)); tauto.
Qed.
Lemma pre_of_irep pl : forall ctx h p e, irep h ctx p -> erasep (ierase ctx) pl = Some e -> pre h ctx pl.
Proof.
  induction pl as [q|e0|k l IHl r IHr|u c IH|q l IHl r IHr]; intros ctx h p e R E; cbn [pre erasep] in *.
  - destruct (subtree_isub _ _ _ E) as (t & Et & _). destruct (irep_sub _ _ _ _ _ Et R) as (p' & R'). eauto.
  - exact I.
  - destruct (erasep (ierase ctx) l) eqn:E1; [|discriminate]. destruct (erasep (ierase ctx) r) eqn:E2; [|discriminate]. split; eauto.
  - destruct (erasep (ierase ctx) c) eqn:E1; [|discriminate]. eauto.
  - destruct (subtree (ierase ctx) q) as [s|] eqn:Es; [|discriminate]. destruct s as [| | |k0 s1 s2]; try discriminate.
    destruct (erasep (ierase ctx) l) eqn:E1; [|discriminate]. destruct (erasep (ierase ctx) r) eqn:E2; [|discriminate].
    destruct (subtree_isub _ _ _ Es) as (t & Et & Er). destruct t as [| | |a k1 l0 r0]; try discriminate. cbn [ierase] in Er. inversion Er; subst.
    destruct (irep_sub _ _ _ _ _ Et R) as (p' & R'). cbn [irep] in R'. destruct R' as (nd & Hn & Hc & _).
    split; [exists a, k0, l0, r0, nd; auto|]. split; eauto.
Qed.

(* ---------- done(): the result under the saved parent ---------- *)
Definition set_child (d:dir) (c:nat) (nd:hnode) : hnode := match d with DL => set_l (Some c) nd | DR => set_r (Some c) nd end.
Lemma iaddr_ireplace T q d n : isub T (q ++ [d]) <> None -> iaddr (ireplace T (q ++ [d]) n) = iaddr T.
Proof. destruct q as [|d0 q]; cbn [app]; [destruct T as [| |a u c|a k l r]; destruct d|destruct T as [| |a u c|a k l r]; destruct d0]; cbn [isub ireplace iaddr]; congruence. Qed.

Lemma graft : forall q0 T d S par t' h h2 p,
  irep h T p -> NoDup (iaddrs T) -> isub T q0 = Some par -> isub par [d] = Some S ->
  (forall b, In b (iaddrs T) -> ~ In b (iaddrs S) -> b <> iaddr par -> nth_error h2 b = nth_error h b) ->
  (forall nd, nth_error h (iaddr par) = Some nd -> nth_error h2 (iaddr par) = Some (set_child d (iaddr t') nd)) ->
  irep h2 t' (Some (iaddr par)) -> NoDup (iaddrs t') ->
  (forall b, In b (iaddrs t') -> In b (iaddrs S) \/ ~ In b (iaddrs T)) ->
  irep h2 (ireplace T (q0 ++ [d]) t') p /\ NoDup (iaddrs (ireplace T (q0 ++ [d]) t')) /\
  (forall b, In b (iaddrs (ireplace T (q0 ++ [d]) t')) -> In b (iaddrs T) \/ In b (iaddrs t')).
Proof.
  induction q0 as [|d0 q0 IH]; intros T d S par t' h h2 p R ND Ep Es F P R' ND' D.
  - cbn [isub] in Ep. inversion Ep; subst par. cbn [app].
    destruct T as [| |a u c|a k l r]; destruct d; cbn [isub] in Es; try discriminate; inversion Es; subst S;
      cbn [irep iaddr iaddrs ireplace] in *; destruct R as (nd & Hn & R); inversion ND as [|? ? NA NDc]; subst.
    + (* unary *) split; [|split].
      * exists (set_r (Some (iaddr t')) nd). split; [now apply P|]. cbn [set_r h_cls h_l h_r h_p]. repeat (split; [tauto||reflexivity|]). exact R'.
      * constructor; [|exact ND']. intros Hin. destruct (D _ Hin) as [X|X]; [contradiction|apply X; now left].
      * intros b [<-|Hb]; [left; now left|auto].
    + (* left child replaced *)
      destruct (NoDup_app_inv _ _ NDc) as (N1 & N2 & DIS). split; [|split].
      * exists (set_l (Some (iaddr t')) nd). split; [now apply P|]. cbn [set_l h_cls h_l h_r h_p]. repeat (split; [tauto||reflexivity|]).
        apply (irep_frame r h h2); [|tauto]. intros b Hb. apply F; [right; apply in_or_app; auto| |].
        -- intros Hl. now apply (DIS b).
        -- intros ->. apply NA. apply in_or_app. auto.
      * constructor.
        -- intros Hin. apply in_app_or in Hin. destruct Hin as [Hin|Hin]; [|apply NA; apply in_or_app; auto].
           destruct (D _ Hin) as [X|X]; [apply NA; apply in_or_app; auto|apply X; now left].
        -- apply NoDup_app_intro; auto. intros b B1 B2. destruct (D _ B1) as [X|X]; [now apply (DIS b)|apply X; right; apply in_or_app; auto].
      * intros b [<-|Hb]; [left; now left|]. apply in_app_or in Hb. destruct Hb; [auto|left; right; apply in_or_app; auto].
    + (* right child replaced *)
      destruct (NoDup_app_inv _ _ NDc) as (N1 & N2 & DIS). split; [|split].
      * exists (set_r (Some (iaddr t')) nd). split; [now apply P|]. cbn [set_r h_cls h_l h_r h_p]. repeat (split; [tauto||reflexivity|]). split; [|exact R'].
        apply (irep_frame l h h2); [|tauto]. intros b Hb. apply F; [right; apply in_or_app; auto| |].
        -- intros Hr. now apply (DIS b).
        -- intros ->. apply NA. apply in_or_app. auto.
      * constructor.
        -- intros Hin. apply in_app_or in Hin. destruct Hin as [Hin|Hin]; [apply NA; apply in_or_app; auto|].
           destruct (D _ Hin) as [X|X]; [apply NA; apply in_or_app; auto|apply X; now left].
        -- apply NoDup_app_intro; auto. intros b B1 B2. destruct (D _ B2) as [X|X]; [now apply (DIS b)|apply X; right; apply in_or_app; auto].
      * intros b [<-|Hb]; [left; now left|]. apply in_app_or in Hb. destruct Hb; [left; right; apply in_or_app; auto|auto].
  - cbn [app]. assert (VAL : forall X, isub X q0 = Some par -> isub X (q0 ++ [d]) <> None) by (intros X HX; rewrite isub_app, HX, Es; discriminate).
    destruct T as [| |a u c|a k l r]; destruct d0; cbn [isub] in Ep; try discriminate;
      cbn [irep iaddr iaddrs ireplace] in *; destruct R as (nd & Hn & R); inversion ND as [|? ? NA NDc]; subst.
    + (* below a unary node *)
      assert (SI : incl (iaddrs S) (iaddrs c)). { intros b Hb. apply (isub_incl _ _ _ Ep). apply (isub_incl _ _ _ Es). exact Hb. }
      assert (PI : In (iaddr par) (iaddrs c)) by (apply (isub_incl _ _ _ Ep); apply iaddr_in).
      destruct (IH c d S par t' h h2 (Some a)) as (R1 & N1 & I1); try tauto.
      { intros b Hb. apply F. now right. } { intros b Hb. destruct (D b Hb); [auto|right]. intros X. apply H. now right. }
      assert (Ha : nth_error h2 a = nth_error h a). { apply F; [now left| |]. intros X; apply NA; auto. intros ->. contradiction. }
      split; [|split].
      * exists nd. rewrite Ha. split; [exact Hn|]. rewrite iaddr_ireplace by (apply (VAL c Ep)). tauto.
      * constructor; [|exact N1]. intros Hin. destruct (I1 _ Hin) as [X|X]; [contradiction|]. destruct (D _ X) as [Y|Y]; [apply NA; auto|apply Y; now left].
      * intros b [<-|Hb]; [left; now left|]. destruct (I1 _ Hb); [left; now right|auto].
    + (* in the left subtree *)
      destruct (NoDup_app_inv _ _ NDc) as (N1 & N2 & DIS).
      assert (SI : incl (iaddrs S) (iaddrs l)). { intros b Hb. apply (isub_incl _ _ _ Ep). apply (isub_incl _ _ _ Es). exact Hb. }
      assert (PI : In (iaddr par) (iaddrs l)) by (apply (isub_incl _ _ _ Ep); apply iaddr_in).
      destruct (IH l d S par t' h h2 (Some a)) as (R1 & M1 & I1); try tauto.
      { intros b Hb. apply F. right. apply in_or_app. auto. } { intros b Hb. destruct (D b Hb); [auto|right]. intros X. apply H. right. apply in_or_app. auto. }
      assert (Ha : nth_error h2 a = nth_error h a).
      { apply F; [now left| |]. intros X; apply NA; apply in_or_app; auto. intros ->. apply NA; apply in_or_app; auto. }
      split; [|split].
      * exists nd. rewrite Ha. split; [exact Hn|]. rewrite iaddr_ireplace by (apply (VAL l Ep)). repeat (split; [tauto|]).
        apply (irep_frame r h h2); [|tauto]. intros b Hb. apply F; [right; apply in_or_app; auto| |].
        -- intros X. apply (DIS b); auto.
        -- intros ->. apply (DIS (iaddr par)); auto.
      * constructor.
        -- intros Hin. apply in_app_or in Hin. destruct Hin as [Hin|Hin]; [|apply NA; apply in_or_app; auto].
           destruct (I1 _ Hin) as [X|X]; [apply NA; apply in_or_app; auto|]. destruct (D _ X) as [Y|Y]; [apply NA; apply in_or_app; auto|apply Y; now left].
        -- apply NoDup_app_intro; auto. intros b B1 B2. destruct (I1 _ B1) as [X|X]; [now apply (DIS b)|].
           destruct (D _ X) as [Y|Y]; [apply (DIS b); auto|apply Y; right; apply in_or_app; auto].
      * intros b [<-|Hb]; [left; now left|]. apply in_app_or in Hb. destruct Hb as [Hb|Hb]; [|left; right; apply in_or_app; auto].
        destruct (I1 _ Hb); [left; right; apply in_or_app; auto|auto].
    + (* in the right subtree *)
      destruct (NoDup_app_inv _ _ NDc) as (N1 & N2 & DIS).
      assert (SI : incl (iaddrs S) (iaddrs r)). { intros b Hb. apply (isub_incl _ _ _ Ep). apply (isub_incl _ _ _ Es). exact Hb. }
      assert (PI : In (iaddr par) (iaddrs r)) by (apply (isub_incl _ _ _ Ep); apply iaddr_in).
      destruct (IH r d S par t' h h2 (Some a)) as (R1 & M1 & I1); try tauto.
      { intros b Hb. apply F. right. apply in_or_app. auto. } { intros b Hb. destruct (D b Hb); [auto|right]. intros X. apply H. right. apply in_or_app. auto. }
      assert (Ha : nth_error h2 a = nth_error h a).
      { apply F; [now left| |]. intros X; apply NA; apply in_or_app; auto. intros ->. apply NA; apply in_or_app; auto. }
      split; [|split].
      * exists nd. rewrite Ha. split; [exact Hn|]. rewrite iaddr_ireplace by (apply (VAL r Ep)). repeat (split; [tauto|]). split; [|exact R1].
        apply (irep_frame l h h2); [|tauto]. intros b Hb. apply F; [right; apply in_or_app; auto| |].
        -- intros X. apply (DIS b); auto.
        -- intros ->. apply (DIS (iaddr par)); auto.
      * constructor.
        -- intros Hin. apply in_app_or in Hin. destruct Hin as [Hin|Hin]; [apply NA; apply in_or_app; auto|].
           destruct (I1 _ Hin) as [X|X]; [apply NA; apply in_or_app; auto|]. destruct (D _ X) as [Y|Y]; [apply NA; apply in_or_app; auto|apply Y; now left].
        -- apply NoDup_app_intro; auto. intros b B1 B2. destruct (I1 _ B2) as [X|X]; [now apply (DIS b)|].
           destruct (D _ X) as [Y|Y]; [apply (DIS b); auto|apply Y; right; apply in_or_app; auto].
      * intros b [<-|Hb]; [left; now left|]. apply in_app_or in Hb. destruct Hb as [Hb|Hb]; [left; right; apply in_or_app; auto|].
        destruct (I1 _ Hb); [left; right; apply in_or_app; auto|auto].
Qed.

(* ---------- a whole rewrite: exec at the attachment point, then done() ---------- *)

Lemma caddrs_incl ctx pl : forall b, In b (caddrs ctx pl) -> In b (iaddrs ctx).
Proof.
  induction pl as [q|e|k l IHl r IHr|u c IH|q l IHl r IHr]; intros b; cbn [caddrs].
  - destruct (isub ctx q) eqn:E; [|intros []]. apply (isub_incl _ _ _ E).
  - intros [].
  - intros Hb. apply in_app_or in Hb. destruct Hb; auto.
  - auto.
  - destruct (isub ctx q) eqn:E; cbn [app]; intros Hb.
    + destruct Hb as [<-|Hb]; [apply (isub_incl _ _ _ E); apply iaddr_in|]. apply in_app_or in Hb. destruct Hb; auto.
    + apply in_app_or in Hb. destruct Hb; auto.
Qed.
Lemma ierase_ireplace : forall q T n, isub T q <> None -> ierase (ireplace T q n) = replace (ierase T) q (ierase n).
Proof.
  induction q as [|d q IH]; intros T n V; [reflexivity|].
  destruct T as [| |a u c|a k l r]; destruct d; cbn [isub ireplace ierase replace] in *; try congruence; now rewrite IH.
Qed.
Theorem run_plan_wf whole h q ctx pl e :
  wf_tree h whole -> isub whole q = Some ctx -> linearb pl = true -> erasep (ierase ctx) pl = Some e -> (q = [] -> top_ok pl = true) ->
  exists h' T', run_plan whole q pl h = Some (h', iaddr T') /\ wf_tree h' T' /\ ierase T' = replace (ierase whole) q e /\
    (forall b, b < length h -> ~ In b (iaddrs whole) -> nth_error h' b = nth_error h b) /\
    (forall b, In b (iaddrs T') -> In b (iaddrs whole) \/ length h <= b).
Proof.
  intros (R & ND) Ec LIN E TOP. unfold run_plan. rewrite Ec.
  destruct (irep_sub _ _ _ _ _ Ec R) as (pc & Rc).
  pose proof (isub_nodup _ _ _ Ec ND) as NDc.
  pose proof (pre_of_irep pl ctx h pc e Rc E) as PRE.
  pose proof (linear_nodup ctx pl NDc LIN) as NDp.
  destruct (exec_ok pl ctx h e PRE NDp E) as (h1 & t' & X & Et & Rt & NDt & RG & LE & FR). rewrite X.
  assert (INW : forall b, In b (iaddrs whole) -> b < length h) by (intros b Hb; exact (irep_in_heap whole h None b R Hb)).
  assert (CI : forall b, In b (caddrs ctx pl) -> In b (iaddrs whole)) by (intros b Hb; apply (isub_incl _ _ _ Ec); now apply (caddrs_incl ctx pl)).
  destruct (parent_path q) as [[q0 d]|] eqn:PP.
  - (* attached under the saved parent *)
    pose proof (parent_path_app _ _ _ PP) as ->. rewrite isub_app in Ec. destruct (isub whole q0) as [par|] eqn:Ep; [|discriminate].
    set (pa := iaddr par). set (h2 := attach h1 pa d (iaddr t')).
    assert (PAW : In pa (iaddrs whole)) by (apply (isub_incl _ _ _ Ep); apply iaddr_in).
    assert (PAC : ~ In pa (iaddrs ctx)).
    { pose proof (isub_nodup _ _ _ Ep ND) as NDpar. unfold pa. destruct par as [| |a u c|a k l r]; destruct d; cbn [isub] in Ec; try discriminate; inversion Ec; subst ctx;
        cbn [iaddr iaddrs] in *; inversion NDpar as [|? ? NA N']; subst; auto; intros Hin; apply NA; apply in_or_app; auto. }
    assert (PAT : ~ In pa (iaddrs t')). { intros Hin. destruct (RG _ Hin) as [Hc|Hf]; [apply PAC; now apply (caddrs_incl ctx pl)|apply INW in PAW; lia]. }
    assert (NTH : forall x, nth_error h2 x = if Nat.eqb x pa then option_map (set_child d (iaddr t')) (nth_error h1 x)
                                            else if Nat.eqb x (iaddr t') then option_map (set_p (Some pa)) (nth_error h1 x) else nth_error h1 x).
    { intros x. unfold h2, attach. assert (pa <> iaddr t') by (intros Q; apply PAT; rewrite Q; apply iaddr_in).
      destruct d; unfold link_l, link_r; rewrite !nth_upd; eqb_cases; try congruence; reflexivity. }
    destruct (graft q0 whole d ctx par t' h h2 None R ND Ep Ec) as (R2 & ND2 & I2).
    + intros b Hb Nc Np. rewrite NTH. destruct (Nat.eqb_spec b pa); [contradiction|].
      destruct (Nat.eqb_spec b (iaddr t')) as [->|_].
      * exfalso. destruct (RG _ (iaddr_in t')) as [Hc|Hf]; [apply Nc; now apply (caddrs_incl ctx pl)|apply INW in Hb; lia].
      * apply FR; [now apply INW|]. intros Hc. apply Nc. now apply (caddrs_incl ctx pl).
    + intros nd Hn. fold pa in Hn |- *. rewrite NTH, Nat.eqb_refl. rewrite FR; [now rewrite Hn|now apply INW|]. intros Hc. apply PAC. now apply (caddrs_incl ctx pl).
    + apply (irep_reparent t' h1 h2 (old_parent h (iaddr t'))); auto.
      * intros b Hb Nb. rewrite NTH. destruct (Nat.eqb_spec b pa) as [->|_]; [contradiction|]. destruct (Nat.eqb_spec b (iaddr t')); [contradiction|reflexivity].
      * intros nd Hn. rewrite NTH. destruct (Nat.eqb_spec (iaddr t') pa) as [Q|_]; [exfalso; apply PAT; rewrite <- Q; apply iaddr_in|]. rewrite Nat.eqb_refl, Hn. reflexivity.
    + exact NDt.
    + intros b Hb. destruct (RG _ Hb) as [Hc|Hf]; [left; now apply (caddrs_incl ctx pl)|right; intros Hw; apply INW in Hw; lia].
    + exists h2, (ireplace whole (q0 ++ [d]) t'). split; [|split; [|split; [|split]]].
      * f_equal. f_equal. symmetry. apply iaddr_ireplace. rewrite isub_app, Ep, Ec. discriminate.
      * split; assumption.
      * rewrite ierase_ireplace by (rewrite isub_app, Ep, Ec; discriminate). now rewrite Et.
      * intros b Hb Nw. rewrite NTH. destruct (Nat.eqb_spec b pa) as [->|_]; [contradiction|].
        destruct (Nat.eqb_spec b (iaddr t')) as [->|_]; [exfalso; destruct (RG _ (iaddr_in t')); [auto|lia]|]. apply FR; auto.
      * intros b Hb. destruct (I2 _ Hb) as [Hw|Ht]; [auto|]. destruct (RG _ Ht); auto.
  - (* the result is the new root *)
    apply parent_path_none in PP. subst q. cbn [isub] in Ec. inversion Ec; subst ctx. cbn [replace].
    exists h1, t'. split; [reflexivity|]. split; [|split; [exact Et|split]].
    + split; [|exact NDt]. specialize (TOP eq_refl).
      assert (OP : old_parent h (iaddr t') = None); [|now rewrite <- OP].
      unfold old_parent. destruct (nth_error h (iaddr t')) as [nd|] eqn:Hn; [|reflexivity].
      assert (AL : iaddr t' < length h) by (apply nth_error_Some; congruence).
      destruct pl as [[|? ?]|e0|k l r|u c|[|? ?] l r]; try discriminate TOP; cbn [exec isub] in X.
      * inversion X as [[Hh Ha]]. destruct (irep_root _ _ _ R) as (nd' & Hn' & Hp'). rewrite <- Ha in Hn. congruence.
      * exfalso. destruct (alloc h e0) as [hh aa] eqn:A. inversion X; subst. destruct (alloc_ok _ _ _ _ A) as (t0 & _ & At0 & _ & _ & RG0 & _). pose proof (RG0 _ (iaddr_in t0)). lia.
      * exfalso. destruct (exec whole l h) as [[hl al]|] eqn:XL; [|discriminate]. destruct (exec whole r hl) as [[hr ar]|] eqn:XR; [|discriminate]. inversion X as [[Hh Ha]].
        cbn [pre erasep caddrs] in *. destruct PRE as (P1 & P2). destruct (NoDup_app_inv _ _ NDp) as (N1 & N2 & DIS).
        destruct (erasep (ierase whole) l) as [e1|] eqn:E1; [|discriminate]. destruct (erasep (ierase whole) r) as [e2|] eqn:E2; [|discriminate].
        destruct (exec_ok l whole h e1 P1 N1 E1) as (h1' & t1 & X1 & _ & _ & _ & _ & LE1 & FR1). rewrite XL in X1. inversion X1; subst h1'.
        assert (P2' : pre hl whole r).
        { apply (pre_frame whole r h hl); [|exact P2]. intros b Hb. apply FR1; [now apply (caddrs_in_heap whole r h)|]. intros Hb1. now apply (DIS b). }
        destruct (exec_ok r whole hl e2 P2' N2 E2) as (h2' & t2 & X2 & _ & _ & _ & _ & LE2 & _). rewrite XR in X2. inversion X2; subst h2'. lia.
      * exfalso. destruct (exec whole c h) as [[hc ac]|] eqn:XC; [|discriminate]. inversion X as [[Hh Ha]].
        cbn [pre erasep caddrs] in *. destruct (erasep (ierase whole) c) as [e1|] eqn:E1; [|discriminate].
        destruct (exec_ok c whole h e1 PRE NDp E1) as (h1' & t1 & X1 & _ & _ & _ & _ & LE1 & _). rewrite XC in X1. inversion X1; subst h1'. lia.
      * destruct whole as [| | |a k0 l0 r0]; try discriminate. destruct (exec _ l h) as [[hl al]|]; [|discriminate]. destruct (exec _ r hl) as [[hr ar]|]; [|discriminate].
        inversion X as [[Hh Ha]]. destruct (irep_root _ _ _ R) as (nd' & Hn' & Hp'). cbn [iaddr] in Hn'. rewrite <- Ha in Hn. congruence.
    + intros b Hb Nw. apply FR; auto.
    + intros b Hb. destruct (RG _ Hb); auto.
Qed.
