(* Traversals, look-ups and rotation on shapes (C14, C15 at tree level). *)
From Coq Require Import List Arith Lia Bool Permutation.
From Mathy Require Import Bt.
Import ListNotations.

Section V.
Context {A S:Type}.
Variable f : S -> A -> nat -> S * bool.

Lemma run_app l1 l2 s : run f (l1 ++ l2) s = let (s1,st) := run f l1 s in if st then (s1,true) else run f l2 s1.
Proof.
  revert s; induction l1 as [|[a d] l1 IH]; intros s; simpl; [reflexivity|].
  destruct (f s a d) as [s1 st]. destruct st; [reflexivity|apply IH].
Qed.

Theorem visit_pre_spec t : forall d s, visit_pre f t d s = run f (pre t d) s.
Proof.
  induction t as [|l IHl a r IHr]; intros d s; simpl; [reflexivity|].
  destruct (f s a d) as [s1 st]. destruct st; [reflexivity|].
  rewrite run_app, <- IHl. destruct (visit_pre f l (d+1) s1) as [s2 st2]. destruct st2; [reflexivity|apply IHr].
Qed.
Theorem visit_in_spec t : forall d s, visit_in f t d s = run f (ino t d) s.
Proof.
  induction t as [|l IHl a r IHr]; intros d s; simpl; [reflexivity|].
  rewrite run_app, <- IHl. destruct (visit_in f l (d+1) s) as [s1 st]. destruct st; [reflexivity|].
  simpl. destruct (f s1 a d) as [s2 st2]. destruct st2; [reflexivity|apply IHr].
Qed.
Theorem visit_post_spec t : forall d s, visit_post f t d s = run f (post t d) s.
Proof.
  induction t as [|l IHl a r IHr]; intros d s; simpl; [reflexivity|].
  rewrite run_app, <- IHl. destruct (visit_post f l (d+1) s) as [s1 st]. destruct st; [reflexivity|].
  rewrite run_app, <- IHr. destruct (visit_post f r (d+1) s1) as [s2 st2]. destruct st2; [reflexivity|].
  simpl. destruct (f s2 a d) as [s3 st3]. destruct st3; reflexivity.
Qed.
End V.

Lemma run_logger {A} (stop:A -> nat -> bool) l : forall log,
  run (logger stop) l log = (log ++ upto stop l, existsb (fun p => stop (fst p) (snd p)) l).
Proof.
  induction l as [|[a d] l IH]; intros log; cbn [run upto existsb fst snd]; [now rewrite app_nil_r|].
  change (logger stop log a d) with (log ++ [(a,d)], stop a d).
  destruct (stop a d) eqn:St; cbn [orb]; [reflexivity|].
  rewrite IH. now rewrite <- app_assoc.
Qed.

(* the visitor is called exactly on the prefix of the defining order up to and including the first STOP,
   each call with the node's true depth, and the traversal returns STOP iff some call did *)
Theorem preorder_calls {A} (stop:A -> nat -> bool) (t:bt A) :
  visit_pre (logger stop) t 0 [] = (upto stop (pre t 0), existsb (fun p => stop (fst p) (snd p)) (pre t 0)).
Proof. rewrite visit_pre_spec. exact (run_logger stop (pre t 0) []). Qed.
Theorem inorder_calls {A} (stop:A -> nat -> bool) (t:bt A) :
  visit_in (logger stop) t 0 [] = (upto stop (ino t 0), existsb (fun p => stop (fst p) (snd p)) (ino t 0)).
Proof. rewrite visit_in_spec. exact (run_logger stop (ino t 0) []). Qed.
Theorem postorder_calls {A} (stop:A -> nat -> bool) (t:bt A) :
  visit_post (logger stop) t 0 [] = (upto stop (post t 0), existsb (fun p => stop (fst p) (snd p)) (post t 0)).
Proof. rewrite visit_post_spec. exact (run_logger stop (post t 0) []). Qed.

(* every node exactly once: the three orders are permutations of each other *)
Lemma orders_perm {A} (t:bt A) d : Permutation (pre t d) (ino t d) /\ Permutation (post t d) (ino t d).
Proof.
  revert d; induction t as [|l IHl a r IHr]; intros d; simpl; [split; constructor|].
  destruct (IHl (d+1)) as (Pl & Ql), (IHr (d+1)) as (Pr & Qr). split.
  - apply Permutation_cons_app. now apply Permutation_app.
  - rewrite app_assoc. eapply perm_trans; [apply Permutation_app_comm|]. simpl.
    apply Permutation_cons_app. now apply Permutation_app.
Qed.
Lemma order_lengths {A} (t:bt A) d : length (pre t d) = bsize t /\ length (ino t d) = bsize t /\ length (post t d) = bsize t.
Proof.
  revert d; induction t as [|l IHl a r IHr]; intros d; simpl; auto.
  destruct (IHl (d+1)) as (A1 & A2 & A3), (IHr (d+1)) as (B1 & B2 & B3).
  rewrite !app_length. simpl. rewrite ?app_length. simpl. lia.
Qed.

(* look-ups *)
Lemma run_collect {A} (l:list (A*nat)) : forall acc,
  run (fun (acc:list A) a (_:nat) => (acc ++ [a], false)) l acc = (acc ++ map fst l, false).
Proof. induction l as [|[a d] l IH]; intros acc; simpl; [now rewrite app_nil_r|]. rewrite IH, <- app_assoc. reflexivity. Qed.
Theorem to_list_spec {A} (o:order) (t:bt A) :
  to_list o t = map fst (match o with OPre => pre t 0 | OIn => ino t 0 | OPost => post t 0 end).
Proof.
  unfold to_list. destruct o; [rewrite visit_pre_spec|rewrite visit_in_spec|rewrite visit_post_spec]; now rewrite run_collect.
Qed.
Lemma run_find {A} (eqb:A -> bool) (l:list (A*nat)) : forall acc,
  fst (run (fun (acc:option A) a (_:nat) => if eqb a then (Some a, true) else (acc, false)) l acc) =
  match find eqb (map fst l) with Some a => Some a | None => acc end.
Proof. induction l as [|[a d] l IH]; intros acc; simpl; [reflexivity|]. destruct (eqb a); [reflexivity|apply IH]. Qed.
(* find_id returns the FIRST node in in-order with that id (None if there is none) *)
Theorem find_id_spec {A} (eqb:A -> bool) (t:bt A) : find_id eqb t = find eqb (inorder t).
Proof. unfold find_id, inorder. rewrite visit_in_spec, run_find. now destruct (find eqb (map fst (ino t 0))). Qed.
Lemma run_filter {A} (p:A -> bool) (l:list (A*nat)) : forall acc,
  run (fun (acc:list A) a (_:nat) => (if p a then acc ++ [a] else acc, false)) l acc = (acc ++ filter p (map fst l), false).
Proof.
  induction l as [|[a d] l IH]; intros acc; simpl; [now rewrite app_nil_r|]. rewrite IH. destruct (p a); [now rewrite <- app_assoc|reflexivity].
Qed.
Theorem find_type_spec {A} (p:A -> bool) (t:bt A) : find_type p t = filter p (inorder t).
Proof. unfold find_type, inorder. now rewrite visit_in_spec, run_filter. Qed.

(* ---------- rotation preserves the in-order sequence ---------- *)
Lemma ino_shift {A} (t:bt A) d d' : map fst (ino t d) = map fst (ino t d').
Proof.
  revert d d'; induction t as [|l IHl a r IHr]; intros d d'; simpl; [reflexivity|].
  rewrite !map_app. simpl. now rewrite (IHl (d+1) (d'+1)), (IHr (d+1) (d'+1)).
Qed.
Lemma inorder_T {A} (l:bt A) a r : inorder (T l a r) = inorder l ++ a :: inorder r.
Proof. unfold inorder. simpl. rewrite map_app. simpl. now rewrite (ino_shift l 1 0), (ino_shift r 1 0). Qed.
Lemma inorder_E {A} : inorder (@E A) = []. Proof. reflexivity. Qed.
Lemma rot_at_inorder {A} (t:bt A) d : inorder (rot_at t d) = inorder t.
Proof.
  destruct t as [|l p r]; [destruct d; reflexivity|].
  destruct d, l as [|a n b], r as [|b' n' c]; simpl; rewrite ?inorder_T, <- ?app_assoc; reflexivity.
Qed.
Lemma bput_inorder {A} (t:bt A) q n : inorder n = inorder (bsub t q) -> inorder (bput t q n) = inorder t.
Proof.
  revert t; induction q as [|d q IH]; intros t H; simpl in *; [exact H|].
  destruct t as [|l a r]; [reflexivity|]. destruct d; rewrite !inorder_T; rewrite IH by exact H; reflexivity.
Qed.
Theorem rotate_inorder {A} (t:bt A) p : inorder (rotate_tree t p) = inorder t.
Proof. unfold rotate_tree. destruct (rev p) as [|d rq]; [reflexivity|]. apply bput_inorder. apply rot_at_inorder. Qed.
Theorem rotate_root {A} (t:bt A) : rotate_tree t [] = t.
Proof. reflexivity. Qed.
Theorem rotate_size {A} (t:bt A) p : bsize (rotate_tree t p) = bsize t.
Proof.
  pose proof (rotate_inorder t p) as H. apply (f_equal (@length A)) in H. unfold inorder in H. rewrite !map_length in H.
  destruct (order_lengths (rotate_tree t p) 0) as (_ & E1 & _), (order_lengths t 0) as (_ & E2 & _). lia.
Qed.

(* ---------- complete enumeration of shapes (reflection principle for bounded statements) ---------- *)
Lemma shapes_S f m : shapes (S f) (S m) =
  flat_map (fun k => flat_map (fun l => map (fun r => T l tt r) (shapes f (m - k))) (shapes f k)) (seq 0 (S m)).
Proof. reflexivity. Qed.
Lemma shapes_complete : forall fuel n (s:bt unit), bsize s = n -> n < fuel -> In s (shapes fuel n).
Proof.
  induction fuel as [|f IH]; intros n s Hs Hn; [lia|].
  destruct s as [|l [] r]; simpl in Hs; subst n.
  - left; reflexivity.
  - rewrite shapes_S. apply in_flat_map. exists (bsize l). split; [apply in_seq; lia|].
    apply in_flat_map. exists l. split; [apply IH; [reflexivity|lia]|].
    apply in_map. apply IH; lia.
Qed.
Lemma shapes_upto_complete N (s:bt unit) : bsize s <= N -> In s (shapes_upto N).
Proof. intros H. unfold shapes_upto. apply in_flat_map. exists (bsize s). split; [apply in_seq; lia|]. apply shapes_complete; lia. Qed.
Theorem by_enumeration (chk:bt unit -> bool) (N:nat) : forallb chk (shapes_upto N) = true -> forall s, bsize s <= N -> chk s = true.
Proof. intros H s Hs. rewrite forallb_forall in H. apply H. now apply shapes_upto_complete. Qed.
