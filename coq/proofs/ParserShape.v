(* What the parser can produce (C04): '=' only along the left spine from the root, no '=' below it, factorial only of literals,
   variables are letters. So every parsed tree whose constants have a text is in the printable class. *)
From Coq Require Import List NArith ZArith QArith Bool Lia.
From Mathy Require Import Tok Params TokSet Lexer Num Expr Parser Grammar.
From MathyProofs Require Import ParamsFacts LexerFacts ParserNF ParserSound ParserComplete ParserOperands ParserTotal ParserTop ParserValueError ShapeFacts.
Import ListNotations.
Import NF.

Definition tokwf (t:token) : Prop := tk t = TVar -> exists c, tv t = [c] /\ is_alpha c = true.
Definition P0 (e:expr) : Prop := sk0 e /\ forall v, In v (vars e) -> is_alpha v = true.

Lemma op_not_var c k : In (c, k) spec_ops -> k <> TVar.
Proof. intros H ->. revert H. vm_compute. intuition discriminate. Qed.
Lemma lex_vars_alpha kp s ts : LexSpec kp s ts -> Forall tokwf ts.
Proof.
  induction 1.
  - constructor; [intros Q; discriminate Q|constructor].
  - constructor; [intros Q; discriminate Q|assumption].
  - constructor; [intros Q; discriminate Q|assumption].
  - apply Forall_app. split; [|assumption]. unfold var_tokens. apply Forall_forall. intros t Ht. apply in_map_iff in Ht. destruct Ht as (c & <- & Hc).
    intros _. exists c. split; [reflexivity|]. rewrite forallb_forall in H0. now apply H0.
  - constructor; [|assumption]. intros Q. cbn in Q. exfalso. eapply op_not_var; eauto.
  - destruct kp; [constructor; [intros Q; discriminate Q|assumption]|assumption].
Qed.

(* the invariant *)
Definition pw {A} (P:A -> Prop) (s:st) (r:res (A * st)) : Prop := match r with Ok (x, s') => P x /\ suffix s' s | Raises _ => True end.
Lemma wf_suffix s' s : suffix s' s -> Forall tokwf s -> Forall tokwf s'.
Proof. intros (p & ->) H. apply Forall_app in H. tauto. Qed.
Lemma pw_bind0 {B} (Q:B -> Prop) s (a:res st) (k:st -> res (B * st)) :
  vg0 s a -> (forall s', suffix s' s -> pw Q s' (k s')) -> pw Q s (bind a k).
Proof.
  destruct a as [s'|x]; cbn [bind vg0]; intros H K; [|exact I].
  specialize (K s' H). unfold pw in *. destruct (k s') as [[y s'']|]; auto. destruct K. split; auto. eapply suffix_trans; eauto.
Qed.
Lemma pw_bind {A B} (P:A -> Prop) (Q:B -> Prop) s (a:res (A * st)) (k:A * st -> res (B * st)) :
  pw P s a -> (forall x s', P x -> suffix s' s -> pw Q s' (k (x, s'))) -> pw Q s (bind a k).
Proof.
  destruct a as [[x s']|x]; cbn [bind]; intros H K; [|exact I]. cbn [pw] in H. destruct H as (Hx & Hs).
  specialize (K x s' Hx Hs). unfold pw in *. destruct (k (x, s')) as [[y s'']|]; auto. destruct K. split; auto. eapply suffix_trans; eauto.
Qed.
Lemma pw_bind_num {B} (Q:B -> Prop) s (a:res num) (k:num -> res (B * st)) : (forall v, pw Q s (k v)) -> pw Q s (bind a k).
Proof. destruct a; cbn [bind pw]; auto. Qed.

Lemma P0_bin k a b : k <> KEq -> P0 a -> P0 b -> P0 (Bin k a b).
Proof.
  intros NE (A1 & A2) (B1 & B2). split.
  - destruct k; cbn [sk0]; try tauto.
  - intros v Hv. cbn [vars] in Hv. apply in_app_or in Hv. destruct Hv; auto.
Qed.
Lemma P0_fold fs : forall f0, P0 f0 -> Forall P0 fs -> P0 (fold_left (Bin KMul) fs f0).
Proof.
  induction fs as [|f fs IH]; intros f0 H0 HF; [exact H0|]. inversion HF; subst. cbn [fold_left]. apply IH; auto. apply P0_bin; auto. discriminate.
Qed.
Lemma P0_prod fs e : Forall P0 fs -> prod fs = Some e -> P0 e.
Proof. destruct fs as [|f0 r]; [discriminate|]. intros HF [= <-]. inversion HF; subst. now apply P0_fold. Qed.
Lemma P0_with_pow fs r : Forall P0 fs -> P0 r -> Forall P0 (with_pow fs r).
Proof.
  intros HF Hr. unfold with_pow. destruct (rev fs) as [|last ri] eqn:E; [constructor|].
  assert (Forall P0 (rev fs)) as HR by (apply Forall_rev; exact HF). rewrite E in HR. inversion HR; subst.
  apply Forall_app. split; [apply Forall_rev; assumption|]. constructor; [|constructor]. apply P0_bin; auto. discriminate.
Qed.

Definition PS (n:nat) : Prop :=
  (forall s, Forall tokwf s -> pw P0 s (parse_add n s)) /\
  (forall e s, P0 e -> Forall tokwf s -> pw P0 s (add_loop n e s)) /\
  (forall s, Forall tokwf s -> pw P0 s (parse_mult n s)) /\
  (forall e s, P0 e -> Forall tokwf s -> pw P0 s (mult_loop n e s)) /\
  (forall s, Forall tokwf s -> pw P0 s (parse_exponent n s)) /\
  (forall s, Forall tokwf s -> pw P0 s (parse_unary n s)) /\
  (forall b s, Forall tokwf s -> pw P0 s (parse_prefix n b s)) /\
  (forall s, Forall tokwf s -> pw P0 s (parse_factors n s)) /\
  (forall a s, Forall P0 a -> Forall tokwf s -> pw (Forall P0) s (factors_loop n a s)).

Lemma P0_const c : P0 (Const c). Proof. split; [exact I|intros v []]. Qed.
Lemma P0_un u e : u <> UFact -> u <> UAbs -> P0 e -> P0 (Un u e).
Proof. intros NE NA (A & B). split; [destruct u; cbn [sk0]; auto; contradiction|exact B]. Qed.
Lemma P0_fact c : P0 (Un UFact (Const c)). Proof. split; [cbn [sk0]; eauto|intros v []]. Qed.
Lemma P0_var s : Forall tokwf s -> is s TVar = true -> P0 (Var (varname s)).
Proof.
  intros W H. destruct s as [|t r]; [discriminate|]. inversion W as [|? ? Wt _]; subst.
  assert (tk t = TVar) as Ht by (unfold is, check in H; cbn in H; destruct (tk t); cbn in H; try discriminate; reflexivity).
  destruct (Wt Ht) as (c & Hc & Ha). split; [exact I|]. unfold varname, tval. rewrite Hc. intros v [<-|[]]. exact Ha.
Qed.

Ltac wf_chain := repeat match goal with
  | H : suffix ?a ?b, W : Forall tokwf ?b |- _ =>
    lazymatch goal with W2 : Forall tokwf a |- _ => fail | _ => pose proof (wf_suffix a b H W) end end.
Ltac ps_step :=
  wf_chain;
  first
  [ exact I
  | match goal with |- pw _ ?s (bind (next ?s) _) => apply pw_bind0; [apply vg_next | intros ] end
  | match goal with |- pw _ ?s (bind (eat ?s _) _) => apply pw_bind0; [apply vg_eat | intros ] end
  | match goal with |- pw _ _ (bind (coerce _) _) => apply pw_bind_num; intros end
  | match goal with |- pw _ _ (if ?c then _ else _) => destruct c eqn:? end
  | match goal with |- pw _ _ (match ?x with Some _ => _ | None => _ end) => destruct x eqn:? end
  | match goal with H : forall s, Forall tokwf s -> pw P0 s (?f ?n s) |- pw P0 _ (?f ?n _) => apply H; assumption end
  | match goal with H : forall b s, Forall tokwf s -> pw P0 s (?f ?n b s) |- pw P0 _ (?f ?n _ _) => apply H; assumption end
  | match goal with H : forall s, Forall tokwf s -> pw P0 s (?f ?n s) |- pw _ _ (bind (?f ?n _) _) => eapply pw_bind; [apply H; assumption | intros ] end
  | match goal with H : forall b s, Forall tokwf s -> pw P0 s (?f ?n b s) |- pw _ _ (bind (?f ?n _ _) _) => eapply pw_bind; [apply H; assumption | intros ] end
  | match goal with |- pw _ _ (Raises _) => exact I end ].

Theorem ps_all : forall n, PS n.
Proof.
  induction n as [|n (IHa & IHal & IHm & IHml & IHe & IHu & IHp & IHf & IHfl)]; [repeat split; intros; exact I|].
  repeat split; intros.
  - cbn [parse_add]. repeat ps_step. wf_chain. apply IHal; assumption.
  - cbn [add_loop]. repeat ps_step; try (cbn [pw]; split; [assumption|apply suffix_refl]).
    all: wf_chain; apply IHal; [apply P0_bin; [destruct (is _ _); discriminate|assumption|assumption]|assumption].
  - cbn [parse_mult]. repeat ps_step. wf_chain. apply IHml; assumption.
  - cbn [mult_loop]. repeat ps_step; try (cbn [pw]; split; [assumption|apply suffix_refl]).
    all: wf_chain; apply IHml; [apply P0_bin; [destruct (is _ _); discriminate|assumption|assumption]|assumption].
  - cbn [parse_exponent]. repeat ps_step; cbn [pw]; (split; [|apply suffix_refl]); auto. apply P0_bin; auto; discriminate.
  - cbn [parse_unary]. repeat ps_step.
  - cbn [parse_prefix]. repeat ps_step; cbn [pw]; (split; [|apply suffix_refl]);
      try apply P0_fact; try apply P0_const; try (apply P0_bin; [discriminate|apply P0_const|assumption]);
      try (apply P0_un; [discriminate|discriminate|assumption]); try assumption; try (destruct b; [apply P0_un; [discriminate|discriminate|assumption]|assumption]).
  - cbn [parse_factors]. eapply pw_bind; [apply IHfl; [constructor|assumption]|]. intros fs s' HF Hs. wf_chain.
    repeat ps_step; cbn [pw]; (split; [|apply suffix_refl]).
    + eapply P0_prod; [|eassumption]. apply P0_with_pow; assumption.
    + eapply P0_prod; eassumption.
  - cbn [factors_loop]. eapply (pw_bind P0).
    + repeat ps_step; cbn [pw]; (split; [|apply suffix_refl]); try assumption; try (apply P0_var; assumption); try (apply P0_un; [discriminate|discriminate|assumption]).
    + intros f s' Hf Hs. wf_chain. repeat ps_step.
      * apply IHfl; [apply Forall_app; split; [assumption|constructor; [assumption|constructor]]|assumption].
      * cbn [pw]. split; [apply Forall_app; split; [assumption|constructor; [assumption|constructor]]|apply suffix_refl].
Qed.

(* equations: '=' along the left spine *)
Fixpoint sk_spine (e:expr) : Prop := match e with Bin KEq l r => sk_spine l /\ sk0 r | _ => sk0 e end.
Definition P1 (e:expr) : Prop := sk_spine e /\ forall v, In v (vars e) -> is_alpha v = true.
Lemma P0_P1 e : P0 e -> P1 e.
Proof. intros (A & B). split; [|exact B]. destruct e as [| | |[] ? ?]; cbn [sk_spine sk0] in *; tauto. Qed.
Lemma ps_equal_loop n : forall m e s, P1 e -> Forall tokwf s -> pw P1 s (equal_loop n m e s).
Proof.
  destruct (ps_all n) as (IHa & _).
  induction m as [|m IH]; intros e s He W; [exact I|]. cbn [equal_loop]. repeat ps_step.
  - wf_chain. apply IH; [|assumption]. destruct He as (E1 & E2). match goal with H : P0 _ |- _ => destruct H as (X1 & X2) end. split.
    + cbn [sk_spine]. tauto.
    + intros v Hv. cbn [vars] in Hv. apply in_app_or in Hv. destruct Hv; auto.
  - cbn [pw]. split; [assumption|apply suffix_refl].
Qed.

Theorem parse_tokens_shape ts e : Forall tokwf ts -> parse_tokens ts = Ok e -> P1 e.
Proof.
  intros W. rewrite parse_tokens_nf. destruct ts as [|t r]; [discriminate|].
  destruct (is (t::r) TEOF); [discriminate|]. destruct (negb (check (t::r) first_unary)); [discriminate|].
  pose proof (proj1 (ps_all (parse_fuel (t::r))) (t::r) W) as G1.
  destruct (parse_add _ _) as [[e1 s1]|y]; cbn [bind pw] in *; [|discriminate]. destruct G1 as (G1 & S1).
  pose proof (ps_equal_loop (parse_fuel (t::r)) (parse_fuel (t::r)) e1 s1 (P0_P1 _ G1) (wf_suffix _ _ S1 W)) as G2.
  destruct (equal_loop _ _ e1 s1) as [[e2 s2]|y]; cbn [bind pw] in *; [|discriminate].
  destruct (is s2 TEOF); [|discriminate]. intros [= <-]. tauto.
Qed.
Theorem parse_shape s e : parse s = Ok e -> sk_spine e /\ forall v, In v (vars e) -> is_alpha v = true.
Proof.
  unfold parse. destruct (tokenize true s) as [ts|c|] eqn:T; try discriminate. intros H.
  apply (parse_tokens_shape ts e); [|exact H]. apply lex_sound in T. eapply lex_vars_alpha; eauto.
Qed.
