(* C04, part 5: integer constants of any size satisfy the round-trip condition on constants (decimal digits read back exactly). *)
From Coq Require Import List NArith ZArith QArith Bool Lia Arith.
From Mathy Require Import Tok Params TokSet Lexer Num Expr Parser Grammar Printer.
From MathyProofs Require Import ParamsFacts LexerFacts ProblemsFacts.
From MathyProofs Require Import PrintTokens.
Import ListNotations.
Local Open Scope Z_scope.

(* ---------- integer constants: the decimal text reads back to the same integer ---------- *)
Definition val (l:list N) : Z := dec_int l 0.
Lemma dec_int_acc l : forall a, dec_int l a = a * 10 ^ Z.of_nat (length l) + val l.
Proof.
  unfold val. induction l as [|c l IH]; intros a; cbn [dec_int length]; [rewrite Z.pow_0_r; lia|].
  rewrite IH, (IH (0 * 10 + digit c)). rewrite Nat2Z.inj_succ, Z.pow_succ_r by lia. ring.
Qed.
Lemma val_cons c l : val (c :: l) = digit c * 10 ^ Z.of_nat (length l) + val l.
Proof. unfold val at 1. cbn [dec_int]. rewrite dec_int_acc. ring. Qed.
Lemma val_digits : forall fuel z acc, 0 <= z < 10 ^ Z.of_nat fuel -> val (digits_pos fuel z acc) = z * 10 ^ Z.of_nat (length acc) + val acc.
Proof.
  induction fuel as [|f IH]; intros z acc Hz.
  - cbn in Hz. assert (z = 0) by lia. subst z. cbn [digits_pos]. lia.
  - cbn [digits_pos]. destruct (z <? 10) eqn:E.
    + rewrite val_cons. unfold digit. rewrite N2Z.inj_add, Z2N.id by lia. ring.
    + apply Z.ltb_ge in E. rewrite Nat2Z.inj_succ, Z.pow_succ_r in Hz by lia.
      rewrite IH by (split; [apply Z.div_pos; lia|apply Z.div_lt_upper_bound; lia]).
      cbn [length]. rewrite val_cons. unfold digit. pose proof (Z.mod_pos_bound z 10 ltac:(lia)). rewrite N2Z.inj_add, Z2N.id by lia.
      rewrite Nat2Z.inj_succ, Z.pow_succ_r by lia. pose proof (Z.div_mod z 10 ltac:(lia)). nia.
Qed.
Lemma val_show_nat z : 0 <= z -> val (show_nat z) = z.
Proof.
  intros Hz. unfold show_nat. rewrite val_digits; [cbn [length val dec_int]; lia|]. split; [exact Hz|].
  destruct (Z.eq_dec z 0) as [->|Nz]; [cbn; lia|].
  rewrite Z.max_l by lia. rewrite Nat2Z.inj_succ, Z2Nat.id by (apply Z.log2_nonneg).
  pose proof (Z.log2_spec z ltac:(lia)) as [_ H2]. eapply Z.lt_le_trans; [exact H2|]. apply Z.pow_le_mono_l. lia.
Qed.
Lemma const_text_int z : const_text (NInt z) (z <? 0) (show_nat (Z.abs z)) (NInt (Z.abs z)).
Proof.
  unfold const_text. split; [|split; [|split; [|split]]].
  - cbn [show_num]. unfold show_int. destruct (z <? 0) eqn:E; cbn [app]; [apply Z.ltb_lt in E; now rewrite Z.abs_neq by lia|apply Z.ltb_ge in E; now rewrite Z.abs_eq by lia].
  - apply forallb_forall. intros x Hx. apply digit_is_number. pose proof (show_nat_digits (Z.abs z) (Z.abs_nonneg z)) as F. rewrite Forall_forall in F. auto.
  - apply show_nat_nonempty.
  - unfold coerce. rewrite <- (app_nil_r (show_nat (Z.abs z))) at 1. rewrite split_dot_digits by (apply show_nat_digits; apply Z.abs_nonneg).
    cbn [split_dot fst snd]. rewrite app_nil_r. f_equal. f_equal. apply val_show_nat. apply Z.abs_nonneg.
  - unfold num_equiv. destruct (z <? 0) eqn:E; cbn [nneg qv]; [apply Z.ltb_lt in E|apply Z.ltb_ge in E]; unfold Qeq; cbn; lia.
Qed.
