(* Heap-level cloning (theories/Heap.v): the copy is an exact pre-order layout of the same abstract tree in fresh addresses,
   the original heap is unchanged except for the cloned_node scratch field of the node being located, and clone_from_root
   returns the copy of that very node (the address at the same pre-order position of the copy). *)
From Coq Require Import List NArith ZArith Bool Arith Lia.
From Mathy Require Import Num Heap.
Import ListNotations.

(* ---------- abstract trees and their representation in a heap ---------- *)
Inductive atree := AE | AN (c i:N) (v:option num) (x:option N) (col:bool) (l r:atree).
Fixpoint size (t:atree) : nat := match t with AE => 0 | AN _ _ _ _ _ l r => S (size l + size r) end.
(* rep h oa p t : the pointer oa (None for the empty tree) is the root of a structure shaped like t whose parent pointer is p *)
Fixpoint rep (h:heap) (oa:option nat) (p:option nat) (t:atree) : Prop :=
  match t with
  | AE => oa = None
  | AN c i v x col l r =>
    exists a n, oa = Some a /\ nth_error h a = Some n /\ h_cls n = c /\ h_id n = i /\ h_val n = v /\ h_ident n = x /\ h_col n = col /\ h_p n = p /\
                rep h (h_l n) (Some a) l /\ rep h (h_r n) (Some a) r
  end.
(* the addresses of the structure in pre-order *)
Fixpoint oaddrs (h:heap) (oa:option nat) (t:atree) : list nat :=
  match t, oa with
  | AN _ _ _ _ _ l r, Some a => match nth_error h a with Some n => a :: oaddrs h (h_l n) l ++ oaddrs h (h_r n) r | None => [] end
  | _, _ => [] end.
Definition optr (t:atree) (b:nat) : option nat := match t with AE => None | _ => Some b end.
(* the copy: the nodes of t in pre-order from address b, parent p *)
Fixpoint layout (b:nat) (p:option nat) (t:atree) : list hnode :=
  match t with
  | AE => []
  | AN c i v x col l r =>
    {| h_cls := c; h_id := i; h_val := v; h_ident := x; h_col := col; h_l := optr l (S b); h_r := optr r (S b + size l);
       h_p := p; h_cn := None; h_ct := Some [] |} :: layout (S b) (Some b) l ++ layout (S b + size l) (Some b) r
  end.
Lemma layout_scratch t : forall b p n, In n (layout b p t) -> h_ct n = Some [] /\ h_cn n = None.
Proof.
  induction t as [|c i v x col l IHl r IHr]; intros b p n; cbn [layout]; [intros []|].
  intros [<-|Hin]; [split; reflexivity|]. apply in_app_or in Hin. destruct Hin; eauto.
Qed.
Lemma layout_length t : forall b p, length (layout b p t) = size t.
Proof. induction t as [|c i v x col l IHl r IHr]; intros b p; cbn [layout size length]; [reflexivity|]. rewrite app_length, IHl, IHr. reflexivity. Qed.

(* the class path to the root, as a relation *)
Inductive ptr (h:heap) : nat -> list N -> Prop :=
| ptr_root a n : nth_error h a = Some n -> h_p n = None -> ptr h a [h_cls n]
| ptr_step a n p l : nth_error h a = Some n -> h_p n = Some p -> ptr h p l -> ptr h a (h_cls n :: l).
Lemma ptr_path h a l : ptr h a l -> forall fuel, length l <= fuel -> path_to_root fuel h a = HOk l.
Proof.
  induction 1 as [a n Hn Hp|a n p l Hn Hp Hl IH]; intros [|f] L; cbn [length] in L; try lia; cbn [path_to_root]; rewrite Hn, Hp; [reflexivity|].
  rewrite IH by lia. reflexivity.
Qed.
Lemma ptr_nonempty h a l : ptr h a l -> l <> []. Proof. destruct 1; discriminate. Qed.

(* g extends h: every node of h is still there, identical except possibly for cloned_node *)
Definition eq_cn (n n':hnode) : Prop := n' = set_cn (h_cn n') n.
Definition ext (h g:heap) : Prop := forall i n, nth_error h i = Some n -> exists n', nth_error g i = Some n' /\ eq_cn n n'.
Lemma eq_cn_refl n : eq_cn n n. Proof. destruct n; reflexivity. Qed.
Lemma ext_refl h : ext h h. Proof. intros i n H. exists n. split; [exact H|apply eq_cn_refl]. Qed.
Lemma ext_trans a b c : ext a b -> ext b c -> ext a c.
Proof.
  intros H1 H2 i n Hn. destruct (H1 i n Hn) as (n1 & Hn1 & E1). destruct (H2 i n1 Hn1) as (n2 & Hn2 & E2). exists n2. split; [exact Hn2|].
  unfold eq_cn in *. rewrite E2, E1. destruct n; reflexivity.
Qed.
Lemma ext_app h x : ext h (h ++ x).
Proof. intros i n H. exists n. split; [|apply eq_cn_refl]. rewrite nth_error_app1; [exact H|]. apply nth_error_Some. congruence. Qed.
Lemma eq_cn_fields n n' : eq_cn n n' -> h_cls n' = h_cls n /\ h_id n' = h_id n /\ h_val n' = h_val n /\ h_ident n' = h_ident n /\ h_col n' = h_col n /\
  h_l n' = h_l n /\ h_r n' = h_r n /\ h_p n' = h_p n /\ h_ct n' = h_ct n.
Proof. unfold eq_cn. intros ->. cbn. repeat split. Qed.
Lemma rep_ext t : forall h g oa p, ext h g -> rep h oa p t -> rep g oa p t.
Proof.
  induction t as [|c i v x col l IHl r IHr]; intros h g oa p E; cbn [rep]; [auto|].
  intros (a & n & -> & Hn & H1 & H2 & H3 & H4 & H5 & H6 & Hl & Hr). destruct (E a n Hn) as (n' & Hn' & EQ).
  destruct (eq_cn_fields _ _ EQ) as (F1 & F2 & F3 & F4 & F5 & F6 & F7 & F8 & F9).
  exists a, n'. rewrite F1, F2, F3, F4, F5, F6, F7, F8. repeat split; auto; [eapply IHl|eapply IHr]; eauto.
Qed.
Lemma ptr_ext h g a l : ext h g -> ptr h a l -> ptr g a l.
Proof.
  intros E. induction 1 as [a n Hn Hp|a n p l Hn Hp Hl IH]; destruct (E a n Hn) as (n' & Hn' & EQ); destruct (eq_cn_fields _ _ EQ) as (F1 & _ & _ & _ & _ & _ & _ & F8 & _); rewrite <- F1.
  - apply ptr_root; [exact Hn'|congruence].
  - eapply ptr_step; [exact Hn'|rewrite F8; exact Hp|exact IH].
Qed.
Lemma oaddrs_ext t : forall h g oa p, ext h g -> rep h oa p t -> oaddrs g oa t = oaddrs h oa t.
Proof.
  induction t as [|c i v x col l IHl r IHr]; intros h g oa p E; cbn [rep oaddrs]; [reflexivity|].
  intros (a & n & -> & Hn & _ & _ & _ & _ & _ & _ & Hl & Hr). destruct (E a n Hn) as (n' & Hn' & EQ).
  destruct (eq_cn_fields _ _ EQ) as (_ & _ & _ & _ & _ & F6 & F7 & _). rewrite Hn, Hn', F6, F7. f_equal. f_equal; [eapply IHl|eapply IHr]; eauto.
Qed.
Lemma oaddrs_length t : forall h oa p, rep h oa p t -> length (oaddrs h oa t) = size t.
Proof.
  induction t as [|c i v x col l IHl r IHr]; intros h oa p; cbn [rep oaddrs size]; [intros ->; reflexivity|].
  intros (a & n & -> & Hn & _ & _ & _ & _ & _ & _ & Hl & Hr). rewrite Hn. cbn [length]. rewrite app_length, (IHl _ _ _ Hl), (IHr _ _ _ Hr). reflexivity.
Qed.
Lemma oaddrs_in_heap t : forall h oa p b, rep h oa p t -> In b (oaddrs h oa t) -> b < length h.
Proof.
  induction t as [|c i v x col l IHl r IHr]; intros h oa p b; cbn [rep oaddrs]; [intros _ []|].
  intros (a & n & -> & Hn & _ & _ & _ & _ & _ & _ & Hl & Hr). rewrite Hn. intros [<-|Hin]; [apply nth_error_Some; congruence|].
  apply in_app_or in Hin. destruct Hin; [eapply IHl|eapply IHr]; eauto.
Qed.
Lemma rep_AN_inv h a p t : rep h (Some a) p t -> exists c i v x col l r n, t = AN c i v x col l r /\ nth_error h a = Some n /\ h_cls n = c /\ h_p n = p /\
  rep h (h_l n) (Some a) l /\ rep h (h_r n) (Some a) r /\ h_id n = i /\ h_val n = v /\ h_ident n = x /\ h_col n = col.
Proof.
  destruct t as [|c i v x col l r]; cbn [rep]; [discriminate|]. intros (a' & n & [= <-] & Hn & H1 & H2 & H3 & H4 & H5 & H6 & Hl & Hr).
  exists c, i, v, x, col, l, r, n. repeat split; auto.
Qed.

(* ---------- list updates ---------- *)
Lemma upd_length {A} (l:list A) : forall i f, length (upd l i f) = length l.
Proof. induction l as [|x l IH]; intros [|i] f; cbn [upd length]; auto. Qed.
Lemma upd_app1 {A} (l m:list A) : forall i f, i < length l -> upd (l ++ m) i f = upd l i f ++ m.
Proof. induction l as [|x l IH]; intros [|i] f L; cbn [length] in L; try lia; cbn [app upd]; [reflexivity|]. rewrite IH by lia. reflexivity. Qed.
Lemma upd_app2 {A} (l m:list A) : forall i f, upd (l ++ m) (length l + i) f = l ++ upd m i f.
Proof. induction l as [|x l IH]; intros i f; cbn [length app upd plus]; [reflexivity|]. now rewrite IH. Qed.
Lemma nth_error_upd_same {A} (l:list A) : forall i f x, nth_error l i = Some x -> nth_error (upd l i f) i = Some (f x).
Proof. induction l as [|y l IH]; intros [|i] f x; cbn [nth_error upd]; try discriminate; [intros [= ->]; reflexivity|apply IH]. Qed.
Lemma nth_error_upd_other {A} (l:list A) : forall i j f, i <> j -> nth_error (upd l i f) j = nth_error l j.
Proof. induction l as [|y l IH]; intros [|i] [|j] f H; cbn [nth_error upd]; try reflexivity; try lia. apply IH. lia. Qed.
Lemma ext_upd_cn h a c : ext h (upd h a (set_cn c)).
Proof.
  intros i n Hn. destruct (Nat.eq_dec a i) as [->|Ne].
  - exists (set_cn c n). split; [now apply nth_error_upd_same|]. destruct n; reflexivity.
  - exists n. split; [rewrite nth_error_upd_other; auto|apply eq_cn_refl].
Qed.

(* ---------- which node gets its cloned_node set ---------- *)
Fixpoint index_of (a:nat) (l:list nat) : option nat :=
  match l with [] => None | x :: r => if Nat.eqb x a then Some 0 else option_map S (index_of a r) end.
Lemma index_of_in a l : In a l -> exists k, index_of a l = Some k /\ nth_error l k = Some a.
Proof.
  induction l as [|x l IH]; cbn [index_of In]; [intros []|]. destruct (Nat.eqb x a) eqn:E.
  - apply Nat.eqb_eq in E. subst x. intros _. exists 0. auto.
  - apply Nat.eqb_neq in E. intros [H|H]; [contradiction|]. destruct (IH H) as (k & Hk & Hn). exists (S k). rewrite Hk. auto.
Qed.
Lemma index_of_notin a l : ~ In a l -> index_of a l = None.
Proof.
  induction l as [|x l IH]; cbn [index_of In]; [reflexivity|]. intros H. destruct (Nat.eqb x a) eqn:E.
  - apply Nat.eqb_eq in E. exfalso. apply H. auto.
  - rewrite IH; [reflexivity|tauto].
Qed.
Lemma index_of_some_in a l k : index_of a l = Some k -> In a l.
Proof. intros H. destruct (in_dec Nat.eq_dec a l) as [I|N]; [exact I|]. rewrite (index_of_notin a l N) in H. discriminate. Qed.
Lemma index_of_app a l m : index_of a (l ++ m) = match index_of a l with Some k => Some k | None => option_map (plus (length l)) (index_of a m) end.
Proof.
  induction l as [|x l IH]; cbn [app index_of length]; [destruct (index_of a m); reflexivity|].
  destruct (Nat.eqb x a); [reflexivity|]. rewrite IH. destruct (index_of a l); cbn [option_map]; [reflexivity|]. destruct (index_of a m); reflexivity.
Qed.
Definition markb (h:heap) (base a0:nat) (addrs:list nat) : heap :=
  match index_of a0 addrs with Some k => upd h a0 (set_cn (Some (base + k))) | None => h end.
Lemma markb_length h base a0 l : length (markb h base a0 l) = length h.
Proof. unfold markb. destruct (index_of a0 l); [apply upd_length|reflexivity]. Qed.
Lemma markb_ext h base a0 l : ext h (markb h base a0 l).
Proof. unfold markb. destruct (index_of a0 l); [apply ext_upd_cn|apply ext_refl]. Qed.
Lemma markb_app h x base a0 l : (forall b, In b l -> b < length h) -> markb (h ++ x) base a0 l = markb h base a0 l ++ x.
Proof. intros H. unfold markb. destruct (index_of a0 l) eqn:E; [|reflexivity]. apply upd_app1. apply H. eapply index_of_some_in; eauto. Qed.

Definition dead (c:option (list N)) : Prop := c = None \/ c = Some [].
Definition Cond (h:heap) (a0:nat) (addrs:list nat) : Prop :=
  (forall b n, In b addrs -> nth_error h b = Some n -> b <> a0 -> dead (h_ct n)) /\
  (In a0 addrs -> exists n l0, nth_error h a0 = Some n /\ ptr h a0 l0 /\ h_ct n = Some l0).
Lemma cond_ext h g a0 l : ext h g -> (forall b, In b l -> b < length h) -> Cond h a0 l -> Cond g a0 l.
Proof.
  intros E B [C1 C2]. split.
  - intros b n' Hb Hn' Ne. assert (b < length h) as Lb by auto. destruct (nth_error h b) as [n|] eqn:Hn; [|apply nth_error_None in Hn; lia].
    destruct (E b n Hn) as (n2 & Hn2 & EQ). rewrite Hn2 in Hn'. inversion Hn'; subst n2. destruct (eq_cn_fields _ _ EQ) as (_ & _ & _ & _ & _ & _ & _ & _ & F9).
    rewrite F9. eapply C1; eauto.
  - intros Hin. destruct (C2 Hin) as (n & l0 & Hn & Hp & Hc). destruct (E a0 n Hn) as (n' & Hn' & EQ).
    destruct (eq_cn_fields _ _ EQ) as (_ & _ & _ & _ & _ & _ & _ & _ & F9). exists n', l0. split; [exact Hn'|]. split; [eapply ptr_ext; eauto|congruence].
Qed.
Lemma cond_sub h a0 l m : (forall b, In b m -> In b l) -> (In a0 l -> In a0 m \/ True) -> Cond h a0 l -> (In a0 m -> In a0 l) -> Cond h a0 m.
Proof. intros S _ [C1 C2] S2. split; [intros b n Hb; apply C1; auto|intros H; apply C2; auto]. Qed.

Lemma layout_set_parent t b p q : t <> AE -> exists n0 rest, layout b p t = n0 :: rest /\ layout b q t = set_p q n0 :: rest.
Proof. destruct t as [|c i v x col l r]; [congruence|]. intros _. cbn [layout]. eexists. eexists. split; reflexivity. Qed.
Lemma list_N_eqb_refl l : list_N_eqb l l = true. Proof. unfold list_N_eqb. destruct (list_eq_dec N.eq_dec l l); congruence. Qed.
Lemma list_N_eqb_nil l : l <> [] -> list_N_eqb l [] = false. Proof. unfold list_N_eqb. destruct (list_eq_dec N.eq_dec l []); congruence. Qed.

Lemma NoDup_app_inv {A} (l m:list A) : NoDup (l ++ m) -> NoDup l /\ NoDup m /\ (forall x, In x l -> ~ In x m).
Proof.
  induction l as [|x l IH]; cbn [app]; intros H; [repeat split; [constructor|exact H|intros ? []]|].
  inversion H as [|? ? Hx Hl]; subst. destruct (IH Hl) as (N1 & N2 & D). repeat split; auto.
  - constructor; auto. intros Q. apply Hx. apply in_or_app. auto.
  - intros y [<-|Hy]; [intros Q; apply Hx; apply in_or_app; auto|auto].
Qed.
Lemma ptr_fun h a l : ptr h a l -> forall l', ptr h a l' -> l = l'.
Proof.
  induction 1 as [a n Hn Hp|a n p l Hn Hp Hl IH]; intros l' H'; inversion H' as [a' n' Hn' Hp'|a' n' p' l2 Hn' Hp' Hl']; subst; rewrite Hn in Hn'; inversion Hn'; subst n'; try congruence.
  rewrite Hp in Hp'. inversion Hp'; subst p'. f_equal. now apply IH.
Qed.
Lemma upd_mid {A} (M:list A) x rest f : upd (M ++ x :: rest) (length M) f = M ++ f x :: rest.
Proof. rewrite <- (Nat.add_0_r (length M)). rewrite upd_app2. reflexivity. Qed.

Lemma rep_none h p t : rep h None p t -> t = AE.
Proof. destruct t; [reflexivity|]. cbn [rep]. intros (a & n & Q & _). discriminate Q. Qed.
Lemma rep_some_not_AE h a p t : rep h (Some a) p t -> t <> AE.
Proof. destruct t; [discriminate|intros _ Q; discriminate Q]. Qed.
Lemma optr_some t b : t <> AE -> optr t b = Some b. Proof. destruct t; [congruence|reflexivity]. Qed.
Lemma upd_mid' {A} (M:list A) x rest f k : length M = k -> upd (M ++ x :: rest) k f = M ++ f x :: rest.
Proof. intros <-. apply upd_mid. Qed.
Lemma clone_main : forall t h a p pl fuel a0,
  rep h (Some a) p t -> ptr h a pl -> length pl <= length h -> size t <= fuel ->
  NoDup (oaddrs h (Some a) t) -> Cond h a0 (oaddrs h (Some a) t) ->
  clone fuel h a = HOk (markb h (length h) a0 (oaddrs h (Some a) t) ++ layout (length h) None t, length h).
Proof.
  induction t as [|c i v x col l IHl r IHr]; intros h a p pl fuel a0 R P LP SZ ND CD; [discriminate R|].
  cbn [rep] in R. destruct R as (a' & n & Ea & Hn & Hc & Hi & Hv & Hx & Hcol & Hp & Rl & Rr). inversion Ea; subst a'; clear Ea.
  destruct fuel as [|f]; [cbn [size] in SZ; lia|]. cbn [size] in SZ. cbn [clone]. rewrite Hn.
  cbn [oaddrs] in ND, CD |- *. rewrite Hn in ND, CD |- *.
  set (r0 := length h) in *. set (F0 := fresh_copy n). set (L := oaddrs h (h_l n) l) in *. set (Rs := oaddrs h (h_r n) r) in *.
  inversion ND as [|? ? NA ND']; subst. destruct (NoDup_app_inv _ _ ND') as (NDL & NDR & DIS).
  assert (BL : forall b, In b L -> b < length h) by (intros b Hb; exact (oaddrs_in_heap l h (h_l n) (Some a) b Rl Hb)).
  assert (BR : forall b, In b Rs -> b < length h) by (intros b Hb; exact (oaddrs_in_heap r h (h_r n) (Some a) b Rr Hb)).
  destruct CD as [CD1 CD2].
  (* ---- left child ---- *)
  set (M1 := markb h (S r0) a0 L). set (F1 := set_l (optr l (S r0)) F0).
  assert (AL : match h_l n with
               | None => HOk (h ++ [F0])
               | Some l0 => match clone f (h ++ [F0]) l0 with HOk (h', l') => HOk (link_l h' r0 l') | HFuel => HFuel | HBad => HBad end end
               = HOk (M1 ++ F1 :: layout (S r0) (Some r0) l)).
  { destruct (h_l n) as [al|] eqn:Hl.
    - assert (NEl : l <> AE) by (eapply rep_some_not_AE; eauto).
      destruct (rep_AN_inv _ _ _ _ Rl) as (lc & li & lv & lx & lcol & ll & lr & nl & El & Hnl & Hcl & Hpl & _).
      assert (E1 : ext h (h ++ [F0])) by apply ext_app.
      assert (P1 : ptr (h ++ [F0]) al (h_cls nl :: pl)) by (eapply ptr_ext; [exact E1|]; eapply ptr_step; eauto).
      assert (O1 : oaddrs (h ++ [F0]) (Some al) l = L) by (eapply oaddrs_ext; eauto).
      rewrite (IHl (h ++ [F0]) al (Some a) (h_cls nl :: pl) f a0).
      + rewrite O1. rewrite app_length. cbn [length]. rewrite Nat.add_1_r. fold r0.
        rewrite (markb_app h [F0] (S r0) a0 L BL). fold M1.
        destruct (layout_set_parent l (S r0) None (Some r0) NEl) as (n0 & rest & EL1 & EL2).
        rewrite EL1, EL2. unfold link_l. rewrite <- app_assoc. cbn [app].
        assert (LM : length M1 = r0) by (subst M1; apply markb_length).
        rewrite <- LM at 1. rewrite upd_mid.
        replace (S r0) with (length (M1 ++ [set_l (Some (S r0)) F0]) + 0) at 2 by (rewrite app_length; cbn [length]; lia).
        replace (M1 ++ set_l (Some (S r0)) F0 :: n0 :: rest) with ((M1 ++ [set_l (Some (S r0)) F0]) ++ n0 :: rest) by (rewrite <- app_assoc; reflexivity).
        rewrite upd_app2. cbn [upd]. rewrite <- app_assoc. cbn [app]. subst F1. rewrite (optr_some l (S r0) NEl). reflexivity.
      + eapply rep_ext; eauto.
      + exact P1.
      + rewrite app_length. cbn [length]. lia.
      + lia.
      + rewrite O1. exact NDL.
      + rewrite O1. apply (cond_ext h); [exact E1|exact BL|]. split.
        * intros b nb Hb Hnb Ne. eapply CD1; eauto. right. apply in_or_app. auto.
        * intros Hin. apply CD2. right. apply in_or_app. auto.
    - assert (l = AE) as El by (eapply rep_none; eauto). subst M1 F1 L. rewrite El. cbn [oaddrs]. unfold markb. cbn [index_of layout optr]. reflexivity. }
  rewrite AL. clear AL. cbv beta iota zeta.
  (* ---- right child ---- *)
  set (H2 := M1 ++ F1 :: layout (S r0) (Some r0) l).
  assert (LM1 : length M1 = r0) by (subst M1; apply markb_length).
  assert (LH2 : length H2 = S r0 + size l) by (subst H2; rewrite app_length; cbn [length]; rewrite layout_length; lia).
  set (M2 := markb M1 (S r0 + size l) a0 Rs). set (F2 := set_r (optr r (S r0 + size l)) F1).
  assert (E2 : ext h H2) by (eapply ext_trans; [apply markb_ext|apply ext_app]).
  assert (AR : match h_r n with
               | None => HOk H2
               | Some c0 => match clone f H2 c0 with HOk (h', c') => HOk (link_r h' r0 c') | HFuel => HFuel | HBad => HBad end end
               = HOk (M2 ++ F2 :: layout (S r0) (Some r0) l ++ layout (S r0 + size l) (Some r0) r)).
  { destruct (h_r n) as [ar|] eqn:Hr.
    - assert (NEr : r <> AE) by (eapply rep_some_not_AE; eauto).
      destruct (rep_AN_inv _ _ _ _ Rr) as (rc & ri & rv & rx & rcol & rl & rr & nr & Er & Hnr & Hcr & Hpr & _).
      assert (P2 : ptr H2 ar (h_cls nr :: pl)) by (eapply ptr_ext; [exact E2|]; eapply ptr_step; eauto).
      assert (O2 : oaddrs H2 (Some ar) r = Rs) by (eapply oaddrs_ext; eauto).
      rewrite (IHr H2 ar (Some a) (h_cls nr :: pl) f a0).
      + rewrite O2, LH2.
        assert (BR1 : forall b, In b Rs -> b < length M1) by (intros b Hb; rewrite LM1; auto).
        subst H2. rewrite (markb_app M1 _ (S r0 + size l) a0 Rs BR1). fold M2.
        destruct (layout_set_parent r (S r0 + size l) None (Some r0) NEr) as (n0 & rest & EL1 & EL2).
        rewrite EL1, EL2. unfold link_r. rewrite <- app_assoc. cbn [app].
        assert (LM : length M2 = r0) by (subst M2; rewrite markb_length; exact LM1).
        rewrite (upd_mid' M2 _ _ _ r0 LM).
        set (X := M2 ++ set_r (Some (S r0 + size l)) F1 :: layout (S r0) (Some r0) l).
        replace (M2 ++ set_r (Some (S r0 + size l)) F1 :: layout (S r0) (Some r0) l ++ n0 :: rest) with (X ++ n0 :: rest)
          by (subst X; rewrite <- app_assoc; reflexivity).
        assert (LX : length X = S r0 + size l) by (subst X; rewrite app_length; cbn [length]; rewrite layout_length; lia).
        rewrite (upd_mid' X _ _ _ _ LX). subst X. rewrite <- app_assoc. cbn [app]. subst F2. rewrite (optr_some r _ NEr). reflexivity.
      + eapply rep_ext; eauto.
      + exact P2.
      + cbn [length]. rewrite LH2. lia.
      + lia.
      + rewrite O2. exact NDR.
      + rewrite O2. apply (cond_ext h); [exact E2|exact BR|]. split.
        * intros b nb Hb Hnb Ne. eapply CD1; eauto. right. apply in_or_app. auto.
        * intros Hin. apply CD2. right. apply in_or_app. auto.
    - assert (r = AE) as Er by (eapply rep_none; eauto). subst M2 F2 Rs. rewrite Er. cbn [oaddrs]. unfold markb at 1. cbn [index_of layout optr]. rewrite app_nil_r. reflexivity. }
  lazymatch goal with |- (match ?X with HOk _ => _ | HFuel => _ | HBad => _ end) = _ => assert (X = HOk (M2 ++ F2 :: layout (S r0) (Some r0) l ++ layout (S r0 + size l) (Some r0) r)) as -> by exact AR end.
  clear AR. cbv beta iota zeta.
  (* ---- the node itself ---- *)
  set (LAY := layout (S r0) (Some r0) l ++ layout (S r0 + size l) (Some r0) r).
  set (H3 := M2 ++ F2 :: LAY).
  assert (LM2 : length M2 = r0) by (subst M2; rewrite markb_length; exact LM1).
  assert (E3 : ext h H3) by (eapply ext_trans; [apply markb_ext|]; eapply ext_trans; [apply markb_ext|apply ext_app]).
  destruct (E3 a n Hn) as (n3 & Hn3 & EQ3). rewrite Hn3. destruct (eq_cn_fields _ _ EQ3) as (_ & _ & _ & _ & _ & _ & _ & _ & F9).
  assert (P3 : ptr H3 a pl) by (eapply ptr_ext; eauto).
  assert (PP : path_to_root (S (length H3)) H3 a = HOk pl).
  { apply ptr_path; [exact P3|]. subst H3. rewrite app_length. lia. }
  assert (LAYEQ : F2 :: LAY = layout r0 None (AN (h_cls n) (h_id n) (h_val n) (h_ident n) (h_col n) l r)).
  { subst F2 F1 F0 LAY. cbn [layout]. unfold fresh_copy, set_l, set_r. cbn. reflexivity. }
  assert (AinH : a < r0) by (apply nth_error_Some; congruence).
  destruct (Nat.eq_dec a a0) as [Eq|Ne].
  - (* the node being located *)
    subst a0. destruct (CD2 (or_introl eq_refl)) as (n' & l0 & Hn' & Pl0 & Hct). rewrite Hn in Hn'. inversion Hn'; subst n'.
    rewrite (ptr_fun _ _ _ Pl0 _ P) in Hct. rewrite F9, Hct, PP, list_N_eqb_refl.
    assert (NL : index_of a L = None) by (apply index_of_notin; intros Q; apply NA; apply in_or_app; auto).
    assert (NR : index_of a Rs = None) by (apply index_of_notin; intros Q; apply NA; apply in_or_app; auto).
    assert (M2 = h) as -> by (subst M2 M1; unfold markb; rewrite NL, NR; reflexivity).
    unfold markb. cbn [index_of]. rewrite Nat.eqb_refl. rewrite Nat.add_0_r. subst H3.
    rewrite upd_app1 by exact AinH. rewrite LAYEQ. reflexivity.
  - (* any other node: its marker is dead *)
    assert (D : dead (h_ct n)) by (eapply CD1; eauto; now left).
    assert (NEpl : pl <> []) by (eapply ptr_nonempty; eauto).
    rewrite F9. destruct D as [D|D]; rewrite D; [|rewrite PP, (list_N_eqb_nil pl NEpl)].
    all: subst H3; rewrite LAYEQ; f_equal; f_equal; f_equal.
    all: subst M2 M1; unfold markb; cbn [index_of]; apply Nat.eqb_neq in Ne; rewrite Ne; rewrite index_of_app.
    all: destruct (index_of a0 L) as [k|] eqn:IL;
      [assert (index_of a0 Rs = None) as -> by (apply index_of_notin; apply DIS; eapply index_of_some_in; eauto);
       cbn [option_map]; f_equal; f_equal; f_equal; lia
      |destruct (index_of a0 Rs) as [k|] eqn:IR; cbn [option_map]; [|reflexivity];
       assert (length L = size l) as -> by (eapply oaddrs_length; eauto); f_equal; f_equal; f_equal; lia].
Qed.

(* ---------- the copy is the abstract tree again, in fresh addresses ---------- *)
Lemma rep_layout t : forall A C p, rep (A ++ layout (length A) p t ++ C) (optr t (length A)) p t.
Proof.
  induction t as [|c i v x col l IHl r IHr]; intros A C p; [reflexivity|]. cbn [layout optr rep].
  set (n0 := {| h_cls := c; h_id := i; h_val := v; h_ident := x; h_col := col; h_l := optr l (S (length A)); h_r := optr r (S (length A) + size l);
                h_p := p; h_cn := None; h_ct := Some [] |}).
  exists (length A), n0. split; [reflexivity|]. split; [rewrite nth_error_app2 by lia; rewrite Nat.sub_diag; reflexivity|].
  repeat (split; [reflexivity|]). split.
  - specialize (IHl (A ++ [n0]) (layout (S (length A) + size l) (Some (length A)) r ++ C) (Some (length A))).
    rewrite app_length in IHl. cbn [length] in IHl. rewrite Nat.add_1_r in IHl. rewrite <- !app_assoc in IHl. cbn [app] in IHl.
    cbn [app h_l n0]. rewrite <- !app_assoc. exact IHl.
  - specialize (IHr (A ++ n0 :: layout (S (length A)) (Some (length A)) l) C (Some (length A))).
    rewrite app_length in IHr. cbn [length] in IHr. rewrite layout_length in IHr.
    replace (length A + S (size l)) with (S (length A) + size l) in IHr by lia. rewrite <- !app_assoc in IHr. cbn [app] in IHr.
    cbn [app h_r n0]. rewrite <- !app_assoc. exact IHr.
Qed.
Lemma oaddrs_layout t : forall A C p, oaddrs (A ++ layout (length A) p t ++ C) (optr t (length A)) t = seq (length A) (size t).
Proof.
  induction t as [|c i v x col l IHl r IHr]; intros A C p; [reflexivity|]. cbn [layout optr oaddrs size].
  set (n0 := {| h_cls := c; h_id := i; h_val := v; h_ident := x; h_col := col; h_l := optr l (S (length A)); h_r := optr r (S (length A) + size l);
                h_p := p; h_cn := None; h_ct := Some [] |}).
  rewrite nth_error_app2 by lia. rewrite Nat.sub_diag. cbn [nth_error app h_l h_r n0]. cbn [seq]. f_equal. rewrite seq_app. f_equal.
  - specialize (IHl (A ++ [n0]) (layout (S (length A) + size l) (Some (length A)) r ++ C) (Some (length A))).
    rewrite app_length in IHl. cbn [length] in IHl. rewrite Nat.add_1_r in IHl. rewrite <- !app_assoc in IHl. cbn [app] in IHl.
    rewrite <- !app_assoc. exact IHl.
  - specialize (IHr (A ++ n0 :: layout (S (length A)) (Some (length A)) l) C (Some (length A))).
    rewrite app_length in IHr. cbn [length] in IHr. rewrite layout_length in IHr.
    replace (length A + S (size l)) with (S (length A) + size l) in IHr by lia. rewrite <- !app_assoc in IHr. cbn [app] in IHr.
    rewrite <- !app_assoc. exact IHr.
Qed.

(* frame: a structure only depends on its own addresses *)
Lemma rep_frame t : forall h g oa p, (forall b, In b (oaddrs h oa t) -> nth_error g b = nth_error h b) -> rep h oa p t -> rep g oa p t.
Proof.
  induction t as [|c i v x col l IHl r IHr]; intros h g oa p F; cbn [rep]; [auto|].
  intros (a & n & -> & Hn & H1 & H2 & H3 & H4 & H5 & H6 & Hl & Hr). cbn [oaddrs] in F. rewrite Hn in F.
  exists a, n. split; [reflexivity|]. split; [rewrite F; [exact Hn|now left]|]. repeat (split; [assumption|]). split.
  - eapply IHl; [|exact Hl]. intros b Hb. apply F. right. apply in_or_app. auto.
  - eapply IHr; [|exact Hr]. intros b Hb. apply F. right. apply in_or_app. auto.
Qed.

(* plain clone(): no node is a clone_from_root target *)
Definition all_dead (h:heap) (addrs:list nat) : Prop := forall b n, In b addrs -> nth_error h b = Some n -> dead (h_ct n).
Theorem clone_spec t h a p pl : rep h (Some a) p t -> ptr h a pl -> length pl <= length h -> NoDup (oaddrs h (Some a) t) ->
  all_dead h (oaddrs h (Some a) t) ->
  exists h', clone (size t) h a = HOk (h', length h) /\
    h' = h ++ layout (length h) None t /\                       (* the original heap is untouched, the copy is appended *)
    rep h' (Some (length h)) None t /\                           (* the copy represents the same abstract tree, as a root *)
    rep h' (Some a) p t /\                                       (* the original still does *)
    oaddrs h' (Some (length h)) t = seq (length h) (size t) /\   (* the copy occupies exactly the fresh addresses, in pre-order *)
    (forall b, In b (oaddrs h' (Some a) t) -> b < length h).     (* disjoint from the original's *)
Proof.
  intros R P LP ND AD. pose proof (rep_some_not_AE _ _ _ _ R) as NE.
  assert (CD : Cond h (length h) (oaddrs h (Some a) t)).
  { split; [intros b n Hb Hn _; eapply AD; eauto|]. intros Hin. apply (oaddrs_in_heap _ _ _ _ _ R) in Hin. lia. }
  pose proof (clone_main t h a p pl (size t) (length h) R P LP (le_n _) ND CD) as H.
  assert (markb h (length h) (length h) (oaddrs h (Some a) t) = h) as M.
  { unfold markb. rewrite index_of_notin; [reflexivity|]. intros Hin. apply (oaddrs_in_heap _ _ _ _ _ R) in Hin. lia. }
  rewrite M in H. exists (h ++ layout (length h) None t). split; [exact H|]. split; [reflexivity|].
  pose proof (rep_layout t h [] None) as RL. rewrite app_nil_r, (optr_some t _ NE) in RL.
  pose proof (oaddrs_layout t h [] None) as OL. rewrite app_nil_r, (optr_some t _ NE) in OL.
  split; [exact RL|]. split; [eapply rep_ext; [apply ext_app|exact R]|]. split; [exact OL|].
  intros b Hb. rewrite (oaddrs_ext t h (h ++ layout (length h) None t) (Some a) p (ext_app h _) R) in Hb. eapply oaddrs_in_heap; eauto.
Qed.
(* changing either tree afterwards never affects the other: any heap that agrees with the result on one tree's addresses still holds that tree *)
Theorem clone_independent t h a p g : rep h (Some a) p t ->
  let h' := h ++ layout (length h) None t in
  ((forall b, b < length h -> nth_error g b = nth_error h' b) -> rep g (Some a) p t) /\
  ((forall b, length h <= b < length h + size t -> nth_error g b = nth_error h' b) -> rep g (Some (length h)) None t).
Proof.
  intros R h'. pose proof (rep_some_not_AE _ _ _ _ R) as NE. split; intros F.
  - apply (rep_frame t h' g); [|eapply rep_ext; [apply ext_app|exact R]].
    intros b Hb. apply F. subst h'. rewrite (oaddrs_ext t h (h ++ layout (length h) None t) (Some a) p (ext_app h _) R) in Hb. eapply oaddrs_in_heap; eauto.
  - pose proof (rep_layout t h [] None) as RL. rewrite app_nil_r, (optr_some t _ NE) in RL.
    pose proof (oaddrs_layout t h [] None) as OL. rewrite app_nil_r, (optr_some t _ NE) in OL.
    apply (rep_frame t h' g); [|exact RL]. intros b Hb. apply F. subst h'. rewrite OL in Hb. apply in_seq in Hb. lia.
Qed.

(* ---------- clone_from_root ---------- *)
(* same structure: everything but the two scratch fields *)
Definition eq_s (n n':hnode) : Prop :=
  h_cls n' = h_cls n /\ h_id n' = h_id n /\ h_val n' = h_val n /\ h_ident n' = h_ident n /\ h_col n' = h_col n /\ h_l n' = h_l n /\ h_r n' = h_r n /\ h_p n' = h_p n.
Definition sext (h g:heap) : Prop := forall i n, nth_error h i = Some n -> exists n', nth_error g i = Some n' /\ eq_s n n'.
Lemma eq_s_refl n : eq_s n n. Proof. repeat split. Qed.
Lemma sext_trans a b c : sext a b -> sext b c -> sext a c.
Proof.
  intros H1 H2 i n Hn. destruct (H1 i n Hn) as (n1 & Hn1 & E1). destruct (H2 i n1 Hn1) as (n2 & Hn2 & E2). exists n2. split; [exact Hn2|].
  destruct E1 as (A1 & A2 & A3 & A4 & A5 & A6 & A7 & A8), E2 as (B1 & B2 & B3 & B4 & B5 & B6 & B7 & B8). repeat split; congruence.
Qed.
Lemma sext_upd h a f : (forall n, eq_s n (f n)) -> sext h (upd h a f).
Proof.
  intros Hf i n Hn. destruct (Nat.eq_dec a i) as [->|Ne].
  - exists (f n). split; [now apply nth_error_upd_same|apply Hf].
  - exists n. split; [rewrite nth_error_upd_other; auto|apply eq_s_refl].
Qed.
Lemma rep_sext t : forall h g oa p, sext h g -> rep h oa p t -> rep g oa p t.
Proof.
  induction t as [|c i v x col l IHl r IHr]; intros h g oa p E; cbn [rep]; [auto|].
  intros (a & n & -> & Hn & H1 & H2 & H3 & H4 & H5 & H6 & Hl & Hr). destruct (E a n Hn) as (n' & Hn' & (F1 & F2 & F3 & F4 & F5 & F6 & F7 & F8)).
  exists a, n'. rewrite F1, F2, F3, F4, F5, F6, F7, F8. repeat split; auto; [eapply IHl|eapply IHr]; eauto.
Qed.
Lemma ptr_sext h g a l : sext h g -> ptr h a l -> ptr g a l.
Proof.
  intros E. induction 1 as [a n Hn Hp|a n p l Hn Hp Hl IH]; destruct (E a n Hn) as (n' & Hn' & (F1 & _ & _ & _ & _ & _ & _ & F8)); rewrite <- F1.
  - apply ptr_root; [exact Hn'|congruence].
  - eapply ptr_step; [exact Hn'|rewrite F8; exact Hp|exact IH].
Qed.
Lemma oaddrs_sext t : forall h g oa p, sext h g -> rep h oa p t -> oaddrs g oa t = oaddrs h oa t.
Proof.
  induction t as [|c i v x col l IHl r IHr]; intros h g oa p E; cbn [rep oaddrs]; [reflexivity|].
  intros (a & n & -> & Hn & _ & _ & _ & _ & _ & _ & Hl & Hr). destruct (E a n Hn) as (n' & Hn' & (_ & _ & _ & _ & _ & F6 & F7 & _)).
  rewrite Hn, Hn', F6, F7. f_equal. f_equal; [eapply IHl|eapply IHr]; eauto.
Qed.

Lemma sub_ptr t : forall h a p pl b, rep h (Some a) p t -> ptr h a pl -> In b (oaddrs h (Some a) t) ->
  exists l, ptr h b l /\ length l + 1 <= length pl + size t.
Proof.
  induction t as [|c i v x col l IHl r IHr]; intros h a p pl b R P Hb; [destruct Hb|].
  cbn [rep] in R. destruct R as (a' & n & Ea & Hn & _ & _ & _ & _ & _ & Hp & Rl & Rr). inversion Ea; subst a'.
  cbn [oaddrs size] in *. rewrite Hn in Hb. destruct Hb as [<-|Hb]; [exists pl; split; [exact P|lia]|].
  apply in_app_or in Hb. destruct Hb as [Hb|Hb].
  - destruct (h_l n) as [al|] eqn:Hl; [|rewrite (rep_none _ _ _ Rl) in Hb; destruct Hb].
    destruct (rep_AN_inv _ _ _ _ Rl) as (? & ? & ? & ? & ? & ? & ? & nl & _ & Hnl & _ & Hpl & _).
    destruct (IHl h al (Some a) (h_cls nl :: pl) b Rl (ptr_step h al nl a pl Hnl Hpl P) Hb) as (l0 & P0 & L0). exists l0. split; [exact P0|]. cbn [length] in L0. lia.
  - destruct (h_r n) as [ar|] eqn:Hr; [|rewrite (rep_none _ _ _ Rr) in Hb; destruct Hb].
    destruct (rep_AN_inv _ _ _ _ Rr) as (? & ? & ? & ? & ? & ? & ? & nr & _ & Hnr & _ & Hpr & _).
    destruct (IHr h ar (Some a) (h_cls nr :: pl) b Rr (ptr_step h ar nr a pl Hnr Hpr P) Hb) as (l0 & P0 & L0). exists l0. split; [exact P0|]. cbn [length] in L0. lia.
Qed.
Lemma root_of_mono h : forall fuel a r0 k, root_of fuel h a = HOk r0 -> root_of (fuel + k) h a = HOk r0.
Proof.
  induction fuel as [|f IH]; intros a r0 k; cbn [root_of plus]; [discriminate|]. destruct (nth_error h a) as [n|]; [|discriminate].
  destruct (h_p n); [apply IH|auto].
Qed.
Lemma sub_root t : forall h a p b fuel r0, rep h (Some a) p t -> In b (oaddrs h (Some a) t) -> root_of fuel h a = HOk r0 -> root_of (fuel + size t) h b = HOk r0.
Proof.
  induction t as [|c i v x col l IHl r IHr]; intros h a p b fuel r0 R Hb H0; [destruct Hb|].
  cbn [rep] in R. destruct R as (a' & n & Ea & Hn & _ & _ & _ & _ & _ & Hp & Rl & Rr). inversion Ea; subst a'.
  cbn [oaddrs size] in *. rewrite Hn in Hb. destruct Hb as [<-|Hb]; [now apply root_of_mono|].
  apply in_app_or in Hb. destruct Hb as [Hb|Hb].
  - destruct (h_l n) as [al|] eqn:Hl; [|rewrite (rep_none _ _ _ Rl) in Hb; destruct Hb].
    destruct (rep_AN_inv _ _ _ _ Rl) as (? & ? & ? & ? & ? & ? & ? & nl & _ & Hnl & _ & Hpl & _).
    assert (root_of (S fuel) h al = HOk r0) as H1 by (cbn [root_of]; rewrite Hnl, Hpl; exact H0).
    pose proof (IHl h al (Some a) b (S fuel) r0 Rl Hb H1) as H2. apply (root_of_mono h _ _ _ (size r)) in H2.
    replace (fuel + S (size l + size r)) with (S fuel + size l + size r) by lia. exact H2.
  - destruct (h_r n) as [ar|] eqn:Hr; [|rewrite (rep_none _ _ _ Rr) in Hb; destruct Hb].
    destruct (rep_AN_inv _ _ _ _ Rr) as (? & ? & ? & ? & ? & ? & ? & nr & _ & Hnr & _ & Hpr & _).
    assert (root_of (S fuel) h ar = HOk r0) as H1 by (cbn [root_of]; rewrite Hnr, Hpr; exact H0).
    pose proof (IHr h ar (Some a) b (S fuel) r0 Rr Hb H1) as H2. apply (root_of_mono h _ _ _ (size l)) in H2.
    replace (fuel + S (size l + size r)) with (S fuel + size r + size l) by lia. exact H2.
Qed.
Lemma size_le_heap t h oa p : rep h oa p t -> NoDup (oaddrs h oa t) -> size t <= length h.
Proof.
  intros R ND. rewrite <- (oaddrs_length t h oa p R). rewrite <- (seq_length (length h) 0).
  apply NoDup_incl_length; [exact ND|]. intros b Hb. apply in_seq. pose proof (oaddrs_in_heap t h oa p b R Hb). lia.
Qed.

Theorem clone_from_root_full t h root node :
  rep h (Some root) None t -> NoDup (oaddrs h (Some root) t) -> In node (oaddrs h (Some root) t) ->
  (forall b n, In b (oaddrs h (Some root) t) -> b <> node -> nth_error h b = Some n -> dead (h_ct n)) ->
  exists h' k,
    clone_from_root h node = HOk (h', length h + k) /\
    nth_error (oaddrs h (Some root) t) k = Some node /\                       (* node is the k-th node of the original in pre-order ... *)
    nth_error (oaddrs h' (Some (length h)) t) k = Some (length h + k) /\      (* ... and the result is the k-th node of the copy *)
    rep h' (Some (length h)) None t /\                                        (* which is a complete copy of the whole tree *)
    rep h' (Some root) None t /\                                              (* the original is intact *)
    length h' = length h + size t /\
    oaddrs h' (Some (length h)) t = seq (length h) (size t) /\                (* the copy occupies exactly the fresh addresses *)
    oaddrs h' (Some root) t = oaddrs h (Some root) t /\                       (* the original its old ones *)
    sext h h' /\                                                              (* every old record is as before, up to the two scratch fields *)
    (forall b n, length h <= b -> nth_error h' b = Some n -> h_ct n = Some [] /\ h_cn n = None).   (* the copy's scratch fields are clean *)
Proof.
  intros R ND Hin DD. set (addrs := oaddrs h (Some root) t) in *.
  pose proof (size_le_heap _ _ _ _ R ND) as SZ. pose proof (rep_some_not_AE _ _ _ _ R) as NE.
  destruct (rep_AN_inv _ _ _ _ R) as (? & ? & ? & ? & ? & ? & ? & nroot & _ & Hnroot & _ & Hproot & _).
  assert (PR : ptr h root [h_cls nroot]) by (apply ptr_root; auto).
  destruct (sub_ptr t h root None _ node R PR Hin) as (l0 & P0 & L0). cbn [length] in L0.
  assert (Hnode : node < length h) by (eapply oaddrs_in_heap; eauto).
  destruct (nth_error h node) as [nn|] eqn:Hnn; [|apply nth_error_None in Hnn; lia].
  unfold clone_from_root.
  set (h0 := upd h node (set_cn None)).
  assert (S0 : sext h h0) by (apply sext_upd; intros n; repeat split).
  rewrite (ptr_path h0 node l0 (ptr_sext _ _ _ _ S0 P0)) by lia.
  set (h1 := upd h0 node (set_ct (Some l0))).
  assert (S1 : sext h h1) by (eapply sext_trans; [exact S0|]; apply sext_upd; intros n; repeat split).
  assert (L1 : length h1 = length h) by (subst h1 h0; now rewrite !upd_length).
  assert (RO : root_of (S (length h)) h1 node = HOk root).
  { assert (root_of 1 h1 root = HOk root) as H1.
    { destruct (S1 root nroot Hnroot) as (n' & Hn' & (_ & _ & _ & _ & _ & _ & _ & F8)). cbn [root_of]. rewrite Hn', F8, Hproot. reflexivity. }
    pose proof (sub_root t h1 root None node 1 root (rep_sext _ _ _ _ _ S1 R)) as H2.
    rewrite (oaddrs_sext t h h1 _ None S1 R) in H2. specialize (H2 Hin H1).
    apply (root_of_mono h1 _ _ _ (length h - size t)) in H2. replace (1 + size t + (length h - size t)) with (S (length h)) in H2 by lia. exact H2. }
  rewrite RO.
  assert (O1 : oaddrs h1 (Some root) t = addrs) by (apply (oaddrs_sext t h h1 _ None S1 R)).
  assert (Hn1 : nth_error h1 node = Some (set_ct (Some l0) (set_cn None nn))).
  { subst h1 h0. erewrite nth_error_upd_same; [reflexivity|]. erewrite nth_error_upd_same; [reflexivity|exact Hnn]. }
  assert (CD : Cond h1 node (oaddrs h1 (Some root) t)).
  { rewrite O1. split.
    - intros b n Hb Hn Ne. subst h1 h0. rewrite !nth_error_upd_other in Hn by auto. eapply DD; eauto.
    - intros _. exists (set_ct (Some l0) (set_cn None nn)), l0. split; [exact Hn1|]. split; [eapply ptr_sext; eauto|reflexivity]. }
  assert (PR1 : ptr h1 root [h_cls nroot]) by (eapply ptr_sext; eauto).
  rewrite (clone_main t h1 root None [h_cls nroot] (S (length h)) node (rep_sext _ _ _ _ _ S1 R) PR1); [|cbn [length]; lia|lia|rewrite O1; exact ND|exact CD].
  rewrite O1, L1. destruct (index_of_in node addrs Hin) as (k & Hk & Hnk). unfold markb. rewrite Hk.
  set (hm := upd h1 node (set_cn (Some (length h + k)))).
  assert (Lm : length hm = length h) by (subst hm; rewrite upd_length; exact L1).
  rewrite nth_error_app1 by lia. subst hm. erewrite nth_error_upd_same by exact Hn1. cbn [h_cn set_cn].
  set (hm := upd h1 node (set_cn (Some (length h + k)))) in *.
  rewrite !upd_app1 by (rewrite ?upd_length; lia).
  set (old := upd (upd hm node (set_cn None)) node (set_ct None)).
  assert (Lo : length old = length h) by (subst old; rewrite !upd_length; exact Lm).
  assert (So : sext h old).
  { assert (A1 : sext h1 hm) by (apply sext_upd; intros n; repeat split).
    assert (A2 : sext hm (upd hm node (set_cn None))) by (apply sext_upd; intros n; repeat split).
    assert (A3 : sext (upd hm node (set_cn None)) old) by (apply sext_upd; intros n; repeat split).
    exact (sext_trans _ _ _ S1 (sext_trans _ _ _ A1 (sext_trans _ _ _ A2 A3))). }
  exists (old ++ layout (length h) None t), k. split; [reflexivity|]. split; [exact Hnk|].
  pose proof (rep_layout t old [] None) as RL. rewrite app_nil_r, Lo, (optr_some t _ NE) in RL.
  pose proof (oaddrs_layout t old [] None) as OL. rewrite app_nil_r, Lo, (optr_some t _ NE) in OL.
  split; [|split; [exact RL|split]].
  - rewrite OL. assert (k < size t) by (rewrite <- (oaddrs_length t h (Some root) None R); apply nth_error_Some; fold addrs; congruence).
    rewrite nth_error_nth' with (d := 0) by (rewrite seq_length; lia). now rewrite seq_nth.
  - eapply rep_ext; [apply ext_app|]. eapply rep_sext; eauto.
  - split; [rewrite app_length, layout_length; lia|]. split; [exact OL|]. split.
    + rewrite (oaddrs_ext t old (old ++ layout (length h) None t) (Some root) None (ext_app old _) (rep_sext _ _ _ _ _ So R)).
      apply (oaddrs_sext t h old _ None So R).
    + split.
      * intros i n Hi. destruct (So i n Hi) as (n' & Hn' & E). exists n'. split; [|exact E].
        rewrite nth_error_app1; [exact Hn'|]. apply nth_error_Some. congruence.
      * intros b n Hb Hn. rewrite nth_error_app2 in Hn by lia. apply nth_error_In in Hn. eapply layout_scratch; eauto.
Qed.
Theorem clone_from_root_spec t h root node :
  rep h (Some root) None t -> NoDup (oaddrs h (Some root) t) -> In node (oaddrs h (Some root) t) ->
  (forall b n, In b (oaddrs h (Some root) t) -> b <> node -> nth_error h b = Some n -> dead (h_ct n)) ->
  exists h' k,
    clone_from_root h node = HOk (h', length h + k) /\
    nth_error (oaddrs h (Some root) t) k = Some node /\                       (* node is the k-th node of the original in pre-order ... *)
    nth_error (oaddrs h' (Some (length h)) t) k = Some (length h + k) /\      (* ... and the result is the k-th node of the copy *)
    rep h' (Some (length h)) None t /\                                        (* which is a complete copy of the whole tree *)
    rep h' (Some root) None t /\                                              (* the original is intact *)
    length h' = length h + size t.
Proof.
  intros R ND Hin DD. destruct (clone_from_root_full t h root node R ND Hin DD) as (h' & k & A1 & A2 & A3 & A4 & A5 & A6 & _).
  exists h', k. auto 10.
Qed.
