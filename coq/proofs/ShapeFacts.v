(* The structural part of C04's printable class under rewriting: no '=' below the root, factorial only of literals.
   keeps a b : if a has the structure, so has b. *)
From Coq Require Import List NArith ZArith QArith Bool Lia.
From Mathy Require Import Num Expr Util.
From MathyProofs Require Import ExprFacts.
Import ListNotations.

Fixpoint sk0 (e:expr) : Prop :=
  match e with
  | Const _ | Var _ => True
  | Un UFact c => exists n, c = Const n
  | Un UAbs _ => False
  | Un _ c => sk0 c
  | Bin KEq _ _ => False
  | Bin _ l r => sk0 l /\ sk0 r end.
(* at most one '=', at the root *)
Definition sk1 (e:expr) : Prop := match e with Bin KEq l r => sk0 l /\ sk0 r | _ => sk0 e end.

(* two constructors so that `split` / `repeat split` in the re-used proof scripts leave such a goal alone *)
Inductive keeps (a b:expr) : Prop := SK (H : sk0 a -> sk0 b) | SK_absurd (H : False).
Lemma sk_elim a b : keeps a b -> sk0 a -> sk0 b. Proof. intros [H|[]]. exact H. Qed.
Ltac kauto :=
  intros; repeat match goal with H : keeps _ _ |- _ => let H' := fresh in pose proof (sk_elim _ _ H) as H'; clear H end;
  repeat match goal with |- context[if ?c then _ else _] => destruct c end;
  apply SK;
  repeat match goal with k : bk |- _ => destruct k end;
  repeat match goal with u : uk |- _ => destruct u end;
  cbn [sk0] in *; try tauto; intuition eauto.
Lemma keeps_refl a : keeps a a. Proof. apply SK. auto. Qed.
Lemma keeps_trans a b c : keeps a b -> keeps b c -> keeps a c. Proof. intros H1 H2. apply SK. intros H. eapply sk_elim; eauto. eapply sk_elim; eauto. Qed.
Definition is_op (e:expr) : Prop := match e with Un _ _ | Bin _ _ _ => True | _ => False end.
(* replacing an OPERATOR node (rules never rewrite a leaf; the literal under a factorial is therefore never the replaced node) *)
Lemma keeps_replace : forall q root a b, subtree root q = Some a -> is_op a -> keeps a b -> keeps root (replace root q b).
Proof.
  induction q as [|d q IH]; intros root a b Hs Op Hv.
  - cbn in Hs. inversion Hs; subst. exact Hv.
  - destruct root as [n|v|u c|k l r]; destruct d; cbn [subtree] in Hs; try discriminate; cbn [replace].
    + specialize (IH c a b Hs Op Hv). apply SK. pose proof (sk_elim _ _ IH) as H. destruct u; cbn [sk0]; auto.
      intros (n & ->). exfalso. destruct q; cbn in Hs; [inversion Hs; subst a; exact Op|discriminate].
    + specialize (IH l a b Hs Op Hv). kauto.
    + specialize (IH r a b Hs Op Hv). kauto.
Qed.
(* terms are built from constants, variables, powers and products *)
Lemma make_term_sk c v e t : make_term c v e = Some t -> sk0 t.
Proof. unfold make_term. destruct v as [x|], e as [k|]; try discriminate; try (destruct (num_eqb c one)); intros [= <-]; cbn [sk0]; tauto. Qed.

(* the constants of an expression *)
Fixpoint consts (e:expr) : list num :=
  match e with Const c => [c] | Var _ => [] | Un _ c => consts c | Bin _ l r => consts l ++ consts r end.
