(* Sequences of rewrites keep the expression equivalent to the start (C09). *)
From Coq Require Import List NArith ZArith QArith Qreals Reals Lra Lia Bool.
From Mathy Require Import Num Expr Util Rules Sem Walk.
From MathyProofs Require Import ExprFacts SemFacts RulesSoundA RulesSoundB RulesSoundC RulesSoundD.
Import ListNotations.

(* one step on an equation: still an equation, eq_refines *)
Theorem equation_step r l0 r0 p z : can_apply (Bin KEq l0 r0) p r = true -> apply (Bin KEq l0 r0) p r = ROk z ->
  exists l' r', fst z = Bin KEq l' r' /\ eq_refines l0 r0 l' r'.
Proof.
  intros C A. destruct (not_balanced r) eqn:NB.
  - (* a local step *)
    assert (exists q, LocalAt (Bin KEq l0 r0) q (fst z) /\ (q = [] -> exists pr, r = RComm pr /\ p = [])) as (q & L & Hq).
    { unfold can_apply, apply in *. destruct (node (Bin KEq l0 r0) p) as [nd|] eqn:N; [|discriminate].
      destruct r; try discriminate NB.
      - destruct (assoc_sound _ _ _ C A) as (q & d & PP & L & K). exists q. split; auto. intros ->. simpl in K. destruct K; discriminate.
      - exists p. split; [eapply comm_sound; eauto|]. intros ->. eauto.
      - exists p. split; [eapply const_sound; eauto|]. intros ->. exfalso.
        assert (can_apply (Bin KEq l0 r0) [] RConst = true) as C' by (unfold can_apply; rewrite N; exact C).
        destruct (at_equation_only_comm RConst _ [] l0 r0 eq_refl C' eq_refl) as (pr & E). discriminate.
      - exists p. split; [eapply df_sound; eauto|]. intros ->. exfalso.
        assert (can_apply (Bin KEq l0 r0) [] (RFactor constants) = true) as C' by (unfold can_apply; rewrite N; exact C).
        destruct (at_equation_only_comm _ _ [] l0 r0 eq_refl C' eq_refl) as (pr & E). discriminate.
      - exists p. split; [eapply dm_sound; eauto|]. intros ->. exfalso.
        assert (can_apply (Bin KEq l0 r0) [] RDistr = true) as C' by (unfold can_apply; rewrite N; exact C).
        destruct (at_equation_only_comm _ _ [] l0 r0 eq_refl C' eq_refl) as (pr & E). discriminate.
      - exists p. split; [eapply mi_sound; eauto|]. intros ->. exfalso.
        assert (can_apply (Bin KEq l0 r0) [] RInverse = true) as C' by (unfold can_apply; rewrite N; exact C).
        destruct (at_equation_only_comm _ _ [] l0 r0 eq_refl C' eq_refl) as (pr & E). discriminate.
      - exists p. split; [eapply rs_sound; eauto|]. intros ->. exfalso.
        assert (can_apply (Bin KEq l0 r0) [] RRestate = true) as C' by (unfold can_apply; rewrite N; exact C).
        destruct (at_equation_only_comm _ _ [] l0 r0 eq_refl C' eq_refl) as (pr & E). discriminate.
      - exists p. split; [eapply vm_sound; eauto|]. intros ->. exfalso.
        assert (can_apply (Bin KEq l0 r0) [] RVarMul = true) as C' by (unfold can_apply; rewrite N; exact C).
        destruct (at_equation_only_comm _ _ [] l0 r0 eq_refl C' eq_refl) as (pr & E). discriminate. }
    destruct q as [|d q'].
    + destruct (Hq eq_refl) as (pr & -> & ->). unfold apply, comm_apply, node in A. simpl in A. inversion A; subst z. simpl.
      exists r0, l0. split; auto. apply flip_eq_refines.
    + apply (local_inside_equation l0 r0 (d :: q')); [discriminate|exact L].
  - destruct r; try discriminate NB. unfold can_apply, apply in *. destruct (node (Bin KEq l0 r0) p); [|discriminate].
    destruct (bm_sound _ _ _ C A) as (l & r & l' & r' & E & F & G). inversion E; subst. eauto.
Qed.

(* walks from an expression that is not an equation: balanced move never applies, every step refines *)
Lemma bm_needs_equation root p : bm_can root p = true -> is_equation root = true.
Proof. unfold bm_can, bm_type. destruct root as [| | |k l r]; try discriminate. destruct k; try discriminate. reflexivity. Qed.
Lemma local_keeps_non_equation root root' : is_equation root = false -> Local root root' -> forall r p, not_balanced r = true -> can_apply root p r = true ->
  apply root p r = ROk (root', p) -> True.
Proof. auto. Qed.

Theorem walk_refines : forall steps root en, Forall (fun s => not_balanced (fst s) = true) steps -> run root steps = Some en -> refines root en.
Proof.
  induction steps as [|[r p] rest IH]; intros root en Hf H; simpl in H.
  - inversion H. apply refines_refl.
  - inversion Hf as [|? ? NB Hf']; subst. simpl in NB.
    destruct (can_apply root p r) eqn:C; [|discriminate]. destruct (apply root p r) as [[root' p']|] eqn:A; [|discriminate].
    eapply refines_trans; [exact (step_refines r root p (root', p') NB C A)|]. now apply IH.
Qed.

(* walks from an equation: every state is an equation with the same solutions as the start (balanced moves included) *)
Theorem walk_equation : forall steps l r en, run (Bin KEq l r) steps = Some en ->
  exists l' r', en = Bin KEq l' r' /\ eq_refines l r l' r'.
Proof.
  induction steps as [|[ru p] rest IH]; intros l r en H; simpl in H.
  - inversion H. exists l, r. split; auto. apply eq_refines_refl.
  - destruct (can_apply (Bin KEq l r) p ru) eqn:C; [|discriminate]. destruct (apply (Bin KEq l r) p ru) as [[root' p']|] eqn:A; [|discriminate].
    destruct (equation_step ru l r p (root', p') C A) as (l1 & r1 & E & R1). simpl in E. subst root'.
    destruct (IH l1 r1 en H) as (l2 & r2 & E2 & R2). exists l2, r2. split; auto. eapply eq_refines_trans; eauto.
Qed.
