(* Sequences of rewrites at object level: every heap reached from a well-formed one by applicable rewrites is well-formed
   and holds the expression the expression-level model computes. *)
From Coq Require Import List NArith ZArith Bool Arith Lia.
From Mathy Require Import Num Expr Heap Rules Walk Plans HeapPlan.
From MathyProofs Require Import ExprFacts HeapFacts PlansFacts HeapPlanFacts.
Import ListNotations.

(* the side condition of run_plan_wf as a boolean: not the rotation that makes the node itself the root (C15_heap_rotate_root) *)
Definition step_ok (root:expr) (st:step) : bool :=
  match rule_plan root (snd st) (fst st) with
  | Some (q, pl) => match q with [] => top_ok pl | _ => true end
  | None => false end.
Fixpoint all_ok (root:expr) (steps:list step) : bool :=
  match steps with
  | [] => true
  | (r, p) :: rest => step_ok root (r, p) && match apply root p r with ROk (root', _) => all_ok root' rest | RRaises _ => true end
  end.

(* carrying out the steps on the heap: each step executes the rule's plan on the current tree of objects *)
Inductive Hreach : heap -> iexpr -> list step -> heap -> iexpr -> Prop :=
| hr_nil h T : Hreach h T [] h T
| hr_cons h T r p q pl h1 T1 rest h2 T2 :
    rule_plan (ierase T) p r = Some (q, pl) -> run_plan T q pl h = Some (h1, iaddr T1) -> wf_tree h1 T1 ->
    (forall b, b < length h -> ~ In b (iaddrs T) -> nth_error h1 b = nth_error h b) ->
    (forall b, In b (iaddrs T1) -> In b (iaddrs T) \/ length h <= b) ->
    Hreach h1 T1 rest h2 T2 -> Hreach h T ((r, p) :: rest) h2 T2.

Theorem heap_sequence : forall steps h T final,
  wf_tree h T -> run (ierase T) steps = Some final -> all_ok (ierase T) steps = true ->
  exists h' T', Hreach h T steps h' T' /\ wf_tree h' T' /\ ierase T' = final.
Proof.
  induction steps as [|[r p] rest IH]; intros h T final W R OK; cbn [run all_ok] in *.
  - inversion R; subst. exists h, T. split; [constructor|auto].
  - destruct (can_apply (ierase T) p r) eqn:C; [|discriminate]. destruct (apply (ierase T) p r) as [[root' p']|] eqn:A; [|discriminate].
    apply andb_prop in OK. destruct OK as (SO & OK).
    destruct (plan_matches r (ierase T) p (root', p') C A) as (q & pl & at_ & e & RP & Hs & Er & Ez).
    unfold step_ok in SO. cbn [fst snd] in SO. rewrite RP in SO.
    destruct (subtree_isub _ _ _ Hs) as (ctx & Ec & Ee). subst at_.
    assert (TOP : q = [] -> top_ok pl = true) by (intros ->; exact SO).
    destruct (run_plan_wf T h q ctx pl e W Ec (plans_linear _ _ _ _ _ RP) Er TOP) as (h1 & T1 & X & W1 & E1 & F1 & I1).
    cbn [fst] in Ez. assert (ierase T1 = root') as ET by (rewrite E1, Ez; reflexivity).
    rewrite <- ET in R, OK. destruct (IH h1 T1 final W1 R OK) as (h2 & T2 & HR & W2 & E2).
    exists h2, T2. split; [|auto]. econstructor; eauto.
Qed.
