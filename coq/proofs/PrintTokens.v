(* C04, part 1: the class of printable trees below the '=' spine; the printer at token level (same decisions as Printer.show, taken from
   the same strings); the printed characters lex to exactly those tokens. *)
From Coq Require Import List NArith ZArith QArith Bool Lia Arith.
From Mathy Require Import Tok Params TokSet Lexer Num Expr Parser Grammar Printer.
From MathyProofs Require Import ParamsFacts LexerFacts ParserNF ParserComplete ParserTop TermText ProblemsFacts.
Import ListNotations.
Local Open Scope nat_scope.

(* ---------- the class of trees inside the quantifier, below the '=' spine ---------- *)
(* the same number (2 and 2.0, 1/2 and 2/4; nan equals nothing) *)
Definition num_equiv (a b:num) : Prop := match qv a, qv b with Some x, Some y => (x == y)%Q | _, _ => False end.
(* a constant round-trips when its text is [-]run with run a number run that coerce reads back to the same number *)
Definition const_text (c:num) (neg:bool) (run:list N) (v:num) : Prop :=
  show_num c = Some ((if neg then [45%N] else []) ++ run) /\ forallb is_number run = true /\ run <> [] /\ coerce run = Ok v /\
  num_equiv (if neg then nneg v else v) c.
Fixpoint pr0 (e:expr) : Prop :=
  match e with
  | Const c => exists neg run v, const_text c neg run v
  | Var v => is_alpha v = true
  | Un UFact c => (exists n, c = Const n) /\ pr0 c
  | Un UAbs _ => False   (* `abs` is not a function name of the tokenizer: abs(..) does not read back *)
  | Un _ c => pr0 c
  | Bin KEq _ _ => False
  | Bin _ l r => pr0 l /\ pr0 r
  end.

(* ---------- the printer at token level (same decisions as Printer.show, taken from the same strings) ---------- *)
Definition T := TermText.T.
Definition num_toks (c:num) : list token :=
  match show_num c with
  | Some (45%N :: run) => [T TMinus [45%N]; T TConst run]
  | Some run => [T TConst run]
  | None => [] end.
Definition paren_t (l:list token) : list token := T TOpen [40%N] :: l ++ [T TClose [41%N]].
Definition op_tok (k:bk) : token :=
  match k with KEq => T TEqual [61%N] | KAdd => T TPlus [43%N] | KSub => T TMinus [45%N] | KMul => T TMul [42%N] | KDiv => T TDiv [47%N] | KPow => T TExp [94%N] end.
Definition neg_wrap (c:expr) : bool :=
  match show c None with
  | Some s =>
    let loose := match c with Bin KAdd _ _ | Bin KSub _ _ => true | Bin KMul _ _ | Bin KDiv _ _ => has_space s | _ => false end in
    let literal_first := match c with Bin KPow _ _ | Un UFact _ => starts_literal s | _ => false end in
    loose || literal_first || starts_minus s
  | None => false end.
Definition lpar_kind (l:expr) : bool := match l with Un UNeg _ | Bin KPow _ _ => true | Bin KMul ll lr => compact KMul ll lr | _ => false end.
Definition rpar_kind (r:expr) : bool := match r with Bin KPow _ _ => true | _ => false end.
Fixpoint ptoks (e:expr) (parent:option (bk*dir)) : list token :=
  match e with
  | Const n => num_toks n
  | Var v => [T TVar [v]]
  | Un UNeg c => T TMinus [45%N] :: (if neg_wrap c then paren_t (ptoks c None) else ptoks c None)
  | Un UFact c => ptoks c None ++ [T TFact [33%N]]
  | Un USgn c => T TFunc [115;103;110]%N :: paren_t (ptoks c None)
  | Un UAbs c => []
  | Bin KPow l r =>
    (if lpar_kind l then paren_t (ptoks l (Some (KPow,DL))) else ptoks l (Some (KPow,DL))) ++ op_tok KPow ::
    (if rpar_kind r then paren_t (ptoks r (Some (KPow,DR))) else ptoks r (Some (KPow,DR)))
  | Bin k l r =>
    if compact k l r then ptoks l (Some (k,DL)) ++ ptoks r (Some (k,DR)) else
    let body := ptoks l (Some (k,DL)) ++ op_tok k :: ptoks r (Some (k,DR)) in
    if self_parens k parent then paren_t body else body
  end.

(* ---------- lexing the printed text ---------- *)
Lemma lex_alpha v s ts : is_alpha v = true -> na s -> LexSpec false s ts -> LexSpec false (v :: s) (T TVar [v] :: ts).
Proof.
  intros Hv Ha H. change (v :: s) with ([v] ++ s). change (T TVar [v] :: ts) with (var_tokens [v] ++ ts).
  apply LS_vars; auto.
  - discriminate.
  - cbn [forallb]. now rewrite Hv.
  - cbn [starts_with]. now apply alpha_not_number.
  - intros [Q|[]]. discriminate Q.
Qed.
Lemma lex_const c neg run v s ts : const_text c neg run v -> nn s -> LexSpec false s ts ->
  exists sc, show_num c = Some sc /\ LexSpec false (sc ++ s) (num_toks c ++ ts).
Proof.
  intros (Hs & Hf & Hne & _) Hn H. exists ((if neg then [45%N] else []) ++ run). split; [exact Hs|].
  unfold num_toks. rewrite Hs. destruct neg; cbn [app].
  - apply lex_minus. apply lex_run; auto.
  - destruct run as [|c0 run']; [contradiction|]. pose proof Hf as Hf0. cbn [forallb] in Hf. apply andb_true_iff in Hf. destruct Hf as [Hc0 _].
    destruct (N.eq_dec c0 45) as [->|Ne]; [discriminate Hc0|].
    replace (match c0 :: run' with 45%N :: run0 => [T TMinus [45%N]; T TConst run0] | _ => [T TConst (c0 :: run')] end) with [T TConst (c0 :: run')].
    + apply lex_run; auto.
    + destruct c0 as [|p]; [reflexivity|]. do 6 (destruct p as [p|p|]; try reflexivity). exfalso. apply Ne. reflexivity.
Qed.
Lemma clean_cons c s : is_number c = false -> is_alpha c = false -> clean (c :: s). Proof. intros A B. split; assumption. Qed.
Ltac cl := first [apply clean_cons; reflexivity | split; reflexivity].

Lemma show_pow l r parent : show (Bin KPow l r) parent =
  match show l (Some (KPow,DL)), show r (Some (KPow,DR)) with
  | Some a, Some b => Some ((if lpar_kind l then paren a else a) ++ 94%N :: (if rpar_kind r then paren b else b))
  | _, _ => None end.
Proof. reflexivity. Qed.
Lemma lex_show : forall e parent s, pr0 e -> show e parent = Some s ->
  forall rest ts, clean rest -> LexSpec false rest ts -> LexSpec false (s ++ rest) (ptoks e parent ++ ts).
Proof.
  induction e as [c|v|u c IH|k l IHl r IHr]; intros parent s P S rest ts C H.
  - cbn [pr0] in P. destruct P as (neg & run & v & CT). destruct (lex_const c neg run v rest ts CT (proj1 C) H) as (sc & E & L).
    cbn [show] in S. rewrite E in S. inversion S; subst s. exact L.
  - cbn [show] in S. inversion S; subst s. cbn [app ptoks]. apply lex_alpha; [exact P|exact (proj2 C)|exact H].
  - destruct u.
    + (* negate *) cbn [pr0] in P. cbn [show] in S. destruct (show c None) as [s0|] eqn:S0; [|discriminate]. inversion S; subst s; clear S.
      cbn [ptoks]. unfold neg_wrap. rewrite S0.
      match goal with |- context[if ?b then paren s0 else s0] => destruct b end; cbn [app].
      * apply lex_minus. unfold paren, paren_t. cbn [app]. apply (lex_opchar 40%N TOpen); [simpl; tauto|discriminate|].
        rewrite <- !app_assoc. apply (IH None s0 P S0); [cl|]. cbn [app]. apply (lex_opchar 41%N TClose); [simpl; tauto|discriminate|exact H].
      * apply lex_minus. apply (IH None s0 P S0); assumption.
    + (* factorial *) cbn [pr0] in P. destruct P as [_ P]. cbn [show] in S. destruct (show c None) as [s0|] eqn:S0; [|discriminate]. inversion S; subst s; clear S.
      cbn [ptoks]. rewrite <- !app_assoc. apply (IH None s0 P S0); [cl|]. cbn [app]. apply (lex_opchar 33%N TFact); [simpl; tauto|discriminate|exact H].
    + (* sgn *) cbn [pr0] in P. cbn [show] in S. destruct (show c None) as [s0|] eqn:S0; [|discriminate]. inversion S; subst s; clear S.
      cbn [ptoks app]. change (115%N :: 103%N :: 110%N :: 40%N :: (s0 ++ [41%N]) ++ rest) with ([115;103;110]%N ++ 40%N :: (s0 ++ [41%N]) ++ rest).
      apply LS_func; [discriminate|reflexivity|reflexivity|reflexivity|simpl; tauto|].
      unfold paren_t. cbn [app]. apply (lex_opchar 40%N TOpen); [simpl; tauto|discriminate|].
      rewrite <- !app_assoc. apply (IH None s0 P S0); [cl|]. cbn [app]. apply (lex_opchar 41%N TClose); [simpl; tauto|discriminate|exact H].
    + (* abs: not in the class *) cbn [pr0] in P. contradiction.
  - destruct (bk_eqb k KPow) eqn:KP.
    { (* power *) destruct k; try discriminate KP. cbn [pr0] in P. destruct P as [Pl Pr]. rewrite show_pow in S.
      destruct (show l _) as [a|] eqn:Sa; [|discriminate]. destruct (show r _) as [b|] eqn:Sb; [|discriminate].
      inversion S; subst s; clear S. cbn [ptoks]. fold (lpar_kind l). fold (rpar_kind r).
      assert (LexSpec false ((if rpar_kind r then paren b else b) ++ rest) ((if rpar_kind r then paren_t (ptoks r (Some (KPow, DR))) else ptoks r (Some (KPow, DR))) ++ ts)) as LR.
      { destruct (rpar_kind r).
        - unfold paren, paren_t. cbn [app]. apply (lex_opchar 40%N TOpen); [simpl; tauto|discriminate|].
          rewrite <- !app_assoc. apply (IHr _ b Pr Sb); [cl|]. cbn [app]. apply (lex_opchar 41%N TClose); [simpl; tauto|discriminate|exact H].
        - apply (IHr _ b Pr Sb); assumption. }
      rewrite <- !app_assoc. cbn [app].
      destruct (lpar_kind l).
      - unfold paren, paren_t. cbn [app]. apply (lex_opchar 40%N TOpen); [simpl; tauto|discriminate|].
        rewrite <- !app_assoc. apply (IHl _ a Pl Sa); [cl|]. cbn [app]. apply (lex_opchar 41%N TClose); [simpl; tauto|discriminate|].
        apply (lex_opchar 94%N TExp); [simpl; tauto|discriminate|exact LR].
      - apply (IHl _ a Pl Sa); [cl|]. apply (lex_opchar 94%N TExp); [simpl; tauto|discriminate|exact LR]. }
    destruct k; try discriminate KP; cbn [pr0] in P; try contradiction; destruct P as [Pl Pr].
    all: cbn [show] in S.
    all: destruct (show l _) as [a|] eqn:Sa; [|discriminate].
    all: destruct (show r _) as [b|] eqn:Sb; [|discriminate].
    all: cbn [ptoks].
    all: destruct (compact _ l r) eqn:CP.
    all: try (cbn [compact] in CP; discriminate CP).
    3: { (* compact product  c x  /  c x^r *)
      destruct l as [cl0| | |]; try discriminate CP. inversion S; subst s; clear S.
      cbn [pr0] in Pl. destruct Pl as (neg & run & v0 & CT).
      assert (nn (b ++ rest)) as NB.
      { destruct r as [|x| |[] rl rr]; try discriminate CP.
        - cbn [show] in Sb. inversion Sb; subst b. cbn [pr0] in Pr. unfold nn. cbn [app starts_with]. now apply alpha_not_number.
        - destruct rl; try discriminate CP. cbn [pr0] in Pr. destruct Pr as [Pv _]. rewrite show_pow in Sb. cbn [show lpar_kind] in Sb.
          destruct (show rr (Some (KPow, DR))); [|discriminate Sb]. inversion Sb; subst b. unfold nn. cbn [app starts_with]. now apply alpha_not_number. }
      destruct (lex_const cl0 neg run v0 (b ++ rest) (ptoks r (Some (KMul, DR)) ++ ts) CT NB) as (sc & E & L).
      - apply (IHr _ b Pr Sb); assumption.
      - cbn [show] in Sa. rewrite E in Sa. inversion Sa; subst a. rewrite <- !app_assoc. exact L. }
    all: inversion S; subst s; clear S.
    all: destruct (self_parens _ parent).
    all: unfold paren, paren_t, sp, opname, op_tok; cbn [app]; rewrite <- ?app_assoc; cbn [app].
    all: try (apply (lex_opchar 40%N TOpen); [simpl; tauto|discriminate|]; rewrite <- ?app_assoc; cbn [app]).
    all: apply (IHl _ a Pl Sa); [cl|]; apply lex_space.
    all: first [apply (lex_opchar 43%N TPlus); [simpl; tauto|discriminate|] | apply lex_minus | apply (lex_opchar 42%N TMul); [simpl; tauto|discriminate|] | apply (lex_opchar 47%N TDiv); [simpl; tauto|discriminate|]].
    all: apply lex_space.
    all: first [ (apply (IHr _ b Pr Sb); [cl|]; cbn [app]; apply (lex_opchar 41%N TClose); [simpl; tauto|discriminate|exact H]) | (apply (IHr _ b Pr Sb); assumption) ].
Qed.
