(* Structure preservation of the rewrite rules, part A (derived from RulesVarsA with `keeps` in place of `same_vars`). *)
From Coq Require Import List NArith ZArith QArith Qreals Reals Lra Lia Bool.
From Mathy Require Import Num Expr Util Rules Sem.
From MathyProofs Require Import ExprFacts SemFacts NumSem PowSem.
From MathyProofs Require Import ShapeFacts.
Import ListNotations.
Open Scope R_scope.

(* a rewrite that replaces ONE subtree by a refinement of it *)
Definition LocalAtK (root:expr) (q:path) (root':expr) : Prop :=
  exists a b, subtree root q = Some a /\ root' = replace root q b /\ keeps a b.
Definition LocalK (root root':expr) : Prop := exists q, LocalAtK root q root'.
Lemma local_atk root p a b : subtree root p = Some a -> keeps a b -> LocalAtK root p (replace root p b).
Proof. intros. exists a, b. auto. Qed.

Ltac rsolve := kauto.

Lemma keeps_bin k a a' b b' : keeps a a' -> keeps b b' -> keeps (Bin k a b) (Bin k a' b').
Proof. kauto. Qed.
Lemma keeps_binl k a a' b : keeps a a' -> keeps (Bin k a b) (Bin k a' b).
Proof. kauto. Qed.
Lemma keeps_binr k a b b' : keeps b b' -> keeps (Bin k a b) (Bin k a b').
Proof. kauto. Qed.

(* basic algebra as refinements *)
Lemma add_assoc_l a b c : keeps (Bin KAdd (Bin KAdd a b) c) (Bin KAdd a (Bin KAdd b c)). Proof. kauto. Qed.
Lemma add_assoc_r a b c : keeps (Bin KAdd a (Bin KAdd b c)) (Bin KAdd (Bin KAdd a b) c). Proof. kauto. Qed.
Lemma mul_assoc_l a b c : keeps (Bin KMul (Bin KMul a b) c) (Bin KMul a (Bin KMul b c)). Proof. kauto. Qed.
Lemma mul_assoc_r a b c : keeps (Bin KMul a (Bin KMul b c)) (Bin KMul (Bin KMul a b) c). Proof. kauto. Qed.
Lemma add_comm a b : keeps (Bin KAdd a b) (Bin KAdd b a). Proof. kauto. Qed.
Lemma mul_comm a b : keeps (Bin KMul a b) (Bin KMul b a). Proof. kauto. Qed.
Lemma eq_flip a b : keeps (Bin KEq a b) (Bin KEq b a). Proof. kauto. Qed.
Lemma add_swap_right x b y : keeps (Bin KAdd (Bin KAdd x y) b) (Bin KAdd (Bin KAdd x b) y). Proof. kauto. Qed.
Lemma mul_swap_right x b y : keeps (Bin KMul (Bin KMul x y) b) (Bin KMul (Bin KMul x b) y). Proof. kauto. Qed.

(* ---------- associative swap ---------- *)
Theorem assoc_shape root p z : assoc_can root p = true -> assoc_apply root p = ROk z ->
  exists q d, parent_path p = Some (q, d) /\ LocalAtK root q (fst z) /\ (is_k KAdd (subtree root q) = true \/ is_k KMul (subtree root q) = true).
Proof.
  unfold assoc_can, assoc_apply, node, par, parent.
  destruct (parent_path p) as [[q d]|] eqn:PP.
  - pose proof (parent_path_app _ _ _ PP) as ->. rewrite subtree_app.
    destruct (subtree root q) as [pe|] eqn:Sq; [|simpl; discriminate].
    rewrite subtree_one. intros Hc.
    assert (exists K, (K = KAdd \/ K = KMul) /\ is_k K (match d with DL => lft pe | DR => rgt pe end) = true /\ is_k K (Some pe) = true) as (K & HK & Hn & Hp).
    { apply orb_prop in Hc. destruct Hc as [H|H]; apply andb_prop in H; destruct H; [exists KAdd|exists KMul]; auto. }
    apply is_k_inv in Hp. destruct Hp as (pl & pr & [= ->]). apply is_k_inv in Hn. destruct Hn as (a & b & Hn).
    destruct d; simpl in Hn; inversion Hn; subst; simpl; intros [= <-]; simpl.
    + exists q, DL. split; [reflexivity|]. split.
      * exists (Bin K (Bin K a b) pr), (Bin K a (Bin K b pr)). repeat split; auto. destruct HK as [-> | ->]; [apply add_assoc_l|apply mul_assoc_l].
      * rewrite Sq. destruct HK as [-> | ->]; auto.
    + exists q, DR. split; [reflexivity|]. split.
      * exists (Bin K pl (Bin K a b)), (Bin K (Bin K pl a) b). repeat split; auto. destruct HK as [-> | ->]; [apply add_assoc_r|apply mul_assoc_r].
      * rewrite Sq. destruct HK as [-> | ->]; auto.
  - simpl. rewrite !andb_false_r. discriminate.
Qed.

(* ---------- commutative swap ---------- *)
Lemma comm_can_kind root p pr : comm_can root p pr = true -> is_k KAdd (node root p) = true \/ is_k KEq (node root p) = true \/ is_k KMul (node root p) = true.
Proof.
  unfold comm_can. destruct (is_k KAdd (node root p)) eqn:A; [auto|]. destruct (is_k KEq (node root p)) eqn:E; [auto|]. simpl.
  destruct (is_k KMul (node root p)) eqn:M; [auto|]. simpl. discriminate.
Qed.
Theorem comm_shape root p pr z : comm_can root p pr = true -> comm_apply root p = ROk z -> LocalAtK root p (fst z).
Proof.
  intros Hc. apply comm_can_kind in Hc. unfold comm_apply. unfold node in *.
  destruct (subtree root p) as [n|] eqn:Sp; [|destruct Hc as [H|[H|H]]; discriminate].
  destruct n as [| | |k a b]; try (destruct Hc as [H|[H|H]]; discriminate).
  intros [= <-]. simpl. apply (local_atk _ _ _ _ Sp).
  assert (k = KAdd \/ k = KEq \/ k = KMul) as Hk.
  { destruct Hc as [H|[H|H]]; destruct k; simpl in H; try discriminate; auto. }
  destruct Hk as [-> | [-> | ->]].
  - destruct a as [| | |ka p1 q1]; try apply add_comm. destruct ka; try apply add_comm. apply add_swap_right.
  - apply eq_flip.
  - destruct a as [| | |ka p1 q1]; try apply mul_comm. destruct ka; try apply mul_comm. apply mul_swap_right.
Qed.

(* ---------- multiplicative inverse ---------- *)
Lemma div_as_mul l r : keeps (Bin KDiv l r) (Bin KMul l (Bin KDiv (Const (NInt 1)) r)).
Proof. kauto. Qed.
Theorem mi_shape root p z : mi_can root p = true -> mi_apply root p = ROk z -> LocalAtK root p (fst z).
Proof.
  unfold mi_can, mi_apply, node. destruct (subtree root p) as [n|] eqn:Hs; [|discriminate].
  destruct n as [| | |k l r]; try discriminate. destruct k; try discriminate. intros _.
  assert (keeps (Bin KDiv l r) (Bin KMul l (Bin KDiv (Const (NInt 1)) r))) as Gen.
  { kauto. }
  destruct r as [| |u c|]; try (intros [= <-]; simpl; apply (local_atk _ _ _ _ Hs); exact Gen).
  destruct u; try (intros [= <-]; simpl; apply (local_atk _ _ _ _ Hs); exact Gen).
  intros [= <-]. simpl. apply (local_atk _ _ _ _ Hs).
  kauto.
Qed.

(* ---------- distributive multiply ---------- *)
Lemma distr_l a b c : keeps (Bin KMul a (Bin KAdd b c)) (Bin KAdd (Bin KMul a b) (Bin KMul a c)). Proof. kauto. Qed.
Lemma distr_r a b c : keeps (Bin KMul (Bin KAdd b c) a) (Bin KAdd (Bin KMul a b) (Bin KMul a c)). Proof. kauto. Qed.
Lemma mul_either a b (s:bool) : keeps (Bin KMul a b) (if s then Bin KMul b a else Bin KMul a b).
Proof. kauto. Qed.
Ltac dm_close := repeat match goal with |- context[if ?c then _ else _] => destruct c end;
  apply keeps_bin; first [apply keeps_refl | apply mul_comm].
Theorem dm_shape root p z : dm_can root p = true -> dm_apply root p = ROk z -> LocalAtK root p (fst z).
Proof.
  unfold dm_can, dm_apply, node. destruct (subtree root p) as [n|] eqn:Hs; [|discriminate].
  destruct n as [| | |k l r]; try discriminate. destruct k; try discriminate. intros _.
  destruct l as [| | |kl ll lr].
  1-3: destruct r as [| | |kr rl rr]; try discriminate; destruct kr; try discriminate;
       cbn [rbind]; intros [= <-]; cbn [fst]; apply (local_atk _ _ _ _ Hs); (eapply keeps_trans; [apply distr_l|]); dm_close.
  destruct kl.
  2: { cbn [rbind]. intros [= <-]. cbn [fst]. apply (local_atk _ _ _ _ Hs). eapply keeps_trans; [apply distr_r|]. dm_close. }
  all: destruct r as [| | |kr rl rr]; try discriminate; destruct kr; try discriminate;
       cbn [rbind]; intros [= <-]; cbn [fst]; apply (local_atk _ _ _ _ Hs); (eapply keeps_trans; [apply distr_l|]); dm_close.
Qed.

(* ---------- restate subtraction ---------- *)
Lemma sub_as_add_neg l r : keeps (Bin KSub l r) (Bin KAdd l (Un UNeg r)). Proof. kauto. Qed.
Lemma sub_neg_var l c : keeps (Bin KSub l (Un UNeg c)) (Bin KAdd l c). Proof. kauto. Qed.
Lemma sub_const l v : keeps (Bin KSub l (Const v)) (Bin KAdd l (Const (nneg v))).
Proof. kauto. Qed.
Lemma add_const l v : keeps (Bin KAdd l (Const v)) (Bin KSub l (Const (nneg v))).
Proof. kauto. Qed.
(* negating the leading constant of a product or quotient negates it *)
Lemma neg_left_mul v t : keeps (Un UNeg (Bin KMul (Const v) t)) (Bin KMul (Const (nneg v)) t).
Proof. kauto. Qed.
Lemma neg_left_div v t : keeps (Un UNeg (Bin KDiv (Const v) t)) (Bin KDiv (Const (nneg v)) t).
Proof. kauto. Qed.
Lemma unneg_left_mul v t : keeps (Bin KMul (Const v) t) (Un UNeg (Bin KMul (Const (nneg v)) t)).
Proof. kauto. Qed.
Lemma sub_to_add_negated l r r' : keeps (Un UNeg r) r' -> keeps (Bin KSub l r) (Bin KAdd l r').
Proof. kauto. Qed.
Lemma add_to_sub_negated l r r' : keeps r (Un UNeg r') -> keeps (Bin KAdd l r) (Bin KSub l r').
Proof. kauto. Qed.


Theorem rs_shape root p z : isSome (rs_type root p) = true -> rs_apply root p = ROk z -> LocalAtK root p (fst z).
Proof.
  unfold rs_apply. destruct (rs_type root p) as [op|] eqn:T; [|discriminate]. intros _.
  unfold node in *. destruct (subtree root p) as [n|] eqn:Hs; [|discriminate].
  destruct n as [| | |k l r]; try discriminate.
  unfold rs_type, node in T. rewrite Hs in T. cbv zeta in T. change (orgt (Some (Bin k l r))) with (Some r) in T.
  destruct (is_k KSub (Some (Bin k l r)) && _) eqn:SubCase.
  - apply andb_prop in SubCase. destruct SubCase as (Hk & _). destruct k; simpl in Hk; try discriminate. clear Hk.
    destruct (is_neg (Some r) && is_var (orgt (Some r))) eqn:NV.
    { inversion T; subst op. apply andb_prop in NV. destruct NV as (N1 & _). apply is_neg_inv in N1. destruct N1 as (c & [= ->]).
      cbn [rbind]. intros [= <-]. simpl. apply (local_atk _ _ _ _ Hs). apply sub_neg_var. }
    destruct (match cval (Some r) with Some v => nlt0 v | None => false end) eqn:NC.
    { inversion T; subst op. destruct r as [v| | |]; try discriminate. cbn [rbind]. intros [= <-]. simpl. apply (local_atk _ _ _ _ Hs). apply sub_const. }
    destruct ((is_k KMul (Some r) || is_k KDiv (Some r)) && is_const (olft (Some r))) eqn:TC.
    { inversion T; subst op. apply andb_prop in TC. destruct TC as (K & Cn). cbn [rbind]. intros [= <-]. simpl. apply (local_atk _ _ _ _ Hs).
      apply sub_to_add_negated.
      apply orb_prop in K. destruct K as [K|K]; apply is_k_inv in K; destruct K as (rl & rr & [= ->]); simpl in Cn;
        destruct rl as [v| | |]; try discriminate; simpl; [apply neg_left_mul|apply neg_left_div]. }
    inversion T; subst op. cbn [rbind]. intros [= <-]. simpl. apply (local_atk _ _ _ _ Hs). apply sub_as_add_neg.
  - destruct (negb (is_k KAdd (Some (Bin k l r)))) eqn:NA; [discriminate|].
    apply negb_false_iff in NA. destruct k; simpl in NA; try discriminate. clear NA.
    destruct (is_const (Some r)) eqn:RC.
    { apply is_const_inv in RC. destruct RC as (v & [= ->]). simpl in T. destruct (nlt0 v); [|discriminate]. inversion T; subst op.
      cbn [rbind]. intros [= <-]. simpl. apply (local_atk _ _ _ _ Hs). apply add_const. }
    destruct (is_k KMul (Some r) && is_const (olft (Some r)) && is_var (orgt (Some r))) eqn:CV.
    { apply andb_prop in CV. destruct CV as (CV & _). apply andb_prop in CV. destruct CV as (K & Cn).
      apply is_k_inv in K. destruct K as (rl & rr & [= ->]). simpl in Cn. destruct rl as [v| | |]; try discriminate.
      simpl in T. destruct (nlt0 v); [|discriminate]. inversion T; subst op.
      cbn [rbind]. intros [= <-]. simpl. apply (local_atk _ _ _ _ Hs). apply add_to_sub_negated. apply unneg_left_mul. }
    destruct (is_k KMul (Some r) && is_const (olft (Some r)) && is_k KPow (orgt (Some r))) eqn:CVE; [|discriminate].
    apply andb_prop in CVE. destruct CVE as (CVE & _). apply andb_prop in CVE. destruct CVE as (K & Cn).
    apply is_k_inv in K. destruct K as (rl & rr & [= ->]). simpl in Cn. destruct rl as [v| | |]; try discriminate.
    simpl in T. destruct (nlt0 v); [|discriminate]. inversion T; subst op.
    cbn [rbind]. intros [= <-]. simpl. apply (local_atk _ _ _ _ Hs). apply add_to_sub_negated. apply unneg_left_mul.
Qed.
