(* Every structured problem text renders to characters the parser accepts (for ALL problems: the structure makes malformed
   text unrepresentable), hence every generator output is valid for every draw stream; get_rand_vars, split_in_two_random. *)
From Coq Require Import List NArith ZArith QArith Bool Lia Arith.
From Mathy Require Import Tok Params TokSet Lexer Num Expr Parser Grammar Printer Problems.
From MathyProofs Require Import ParamsFacts LexerFacts ParserNF ParserComplete ParserTop TermText.
Import ListNotations.
Local Open Scope nat_scope.

Definition digit_c (c:N) : Prop := (48 <= c /\ c <= 57)%N.

(* ---------- decimal digits ---------- *)
Lemma digits_pos_digits : forall fuel z acc, (0 <= z)%Z -> Forall digit_c acc -> Forall digit_c (digits_pos fuel z acc).
Proof.
  induction fuel as [|f IH]; intros z acc Hz Ha; cbn [digits_pos]; [exact Ha|].
  destruct (z <? 10)%Z eqn:E.
  - apply Z.ltb_lt in E. constructor; [unfold digit_c; lia|exact Ha].
  - apply IH; [apply Z.div_pos; lia|]. constructor; [|exact Ha].
    pose proof (Z.mod_pos_bound z 10 ltac:(lia)). unfold digit_c. lia.
Qed.
Lemma show_nat_digits z : (0 <= z)%Z -> Forall digit_c (show_nat z).
Proof. intros H. unfold show_nat. apply digits_pos_digits; [exact H|constructor]. Qed.
Lemma digits_pos_nonempty : forall fuel z acc, acc <> [] -> digits_pos fuel z acc <> [].
Proof. induction fuel as [|f IH]; intros z acc H; cbn [digits_pos]; [exact H|]. destruct (z <? 10)%Z; [intros Q; discriminate Q|apply IH; intros Q; discriminate Q]. Qed.
Lemma show_nat_nonempty z : show_nat z <> [].
Proof. unfold show_nat. cbn [digits_pos]. destruct (z <? 10)%Z; [intros Q; discriminate Q|apply digits_pos_nonempty; intros Q; discriminate Q]. Qed.
Lemma digit_is_number c : digit_c c -> is_number c = true.
Proof. intros H. apply is_number_iff. right. exact H. Qed.
Lemma alpha_not_number c : is_alpha c = true -> is_number c = false.
Proof.
  intros H. apply is_alpha_iff in H. destruct (is_number c) eqn:E; [|reflexivity]. apply is_number_iff in E. lia.
Qed.
Lemma letter_alpha v : is_alpha (letter v) = true.
Proof.
  unfold letter. assert (forall pool, forallb is_alpha pool = true -> is_alpha (nth (v_idx v) pool 120%N) = true) as G.
  { intros pool. generalize (v_idx v). induction pool as [|c r IH]; intros [|i] F; try reflexivity; cbn [nth forallb] in *; apply andb_true_iff in F; destruct F; auto. }
  destruct (v_common v); apply G; reflexivity.
Qed.

(* ---------- the characters and the tokens of a problem ---------- *)
Definition num_run (c:numtext) : list N := show_nat (Z.of_N (n_int c)) ++ match n_frac c with Some d => [46%N; (48 + d mod 10)%N] | None => [] end.
Definition tk_num (c:numtext) : list token := (if n_neg c then [T TMinus [45%N]] else []) ++ [T TConst (num_run c)].
Definition tk_pow (p:option N) : list token := match p with Some k => [T TExp [94%N]; T TConst (show_nat (Z.of_N k))] | None => [] end.
Definition tk_term (t:pterm) : list token :=
  match t with PNum c => tk_num c | PVar c v p => (match c with Some c => tk_num c | None => [] end) ++ T TVar [letter v] :: tk_pow p end.
Definition tk_op (o:opc) : list token := [match o with OPlus => T TPlus [43%N] | OMinus => T TMinus [45%N] | OTimes => T TMul [42%N] end].
Definition tk_chain {A} (f:A -> list token) (c:chain A) : list token := f (fst c) ++ flat_map (fun x => tk_op (fst x) ++ f (snd x)) (snd c).
Definition tk_group (g:chain pterm) : list token := T TOpen [40%N] :: tk_chain tk_term g ++ [T TClose [41%N]].
Definition tk_item (i:pitem) : list token := match i with ITerm t => tk_term t | IGroup g => tk_group g | IGroup2 a b => tk_group a ++ tk_group b end.
Definition tokens (p:problem) : list token := tk_chain tk_item p ++ [EOFtok].

Lemma r_num_eq c : r_num c = (if n_neg c then [45%N] else []) ++ num_run c.
Proof. unfold r_num, num_run. now rewrite app_assoc. Qed.
Lemma num_run_number c : forallb is_number (num_run c) = true /\ num_run c <> [].
Proof.
  unfold num_run. split.
  - rewrite forallb_app. apply andb_true_iff. split.
    + apply forallb_forall. intros x Hx. apply digit_is_number. pose proof (show_nat_digits (Z.of_N (n_int c)) ltac:(lia)) as F. rewrite Forall_forall in F. auto.
    + destruct (n_frac c) as [d|]; [|reflexivity]. cbn [forallb]. rewrite andb_true_r. apply andb_true_iff. split; [reflexivity|].
      apply digit_is_number. pose proof (N.mod_upper_bound d 10 ltac:(lia)). unfold digit_c. set (m := (d mod 10)%N) in *. lia.
  - intros H. apply app_eq_nil in H. destruct H as [H _]. exact (show_nat_nonempty _ H).
Qed.

(* continuation-style lexing lemmas: piece ++ rest lexes to piece tokens ++ rest tokens *)
Definition nn (s:list N) : Prop := starts_with is_number s = false.
Definition na (s:list N) : Prop := starts_with is_alpha s = false.
Lemma lex_minus s ts : LexSpec false s ts -> LexSpec false (45%N :: s) (T TMinus [45%N] :: ts).
Proof. intros H. apply (LS_op false 45%N s TMinus ts); auto; [simpl; tauto|discriminate]. Qed.
Lemma lex_opchar c k s ts : In (c, k) spec_ops -> k <> TPad -> LexSpec false s ts -> LexSpec false (c :: s) (T k [norm c] :: ts).
Proof.
  intros Hin Hk H. apply (LS_op false c s k ts); auto.
  - simpl in Hin. repeat (destruct Hin as [Hin|Hin]; [inversion Hin; subst; reflexivity|]). contradiction.
  - simpl in Hin. repeat (destruct Hin as [Hin|Hin]; [inversion Hin; subst; reflexivity|]). contradiction.
Qed.
Lemma lex_space s ts : LexSpec false s ts -> LexSpec false (32%N :: s) ts.
Proof. intros H. apply (LS_pad false 32%N s ts); auto. simpl; tauto. Qed.
Lemma lex_run run s ts : forallb is_number run = true -> run <> [] -> nn s -> LexSpec false s ts -> LexSpec false (run ++ s) (T TConst run :: ts).
Proof. intros F Ne Hn H. apply LS_const; auto. Qed.
Lemma lex_num c s ts : nn s -> LexSpec false s ts -> LexSpec false (r_num c ++ s) (tk_num c ++ ts).
Proof.
  intros Hn H. rewrite r_num_eq. unfold tk_num. destruct (num_run_number c) as [F Ne]. rewrite <- !app_assoc.
  destruct (n_neg c); cbn [app]; [apply lex_minus|]; apply lex_run; auto.
Qed.
Lemma lex_pow p s ts : nn s -> LexSpec false s ts -> LexSpec false (r_pow p ++ s) (tk_pow p ++ ts).
Proof.
  intros Hn H. destruct p as [k|]; cbn [r_pow tk_pow app]; [|exact H].
  apply (lex_opchar 94%N TExp); [simpl; tauto|discriminate|].
  apply lex_run; auto.
  - apply forallb_forall. intros x Hx. apply digit_is_number. pose proof (show_nat_digits (Z.of_N k) ltac:(lia)) as F. rewrite Forall_forall in F. auto.
  - apply show_nat_nonempty.
Qed.
Lemma nn_pow p s : nn s -> nn (r_pow p ++ s). Proof. intros H. destruct p; [reflexivity|exact H]. Qed.
Lemma na_pow p s : na s -> na (r_pow p ++ s). Proof. intros H. destruct p; [reflexivity|exact H]. Qed.
Lemma lex_letter v s ts : na s -> LexSpec false s ts -> LexSpec false (letter v :: s) (T TVar [letter v] :: ts).
Proof.
  intros Ha H. change (letter v :: s) with ([letter v] ++ s). change (T TVar [letter v] :: ts) with (var_tokens [letter v] ++ ts).
  apply LS_vars; auto.
  - discriminate.
  - cbn [forallb]. now rewrite letter_alpha.
  - cbn [starts_with]. apply alpha_not_number, letter_alpha.
  - intros [Q|[]]. discriminate Q.
Qed.
Lemma lex_term t s ts : nn s -> na s -> LexSpec false s ts -> LexSpec false (r_term t ++ s) (tk_term t ++ ts).
Proof.
  intros Hn Ha H. destruct t as [c|c v p]; cbn [r_term tk_term]; [now apply lex_num|].
  assert (LexSpec false (letter v :: r_pow p ++ s) (T TVar [letter v] :: tk_pow p ++ ts)) as L.
  { apply lex_letter; [now apply na_pow|now apply lex_pow]. }
  rewrite <- !app_assoc. cbn [app]. destruct c as [c|]; cbn [app]; [|exact L].
  apply lex_num; [|exact L]. unfold nn. cbn [starts_with]. apply alpha_not_number, letter_alpha.
Qed.
Lemma lex_op o s ts : LexSpec false s ts -> LexSpec false (r_op o ++ s) (tk_op o ++ ts).
Proof.
  intros H. destruct o; cbn [r_op tk_op app]; apply lex_space.
  - apply (lex_opchar 43%N TPlus); [simpl; tauto|discriminate|]. now apply lex_space.
  - apply lex_minus. now apply lex_space.
  - apply (lex_opchar 42%N TMul); [simpl; tauto|discriminate|]. now apply lex_space.
Qed.
Definition clean (s:list N) : Prop := nn s /\ na s.
Lemma clean_op o s : clean (r_op o ++ s). Proof. destruct o; split; reflexivity. Qed.
Section LexChain.
  Context {A:Type} (rf:A -> list N) (tf:A -> list token).
  Hypothesis Hlex : forall a s ts, clean s -> LexSpec false s ts -> LexSpec false (rf a ++ s) (tf a ++ ts).
  Lemma lex_tail l s ts : clean s -> LexSpec false s ts ->
    clean (flat_map (fun x => r_op (fst x) ++ rf (snd x)) l ++ s) /\
    LexSpec false (flat_map (fun x => r_op (fst x) ++ rf (snd x)) l ++ s) (flat_map (fun x => tk_op (fst x) ++ tf (snd x)) l ++ ts).
  Proof.
    intros C H. induction l as [|[o a] l IH]; cbn [flat_map app fst snd]; [split; assumption|].
    destruct IH as [C' L']. rewrite <- !app_assoc. split; [apply clean_op|]. apply lex_op. apply Hlex; assumption.
  Qed.
  Lemma lex_chain c s ts : clean s -> LexSpec false s ts -> LexSpec false (r_chain rf c ++ s) (tk_chain tf c ++ ts).
  Proof.
    intros C H. unfold r_chain, tk_chain. rewrite <- !app_assoc. destruct (lex_tail (snd c) s ts C H) as [C' L']. now apply Hlex.
  Qed.
End LexChain.
Lemma lex_term' t s ts : clean s -> LexSpec false s ts -> LexSpec false (r_term t ++ s) (tk_term t ++ ts).
Proof. intros [Hn Ha]. now apply lex_term. Qed.
Lemma lex_group g s ts : LexSpec false s ts -> LexSpec false (r_group g ++ s) (tk_group g ++ ts).
Proof.
  intros H. unfold r_group, tk_group. cbn [app]. apply (lex_opchar 40%N TOpen); [simpl; tauto|discriminate|].
  rewrite <- !app_assoc. apply (lex_chain r_term tk_term lex_term'); [split; reflexivity|].
  cbn [app]. apply (lex_opchar 41%N TClose); [simpl; tauto|discriminate|exact H].
Qed.
Lemma lex_item i s ts : clean s -> LexSpec false s ts -> LexSpec false (r_item i ++ s) (tk_item i ++ ts).
Proof.
  intros C H. destruct i as [t|g|a b]; cbn [r_item tk_item].
  - now apply lex_term'.
  - now apply lex_group.
  - rewrite <- !app_assoc. apply lex_group. now apply lex_group.
Qed.
Theorem render_lexes p : tokenize true (render p) = LOk (tokens p).
Proof.
  apply tokenize_complete. cbn [negb]. unfold render, tokens.
  rewrite <- (app_nil_r (r_chain r_item p)). apply (lex_chain r_item tk_item lex_item); [split; reflexivity|constructor].
Qed.

(* ---------- the tokens derive a tree ---------- *)
Definition fo (s:st) : bool := match hdk s with TPlus | TMinus | TMul | TClose | TEOF => true | _ => false end.
Definition fo2 (s:st) : bool := match hdk s with TClose | TEOF => true | _ => false end.
Lemma fo_facts s : fo s = true -> ~ in_first_factor s /\ hdk s <> TExp /\ hdk s <> TDiv.
Proof.
  unfold fo, in_first_factor, hdk, hk, check. destruct s as [|t r]; [intros _; repeat split; intros Q; discriminate Q|].
  destruct (tk t); intros H; try discriminate H; repeat split; intros Q; discriminate Q.
Qed.
Lemma fo2_fo s : fo2 s = true -> fo s = true. Proof. unfold fo, fo2. destruct (hdk s); auto. Qed.
Lemma fo2_facts s : fo2 s = true -> hdk s <> TPlus /\ hdk s <> TMinus /\ hdk s <> TMul /\ hdk s <> TDiv.
Proof. unfold fo2. destruct (hdk s); intros H; try discriminate H; repeat split; intros Q; discriminate Q. Qed.

Lemma split_dot_digits ds rest : Forall digit_c ds -> split_dot (ds ++ rest) = (ds ++ fst (split_dot rest), snd (split_dot rest)).
Proof.
  induction 1 as [|c ds Hc _ IH]; cbn [app split_dot]; [now destruct (split_dot rest)|].
  assert ((c =? 46)%N = false) as E by (apply N.eqb_neq; unfold digit_c in Hc; lia). rewrite E, IH. reflexivity.
Qed.
Lemma coerce_run c : exists v, coerce (num_run c) = Ok v.
Proof.
  unfold coerce, num_run. rewrite split_dot_digits by (apply show_nat_digits; apply N2Z.is_nonneg).
  destruct (n_frac c) as [d|].
  - assert (split_dot [46%N; (48 + d mod 10)%N] = ([], Some [(48 + d mod 10)%N])) as S by reflexivity. rewrite S. cbn [fst snd existsb].
    assert (((48 + d mod 10) =? 46)%N = false) as E by (apply N.eqb_neq; set (m := (d mod 10)%N); lia).
    rewrite E. cbn [orb]. destruct (show_nat (Z.of_N (n_int c)) ++ []); eauto.
  - cbn [split_dot fst snd]. eauto.
Qed.
Lemma coerce_digits k : exists v, coerce (show_nat (Z.of_N k)) = Ok v.
Proof. destruct (coerce_run {| n_neg := false; n_int := k; n_frac := None |}) as (v & H). unfold num_run in H. cbn [n_int n_frac] in H. rewrite app_nil_r in H. eauto. Qed.

Lemma num_unary c rest : ~ in_first_factor rest -> exists e, G_unary (tk_num c ++ rest) e rest.
Proof.
  intros Hr. destruct (coerce_run c) as (v & Hv). unfold tk_num. rewrite <- app_assoc. cbn [app]. eexists. apply unary_literal; eassumption.
Qed.
Lemma var_factors v p rest : fo rest = true -> exists e, G_factors (T TVar [letter v] :: tk_pow p ++ rest) e rest.
Proof.
  intros F. destruct (fo_facts rest F) as (NF & NE & _). destruct p as [k|]; cbn [tk_pow app].
  - destruct (coerce_digits k) as (kv & Hk). eexists.
    apply GF_pow with (fs := [Var (letter v)]) (t := T TExp [94%N]) (s1 := T TConst (show_nat (Z.of_N k)) :: rest) (r := Const kv).
    + apply GS_one; [apply (GT_var (T TVar [letter v])); reflexivity|side].
    + reflexivity.
    + side.
    + apply (unary_literal false _ kv rest Hk NF).
    + reflexivity.
  - eexists. eapply GF_plain with (fs := [Var (letter v)]); [apply GS_one; [apply (GT_var (T TVar [letter v])); reflexivity|exact NF]|exact NE|reflexivity].
Qed.
Lemma term_exp t rest : fo rest = true -> exists e, G_exp (tk_term t ++ rest) e rest.
Proof.
  intros F. destruct (fo_facts rest F) as (NF & NE & _). destruct t as [c|c v p]; cbn [tk_term].
  - destruct (num_unary c rest NF) as (e & H). exists e. apply GE_plain; [unfold tk_num; destruct (n_neg c); side|exact H|exact NE].
  - destruct (var_factors v p rest F) as (f & Hf). rewrite <- app_assoc. cbn [app].
    assert (in_first_factor (T TVar [letter v] :: tk_pow p ++ rest)) as FF by side.
    destruct c as [c|]; cbn [app].
    + destruct (coerce_run c) as (cv & Hc). unfold tk_num. rewrite <- app_assoc. cbn [app].
      exists (Bin KMul (Const (if n_neg c then nneg cv else cv)) f). apply GE_plain; [destruct (n_neg c); side| |exact NE].
      destruct (n_neg c); cbn [app].
      * eapply GU_neg; [reflexivity|]. apply (GP_cf true (T TConst (num_run c)) _ cv f rest); [reflexivity|exact Hc|exact FF|side|exact Hf].
      * apply GU_pos; [side|]. apply (GP_cf false (T TConst (num_run c)) _ cv f rest); [reflexivity|exact Hc|exact FF|side|exact Hf].
    + exists f. apply GE_plain; [side| |exact NE]. apply GU_pos; [side|]. apply (GP_f false); [side|exact FF|exact Hf].
Qed.
Lemma term_first t rest : in_first_unary (tk_term t ++ rest).
Proof. destruct t as [c|[c|] v p]; cbn [tk_term]; unfold tk_num; try destruct (n_neg c); side. Qed.

(* chains of items joined by + - * : products nest to the right inside one G_mult, sums to the left in G_addl *)
Section DeriveChain.
  Context {A:Type} (tf:A -> list token).
  Hypothesis Hexp : forall a rest, fo rest = true -> exists e, G_exp (tf a ++ rest) e rest.
  Hypothesis Hfirst : forall a rest, in_first_unary (tf a ++ rest).
  Definition tail_toks (l:list (opc * A)) : list token := flat_map (fun x => tk_op (fst x) ++ tf (snd x)) l.
  Fixpoint drop_times (l:list (opc * A)) : list (opc * A) := match l with (OTimes, _) :: r => drop_times r | _ => l end.
  Lemma drop_times_len l : length (drop_times l) <= length l.
  Proof. induction l as [|[[] a] l IH]; cbn [drop_times length]; lia. Qed.
  Definition sum_head (l:list (opc * A)) : Prop := match l with (OTimes, _) :: _ => False | _ => True end.
  Lemma drop_times_head l : sum_head (drop_times l).
  Proof. induction l as [|[[] a] l IH]; cbn [drop_times sum_head]; auto. Qed.
  Lemma sum_head_follow l rest : sum_head l -> fo2 rest = true -> hdk (tail_toks l ++ rest) <> TMul /\ hdk (tail_toks l ++ rest) <> TDiv.
  Proof.
    intros H F. destruct l as [|[[] a] l]; cbn [tail_toks flat_map fst snd tk_op app]; try (split; intros Q; discriminate Q); [|contradiction].
    destruct (fo2_facts rest F) as (_ & _ & M & D). auto.
  Qed.
  Lemma fo_tail l rest : fo2 rest = true -> fo (tail_toks l ++ rest) = true.
  Proof. intros F. destruct l as [|[[] a] l]; cbn [tail_toks flat_map fst snd tk_op app]; try reflexivity. now apply fo2_fo. Qed.
  Lemma seg_mult : forall l a rest, fo2 rest = true -> exists e, G_mult (tf a ++ tail_toks l ++ rest) e (tail_toks (drop_times l) ++ rest).
  Proof.
    induction l as [|[o b] l IH]; intros a rest F.
    - cbn [tail_toks flat_map drop_times app]. destruct (Hexp a rest (fo2_fo _ F)) as (e & He). exists e.
      destruct (fo2_facts rest F) as (_ & _ & M & D). eapply GM; [apply Hfirst|exact He|apply GML_stop; assumption].
    - destruct (Hexp a (tail_toks ((o, b) :: l) ++ rest) (fo_tail _ _ F)) as (e & He).
      destruct o.
      + exists e. cbn [drop_times]. eapply GM; [apply Hfirst|exact He|]. apply GML_stop; cbn [tail_toks flat_map fst snd tk_op app]; intros Q; discriminate Q.
      + exists e. cbn [drop_times]. eapply GM; [apply Hfirst|exact He|]. apply GML_stop; cbn [tail_toks flat_map fst snd tk_op app]; intros Q; discriminate Q.
      + destruct (IH b rest F) as (r & Hr). cbn [drop_times]. eexists. eapply GM; [apply Hfirst|exact He|].
        cbn [tail_toks flat_map fst snd tk_op app]. rewrite <- app_assoc.
        destruct (sum_head_follow (drop_times l) rest (drop_times_head l) F) as (M & D).
        eapply GML_mul; [reflexivity|apply Hfirst|exact Hr|apply GML_stop; assumption].
  Qed.
  Lemma sum_addl : forall n l e0 rest, length l <= n -> sum_head l -> fo2 rest = true -> exists e, G_addl e0 (tail_toks l ++ rest) e rest.
  Proof.
    induction n as [|n IH]; intros l e0 rest L H F.
    - destruct l; [|cbn in L; lia]. cbn [tail_toks flat_map app]. destruct (fo2_facts rest F) as (P & M & _). exists e0. now apply GAL_stop.
    - destruct l as [|[o b] l]; [cbn [tail_toks flat_map app]; destruct (fo2_facts rest F) as (P & M & _); exists e0; now apply GAL_stop|].
      destruct (seg_mult l b rest F) as (r & Hr).
      assert (length (drop_times l) <= n) as L' by (pose proof (drop_times_len l); cbn [length] in L; lia).
      cbn [tail_toks flat_map fst snd tk_op app]. rewrite <- app_assoc.
      destruct o; [| |contradiction].
      + destruct (IH (drop_times l) (Bin KAdd e0 r) rest L' (drop_times_head l) F) as (e & He). exists e.
        eapply GAL_plus; [reflexivity|apply Hfirst|exact Hr|exact He].
      + destruct (IH (drop_times l) (Bin KSub e0 r) rest L' (drop_times_head l) F) as (e & He). exists e.
        eapply GAL_minus; [reflexivity|apply Hfirst|exact Hr|exact He].
  Qed.
  Lemma chain_add c rest : fo2 rest = true -> exists e, G_add (tk_chain tf c ++ rest) e rest.
  Proof.
    intros F. destruct c as [a l]. unfold tk_chain. cbn [fst snd]. rewrite <- app_assoc. fold (tail_toks l).
    destruct (seg_mult l a rest F) as (e1 & H1).
    destruct (sum_addl (length (drop_times l)) (drop_times l) e1 rest (le_n _) (drop_times_head l) F) as (e & He).
    exists e. eapply GA; [apply Hfirst|exact H1|exact He].
  Qed.
End DeriveChain.

Lemma group_atom g rest : exists e, G_atom (tk_group g ++ rest) e rest.
Proof.
  unfold tk_group. cbn [app]. rewrite <- app_assoc. cbn [app].
  destruct (chain_add tk_term term_exp term_first g (T TClose [41%N] :: rest) eq_refl) as (e & He).
  exists e. eapply GT_par; [reflexivity|exact He|reflexivity].
Qed.
Lemma atoms_exp s fs e rest : G_atoms s fs rest -> prod fs = Some e -> hdk s = TOpen -> fo rest = true -> G_exp s e rest.
Proof.
  intros HA HP HO F. destruct (fo_facts rest F) as (NF & NE & _).
  assert (in_first_factor s) as FF by (unfold in_first_factor, check; destruct s as [|t r]; [discriminate HO|]; cbn in HO; cbn; rewrite HO; reflexivity).
  apply GE_plain; [unfold in_first_unary, check; destruct s as [|t r]; [discriminate HO|]; cbn in HO; cbn; rewrite HO; reflexivity| |exact NE].
  apply GU_pos; [rewrite HO; intros Q; discriminate Q|]. apply (GP_f false); [rewrite HO; intros Q; discriminate Q|exact FF|].
  eapply GF_plain; [exact HA|exact NE|exact HP].
Qed.
Lemma item_exp i rest : fo rest = true -> exists e, G_exp (tk_item i ++ rest) e rest.
Proof.
  intros F. destruct (fo_facts rest F) as (NF & _). destruct i as [t|g|a b]; cbn [tk_item].
  - now apply term_exp.
  - destruct (group_atom g rest) as (e & He). exists e. apply atoms_exp with (fs := [e]); [apply GS_one; [exact He|exact NF]|reflexivity|reflexivity|exact F].
  - rewrite <- app_assoc. destruct (group_atom b rest) as (eb & Hb). destruct (group_atom a (tk_group b ++ rest)) as (ea & Ha).
    exists (Bin KMul ea eb). apply atoms_exp with (fs := [ea; eb]); [|reflexivity|reflexivity|exact F].
    eapply GS_more; [exact Ha|side|]. apply GS_one; [exact Hb|exact NF].
Qed.
Lemma item_first i rest : in_first_unary (tk_item i ++ rest).
Proof. destruct i as [t|g|a b]; cbn [tk_item]; [apply term_first|side|side]. Qed.

Theorem tokens_derive p : exists e, Derives (tokens p) e.
Proof.
  unfold tokens. destruct (chain_add tk_item item_exp item_first p [EOFtok] eq_refl) as (e & He).
  exists e, e, [EOFtok], [EOFtok]. split; [destruct p as [i l]; unfold tk_chain; cbn [fst]; rewrite <- !app_assoc; apply item_first|].
  split; [exact He|]. split; [apply GQ_stop; intros Q; discriminate Q|]. split; [reflexivity|intros Q; discriminate Q].
Qed.

(* every problem text parses *)
Theorem render_parses p : exists e, parse (render p) = Ok e.
Proof.
  destruct (tokens_derive p) as (e & D). exists e. unfold parse. rewrite render_lexes.
  apply parse_tokens_complete; [|exact D]. apply (tokenize_eof_ok true (render p)). apply render_lexes.
Qed.

(* ---------- the draw monad ---------- *)
Lemma bindD_ok {A B} (m:D A) (f:A -> D B) s x r : bindD m f s = POk x r -> exists a s', m s = POk a s' /\ f a s' = POk x r.
Proof. unfold bindD. destruct (m s) as [a s'| | |]; try discriminate. eauto. Qed.
Lemma draw_ok lo hi s z r : draw lo hi s = POk z r -> (lo <= z <= hi)%Z /\ s = z :: r.
Proof.
  unfold draw. destruct (hi <? lo)%Z; [discriminate|]. destruct s as [|y s']; [discriminate|].
  destruct ((lo <=? y)%Z && (y <=? hi)%Z) eqn:E; [|discriminate]. intros [= <- <-]. apply andb_true_iff in E. destruct E as [E1 E2].
  apply Z.leb_le in E1, E2. auto.
Qed.
Ltac binv H :=
  repeat match type of H with
  | bindD _ _ _ = POk _ _ => let a := fresh "a" in let s := fresh "s" in let E := fresh "E" in apply bindD_ok in H; destruct H as (a & s & E & H)
  | ret _ _ = POk _ _ => unfold ret in H; inversion H; subst; clear H
  end.

(* ---------- sampling without replacement ---------- *)
Lemma remove_nth_incl {A} (l:list A) : forall i, incl (remove_nth i l) l.
Proof. induction l as [|x l IH]; intros [|i]; cbn [remove_nth]; try apply incl_refl; [apply incl_tl, incl_refl|apply incl_cons; [now left|apply incl_tl, IH]]. Qed.
Lemma remove_nth_map {A B} (g:A -> B) (l:list A) : forall i, map g (remove_nth i l) = remove_nth i (map g l).
Proof. induction l as [|x l IH]; intros [|i]; cbn [remove_nth map]; auto. now rewrite IH. Qed.
Lemma remove_nth_nodup {A} (l:list A) : NoDup l -> forall i, NoDup (remove_nth i l).
Proof.
  induction 1 as [|x l Hx Hl IH]; intros [|i]; cbn [remove_nth]; try constructor; auto.
  intros Hin. apply Hx. eapply remove_nth_incl; eauto.
Qed.
Lemma nth_not_in_remove {A} (d:A) (l:list A) : NoDup l -> forall i, i < length l -> ~ In (nth i l d) (remove_nth i l).
Proof.
  induction 1 as [|x l Hx Hl IH]; intros [|i] Hi; cbn [remove_nth nth length] in *; try lia; auto.
  intros [E|Hin]; [apply Hx; rewrite E; apply nth_In; lia|]. apply (IH i); [lia|exact Hin].
Qed.
Lemma remove_nth_length {A} (l:list A) : forall i, i < length l -> length (remove_nth i l) = length l - 1.
Proof. induction l as [|x l IH]; intros [|i] Hi; cbn [remove_nth length] in *; try lia. rewrite IH; lia. Qed.
Lemma sample_spec {A B} (g:A -> B) (d:A) : forall k pool s vs r, sample d k pool s = POk vs r -> NoDup (map g pool) ->
  length vs = k /\ incl vs pool /\ NoDup (map g vs) /\ k <= length pool.
Proof.
  induction k as [|k IH]; intros pool s vs r H ND; cbn [sample] in H.
  - binv H. repeat split; [apply incl_nil_l|constructor|lia].
  - binv H. apply draw_ok in E. destruct E as [Hi ->].
    assert (Z.to_nat a < length pool) as Li by lia.
    assert (NoDup (map g (remove_nth (Z.to_nat a) pool))) as ND' by (rewrite remove_nth_map; now apply remove_nth_nodup).
    destruct (IH _ _ _ _ E0 ND') as (L & I & N & K). rewrite (remove_nth_length pool _ Li) in K.
    split; [cbn [length]; lia|]. split; [|split; [|lia]].
    + apply incl_cons; [now apply nth_In|]. eapply incl_tran; [exact I|apply remove_nth_incl].
    + cbn [map]. constructor; [|exact N]. intros Hin. apply in_map_iff in Hin. destruct Hin as (y & Ey & Hy). apply I in Hy.
      apply (nth_not_in_remove (g d) (map g pool) ND (Z.to_nat a)); [now rewrite map_length|].
      rewrite <- remove_nth_map, map_nth, <- Ey. now apply in_map.
Qed.
Definition okres {A} (r:pres A) : Prop := match r with PRaise | PRange => False | _ => True end.
Lemma sample_okres {A} (d:A) : forall k pool s, k <= length pool -> okres (sample d k pool s).
Proof.
  induction k as [|k IH]; intros pool s K; cbn [sample]; [exact I|].
  unfold bindD, draw. destruct (Z.of_nat (length pool) - 1 <? 0)%Z eqn:E; [apply Z.ltb_lt in E; lia|].
  destruct s as [|z s']; [exact I|]. destruct ((0 <=? z)%Z && (z <=? Z.of_nat (length pool) - 1)%Z) eqn:R; [|exact I].
  apply andb_true_iff in R. destruct R as [R1 R2]. apply Z.leb_le in R1, R2.
  assert (k <= length (remove_nth (Z.to_nat z) pool)) as K' by (rewrite remove_nth_length; lia).
  specialize (IH (remove_nth (Z.to_nat z) pool) s' K'). destruct (sample d k (remove_nth (Z.to_nat z) pool) s'); cbn in *; auto.
Qed.
Lemma sample_no_raise {A} (d:A) k pool s : k <= length pool -> sample d k pool s <> PRaise /\ sample d k pool s <> PRange.
Proof. intros K. pose proof (sample_okres d k pool s K) as H. destruct (sample d k pool s); cbn in H; try contradiction; split; intros Q; discriminate Q. Qed.

(* ---------- get_rand_vars: distinct, the requested number, none of the excluded, raising exactly when infeasible ---------- *)
Fixpoint nodupb (l:list N) : bool := match l with [] => true | x :: r => negb (existsb (N.eqb x) r) && nodupb r end.
Lemma nodupb_ok l : nodupb l = true -> NoDup l.
Proof.
  induction l as [|x r IH]; cbn [nodupb]; intros H; constructor; apply andb_true_iff in H; destruct H as [H1 H2]; auto.
  intros Hin. apply negb_true_iff in H1. assert (existsb (N.eqb x) r = true) as Q by (apply existsb_exists; exists x; split; [exact Hin|apply N.eqb_refl]). congruence.
Qed.
Definition pool_of (common:bool) : list N := if common then prob_common_variables else prob_variables.
Lemma pool_nodup common : NoDup (pool_of common). Proof. destruct common; apply nodupb_ok; reflexivity. Qed.
Definition all_vars (common:bool) : list pvar := map (fun i => {| v_common := common; v_idx := i |}) (seq 0 (length (pool_of common))).
Lemma map_nth_seq_gen {A} (d:A) : forall l pre, map (fun i => nth i (pre ++ l) d) (seq (length pre) (length l)) = l.
Proof.
  induction l as [|x l IH]; intros pre; cbn [length seq map]; [reflexivity|]. f_equal.
  - rewrite app_nth2 by lia. now rewrite Nat.sub_diag.
  - specialize (IH (pre ++ [x])). rewrite <- app_assoc, app_length in IH. cbn [app length] in IH. rewrite Nat.add_1_r in IH. exact IH.
Qed.
Lemma all_letters common : map letter (all_vars common) = pool_of common.
Proof.
  unfold all_vars. rewrite map_map. unfold letter. cbn [v_common v_idx]. fold (pool_of common).
  exact (map_nth_seq_gen 120%N (pool_of common) []).
Qed.
Lemma nodup_map_filter {A B} (g:A -> B) (f:A -> bool) l : NoDup (map g l) -> NoDup (map g (filter f l)).
Proof.
  induction l as [|x l IH]; cbn [map filter]; intros H; [constructor|]. inversion H; subst.
  destruct (f x); cbn [map]; auto. constructor; auto. intros Hin. apply H2. apply in_map_iff in Hin. destruct Hin as (y & E & Hy).
  apply filter_In in Hy. rewrite <- E. apply in_map. tauto.
Qed.
Definition available (exclude:list pvar) (common:bool) : list pvar := filter (fun v => negb (existsb (pvar_eqb v) exclude)) (all_vars common).
Theorem get_rand_vars_spec n exclude common s vs r : get_rand_vars n exclude common s = POk vs r ->
  Z.of_nat (length vs) = n /\ NoDup (map letter vs) /\
  (forall v, In v vs -> In (letter v) (pool_of common) /\ forall x, In x exclude -> letter v <> letter x).
Proof.
  unfold get_rand_vars. destruct (25 <? n)%Z; [discriminate|]. fold (pool_of common). fold (all_vars common). fold (available exclude common).
  destruct ((n <? 0)%Z || (Z.of_nat (length (available exclude common)) <? n)%Z) eqn:E; [discriminate|].
  apply orb_false_iff in E. destruct E as [E1 E2]. apply Z.ltb_ge in E1, E2. intros H.
  assert (NoDup (map letter (available exclude common))) as ND by (apply nodup_map_filter; rewrite all_letters; apply pool_nodup).
  destruct (sample_spec letter _ _ _ _ _ _ H ND) as (L & I & N & _). split; [lia|]. split; [exact N|].
  intros v Hv. apply I in Hv. apply filter_In in Hv. destruct Hv as [Hall Hex]. split.
  - rewrite <- all_letters. now apply in_map.
  - intros x Hx E. apply negb_true_iff in Hex. assert (existsb (pvar_eqb v) exclude = true) as Q; [|congruence].
    apply existsb_exists. exists x. split; [exact Hx|]. unfold pvar_eqb. rewrite E. apply N.eqb_refl.
Qed.
Theorem get_rand_vars_raises n exclude common s :
  get_rand_vars n exclude common s = PRaise <-> (25 < n \/ n < 0 \/ Z.of_nat (length (available exclude common)) < n)%Z.
Proof.
  unfold get_rand_vars. fold (pool_of common). fold (all_vars common). fold (available exclude common).
  destruct (25 <? n)%Z eqn:E0; [apply Z.ltb_lt in E0; split; [auto|reflexivity]|]. apply Z.ltb_ge in E0.
  destruct ((n <? 0)%Z || (Z.of_nat (length (available exclude common)) <? n)%Z) eqn:E.
  - apply orb_true_iff in E. split; [intros _|reflexivity]. destruct E as [E|E]; apply Z.ltb_lt in E; auto.
  - apply orb_false_iff in E. destruct E as [E1 E2]. apply Z.ltb_ge in E1, E2. split; [|lia].
    intros H. exfalso. refine (proj1 (sample_no_raise _ (Z.to_nat n) (available exclude common) s _) H). lia.
Qed.

(* ---------- split_in_two_random ---------- *)
Theorem split_spec v s a b r : split_in_two_random v s = POk (a, b) r -> (a + b = v /\ a <= b)%Z.
Proof. unfold split_in_two_random. intros H. binv H. lia. Qed.

(* ---------- every generator: valid text and positive complexity, for every draw stream ---------- *)
Ltac binv1 H := let a := fresh "a" in let s := fresh "s" in let E := fresh "E" in apply bindD_ok in H; destruct H as (a & s & E & H).
Ltac fin H := first [discriminate H | (unfold ret in H; injection H; intros; subst; clear H)].
Lemma combine_complexity pretty mn mx easy powers s p c r :
  gen_combine_terms_in_place pretty mn mx easy powers s = POk (p, c) r -> (0 < c)%Z.
Proof.
  unfold gen_combine_terms_in_place. intros H. do 6 binv1 H.
  apply get_rand_vars_spec in E4. destruct E4 as (L & _).
  binv1 H. destruct a5 as [rn ln]. binv1 H. destruct a5 as [lt n1]. binv1 H. destruct a5 as [rt n2].
  destruct (plus_chain _); fin H. pose proof (Nat2Z.is_nonneg (length a4)). lia.
Qed.
Lemma haystack_complexity pretty mn mx bl easy powers s p c r :
  gen_commute_haystack pretty mn mx bl easy powers s = POk (p, c) r -> (0 < c)%Z.
Proof.
  unfold gen_commute_haystack. intros H. destruct (bl <? 1)%Z; [discriminate H|]. do 4 binv1 H.
  binv1 H. destruct a3 as [bs n1]. do 3 binv1 H. binv1 H. destruct a6 as [rn ln]. binv1 H. destruct a6 as [lt n2]. binv1 H. destruct a6 as [rt n3].
  destruct (plus_chain _); fin H. lia.
Qed.
Lemma blockers1_complexity pretty n pp s p c r : gen_move_around_blockers_one pretty n pp s = POk (p, c) r -> (0 < c)%Z.
Proof.
  unfold gen_move_around_blockers_one. intros H. destruct (n <? 1)%Z eqn:E; [discriminate H|]. apply Z.ltb_ge in E. do 5 binv1 H.
  destruct (plus_chain _); fin H. change (0 < 2 + n)%Z. lia.
Qed.
Lemma blockers2_complexity pretty n pp s p c r : gen_move_around_blockers_two pretty n pp s = POk (p, c) r -> (0 < c)%Z.
Proof.
  unfold gen_move_around_blockers_two. intros H. destruct (n <? 1)%Z eqn:E; [discriminate H|]. apply Z.ltb_ge in E. binv1 H.
  destruct a as [|one [|two [|three [|? ?]]]]; try discriminate H. do 8 binv1 H.
  destruct (plus_chain _); fin H. change (0 < 4 + n)%Z. lia.
Qed.
Lemma binbin_complexity pretty mn mx simple pp lp s p c r : gen_binomial_times_binomial pretty mn mx simple pp lp s = POk (p, c) r -> (0 < c)%Z.
Proof. unfold gen_binomial_times_binomial. intros H. do 4 binv1 H. fin H. lia. Qed.
Lemma binmono_complexity pretty mn mx simple pp lp s p c r : gen_binomial_times_monomial pretty mn mx simple pp lp s = POk (p, c) r -> (0 < c)%Z.
Proof. unfold gen_binomial_times_monomial. intros H. do 3 binv1 H. fin H. lia. Qed.
Tactic Notation "bin" hyp(H) "as" ident(a) ident(E) := apply bindD_ok in H; destruct H as (a & ? & E & H).
Lemma simplify_complexity pretty nt ov m its pp ovp np shp svp gnp noise s p c r :
  gen_simplify_multiple_terms pretty nt ov m its pp ovp np shp svp gnp noise s = POk (p, c) r -> (0 < c)%Z.
Proof.
  unfold gen_simplify_multiple_terms. intros H. bin H as use_grouping Eg. bin H as use_noise En.
  destruct (nt <=? 1)%Z eqn:NT; [discriminate H|]. apply Z.leb_gt in NT.
  bin H as like_vars El. bin H as share Es. bin H as st Est. destruct st as [[fixed to_adorn] shared].
  bin H as adorned Ea. bin H as t2c Et. destruct t2c as [t2 cx].
  assert (cx = nt \/ cx = (nt + 1)%Z) as CX.
  { destruct use_noise.
    - bin Et as noise0 E1. bin Et as lohi E2. destruct lohi as [lo hi]. bin Et as fr E3. destruct fr as [front n1]. bin Et as bk E4. destruct bk as [back n2].
      unfold ret in Et. right. congruence.
    - unfold ret in Et. left. congruence. }
  bin H as do_shuffle Ed. bin H as t3 E3. bin H as grp Egr. destruct t3 as [|[rv rp] others]; [discriminate H|].
  bin H as rc Erc. bin H as rest Er.
  destruct grp as [[gs ge]|].
  - destruct (group_chain _ gs ge); [|discriminate H]. unfold ret in H. assert (c = cx) by congruence. lia.
  - unfold ret in H. assert (c = cx) by congruence. lia.
Qed.

(* ---------- the promised pair of like terms: two terms over the same variable with the same power ---------- *)
Definition chain_list {A} (c:chain A) : list A := fst c :: map snd (snd c).
Definition item_terms (i:pitem) : list pterm := match i with ITerm t => [t] | IGroup g => chain_list g | IGroup2 a b => chain_list a ++ chain_list b end.
Definition terms_of (p:problem) : list pterm := flat_map item_terms (chain_list p).
Definition like_pair (l:list pterm) : Prop := exists c1 c2 v pw l1 l2 l3, l = l1 ++ PVar c1 v pw :: l2 ++ PVar c2 v pw :: l3.
Lemma plus_chain_list {A} (l:list A) c : plus_chain l = Some c -> chain_list c = l.
Proof. destruct l as [|x r]; [discriminate|]. intros [= <-]. unfold chain_list. cbn [fst snd]. rewrite map_map. cbn [snd]. now rewrite map_id. Qed.
Lemma terms_of_iterms l : flat_map item_terms (map ITerm l) = l.
Proof. induction l as [|x l IH]; cbn [map flat_map item_terms app]; congruence. Qed.
Lemma terms_of_plus l p : plus_chain l = Some p -> terms_of p = flat_map item_terms l.
Proof. intros H. unfold terms_of. now rewrite (plus_chain_list l p H). Qed.

Theorem combine_like pretty mn mx easy powers s p c r : gen_combine_terms_in_place pretty mn mx easy powers s = POk (p, c) r -> like_pair (terms_of p).
Proof.
  unfold gen_combine_terms_in_place. intros H. bin H as total E0. bin H as var E1. bin H as power E2. bin H as c1 E3. bin H as c2 E4. bin H as noise E5.
  bin H as sp E6. destruct sp as [rn ln]. bin H as l E7. destruct l as [lt n1]. bin H as l2 E8. destruct l2 as [rt n2].
  destruct (plus_chain _) as [q|] eqn:PC; [|discriminate H]. unfold ret in H. assert (q = p) by congruence. subst q.
  rewrite (terms_of_plus _ _ PC), !flat_map_app, !terms_of_iterms.
  exists c1, c2, var, power, lt, [], rt. destruct easy; reflexivity.
Qed.
Theorem blockers1_like pretty n pp s p c r : gen_move_around_blockers_one pretty n pp s = POk (p, c) r -> like_pair (terms_of p).
Proof.
  unfold gen_move_around_blockers_one. intros H. destruct (n <? 1)%Z; [discriminate H|].
  bin H as var E0. bin H as ex E1. bin H as bl E2. bin H as c1 E3. bin H as c2 E4.
  destruct (plus_chain _) as [q|] eqn:PC; [|discriminate H]. unfold ret in H. assert (q = p) by congruence. subst q.
  rewrite (terms_of_plus _ _ PC), terms_of_iterms. exists c1, c2, var, ex, [], bl, []. reflexivity.
Qed.
Theorem blockers2_like pretty n pp s p c r : gen_move_around_blockers_two pretty n pp s = POk (p, c) r -> like_pair (terms_of p).
Proof.
  unfold gen_move_around_blockers_two. intros H. destruct (n <? 1)%Z; [discriminate H|]. bin H as vars E0.
  destruct vars as [|one [|two [|three [|? ?]]]]; try discriminate H.
  bin H as e1 E1. bin H as e2 E2. bin H as e3 E3. bin H as c1 E4. bin H as c2 E5. bin H as bl E6. bin H as c3 E7. bin H as c4 E8.
  destruct (plus_chain _) as [q|] eqn:PC; [|discriminate H]. unfold ret in H. assert (q = p) by congruence. subst q.
  rewrite (terms_of_plus _ _ PC), terms_of_iterms. exists c2, c3, two, e2, [PVar c1 one e1], bl, [PVar c4 three e3]. reflexivity.
Qed.
Theorem haystack_like pretty mn mx bl easy powers s p c r : gen_commute_haystack pretty mn mx bl easy powers s = POk (p, c) r -> like_pair (terms_of p).
Proof.
  unfold gen_commute_haystack. intros H. destruct (bl <? 1)%Z; [discriminate H|].
  bin H as total E0. bin H as var E1. bin H as noise E2. bin H as power E3. bin H as bs E4. destruct bs as [blockers n1].
  bin H as c1 E5. bin H as c2 E6. bin H as grouped E7. bin H as sp E8. destruct sp as [rn ln].
  bin H as l E9. destruct l as [lt n2]. bin H as l2 E10. destruct l2 as [rt n3].
  destruct (plus_chain (map ITerm lt ++ _ ++ map ITerm rt)) as [q|] eqn:PC; [|discriminate H]. unfold ret in H. assert (q = p) by congruence. subst q.
  rewrite (terms_of_plus _ _ PC), !flat_map_app, !terms_of_iterms.
  exists c1, c2, var, power, lt, blockers, rt. f_equal. destruct grouped.
  - cbn [plus_chain flat_map item_terms app]. unfold chain_list. cbn [fst snd]. rewrite map_map. cbn [snd]. rewrite map_id, app_nil_r. cbn [app]. rewrite <- app_assoc. reflexivity.
  - rewrite terms_of_iterms. cbn [app]. rewrite <- app_assoc. reflexivity.
Qed.
