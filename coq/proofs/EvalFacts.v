(* The evaluator model (Eval.v) against the real denotation (Sem.v), and its exactness on integers (C05). *)
From Coq Require Import List NArith ZArith QArith Qround Qreals Reals Lra Lia Bool.
From Mathy Require Import Num Expr Eval Sem.
From MathyProofs Require Import SemFacts NumSem PowSem RulesSoundC.
Import ListNotations.
Open Scope R_scope.

(* the real assignment induced by a Python-level assignment *)
Definition envR (rho:Eval.env) : Sem.env := fun v => match rho v with Some n => numR n | None => None end.

Lemma fact_nat_INR n : IZR (fact_nat n) = INR (fact n).
Proof.
  induction n as [|n IH]; [reflexivity|]. change (fact_nat (S n)) with (Z.of_nat (S n) * fact_nat n)%Z.
  rewrite mult_IZR, IH, <- INR_IZR_INZ. change (fact (S n)) with (S n * fact n)%nat. now rewrite mult_INR.
Qed.
Lemma nsgn_R a x : numR a = Some x -> numR (nsgn a) = Some (rsgn x).
Proof.
  intros Ha. destruct (numR_qv _ _ Ha) as (q & Q & ->). unfold nsgn, nlt, rsgn. rewrite Q. simpl.
  destruct (Qcompare q (inject_Z 0)) eqn:C.
  - apply Qeq_alt in C. apply Qeq_eqR in C. rewrite Q2R_inject_Z in C.
    assert (Qcompare (inject_Z 0) q = Eq) as -> by (apply Qeq_alt; apply eqR_Qeq; rewrite Q2R_inject_Z; lra).
    rewrite numR_int. destruct (Rlt_dec (Q2R q) 0); [lra|]. destruct (Rlt_dec 0 (Q2R q)); [lra|]. reflexivity.
  - apply Qlt_alt in C. apply Qlt_Rlt in C. rewrite Q2R_inject_Z in C. rewrite numR_int.
    destruct (Rlt_dec (Q2R q) 0); [reflexivity|lra].
  - apply Qgt_alt in C. assert (Qcompare (inject_Z 0) q = Lt) as -> by (apply Qlt_alt; exact C).
    apply Qlt_Rlt in C. rewrite Q2R_inject_Z in C. rewrite numR_int.
    destruct (Rlt_dec (Q2R q) 0); [lra|]. destruct (Rlt_dec 0 (Q2R q)); [reflexivity|lra].
Qed.
Lemma nabs_R a x : numR a = Some x -> numR (nabs a) = Some (Rabs x).
Proof.
  intros Ha. pose proof (numR_nneg a x Ha) as Hn. destruct (numR_qv _ _ Ha) as (q & Q & E). unfold nabs, nlt. rewrite Q. simpl.
  destruct (Qcompare q (inject_Z 0)) eqn:C.
  - apply Qeq_alt in C. apply Qeq_eqR in C. rewrite Q2R_inject_Z in C. rewrite Ha. f_equal. rewrite Rabs_right; [reflexivity|subst x; lra].
  - apply Qlt_alt in C. apply Qlt_Rlt in C. rewrite Q2R_inject_Z in C. rewrite Hn. f_equal. rewrite Rabs_left; [reflexivity|subst x; exact C].
  - apply Qgt_alt in C. apply Qlt_Rlt in C. rewrite Q2R_inject_Z in C. rewrite Ha. f_equal. rewrite Rabs_right; [reflexivity|subst x; lra].
Qed.
Lemma nfact_R a x m v : numR a = Some x -> nfact a = Some m -> rfact x = Some v -> numR m = Some v.
Proof.
  intros Ha Hf Hv. unfold rfact in Hv. destruct (is_int x) as [[z Hz]|]; [|discriminate]. destruct (Rle_dec 0 x); [|discriminate].
  inversion Hv; subst v; clear Hv. subst x. rewrite Int_part_IZR.
  assert (0 <= z)%Z as Hz0 by (apply le_IZR; assumption).
  destruct a as [za|q|]; simpl in Hf.
  - rewrite numR_int in Ha. inversion Ha as [E]. apply eq_IZR in E. subst za.
    destruct (z <? 0)%Z eqn:L; [apply Z.ltb_lt in L; lia|]. inversion Hf; subst m. rewrite numR_int. f_equal. apply fact_nat_INR.
  - rewrite numR_flt in Ha. inversion Ha as [E].
    assert (q == inject_Z z)%Q as Eq by (apply eqR_Qeq; rewrite E, Q2R_inject_Z; reflexivity).
    assert (qtrunc q = z) as T.
    { unfold qtrunc. assert (Qle_bool 0 q = true) as -> by (apply Qle_bool_iff; rewrite Eq; unfold Qle; simpl; lia).
      rewrite Eq. apply Qfloor_Z. }
    rewrite T in Hf. destruct (z <? 0)%Z eqn:L; [apply Z.ltb_lt in L; lia|]. inversion Hf; subst m. rewrite numR_int. f_equal. apply fact_nat_INR.
  - discriminate.
Qed.
Lemma num_eqb_of_R a b x : numR a = Some x -> numR b = Some x -> num_eqb a b = true.
Proof.
  intros Ha Hb. destruct (numR_qv _ _ Ha) as (qa & Qa & E1), (numR_qv _ _ Hb) as (qb & Qb & E2).
  unfold num_eqb. rewrite Qa, Qb. apply Qeq_bool_iff. apply eqR_Qeq. congruence.
Qed.

Lemma ebind_ok r f n : ebind r f = EOk n -> exists m, r = EOk m /\ m <> NNonFinite /\ f m = EOk n.
Proof. destruct r as [m| | |]; try discriminate. destruct m; cbn [ebind]; try discriminate; intros H; eexists; (split; [reflexivity|split; [discriminate|exact H]]). Qed.
Lemma ebind_fin m f v : numR m = Some v -> ebind (EOk m) f = f m.
Proof. destruct m; [reflexivity|reflexivity|]. rewrite numR_nan. discriminate. Qed.

(* soundness: a value returned by evaluate is the mathematical value, whenever that exists *)
Theorem eval_sound rho : forall e n v, eval rho e = EOk n -> den (envR rho) e = Some v -> numR n = Some v.
Proof.
  induction e as [c|x|u e IH|k l IHl r IHr]; intros n v He Hd; cbn [eval] in He.
  - inversion He; subst. exact Hd.
  - cbn [den] in Hd. unfold envR in Hd. destruct (rho x) as [m|]; [|discriminate]. inversion He; subst. exact Hd.
  - cbn [den] in Hd.
    destruct u; (apply ebind_ok in He; destruct He as (m & E & _ & He));
      (destruct (den (envR rho) e) as [w|] eqn:D; cbn [bind1 option_map] in Hd; [|discriminate Hd]); specialize (IH m w E eq_refl).
    + inversion He; inversion Hd; subst. now apply numR_nneg.
    + destruct (nfact m) as [f|] eqn:F; [|discriminate]. inversion He; subst. eapply nfact_R; eauto.
    + inversion He; inversion Hd; subst. now apply nsgn_R.
    + inversion He; inversion Hd; subst. now apply nabs_R.
  - apply ebind_ok in He. destruct He as (a & El & _ & He). apply ebind_ok in He. destruct He as (b & Er & _ & He).
    cbn [den] in Hd. apply bind2_some in Hd. destruct Hd as (x & y & Dl & Dr & Hop).
    specialize (IHl a x El Dl). specialize (IHr b y Er Dr).
    destruct k; simpl in He, Hop.
    + destruct (num_eqb a b) eqn:Q; [|discriminate]. inversion He; subst. destruct (Req_EM_T x y); [|discriminate]. inversion Hop; subst. exact IHl.
    + inversion He; inversion Hop; subst. now apply numR_nadd.
    + inversion He; inversion Hop; subst. now apply numR_nsub.
    + inversion He; inversion Hop; subst. now apply numR_nmul.
    + inversion He; subst. destruct (Req_EM_T y 0); [discriminate|]. inversion Hop; subst. now apply numR_ndiv.
    + destruct (npow a b) as [m|] eqn:P; [|discriminate]. inversion He; subst. eapply npow_sound; eauto.
Qed.

(* completeness: wherever the mathematical value exists, evaluate does not raise (it returns a number, or the
   power is irrational and outside the exact model) *)
Theorem eval_complete rho : forall e v, den (envR rho) e = Some v -> (exists n, eval rho e = EOk n /\ numR n = Some v) \/ eval rho e = EInexact.
Proof.
  induction e as [c|x|u e IH|k l IHl r IHr]; intros v Hd; cbn [den] in Hd; cbn [eval].
  - left. eauto.
  - unfold envR in Hd. destruct (rho x) as [m|]; [|discriminate]. left. eauto.
  - destruct u; (destruct (den (envR rho) e) as [w|] eqn:D; cbn [bind1 option_map] in Hd; [|discriminate Hd]);
      (destruct (IH w eq_refl) as [(m & Em & Hm)|Ei]; [|right; rewrite Ei; reflexivity]); rewrite Em, (ebind_fin m _ w Hm).
    + inversion Hd; subst. left. eexists. split; [reflexivity|]. now apply numR_nneg.
    + left. unfold rfact in Hd. destruct (is_int w) as [[z Hz]|] eqn:I; [|discriminate]. destruct (Rle_dec 0 w); [|discriminate]. subst w.
      assert (0 <= z)%Z as Hz0 by (apply le_IZR; assumption).
      assert (exists f, nfact m = Some f) as (f & F).
      { destruct m as [zm|q|]; simpl.
        - rewrite numR_int in Hm. inversion Hm as [E]. apply eq_IZR in E. subst zm. destruct (z <? 0)%Z eqn:L; [apply Z.ltb_lt in L; lia|]. eauto.
        - rewrite numR_flt in Hm. inversion Hm as [E].
          assert (q == inject_Z z)%Q as Eq by (apply eqR_Qeq; rewrite E, Q2R_inject_Z; reflexivity).
          assert (qtrunc q = z) as T.
          { unfold qtrunc. assert (Qle_bool 0 q = true) as -> by (apply Qle_bool_iff; rewrite Eq; unfold Qle; simpl; lia). rewrite Eq. apply Qfloor_Z. }
          rewrite T. destruct (z <? 0)%Z eqn:L; [apply Z.ltb_lt in L; lia|]. eauto.
        - rewrite numR_nan in Hm. discriminate. }
      rewrite F. eexists. split; [reflexivity|]. eapply nfact_R; eauto. unfold rfact. rewrite I. destruct (Rle_dec 0 (IZR z)); [exact Hd|contradiction].
    + inversion Hd; subst. left. eexists. split; [reflexivity|]. now apply nsgn_R.
    + inversion Hd; subst. left. eexists. split; [reflexivity|]. now apply nabs_R.
  - apply bind2_some in Hd. destruct Hd as (x & y & Dl & Dr & Hop).
    destruct (IHl x Dl) as [(a & Ea & Ha)|Ei]; [|right; rewrite Ei; reflexivity]. rewrite Ea, (ebind_fin a _ x Ha).
    destruct (IHr y Dr) as [(b & Eb & Hb)|Ei]; [|right; rewrite Ei; destruct (eval rho l); reflexivity]. rewrite Eb, (ebind_fin b _ y Hb).
    destruct k; simpl in Hop |- *.
    + destruct (Req_EM_T x y); [|discriminate]. inversion Hop; subst. rewrite (num_eqb_of_R a b v Ha Hb). left. eauto.
    + inversion Hop; subst. left. eexists. split; [reflexivity|]. now apply numR_nadd.
    + inversion Hop; subst. left. eexists. split; [reflexivity|]. now apply numR_nsub.
    + inversion Hop; subst. left. eexists. split; [reflexivity|]. now apply numR_nmul.
    + destruct (Req_EM_T y 0); [discriminate|]. inversion Hop; subst. left. eexists. split; [reflexivity|]. now apply numR_ndiv.
    + destruct (npow a b) as [m|] eqn:P; [|right; reflexivity]. left. eexists. split; [reflexivity|]. eapply npow_sound; eauto.
Qed.

(* a value is returned only if every variable of the expression has a value *)
Theorem eval_needs_all_variables rho : forall e n, eval rho e = EOk n -> forall x, In x (vars e) -> rho x <> None.
Proof.
  induction e as [c|y|u e IH|k l IHl r IHr]; intros n He x Hx; cbn [eval vars] in *.
  - contradiction.
  - destruct Hx as [->|[]]. destruct (rho x); [discriminate|discriminate].
  - assert (exists m, eval rho e = EOk m) as (m & E) by (destruct u; apply ebind_ok in He; destruct He as (m & E & _); eauto). eapply IH; eauto.
  - apply ebind_ok in He. destruct He as (a & El & _ & He). apply ebind_ok in He. destruct He as (b & Er & _ & He).
    apply in_app_or in Hx. destruct Hx; [eapply IHl|eapply IHr]; eauto.
Qed.

(* integer expressions: + - * negation, non-negative integer powers, factorials: the result is an exact integer of any size *)
Fixpoint int_expr (rho:Eval.env) (e:expr) : bool :=
  match e with
  | Const (NInt _) => true
  | Const _ => false
  | Var v => match rho v with Some (NInt _) => true | _ => false end
  | Un UNeg c => int_expr rho c
  | Un UFact c => int_expr rho c
  | Un USgn _ => false
  | Un UAbs c => int_expr rho c
  | Bin k l r => match k with
                 | KAdd | KSub | KMul => int_expr rho l && int_expr rho r
                 | KPow => int_expr rho l && (match r with Const (NInt y) => (0 <=? y)%Z | _ => false end)
                 | _ => false end
  end.
(* the exact integer value (None: factorial of a negative number) *)
Fixpoint evalZ (rho:Eval.env) (e:expr) : option Z :=
  match e with
  | Const (NInt z) => Some z
  | Var v => match rho v with Some (NInt z) => Some z | _ => None end
  | Un UNeg c => option_map Z.opp (evalZ rho c)
  | Un UFact c => match evalZ rho c with Some z => if (z <? 0)%Z then None else Some (fact_nat (Z.to_nat z)) | None => None end
  | Un UAbs c => option_map Z.abs (evalZ rho c)
  | Bin KAdd l r => match evalZ rho l, evalZ rho r with Some a, Some b => Some (a + b)%Z | _, _ => None end
  | Bin KSub l r => match evalZ rho l, evalZ rho r with Some a, Some b => Some (a - b)%Z | _, _ => None end
  | Bin KMul l r => match evalZ rho l, evalZ rho r with Some a, Some b => Some (a * b)%Z | _, _ => None end
  | Bin KPow l (Const (NInt y)) => match evalZ rho l with Some a => Some (a ^ y)%Z | None => None end
  | _ => None
  end.
Theorem eval_int_exact rho : forall e, int_expr rho e = true ->
  match evalZ rho e with Some z => eval rho e = EOk (NInt z) | None => eval rho e = EValueError end.
Proof.
  induction e as [c|x|u e IH|k l IHl r IHr]; intros H; simpl in *.
  - destruct c; try discriminate. reflexivity.
  - destruct (rho x) as [[z| |]|]; try discriminate. reflexivity.
  - destruct u; try discriminate; specialize (IH H); destruct (evalZ rho e) as [z|]; simpl; rewrite IH; simpl; auto.
    + destruct (z <? 0)%Z; reflexivity.
    + (* abs: exact for an integer of any size *)
      f_equal. unfold nabs, nlt. cbn [qv]. unfold Qcompare. cbn [Qnum Qden inject_Z]. rewrite Z.mul_1_r. change (0 * 1)%Z with 0%Z.
      destruct (Z.compare_spec z 0) as [->|L|G]; cbn [nneg]; f_equal; lia.
  - destruct k; try discriminate.
    1-3: apply andb_prop in H; destruct H as (Hl & Hr); specialize (IHl Hl); specialize (IHr Hr);
         destruct (evalZ rho l) as [a|], (evalZ rho r) as [b|]; rewrite IHl; simpl; try rewrite IHr; simpl; reflexivity.
    apply andb_prop in H. destruct H as (Hl & Hr). specialize (IHl Hl).
    destruct r as [[y| |]| | |]; try discriminate. destruct (evalZ rho l) as [a|]; rewrite IHl; simpl; [|reflexivity]. rewrite Hr. reflexivity.
Qed.
