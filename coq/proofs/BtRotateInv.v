(* C15, tree level, beyond the in-order sequence: what a rotation does to the shape at ANY depth.
   - rotate_at_path: rotate_tree at path q ++ [d] is rot_at at the parent, put back at q;
   - rotate_moves_up: after rotating the node at q ++ [d], that node's label is at q (above its former parent), the former
     parent is its child on the other side, and the three subtrees keep their left-to-right order;
   - rotate_context: every subtree hanging off the path to the parent is untouched;
   - rotate_undo: rotating the former parent (now at q ++ [flip d]) restores the tree exactly (rotation loses nothing). *)
From Coq Require Import List Arith Bool.
From Mathy Require Import Bt.
Import ListNotations.

Definition flip (d:side) : side := match d with SL => SR | SR => SL end.

Lemma rotate_at_path {A} (t:bt A) q d : rotate_tree t (q ++ [d]) = bput t q (rot_at (bsub t q) d).
Proof. unfold rotate_tree. rewrite rev_app_distr. simpl. now rewrite rev_involutive. Qed.

Lemma bsub_app {A} (t:bt A) q r : bsub t (q ++ r) = bsub (bsub t q) r.
Proof.
  revert t; induction q as [|d q IH]; intros t; simpl; [reflexivity|].
  destruct t as [|l a rr]; [destruct r; reflexivity|]. apply IH.
Qed.

Lemma bsub_bput {A} (t:bt A) q n : bsub t q <> E -> bsub (bput t q n) q = n.
Proof.
  revert t; induction q as [|d q IH]; intros t H; simpl in *; [reflexivity|].
  destruct t as [|l a r]; [now destruct H|]. destruct d; simpl; apply IH; exact H.
Qed.

Lemma bput_bput {A} (t:bt A) q n m : bput (bput t q n) q m = bput t q m.
Proof.
  revert t; induction q as [|d q IH]; intros t; simpl; [reflexivity|].
  destruct t as [|l a r]; [reflexivity|]. destruct d; simpl; now rewrite IH.
Qed.

Lemma bput_bsub {A} (t:bt A) q : bput t q (bsub t q) = t.
Proof.
  revert t; induction q as [|d q IH]; intros t; simpl; [reflexivity|].
  destruct t as [|l a r]; [reflexivity|]. destruct d; now rewrite IH.
Qed.

Lemma rot_at_undo {A} (s:bt A) d : bsub s [d] <> E -> rot_at (rot_at s d) (flip d) = s.
Proof.
  destruct s as [|l p r]; [reflexivity|]. destruct d; simpl.
  - destruct l as [|a n b]; [now intros H|]. destruct r, a; reflexivity.
  - destruct r as [|b n c]; [now intros H|]. destruct l, c; reflexivity.
Qed.

Lemma rot_at_nonempty {A} (s:bt A) d : s <> E -> rot_at s d <> E.
Proof. destruct s as [|l p r]; [now intros H|]. intros _. destruct d, l, r; discriminate. Qed.

Lemma bsub_parent_nonempty {A} (t:bt A) q d : bsub t (q ++ [d]) <> E -> bsub t q <> E.
Proof. rewrite bsub_app. intros H H0. rewrite H0 in H. now apply H. Qed.

(* the rotated node is now where its parent was; the parent is its child on the other side; a, b, c keep their order *)
Theorem rotate_moves_up {A} (t:bt A) q d n a c : bsub t (q ++ [d]) = T a n c ->
  exists p x y, bsub t q = (match d with SL => T (T a n c) p y | SR => T x p (T a n c) end) /\
    bsub (rotate_tree t (q ++ [d])) q = (match d with SL => T a n (T c p y) | SR => T (T x p a) n c end).
Proof.
  intros H. assert (Hq : bsub t q <> E) by (apply bsub_parent_nonempty with d; rewrite H; discriminate).
  rewrite rotate_at_path, bsub_bput by exact Hq. rewrite bsub_app in H.
  destruct (bsub t q) as [|l p r]; [now destruct Hq|]. exists p, l, r. destruct d; simpl in H; subst; simpl; (split; [reflexivity|]); [destruct r|destruct l]; reflexivity.
Qed.

(* everything that hangs off the path to the parent is untouched: the path r leaves q at position k *)
Lemma bsub_bput_off {A} (t:bt A) q n r : (forall k, firstn k r <> q) -> length q <= length r ->
  bsub (bput t q n) r = bsub t r.
Proof.
  revert t r; induction q as [|d q IH]; intros t r H Hl; [exfalso; apply (H 0); reflexivity|].
  destruct r as [|e r]; [simpl in Hl; inversion Hl|]. simpl. destruct t as [|l a rr]; [reflexivity|].
  destruct d, e; simpl; try reflexivity; apply IH; try (simpl in Hl; apply le_S_n; exact Hl);
    intros k Hk; apply (H (S k)); simpl; now rewrite Hk.
Qed.

Theorem rotate_context {A} (t:bt A) q d r : (forall k, firstn k r <> q) -> length q <= length r ->
  bsub (rotate_tree t (q ++ [d])) r = bsub t r.
Proof. intros H Hl. rewrite rotate_at_path. now apply bsub_bput_off. Qed.

(* rotating the former parent restores the tree *)
Theorem rotate_undo {A} (t:bt A) q d : bsub t (q ++ [d]) <> E ->
  rotate_tree (rotate_tree t (q ++ [d])) (q ++ [flip d]) = t.
Proof.
  intros H. pose proof (bsub_parent_nonempty t q d H) as Hq.
  rewrite !rotate_at_path. rewrite bsub_bput by exact Hq. rewrite bput_bput.
  rewrite rot_at_undo by (rewrite <- bsub_app; exact H). apply bput_bsub.
Qed.

(* a path that does not name a node (absent child) rotates nothing *)
Theorem rotate_absent {A} (t:bt A) q d : bsub t (q ++ [d]) = E -> rotate_tree t (q ++ [d]) = t.
Proof.
  intros H. rewrite rotate_at_path. rewrite bsub_app in H.
  assert (R : rot_at (bsub t q) d = bsub t q).
  { destruct (bsub t q) as [|l p r]; [destruct d; reflexivity|]. destruct d; simpl in H; subst; [destruct r|destruct l]; reflexivity. }
  rewrite R. apply bput_bsub.
Qed.
