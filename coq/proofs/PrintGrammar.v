(* C04, part 2: a grammar of printed phrases (constant forms, atoms, factors, unary, exponent, product, sum) without lookahead
   conditions, and the theorem that every phrase is a derivation of the documented grammar given what follows it. *)
From Coq Require Import List NArith ZArith QArith Bool Lia Arith.
From Mathy Require Import Tok Params TokSet Lexer Num Expr Parser Grammar Printer.
From MathyProofs Require Import ParamsFacts LexerFacts ParserNF ParserComplete ParserTop TermText ProblemsFacts.
Import ListNotations.
Local Open Scope nat_scope.

(* ---------- a grammar of printed phrases (no lookahead conditions: they are discharged once, below) ---------- *)
Definition T := TermText.T.
Definition tMinus := T TMinus [45%N].
Definition minus (neg:bool) : list token := if neg then [tMinus] else [].
Definition sg (neg:bool) (v:num) : num := if neg then nneg v else v.
Definition tOpen := T TOpen [40%N]. Definition tClose := T TClose [41%N]. Definition tExp := T TExp [94%N]. Definition tFact := T TFact [33%N].
Definition tFunc := T TFunc [115;103;110]%N.

Inductive PConstF : list token -> expr -> Prop :=
| PC_const neg run v : coerce run = Ok v -> PConstF (minus neg ++ [T TConst run]) (Const (sg neg v))
| PC_fact neg run v : coerce run = Ok v -> PConstF (minus neg ++ [T TConst run; tFact]) (Un UFact (Const (sg neg v))).
Inductive PAtom : list token -> expr -> Prop :=
| PA_var v : PAtom [T TVar [v]] (Var v)
| PA_sgn a e : PAdd a e -> PAtom (tFunc :: tOpen :: a ++ [tClose]) (Un USgn e)
| PA_par a e : PAdd a e -> PAtom (tOpen :: a ++ [tClose]) e
with PFactors : list token -> expr -> Prop :=
| PF_atom a e : PAtom a e -> PFactors a e
| PF_pow a e u r : PAtom a e -> PUnary u r -> PFactors (a ++ tExp :: u) (Bin KPow e r)
with PUnary : list token -> expr -> Prop :=
| PU_c u e : PConstF u e -> PUnary u e
| PU_compact neg run v x f e : coerce run = Ok v -> PFactors (T TVar [x] :: f) e -> PUnary (minus neg ++ T TConst run :: T TVar [x] :: f) (Bin KMul (Const (sg neg v)) e)
| PU_fac f e : PFactors f e -> PUnary f e
| PU_neg f e : PFactors f e -> PUnary (tMinus :: f) (Un UNeg e)
with PExp : list token -> expr -> Prop :=
| PE_unary u e : PUnary u e -> PExp u e
| PE_pow u e u2 r : PConstF u e -> PUnary u2 r -> PExp (u ++ tExp :: u2) (Bin KPow e r)
with PMult : list token -> expr -> Prop :=
| PM_exp x e : PExp x e -> PMult x e
| PM_mul x e m r : PExp x e -> PMult m r -> PMult (x ++ T TMul [42%N] :: m) (Bin KMul e r)
| PM_div x e m r : PExp x e -> PMult m r -> PMult (x ++ T TDiv [47%N] :: m) (Bin KDiv e r)
with PAddL : expr -> list token -> expr -> Prop :=
| PL_nil e : PAddL e [] e
| PL_plus e m r tl e' : PMult m r -> PAddL (Bin KAdd e r) tl e' -> PAddL e (T TPlus [43%N] :: m ++ tl) e'
| PL_minus e m r tl e' : PMult m r -> PAddL (Bin KSub e r) tl e' -> PAddL e (tMinus :: m ++ tl) e'
with PAdd : list token -> expr -> Prop :=
| PD m e0 tl e : PMult m e0 -> PAddL e0 tl e -> PAdd (m ++ tl) e.

Scheme PAtom_i := Minimality for PAtom Sort Prop
with PFactors_i := Minimality for PFactors Sort Prop
with PUnary_i := Minimality for PUnary Sort Prop
with PExp_i := Minimality for PExp Sort Prop
with PMult_i := Minimality for PMult Sort Prop
with PAddL_i := Minimality for PAddL Sort Prop
with PAdd_i := Minimality for PAdd Sort Prop.
Combined Scheme P_mutind from PAtom_i, PFactors_i, PUnary_i, PExp_i, PMult_i, PAddL_i, PAdd_i.

(* first tokens *)
Definition fk (a:list token) : tkind := match a with t :: _ => tk t | [] => TEOF end.
Definition atom_first (k:tkind) : Prop := k = TVar \/ k = TFunc \/ k = TOpen.
Definition unary_first (k:tkind) : Prop := atom_first k \/ k = TMinus \/ k = TConst.
Lemma fk_app a b : a <> [] -> fk (a ++ b) = fk a. Proof. destruct a; [congruence|reflexivity]. Qed.
Lemma constf_first a e : PConstF a e -> fk a = TMinus \/ fk a = TConst.
Proof. destruct 1; destruct neg; cbn; auto. Qed.
Lemma firsts :
  (forall a e, PAtom a e -> atom_first (fk a)) /\ (forall a e, PFactors a e -> atom_first (fk a)) /\
  (forall a e, PUnary a e -> unary_first (fk a)) /\
  (forall a e, PExp a e -> unary_first (fk a)) /\ (forall a e, PMult a e -> unary_first (fk a)) /\
  (forall e0 a e, PAddL e0 a e -> True) /\ (forall a e, PAdd a e -> unary_first (fk a)).
Proof.
  apply P_mutind; intros; unfold atom_first, unary_first in *; cbn [fk]; auto.
  - (* pow on atom *) destruct a as [|t a']; [cbn in H0; unfold atom_first, unary_first in H0; repeat (destruct H0 as [H0|H0]; try discriminate H0)|]. exact H0.
  - destruct (constf_first _ _ H) as [Q|Q]; rewrite Q; auto.
  - destruct neg; cbn; auto.
  - (* PE_pow *) destruct (constf_first _ _ H) as [Q|Q]; destruct u as [|t u']; try discriminate Q; cbn in *; rewrite Q; auto.
  - destruct x as [|t x']; [cbn in H0; unfold atom_first, unary_first in H0; repeat (destruct H0 as [H0|H0]; try discriminate H0)|]. exact H0.
  - destruct x as [|t x']; [cbn in H0; unfold atom_first, unary_first in H0; repeat (destruct H0 as [H0|H0]; try discriminate H0)|]. exact H0.
  - destruct m as [|t m']; [cbn in H0; unfold atom_first, unary_first in H0; repeat (destruct H0 as [H0|H0]; try discriminate H0)|]. exact H0.
Qed.

(* ---------- printed phrases are derivations of the documented grammar, given what follows them ---------- *)
Definition okF (s:st) : Prop := hdk s <> TExp /\ ~ in_first_factor s.
Definition okM (s:st) : Prop := okF s /\ hdk s <> TMul /\ hdk s <> TDiv.
Definition okA (s:st) : Prop := okM s /\ hdk s <> TPlus /\ hdk s <> TMinus.
Lemma hdk_fk a rest : a <> [] -> hdk (a ++ rest) = fk a. Proof. destruct a; [congruence|reflexivity]. Qed.
Lemma unary_first_in a rest : unary_first (fk a) -> in_first_unary (a ++ rest).
Proof.
  unfold unary_first, atom_first, in_first_unary, check. destruct a as [|t a']; cbn [fk app].
  - intros H. repeat (destruct H as [H|H]; try discriminate H).
  - intros H. repeat (destruct H as [H|H]; try (rewrite H; reflexivity)).
Qed.
Lemma atom_first_in a rest : atom_first (fk a) -> in_first_factor (a ++ rest) /\ hdk (a ++ rest) <> TConst /\ hdk (a ++ rest) <> TMinus /\ hdk (a ++ rest) <> TFact.
Proof.
  unfold atom_first, in_first_factor, check, hdk, hk. destruct a as [|t a']; cbn [fk app].
  - intros H. repeat (destruct H as [H|H]; try discriminate H).
  - intros H. repeat (destruct H as [H|H]; try (rewrite H; repeat split; try reflexivity; intros Q; discriminate Q)).
Qed.
Lemma okF_cons t s : tk t = TMul \/ tk t = TDiv \/ tk t = TPlus \/ tk t = TMinus \/ tk t = TClose \/ tk t = TEOF \/ tk t = TEqual -> okF (t :: s).
Proof. unfold okF, in_first_factor, check, hdk, hk. intros H. repeat (destruct H as [H|H]; try (rewrite H; split; intros Q; discriminate Q)). Qed.
Lemma not_ff_exp s : ~ in_first_factor (tExp :: s). Proof. intros Q. discriminate Q. Qed.
Lemma constf_G u e : PConstF u e -> forall rest, ~ in_first_factor rest -> G_unary (u ++ rest) e rest.
Proof.
  destruct 1 as [neg run v Hc|neg run v Hc]; intros rest NF; destruct neg; cbn [minus app sg].
  - eapply GU_neg; [reflexivity|]. apply (GP_const true (T TConst run) rest v); [reflexivity|exact Hc|exact NF].
  - apply GU_pos; [intros Q; discriminate Q|]. apply (GP_const false (T TConst run) rest v); [reflexivity|exact Hc|exact NF].
  - eapply GU_neg; [reflexivity|]. apply (GP_fact true (T TConst run) tFact rest v); [reflexivity|exact Hc|reflexivity].
  - apply GU_pos; [intros Q; discriminate Q|]. apply (GP_fact false (T TConst run) tFact rest v); [reflexivity|exact Hc|reflexivity].
Qed.
Lemma addl_head e0 tl e : PAddL e0 tl e -> tl = [] \/ fk tl = TPlus \/ fk tl = TMinus.
Proof. destruct 1; cbn; auto. Qed.
Lemma okM_tail tl rest : (tl = [] \/ fk tl = TPlus \/ fk tl = TMinus) -> okA rest -> okM (tl ++ rest).
Proof.
  intros [->|H] A; [exact (proj1 A)|]. destruct tl as [|t tl']; [cbn in H; destruct H; discriminate|]. cbn [fk app] in *.
  split; [apply okF_cons; tauto|]. unfold hdk, hk. destruct H as [H|H]; rewrite H; split; intros Q; discriminate Q.
Qed.

Lemma phrases_sound :
  (forall a e, PAtom a e -> forall rest, G_atom (a ++ rest) e rest) /\
  (forall a e, PFactors a e -> forall rest, okF rest -> G_factors (a ++ rest) e rest) /\
  (forall a e, PUnary a e -> forall rest, okF rest -> G_unary (a ++ rest) e rest) /\
  (forall a e, PExp a e -> forall rest, okF rest -> G_exp (a ++ rest) e rest) /\
  (forall a e, PMult a e -> forall rest, okM rest -> G_mult (a ++ rest) e rest) /\
  (forall e0 a e, PAddL e0 a e -> forall rest, okA rest -> G_addl e0 (a ++ rest) e rest) /\
  (forall a e, PAdd a e -> forall rest, okA rest -> G_add (a ++ rest) e rest).
Proof.
  destruct firsts as (F1 & F2 & F3 & F4 & F5 & _ & F7).
  apply P_mutind.
  - (* var *) intros v rest. cbn [app]. apply (GT_var (T TVar [v])). reflexivity.
  - (* sgn *) intros a e HA IH rest. cbn [app]. rewrite <- app_assoc. cbn [app]. apply (GT_fun tFunc tOpen (a ++ tClose :: rest) e tClose rest); [reflexivity|reflexivity| |reflexivity].
    apply IH. split; [split; [apply okF_cons; tauto|split; intros Q; discriminate Q]|split; intros Q; discriminate Q].
  - (* parens *) intros a e HA IH rest. cbn [app]. rewrite <- app_assoc. cbn [app]. apply (GT_par tOpen (a ++ tClose :: rest) e tClose rest); [reflexivity| |reflexivity].
    apply IH. split; [split; [apply okF_cons; tauto|split; intros Q; discriminate Q]|split; intros Q; discriminate Q].
  - (* one atom *) intros a e HA IH rest [NE NF]. eapply GF_plain with (fs := [e]); [apply GS_one; [apply IH|exact NF]|exact NE|reflexivity].
  - (* atom ^ unary *) intros a e u r HA IHa HU IHu rest OK. rewrite <- app_assoc. cbn [app].
    apply GF_pow with (fs := [e]) (t := tExp) (s1 := u ++ rest) (r := r); [apply GS_one; [apply IHa|apply not_ff_exp]|reflexivity|apply unary_first_in; eapply F3; eauto|apply IHu; exact OK|reflexivity].
  - (* const forms *) intros u e HC rest [_ NF]. now apply constf_G.
  - (* compact *) intros neg run v x f e Hc HF IH rest OK.
    assert (in_first_factor ((T TVar [x] :: f) ++ rest)) as FF by reflexivity.
    destruct neg; cbn [minus app sg].
    + eapply GU_neg; [reflexivity|]. apply (GP_cf true (T TConst run) _ v e rest); [reflexivity|exact Hc|exact FF|intros Q; discriminate Q|apply IH; exact OK].
    + apply GU_pos; [intros Q; discriminate Q|]. apply (GP_cf false (T TConst run) _ v e rest); [reflexivity|exact Hc|exact FF|intros Q; discriminate Q|apply IH; exact OK].
  - (* factors *) intros f e HF IH rest OK. destruct (atom_first_in f rest (F2 _ _ HF)) as (A1 & A2 & A3 & _).
    apply GU_pos; [exact A3|]. apply (GP_f false); [exact A2|exact A1|apply IH; exact OK].
  - (* - factors *) intros f e HF IH rest OK. destruct (atom_first_in f rest (F2 _ _ HF)) as (A1 & A2 & A3 & _). cbn [app].
    eapply GU_neg; [reflexivity|]. apply (GP_f true); [exact A2|exact A1|apply IH; exact OK].
  - (* exp: unary *) intros u e HU IH rest OK. apply GE_plain; [apply unary_first_in; eapply F3; eauto|apply IH; exact OK|exact (proj1 OK)].
  - (* const ^ unary *) intros u e u2 r HC HU IH rest OK. rewrite <- app_assoc. cbn [app].
    apply GE_pow with (t := tExp) (s1 := u2 ++ rest).
    + apply unary_first_in. destruct (constf_first _ _ HC) as [Q|Q]; unfold unary_first; rewrite Q; auto.
    + apply constf_G; [exact HC|apply not_ff_exp].
    + reflexivity.
    + apply unary_first_in. eapply F3; eauto.
    + apply IH. exact OK.
  - (* mult: exp *) intros x e HE IH rest (OF & M1 & M2). eapply GM; [apply unary_first_in; eapply F4; eauto|apply IH; exact OF|apply GML_stop; assumption].
  - (* x * m *) intros x e m r HE IHe HM IHm rest OK. destruct OK as (OF & M1 & M2). rewrite <- app_assoc. cbn [app].
    eapply GM; [apply unary_first_in; eapply F4; eauto|apply IHe; apply okF_cons; tauto|].
    eapply GML_mul; [reflexivity|apply unary_first_in; eapply F5; eauto|apply IHm; exact (conj OF (conj M1 M2))|apply GML_stop; assumption].
  - (* x / m *) intros x e m r HE IHe HM IHm rest OK. destruct OK as (OF & M1 & M2). rewrite <- app_assoc. cbn [app].
    eapply GM; [apply unary_first_in; eapply F4; eauto|apply IHe; apply okF_cons; tauto|].
    eapply GML_div; [reflexivity|apply unary_first_in; eapply F5; eauto|apply IHm; exact (conj OF (conj M1 M2))|apply GML_stop; assumption].
  - (* addl: stop *) intros e rest (_ & A1 & A2). cbn [app]. apply GAL_stop; assumption.
  - (* + m *) intros e m r tl e' HM IHm HL IHl rest OK. cbn [app]. rewrite <- app_assoc.
    eapply GAL_plus; [reflexivity|apply unary_first_in; eapply F5; eauto|apply IHm; apply okM_tail; [eapply addl_head; eauto|exact OK]|apply IHl; exact OK].
  - (* - m *) intros e m r tl e' HM IHm HL IHl rest OK. cbn [app]. rewrite <- app_assoc.
    eapply GAL_minus; [reflexivity|apply unary_first_in; eapply F5; eauto|apply IHm; apply okM_tail; [eapply addl_head; eauto|exact OK]|apply IHl; exact OK].
  - (* add *) intros m e0 tl e HM IHm HL IHl rest OK. rewrite <- app_assoc.
    eapply GA; [apply unary_first_in; eapply F5; eauto|apply IHm; apply okM_tail; [eapply addl_head; eauto|exact OK]|apply IHl; exact OK].
Qed.
