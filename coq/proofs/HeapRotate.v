(* Heap-level rotation (theories/Heap.v: hrotate): local effect of the seven pointer writes in both orientations, and the global theorem:
   rotating any non-root node of a well-formed tree gives a well-formed tree over the same node objects with the same in-order sequence. *)
From Coq Require Import List NArith ZArith Bool Arith Lia Permutation.
From Mathy Require Import Num Heap.
From MathyProofs Require Import HeapFacts.
Import ListNotations.

(* a node record seen as the root of an abstract tree *)
Definition lbl (n:hnode) (l r:atree) : atree := AN (h_cls n) (h_id n) (h_val n) (h_ident n) (h_col n) l r.

(* rep only looks at the structure's own addresses; here with a changed parent pointer at the root *)
Lemma rep_reparent t : forall h g oa p q,
  (forall b, In b (oaddrs h oa t) -> Some b <> oa -> nth_error g b = nth_error h b) ->
  (forall a n, oa = Some a -> nth_error h a = Some n -> nth_error g a = Some (set_p q n)) ->
  NoDup (oaddrs h oa t) -> rep h oa p t -> rep g oa q t.
Proof.
  destruct t as [|c i v x col l r]; intros h g oa p q F R ND; cbn [rep]; [auto|].
  intros (a & n & -> & Hn & H1 & H2 & H3 & H4 & H5 & H6 & Hl & Hr). cbn [oaddrs] in F, ND. rewrite Hn in F, ND.
  inversion ND as [|? ? NA ND']; subst. destruct (NoDup_app_inv _ _ ND') as (NDl & NDr & DIS).
  exists a, (set_p q n). split; [reflexivity|]. split; [apply (R a n eq_refl Hn)|]. cbn [set_p h_cls h_id h_val h_ident h_col h_p h_l h_r].
  repeat (split; [assumption||reflexivity|]). split.
  - apply (rep_frame l h g); [|exact Hl]. intros b Hb. apply F; [right; apply in_or_app; auto|]. intros Q. inversion Q; subst b. apply NA. apply in_or_app. auto.
  - apply (rep_frame r h g); [|exact Hr]. intros b Hb. apply F; [right; apply in_or_app; auto|]. intros Q. inversion Q; subst b. apply NA. apply in_or_app. auto.
Qed.

Lemma nth_upd {A} (l:list A) a f b : nth_error (upd l a f) b = if Nat.eqb a b then option_map f (nth_error l b) else nth_error l b.
Proof.
  destruct (Nat.eqb a b) eqn:E.
  - apply Nat.eqb_eq in E. subst b. destruct (nth_error l a) as [x|] eqn:H; cbn [option_map]; [now apply nth_error_upd_same|].
    apply nth_error_None. rewrite upd_length. now apply nth_error_None.
  - apply Nat.eqb_neq in E. now apply nth_error_upd_other.
Qed.
Ltac neq a b H := let Q := fresh in assert (Nat.eqb a b = false) as Q by (apply Nat.eqb_neq; exact H); rewrite ?Q; clear Q.

(* ---------- the whole tree: well-formed again, same in-order sequence of node objects ---------- *)
Fixpoint ainorder (h:heap) (oa:option nat) (t:atree) : list nat :=
  match t, oa with
  | AN _ _ _ _ _ l r, Some a => match nth_error h a with Some n => ainorder h (h_l n) l ++ a :: ainorder h (h_r n) r | None => [] end
  | _, _ => [] end.
Lemma ainorder_frame t : forall h g oa p, (forall b, In b (oaddrs h oa t) -> nth_error g b = nth_error h b) -> rep h oa p t ->
  ainorder g oa t = ainorder h oa t /\ oaddrs g oa t = oaddrs h oa t.
Proof.
  induction t as [|c i v x col l IHl r IHr]; intros h g oa p F; cbn [rep]; [intros _; split; reflexivity|].
  intros (a & n & -> & Hn & _ & _ & _ & _ & _ & _ & Hl & Hr). cbn [oaddrs ainorder] in *. rewrite Hn in *. rewrite (F a (or_introl eq_refl)), Hn.
  destruct (IHl h g (h_l n) (Some a)) as [I1 O1]; [intros b Hb; apply F; right; apply in_or_app; auto|exact Hl|].
  destruct (IHr h g (h_r n) (Some a)) as [I2 O2]; [intros b Hb; apply F; right; apply in_or_app; auto|exact Hr|].
  now rewrite I1, I2, O1, O2.
Qed.
Lemma ainorder_reparent t : forall h g oa p q,
  (forall b, In b (oaddrs h oa t) -> Some b <> oa -> nth_error g b = nth_error h b) ->
  (forall a n, oa = Some a -> nth_error h a = Some n -> nth_error g a = Some (set_p q n)) ->
  NoDup (oaddrs h oa t) -> rep h oa p t -> ainorder g oa t = ainorder h oa t /\ oaddrs g oa t = oaddrs h oa t.
Proof.
  destruct t as [|c i v x col l r]; intros h g oa p q F R ND; cbn [rep]; [intros _; split; reflexivity|].
  intros (a & n & -> & Hn & _ & _ & _ & _ & _ & _ & Hl & Hr). cbn [oaddrs ainorder] in *. rewrite Hn in *. rewrite (R a n eq_refl Hn). cbn [set_p h_l h_r].
  inversion ND as [|? ? NA ND']; subst.
  destruct (ainorder_frame l h g (h_l n) (Some a)) as [I1 O1]; [|exact Hl|].
  { intros b Hb. apply F; [right; apply in_or_app; auto|]. intros Q. inversion Q; subst b. apply NA. apply in_or_app. auto. }
  destruct (ainorder_frame r h g (h_r n) (Some a)) as [I2 O2]; [|exact Hr|].
  { intros b Hb. apply F; [right; apply in_or_app; auto|]. intros Q. inversion Q; subst b. apply NA. apply in_or_app. auto. }
  now rewrite I1, I2, O1, O2.
Qed.

(* ---------- the local effect of a rotation: node is the LEFT child of parent ---------- *)
Definition root_of_opt (o:option nat) : list nat := match o with Some c => [c] | None => [] end.
Lemma rotate_left_local h node parent n pn a b c :
  nth_error h node = Some n -> h_p n = Some parent -> nth_error h parent = Some pn -> h_l pn = Some node ->
  rep h (h_l n) (Some node) a -> rep h (h_r n) (Some node) b -> rep h (h_r pn) (Some parent) c ->
  NoDup (node :: parent :: oaddrs h (h_l n) a ++ oaddrs h (h_r n) b ++ oaddrs h (h_r pn) c) ->
  (forall g, h_p pn = Some g -> ~ In g (node :: parent :: oaddrs h (h_l n) a ++ oaddrs h (h_r n) b ++ oaddrs h (h_r pn) c)) ->
  let h' := hrotate h node in
  rep h' (Some node) (h_p pn) (lbl n a (lbl pn b c)) /\
  ainorder h' (Some node) (lbl n a (lbl pn b c)) = ainorder h (h_l n) a ++ node :: ainorder h (h_r n) b ++ parent :: ainorder h (h_r pn) c /\
  oaddrs h' (Some node) (lbl n a (lbl pn b c)) = node :: oaddrs h (h_l n) a ++ parent :: oaddrs h (h_r n) b ++ oaddrs h (h_r pn) c /\
  (forall x, x <> node -> x <> parent -> ~ In x (root_of_opt (h_r n)) -> h_p pn <> Some x -> nth_error h' x = nth_error h x) /\
  (forall g gn, h_p pn = Some g -> nth_error h g = Some gn ->
     nth_error h' g = Some (if is_ptr (h_l gn) parent then set_l (Some node) gn else set_r (Some node) gn)) /\
  length h' = length h.
Proof.
  intros Hn Hp Hpn Hl Ra Rb Rc ND G h'.
  inversion ND as [|? ? N1 ND1]; subst. inversion ND1 as [|? ? N2 ND2]; subst.
  destruct (NoDup_app_inv _ _ ND2) as (NDa & NDbc & Dabc). destruct (NoDup_app_inv _ _ NDbc) as (NDb & NDc & Dbc).
  assert (NP : node <> parent) by (intros Q; apply N1; left; auto).
  set (A := oaddrs h (h_l n) a) in *. set (B := oaddrs h (h_r n) b) in *. set (C := oaddrs h (h_r pn) c) in *.
  assert (nA : ~ In node A) by (intros Q; apply N1; right; apply in_or_app; auto).
  assert (nB : ~ In node B) by (intros Q; apply N1; right; apply in_or_app; right; apply in_or_app; auto).
  assert (nC : ~ In node C) by (intros Q; apply N1; right; apply in_or_app; right; apply in_or_app; auto).
  assert (pA : ~ In parent A) by (intros Q; apply N2; apply in_or_app; auto).
  assert (pB : ~ In parent B) by (intros Q; apply N2; apply in_or_app; right; apply in_or_app; auto).
  assert (pC : ~ In parent C) by (intros Q; apply N2; apply in_or_app; right; apply in_or_app; auto).
  assert (BROOT : forall x, is_ptr (h_r n) x = true -> In x B).
  { intros x Q. subst B. destruct (h_r n) as [c0|]; cbn in Q; [|discriminate]. apply Nat.eqb_eq in Q. subst c0.
    destruct b; [cbn in Rb; discriminate Rb|]. cbn [oaddrs]. destruct Rb as (? & ? & Q & Hx & _). inversion Q; subst. rewrite Hx. now left. }
  assert (NB0 : forall x, ~ In x B -> is_ptr (h_r n) x = false) by (intros x Hx; destruct (is_ptr (h_r n) x) eqn:Q; [exfalso; apply Hx; now apply BROOT|reflexivity]).
  (* the heap after the writes, as a function of the address *)
  assert (HEAP : forall x, nth_error h' x =
            if Nat.eqb x node then Some (set_p (h_p pn) (set_r (Some parent) n))
            else if Nat.eqb x parent then Some (set_p (Some node) (set_l (h_r n) pn))
            else if is_ptr (h_r n) x then option_map (set_p (Some parent)) (nth_error h x)
            else if is_ptr (h_p pn) x then option_map (fun gn => if is_ptr (h_l gn) parent then set_l (Some node) gn else set_r (Some node) gn) (nth_error h x)
            else nth_error h x).
  { intros x. subst h'. unfold hrotate. rewrite Hn, Hp, Hpn, Hl. cbn [is_ptr]. rewrite Nat.eqb_refl.
    set (hB := match h_r n with Some c0 => upd (upd h parent (set_l (h_r n))) c0 (set_p (Some parent)) | None => upd h parent (set_l (h_r n)) end).
    set (h2 := upd (upd (upd hB node (set_r (Some parent))) parent (set_p (Some node))) node (set_p (h_p pn))).
    assert (HB : forall y, nth_error hB y = if is_ptr (h_r n) y then option_map (set_p (Some parent)) (nth_error (upd h parent (set_l (h_r n))) y) else nth_error (upd h parent (set_l (h_r n))) y).
    { intros y. subst hB. destruct (h_r n) as [c0|]; cbn [is_ptr]; [apply nth_upd|reflexivity]. }
    assert (H2 : forall y, nth_error h2 y =
              if Nat.eqb y node then Some (set_p (h_p pn) (set_r (Some parent) n))
              else if Nat.eqb y parent then Some (set_p (Some node) (set_l (h_r n) pn))
              else if is_ptr (h_r n) y then option_map (set_p (Some parent)) (nth_error h y) else nth_error h y).
    { intros y. subst h2. rewrite !nth_upd, HB, !nth_upd. rewrite (Nat.eqb_sym node y), (Nat.eqb_sym parent y).
      destruct (Nat.eqb y node) eqn:E1.
      - apply Nat.eqb_eq in E1. subst y. neq node parent NP. rewrite Hn.
        rewrite (NB0 node nB).
        reflexivity.
      - destruct (Nat.eqb y parent) eqn:E2.
        + apply Nat.eqb_eq in E2. subst y. rewrite Hpn.
          rewrite (NB0 parent pB).
          reflexivity.
        + destruct (is_ptr (h_r n) y); reflexivity. }
    destruct (h_p pn) as [g|] eqn:Hg; cbn [is_ptr].
    - assert (gN : g <> node) by (intros ->; apply (G node eq_refl); now left).
      assert (gP : g <> parent) by (intros ->; apply (G parent eq_refl); right; now left).
      assert (gB : is_ptr (h_r n) g = false) by (apply NB0; intros Q; apply (G g eq_refl); right; right; apply in_or_app; right; apply in_or_app; auto).
      rewrite H2. neq g node gN. neq g parent gP. rewrite gB.
      destruct (nth_error h g) as [gn|] eqn:Hgn.
      + destruct (is_ptr (h_l gn) parent) eqn:IP; rewrite nth_upd, H2; rewrite (Nat.eqb_sym g x);
          (destruct (Nat.eqb x node) eqn:E1; [apply Nat.eqb_eq in E1; subst x; neq node g (not_eq_sym gN); reflexivity|]);
          (destruct (Nat.eqb x parent) eqn:E2; [apply Nat.eqb_eq in E2; subst x; neq parent g (not_eq_sym gP); reflexivity|]);
          (destruct (Nat.eqb x g) eqn:E3; [apply Nat.eqb_eq in E3; subst x; rewrite gB, Hgn; cbn [option_map]; rewrite IP; reflexivity|]);
          destruct (is_ptr (h_r n) x); reflexivity.
      + rewrite H2. destruct (Nat.eqb x node); [reflexivity|]. destruct (Nat.eqb x parent); [reflexivity|]. destruct (is_ptr (h_r n) x); [reflexivity|].
        destruct (Nat.eqb g x) eqn:E3; [apply Nat.eqb_eq in E3; subst x; rewrite Hgn; reflexivity|reflexivity].
    - rewrite H2. destruct (Nat.eqb x node); [reflexivity|]. destruct (Nat.eqb x parent); [reflexivity|]. destruct (is_ptr (h_r n) x); reflexivity. }
  assert (LEN : length h' = length h).
  { subst h'. unfold hrotate. rewrite Hn, Hp, Hpn. destruct (is_ptr (h_l pn) node); destruct (h_r n), (h_l n), (h_p pn); repeat (rewrite ?upd_length; try match goal with |- context[match nth_error ?l ?g with _ => _ end] => destruct (nth_error l g) end; try match goal with |- context[if ?b then _ else _] => destruct b end); rewrite ?upd_length; reflexivity. }
  assert (OUT : forall x, In x (A ++ B ++ C) -> is_ptr (h_p pn) x = false).
  { intros x Hin. destruct (h_p pn) as [g|] eqn:Hg; cbn [is_ptr]; [|reflexivity]. apply Nat.eqb_neq. intros ->. apply (G x eq_refl). right. right. exact Hin. }
  assert (agA : forall x, In x A -> nth_error h' x = nth_error h x).
  { intros x Hin. rewrite HEAP. assert (x <> node) as X1 by (intros ->; contradiction). assert (x <> parent) as X2 by (intros ->; contradiction).
    neq x node X1. neq x parent X2. rewrite (NB0 x) by (intros Q; exact (Dabc x Hin (in_or_app _ _ _ (or_introl Q)))). rewrite OUT; [reflexivity|apply in_or_app; auto]. }
  assert (agC : forall x, In x C -> nth_error h' x = nth_error h x).
  { intros x Hin. rewrite HEAP. assert (x <> node) as X1 by (intros ->; contradiction). assert (x <> parent) as X2 by (intros ->; contradiction).
    neq x node X1. neq x parent X2. rewrite (NB0 x) by (intros Q; exact (Dbc x Q Hin)). rewrite OUT; [reflexivity|apply in_or_app; right; apply in_or_app; auto]. }
  assert (agB1 : forall x, In x B -> Some x <> h_r n -> nth_error h' x = nth_error h x).
  { intros x Hin Nroot. rewrite HEAP. assert (x <> node) as X1 by (intros ->; contradiction). assert (x <> parent) as X2 by (intros ->; contradiction).
    neq x node X1. neq x parent X2.
    assert (is_ptr (h_r n) x = false) as -> by (destruct (h_r n) as [c0|]; cbn [is_ptr]; [apply Nat.eqb_neq; intros ->; apply Nroot; reflexivity|reflexivity]).
    rewrite OUT; [reflexivity|apply in_or_app; right; apply in_or_app; auto]. }
  assert (agB2 : forall c0 nc0, h_r n = Some c0 -> nth_error h c0 = Some nc0 -> nth_error h' c0 = Some (set_p (Some parent) nc0)).
  { intros c0 nc0 Hr Hc0. rewrite HEAP. assert (In c0 B) as InB by (apply BROOT; rewrite Hr; cbn; apply Nat.eqb_refl).
    assert (c0 <> node) as X1 by (intros ->; contradiction). assert (c0 <> parent) as X2 by (intros ->; contradiction).
    neq c0 node X1. neq c0 parent X2. rewrite Hr. cbn [is_ptr]. rewrite Nat.eqb_refl, Hc0. reflexivity. }
  assert (Hnode' : nth_error h' node = Some (set_p (h_p pn) (set_r (Some parent) n))) by (rewrite HEAP, Nat.eqb_refl; reflexivity).
  assert (Hparent' : nth_error h' parent = Some (set_p (Some node) (set_l (h_r n) pn))) by (rewrite HEAP; neq parent node (not_eq_sym NP); rewrite Nat.eqb_refl; reflexivity).
  destruct (ainorder_frame a h h' (h_l n) (Some node) agA Ra) as [IA OA].
  destruct (ainorder_frame c h h' (h_r pn) (Some parent) agC Rc) as [IC OC].
  destruct (ainorder_reparent b h h' (h_r n) (Some node) (Some parent) agB1 agB2 NDb Rb) as [IB OB].
  split; [|split; [|split; [|split; [|split; [|exact LEN]]]]].
  - (* the rotated structure *)
    cbn [lbl rep]. exists node, (set_p (h_p pn) (set_r (Some parent) n)). split; [reflexivity|]. split; [exact Hnode'|].
    cbn [set_p set_r h_cls h_id h_val h_ident h_col h_p h_l h_r]. repeat (split; [reflexivity|]). split.
    + apply (rep_frame a h h'); [exact agA|exact Ra].
    + exists parent, (set_p (Some node) (set_l (h_r n) pn)). split; [reflexivity|]. split; [exact Hparent'|].
      cbn [set_p set_l h_cls h_id h_val h_ident h_col h_p h_l h_r]. repeat (split; [reflexivity|]). split.
      * apply (rep_reparent b h h' (h_r n) (Some node) (Some parent) agB1 agB2 NDb Rb).
      * apply (rep_frame c h h'); [exact agC|exact Rc].
  - cbn [lbl ainorder]. rewrite Hnode'. cbn [set_p set_r h_l h_r]. rewrite Hparent'. cbn [set_p set_l h_l h_r]. now rewrite IA, IB, IC.
  - cbn [lbl oaddrs]. rewrite Hnode'. cbn [set_p set_r h_l h_r]. rewrite Hparent'. cbn [set_p set_l h_l h_r]. now rewrite OA, OB, OC.
  - intros x X1 X2 X3 X4. rewrite HEAP. neq x node X1. neq x parent X2.
    assert (is_ptr (h_r n) x = false) as -> by (destruct (h_r n) as [c0|]; cbn [is_ptr root_of_opt] in *; [apply Nat.eqb_neq; intros ->; apply X3; now left|reflexivity]).
    assert (is_ptr (h_p pn) x = false) as -> by (destruct (h_p pn) as [g|]; cbn [is_ptr]; [apply Nat.eqb_neq; intros ->; apply X4; reflexivity|reflexivity]).
    reflexivity.
  - intros g gn Hg Hgn. rewrite HEAP.
    assert (gN : g <> node) by (intros ->; apply (G node Hg); now left).
    assert (gP : g <> parent) by (intros ->; apply (G parent Hg); right; now left).
    neq g node gN. neq g parent gP.
    rewrite (NB0 g) by (intros Q; apply (G g Hg); right; right; apply in_or_app; right; apply in_or_app; auto).
    rewrite Hg. cbn [is_ptr]. rewrite Nat.eqb_refl, Hgn. reflexivity.
Qed.

(* ---------- node is the RIGHT child of parent (mirror image) ---------- *)
Lemma rotate_right_local h node parent n pn a b c :
  nth_error h node = Some n -> h_p n = Some parent -> nth_error h parent = Some pn -> h_r pn = Some node -> is_ptr (h_l pn) node = false ->
  rep h (h_r n) (Some node) a -> rep h (h_l n) (Some node) b -> rep h (h_l pn) (Some parent) c ->
  NoDup (node :: parent :: oaddrs h (h_r n) a ++ oaddrs h (h_l n) b ++ oaddrs h (h_l pn) c) ->
  (forall g, h_p pn = Some g -> ~ In g (node :: parent :: oaddrs h (h_r n) a ++ oaddrs h (h_l n) b ++ oaddrs h (h_l pn) c)) ->
  let h' := hrotate h node in
  rep h' (Some node) (h_p pn) (lbl n (lbl pn c b) a) /\
  ainorder h' (Some node) (lbl n (lbl pn c b) a) = (ainorder h (h_l pn) c ++ parent :: ainorder h (h_l n) b) ++ node :: ainorder h (h_r n) a /\
  oaddrs h' (Some node) (lbl n (lbl pn c b) a) = node :: (parent :: oaddrs h (h_l pn) c ++ oaddrs h (h_l n) b) ++ oaddrs h (h_r n) a /\
  (forall x, x <> node -> x <> parent -> ~ In x (root_of_opt (h_l n)) -> h_p pn <> Some x -> nth_error h' x = nth_error h x) /\
  (forall g gn, h_p pn = Some g -> nth_error h g = Some gn ->
     nth_error h' g = Some (if is_ptr (h_l gn) parent then set_l (Some node) gn else set_r (Some node) gn)) /\
  length h' = length h.
Proof.
  intros Hn Hp Hpn Hl NL Ra Rb Rc ND G h'.
  inversion ND as [|? ? N1 ND1]; subst. inversion ND1 as [|? ? N2 ND2]; subst.
  destruct (NoDup_app_inv _ _ ND2) as (NDa & NDbc & Dabc). destruct (NoDup_app_inv _ _ NDbc) as (NDb & NDc & Dbc).
  assert (NP : node <> parent) by (intros Q; apply N1; left; auto).
  set (A := oaddrs h (h_r n) a) in *. set (B := oaddrs h (h_l n) b) in *. set (C := oaddrs h (h_l pn) c) in *.
  assert (nA : ~ In node A) by (intros Q; apply N1; right; apply in_or_app; auto).
  assert (nB : ~ In node B) by (intros Q; apply N1; right; apply in_or_app; right; apply in_or_app; auto).
  assert (nC : ~ In node C) by (intros Q; apply N1; right; apply in_or_app; right; apply in_or_app; auto).
  assert (pA : ~ In parent A) by (intros Q; apply N2; apply in_or_app; auto).
  assert (pB : ~ In parent B) by (intros Q; apply N2; apply in_or_app; right; apply in_or_app; auto).
  assert (pC : ~ In parent C) by (intros Q; apply N2; apply in_or_app; right; apply in_or_app; auto).
  assert (BROOT : forall x, is_ptr (h_l n) x = true -> In x B).
  { intros x Q. subst B. destruct (h_l n) as [c0|]; cbn in Q; [|discriminate]. apply Nat.eqb_eq in Q. subst c0.
    destruct b; [cbn in Rb; discriminate Rb|]. cbn [oaddrs]. destruct Rb as (? & ? & Q & Hx & _). inversion Q; subst. rewrite Hx. now left. }
  assert (NB0 : forall x, ~ In x B -> is_ptr (h_l n) x = false) by (intros x Hx; destruct (is_ptr (h_l n) x) eqn:Q; [exfalso; apply Hx; now apply BROOT|reflexivity]).
  (* the heap after the writes, as a function of the address *)
  assert (HEAP : forall x, nth_error h' x =
            if Nat.eqb x node then Some (set_p (h_p pn) (set_l (Some parent) n))
            else if Nat.eqb x parent then Some (set_p (Some node) (set_r (h_l n) pn))
            else if is_ptr (h_l n) x then option_map (set_p (Some parent)) (nth_error h x)
            else if is_ptr (h_p pn) x then option_map (fun gn => if is_ptr (h_l gn) parent then set_l (Some node) gn else set_r (Some node) gn) (nth_error h x)
            else nth_error h x).
  { intros x. subst h'. unfold hrotate. rewrite Hn, Hp, Hpn, NL.
    set (hB := match h_l n with Some c0 => upd (upd h parent (set_r (h_l n))) c0 (set_p (Some parent)) | None => upd h parent (set_r (h_l n)) end).
    set (h2 := upd (upd (upd hB node (set_l (Some parent))) parent (set_p (Some node))) node (set_p (h_p pn))).
    assert (HB : forall y, nth_error hB y = if is_ptr (h_l n) y then option_map (set_p (Some parent)) (nth_error (upd h parent (set_r (h_l n))) y) else nth_error (upd h parent (set_r (h_l n))) y).
    { intros y. subst hB. destruct (h_l n) as [c0|]; cbn [is_ptr]; [apply nth_upd|reflexivity]. }
    assert (H2 : forall y, nth_error h2 y =
              if Nat.eqb y node then Some (set_p (h_p pn) (set_l (Some parent) n))
              else if Nat.eqb y parent then Some (set_p (Some node) (set_r (h_l n) pn))
              else if is_ptr (h_l n) y then option_map (set_p (Some parent)) (nth_error h y) else nth_error h y).
    { intros y. subst h2. rewrite !nth_upd, HB, !nth_upd. rewrite (Nat.eqb_sym node y), (Nat.eqb_sym parent y).
      destruct (Nat.eqb y node) eqn:E1.
      - apply Nat.eqb_eq in E1. subst y. neq node parent NP. rewrite Hn.
        rewrite (NB0 node nB).
        reflexivity.
      - destruct (Nat.eqb y parent) eqn:E2.
        + apply Nat.eqb_eq in E2. subst y. rewrite Hpn.
          rewrite (NB0 parent pB).
          reflexivity.
        + destruct (is_ptr (h_l n) y); reflexivity. }
    destruct (h_p pn) as [g|] eqn:Hg; cbn [is_ptr].
    - assert (gN : g <> node) by (intros ->; apply (G node eq_refl); now left).
      assert (gP : g <> parent) by (intros ->; apply (G parent eq_refl); right; now left).
      assert (gB : is_ptr (h_l n) g = false) by (apply NB0; intros Q; apply (G g eq_refl); right; right; apply in_or_app; right; apply in_or_app; auto).
      rewrite H2. neq g node gN. neq g parent gP. rewrite gB.
      destruct (nth_error h g) as [gn|] eqn:Hgn.
      + destruct (is_ptr (h_l gn) parent) eqn:IP; rewrite nth_upd, H2; rewrite (Nat.eqb_sym g x);
          (destruct (Nat.eqb x node) eqn:E1; [apply Nat.eqb_eq in E1; subst x; neq node g (not_eq_sym gN); reflexivity|]);
          (destruct (Nat.eqb x parent) eqn:E2; [apply Nat.eqb_eq in E2; subst x; neq parent g (not_eq_sym gP); reflexivity|]);
          (destruct (Nat.eqb x g) eqn:E3; [apply Nat.eqb_eq in E3; subst x; rewrite gB, Hgn; cbn [option_map]; rewrite IP; reflexivity|]);
          destruct (is_ptr (h_l n) x); reflexivity.
      + rewrite H2. destruct (Nat.eqb x node); [reflexivity|]. destruct (Nat.eqb x parent); [reflexivity|]. destruct (is_ptr (h_l n) x); [reflexivity|].
        destruct (Nat.eqb g x) eqn:E3; [apply Nat.eqb_eq in E3; subst x; rewrite Hgn; reflexivity|reflexivity].
    - rewrite H2. destruct (Nat.eqb x node); [reflexivity|]. destruct (Nat.eqb x parent); [reflexivity|]. destruct (is_ptr (h_l n) x); reflexivity. }
  assert (LEN : length h' = length h).
  { subst h'. unfold hrotate. rewrite Hn, Hp, Hpn. destruct (is_ptr (h_r pn) node); destruct (h_l n), (h_r n), (h_p pn); repeat (rewrite ?upd_length; try match goal with |- context[match nth_error ?l ?g with _ => _ end] => destruct (nth_error l g) end; try match goal with |- context[if ?b then _ else _] => destruct b end); rewrite ?upd_length; reflexivity. }
  assert (OUT : forall x, In x (A ++ B ++ C) -> is_ptr (h_p pn) x = false).
  { intros x Hin. destruct (h_p pn) as [g|] eqn:Hg; cbn [is_ptr]; [|reflexivity]. apply Nat.eqb_neq. intros ->. apply (G x eq_refl). right. right. exact Hin. }
  assert (agA : forall x, In x A -> nth_error h' x = nth_error h x).
  { intros x Hin. rewrite HEAP. assert (x <> node) as X1 by (intros ->; contradiction). assert (x <> parent) as X2 by (intros ->; contradiction).
    neq x node X1. neq x parent X2. rewrite (NB0 x) by (intros Q; exact (Dabc x Hin (in_or_app _ _ _ (or_introl Q)))). rewrite OUT; [reflexivity|apply in_or_app; auto]. }
  assert (agC : forall x, In x C -> nth_error h' x = nth_error h x).
  { intros x Hin. rewrite HEAP. assert (x <> node) as X1 by (intros ->; contradiction). assert (x <> parent) as X2 by (intros ->; contradiction).
    neq x node X1. neq x parent X2. rewrite (NB0 x) by (intros Q; exact (Dbc x Q Hin)). rewrite OUT; [reflexivity|apply in_or_app; right; apply in_or_app; auto]. }
  assert (agB1 : forall x, In x B -> Some x <> h_l n -> nth_error h' x = nth_error h x).
  { intros x Hin Nroot. rewrite HEAP. assert (x <> node) as X1 by (intros ->; contradiction). assert (x <> parent) as X2 by (intros ->; contradiction).
    neq x node X1. neq x parent X2.
    assert (is_ptr (h_l n) x = false) as -> by (destruct (h_l n) as [c0|]; cbn [is_ptr]; [apply Nat.eqb_neq; intros ->; apply Nroot; reflexivity|reflexivity]).
    rewrite OUT; [reflexivity|apply in_or_app; right; apply in_or_app; auto]. }
  assert (agB2 : forall c0 nc0, h_l n = Some c0 -> nth_error h c0 = Some nc0 -> nth_error h' c0 = Some (set_p (Some parent) nc0)).
  { intros c0 nc0 Hr Hc0. rewrite HEAP. assert (In c0 B) as InB by (apply BROOT; rewrite Hr; cbn; apply Nat.eqb_refl).
    assert (c0 <> node) as X1 by (intros ->; contradiction). assert (c0 <> parent) as X2 by (intros ->; contradiction).
    neq c0 node X1. neq c0 parent X2. rewrite Hr. cbn [is_ptr]. rewrite Nat.eqb_refl, Hc0. reflexivity. }
  assert (Hnode' : nth_error h' node = Some (set_p (h_p pn) (set_l (Some parent) n))) by (rewrite HEAP, Nat.eqb_refl; reflexivity).
  assert (Hparent' : nth_error h' parent = Some (set_p (Some node) (set_r (h_l n) pn))) by (rewrite HEAP; neq parent node (not_eq_sym NP); rewrite Nat.eqb_refl; reflexivity).
  destruct (ainorder_frame a h h' (h_r n) (Some node) agA Ra) as [IA OA].
  destruct (ainorder_frame c h h' (h_l pn) (Some parent) agC Rc) as [IC OC].
  destruct (ainorder_reparent b h h' (h_l n) (Some node) (Some parent) agB1 agB2 NDb Rb) as [IB OB].
  split; [|split; [|split; [|split; [|split; [|exact LEN]]]]].
  - (* the rotated structure *)
    cbn [lbl rep]. exists node, (set_p (h_p pn) (set_l (Some parent) n)). split; [reflexivity|]. split; [exact Hnode'|].
    cbn [set_p set_l h_cls h_id h_val h_ident h_col h_p h_l h_r]. repeat (split; [reflexivity|]). split.
    + exists parent, (set_p (Some node) (set_r (h_l n) pn)). split; [reflexivity|]. split; [exact Hparent'|].
      cbn [set_p set_r h_cls h_id h_val h_ident h_col h_p h_l h_r]. repeat (split; [reflexivity|]). split.
      * apply (rep_frame c h h'); [exact agC|exact Rc].
      * apply (rep_reparent b h h' (h_l n) (Some node) (Some parent) agB1 agB2 NDb Rb).
    + apply (rep_frame a h h'); [exact agA|exact Ra].
  - cbn [lbl ainorder]. rewrite Hnode'. cbn [set_p set_l h_l h_r]. rewrite Hparent'. cbn [set_p set_r h_l h_r]. now rewrite IA, IB, IC.
  - cbn [lbl oaddrs]. rewrite Hnode'. cbn [set_p set_l h_l h_r]. rewrite Hparent'. cbn [set_p set_r h_l h_r]. now rewrite OA, OB, OC.
  - intros x X1 X2 X3 X4. rewrite HEAP. neq x node X1. neq x parent X2.
    assert (is_ptr (h_l n) x = false) as -> by (destruct (h_l n) as [c0|]; cbn [is_ptr root_of_opt] in *; [apply Nat.eqb_neq; intros ->; apply X3; now left|reflexivity]).
    assert (is_ptr (h_p pn) x = false) as -> by (destruct (h_p pn) as [g|]; cbn [is_ptr]; [apply Nat.eqb_neq; intros ->; apply X4; reflexivity|reflexivity]).
    reflexivity.
  - intros g gn Hg Hgn. rewrite HEAP.
    assert (gN : g <> node) by (intros ->; apply (G node Hg); now left).
    assert (gP : g <> parent) by (intros ->; apply (G parent Hg); right; now left).
    neq g node gN. neq g parent gP.
    rewrite (NB0 g) by (intros Q; apply (G g Hg); right; right; apply in_or_app; right; apply in_or_app; auto).
    rewrite Hg. cbn [is_ptr]. rewrite Nat.eqb_refl, Hgn. reflexivity.
Qed.



Lemma lbl_eq n l r : AN (h_cls n) (h_id n) (h_val n) (h_ident n) (h_col n) l r = lbl n l r. Proof. reflexivity. Qed.
Lemma is_ptr_true o a : is_ptr o a = true <-> o = Some a.
Proof. destruct o as [x|]; cbn; [rewrite Nat.eqb_eq; split; [intros ->; reflexivity|intros [= ->]; reflexivity]|split; discriminate]. Qed.

Theorem rotate_global : forall T h A P node,
  rep h (Some A) P T -> NoDup (oaddrs h (Some A) T) -> In node (oaddrs h (Some A) T) -> node <> A ->
  (forall g, P = Some g -> ~ In g (oaddrs h (Some A) T)) ->
  let h' := hrotate h node in
  exists T' A', rep h' (Some A') P T' /\ ainorder h' (Some A') T' = ainorder h (Some A) T /\
    Permutation (oaddrs h' (Some A') T') (oaddrs h (Some A) T) /\
    (forall x, ~ In x (oaddrs h (Some A) T) -> P <> Some x -> nth_error h' x = nth_error h x) /\
    (A' = A \/ A' = node) /\
    (forall g gn, P = Some g -> nth_error h g = Some gn ->
       nth_error h' g = Some (if Nat.eqb A' A then gn else if is_ptr (h_l gn) A then set_l (Some A') gn else set_r (Some A') gn)) /\
    length h' = length h.
Proof.
  induction T as [|c i v x col l IHl r IHr]; intros h A P node R ND Hin NA PO h'; [discriminate R|].
  cbn [rep] in R. destruct R as (A0 & nA & EA & HnA & Hc & Hi & Hv & Hx & Hcol & HpA & Rl & Rr). inversion EA; subst A0; clear EA.
  cbn [oaddrs] in ND, Hin, PO. rewrite HnA in ND, Hin, PO.
  set (L := oaddrs h (h_l nA) l) in *. set (Rs := oaddrs h (h_r nA) r) in *.
  pose proof ND as ND0. apply NoDup_cons_iff in ND. destruct ND as [NAin ND']. destruct (NoDup_app_inv _ _ ND') as (NDL & NDR & DIS).
  destruct Hin as [Q|Hin]; [congruence|]. apply in_app_or in Hin.
  assert (AL : ~ In A L) by (intros Q; apply NAin; apply in_or_app; auto).
  assert (AR : ~ In A Rs) by (intros Q; apply NAin; apply in_or_app; auto).
  destruct Hin as [HinL|HinR].
  - (* node is in the left subtree *)
    destruct (h_l nA) as [al|] eqn:HlA; [|subst L; rewrite (rep_none _ _ _ Rl) in HinL; destruct HinL].
    destruct (rep_AN_inv _ _ _ _ Rl) as (lc & li & lv & lx & lcol & la & lb & nl & El & Hnl & Hcl & Hpl & Rla & Rlb & Hil & Hvl & Hxl & Hcoll).
    destruct (Nat.eq_dec node al) as [->|Nal].
    + (* node is the left child of A *)
      subst l. cbn [oaddrs] in L. subst L. rewrite Hnl in *.
      set (LA := oaddrs h (h_l nl) la) in *. set (LB := oaddrs h (h_r nl) lb) in *.
      assert (ND2 : NoDup (al :: A :: LA ++ LB ++ Rs)).
      { apply (Permutation_NoDup (l := A :: (al :: LA ++ LB) ++ Rs)); [|exact ND0]. cbn [app]. rewrite <- app_assoc. apply perm_swap. }
      assert (G2 : forall g, h_p nA = Some g -> ~ In g (al :: A :: LA ++ LB ++ Rs)).
      { intros g Hg Q. rewrite HpA in Hg. apply (PO g Hg). destruct Q as [<-|[<-|Q]]; [right; apply in_or_app; left; now left|now left|].
        right. apply in_or_app. rewrite app_assoc in Q. apply in_app_or in Q. destruct Q as [Q|Q]; [left; right; exact Q|right; exact Q]. }
      assert (OT : oaddrs h (Some A) (AN c i v x col (AN lc li lv lx lcol la lb) r) = A :: (al :: LA ++ LB) ++ Rs)
        by (cbn [oaddrs]; rewrite HnA, HlA; cbn [oaddrs]; rewrite Hnl; reflexivity).
      destruct (rotate_left_local h al A nl nA la lb r Hnl Hpl HnA HlA Rla Rlb Rr ND2 G2) as (R' & I' & O' & F' & PC' & LEN).
      subst h'. exists (lbl nl la (lbl nA lb r)), al. rewrite HpA in *. split; [exact R'|]. split.
      { rewrite I'. cbn [ainorder]. rewrite HnA, HlA. cbn [ainorder]. rewrite Hnl. rewrite <- !app_assoc. reflexivity. }
      split.
      { rewrite O', OT. fold LA LB Rs. cbn [app]. rewrite <- app_assoc.
        apply Permutation_sym. apply Permutation_trans with (al :: A :: LA ++ LB ++ Rs); [apply perm_swap|]. apply perm_skip. apply Permutation_middle. }
      split.
      { intros y Hy Py. rewrite OT in Hy. apply F'; [intros ->; apply Hy; right; apply in_or_app; left; now left|intros ->; apply Hy; now left| |exact Py].
        intros Q. apply Hy. right. apply in_or_app. left. right. apply in_or_app. right.
        destruct (h_r nl) as [c0|] eqn:Hr0; cbn [root_of_opt] in Q; [|destruct Q]. destruct Q as [<-|[]].
        subst LB. destruct lb; [cbn in Rlb; discriminate Rlb|]. cbn [oaddrs]. destruct Rlb as (? & ? & Q & Hq & _). inversion Q; subst. rewrite Hq. now left. }
      split; [right; reflexivity|]. split; [|exact LEN].
      intros g gn Hg Hgn. neq al A NA. apply (PC' g gn Hg Hgn).
    + (* deeper: rotate inside the left subtree *)
      assert (POl : forall g, Some A = Some g -> ~ In g (oaddrs h (Some al) l)) by (intros g [= <-]; exact AL).
      destruct (IHl h al (Some A) node Rl NDL HinL Nal POl) as (T' & al' & R' & I' & O' & F' & AA & PC' & LEN). fold h' in R', I', O', F', PC', LEN.
      assert (HnA' : exists nA', nth_error h' A = Some nA' /\ h_l nA' = Some al' /\ h_r nA' = h_r nA /\ h_p nA' = h_p nA /\
                      h_cls nA' = h_cls nA /\ h_id nA' = h_id nA /\ h_val nA' = h_val nA /\ h_ident nA' = h_ident nA /\ h_col nA' = h_col nA).
      { specialize (PC' A nA eq_refl HnA). destruct (Nat.eqb al' al) eqn:E.
        - apply Nat.eqb_eq in E. subst al'. exists nA. repeat split; auto.
        - rewrite HlA in PC'. cbn [is_ptr] in PC'. rewrite Nat.eqb_refl in PC'. eexists. split; [exact PC'|]. cbn. repeat split; reflexivity. }
      destruct HnA' as (nA' & HnA' & Hl' & Hr' & Hp' & F1 & F2 & F3 & F4 & F5).
      assert (agR : forall y, In y Rs -> nth_error h' y = nth_error h y).
      { intros y Hy. apply F'; [intros Q; exact (DIS y Q Hy)|intros [= ->]; contradiction]. }
      destruct (ainorder_frame r h h' (h_r nA) (Some A) agR Rr) as [IR OR].
      exists (AN c i v x col T' r), A. split.
      { cbn [rep]. exists A, nA'. rewrite F1, F2, F3, F4, F5, Hp', Hl', Hr'. repeat (split; [assumption||reflexivity|]).
        apply (rep_frame r h h'); [exact agR|exact Rr]. }
      split; [cbn [ainorder]; rewrite HnA', HnA, Hl', Hr', HlA, I', IR; reflexivity|].
      split; [cbn [oaddrs]; rewrite HnA', HnA, Hl', Hr', HlA, OR; apply perm_skip; apply Permutation_app_tail; exact O'|].
      split.
      { intros y Hy Py. cbn [oaddrs] in Hy. rewrite HnA, HlA in Hy. apply F'; [intros Q; apply Hy; right; apply in_or_app; auto|intros [= ->]; apply Hy; now left]. }
      split; [left; reflexivity|]. split; [|exact LEN].
      intros g gn Hg Hgn. rewrite Nat.eqb_refl. rewrite <- Hgn. apply F'; [intros Q; apply (PO g Hg); right; apply in_or_app; auto|].
      intros [= ->]. apply (PO g Hg). now left.
  - (* node is in the right subtree *)
    destruct (h_r nA) as [ar|] eqn:HrA; [|subst Rs; rewrite (rep_none _ _ _ Rr) in HinR; destruct HinR].
    destruct (rep_AN_inv _ _ _ _ Rr) as (rc & ri & rv & rx & rcol & ra & rb & nr & Er & Hnr & Hcr & Hpr & Rra & Rrb & Hir & Hvr & Hxr & Hcolr).
    assert (arR : In ar Rs) by (subst Rs r; cbn [oaddrs]; rewrite Hnr; now left).
    assert (NLA : is_ptr (h_l nA) ar = false).
    { destruct (h_l nA) as [al|] eqn:HlA; cbn [is_ptr]; [|reflexivity]. apply Nat.eqb_neq. intros ->.
      apply (DIS ar); [|exact arR]. subst L. destruct l; [cbn in Rl; discriminate Rl|]. cbn [oaddrs]. destruct Rl as (? & ? & Q & Hq & _). inversion Q; subst. rewrite Hq. now left. }
    destruct (Nat.eq_dec node ar) as [->|Nar].
    + (* node is the right child of A *)
      subst r. cbn [oaddrs] in Rs. subst Rs. rewrite Hnr in *.
      set (RA := oaddrs h (h_l nr) ra) in *. set (RB := oaddrs h (h_r nr) rb) in *.
      assert (ND2 : NoDup (ar :: A :: RB ++ RA ++ L)).
      { apply (Permutation_NoDup (l := A :: L ++ ar :: RA ++ RB)); [|exact ND0].
        apply Permutation_trans with (A :: ar :: RB ++ RA ++ L); [apply perm_skip|apply perm_swap].
        apply Permutation_trans with ((ar :: RA ++ RB) ++ L); [apply Permutation_app_comm|]. cbn [app]. apply perm_skip.
        rewrite <- app_assoc. apply Permutation_trans with (RA ++ L ++ RB); [apply Permutation_app_head; apply Permutation_app_comm|].
        apply Permutation_trans with ((RA ++ L) ++ RB); [rewrite app_assoc; reflexivity|]. apply Permutation_app_comm. }
      assert (G2 : forall g, h_p nA = Some g -> ~ In g (ar :: A :: RB ++ RA ++ L)).
      { intros g Hg Q. rewrite HpA in Hg. apply (PO g Hg). destruct Q as [<-|[<-|Q]]; [right; apply in_or_app; right; now left|now left|].
        right. apply in_or_app. apply in_app_or in Q. destruct Q as [Q|Q]; [right; right; apply in_or_app; auto|].
        apply in_app_or in Q. destruct Q as [Q|Q]; [right; right; apply in_or_app; auto|left; exact Q]. }
      assert (OT : oaddrs h (Some A) (AN c i v x col l (AN rc ri rv rx rcol ra rb)) = A :: L ++ ar :: RA ++ RB)
        by (cbn [oaddrs]; rewrite HnA, HrA; cbn [oaddrs]; rewrite Hnr; reflexivity).
      destruct (rotate_right_local h ar A nr nA rb ra l Hnr Hpr HnA HrA NLA Rrb Rra Rl ND2 G2) as (R' & I' & O' & F' & PC' & LEN).
      subst h'. exists (lbl nr (lbl nA l ra) rb), ar. rewrite HpA in *. split; [exact R'|]. split.
      { rewrite I'. cbn [ainorder]. rewrite HnA, HrA. cbn [ainorder]. rewrite Hnr. rewrite <- !app_assoc. reflexivity. }
      split.
      { rewrite O', OT. fold RA RB L. cbn [app]. apply Permutation_sym. apply Permutation_trans with (ar :: A :: L ++ RA ++ RB).
        - apply Permutation_trans with (A :: ar :: L ++ RA ++ RB); [apply perm_skip; apply Permutation_sym; apply Permutation_middle|apply perm_swap].
        - apply perm_skip. cbn [app]. apply perm_skip. rewrite <- app_assoc. reflexivity. }
      split.
      { intros y Hy Py. rewrite OT in Hy. apply F'; [intros ->; apply Hy; right; apply in_or_app; right; now left|intros ->; apply Hy; now left| |exact Py].
        intros Q. apply Hy. right. apply in_or_app. right. right. apply in_or_app. left.
        destruct (h_l nr) as [c0|] eqn:Hr0; cbn [root_of_opt] in Q; [|destruct Q]. destruct Q as [<-|[]].
        subst RA. destruct ra; [cbn in Rra; discriminate Rra|]. cbn [oaddrs]. destruct Rra as (? & ? & Q & Hq & _). inversion Q; subst. rewrite Hq. now left. }
      split; [right; reflexivity|]. split; [|exact LEN].
      intros g gn Hg Hgn. neq ar A NA. apply (PC' g gn Hg Hgn).
    + (* deeper: rotate inside the right subtree *)
      assert (POr : forall g, Some A = Some g -> ~ In g (oaddrs h (Some ar) r)) by (intros g [= <-]; exact AR).
      destruct (IHr h ar (Some A) node Rr NDR HinR Nar POr) as (T' & ar' & R' & I' & O' & F' & AA & PC' & LEN). fold h' in R', I', O', F', PC', LEN.
      assert (HnA' : exists nA', nth_error h' A = Some nA' /\ h_r nA' = Some ar' /\ h_l nA' = h_l nA /\ h_p nA' = h_p nA /\
                      h_cls nA' = h_cls nA /\ h_id nA' = h_id nA /\ h_val nA' = h_val nA /\ h_ident nA' = h_ident nA /\ h_col nA' = h_col nA).
      { specialize (PC' A nA eq_refl HnA). destruct (Nat.eqb ar' ar) eqn:E.
        - apply Nat.eqb_eq in E. subst ar'. exists nA. repeat split; auto.
        - rewrite NLA in PC'. eexists. split; [exact PC'|]. cbn. repeat split; reflexivity. }
      destruct HnA' as (nA' & HnA' & Hr' & Hl' & Hp' & F1 & F2 & F3 & F4 & F5).
      assert (agL : forall y, In y L -> nth_error h' y = nth_error h y).
      { intros y Hy. apply F'; [intros Q; exact (DIS y Hy Q)|intros [= ->]; contradiction]. }
      destruct (ainorder_frame l h h' (h_l nA) (Some A) agL Rl) as [IL OL].
      exists (AN c i v x col l T'), A. split.
      { cbn [rep]. exists A, nA'. rewrite F1, F2, F3, F4, F5, Hp', Hl', Hr'. repeat (split; [assumption||reflexivity|]). split; [|exact R'].
        apply (rep_frame l h h'); [exact agL|exact Rl]. }
      split; [cbn [ainorder]; rewrite HnA', HnA, Hl', Hr', HrA, I', IL; reflexivity|].
      split; [cbn [oaddrs]; rewrite HnA', HnA, Hl', Hr', HrA, OL; apply perm_skip; apply Permutation_app_head; exact O'|].
      split.
      { intros y Hy Py. cbn [oaddrs] in Hy. rewrite HnA, HrA in Hy. apply F'; [intros Q; apply Hy; right; apply in_or_app; auto|intros [= ->]; apply Hy; now left]. }
      split; [left; reflexivity|]. split; [|exact LEN].
      intros g gn Hg Hgn. rewrite Nat.eqb_refl. rewrite <- Hgn. apply F'; [intros Q; apply (PO g Hg); right; apply in_or_app; auto|].
      intros [= ->]. apply (PO g Hg). now left.
Qed.
