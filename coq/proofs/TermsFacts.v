(* Term analysis (theories/Terms.v, theories/Util.v): like-terms relation, order-invariance of has_like_terms, the term
   predicates never reach an assert without '=', make_term / get_term_ex inverse, factor table. *)
From Coq Require Import List NArith ZArith QArith Bool Lia Arith Permutation.
From Mathy Require Import Num Expr Printer Util Terms.
From MathyProofs Require Import ExprFacts.
Import ListNotations.
Local Open Scope nat_scope.

(* ---------- terms_are_like: symmetric, reflexive on terms ---------- *)
Lemma Qeq_bool_comm x y : Qeq_bool x y = Qeq_bool y x.
Proof.
  destruct (Qeq_bool x y) eqn:A, (Qeq_bool y x) eqn:B; auto.
  - apply Qeq_bool_iff in A. symmetry in A. apply Qeq_bool_iff in A. congruence.
  - apply Qeq_bool_iff in B. symmetry in B. apply Qeq_bool_iff in B. congruence.
Qed.
Lemma num_eqb_comm a b : num_eqb a b = num_eqb b a.
Proof. unfold num_eqb. destruct (qv a), (qv b); auto. apply Qeq_bool_comm. Qed.
Lemma onum_eqb_comm a b : onum_eqb a b = onum_eqb b a.
Proof. destruct a, b; simpl; auto. apply num_eqb_comm. Qed.
Lemma vars_eqb_comm a b : vars_eqb a b = vars_eqb b a.
Proof. unfold vars_eqb. destruct (list_eq_dec N.eq_dec a b), (list_eq_dec N.eq_dec b a); congruence. Qed.
Lemma vars_eqb_refl a : vars_eqb a a = true.
Proof. unfold vars_eqb. destruct (list_eq_dec N.eq_dec a a); congruence. Qed.

Theorem like_sym one two : terms_are_like_res one two = terms_are_like_res two one.
Proof.
  destruct one as [a|], two as [b|]; try reflexivity. unfold terms_are_like_res.
  destruct (tr_vars a) as [|x la] eqn:Ea, (tr_vars b) as [|y lb] eqn:Eb; try reflexivity.
  rewrite (Nat.eqb_sym (length (y :: lb))), (vars_eqb_comm (sort_vars (y :: lb))), (onum_eqb_comm (tr_exp b)). reflexivity.
Qed.
Definition finite_exp (t:termres) : Prop := match tr_exp t with Some k => qv k <> None | None => True end.
Theorem like_refl t : finite_exp t -> terms_are_like_res (Some t) (Some t) = true.
Proof.
  unfold finite_exp. intros F. unfold terms_are_like_res. destruct (tr_vars t) as [|x l]; auto.
  rewrite Nat.eqb_refl, vars_eqb_refl. cbn [negb]. destruct (tr_exp t) as [k|]; simpl; auto.
  unfold num_eqb. destruct (qv k); [|contradiction]. apply Qeq_bool_iff. reflexivity.
Qed.

(* ---------- make_term and get_term_ex are inverse ---------- *)
Definition norm_coef (c:num) (v:option N) : option num := match v with Some _ => if num_eqb c one then None else Some c | None => Some c end.
Theorem make_term_inverse c v e t : make_term c v e = Some t -> get_term_ex false t = Some (mk (norm_coef c v) v e).
Proof.
  unfold make_term, norm_coef. destruct v as [x|], e as [k|]; try discriminate.
  - destruct (num_eqb c one); intros [= <-]; reflexivity.
  - destruct (num_eqb c one); intros [= <-]; reflexivity.
  - intros [= <-]. reflexivity.
Qed.
Theorem make_term_defined c v e : (v = None -> e = None) -> exists t, make_term c v e = Some t.
Proof. unfold make_term. intros H. destruct v as [x|], e as [k|]; [destruct (num_eqb c one); eauto|destruct (num_eqb c one); eauto|specialize (H eq_refl); discriminate|eauto]. Qed.

(* ---------- the term predicates never reach an assert on an expression without '=' ---------- *)
Fixpoint noeq (e:expr) : bool := match e with Bin k l r => negb (bk_eqb k KEq) && noeq l && noeq r | Un _ c => noeq c | _ => true end.
Definition is_binop (e:expr) : bool := match e with Bin _ _ _ => true | _ => false end.
Definition ne (e:expr) : Prop := match e with Bin KEq _ _ => False | _ => True end.
(* in the in-order list a leaf is followed by a binary node (the ancestor it is the last left descendant of) *)
Fixpoint chain_ok (l:list expr) : bool :=
  match l with a :: r => (match r with b :: _ => if is_leaf_e a then is_binop b else true | [] => true end) && chain_ok r | [] => true end.
Lemma chain_app_bin l1 x l2 : chain_ok l1 = true -> is_binop x = true -> chain_ok (x :: l2) = true -> chain_ok (l1 ++ x :: l2) = true.
Proof.
  intros H1 Hx H2. induction l1 as [|a l1 IH]; [exact H2|].
  cbn [app]. cbn [chain_ok] in *. apply andb_true_iff in H1. destruct H1 as [Ha Hl]. apply andb_true_iff. split; [|apply IH; exact Hl].
  destruct l1 as [|b l1']; cbn [app]; [destruct (is_leaf_e a); auto|exact Ha].
Qed.
Lemma chain_inorder e : chain_ok (inorder_nodes e) = true.
Proof.
  induction e as [n|v|u c IH|k l IHl r IHr]; cbn [inorder_nodes]; try reflexivity.
  - cbn [chain_ok]. rewrite IH. destruct (inorder_nodes c); reflexivity.
  - apply chain_app_bin; [exact IHl|reflexivity|]. cbn [chain_ok]. rewrite IHr. destruct (inorder_nodes r); reflexivity.
Qed.
Lemma ne_inorder e : noeq e = true -> Forall ne (inorder_nodes e).
Proof.
  induction e as [n|v|u c IH|k l IHl r IHr]; cbn [inorder_nodes noeq]; intros H.
  - repeat constructor.
  - repeat constructor.
  - constructor; [exact I|auto].
  - apply andb_true_iff in H. destruct H as [H Hr]. apply andb_true_iff in H. destruct H as [Hk Hl].
    apply Forall_app. split; [auto|]. constructor; [destruct k; try exact I; discriminate|auto].
Qed.

Definition Inv (cur:option expr) (rest:list expr) : Prop :=
  match cur with Some c => chain_ok (c :: rest) = true /\ Forall ne (c :: rest) | None => rest = [] end.
Definition meas (cur:option expr) (rest:list expr) : nat := length rest + match cur with Some _ => 1 | None => 0 end.
Ltac mlia := unfold meas in *; cbn [length] in *; lia.
Lemma inv_pop c rest : Inv (Some c) rest -> Inv (fst (pop rest)) (snd (pop rest)) /\ meas (fst (pop rest)) (snd (pop rest)) < meas (Some c) rest.
Proof.
  intros [H1 H2]. destruct rest as [|x r]; cbn [pop fst snd Inv meas length]; [split; [reflexivity|mlia]|].
  split; [|mlia]. split.
  - cbn [chain_ok] in H1. apply andb_true_iff in H1. destruct H1 as [_ H1]. exact H1.
  - inversion H2; assumption.
Qed.
Lemma inv_pop_any cur rest : Inv cur rest -> Inv (fst (pop rest)) (snd (pop rest)) /\ meas (fst (pop rest)) (snd (pop rest)) <= meas cur rest.
Proof.
  destruct cur as [c|]; intros H.
  - destruct (inv_pop c rest H) as [A B]. split; [exact A|mlia].
  - cbn [Inv] in H. subst rest. cbn. split; [reflexivity|mlia].
Qed.

Lemma take_leaf_spec test cur rest : (forall x, test x = true -> is_leaf_e x = true) -> Inv cur rest ->
  match take_leaf test cur rest with
  | inl r => r = GFalse
  | inr (t, cur', rest') => Inv cur' rest' /\ ((t = None /\ cur' = cur /\ rest' = rest) \/ (t <> None /\ meas cur' rest' < meas cur rest))
  end.
Proof.
  intros Ht HI. unfold take_leaf. destruct cur as [c|]; [|split; [exact HI|left; auto]].
  destruct (test c) eqn:Tc; [|split; [exact HI|left; auto]].
  pose proof (inv_pop c rest HI) as [HI1 HM1]. destruct (pop rest) as [c1 r1] eqn:P. cbn [fst snd] in *.
  destruct c1 as [x|].
  - (* x follows the leaf c: a binary node that is not '=' *)
    assert (is_binop x = true /\ ne x) as [Bx Nx].
    { destruct rest as [|y r]; [discriminate P|]. cbn [pop] in P. inversion P; subst y r1. destruct HI as [C F].
      cbn [chain_ok] in C. rewrite (Ht c Tc) in C. apply andb_true_iff in C. destruct C as [C _]. split; [exact C|].
      inversion F as [|? ? _ F']; subst. inversion F'; assumption. }
    destruct x as [| | |k l r]; try discriminate Bx. destruct k; cbn [is_addsub_e is_mdp is_pow_e negb]; try reflexivity; try contradiction.
    + (* mul *) pose proof (inv_pop_any (Some (Bin KMul l r)) r1 HI1) as [HI2 HM2]. destruct (pop r1) as [c2 r2]. cbn [fst snd] in *.
      split; [exact HI2|right; split; [discriminate|mlia]].
    + (* div *) pose proof (inv_pop_any (Some (Bin KDiv l r)) r1 HI1) as [HI2 HM2]. destruct (pop r1) as [c2 r2]. cbn [fst snd] in *.
      split; [exact HI2|right; split; [discriminate|mlia]].
    + (* pow *) split; [exact HI1|right; split; [discriminate|mlia]].
  - split; [exact HI1|right; split; [discriminate|mlia]].
Qed.
Lemma take_exp_spec cur rest : Inv cur rest ->
  let '(t, cur', rest') := take_exp cur rest in
  Inv cur' rest' /\ ((t = None /\ cur' = cur /\ rest' = rest) \/ (meas cur' rest' < meas cur rest)).
Proof.
  intros HI. unfold take_exp. destruct cur as [c|]; [|split; [exact HI|left; auto]].
  destruct c as [| | |k l r]; try (split; [exact HI|left; auto]). destruct k; try (split; [exact HI|left; auto]).
  pose proof (inv_pop _ rest HI) as [HI1 HM1]. destruct (pop rest) as [e r1]. cbn [fst snd] in *.
  pose proof (inv_pop_any e r1 HI1) as [HI2 HM2]. destruct (pop r1) as [c2 r2]. cbn [fst snd] in *.
  split; [exact HI2|right; mlia].
Qed.

Definition ok_res (r:gst_res) : Prop := r = GFalse \/ exists l, r = GTerms l.
Lemma gst_total : forall fuel cur rest acc, Inv cur rest -> meas cur rest < fuel -> ok_res (gst fuel cur rest acc).
Proof.
  induction fuel as [|f IH]; intros cur rest acc HI HM; [mlia|]. cbn [gst].
  destruct cur as [c|]; [|right; eauto].
  destruct (is_negate_e c) eqn:Ng.
  - pose proof (inv_pop c rest HI) as [HI1 HM1]. destruct (pop rest) as [c' r']. cbn [fst snd] in *. apply IH; [exact HI1|mlia].
  - pose proof (take_leaf_spec is_const_e (Some c) rest (fun x H => ltac:(destruct x; try discriminate H; reflexivity)) HI) as S1.
    destruct (take_leaf is_const_e (Some c) rest) as [r|[[tc cur1] rest1]]; [left; exact S1|]. destruct S1 as [HI1 S1].
    pose proof (take_leaf_spec is_var_e cur1 rest1 (fun x H => ltac:(destruct x; try discriminate H; reflexivity)) HI1) as S2.
    destruct (take_leaf is_var_e cur1 rest1) as [r|[[tv cur2] rest2]]; [left; exact S2|]. destruct S2 as [HI2 S2].
    pose proof (take_exp_spec cur2 rest2 HI2) as S3. destruct (take_exp cur2 rest2) as [[te cur3] rest3]. destruct S3 as [HI3 S3].
    assert (meas cur3 rest3 <= meas (Some c) rest) as LE.
    { destruct S1 as [(_ & -> & ->)|[_ S1]], S2 as [(_ & -> & ->)|[_ S2]], S3 as [(_ & -> & ->)|S3]; mlia. }
    destruct tc as [x|].
    { apply IH; [exact HI3|]. destruct S1 as [(Q & _)|[_ S1]]; [discriminate Q|].
      destruct S2 as [(_ & -> & ->)|[_ S2]], S3 as [(_ & -> & ->)|S3]; mlia. }
    destruct tv as [x|].
    { apply IH; [exact HI3|]. destruct S2 as [(Q & _)|[_ S2]]; [discriminate Q|].
      destruct S1 as [(_ & -> & ->)|[_ S1]], S3 as [(_ & -> & ->)|S3]; mlia. }
    destruct te as [x|].
    { apply IH; [exact HI3|]. destruct S3 as [(Q & _)|S3]; [discriminate Q|].
      destruct S1 as [(_ & -> & ->)|[_ S1]], S2 as [(_ & -> & ->)|[_ S2]]; mlia. }
    destruct cur3 as [m|]; [|left; reflexivity]. destruct (is_mul_e m); [|left; reflexivity].
    pose proof (inv_pop m rest3 HI3) as [HI4 HM4]. destruct (pop rest3) as [c' r']. cbn [fst snd] in *. apply IH; [exact HI4|mlia].
Qed.
Theorem get_sub_terms_total e : noeq e = true -> ok_res (get_sub_terms e).
Proof.
  intros H. unfold get_sub_terms. pose proof (chain_inorder e) as C. pose proof (ne_inorder e H) as F.
  destruct (inorder_nodes e) as [|c rest] eqn:E; cbn [pop length].
  - apply gst_total; [reflexivity|cbn; mlia].
  - apply gst_total; [split; assumption|cbn [meas length]; mlia].
Qed.
Theorem is_simple_term_total e : noeq e = true -> is_simple_term e <> BAssert /\ is_simple_term e <> BFuel.
Proof.
  intros H. unfold is_simple_term. destruct (get_sub_terms_total e H) as [->|(l & ->)]; [split; discriminate|].
  assert (forall ts seen, simple_loop ts seen <> BAssert /\ simple_loop ts seen <> BFuel) as G.
  { induction ts as [|[[c v] x] r IH]; intros seen; cbn [simple_loop]; [split; discriminate|].
    destruct c; [destruct (in_strs s_coefficient seen); [split; discriminate|]|];
      (destruct v, x; try apply IH; (destruct (str_of _); [|split; discriminate]); (destruct (str_of _); [|split; discriminate]);
       (destruct (in_strs _ _); [split; discriminate|apply IH])). }
  apply G.
Qed.
Theorem is_preferred_total root p e : subtree root p = Some e -> noeq e = true ->
  is_preferred_term_form root p <> BAssert /\ is_preferred_term_form root p <> BFuel.
Proof.
  intros Hs H. unfold is_preferred_term_form. rewrite Hs. destruct (is_simple_term_total e H) as [A B].
  destruct (is_simple_term e) as [[|]| | |]; try (split; discriminate); try contradiction.
  destruct (existsb _ _); split; discriminate.
Qed.

(* ---------- has_like_terms does not depend on the order or the grouping of the added terms ---------- *)
Fixpoint addends (e:expr) : list expr := match e with Bin KAdd l r => addends l ++ addends r | _ => [e] end.
Definition okey (node:expr) (par:option expr) : list key := match get_term_ctx node par with Some t => [(tr_vars t, tr_exp t)] | None => [] end.
(* the keys of the term nodes below e, in the order get_terms lists them *)
Fixpoint K (e:expr) : list key :=
  match e with
  | Bin k l r => K l ++ (if is_addsub_e e then (if is_addsub_e l then [] else okey l (Some e)) ++ (if is_addsub_e r then [] else okey r (Some e)) else []) ++ K r
  | Un _ c => K c
  | _ => [] end.
Lemma parent_snoc root pre d : parent root (pre ++ [d]) = subtree root pre.
Proof. unfold parent, parent_path. rewrite rev_unit, rev_involutive. reflexivity. Qed.
Lemma term_keys_app root a b : term_keys root (a ++ b) = term_keys root a ++ term_keys root b.
Proof. unfold term_keys. apply flat_map_app. Qed.
Lemma term_keys_one root pre d x e : subtree root pre = Some e -> subtree root (pre ++ [d]) = Some x -> term_keys root [pre ++ [d]] = okey x (Some e).
Proof. intros He Hx. unfold term_keys, get_term, okey. cbn [flat_map]. rewrite Hx, parent_snoc, He, app_nil_r. reflexivity. Qed.
Lemma bridge root : forall e pre, subtree root pre = Some e -> term_keys root (flat_map (term_children root) (inorder_paths e pre)) = K e.
Proof.
  induction e as [n|v|u c IH|k l IHl r IHr]; intros pre Hs; cbn [inorder_paths flat_map K].
  - unfold term_children. rewrite Hs. reflexivity.
  - unfold term_children. rewrite Hs. reflexivity.
  - unfold term_children at 1. rewrite Hs. cbn [app]. apply IH. rewrite subtree_app, Hs. reflexivity.
  - assert (subtree root (pre ++ [DL]) = Some l) as Hl by (rewrite subtree_app, Hs; reflexivity).
    assert (subtree root (pre ++ [DR]) = Some r) as Hr by (rewrite subtree_app, Hs; reflexivity).
    rewrite flat_map_app. cbn [flat_map]. rewrite !term_keys_app, (IHl _ Hl), (IHr _ Hr). f_equal. f_equal.
    unfold term_children. rewrite Hs. destruct (is_addsub_e (Bin k l r)); [|reflexivity].
    rewrite term_keys_app. f_equal.
    + destruct (is_addsub_e l); [reflexivity|]. apply (term_keys_one root pre DL l _ Hs Hl).
    + destruct (is_addsub_e r); [reflexivity|]. apply (term_keys_one root pre DR r _ Hs Hr).
Qed.

Lemma key_eqb_comm a b : key_eqb a b = key_eqb b a.
Proof. unfold key_eqb. now rewrite vars_eqb_comm, onum_eqb_comm. Qed.
Lemma existsb_perm {A} (f:A -> bool) l l' : Permutation l l' -> existsb f l = existsb f l'.
Proof. induction 1; cbn [existsb]; try congruence. destruct (f x), (f y); reflexivity. Qed.
Lemma has_dup_perm l l' : Permutation l l' -> has_dup l = has_dup l'.
Proof.
  induction 1 as [|x l l' P IH|x y l|l l' l'' P1 IH1 P2 IH2]; cbn [has_dup existsb]; try congruence.
  - rewrite IH, (existsb_perm _ _ _ P). reflexivity.
  - rewrite (key_eqb_comm y x). destruct (key_eqb x y), (existsb (key_eqb y) l), (existsb (key_eqb x) l), (has_dup l); reflexivity.
Qed.
Lemma has_dup_small l : length l <= 1 -> has_dup l = false.
Proof. destruct l as [|a [|b l]]; cbn; auto; lia. Qed.

Definition A0 : expr := Bin KAdd (Const (NInt 0)) (Const (NInt 0)).
Lemma okey_addsub_parent x e e' : is_addsub_e e = true -> is_addsub_e e' = true -> okey x (Some e) = okey x (Some e').
Proof. destruct e as [| | |[] ? ?], e' as [| | |[] ? ?]; try discriminate; reflexivity. Qed.
Definition G (x:expr) : list key := (if is_addsub_e x then [] else okey x (Some A0)) ++ K x.
Lemma G_perm : forall x, Permutation (G x) (flat_map G (addends x)).
Proof.
  assert (forall x, addends x = [x] -> Permutation (G x) (flat_map G (addends x))) as Single.
  { intros x ->. cbn [flat_map]. rewrite app_nil_r. reflexivity. }
  induction x as [n|v|u c IH|k l IHl r IHr]; try (apply Single; reflexivity).
  destruct k; try (apply Single; reflexivity).
  cbn [addends]. rewrite flat_map_app. apply Permutation_trans with (G l ++ G r); [|apply Permutation_app; assumption].
  unfold G at 1. cbn [is_addsub_e K app].
  rewrite (okey_addsub_parent l (Bin KAdd l r) A0 eq_refl eq_refl), (okey_addsub_parent r (Bin KAdd l r) A0 eq_refl eq_refl).
  unfold G. set (a := if is_addsub_e l then [] else okey l (Some A0)). set (b := if is_addsub_e r then [] else okey r (Some A0)).
  apply Permutation_trans with ((K l ++ a) ++ (b ++ K r)); [rewrite <- !app_assoc; reflexivity|].
  apply Permutation_app_tail. apply Permutation_app_comm.
Qed.

Lemma fc_bin k l r b b' : free_consts (Bin k l r) b = free_consts (Bin k l r) b'. Proof. reflexivity. Qed.
Lemma fc_addends : forall x, free_consts x true = list_sum (map (fun a => free_consts a true) (addends x)).
Proof.
  assert (forall x, addends x = [x] -> free_consts x true = list_sum (map (fun a => free_consts a true) (addends x))) as Single.
  { intros x ->. cbn. lia. }
  induction x as [n|v|u c IH|k l IHl r IHr]; try (apply Single; reflexivity).
  destruct k; try (apply Single; reflexivity).
  cbn [addends]. rewrite map_app, list_sum_app, <- IHl, <- IHr. reflexivity.
Qed.
Lemma list_sum_perm l l' : Permutation l l' -> list_sum l = list_sum l'.
Proof. induction 1; unfold list_sum in *; cbn [fold_right]; lia. Qed.

Theorem has_like_terms_perm e1 e2 : is_k KAdd (Some e1) = true -> is_k KAdd (Some e2) = true ->
  Permutation (addends e1) (addends e2) -> has_like_terms e1 [] = has_like_terms e2 [].
Proof.
  assert (forall e, is_k KAdd (Some e) = true ->
            has_like_terms e [] = has_dup (flat_map G (addends e)) || Nat.leb 2 (list_sum (map (fun a => free_consts a true) (addends e)))) as Char.
  { intros e He. destruct e as [| | |k l r]; try discriminate He. destruct k; try discriminate He.
    unfold has_like_terms. cbn [subtree]. f_equal.
    - rewrite <- (has_dup_perm _ _ (G_perm (Bin KAdd l r))). unfold G. cbn [is_addsub_e app].
      unfold get_terms. cbn [is_mul_e app]. rewrite <- (bridge (Bin KAdd l r) (Bin KAdd l r) [] eq_refl).
      destruct (flat_map (term_children (Bin KAdd l r)) (inorder_paths (Bin KAdd l r) [])) eqn:E; [|reflexivity].
      rewrite has_dup_small; [reflexivity|]. unfold term_keys. cbn [flat_map]. destruct (get_term _ _); cbn; lia.
    - rewrite <- fc_addends. reflexivity. }
  intros H1 H2 P. rewrite (Char e1 H1), (Char e2 H2). f_equal.
  - apply has_dup_perm. apply Permutation_flat_map. exact P.
  - f_equal. apply list_sum_perm. apply Permutation_map. exact P.
Qed.
