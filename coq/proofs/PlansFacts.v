(* The object-level plans of Plans.v: every plan is linear (no old node object is used twice), and it stands for exactly the tree
   the expression-level model (Rules.v) computes. *)
From Coq Require Import List NArith ZArith QArith Bool Lia.
From Mathy Require Import Num Expr Util Rules Plans.
From MathyProofs Require Import ExprFacts.
Import ListNotations.

Lemma obind_some {A B} (o:option A) (f:A -> option B) v : obind o f = Some v -> exists a, o = Some a /\ f a = Some v.
Proof. destruct o as [a|]; [|discriminate]. intros H. exists a. split; [reflexivity|exact H]. Qed.
Lemma pconst_some f k pl : pconst f k = Some pl -> exists n, f = FNum n /\ pl = k n.
Proof. destruct f; try discriminate. intros [= <-]. eauto. Qed.
Lemma has_some o pl v : has o pl = Some v -> v = pl /\ exists e, o = Some e.
Proof. destruct o; [|discriminate]. intros [= <-]. eauto. Qed.

Ltac inv1 :=
  match goal with
  | H : obind _ _ = Some _ |- _ => apply obind_some in H; let a := fresh "a" in let E := fresh "E" in destruct H as (a & E & H)
  | H : pconst _ _ = Some _ |- _ => apply pconst_some in H; let n := fresh "n" in let E := fresh "E" in destruct H as (n & E & H); subst
  | H : has _ _ = Some _ |- _ => apply has_some in H; let E := fresh "E" in destruct H as (H & E); subst
  | H : at_node _ _ = Some _ |- _ => unfold at_node in H
  | H : Some _ = Some _ |- _ => inversion H; subst; clear H
  | H : (if ?c then _ else _) = Some _ |- _ => destruct c eqn:?; try discriminate H
  | H : None = Some _ |- _ => discriminate H
  end.

Theorem plans_linear r root p q pl : rule_plan root p r = Some (q, pl) -> linearb pl = true.
Proof.
  destruct r; cbn [rule_plan]; intros H.
  - unfold assoc_plan, at_node in H. destruct (parent_path p) as [[q0 d]|]; [|inversion H; reflexivity].
    destruct (subtree root p) as [[| | |? ? ?]|]; try (inversion H; reflexivity).
    destruct (parent root p) as [[| | |? ? ?]|]; try (inversion H; reflexivity). destruct d; inversion H; reflexivity.
  - unfold comm_plan, at_node in H. destruct (subtree root p) as [[| | |k a b]|]; try discriminate.
    destruct k; try (inversion H; reflexivity); destruct a as [| | |[] ? ?]; inversion H; reflexivity.
  - unfold const_plan in H. destruct (const_type root p) as [[[arr x] y]|]; [|discriminate]. destruct (subtree root p) as [n|]; [|discriminate].
    destruct arr; repeat inv1; try reflexivity;
      repeat match goal with H : match ?x with _ => _ end = Some _ |- _ => destruct x; try discriminate H end; repeat inv1; reflexivity.
  - unfold df_plan in H. destruct (df_type root p) as [[[pos lt] rt]|]; [|discriminate]. destruct (factor_add_terms_ex lt rt) as [f|]; [|discriminate].
    destruct (make_term (best f) (f_var f) (f_exp f)), (make_term (f_left f) (l_var f) (l_exp f)), (make_term (f_right f) (r_var f) (r_exp f)); try discriminate.
    destruct pos; repeat inv1; reflexivity.
  - unfold dm_plan, all_new, at_node in H. destruct (dm_apply root p) as [[r' ?]|]; [|discriminate]. destruct (subtree r' p); inversion H; reflexivity.
  - unfold mi_plan, all_new, at_node in H. destruct (mi_apply root p) as [[r' ?]|]; [|discriminate]. destruct (subtree r' p); inversion H; reflexivity.
  - unfold rs_plan in H. destruct (rs_type root p) as [op|]; [|discriminate]. destruct (subtree root p) as [[| | |k l r]|]; try discriminate.
    destruct op; repeat inv1; try reflexivity;
      repeat match goal with H : match ?x with _ => _ end = Some _ |- _ => destruct x; try discriminate H end; repeat inv1; reflexivity.
  - unfold vm_plan in H. destruct (vm_type root p) as [[[pos lt] rt]|]; [|discriminate]. destruct (t_var lt); [|discriminate].
    destruct pos, (t_coef lt), (t_coef rt); repeat inv1; reflexivity.
  - unfold bm_plan in H. destruct (bm_apply root p) as [[r' ?]|]; inversion H; reflexivity.
Qed.

(* except for the rotation, the top of every plan is fresh or the rewritten node's own object *)
Theorem plans_top_ok r root p q pl : r <> RAssoc -> rule_plan root p r = Some (q, pl) -> top_ok pl = true.
Proof.
  intros NR. destruct r; cbn [rule_plan]; intros H.
  - congruence.
  - unfold comm_plan, at_node in H. destruct (subtree root p) as [[| | |k a b]|]; try discriminate.
    destruct k; try (inversion H; reflexivity); destruct a as [| | |[] ? ?]; inversion H; reflexivity.
  - unfold const_plan in H. destruct (const_type root p) as [[[arr x] y]|]; [|discriminate]. destruct (subtree root p) as [n|]; [|discriminate].
    destruct arr; repeat inv1; try reflexivity;
      repeat match goal with H : match ?x with _ => _ end = Some _ |- _ => destruct x; try discriminate H end; repeat inv1; reflexivity.
  - unfold df_plan in H. destruct (df_type root p) as [[[pos lt] rt]|]; [|discriminate]. destruct (factor_add_terms_ex lt rt) as [f|]; [|discriminate].
    destruct (make_term (best f) (f_var f) (f_exp f)), (make_term (f_left f) (l_var f) (l_exp f)), (make_term (f_right f) (r_var f) (r_exp f)); try discriminate.
    destruct pos; repeat inv1; reflexivity.
  - unfold dm_plan, all_new, at_node in H. destruct (dm_apply root p) as [[r' ?]|]; [|discriminate]. destruct (subtree r' p); inversion H; reflexivity.
  - unfold mi_plan, all_new, at_node in H. destruct (mi_apply root p) as [[r' ?]|]; [|discriminate]. destruct (subtree r' p); inversion H; reflexivity.
  - unfold rs_plan in H. destruct (rs_type root p) as [op|]; [|discriminate]. destruct (subtree root p) as [[| | |k l r]|]; try discriminate.
    destruct op; repeat inv1; try reflexivity;
      repeat match goal with H : match ?x with _ => _ end = Some _ |- _ => destruct x; try discriminate H end; repeat inv1; reflexivity.
  - unfold vm_plan in H. destruct (vm_type root p) as [[[pos lt] rt]|]; [|discriminate]. destruct (t_var lt); [|discriminate].
    destruct pos, (t_coef lt), (t_coef rt); repeat inv1; reflexivity.
  - unfold bm_plan in H. destruct (bm_apply root p) as [[r' ?]|]; inversion H; reflexivity.
Qed.


(* ---- a plan stands for the tree the expression-level model computes ---- *)
Lemma sub_L n q : subtree n (DL :: q) = match lft n with Some c => subtree c q | None => None end.
Proof. destruct n; reflexivity. Qed.
Lemma sub_R n q : subtree n (DR :: q) = match rgt n with Some c => subtree c q | None => None end.
Proof. destruct n; reflexivity. Qed.
Lemma replace_self : forall q root a, subtree root q = Some a -> replace root q a = root.
Proof.
  induction q as [|d q IH]; intros root a H.
  - cbn in *. congruence.
  - destruct root as [| |u c|k l r]; destruct d; cbn in *; try discriminate; f_equal; auto.
Qed.

Ltac cases A := repeat (cbn [rbind fconst pconst obind at_node] in *; match type of A with
  | context[match ?e with _ => _ end] => is_var e; destruct e; try discriminate A
  | context[if ?c then _ else _] => destruct c eqn:?; try discriminate A
  | context[fold_bin ?k ?x ?y] => destruct (fold_bin k x y); try discriminate A
  end); cbn [rbind fconst pconst obind at_node] in *.
Definition matches (root:expr) (p:path) (r:rule) (z:expr*path) : Prop :=
  exists q pl at_ e, rule_plan root p r = Some (q, pl) /\ subtree root q = Some at_ /\ erasep at_ pl = Some e /\ fst z = replace root q e.

Ltac kids := repeat (cbn [olft orgt get rbind obind has]; match goal with
  | |- context[lft ?x] => is_var x; destruct (lft x) eqn:?
  | |- context[rgt ?x] => is_var x; destruct (rgt x) eqn:?
  end); cbn [olft orgt get rbind obind has].
Ltac fin Hn := eexists _, _, _, _; split; [reflexivity|]; split; [exact Hn|]; split; [|reflexivity];
  cbn [erasep];
  repeat (first [rewrite sub_L | rewrite sub_R | match goal with H : lft _ = Some _ |- _ => rewrite H | H : rgt _ = Some _ |- _ => rewrite H end]);
  cbn [subtree]; reflexivity.
Theorem plan_matches r root p z : can_apply root p r = true -> apply root p r = ROk z -> matches root p r z.
Proof.
  unfold can_apply, matches. destruct (node root p) as [n|] eqn:Hn; [|discriminate]. unfold node in Hn. intros _.
  destruct r; cbn [apply rule_plan]; intros A.
  - (* associative swap *)
    unfold assoc_apply in A. unfold assoc_plan. unfold node in *. rewrite Hn in *.
    destruct (parent_path p) as [[q d]|] eqn:PP.
    2: { inversion A; subst z. exists p, (PKeep []), n, n. repeat split; auto. cbn [fst]. symmetry. now apply replace_self. }
    pose proof (parent_path_app _ _ _ PP) as ->. unfold par, parent in *. rewrite PP in *.
    rewrite subtree_app in Hn. destruct (subtree root q) as [pe|] eqn:Hq; [|discriminate].
    destruct n as [| | |kn a b]; try (inversion A; subst z; eexists _, (PKeep []), _, _; split; [reflexivity|]; split; [rewrite subtree_app, Hq; exact Hn|];
                                      split; [reflexivity|]; cbn [fst]; symmetry; apply replace_self; rewrite subtree_app, Hq; exact Hn).
    destruct pe as [| | |kp pl pr]; try (inversion A; subst z; eexists _, (PKeep []), _, _; split; [reflexivity|]; split; [rewrite subtree_app, Hq; exact Hn|];
                                      split; [reflexivity|]; cbn [fst]; symmetry; apply replace_self; rewrite subtree_app, Hq; exact Hn).
    cbv beta iota in A. inversion A; subst z. cbn [fst]. destruct d; cbn in Hn; inversion Hn; subst; eexists _, _, _, _; (split; [reflexivity|]); (split; [exact Hq|]); split; reflexivity.
  - (* commutative swap *)
    unfold comm_apply in A. unfold comm_plan. unfold node in *. rewrite Hn in *.
    destruct n as [| | |k a b]; try discriminate. inversion A; subst z. cbn [fst].
    destruct k; try (fin Hn); destruct a as [| | |[] a1 a2]; fin Hn.
  - (* constant arithmetic *)
    unfold const_apply in A. unfold const_plan. unfold node in *. rewrite Hn in *.
    destruct (const_type root p) as [[[arr x] y]|]; [|discriminate].
    revert A. destruct arr; kids; intros A; try discriminate; cases A; inversion A; subst z; cbn [fst].
    all: fin Hn.
  - (* factor out *)
    unfold df_apply in A. unfold df_plan. unfold node in *. rewrite Hn in *.
    destruct (df_type root p) as [[[pos lt] rt]|]; [|discriminate]. destruct (factor_add_terms_ex lt rt) as [f|]; [|discriminate].
    unfold mk_term in A.
    destruct (make_term (best f) (f_var f) (f_exp f)), (make_term (f_left f) (l_var f) (l_exp f)), (make_term (f_right f) (r_var f) (r_exp f)); try discriminate.
    revert A. destruct pos; kids; intros A; try discriminate; cases A; inversion A; subst z; cbn [fst]; fin Hn.
  - (* distributive multiply: all fresh *)
    unfold dm_plan, all_new. destruct (dm_apply root p) as [[r' p']|] eqn:E; [|discriminate]. inversion A; subst z. cbn [fst].
    unfold dm_apply in E. unfold node in E. rewrite Hn in E. cases E; inversion E; subst r' p';
      erewrite subtree_replace_same by exact Hn; eexists _, _, _, _; (split; [reflexivity|]); (split; [exact Hn|]); split; reflexivity.
  - unfold mi_plan, all_new. destruct (mi_apply root p) as [[r' p']|] eqn:E; [|discriminate]. inversion A; subst z. cbn [fst].
    unfold mi_apply in E. unfold node in E. rewrite Hn in E. cases E; inversion E; subst r' p';
      erewrite subtree_replace_same by exact Hn; eexists _, _, _, _; (split; [reflexivity|]); (split; [exact Hn|]); split; reflexivity.
  - (* restate subtraction *)
    unfold rs_apply in A. unfold rs_plan. unfold node in *. rewrite Hn in *.
    destruct (rs_type root p) as [op|]; [|discriminate]. destruct n as [| | |k l r]; try discriminate.
    destruct op; cases A; inversion A; subst z; cbn [fst]; fin Hn.
  - (* variable multiply *)
    unfold vm_apply in A. unfold vm_plan. unfold node in *. rewrite Hn in *.
    destruct (vm_type root p) as [[[pos lt] rt]|]; [|discriminate]. destruct (t_var lt); [|discriminate].
    revert A. destruct pos, (t_coef lt), (t_coef rt); kids; intros A; try discriminate; cases A; inversion A; subst z; cbn [fst]; fin Hn.
  - (* balanced move: all fresh, attached at the root *)
    unfold bm_plan. rewrite A. destruct z as [r' p']. exists [], (PNew r'), root, r'. repeat split.
Qed.
