(* C04, part 3: the printed tokens of every printable tree are a phrase, at the level its context needs, for a tree with the same
   meaning and the same variables (strong induction on the size; the parenthesisation decisions of the printer are what makes each
   context's level reachable). *)
From Coq Require Import List NArith ZArith QArith Bool Lia Arith Reals Lra.
From Mathy Require Import Tok Params TokSet Lexer Num Expr Parser Grammar Printer Sem.
From MathyProofs Require Import ParamsFacts LexerFacts ParserNF ParserComplete ParserTop TermText ProblemsFacts NumSem.
From MathyProofs Require Import PrintTokens PrintGrammar.
Import ListNotations.
Local Open Scope nat_scope.

(* ---------- same meaning, same variables ---------- *)
Definition rt (e e':expr) : Prop := (forall rho, den rho e' = den rho e) /\ vars e' = vars e.
Lemma rt_refl e : rt e e. Proof. split; auto. Qed.
Lemma rt_un u c c' : rt c c' -> rt (Un u c) (Un u c').
Proof. intros [D V]. split; [intros rho; destruct u; cbn [den]; now rewrite D|exact V]. Qed.
Lemma rt_bin k l l' r r' : rt l l' -> rt r r' -> rt (Bin k l r) (Bin k l' r').
Proof. intros [D1 V1] [D2 V2]. split; [intros rho; cbn [den]; now rewrite D1, D2|cbn [vars]; now rewrite V1, V2]. Qed.
Lemma numR_nneg_opt a : numR (nneg a) = option_map Ropp (numR a).
Proof. destruct (numR a) as [x|] eqn:E; cbn [option_map]; [now apply numR_nneg|]. destruct a; try discriminate E; reflexivity. Qed.
Lemma num_equiv_R a b : num_equiv a b -> numR a = numR b.
Proof. Local Transparent numR. unfold num_equiv, numR. destruct (qv a), (qv b); try contradiction. intros H. cbn [option_map]. f_equal. now apply Qreals.Qeq_eqR. Qed.
Lemma rt_const c c' : num_equiv c' c -> rt (Const c) (Const c').
Proof. intros H. split; [intros rho; cbn [den]; now apply num_equiv_R|reflexivity]. Qed.
Lemma rt_neg_const v : rt (Un UNeg (Const v)) (Const (nneg v)).
Proof. split; [intros rho; cbn [den]; apply numR_nneg_opt|reflexivity]. Qed.
Lemma rt_neg_const' c v : num_equiv v c -> rt (Un UNeg (Const c)) (Const (nneg v)).
Proof. intros H. split; [intros rho; cbn [den]; rewrite numR_nneg_opt; now rewrite (num_equiv_R _ _ H)|reflexivity]. Qed.
Lemma rt_neg_compact c v f f' : num_equiv v c -> rt f f' -> rt (Un UNeg (Bin KMul (Const c) f)) (Bin KMul (Const (nneg v)) f').
Proof.
  intros HE [D V]. split; [|cbn [vars]; now rewrite V]. intros rho. cbn [den]. rewrite D, numR_nneg_opt, (num_equiv_R _ _ HE).
  destruct (numR c), (den rho f); cbn [option_map bind2 binop]; try reflexivity. f_equal. lra.
Qed.

(* ---------- the level of a printed phrase and what a context needs ---------- *)
Inductive lvl := LConstF | LAtom | LUnary | LExp | LMult | LAdd.
Definition Ph (l:lvl) (a:list token) (e:expr) : Prop :=
  match l with LConstF => PConstF a e | LAtom => PAtom a e | LUnary => PUnary a e | LExp => PExp a e | LMult => PMult a e | LAdd => PAdd a e end.
Definition le_lvl (a b:lvl) : bool :=
  match a, b with
  | LConstF, (LConstF|LUnary|LExp|LMult|LAdd) | LAtom, (LAtom|LUnary|LExp|LMult|LAdd) | LUnary, (LUnary|LExp|LMult|LAdd)
  | LExp, (LExp|LMult|LAdd) | LMult, (LMult|LAdd) | LAdd, LAdd => true
  | _, _ => false end.
Lemma add_of_mult a e : PMult a e -> PAdd a e.
Proof. intros H. rewrite <- (app_nil_r a). eapply PD; [exact H|apply PL_nil]. Qed.
Lemma Ph_up l l' a e : le_lvl l l' = true -> Ph l a e -> Ph l' a e.
Proof.
  destruct l, l'; cbn; try discriminate; intros _ H; auto;
    repeat first [ exact H | apply add_of_mult | apply PM_exp | apply PE_unary | apply PU_c; exact H | apply PU_fac; apply PF_atom; exact H ].
Qed.
Definition need (parent:option (bk*dir)) (e:expr) : lvl :=
  match parent with
  | None => LAdd
  | Some (KPow, DL) => if lpar_kind e then LAdd else match e with Const _ | Un UFact _ => LConstF | _ => LAtom end
  | Some (KPow, DR) => if rpar_kind e then LAdd else LUnary
  | Some (KMul, DL) | Some (KDiv, DL) => LExp
  | Some (KMul, DR) | Some (KDiv, DR) | Some (KAdd, DR) | Some (KSub, DR) => LMult
  | Some (KAdd, DL) | Some (KSub, DL) | Some (KEq, _) => LAdd
  end.
Lemma paren_atom a e : PAdd a e -> PAtom (paren_t a) e. Proof. apply PA_par. Qed.
Lemma addl_snoc e0 tl e1 : PAddL e0 tl e1 -> forall m r, PMult m r ->
  PAddL e0 (tl ++ T TPlus [43%N] :: m) (Bin KAdd e1 r) /\ PAddL e0 (tl ++ tMinus :: m) (Bin KSub e1 r).
Proof.
  induction 1 as [e|e m0 r0 tl e' HM HL IH|e m0 r0 tl e' HM HL IH]; intros m r Hm.
  - cbn [app]. split; [rewrite <- (app_nil_r m) at 1; eapply PL_plus; [exact Hm|apply PL_nil]|rewrite <- (app_nil_r m) at 1; eapply PL_minus; [exact Hm|apply PL_nil]].
  - destruct (IH m r Hm) as [A B]. cbn [app]. rewrite !app_assoc_reverse. split; (eapply PL_plus; [exact HM|]); rewrite ?app_assoc_reverse; assumption.
  - destruct (IH m r Hm) as [A B]. cbn [app]. rewrite !app_assoc_reverse. split; (eapply PL_minus; [exact HM|]); rewrite ?app_assoc_reverse; assumption.
Qed.

(* ---------- facts about the printed text that the wrap decisions rest on ---------- *)
Lemma show_total : forall e parent, pr0 e -> exists s, show e parent = Some s.
Proof.
  induction e as [c|v|u c IH|k l IHl r IHr]; intros parent P.
  - destruct P as (neg & run & v & (Hs & _)). cbn [show]. eauto.
  - cbn [show]. eauto.
  - assert (pr0 c) as Pc by (destruct u; cbn [pr0] in P; tauto). destruct (IH None Pc) as (s0 & S0). destruct u; cbn [show]; rewrite S0; eauto.
  - destruct (bk_eqb k KPow) eqn:KP.
    + destruct k; try discriminate KP. destruct P as [Pl Pr]. rewrite show_pow. destruct (IHl (Some (KPow,DL)) Pl) as (a & ->). destruct (IHr (Some (KPow,DR)) Pr) as (b & ->). eauto.
    + destruct k; try discriminate KP; cbn [pr0] in P; try contradiction; destruct P as [Pl Pr]; cbn [show];
        match goal with |- context[show _ (Some (?kk, DL))] => destruct (IHl (Some (kk,DL)) Pl) as (a & ->); destruct (IHr (Some (kk,DR)) Pr) as (b & ->) end; destruct (compact _ l r); eauto.
Qed.
Lemma num_toks_eq c neg run v : const_text c neg run v -> num_toks c = minus neg ++ [T TConst run].
Proof.
  intros (Hs & Hf & Hne & _). unfold num_toks. rewrite Hs. destruct neg; cbn [app minus]; [reflexivity|].
  destruct run as [|c0 run']; [contradiction|]. cbn [forallb] in Hf. apply andb_true_iff in Hf. destruct Hf as [Hc0 _].
  destruct (N.eq_dec c0 45) as [->|Ne]; [discriminate Hc0|].
  destruct c0 as [|p]; [reflexivity|]. do 6 (destruct p as [p|p|]; try reflexivity). exfalso. apply Ne. reflexivity.
Qed.
Lemma number_starts_literal c0 s : is_number c0 = true -> starts_literal (c0 :: s) = true /\ starts_minus (c0 :: s) = false.
Proof.
  intros H. apply is_number_iff in H. cbn [starts_literal starts_minus]. split.
  - destruct H as [->|[H1 H2]]; [reflexivity|]. apply orb_true_iff. left. apply andb_true_iff. split; apply N.leb_le; assumption.
  - apply N.eqb_neq. lia.
Qed.
Lemma const_text_first c neg run v rest : const_text c neg run v ->
  if neg then starts_minus (((if neg then [45%N] else []) ++ run) ++ rest) = true
  else starts_literal (((if neg then [45%N] else []) ++ run) ++ rest) = true /\ starts_minus (((if neg then [45%N] else []) ++ run) ++ rest) = false.
Proof.
  intros (Hs & Hf & Hne & _). destruct neg; cbn [app]; [reflexivity|].
  destruct run as [|c0 run']; [contradiction|]. cbn [forallb] in Hf. apply andb_true_iff in Hf. destruct Hf as [Hc0 _].
  cbn [app]. now apply number_starts_literal.
Qed.
Lemma has_space_app a b : has_space (a ++ sp :: b) = true.
Proof. unfold has_space. rewrite existsb_app. cbn [existsb sp]. rewrite N.eqb_refl. now rewrite orb_true_r. Qed.

(* ---------- the printed tokens of a tree are a phrase for an equivalent tree, at the level its context needs ---------- *)
Definition Goal_ (e:expr) : Prop := forall parent, exists e', rt e e' /\ Ph (need parent e) (ptoks e parent) e'.
Definition exp_toks (r:expr) : list token := if rpar_kind r then paren_t (ptoks r (Some (KPow,DR))) else ptoks r (Some (KPow,DR)).
Definition base_toks (b:expr) : list token := if lpar_kind b then paren_t (ptoks b (Some (KPow,DL))) else ptoks b (Some (KPow,DL)).
Definition constish (b:expr) : bool := match b with Const _ | Un UFact _ => true | _ => false end.
Lemma exp_phrase r : Goal_ r -> exists r', rt r r' /\ PUnary (exp_toks r) r'.
Proof.
  intros G. destruct (G (Some (KPow,DR))) as (r' & R & P). exists r'. split; [exact R|]. unfold exp_toks. cbn [need] in P.
  destruct (rpar_kind r); cbn [Ph] in P; [apply PU_fac, PF_atom, paren_atom; exact P|exact P].
Qed.
Lemma base_phrase b : Goal_ b -> exists b', rt b b' /\ (if constish b && negb (lpar_kind b) then PConstF (base_toks b) b' else PAtom (base_toks b) b').
Proof.
  intros G. destruct (G (Some (KPow,DL))) as (b' & R & P). exists b'. split; [exact R|]. unfold base_toks. cbn [need] in P.
  destruct (lpar_kind b) eqn:LK; cbn [Ph] in P; [rewrite andb_false_r; apply paren_atom; exact P|].
  rewrite andb_true_r. destruct b as [c| |[] c|k l r]; cbn [constish Ph] in *; try exact P; discriminate LK.
Qed.
Lemma pow_phrase b r : Goal_ b -> Goal_ r -> exists e', rt (Bin KPow b r) e' /\ PExp (base_toks b ++ tExp :: exp_toks r) e' /\
  (constish b && negb (lpar_kind b) = false -> PFactors (base_toks b ++ tExp :: exp_toks r) e').
Proof.
  intros Gb Gr. destruct (base_phrase b Gb) as (b' & Rb & Pb). destruct (exp_phrase r Gr) as (r' & Rr & Pr).
  exists (Bin KPow b' r'). split; [now apply rt_bin|]. destruct (constish b && negb (lpar_kind b)).
  - split; [apply PE_pow; assumption|discriminate].
  - assert (PFactors (base_toks b ++ tExp :: exp_toks r) (Bin KPow b' r')) as F by (apply PF_pow; assumption).
    split; [apply PE_unary, PU_fac; exact F|intros _; exact F].
Qed.
Lemma ptoks_pow b r parent : ptoks (Bin KPow b r) parent = base_toks b ++ tExp :: exp_toks r.
Proof. reflexivity. Qed.
Lemma need_pow_ok parent b r : le_lvl LExp (need parent (Bin KPow b r)) = true.
Proof. destruct parent as [[[] []]|]; reflexivity. Qed.
Lemma compact_factors r : match r with Var _ => True | Bin KPow (Var _) r2 => Goal_ r2 | _ => False end ->
  exists x ft f', ptoks r (Some (KMul,DR)) = T TVar [x] :: ft /\ rt r f' /\ PFactors (T TVar [x] :: ft) f'.
Proof.
  destruct r as [|x| |[] b r2]; try contradiction.
  - intros _. exists x, [], (Var x). split; [reflexivity|]. split; [apply rt_refl|apply PF_atom, PA_var].
  - destruct b as [|x| |]; try contradiction. intros G. destruct (exp_phrase r2 G) as (r' & Rr & Pr).
    exists x, (tExp :: exp_toks r2), (Bin KPow (Var x) r'). split; [reflexivity|]. split; [apply rt_bin; [apply rt_refl|exact Rr]|].
    exact (PF_pow [T TVar [x]] (Var x) (exp_toks r2) r' (PA_var x) Pr).
Qed.
Lemma compact_inv l r : compact KMul l r = true -> exists c0, l = Const c0 /\ match r with Var _ => True | Bin KPow (Var _) _ => True | _ => False end.
Proof. destruct l as [c0| | |]; try discriminate. intros H. exists c0. split; [reflexivity|]. destruct r as [| | |[] [] ?]; try discriminate H; exact I. Qed.

Lemma need_compact parent l r : compact KMul l r = true -> le_lvl LUnary (need parent (Bin KMul l r)) = true.
Proof. intros H. destruct parent as [[[] []]|]; try reflexivity. unfold need, lpar_kind. rewrite H. reflexivity. Qed.
Lemma need_noncompact parent l r : compact KMul l r = false -> le_lvl LAtom (need parent (Bin KMul l r)) = true.
Proof. intros H. destruct parent as [[[] []]|]; try reflexivity. unfold need, lpar_kind. rewrite H. reflexivity. Qed.
Lemma phrase_main : forall n e, Expr.size e <= n -> pr0 e -> Goal_ e.
Proof.
  induction n as [|n IH]; intros e SZ P; [destruct e; cbn [Expr.size] in SZ; lia|].
  destruct e as [c|v|u c|k l r].
  - (* constant *) intros parent. destruct P as (neg & run & v & CT). pose proof CT as (_ & _ & _ & Hc & Hv). exists (Const (sg neg v)). split; [apply rt_const; exact Hv|].
    assert (PConstF (ptoks (Const c) parent) (Const (sg neg v))) as PC.
    { cbn [ptoks]. rewrite (num_toks_eq c neg run v CT). apply PC_const. exact Hc. }
    apply (Ph_up LConstF); [destruct parent as [[[] []]|]; reflexivity|exact PC].
  - (* variable *) intros parent. exists (Var v). split; [apply rt_refl|]. apply (Ph_up LAtom); [destruct parent as [[[] []]|]; reflexivity|apply PA_var].
  - cbn [Expr.size] in SZ. destruct u.
    + (* negation *) cbn [pr0] in P. intros parent.
      assert (exists e', rt (Un UNeg c) e' /\ PUnary (ptoks (Un UNeg c) parent) e') as (e' & R & PU).
      { cbn [ptoks]. destruct (neg_wrap c) eqn:W.
        - destruct (IH c ltac:(lia) P None) as (c' & Rc & Pc). cbn [need Ph] in Pc. exists (Un UNeg c'). split; [now apply rt_un|].
          apply PU_neg, PF_atom, paren_atom. exact Pc.
        - unfold neg_wrap in W. destruct (show_total c None P) as (s & S). rewrite S in W.
          apply orb_false_iff in W. destruct W as [W SM]. apply orb_false_iff in W. destruct W as [LO LF].
          destruct c as [c0|x|u2 c2|k2 l2 r2].
          + (* -literal *) destruct P as (neg & run & v & CT). cbn [show] in S. pose proof CT as (Hs & _ & _ & Hc & Hv). rewrite Hs in S. inversion S; subst s.
            pose proof (const_text_first c0 neg run v [] CT) as CF. rewrite app_nil_r in CF. destruct neg; [rewrite CF in SM; discriminate SM|].
            exists (Const (nneg v)). split; [apply rt_neg_const'; exact Hv|]. cbn [ptoks]. rewrite (num_toks_eq c0 false run v CT). cbn [minus app].
            apply PU_c. exact (PC_const true run v Hc).
          + exists (Un UNeg (Var x)). split; [apply rt_refl|]. cbn [ptoks]. apply PU_neg, PF_atom, PA_var.
          + destruct u2.
            * (* - - : the text starts with '-' *) cbn [show] in S. destruct (show c2 None); [|discriminate S]. inversion S; subst s. discriminate SM.
            * (* - n! : starts with a literal or '-' *) cbn [pr0] in P. destruct P as [[n0 ->] (neg & run & v & CT)]. cbn [show] in S. pose proof CT as (Hs & _). rewrite Hs in S. inversion S; subst s.
              pose proof (const_text_first n0 neg run v [33%N] CT) as CF. destruct neg; [rewrite CF in SM; discriminate SM|]. destruct CF as [CF _]. rewrite CF in LF. discriminate LF.
            * (* - sgn(..) *) cbn [pr0 Expr.size] in *. destruct (IH c2 ltac:(lia) P None) as (c' & Rc & Pc). cbn [need Ph] in Pc.
              exists (Un UNeg (Un USgn c')). split; [apply rt_un, rt_un; exact Rc|]. cbn [ptoks]. apply PU_neg, PF_atom. apply PA_sgn. exact Pc.
            * (* - abs(..): not in the class *) cbn [pr0] in P. contradiction.
          + destruct (bk_eqb k2 KPow) eqn:KP.
            * (* - b^r with b not a literal *) destruct k2; try discriminate KP. cbn [pr0 Expr.size] in *. destruct P as [Pl Pr].
              destruct (pow_phrase l2 r2 (IH l2 ltac:(lia) Pl) (IH r2 ltac:(lia) Pr)) as (e' & R & _ & PF).
              exists (Un UNeg e'). split; [now apply rt_un|]. rewrite ptoks_pow. apply PU_neg. apply PF.
              destruct (constish l2 && negb (lpar_kind l2)) eqn:CB; [|reflexivity]. exfalso.
              apply andb_true_iff in CB. destruct CB as [CB NL]. apply negb_true_iff in NL.
              rewrite show_pow in S. destruct (show_total l2 (Some (KPow,DL)) Pl) as (a & Sa). destruct (show_total r2 (Some (KPow,DR)) Pr) as (b & Sb).
              rewrite Sa, Sb, NL in S. inversion S; subst s. clear S.
              destruct l2 as [c0| |[] c3|]; try discriminate CB.
              -- destruct Pl as (neg & run & v & CT). cbn [show] in Sa. pose proof CT as (Hs & _). rewrite Hs in Sa. inversion Sa; subst a.
                 pose proof (const_text_first c0 neg run v (94%N :: (if rpar_kind r2 then paren b else b)) CT) as CF.
                 destruct neg; [rewrite CF in SM; discriminate SM|]. destruct CF as [CF _]. rewrite CF in LF. discriminate LF.
              -- cbn [pr0] in Pl. destruct Pl as [[n0 ->] (neg & run & v & CT)]. cbn [show] in Sa. pose proof CT as (Hs & _). rewrite Hs in Sa. inversion Sa; subst a.
                 rewrite <- app_assoc in SM, LF.
                 pose proof (const_text_first n0 neg run v ([33%N] ++ 94%N :: (if rpar_kind r2 then paren b else b)) CT) as CF.
                 destruct neg; [rewrite CF in SM; discriminate SM|]. destruct CF as [CF _]. rewrite CF in LF. discriminate LF.
            * destruct k2; try discriminate KP; cbn [pr0] in P; try contradiction; destruct P as [Pl Pr]; try discriminate LO.
              all: cbn [show] in S; match type of S with context[show _ (Some (?kk, DL))] => destruct (show_total l2 (Some (kk,DL)) Pl) as (a & Sa); destruct (show_total r2 (Some (kk,DR)) Pr) as (b & Sb) end; rewrite Sa, Sb in S.
              2: { (* a / b always has spaces *) cbn [compact] in S. inversion S; subst s. unfold self_parens in LO. rewrite has_space_app in LO. discriminate LO. }
              (* product: compact (no space) or not *)
              destruct (compact KMul l2 r2) eqn:CP.
              -- destruct (compact_inv l2 r2 CP) as (c0 & -> & Hr). destruct Pl as (neg & run & v & CT). cbn [show] in Sa. pose proof CT as (Hs & _ & _ & Hc & Hv).
                 rewrite Hs in Sa. inversion Sa; subst a. inversion S; subst s.
                 pose proof (const_text_first c0 neg run v b CT) as CF. destruct neg; [rewrite CF in SM; discriminate SM|].
                 assert (match r2 with Var _ => True | Bin KPow (Var _) r3 => Goal_ r3 | _ => False end) as GR.
                 { destruct r2 as [|x| |[] [] r3]; try contradiction; try exact I. cbn [pr0 Expr.size] in *. apply (IH r3); [lia|tauto]. }
                 destruct (compact_factors r2 GR) as (x & ft & f' & Et & Rf & PF).
                 exists (Bin KMul (Const (nneg v)) f'). split; [apply rt_neg_compact; [exact Hv|exact Rf]|].
                 cbn [ptoks]. rewrite CP. cbn [ptoks]. rewrite (num_toks_eq c0 false run v CT), Et. cbn [minus app].
                 exact (PU_compact true run v x ft f' Hc PF).
              -- inversion S; subst s. cbn [self_parens] in LO. rewrite has_space_app in LO. discriminate LO. }
      exists e'. split; [exact R|]. apply (Ph_up LUnary); [destruct parent as [[[] []]|]; reflexivity|exact PU].
    + (* factorial of a literal *) cbn [pr0] in P. destruct P as [[n0 ->] (neg & run & v & CT)]. intros parent. pose proof CT as (_ & _ & _ & Hc & Hv).
      exists (Un UFact (Const (sg neg v))). split; [apply rt_un, rt_const; exact Hv|].
      assert (PConstF (ptoks (Un UFact (Const n0)) parent) (Un UFact (Const (sg neg v)))) as PC.
      { cbn [ptoks]. rewrite (num_toks_eq n0 neg run v CT). rewrite <- app_assoc. cbn [app]. exact (PC_fact neg run v Hc). }
      apply (Ph_up LConstF); [destruct parent as [[[] []]|]; reflexivity|exact PC].
    + (* sgn *) cbn [pr0] in P. intros parent. destruct (IH c ltac:(lia) P None) as (c' & Rc & Pc). cbn [need Ph] in Pc.
      exists (Un USgn c'). split; [now apply rt_un|]. apply (Ph_up LAtom); [destruct parent as [[[] []]|]; reflexivity|].
      cbn [ptoks Ph]. apply PA_sgn. exact Pc.
    + (* abs: not in the class *) cbn [pr0] in P. contradiction.
  - cbn [Expr.size] in SZ. destruct (bk_eqb k KPow) eqn:KP.
    + (* power *) destruct k; try discriminate KP. destruct P as [Pl Pr]. intros parent.
      destruct (pow_phrase l r (IH l ltac:(lia) Pl) (IH r ltac:(lia) Pr)) as (e' & R & PE & _).
      exists e'. split; [exact R|]. rewrite ptoks_pow. apply (Ph_up LExp); [apply need_pow_ok|exact PE].
    + destruct k; try discriminate KP; cbn [pr0] in P; try contradiction; destruct P as [Pl Pr]; intros parent.
      all: assert (Gl := IH l ltac:(lia) Pl); assert (Gr := IH r ltac:(lia) Pr).
      (* sums *)
      1: { destruct (Gl (Some (KAdd, DL))) as (l' & Rl & PL); destruct (Gr (Some (KAdd, DR))) as (r' & Rr & PR); cbn [need Ph] in PL, PR.
           inversion PL as [m e0 tl e1 HM HL Em E1]; subst e1. destruct (addl_snoc e0 tl l' HL _ r' PR) as [SP1 SP2].
           assert (PAdd (ptoks l (Some (KAdd, DL)) ++ op_tok KAdd :: ptoks r (Some (KAdd, DR))) (Bin KAdd l' r')) as BODY
             by (rewrite <- Em, <- app_assoc; exact (PD m e0 _ _ HM SP1)).
           eexists; split; [apply rt_bin; eassumption|]; cbn [ptoks compact].
           destruct (self_parens _ parent) eqn:SP;
             [apply (Ph_up LAtom); [destruct parent as [[[] []]|]; reflexivity|apply paren_atom; exact BODY]
             |apply (Ph_up LAdd); [destruct parent as [[[] []]|]; vm_compute in SP; try discriminate SP; reflexivity|exact BODY]]. }
      1: { destruct (Gl (Some (KSub, DL))) as (l' & Rl & PL); destruct (Gr (Some (KSub, DR))) as (r' & Rr & PR); cbn [need Ph] in PL, PR.
           inversion PL as [m e0 tl e1 HM HL Em E1]; subst e1. destruct (addl_snoc e0 tl l' HL _ r' PR) as [SP1 SP2].
           assert (PAdd (ptoks l (Some (KSub, DL)) ++ op_tok KSub :: ptoks r (Some (KSub, DR))) (Bin KSub l' r')) as BODY
             by (rewrite <- Em, <- app_assoc; exact (PD m e0 _ _ HM SP2)).
           eexists; split; [apply rt_bin; eassumption|]; cbn [ptoks compact].
           destruct (self_parens _ parent) eqn:SP;
             [apply (Ph_up LAtom); [destruct parent as [[[] []]|]; reflexivity|apply paren_atom; exact BODY]
             |apply (Ph_up LAdd); [destruct parent as [[[] []]|]; vm_compute in SP; try discriminate SP; reflexivity|exact BODY]]. }
      (* products and quotients *)
      2: { destruct (Gl (Some (KDiv, DL))) as (l' & Rl & PL); destruct (Gr (Some (KDiv, DR))) as (r' & Rr & PR); cbn [need Ph] in PL, PR.
           assert (PMult (ptoks l (Some (KDiv, DL)) ++ op_tok KDiv :: ptoks r (Some (KDiv, DR))) (Bin KDiv l' r')) as BODY by (apply PM_div; assumption).
           eexists; split; [apply rt_bin; eassumption|]; cbn [ptoks compact].
           destruct (self_parens _ parent) eqn:SP;
             [apply (Ph_up LAtom); [destruct parent as [[[] []]|]; reflexivity|apply paren_atom, add_of_mult; exact BODY]
             |apply (Ph_up LMult); [destruct parent as [[[] []]|]; vm_compute in SP; try discriminate SP; reflexivity|exact BODY]]. }
      cbn [ptoks]. destruct (compact KMul l r) eqn:CP.
      * (* compact product *) destruct (compact_inv l r CP) as (c0 & -> & Hr). destruct Pl as (neg & run & v & CT). pose proof CT as (_ & _ & _ & Hc & Hv).
        assert (match r with Var _ => True | Bin KPow (Var _) r3 => Goal_ r3 | _ => False end) as GR.
        { destruct r as [|x| |[] [] r3]; try contradiction; try exact I. cbn [pr0 Expr.size] in *. apply (IH r3); [lia|tauto]. }
        destruct (compact_factors r GR) as (x & ft & f' & Et & Rf & PF).
        exists (Bin KMul (Const (sg neg v)) f'). split; [apply rt_bin; [apply rt_const; exact Hv|exact Rf]|].
        cbn [ptoks]. rewrite (num_toks_eq c0 neg run v CT), Et, <- app_assoc. cbn [app].
        apply (Ph_up LUnary); [apply need_compact; exact CP|exact (PU_compact neg run v x ft f' Hc PF)].
      * destruct (Gl (Some (KMul, DL))) as (l' & Rl & PL); destruct (Gr (Some (KMul, DR))) as (r' & Rr & PR); cbn [need Ph] in PL, PR.
        assert (PMult (ptoks l (Some (KMul, DL)) ++ op_tok KMul :: ptoks r (Some (KMul, DR))) (Bin KMul l' r')) as BODY by (apply PM_mul; assumption).
        eexists; split; [apply rt_bin; eassumption|].
        destruct (self_parens _ parent) eqn:SP.
        -- apply (Ph_up LAtom); [apply need_noncompact; exact CP|apply paren_atom, add_of_mult; exact BODY].
        -- apply (Ph_up LMult); [|exact BODY]. destruct parent as [[[] []]|]; vm_compute in SP; try discriminate SP; reflexivity.
Qed.
