(* Facts about the GENERATED tables of Params.v, all by finite computation. When /repo changes a
   table in a way that matters, one of these named lemmas stops compiling. *)
From Coq Require Import List NArith ZArith Bool Lia.
From Mathy Require Import Tok Params TokSet Lexer.
Import ListNotations.
Open Scope N_scope.

(* ---- the documented alphabet of the tokenizer (SPEC, hand-written from tokenizer.py's doc/tests) ---- *)
Definition spec_number_ranges : list (N*N) := [(46,46); (48,57)].          (* '.', '0'..'9' *)
Definition spec_alpha_ranges : list (N*N) := [(65,90); (97,122)].         (* 'A'..'Z', 'a'..'z' *)
Definition norm (c:N) : N := if c =? 8211 then 45 else if c =? 91 then 40 else if c =? 93 then 41 else c.
Definition spec_ops : list (N * tkind) :=
  [(9,TPad); (10,TPad); (13,TPad); (32,TPad); (33,TFact); (40,TOpen); (41,TClose); (42,TMul); (43,TPlus);
   (45,TMinus); (47,TDiv); (61,TEqual); (91,TOpen); (93,TClose); (94,TExp); (8211,TMinus)].
Definition spec_function_names : list (list N) := [[115;103;110]].        (* "sgn" *)

Lemma number_ranges_spec : number_ranges = spec_number_ranges. Proof. reflexivity. Qed.
Lemma alpha_ranges_spec : alpha_ranges = spec_alpha_ranges. Proof. reflexivity. Qed.
Lemma function_names_spec : function_names = spec_function_names. Proof. reflexivity. Qed.
Lemma op_table_spec : op_table = map (fun e => (fst e, (snd e, [norm (fst e)]))) spec_ops.
Proof. reflexivity. Qed.

Lemma is_number_iff c : is_number c = true <-> c = 46 \/ (48 <= c /\ c <= 57).
Proof.
  unfold is_number. rewrite number_ranges_spec. unfold spec_number_ranges, in_ranges. cbn [existsb fst snd].
  rewrite !orb_true_iff, !andb_true_iff, !N.leb_le. split; [intros [H|[H|H]]|intros [H|H]]; try lia; try discriminate; auto.
Qed.
Lemma is_alpha_iff c : is_alpha c = true <-> (65 <= c /\ c <= 90) \/ (97 <= c /\ c <= 122).
Proof.
  unfold is_alpha. rewrite alpha_ranges_spec. unfold spec_alpha_ranges, in_ranges. cbn [existsb fst snd].
  rewrite !orb_true_iff, !andb_true_iff, !N.leb_le. split; [intros [H|[H|H]]|intros [H|H]]; try lia; try discriminate; auto.
Qed.

Lemma norm_number c : is_number c = true -> norm c = c.
Proof. rewrite is_number_iff. unfold norm. intros H.
  destruct (c =? 8211) eqn:E1; [apply N.eqb_eq in E1; lia|].
  destruct (c =? 91) eqn:E2; [apply N.eqb_eq in E2; lia|].
  destruct (c =? 93) eqn:E3; [apply N.eqb_eq in E3; lia|]. reflexivity. Qed.
Lemma norm_alpha c : is_alpha c = true -> norm c = c.
Proof. rewrite is_alpha_iff. unfold norm. intros H.
  destruct (c =? 8211) eqn:E1; [apply N.eqb_eq in E1; lia|].
  destruct (c =? 91) eqn:E2; [apply N.eqb_eq in E2; lia|].
  destruct (c =? 93) eqn:E3; [apply N.eqb_eq in E3; lia|]. reflexivity. Qed.

Lemma assoc_map_in {A B} (f:N*A -> B) (t:list (N*A)) c v :
  assoc (map (fun e => (fst e, f e)) t) c = Some v -> exists a, In (c,a) t /\ v = f (c,a).
Proof.
  induction t as [|[k a] t IH]; simpl; [discriminate|].
  destruct (k =? c) eqn:E.
  - apply N.eqb_eq in E. subst. intros [= <-]. eauto.
  - intros H. destruct (IH H) as (a' & Hin & Hv). eauto.
Qed.

(* every operator emits exactly its normalised character *)
Lemma op_norm c k v : op_of c = Some (k,v) -> v = [norm c].
Proof.
  unfold op_of. rewrite op_table_spec. intros H.
  apply (assoc_map_in (fun e => (snd e, [norm (fst e)]))) in H. destruct H as (a & _ & Hv). simpl in Hv. congruence.
Qed.
Lemma op_kind c k v : op_of c = Some (k,v) -> In (c,k) spec_ops.
Proof.
  unfold op_of. rewrite op_table_spec. intros H.
  apply (assoc_map_in (fun e => (snd e, [norm (fst e)]))) in H. destruct H as (a & Hin & Hv). simpl in Hv. congruence.
Qed.
(* padding tokens are exactly the four whitespace characters *)
Lemma op_pad c v : op_of c = Some (TPad,v) -> c = 9 \/ c = 10 \/ c = 13 \/ c = 32.
Proof. intros H. apply op_kind in H. simpl in H. repeat (destruct H as [H|H]; [inversion H; subst; auto 6; fail| ]); try contradiction. Qed.
(* operators never produce the kinds reserved for the other branches or the end marker *)
Lemma op_kind_not c k v : op_of c = Some (k,v) -> k <> TConst /\ k <> TVar /\ k <> TFunc /\ k <> TEOF /\ k <> TInvalid.
Proof. intros H. apply op_kind in H. simpl in H.
  repeat (destruct H as [H|H]; [inversion H; subst; repeat split; discriminate| ]); contradiction. Qed.

(* ---- token codes / parser token sets ---- *)

Lemma codes_distinct_powers : map tok_code all_kinds = map (fun i => 2 ^ i) [0;1;2;3;4;5;6;7;8;9;10;11;12;13;14].
Proof. reflexivity. Qed.
Lemma first_factor_kinds : kinds_of FIRST_FACTOR = [TVar; TFact; TOpen; TFunc]. Proof. reflexivity. Qed.
Lemma first_factor_prefix_kinds : kinds_of FIRST_FACTOR_PREFIX = [TConst; TVar; TFact; TOpen; TFunc]. Proof. reflexivity. Qed.
Lemma first_unary_kinds : kinds_of FIRST_UNARY = [TConst; TVar; TMinus; TFact; TOpen; TFunc]. Proof. reflexivity. Qed.
Lemma first_levels_equal : FIRST_EXP = FIRST_UNARY /\ FIRST_MULT = FIRST_UNARY /\ FIRST_ADD = FIRST_UNARY. Proof. repeat split. Qed.
Lemma is_add_kinds : kinds_of IS_ADD = [TPlus; TMinus]. Proof. reflexivity. Qed.
Lemma is_mult_kinds : kinds_of IS_MULT = [TMul; TDiv]. Proof. reflexivity. Qed.
Lemma is_exp_kinds : kinds_of IS_EXP = [TExp]. Proof. reflexivity. Qed.
Lemma is_equal_kinds : kinds_of IS_EQUAL = [TEqual]. Proof. reflexivity. Qed.
Lemma first_function_kinds : kinds_of FIRST_FUNCTION = [TFunc]. Proof. reflexivity. Qed.
Lemma ooo_order : (OOO_INVALID < OOO_ADDSUB < OOO_MULTDIV)%Z /\ (OOO_MULTDIV < OOO_EXPONENT < OOO_FUNCTION)%Z.
Proof. unfold OOO_INVALID, OOO_ADDSUB, OOO_MULTDIV, OOO_EXPONENT, OOO_FUNCTION. lia. Qed.
