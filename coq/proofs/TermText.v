(* The text of a natural-order term  [-][c][x[^[-]e]]  parses to a tree from which get_term_ex reads back exactly the written
   (coefficient, variable, exponent). Token level; the characters of a literal / letter lex to these tokens by C11. *)
From Coq Require Import List NArith ZArith QArith Bool Lia.
From Mathy Require Import Tok Params TokSet Lexer Num Expr Parser Grammar Util.
From MathyProofs Require Import ParserNF ParserComplete ParserTop.
Import ListNotations.
Definition T k v := {| tk := k; tv := v |}.
Definition EOFT := T TEOF [].
Ltac side := first [ reflexivity | (intros Q; discriminate Q) | (unfold in_first_factor, in_first_unary, hdk, hk; cbn; first [reflexivity | intros Q; discriminate Q]) | eassumption ].

Lemma lift_exp s e : in_first_unary s -> G_exp s e [EOFT] -> Derives s e.
Proof.
  intros F H. exists e, [EOFT], [EOFT]. split; [exact F|]. split.
  - eapply GA; [exact F| |apply GAL_stop; side]. eapply GM; [exact F|exact H|apply GML_stop; side].
  - split; [apply GQ_stop; side|]. split; side.
Qed.

(* the written exponent: sign and literal *)
Definition exp_tokens (e:option (bool * list N)) : list token :=
  match e with None => [] | Some (s, et) => T TExp [94%N] :: (if s then [T TMinus [45%N]] else []) ++ [T TConst et] end.
Definition exp_value (e:option (bool * list N)) (en:num) : option num := match e with None => None | Some (s, _) => Some (if s then nneg en else en) end.

Lemma unary_literal (s:bool) et en rest : coerce et = Ok en -> ~ in_first_factor rest ->
  G_unary ((if s then [T TMinus [45%N]] else []) ++ T TConst et :: rest) (Const (if s then nneg en else en)) rest.
Proof.
  intros He Hr. destruct s; cbn [app].
  - eapply GU_neg; [reflexivity|]. apply (GP_const true); [reflexivity|exact He|exact Hr].
  - apply GU_pos; [side|]. apply (GP_const false); [reflexivity|exact He|exact Hr].
Qed.
Lemma not_ff_eof : ~ in_first_factor [EOFT]. Proof. side. Qed.

(* x  /  x^e : the factors production *)
Definition var_part (x:N) (e:option (bool * list N)) (en:num) : expr :=
  match exp_value e en with None => Var x | Some k => Bin KPow (Var x) (Const k) end.
Lemma factors_var x e en : (forall s et, e = Some (s, et) -> coerce et = Ok en) ->
  G_factors (T TVar [x] :: exp_tokens e ++ [EOFT]) (var_part x e en) [EOFT].
Proof.
  intros He. destruct e as [[s et]|]; unfold var_part; cbn [exp_tokens exp_value app].
  - apply GF_pow with (fs := [Var x]) (t := T TExp [94%N]) (s1 := (if s then [T TMinus [45%N]] else []) ++ [T TConst et] ++ [EOFT]) (r := Const (if s then nneg en else en)).
    + cbn [app]. rewrite <- app_assoc. cbn [app]. apply GS_one; [apply (GT_var (T TVar [x])); reflexivity|side].
    + reflexivity.
    + destruct s; side.
    + apply unary_literal; [eapply He; reflexivity|apply not_ff_eof].
    + reflexivity.
  - eapply GF_plain with (fs := [Var x]); [apply GS_one; [apply (GT_var (T TVar [x])); reflexivity|side]|side|reflexivity].
Qed.

(* the written term: sign, coefficient literal, variable, exponent *)
Definition coef_tokens (c:option (list N)) : list token := match c with Some ct => [T TConst ct] | None => [] end.
Definition term_tokens (neg:bool) (c:option (list N)) (x:N) (e:option (bool * list N)) : list token :=
  (if neg then [T TMinus [45%N]] else []) ++ coef_tokens c ++ T TVar [x] :: exp_tokens e ++ [EOFT].
Definition written_coef (neg:bool) (c:option (list N)) (cn:num) : option num :=
  match c with Some _ => Some (if neg then nneg cn else cn) | None => if neg then Some (NInt (-1)) else None end.

Theorem term_text_var neg c x e cn en :
  (forall ct, c = Some ct -> coerce ct = Ok cn) -> (forall s et, e = Some (s, et) -> coerce et = Ok en) ->
  exists t, parse_tokens (term_tokens neg c x e) = Ok t /\
            get_term_ex false t = Some (mk (written_coef neg c cn) (Some x) (exp_value e en)).
Proof.
  intros Hc He. pose proof (factors_var x e en He) as HF.
  assert (in_first_factor (T TVar [x] :: exp_tokens e ++ [EOFT])) as FF by side.
  assert (exists t, G_unary (term_tokens neg c x e) t [EOFT] /\ get_term_ex false t = Some (mk (written_coef neg c cn) (Some x) (exp_value e en))) as (t & HU & HT).
  { unfold term_tokens, written_coef. destruct c as [ct|]; cbn [coef_tokens app].
    - specialize (Hc ct eq_refl). exists (Bin KMul (Const (if neg then nneg cn else cn)) (var_part x e en)). split.
      + destruct neg; cbn [app].
        * eapply GU_neg; [reflexivity|]. apply (GP_cf true); [reflexivity|exact Hc|exact FF|side|exact HF].
        * apply GU_pos; [side|]. apply (GP_cf false); [reflexivity|exact Hc|exact FF|side|exact HF].
      + unfold var_part. destruct (exp_value e en); reflexivity.
    - exists (if neg then Un UNeg (var_part x e en) else var_part x e en). split.
      + destruct neg; cbn [app].
        * eapply GU_neg; [reflexivity|]. apply (GP_f true); [side|exact FF|exact HF].
        * apply GU_pos; [side|]. apply (GP_f false); [side|exact FF|exact HF].
      + unfold var_part. destruct neg, (exp_value e en); reflexivity. }
  exists t. split; [|exact HT]. apply parse_tokens_complete.
  - exists ((if neg then [T TMinus [45%N]] else []) ++ coef_tokens c ++ T TVar [x] :: exp_tokens e), EOFT.
    unfold term_tokens. destruct neg, c as [ct|], e as [[[|] et]|]; cbn; (split; [reflexivity|split; [reflexivity|repeat constructor; discriminate]]).
  - apply lift_exp; [destruct neg, c; side|]. apply GE_plain; [destruct neg, c; side|exact HU|side].
Qed.

(* a bare literal *)
Theorem term_text_const (neg:bool) ct cn : coerce ct = Ok cn ->
  exists t, parse_tokens ((if neg then [T TMinus [45%N]] else []) ++ [T TConst ct; EOFT]) = Ok t /\
            get_term_ex false t = Some (mk (Some (if neg then nneg cn else cn)) None None).
Proof.
  intros Hc. exists (Const (if neg then nneg cn else cn)). split; [|reflexivity]. apply parse_tokens_complete.
  - exists ((if neg then [T TMinus [45%N]] else []) ++ [T TConst ct]), EOFT.
    destruct neg; cbn; (split; [reflexivity|split; [reflexivity|repeat constructor; discriminate]]).
  - apply lift_exp; [destruct neg; side|]. apply GE_plain; [destruct neg; side| |side].
    apply (unary_literal neg ct cn [EOFT] Hc not_ff_eof).
Qed.
