(* Structure preservation, part C: factor-out and variable multiply (derived from RulesVarsC). *)
From Coq Require Import List NArith ZArith QArith Qround Qreals Reals Lra Lia Bool.
From Mathy Require Import Num Expr Util Rules Sem.
From MathyProofs Require Import ExprFacts SemFacts NumSem PowSem.
From MathyProofs Require Import ShapeFacts RulesShapeA RulesShapeB.
Import ListNotations.
Open Scope R_scope.

Lemma ovar_eqb_eq a b : ovar_eqb a b = true -> a = b.
Proof. destruct a, b; simpl; try discriminate; auto. intros H. apply N.eqb_eq in H. now subst. Qed.
Lemma onum_eqb_R a b : onum_eqb a b = true -> (a = None /\ b = None) \/ (exists x y, a = Some x /\ b = Some y /\ numR x = numR y).
Proof. destruct a, b; simpl; try discriminate; auto. intros H. right. apply num_eqb_R in H. destruct H. eauto. Qed.

Lemma num_eqb_refl_l a b : num_eqb a b = true -> num_eqb a a = true.
Proof. unfold num_eqb. destruct (qv a), (qv b); try discriminate. intros _. apply Qeq_bool_iff. reflexivity. Qed.
Lemma num_eqb_sym a b : num_eqb a b = true -> num_eqb b a = true.
Proof. unfold num_eqb. destruct (qv a), (qv b); try discriminate. intros H. apply Qeq_bool_iff. apply Qeq_bool_iff in H. now symmetry. Qed.
Lemma bind2_some a b f v : bind2 a b f = Some v -> exists x y, a = Some x /\ b = Some y /\ f x y = Some v.
Proof. destruct a, b; simpl; try discriminate. eauto. Qed.

Lemma coef_factor lt b fl :
  flookup (factor (match t_coef lt with Some c => c | None => one end)) b = Some fl ->
  exists rb rfl rc, numR b = Some rb /\ numR fl = Some rfl /\ coefR (t_coef lt) = Some rc /\ rb * rfl = rc.
Proof.
  intros H. apply flookup_R in H. destruct H as (rk & rw & rv & H1 & H2 & H3 & H4).
  exists rk, rw, rv. repeat split; auto. destruct (t_coef lt); simpl; auto. rewrite numR_one in H3. exact H3.
Qed.


(* the heart of factor-out: two terms with a common factor *)
Lemma factor_core lt rt f a b c l r :
  get_term_ex false l = Some lt -> get_term_ex false r = Some rt ->
  factor_add_terms_ex lt rt = Some f ->
  make_term (best f) (f_var f) (f_exp f) = Some a -> make_term (f_left f) (l_var f) (l_exp f) = Some b ->
  make_term (f_right f) (r_var f) (r_exp f) = Some c ->
  keeps (Bin KAdd l r) (Bin KMul (Bin KAdd b c) a).
Proof.
  intros GL GR FA MA MB MC. apply SK. intros _. cbn [sk0]. repeat split; eapply make_term_sk; eauto.
Qed.

(* ---------- factor-out: the six tree positions ---------- *)
Lemma pos_left k t1 t2 R : keeps (Bin KAdd t1 t2) R -> keeps (Bin KAdd (Bin KAdd k t1) t2) (Bin KAdd k R).
Proof. kauto. Qed.
Lemma pos_right t1 t2 k R : keeps (Bin KAdd t1 t2) R -> keeps (Bin KAdd t1 (Bin KAdd t2 k)) (Bin KAdd R k).
Proof. kauto. Qed.
Lemma pos_both k1 t1 t2 k2 R : keeps (Bin KAdd t1 t2) R -> keeps (Bin KAdd (Bin KAdd k1 t1) (Bin KAdd t2 k2)) (Bin KAdd (Bin KAdd k1 R) k2).
Proof. kauto. Qed.
Lemma pos_left_right ll lrl t1 t2 R : keeps (Bin KAdd t1 t2) R ->
  keeps (Bin KAdd (Bin KAdd ll (Bin KAdd lrl t1)) t2) (Bin KAdd (Bin KAdd ll lrl) R).
Proof. kauto. Qed.
Lemma pos_right_left t1 t2 rlr rr R : keeps (Bin KAdd t1 t2) R ->
  keeps (Bin KAdd t1 (Bin KAdd (Bin KAdd t2 rlr) rr)) (Bin KAdd R (Bin KAdd rlr rr)).
Proof. kauto. Qed.

Lemma gte_some e : gte (Some e) = get_term_ex false e. Proof. reflexivity. Qed.
Lemma gte_none : gte None = None. Proof. reflexivity. Qed.
Lemma mk_term_inv c v e t : mk_term c v e = ROk t -> make_term c v e = Some t.
Proof. unfold mk_term. destruct (make_term c v e); [intros [= <-]; reflexivity|discriminate]. Qed.

Ltac dcase T := match type of T with
  | context[if ?c then _ else _] => destruct c eqn:?; try discriminate T
  | context[match ?c with Some _ => _ | None => _ end] => destruct c eqn:?; try discriminate T
  end.

Theorem df_shape root p cst z : df_can root p cst = true -> df_apply root p = ROk z -> LocalAtK root p (fst z).
Proof.
  intros _. unfold df_apply. destruct (df_type root p) as [[[pos lt] rt]|] eqn:T; [|discriminate].
  destruct (factor_add_terms_ex lt rt) as [f|] eqn:FA; [|discriminate].
  destruct (mk_term (best f) (f_var f) (f_exp f)) as [a|] eqn:MA; cbn [rbind]; [|discriminate]. apply mk_term_inv in MA.
  destruct (mk_term (f_left f) (l_var f) (l_exp f)) as [b|] eqn:MB; cbn [rbind]; [|discriminate]. apply mk_term_inv in MB.
  destruct (mk_term (f_right f) (r_var f) (r_exp f)) as [c|] eqn:MC; cbn [rbind]; [|discriminate]. apply mk_term_inv in MC.
  unfold df_type in T. unfold node in *. destruct (subtree root p) as [n|] eqn:Hs; [|simpl in T; discriminate].
  destruct (negb (is_k KAdd (Some n))) eqn:NA; [discriminate|]. apply negb_false_iff in NA.
  apply is_k_inv in NA. destruct NA as (l & r & [= ->]). cbv zeta in T. cbn [olft orgt lft rgt] in T. rewrite !gte_some in T.
  pose proof (fun t1 t2 => factor_core lt rt f a b c t1 t2) as Core.
  cbn [olft orgt lft rgt].
  repeat dcase T;
    try (match goal with H : false = true |- _ => discriminate H | H : true = false |- _ => discriminate H end);
    inversion T; subst pos lt rt; clear T; shapes;
    try (solve [simpl in *; congruence]);
    repeat match goal with H : gte (Some _) = _ |- _ => rewrite gte_some in H end;
    cbn [get rbind olft orgt lft rgt];
    intros [= <-]; cbn [fst]; apply (local_atk _ _ _ _ Hs).
  all: first
    [ apply Core; assumption
    | apply pos_both; apply Core; assumption
    | apply pos_left; apply Core; assumption
    | apply pos_right; apply Core; assumption
    | apply pos_left_right; apply Core; assumption
    | apply pos_right_left; apply Core; assumption ].
Qed.

(* ---------- variable multiply ---------- *)
Lemma term_den_inv rho t v : term_den rho t = Some v ->
  exists c pw, coefR (t_coef t) = Some c /\ varpow rho (t_var t) (t_exp t) = Some pw /\ v = c * pw.
Proof.
  unfold term_den. intros H. apply bind2_some in H. destruct H as (c & pw & H1 & H2 & H3). inversion H3. eauto.
Qed.
Definition expo (t:termex) : num := match t_exp t with Some k => k | None => NInt 1 end.
Lemma varpow_expo rho t x pw : t_var t = Some x -> varpow rho (t_var t) (t_exp t) = Some pw ->
  exists xv ev, rho x = Some xv /\ numR (expo t) = Some ev /\ rpow xv ev = Some pw.
Proof.
  intros Hx. rewrite Hx. unfold varpow, expo. destruct (t_exp t) as [k|].
  - intros H. apply bind2_some in H. destruct H as (xv & ev & H1 & H2 & H3). eauto.
  - intros H. exists pw, 1. rewrite numR_int. repeat split; auto. apply rpow_one.
Qed.
Lemma power_den rho lt rt x p1 p2 :
  t_var lt = Some x -> t_var rt = Some x ->
  varpow rho (t_var lt) (t_exp lt) = Some p1 -> varpow rho (t_var rt) (t_exp rt) = Some p2 ->
  den rho (Bin KPow (Var x) (Bin KAdd (Const (expo lt)) (Const (expo rt)))) = Some (p1 * p2).
Proof.
  intros Hl Hr H1 H2.
  destruct (varpow_expo _ _ _ _ Hl H1) as (xv & e1 & X1 & E1 & P1).
  destruct (varpow_expo _ _ _ _ Hr H2) as (xv' & e2 & X2 & E2 & P2).
  rewrite X1 in X2. inversion X2; subst xv'.
  cbn [den]. rewrite X1, E1, E2. cbn [bind2 binop]. now apply rpow_add_def.
Qed.

Lemma vm_type_mul root p pos lt rt : vm_type root p = Some (pos, lt, rt) -> exists l r, node root p = Some (Bin KMul l r).
Proof.
  unfold vm_type. destruct (negb (is_k KMul (node root p))) eqn:E; [discriminate|]. apply negb_false_iff in E.
  apply is_k_inv in E. destruct E as (l & r & E). eauto.
Qed.

Definition vm_coef (lt rt:termex) : option (expr + (expr*expr)) :=
  match t_coef lt, t_coef rt with
  | Some a, Some b => Some (inr (Const a, Const b))
  | Some a, None => Some (inl (Const a))
  | None, Some b => Some (inl (Const b))
  | None, None => None end.
Definition vm_power (x:N) (lt rt:termex) : expr := Bin KPow (Var x) (Bin KAdd (Const (expo lt)) (Const (expo rt))).
Definition vm_simple (x:N) (lt rt:termex) : expr :=
  match vm_coef lt rt with
  | Some (inr (a,b)) => Bin KMul (Bin KMul a b) (vm_power x lt rt)
  | Some (inl c) => Bin KMul c (vm_power x lt rt)
  | None => vm_power x lt rt end.

(* two like-variable terms multiplied: (c1 x^e1)(c2 x^e2) = (c1 c2) x^(e1+e2) *)
Lemma vm_pair_shape tl tr lt rt x :
  get_term_ex false tl = Some lt -> get_term_ex false tr = Some rt -> t_var lt = Some x -> t_var rt = Some x ->
  keeps (Bin KMul tl tr) (vm_simple x lt rt).
Proof.
  intros GL GR VL VR. apply SK. intros _. unfold vm_simple, vm_coef, vm_power. destruct (t_coef lt), (t_coef rt); cbn [sk0]; tauto.
Qed.
Lemma vm_chained_pos tl tr keep S : keeps (Bin KMul tl tr) S -> keeps (Bin KMul tl (Bin KMul tr keep)) (Bin KMul S keep).
Proof. kauto. Qed.
Lemma vm_left_right_pos keep tl tr S : keeps (Bin KMul tl tr) S -> keeps (Bin KMul (Bin KMul keep tl) tr) (Bin KMul keep S).
Proof. kauto. Qed.
(* regrouping of the coefficient factors in the chained results *)
Lemma regroup_ch2 a b pw k : keeps (Bin KMul (Bin KMul (Bin KMul a b) pw) k) (Bin KMul a (Bin KMul b (Bin KMul pw k))). Proof. kauto. Qed.
Lemma regroup_ch1 c pw k : keeps (Bin KMul (Bin KMul c pw) k) (Bin KMul c (Bin KMul pw k)). Proof. kauto. Qed.
Lemma regroup_lr2 k a b pw : keeps (Bin KMul k (Bin KMul (Bin KMul a b) pw)) (Bin KMul k (Bin KMul b (Bin KMul a pw))). Proof. kauto. Qed.

Ltac dcase_any :=
  match goal with
  | H : context[if ?c then _ else _] |- _ => lazymatch type of H with _ = _ => idtac end; destruct c eqn:?; try discriminate H
  | H : context[match ?c with Some _ => _ | None => _ end] |- _ => lazymatch type of H with _ = _ => idtac end; destruct c eqn:?; try discriminate H
  end.

Theorem vm_shape root p z : vm_can root p = true -> vm_apply root p = ROk z -> LocalAtK root p (fst z).
Proof.
  intros _. unfold vm_apply. destruct (vm_type root p) as [[[pos lt] rt]|] eqn:T; [|discriminate].
  destruct (t_var lt) as [x|] eqn:VL; [|discriminate].
  destruct (vm_type_mul _ _ _ _ _ T) as (l & r & Hn). unfold node in *.
  assert (subtree root p = Some (Bin KMul l r)) as Hs by exact Hn. clear Hn.
  unfold vm_type, node in T. rewrite Hs in T. cbn [is_k bk_eqb negb] in T. cbv zeta in T. cbn [olft orgt lft rgt] in T. rewrite !gte_some in T.
  fold (expo lt). fold (expo rt). fold (vm_power x lt rt). fold (vm_coef lt rt). rewrite Hs. cbn [olft orgt lft rgt].
  repeat (cbn beta iota zeta in *; dcase_any); cbn beta iota zeta in *;
    repeat match goal with H : Some _ = Some _ |- _ => inversion H; clear H; subst end; shapes;
    repeat match goal with H : gte (Some _) = _ |- _ => rewrite gte_some in H end;
    repeat match goal with H : negb _ = false |- _ => apply negb_false_iff in H end;
    repeat match goal with H : negb _ = true |- _ => apply negb_true_iff in H end;
    repeat match goal with H : ovar_eqb _ _ = true |- _ => apply ovar_eqb_eq in H end;
    try (solve [simpl in *; congruence]);
    try (solve [exfalso; match goal with H : isSome (t_var ?t) = false, E : _ = t_var ?t |- _ => rewrite <- E, VL in H; discriminate H
                                         | H : isSome (t_var ?t) = false |- _ => rewrite VL in H; discriminate H end]).
  all: cbn [get rbind olft orgt lft rgt]; intros [= <-]; cbn [fst]; apply (local_atk _ _ _ _ Hs).
  all: cbn [olft orgt lft rgt] in *; repeat match goal with H : gte (Some _) = _ |- _ => rewrite gte_some in H end.
  all: match goal with |- context[vm_coef ?lt' ?rt'] =>
         match goal with GL : get_term_ex false ?tl = Some lt', GR : get_term_ex false ?tr = Some rt', V : t_var lt' = Some ?x' |- _ =>
           let VR := fresh "VR" in assert (t_var rt' = Some x') as VR by congruence;
           pose proof (vm_pair_shape tl tr lt' rt' x' GL GR V VR) as Pair end end.
  all: first
    [ exact Pair
    | eapply keeps_trans; [apply vm_left_right_pos; exact Pair|]; unfold vm_simple;
        match goal with |- context[vm_coef ?a ?b] => destruct (vm_coef a b) as [[c|[ca cb]]|] end;
        [apply keeps_refl | apply regroup_lr2 | apply keeps_refl]
    | eapply keeps_trans; [apply vm_chained_pos; exact Pair|]; unfold vm_simple;
        match goal with |- context[vm_coef ?a ?b] => destruct (vm_coef a b) as [[c|[ca cb]]|] end;
        [apply regroup_ch1 | apply regroup_ch2 | apply keeps_refl] ].
Qed.
