(* npow (PowerExpression.operate in the model) against rpow (the real power of the specification). *)
From Coq Require Import List ZArith QArith Qround Qreals Qpower Reals Rpower Lra Lia Bool.
From Mathy Require Import Num Expr Util Sem.
From MathyProofs Require Import SemFacts NumSem.
Import ListNotations.
Open Scope R_scope.

Transparent rpow.
Lemma rpow_powerRZ r z : (r <> 0 \/ (0 <= z)%Z) -> rpow r (IZR z) = Some (powerRZ r z).
Proof.
  intros H. unfold rpow. destruct (Rlt_dec 0 r) as [Hp|Hn].
  - f_equal. symmetry. now apply powerRZ_Rpower.
  - destruct (Req_EM_T r 0) as [-> | Hne].
    + destruct H as [H|H]; [contradiction|].
      destruct (Rlt_dec 0 (IZR z)) as [Hz|Hz].
      * f_equal. apply lt_IZR in Hz. destruct z; try lia. simpl. rewrite pow_i; [reflexivity|]. apply Pos2Nat.is_pos.
      * destruct (Req_EM_T (IZR z) 0) as [E|E].
        -- apply eq_IZR in E. subst. reflexivity.
        -- exfalso. apply Hz. apply IZR_lt. assert (z <> 0)%Z by (intros ->; apply E; reflexivity). lia.
    + destruct (is_int (IZR z)) as [_|N]; [now rewrite Int_part_IZR|]. exfalso. apply N. eauto.
Qed.
Lemma rpow_zero_neg b : b < 0 -> rpow 0 b = None.
Proof.
  intros H. unfold rpow. destruct (Rlt_dec 0 0); [lra|]. destruct (Req_EM_T 0 0); [|contradiction].
  destruct (Rlt_dec 0 b); [lra|]. destruct (Req_EM_T b 0); [lra|reflexivity].
Qed.
Lemma rpow_zero_pos b : 0 < b -> rpow 0 b = Some 0.
Proof. intros H. unfold rpow. destruct (Rlt_dec 0 0); [lra|]. destruct (Req_EM_T 0 0); [|contradiction]. destruct (Rlt_dec 0 b); [reflexivity|lra]. Qed.
Lemma rpow_neg_nonint a b : a < 0 -> (~ exists z, b = IZR z) -> rpow a b = None.
Proof.
  intros Ha Hb. unfold rpow. destruct (Rlt_dec 0 a); [lra|]. destruct (Req_EM_T a 0); [lra|].
  destruct (is_int b) as [I|_]; [contradiction|reflexivity].
Qed.
Lemma rpow_one a : rpow a 1 = Some a.
Proof. change 1 with (IZR 1). destruct (Req_EM_T a 0) as [->|H]; [rewrite rpow_powerRZ by (right; lia)|rewrite rpow_powerRZ by (left; exact H)]; f_equal; simpl; ring. Qed.
(* definedness and value of the sum of exponents (variable multiply) *)
Lemma rpow_add_def a b c x y : rpow a b = Some x -> rpow a c = Some y -> rpow a (b + c) = Some (x * y).
Proof.
  unfold rpow. destruct (Rlt_dec 0 a).
  - intros [= <-] [= <-]. f_equal. apply Rpower_plus.
  - destruct (Req_EM_T a 0).
    + destruct (Rlt_dec 0 b); destruct (Rlt_dec 0 c); destruct (Rlt_dec 0 (b+c));
      repeat match goal with |- context[Req_EM_T ?u ?v] => destruct (Req_EM_T u v) end;
      intros; try discriminate;
      repeat match goal with H: Some _ = Some _ |- _ => inversion H; clear H; subst end; try (f_equal; lra); try lra.
    + destruct (is_int b) as [[zb Hb]|]; [|discriminate].
      destruct (is_int c) as [[zc Hc]|]; [|discriminate].
      intros [= <-] [= <-]. subst.
      destruct (is_int (IZR zb + IZR zc)) as [_|N]; [|exfalso; apply N; exists (zb + zc)%Z; now rewrite plus_IZR].
      rewrite <- plus_IZR, !Int_part_IZR. f_equal. now apply powerRZ_add.
Qed.
Global Opaque rpow.

(* rational powers *)
Lemma Q2R_pow_pos q p : Q2R (Qpower_positive q p) = (Q2R q) ^ (Pos.to_nat p).
Proof.
  unfold Qpower_positive. induction p as [p IH|p IH|]; simpl pow_pos.
  - rewrite !Q2R_mult, IH, Pos2Nat.inj_xI. simpl. rewrite Nat.add_0_r, pow_add. reflexivity.
  - rewrite Q2R_mult, IH, Pos2Nat.inj_xO. simpl. rewrite Nat.add_0_r, pow_add. reflexivity.
  - simpl. ring.
Qed.
Lemma Q2R_Qpower q z : (~ (q == 0)%Q \/ (0 <= z)%Z) -> Q2R (Qpower q z) = powerRZ (Q2R q) z.
Proof.
  intros H. destruct z as [|p|p]; simpl.
  - unfold Q2R. simpl. field.
  - apply Q2R_pow_pos.
  - destruct H as [H|H]; [|lia]. rewrite Q2R_inv.
    + now rewrite Q2R_pow_pos.
    + intros E. apply H. clear -E. revert E. unfold Qpower_positive.
      induction p as [p IH|p IH|]; simpl pow_pos; intros E.
      * apply Qmult_integral in E. destruct E as [E|E]; [exact E|]. apply Qmult_integral in E. destruct E; auto.
      * apply Qmult_integral in E. destruct E; auto.
      * exact E.
Qed.

Lemma nonintegral_R b y : is_intval b = None -> qv b = Some y -> ~ exists z, Q2R y = IZR z.
Proof.
  intros H Q (z & E). destruct b as [zb|q|]; simpl in *; try discriminate. inversion Q; subst y.
  destruct (Qeq_bool (inject_Z (Qfloor q)) q) eqn:B; [discriminate|].
  assert (q == inject_Z z)%Q as Eq by (apply eqR_Qeq; rewrite E, Q2R_inject_Z; reflexivity).
  assert (Qeq_bool (inject_Z (Qfloor q)) q = true); [|congruence].
  apply Qeq_bool_iff. rewrite Eq at 1. rewrite Qfloor_Z. symmetry. exact Eq.
Qed.
Lemma integral_R b z y : is_intval b = Some z -> qv b = Some y -> Q2R y = IZR z.
Proof.
  intros H Q. destruct b as [zb|q|]; simpl in *; try discriminate.
  - inversion H; inversion Q; subst. apply Q2R_inject_Z.
  - inversion Q; subst y. destruct (Qeq_bool (inject_Z (Qfloor q)) q) eqn:B; [|discriminate]. inversion H; subst z.
    apply Qeq_bool_eq in B. apply Qeq_eqR in B. rewrite <- B. apply Q2R_inject_Z.
Qed.

(* the model's power agrees with the specification's wherever the latter is defined *)
Definition npow_gen (x y:Q) (b:num) : powres :=
  match is_intval b with
  | Some z => if Qeq_bool x 0 && (z <? 0)%Z then PNum NNonFinite else PNum (NFlt (qpow x z))
  | None => match Qcompare x 0 with Lt => PNum NNonFinite | Eq => (if Qle_bool 0 y then PNum (NFlt 0) else PNum NNonFinite) | Gt => PInexact end
  end.
Lemma npow_unfold a b x y : qv a = Some x -> qv b = Some y -> (forall za zb, a = NInt za -> b = NInt zb -> False) -> npow a b = npow_gen x y b.
Proof.
  intros Qa Qb H. destruct a as [za|qa|], b as [zb|qb|]; simpl in Qa, Qb; try discriminate; inversion Qa; inversion Qb; subst;
    try reflexivity. exfalso. eapply H; reflexivity.
Qed.

Lemma int_case x y b z v : qv b = Some y -> rpow (Q2R x) (Q2R y) = Some v -> is_intval b = Some z ->
  (~ (x == 0)%Q \/ (0 <= z)%Z) -> Some v = Some (Q2R (Qpower x z)).
Proof.
  intros Qb Hv Hz Hok. rewrite (integral_R _ _ _ Hz Qb) in Hv. rewrite rpow_powerRZ in Hv.
  - rewrite <- Hv. f_equal. symmetry. now apply Q2R_Qpower.
  - destruct Hok as [Hx|Hz0]; [left; intros E; apply Hx; now apply Q2R_zero_iff|right; exact Hz0].
Qed.

Lemma npow_gen_sound x y b n v : qv b = Some y -> npow_gen x y b = PNum n -> rpow (Q2R x) (Q2R y) = Some v -> numR n = Some v.
Proof.
  intros Qb HP Hv. unfold npow_gen in HP.
  destruct (is_intval b) as [z|] eqn:Iz.
  - destruct (Qeq_bool x 0 && (z <? 0)%Z) eqn:Bad.
    + exfalso. apply andb_prop in Bad. destruct Bad as (B1 & B2). apply Qeq_bool_eq in B1. apply Z.ltb_lt in B2.
      rewrite (integral_R _ _ _ Iz Qb) in Hv. apply Q2R_zero_iff in B1. rewrite B1, rpow_zero_neg in Hv; [discriminate|now apply IZR_lt].
    + inversion HP; subst n. rewrite numR_flt. unfold qpow.
      assert (~ (x == 0)%Q \/ (0 <= z)%Z) as Hok.
      { apply andb_false_iff in Bad. destruct Bad as [B|B]; [left; intros E; apply Qeq_bool_iff in E; congruence|right; apply Z.ltb_ge in B; exact B]. }
      rewrite (int_case _ _ _ _ _ Qb Hv Iz Hok). f_equal. apply Qeq_eqR. apply Qred_correct.
  - pose proof (nonintegral_R _ _ Iz Qb) as NI.
    destruct (Qcompare x 0) eqn:C.
    + apply Qeq_alt in C. apply Q2R_zero_iff in C. rewrite C in Hv.
      destruct (Qle_bool 0 y) eqn:L; inversion HP; subst n.
      * apply Qle_bool_iff in L. apply Qle_Rle in L. replace (Q2R 0) with 0 in L by (unfold Q2R; simpl; lra).
        assert (0 < Q2R y) as P. { destruct L as [L|L]; [exact L|]. exfalso. apply NI. exists 0%Z. now rewrite <- L. }
        rewrite rpow_zero_pos in Hv by exact P. rewrite numR_flt. rewrite <- Hv. f_equal. unfold Q2R. simpl. lra.
      * exfalso. assert (Q2R y < 0) as P.
        { apply Rnot_le_lt. intros Q. assert (Q2R 0 <= Q2R y) as Q' by (replace (Q2R 0) with 0 by (unfold Q2R; simpl; lra); exact Q).
          apply Rle_Qle in Q'. apply Qle_bool_iff in Q'. congruence. }
        rewrite rpow_zero_neg in Hv by exact P. discriminate.
    + inversion HP; subst n. exfalso. apply Qlt_alt in C. apply Qlt_Rlt in C. replace (Q2R 0) with 0 in C by (unfold Q2R; simpl; lra).
      rewrite rpow_neg_nonint in Hv; [discriminate|exact C|exact NI].
    + discriminate.
Qed.

Theorem npow_sound a b n ra rb v :
  npow a b = PNum n -> numR a = Some ra -> numR b = Some rb -> rpow ra rb = Some v -> numR n = Some v.
Proof.
  intros HP Ha Hb Hv.
  destruct (numR_qv _ _ Ha) as (x & Qa & ->). destruct (numR_qv _ _ Hb) as (y & Qb & ->).
  destruct a as [za|qa|] eqn:Ea; [destruct b as [zb|qb|] eqn:Eb| |].
  - (* int ^ int *)
    simpl in Qa, Qb. inversion Qa; inversion Qb; subst x y. unfold npow in HP.
    destruct (0 <=? zb)%Z eqn:Ey.
    + apply Z.leb_le in Ey. inversion HP; subst n. rewrite numR_int.
      rewrite (int_case (inject_Z za) (inject_Z zb) (NInt zb) zb v eq_refl Hv eq_refl (or_intror Ey)).
      f_equal. rewrite Q2R_Qpower by (right; exact Ey). rewrite Q2R_inject_Z.
      destruct zb as [|p|p]; try lia; simpl; [reflexivity|]. rewrite Zpower_pos_powerRZ. reflexivity.
    + apply Z.leb_gt in Ey. destruct (za =? 0)%Z eqn:Ex.
      * apply Z.eqb_eq in Ex. subst za. exfalso. rewrite !Q2R_inject_Z in Hv. rewrite rpow_zero_neg in Hv; [discriminate|]. now apply IZR_lt.
      * apply Z.eqb_neq in Ex. inversion HP; subst n. rewrite numR_flt. unfold qpow.
        assert (~ (inject_Z za == 0)%Q) as Hx by (unfold Qeq; simpl; lia).
        rewrite (int_case (inject_Z za) (inject_Z zb) (NInt zb) zb v eq_refl Hv eq_refl (or_introl Hx)). f_equal. apply Qeq_eqR. apply Qred_correct.
  - rewrite (npow_unfold _ _ _ _ Qa Qb) in HP by (intros ? ? _ ?; discriminate). eapply npow_gen_sound; eauto.
  - simpl in Qb. discriminate.
  - rewrite (npow_unfold _ _ _ _ Qa Qb) in HP by (intros ? ? ?; discriminate). eapply npow_gen_sound; eauto.
  - simpl in Qa. discriminate.
Qed.
