(* Local soundness, part C: distributive factor-out and variable multiply (term arithmetic). *)
From Coq Require Import List NArith ZArith QArith Qround Qreals Reals Lra Lia Bool.
From Mathy Require Import Num Expr Util Rules Sem.
From MathyProofs Require Import ExprFacts SemFacts NumSem PowSem RulesSoundA RulesSoundB.
Import ListNotations.
Open Scope R_scope.

Lemma ovar_eqb_eq a b : ovar_eqb a b = true -> a = b.
Proof. destruct a, b; simpl; try discriminate; auto. intros H. apply N.eqb_eq in H. now subst. Qed.
Lemma onum_eqb_R a b : onum_eqb a b = true -> (a = None /\ b = None) \/ (exists x y, a = Some x /\ b = Some y /\ numR x = numR y).
Proof. destruct a, b; simpl; try discriminate; auto. intros H. right. apply num_eqb_R in H. destruct H. eauto. Qed.

Lemma num_eqb_refl_l a b : num_eqb a b = true -> num_eqb a a = true.
Proof. unfold num_eqb. destruct (qv a), (qv b); try discriminate. intros _. apply Qeq_bool_iff. reflexivity. Qed.
Lemma num_eqb_sym a b : num_eqb a b = true -> num_eqb b a = true.
Proof. unfold num_eqb. destruct (qv a), (qv b); try discriminate. intros H. apply Qeq_bool_iff. apply Qeq_bool_iff in H. now symmetry. Qed.
Lemma bind2_some a b f v : bind2 a b f = Some v -> exists x y, a = Some x /\ b = Some y /\ f x y = Some v.
Proof. destruct a, b; simpl; try discriminate. eauto. Qed.

Lemma coef_factor lt b fl :
  flookup (factor (match t_coef lt with Some c => c | None => one end)) b = Some fl ->
  exists rb rfl rc, numR b = Some rb /\ numR fl = Some rfl /\ coefR (t_coef lt) = Some rc /\ rb * rfl = rc.
Proof.
  intros H. apply flookup_R in H. destruct H as (rk & rw & rv & H1 & H2 & H3 & H4).
  exists rk, rw, rv. repeat split; auto. destruct (t_coef lt); simpl; auto. rewrite numR_one in H3. exact H3.
Qed.


(* the heart of factor-out: two terms with a common factor *)
Lemma factor_core lt rt f a b c l r :
  get_term_ex false l = Some lt -> get_term_ex false r = Some rt ->
  factor_add_terms_ex lt rt = Some f ->
  make_term (best f) (f_var f) (f_exp f) = Some a -> make_term (f_left f) (l_var f) (l_exp f) = Some b ->
  make_term (f_right f) (r_var f) (r_exp f) = Some c ->
  refines (Bin KAdd l r) (Bin KMul (Bin KAdd b c) a).
Proof.
  intros GL GR FA MA MB MC rho v D. cbn [den] in D.
  apply bind2_some in D. destruct D as (vl & vr & DL & DR & Hv). inversion Hv; subst; clear Hv.
  pose proof (get_term_ex_den rho _ _ _ GL DL) as TL. pose proof (get_term_ex_den rho _ _ _ GR DR) as TR.
  pose proof (get_term_ex_shape _ _ GL) as SL. pose proof (get_term_ex_shape _ _ GR) as SR.
  unfold term_den in TL, TR.
  apply bind2_some in TL. destruct TL as (cl & xl & CL & XL & EL). inversion EL; subst; clear EL.
  apply bind2_some in TR. destruct TR as (cr & xr & CR & XR & ER). inversion ER; subst; clear ER.
  (* open factor_add_terms_ex *)
  unfold factor_add_terms_ex in FA.
  destruct (common _ _) as [|c0 cs]; [discriminate|].
  set (bb := if isSome (t_var lt) || isSome (t_var rt) then nmin c0 (c0::cs) else nmax c0 (c0::cs)) in *.
  destruct (flookup _ bb) as [fl|] eqn:LL; [|discriminate].
  destruct (flookup (factor match t_coef rt with Some c => c | None => one end) bb) as [fr|] eqn:LR; [|discriminate].
  apply coef_factor in LL. destruct LL as (rb & rfl & rcl & Hb & Hfl & Hcl & Hmul).
  apply coef_factor in LR. destruct LR as (rb' & rfr & rcr & Hb' & Hfr & Hcr & Hmur).
  rewrite Hb in Hb'. inversion Hb'; subst rb'; clear Hb'.
  rewrite CL in Hcl. inversion Hcl; subst rcl; clear Hcl. rewrite CR in Hcr. inversion Hcr; subst rcr; clear Hcr.
  inversion FA; subst f; clear FA. cbn [best f_left f_right f_var f_exp l_exp r_exp l_var r_var] in *.
  pose proof (make_term_den rho _ _ _ _ MA) as DA. pose proof (make_term_den rho _ _ _ _ MB) as DB. pose proof (make_term_den rho _ _ _ _ MC) as DC.
  clear MA MB MC. cbn [den]. rewrite DA, DB, DC. clear DA DB DC. rewrite Hb, Hfl, Hfr.
  match goal with |- context[if (?a && ?b && ?c && ?d) then t_var lt else None] => destruct (a && b && c && d) eqn:SH end.
  - (* shared variable and exponent *)
    apply andb_prop in SH. destruct SH as (SH & BM). apply andb_prop in SH. destruct SH as (SH & VE).
    apply andb_prop in SH. destruct SH as (HL & HR). apply ovar_eqb_eq in VE.
    destruct (t_var lt) as [x|] eqn:VL; [|discriminate]. rewrite <- VE in *. cbn [isSome ovar_eqb andb negb].
    rewrite N.eqb_refl. cbn [negb andb].
    destruct (t_exp lt) as [kl|] eqn:XLe, (t_exp rt) as [kr|] eqn:XRe; cbn in BM; try discriminate.
    + destruct (num_eqb kl kr) eqn:EK; cbn in BM; [|discriminate].
      cbn [isSome onum_eqb andb]. rewrite (num_eqb_refl_l _ _ EK), (num_eqb_sym _ _ EK). cbn [negb].
      apply num_eqb_R in EK. destruct EK as (EK & _).
      cbn [varpow] in *. rewrite <- EK in XR. rewrite XL in XR. inversion XR; subst.
      rewrite XL. cbn. f_equal. subst; ring.
    + cbn [isSome onum_eqb andb varpow] in *. rewrite XL in XR. inversion XR; subst. rewrite XL. cbn. f_equal. subst; ring.
  - (* nothing shared *)
    assert ((if isSome (t_var lt) && negb (ovar_eqb (t_var lt) None) then t_var lt else None) = t_var lt) as EE1 by (destruct (t_var lt); reflexivity).
    assert ((if isSome (t_var rt) && negb (ovar_eqb (t_var rt) None) then t_var rt else None) = t_var rt) as EE2 by (destruct (t_var rt); reflexivity).
    assert ((if isSome (t_exp lt) && negb (onum_eqb (t_exp lt) None) then t_exp lt else None) = t_exp lt) as EE3 by (destruct (t_exp lt); reflexivity).
    assert ((if isSome (t_exp rt) && negb (onum_eqb (t_exp rt) None) then t_exp rt else None) = t_exp rt) as EE4 by (destruct (t_exp rt); reflexivity).
    rewrite EE1, EE2, EE3, EE4. rewrite XL, XR. cbn. f_equal. subst; ring.
Qed.

(* ---------- factor-out: the six tree positions ---------- *)
Lemma pos_left k t1 t2 R : refines (Bin KAdd t1 t2) R -> refines (Bin KAdd (Bin KAdd k t1) t2) (Bin KAdd k R).
Proof. intros H. eapply refines_trans; [apply add_assoc_l|]. now apply refines_binr. Qed.
Lemma pos_right t1 t2 k R : refines (Bin KAdd t1 t2) R -> refines (Bin KAdd t1 (Bin KAdd t2 k)) (Bin KAdd R k).
Proof. intros H. eapply refines_trans; [apply add_assoc_r|]. now apply refines_binl. Qed.
Lemma pos_both k1 t1 t2 k2 R : refines (Bin KAdd t1 t2) R -> refines (Bin KAdd (Bin KAdd k1 t1) (Bin KAdd t2 k2)) (Bin KAdd (Bin KAdd k1 R) k2).
Proof.
  intros H. eapply refines_trans; [apply add_assoc_r|]. apply refines_binl. now apply pos_left.
Qed.
Lemma pos_left_right ll lrl t1 t2 R : refines (Bin KAdd t1 t2) R ->
  refines (Bin KAdd (Bin KAdd ll (Bin KAdd lrl t1)) t2) (Bin KAdd (Bin KAdd ll lrl) R).
Proof.
  intros H. eapply refines_trans; [|apply refines_binr; exact H].
  intros rho v. cbn [den]. destruct (den rho ll), (den rho lrl), (den rho t1), (den rho t2); cbn [bind2 binop]; try discriminate.
  intros [= <-]. f_equal; ring.
Qed.
Lemma pos_right_left t1 t2 rlr rr R : refines (Bin KAdd t1 t2) R ->
  refines (Bin KAdd t1 (Bin KAdd (Bin KAdd t2 rlr) rr)) (Bin KAdd R (Bin KAdd rlr rr)).
Proof.
  intros H. eapply refines_trans; [|apply refines_binl; exact H].
  intros rho v. cbn [den]. destruct (den rho t1), (den rho t2), (den rho rlr), (den rho rr); cbn [bind2 binop]; try discriminate.
  intros [= <-]. f_equal; ring.
Qed.

Lemma gte_some e : gte (Some e) = get_term_ex false e. Proof. reflexivity. Qed.
Lemma gte_none : gte None = None. Proof. reflexivity. Qed.
Lemma mk_term_inv c v e t : mk_term c v e = ROk t -> make_term c v e = Some t.
Proof. unfold mk_term. destruct (make_term c v e); [intros [= <-]; reflexivity|discriminate]. Qed.

Ltac dcase T := match type of T with
  | context[if ?c then _ else _] => destruct c eqn:?; try discriminate T
  | context[match ?c with Some _ => _ | None => _ end] => destruct c eqn:?; try discriminate T
  end.

Theorem df_sound root p cst z : df_can root p cst = true -> df_apply root p = ROk z -> LocalAt root p (fst z).
Proof.
  intros _. unfold df_apply. destruct (df_type root p) as [[[pos lt] rt]|] eqn:T; [|discriminate].
  destruct (factor_add_terms_ex lt rt) as [f|] eqn:FA; [|discriminate].
  destruct (mk_term (best f) (f_var f) (f_exp f)) as [a|] eqn:MA; cbn [rbind]; [|discriminate]. apply mk_term_inv in MA.
  destruct (mk_term (f_left f) (l_var f) (l_exp f)) as [b|] eqn:MB; cbn [rbind]; [|discriminate]. apply mk_term_inv in MB.
  destruct (mk_term (f_right f) (r_var f) (r_exp f)) as [c|] eqn:MC; cbn [rbind]; [|discriminate]. apply mk_term_inv in MC.
  unfold df_type in T. unfold node in *. destruct (subtree root p) as [n|] eqn:Hs; [|simpl in T; discriminate].
  destruct (negb (is_k KAdd (Some n))) eqn:NA; [discriminate|]. apply negb_false_iff in NA.
  apply is_k_inv in NA. destruct NA as (l & r & [= ->]). cbv zeta in T. cbn [olft orgt lft rgt] in T. rewrite !gte_some in T.
  pose proof (fun t1 t2 => factor_core lt rt f a b c t1 t2) as Core.
  cbn [olft orgt lft rgt].
  repeat dcase T;
    try (match goal with H : false = true |- _ => discriminate H | H : true = false |- _ => discriminate H end);
    inversion T; subst pos lt rt; clear T; shapes;
    try (solve [simpl in *; congruence]);
    repeat match goal with H : gte (Some _) = _ |- _ => rewrite gte_some in H end;
    cbn [get rbind olft orgt lft rgt];
    intros [= <-]; cbn [fst]; apply (local_at _ _ _ _ Hs).
  all: first
    [ apply Core; assumption
    | apply pos_both; apply Core; assumption
    | apply pos_left; apply Core; assumption
    | apply pos_right; apply Core; assumption
    | apply pos_left_right; apply Core; assumption
    | apply pos_right_left; apply Core; assumption ].
Qed.

(* ---------- variable multiply ---------- *)
Lemma term_den_inv rho t v : term_den rho t = Some v ->
  exists c pw, coefR (t_coef t) = Some c /\ varpow rho (t_var t) (t_exp t) = Some pw /\ v = c * pw.
Proof.
  unfold term_den. intros H. apply bind2_some in H. destruct H as (c & pw & H1 & H2 & H3). inversion H3. eauto.
Qed.
Definition expo (t:termex) : num := match t_exp t with Some k => k | None => NInt 1 end.
Lemma varpow_expo rho t x pw : t_var t = Some x -> varpow rho (t_var t) (t_exp t) = Some pw ->
  exists xv ev, rho x = Some xv /\ numR (expo t) = Some ev /\ rpow xv ev = Some pw.
Proof.
  intros Hx. rewrite Hx. unfold varpow, expo. destruct (t_exp t) as [k|].
  - intros H. apply bind2_some in H. destruct H as (xv & ev & H1 & H2 & H3). eauto.
  - intros H. exists pw, 1. rewrite numR_int. repeat split; auto. apply rpow_one.
Qed.
Lemma power_den rho lt rt x p1 p2 :
  t_var lt = Some x -> t_var rt = Some x ->
  varpow rho (t_var lt) (t_exp lt) = Some p1 -> varpow rho (t_var rt) (t_exp rt) = Some p2 ->
  den rho (Bin KPow (Var x) (Bin KAdd (Const (expo lt)) (Const (expo rt)))) = Some (p1 * p2).
Proof.
  intros Hl Hr H1 H2.
  destruct (varpow_expo _ _ _ _ Hl H1) as (xv & e1 & X1 & E1 & P1).
  destruct (varpow_expo _ _ _ _ Hr H2) as (xv' & e2 & X2 & E2 & P2).
  rewrite X1 in X2. inversion X2; subst xv'.
  cbn [den]. rewrite X1, E1, E2. cbn [bind2 binop]. now apply rpow_add_def.
Qed.

Lemma vm_type_mul root p pos lt rt : vm_type root p = Some (pos, lt, rt) -> exists l r, node root p = Some (Bin KMul l r).
Proof.
  unfold vm_type. destruct (negb (is_k KMul (node root p))) eqn:E; [discriminate|]. apply negb_false_iff in E.
  apply is_k_inv in E. destruct E as (l & r & E). eauto.
Qed.

Definition vm_coef (lt rt:termex) : option (expr + (expr*expr)) :=
  match t_coef lt, t_coef rt with
  | Some a, Some b => Some (inr (Const a, Const b))
  | Some a, None => Some (inl (Const a))
  | None, Some b => Some (inl (Const b))
  | None, None => None end.
Definition vm_power (x:N) (lt rt:termex) : expr := Bin KPow (Var x) (Bin KAdd (Const (expo lt)) (Const (expo rt))).
Definition vm_simple (x:N) (lt rt:termex) : expr :=
  match vm_coef lt rt with
  | Some (inr (a,b)) => Bin KMul (Bin KMul a b) (vm_power x lt rt)
  | Some (inl c) => Bin KMul c (vm_power x lt rt)
  | None => vm_power x lt rt end.

(* two like-variable terms multiplied: (c1 x^e1)(c2 x^e2) = (c1 c2) x^(e1+e2) *)
Lemma vm_pair_sound tl tr lt rt x :
  get_term_ex false tl = Some lt -> get_term_ex false tr = Some rt -> t_var lt = Some x -> t_var rt = Some x ->
  refines (Bin KMul tl tr) (vm_simple x lt rt).
Proof.
  intros GL GR VL VR rho v D. cbn [den] in D. apply bind2_some in D. destruct D as (v1 & v2 & D1 & D2 & D3). cbn [binop] in D3. inversion D3; subst v; clear D3.
  pose proof (get_term_ex_den rho _ _ _ GL D1) as T1. pose proof (get_term_ex_den rho _ _ _ GR D2) as T2.
  apply term_den_inv in T1. destruct T1 as (c1 & p1 & C1 & P1 & ->). apply term_den_inv in T2. destruct T2 as (c2 & p2 & C2 & P2 & ->).
  pose proof (power_den rho lt rt x p1 p2 VL VR P1 P2) as DP. fold (vm_power x lt rt) in DP.
  unfold vm_simple, vm_coef, coefR in *. destruct (t_coef lt) as [ca|], (t_coef rt) as [cb|]; cbn [den]; rewrite DP;
    repeat match goal with H : numR _ = Some _ |- _ => rewrite H end;
    repeat match goal with H : Some _ = Some _ |- _ => inversion H; clear H; subst end; cbn [bind2 binop]; f_equal; ring.
Qed.
Lemma vm_chained_pos tl tr keep S : refines (Bin KMul tl tr) S -> refines (Bin KMul tl (Bin KMul tr keep)) (Bin KMul S keep).
Proof. intros H. eapply refines_trans; [apply mul_assoc_r|]. now apply refines_binl. Qed.
Lemma vm_left_right_pos keep tl tr S : refines (Bin KMul tl tr) S -> refines (Bin KMul (Bin KMul keep tl) tr) (Bin KMul keep S).
Proof. intros H. eapply refines_trans; [apply mul_assoc_l|]. now apply refines_binr. Qed.
(* regrouping of the coefficient factors in the chained results *)
Lemma regroup_ch2 a b pw k : refines (Bin KMul (Bin KMul (Bin KMul a b) pw) k) (Bin KMul a (Bin KMul b (Bin KMul pw k))). Proof. rsolve. Qed.
Lemma regroup_ch1 c pw k : refines (Bin KMul (Bin KMul c pw) k) (Bin KMul c (Bin KMul pw k)). Proof. rsolve. Qed.
Lemma regroup_lr2 k a b pw : refines (Bin KMul k (Bin KMul (Bin KMul a b) pw)) (Bin KMul k (Bin KMul b (Bin KMul a pw))). Proof. rsolve. Qed.

Ltac dcase_any :=
  match goal with
  | H : context[if ?c then _ else _] |- _ => lazymatch type of H with _ = _ => idtac end; destruct c eqn:?; try discriminate H
  | H : context[match ?c with Some _ => _ | None => _ end] |- _ => lazymatch type of H with _ = _ => idtac end; destruct c eqn:?; try discriminate H
  end.

Theorem vm_sound root p z : vm_can root p = true -> vm_apply root p = ROk z -> LocalAt root p (fst z).
Proof.
  intros _. unfold vm_apply. destruct (vm_type root p) as [[[pos lt] rt]|] eqn:T; [|discriminate].
  destruct (t_var lt) as [x|] eqn:VL; [|discriminate].
  destruct (vm_type_mul _ _ _ _ _ T) as (l & r & Hn). unfold node in *.
  assert (subtree root p = Some (Bin KMul l r)) as Hs by exact Hn. clear Hn.
  unfold vm_type, node in T. rewrite Hs in T. cbn [is_k bk_eqb negb] in T. cbv zeta in T. cbn [olft orgt lft rgt] in T. rewrite !gte_some in T.
  fold (expo lt). fold (expo rt). fold (vm_power x lt rt). fold (vm_coef lt rt). rewrite Hs. cbn [olft orgt lft rgt].
  repeat (cbn beta iota zeta in *; dcase_any); cbn beta iota zeta in *;
    repeat match goal with H : Some _ = Some _ |- _ => inversion H; clear H; subst end; shapes;
    repeat match goal with H : gte (Some _) = _ |- _ => rewrite gte_some in H end;
    repeat match goal with H : negb _ = false |- _ => apply negb_false_iff in H end;
    repeat match goal with H : negb _ = true |- _ => apply negb_true_iff in H end;
    repeat match goal with H : ovar_eqb _ _ = true |- _ => apply ovar_eqb_eq in H end;
    try (solve [simpl in *; congruence]);
    try (solve [exfalso; match goal with H : isSome (t_var ?t) = false, E : _ = t_var ?t |- _ => rewrite <- E, VL in H; discriminate H
                                         | H : isSome (t_var ?t) = false |- _ => rewrite VL in H; discriminate H end]).
  all: cbn [get rbind olft orgt lft rgt]; intros [= <-]; cbn [fst]; apply (local_at _ _ _ _ Hs).
  all: cbn [olft orgt lft rgt] in *; repeat match goal with H : gte (Some _) = _ |- _ => rewrite gte_some in H end.
  all: match goal with |- context[vm_coef ?lt' ?rt'] =>
         match goal with GL : get_term_ex false ?tl = Some lt', GR : get_term_ex false ?tr = Some rt', V : t_var lt' = Some ?x' |- _ =>
           let VR := fresh "VR" in assert (t_var rt' = Some x') as VR by congruence;
           pose proof (vm_pair_sound tl tr lt' rt' x' GL GR V VR) as Pair end end.
  all: first
    [ exact Pair
    | eapply refines_trans; [apply vm_left_right_pos; exact Pair|]; unfold vm_simple;
        match goal with |- context[vm_coef ?a ?b] => destruct (vm_coef a b) as [[c|[ca cb]]|] end;
        [apply refines_refl | apply regroup_lr2 | apply refines_refl]
    | eapply refines_trans; [apply vm_chained_pos; exact Pair|]; unfold vm_simple;
        match goal with |- context[vm_coef ?a ?b] => destruct (vm_coef a b) as [[c|[ca cb]]|] end;
        [apply regroup_ch1 | apply regroup_ch2 | apply refines_refl] ].
Qed.
