(* C16: has_like_terms over SIGNED sums. TermsFacts.has_like_terms_perm treats a difference below a sum as one opaque addend;
   here the added terms of a sum are the maximal operands that are neither + nor - (t1 - t2 + t3 has the terms t1, t2, t3), and
   two sums or differences whose terms are permutations of each other get the same answer, however they are grouped and whichever
   of them are subtracted. *)
From Coq Require Import List NArith ZArith QArith Bool Lia Arith Permutation.
From Mathy Require Import Num Expr Printer Util Terms.
From MathyProofs Require Import ExprFacts TermsFacts.
Import ListNotations.
Local Open Scope nat_scope.

Fixpoint saddends (e:expr) : list expr :=
  match e with Bin KAdd l r => saddends l ++ saddends r | Bin KSub l r => saddends l ++ saddends r | _ => [e] end.

Lemma okey_addsub_parent' x e : is_addsub_e e = true -> okey x (Some e) = okey x (Some A0).
Proof. intros H. apply okey_addsub_parent; [exact H|reflexivity]. Qed.

Lemma G_sperm : forall x, Permutation (G x) (flat_map G (saddends x)).
Proof.
  assert (forall x, saddends x = [x] -> Permutation (G x) (flat_map G (saddends x))) as Single.
  { intros x ->. cbn [flat_map]. rewrite app_nil_r. reflexivity. }
  assert (forall k l r, is_addsub_e (Bin k l r) = true -> Permutation (G l) (flat_map G (saddends l)) -> Permutation (G r) (flat_map G (saddends r)) ->
          saddends (Bin k l r) = saddends l ++ saddends r -> Permutation (G (Bin k l r)) (flat_map G (saddends (Bin k l r)))) as Step.
  { intros k l r Hk IHl IHr Hs. rewrite Hs, flat_map_app.
    apply Permutation_trans with (G l ++ G r); [|apply Permutation_app; assumption].
    unfold G at 1. rewrite Hk. cbn [K app]. rewrite Hk.
    rewrite (okey_addsub_parent' l (Bin k l r) Hk), (okey_addsub_parent' r (Bin k l r) Hk).
    unfold G. set (a := if is_addsub_e l then [] else okey l (Some A0)). set (b := if is_addsub_e r then [] else okey r (Some A0)).
    apply Permutation_trans with ((K l ++ a) ++ (b ++ K r)); [rewrite <- !app_assoc; reflexivity|].
    apply Permutation_app_tail. apply Permutation_app_comm. }
  induction x as [n|v|u c IH|k l IHl r IHr]; try (apply Single; reflexivity).
  destruct k; try (apply Single; reflexivity); apply Step; auto.
Qed.

Lemma fc_saddends : forall x, free_consts x true = list_sum (map (fun a => free_consts a true) (saddends x)).
Proof.
  assert (forall x, saddends x = [x] -> free_consts x true = list_sum (map (fun a => free_consts a true) (saddends x))) as Single.
  { intros x ->. cbn. lia. }
  induction x as [n|v|u c IH|k l IHl r IHr]; try (apply Single; reflexivity).
  destruct k; try (apply Single; reflexivity); cbn [saddends]; rewrite map_app, list_sum_app, <- IHl, <- IHr; reflexivity.
Qed.

Lemma has_like_terms_char e : is_addsub_e e = true ->
  has_like_terms e [] = has_dup (flat_map G (saddends e)) || Nat.leb 2 (list_sum (map (fun a => free_consts a true) (saddends e))).
Proof.
  intros He. destruct e as [| | |k l r]; try discriminate He.
  unfold has_like_terms. cbn [subtree]. f_equal.
  - rewrite <- (has_dup_perm _ _ (G_sperm (Bin k l r))). unfold G. rewrite He. cbn [app].
    unfold get_terms. assert (M : is_mul_e (Bin k l r) = false) by (destruct k; try discriminate He; reflexivity). rewrite M. cbn [app].
    rewrite <- (bridge (Bin k l r) (Bin k l r) [] eq_refl).
    destruct (flat_map (term_children (Bin k l r)) (inorder_paths (Bin k l r) [])) eqn:E; [|reflexivity].
    rewrite has_dup_small; [reflexivity|]. unfold term_keys. cbn [flat_map]. destruct (get_term _ _); cbn; lia.
  - rewrite <- fc_saddends. unfold parent. cbn. destruct k; try discriminate He; reflexivity.
Qed.

Theorem has_like_terms_signed_perm e1 e2 : is_addsub_e e1 = true -> is_addsub_e e2 = true ->
  Permutation (saddends e1) (saddends e2) -> has_like_terms e1 [] = has_like_terms e2 [].
Proof.
  intros H1 H2 P. rewrite (has_like_terms_char e1 H1), (has_like_terms_char e2 H2). f_equal.
  - apply has_dup_perm. apply Permutation_flat_map. exact P.
  - f_equal. apply list_sum_perm. apply Permutation_map. exact P.
Qed.
