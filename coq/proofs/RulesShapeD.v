(* Whole-tree structure preservation: every applicable rewrite - balanced move included - of a tree with at most one '=' (at the
   root), no '=' below it and factorial only of literals gives such a tree again. With the variable-set theorem (RulesVarsD) this
   is the closure of C04's printable class under the rules, up to the printability of the constants a rule creates. *)
From Coq Require Import List NArith ZArith Lia Bool.
From Mathy Require Import Num Expr Util Rules Sem Walk.
From MathyProofs Require Import ExprFacts SemFacts RulesSoundD.
From MathyProofs Require Import ShapeFacts RulesShapeA RulesShapeB RulesShapeC.
Import ListNotations.

(* a rule never reports applicable at a leaf (balanced move aside, which is not a local replacement) *)
Lemma applicable_at_operator r root p n : not_balanced r = true -> node root p = Some n -> can_apply root p r = true -> is_op n.
Proof.
  intros NB N C. destruct n as [c|v|u c|k l r0]; cbn [is_op]; auto; exfalso; unfold can_apply in C; rewrite N in C;
    destruct r; try discriminate NB;
    unfold assoc_can, comm_can, const_type, df_can, df_type, dm_can, mi_can, rs_type, vm_can, vm_type in C; rewrite ?N in C; cbn in C; try discriminate C;
    try (destruct preferred; discriminate C).
Qed.
Lemma parent_is_op : forall q root d x, subtree root (q ++ [d]) = Some x -> exists a, subtree root q = Some a /\ is_op a.
Proof.
  intros q root d x H. rewrite subtree_app in H. destruct (subtree root q) as [a|]; [|discriminate]. exists a. split; [reflexivity|].
  destruct a; destruct d; cbn in H; try discriminate; exact I.
Qed.
Lemma sk0_not_eq e : sk0 e -> sk1 e.
Proof. destruct e as [| | |[] ? ?]; cbn [sk0 sk1]; tauto. Qed.
Lemma sk0_subtree : forall q e n, sk0 e -> subtree e q = Some n -> sk0 n.
Proof.
  induction q as [|d q IH]; intros e n H S; [cbn in S; inversion S; subst; exact H|].
  destruct e as [| |u c|k l r]; destruct d; cbn [subtree] in S; try discriminate.
  - destruct u; cbn [sk0] in H; try contradiction; try (eapply IH; eauto; fail). destruct H as (m & ->). destruct q; cbn in S; [inversion S; exact I|discriminate].
  - destruct k; cbn [sk0] in H; try contradiction; eapply IH; eauto; tauto.
  - destruct k; cbn [sk0] in H; try contradiction; eapply IH; eauto; tauto.
Qed.

(* one local replacement below or at the root *)
Lemma sk1_replace root q a b : sk1 root -> subtree root q = Some a -> is_op a -> keeps a b -> (forall l r, a <> Bin KEq l r) -> sk1 (replace root q b).
Proof.
  intros S Hs Op K NE. destruct q as [|d q].
  - cbn in Hs. inversion Hs; subst a. cbn [replace]. apply sk0_not_eq. apply (sk_elim _ _ K).
    destruct root as [| | |[] ? ?]; cbn [sk1] in S; try exact S. exfalso. eapply NE; reflexivity.
  - destruct root as [c|v|u c|k l r]; destruct d; cbn [subtree] in Hs; try discriminate.
    + apply sk0_not_eq. apply (sk_elim _ _ (keeps_replace (DR :: q) (Un u c) a b Hs Op K)). exact S.
    + destruct k; try (apply sk0_not_eq; apply (sk_elim _ _ (keeps_replace (DL :: q) (Bin _ l r) a b Hs Op K)); exact S).
      cbn [replace sk1] in *. split; [|tauto]. apply (sk_elim _ _ (keeps_replace q l a b Hs Op K)). tauto.
    + destruct k; try (apply sk0_not_eq; apply (sk_elim _ _ (keeps_replace (DR :: q) (Bin _ l r) a b Hs Op K)); exact S).
      cbn [replace sk1] in *. split; [tauto|]. apply (sk_elim _ _ (keeps_replace q r a b Hs Op K)). tauto.
Qed.

Theorem step_keeps_structure ru root p z : not_balanced ru = true -> sk1 root -> can_apply root p ru = true -> apply root p ru = ROk z -> sk1 (fst z).
Proof.
  intros NB S C A. pose proof C as C0. pose proof A as A0. unfold can_apply, apply in C, A. destruct (node root p) as [n|] eqn:N; [|discriminate].
  pose proof (applicable_at_operator ru root p n NB N C0) as Op.
  (* at an equation node only the flip applies *)
  destruct n as [c|v|u c|k l0 r0] eqn:En; try contradiction.
  2: destruct (bk_eqb k KEq) eqn:KE.
  2: { apply bk_eqb_eq in KE. subst k. destruct (at_equation_only_comm ru root p l0 r0 N C0 NB) as (pr & ->).
       unfold comm_apply in A. rewrite N in A. inversion A; subst z. cbn [fst].
       (* the equation is the root (no '=' below the root in sk1) *)
       unfold node in N. destruct p as [|d p'].
       - cbn in N. inversion N; subst root. cbn [replace sk1] in *. tauto.
       - exfalso. destruct root as [| |u c|k l r]; destruct d; cbn [subtree] in N; try discriminate.
         + assert (sk0 (Un u c)) as S0 by exact S. pose proof (sk0_subtree (DR :: p') (Un u c) _ S0 N) as X. exact X.
         + destruct k; cbn [sk1] in S; try (pose proof (sk0_subtree (DL :: p') (Bin _ l r) _ S N) as X; exact X). pose proof (sk0_subtree p' l _ (proj1 S) N) as X. exact X.
         + destruct k; cbn [sk1] in S; try (pose proof (sk0_subtree (DR :: p') (Bin _ l r) _ S N) as X; exact X). pose proof (sk0_subtree p' r _ (proj2 S) N) as X. exact X. }
  all: assert (NEQ : forall l r, n <> Bin KEq l r) by (subst n; intros l r Q; try discriminate Q; inversion Q; subst; discriminate KE).
  all: rewrite <- En in *; clear En.
  all: destruct ru; try discriminate NB.
  all: try (match goal with
       | |- _ => first [ destruct (comm_shape _ _ _ _ C A) as (a & b & Hs & E & K) | destruct (const_shape _ _ _ C A) as (a & b & Hs & E & K)
                       | destruct (df_shape _ _ _ _ C A) as (a & b & Hs & E & K) | destruct (dm_shape _ _ _ C A) as (a & b & Hs & E & K)
                       | destruct (mi_shape _ _ _ C A) as (a & b & Hs & E & K) | destruct (rs_shape _ _ _ C A) as (a & b & Hs & E & K)
                       | destruct (vm_shape _ _ _ C A) as (a & b & Hs & E & K) ];
         rewrite E; unfold node in N; rewrite N in Hs; inversion Hs; subst a; eapply sk1_replace; eauto end).
  (* the rotation: the replaced node is the parent *)
  all: destruct (assoc_shape _ _ _ C A) as (q & d & PP & (a & b & Hs & E & K) & KK); rewrite E;
    pose proof (parent_path_app _ _ _ PP) as Ep; subst p; unfold node in N;
    destruct (parent_is_op q root d n N) as (a' & Ha' & Opa); rewrite Hs in Ha'; inversion Ha'; subst a';
    eapply sk1_replace; eauto; intros l r ->; destruct KK as [KK|KK]; rewrite Hs in KK; cbn in KK; discriminate.
Qed.

(* balanced move: both sides rebuilt from pieces of the old sides *)
Lemma keeps_drop_child : forall q e pe sib, subtree e q = Some pe -> is_op pe -> (sk0 pe -> sk0 sib) -> sk0 e -> sk0 (replace e q sib).
Proof. intros q e pe sib Hs Op K S. apply (sk_elim _ _ (keeps_replace q e pe sib Hs Op (SK _ _ K))). exact S. Qed.

Theorem bm_keeps_structure root p z : sk1 root -> bm_can root p = true -> bm_apply root p = ROk z -> sk1 (fst z).
Proof.
  intros S. unfold bm_can, bm_apply. destruct (bm_type root p) as [t|] eqn:T; [|discriminate]. intros _.
  unfold bm_type in T. destruct root as [| | |k rl rr]; try discriminate. destruct k; try discriminate. cbn [sk1] in S. destruct S as (Sl & Sr).
  destruct (is_k KEq (par (Bin KEq rl rr) p)) eqn:PE; [discriminate|].
  destruct (is_k KMul (par (Bin KEq rl rr) p) && is_const (node (Bin KEq rl rr) p)) eqn:MC.
  - apply andb_prop in MC. destruct MC as (_ & NC). apply is_const_inv in NC. destruct NC as (c & NC). rewrite NC in *. cbn [cval] in T.
    destruct (truthy c) eqn:TR; [|discriminate].
    destruct p as [|s q']; [simpl in T; discriminate|]. cbn [root_side] in T.
    assert (t = B_MUL) as -> by (destruct s; [destruct (contains_add rl)|destruct (contains_add rr)]; try discriminate; inversion T; reflexivity).
    intros [= <-]. cbn [fst sk1 sk0]. tauto.
  - destruct (is_k KAdd (par (Bin KEq rl rr) p)) eqn:PA; [|discriminate].
    destruct ((is_const (node (Bin KEq rl rr) p) || isSome (gte (node (Bin KEq rl rr) p))) && top_level_addend (Bin KEq rl rr) p) eqn:TA; [|discriminate].
    inversion T; subst t. clear T.
    destruct (node (Bin KEq rl rr) p) as [n|] eqn:N; [|discriminate].
    destruct (parent_path p) as [[q d]|] eqn:PP; [|discriminate].
    destruct (sibling (Bin KEq rl rr) p) as [sib|] eqn:SB; [|discriminate].
    pose proof (parent_path_app _ _ _ PP) as ->.
    unfold sibling in SB. rewrite PP in SB. unfold node in N.
    destruct q as [|s q0].
    { unfold par, parent in PA. simpl in PA. discriminate. }
    assert (root_side ((s :: q0) ++ [d]) = Some s) as RS by reflexivity. rewrite RS.
    assert (forall e, sk0 e -> subtree e (q0 ++ [d]) = Some n ->
              match subtree e q0 with Some pe => match d with DL => rgt pe | DR => lft pe end | None => None end = Some sib ->
              sk0 (replace e q0 sib) /\ sk0 n) as KEY.
    { intros e Se Hn Hsib. split; [|eapply sk0_subtree; eauto].
      destruct (parent_is_op q0 e d n Hn) as (pe & Hpe & Op). rewrite Hpe in Hsib.
      apply (keeps_drop_child q0 e pe sib Hpe Op); [|exact Se].
      destruct pe as [c0|v0|u0 c0|k0 a0 b0]; destruct d; cbn [lft rgt] in Hsib; try discriminate; inversion Hsib; subst.
      - destruct u0; cbn [sk0]; auto; try contradiction. intros (m & ->). exact I.
      - destruct k0; cbn [sk0]; tauto.
      - destruct k0; cbn [sk0]; tauto. }
    destruct s; simpl in SB, N |- *.
    + intros [= <-]. cbn [fst sk1 sk0]. destruct (KEY rl Sl N SB). tauto.
    + intros [= <-]. cbn [fst sk1 sk0]. destruct (KEY rr Sr N SB). tauto.
Qed.

(* every applicable rewrite, of every rule, keeps the structure *)
Theorem any_step_keeps_structure ru root p z : sk1 root -> can_apply root p ru = true -> apply root p ru = ROk z -> sk1 (fst z).
Proof.
  intros S C A. destruct (not_balanced ru) eqn:NB; [eapply step_keeps_structure; eauto|].
  destruct ru; try discriminate NB. unfold can_apply, apply in *. destruct (node root p); [|discriminate]. eapply bm_keeps_structure; eauto.
Qed.
Lemma run_keeps_structure : forall steps root final, sk1 root -> run root steps = Some final -> sk1 final.
Proof.
  induction steps as [|[r p] rest IH]; intros root final S R; cbn [run] in R.
  - inversion R; subst. exact S.
  - destruct (can_apply root p r) eqn:C; [|discriminate]. destruct (apply root p r) as [[root' p']|] eqn:A; [|discriminate].
    apply (IH root' final); [|exact R]. exact (any_step_keeps_structure r root p (root', p') S C A).
Qed.
