(* C04, part 6: constants with a finite decimal expansion (up to 40 places) satisfy the round-trip condition: the printed decimal
   text reads back to the same rational. *)
From Coq Require Import List NArith ZArith QArith Qround Bool Lia Arith.
From Mathy Require Import Tok Params TokSet Lexer Num Expr Parser Grammar Printer.
From MathyProofs Require Import ParamsFacts LexerFacts ProblemsFacts PrintTokens PrintInt.
Import ListNotations.
Local Open Scope Z_scope.

Lemma dec_int_app l1 l2 a : dec_int (l1 ++ l2) a = dec_int l2 (dec_int l1 a).
Proof. revert a. induction l1 as [|c l1 IH]; intros a; cbn [app dec_int]; auto. Qed.
Lemma val_app l1 l2 : val (l1 ++ l2) = val l1 * 10 ^ Z.of_nat (length l2) + val l2.
Proof. unfold val at 1. rewrite dec_int_app, dec_int_acc. reflexivity. Qed.
Lemma val_zeros j : val (repeat 48%N j) = 0.
Proof. induction j as [|j IH]; [reflexivity|]. cbn [repeat]. rewrite val_cons, IH. unfold digit. cbn. lia. Qed.
Lemma strip0_spec l : exists j, l = strip0 l ++ repeat 48%N j.
Proof.
  induction l as [|c r (j & IH)]; [exists 0%nat; reflexivity|]. cbn [strip0]. destruct (strip0 r) as [|x r'] eqn:SR.
  - cbn [app] in IH. destruct (c =? 48)%N eqn:E.
    + apply N.eqb_eq in E. subst c. exists (S j). cbn [app repeat]. now rewrite <- IH.
    + exists j. cbn [app]. now rewrite <- IH.
  - exists j. cbn [app]. rewrite IH at 1. reflexivity.
Qed.
Lemma strip0_forall (Pd:N -> Prop) l : Forall Pd l -> Forall Pd (strip0 l).
Proof.
  induction 1 as [|c r Hc Hr IH]; cbn [strip0]; [constructor|]. destruct (strip0 r) as [|x r']; [destruct (c =? 48)%N; repeat constructor; auto|constructor; auto].
Qed.
Lemma digits_len : forall fuel z acc j, 0 <= z < 10 ^ Z.of_nat j -> (1 <= j)%nat -> (length (digits_pos fuel z acc) <= length acc + j)%nat.
Proof.
  induction fuel as [|f IH]; intros z acc j Hz Hj; cbn [digits_pos]; [lia|]. destruct (z <? 10) eqn:E; [cbn [length]; lia|].
  apply Z.ltb_ge in E. destruct j as [|[|j']]; [lia|cbn in Hz; lia|].
  eapply Nat.le_trans; [apply (IH (z / 10) _ (S j'))|cbn [length]; lia]; [|lia].
  split; [apply Z.div_pos; lia|]. apply Z.div_lt_upper_bound; [lia|]. rewrite Nat2Z.inj_succ, Z.pow_succ_r in Hz by lia. lia.
Qed.
Lemma show_nat_len z k : 0 <= z < 10 ^ Z.of_nat k -> (1 <= k)%nat -> (length (show_nat z) <= k)%nat.
Proof. intros Hz Hk. unfold show_nat. pose proof (digits_len (S (Z.to_nat (Z.log2 (Z.max z 1)))) z [] k Hz Hk). cbn [length] in H. lia. Qed.
Lemma find_k_spec d : forall fuel k0 k, find_k fuel k0 d = Some k -> (10 ^ Z.of_nat k) mod d = 0 /\ (k0 <= k)%nat.
Proof.
  induction fuel as [|f IH]; intros k0 k; cbn [find_k]; [discriminate|]. destruct ((10 ^ Z.of_nat k0) mod d =? 0) eqn:E.
  - intros [= <-]. apply Z.eqb_eq in E. split; [exact E|lia].
  - intros H. destruct (IH _ _ H) as [A B]. split; [exact A|lia].
Qed.
Lemma pad0_spec k l : (length l <= k)%nat -> length (pad0 k l) = k /\ val (pad0 k l) = val l /\ (Forall digit_c l -> Forall digit_c (pad0 k l)).
Proof.
  intros H. unfold pad0. split; [rewrite app_length, repeat_length; lia|]. split.
  - rewrite val_app, val_zeros. lia.
  - intros F. apply Forall_app. split; [|exact F]. apply Forall_forall. intros x Hx. apply repeat_spec in Hx. subst x. unfold digit_c. lia.
Qed.

Lemma digit_not_dot l : Forall digit_c l -> existsb (fun c => (c =? 46)%N) l = false.
Proof. induction 1 as [|c l Hc _ IH]; cbn [existsb]; [reflexivity|]. rewrite IH, orb_false_r. apply N.eqb_neq. unfold digit_c in Hc. lia. Qed.

Lemma Qdiv_cross (a b c e:Q) : (~ e == 0 -> ~ b == 0 -> a * e == c * b -> a / b == c / e)%Q.
Proof.
  intros Ne Nb H. assert (a / b == (a * e) / (b * e))%Q as -> by (field; split; assumption). rewrite H. field. split; assumption.
Qed.
Theorem const_text_dec q k : Z.pos (Qden (Qred q)) <> 1 -> find_k 40 1 (Z.pos (Qden (Qred q))) = Some k ->
  exists neg run v, const_text (NFlt q) neg run v.
Proof.
  intros D1 FK. set (q' := Qred q) in *. set (n := Qnum q'). set (d := Z.pos (Qden q')) in *.
  destruct (find_k_spec d 40 1 k FK) as [DIV K1].
  set (T := 10 ^ Z.of_nat k). assert (Tpos : 0 < T) by (apply Z.pow_pos_nonneg; lia).
  assert (dpos : 0 < d) by (subst d; lia).
  assert (TD : T / d * d = T) by (pose proof (Z.div_mod T d ltac:(lia)); fold T in DIV; lia).
  set (m := Z.abs n * (T / d)). set (ip := m / T). set (fp := m mod T).
  assert (Mnn : 0 <= m) by (subst m; apply Z.mul_nonneg_nonneg; [apply Z.abs_nonneg|apply Z.div_pos; lia]).
  assert (FP : 0 <= fp < T) by (subst fp; apply Z.mod_pos_bound; lia).
  assert (IPnn : 0 <= ip) by (subst ip; apply Z.div_pos; lia).
  assert (MD : m = ip * T + fp) by (subst ip fp; pose proof (Z.div_mod m T ltac:(lia)); lia).
  set (Pd := pad0 k (show_nat fp)). set (fds := strip0 Pd).
  destruct (pad0_spec k (show_nat fp) (show_nat_len fp k FP K1)) as (LP & VP & FPd). fold Pd in LP, VP, FPd.
  assert (DP : Forall digit_c Pd) by (apply FPd, show_nat_digits; lia).
  assert (DF : Forall digit_c fds) by (now apply strip0_forall).
  destruct (strip0_spec Pd) as (j & SP). fold fds in SP.
  assert (VF : val fds * 10 ^ Z.of_nat j = fp).
  { rewrite <- (val_show_nat fp) by lia. rewrite <- VP, SP, val_app, val_zeros, repeat_length. fold fds. lia. }
  assert (LJ : (length fds + j = k)%nat) by (rewrite <- LP, SP at 1; rewrite app_length, repeat_length; fold fds; reflexivity).
  set (L := length fds) in *. set (A := ip * 10 ^ Z.of_nat L + val fds).
  assert (AJ : A * 10 ^ Z.of_nat j = m).
  { subst A. rewrite Z.mul_add_distr_r, <- Z.mul_assoc, <- Z.pow_add_r, <- Nat2Z.inj_add, LJ by lia. fold T. lia. }
  assert (Jpos : 0 < 10 ^ Z.of_nat j) by (apply Z.pow_pos_nonneg; lia).
  assert (Bpos : 0 < 10 ^ Z.of_nat L) by (apply Z.pow_pos_nonneg; lia).
  assert (KEY : A * d = Z.abs n * 10 ^ Z.of_nat L).
  { apply (Z.mul_reg_r _ _ (10 ^ Z.of_nat j)); [lia|].
    replace (A * d * 10 ^ Z.of_nat j) with (m * d) by (rewrite <- AJ; ring).
    replace (Z.abs n * 10 ^ Z.of_nat L * 10 ^ Z.of_nat j) with (Z.abs n * T) by (subst T; rewrite <- Z.mul_assoc, <- Z.pow_add_r, <- Nat2Z.inj_add, LJ by lia; reflexivity).
    subst m. rewrite <- Z.mul_assoc, TD. reflexivity. }
  exists (n <? 0), (show_nat ip ++ 46%N :: fds), (NFlt (Qred (Qmake (dec_int (show_nat ip ++ fds) 0) 1 / Qmake (10 ^ Z.of_nat L) 1))).
  unfold const_text. split; [|split; [|split; [|split]]].
  - cbn [show_num]. fold q'. fold n. fold d. destruct (d =? 1) eqn:E; [apply Z.eqb_eq in E; contradiction|]. rewrite FK. reflexivity.
  - rewrite forallb_app. apply andb_true_iff. split.
    + apply forallb_forall. intros x Hx. apply digit_is_number. pose proof (show_nat_digits ip IPnn) as F. rewrite Forall_forall in F. auto.
    + cbn [forallb]. apply andb_true_iff. split; [reflexivity|]. apply forallb_forall. intros x Hx. apply digit_is_number. rewrite Forall_forall in DF. auto.
  - intros Q. apply app_eq_nil in Q. destruct Q as [_ Q]. discriminate Q.
  - unfold coerce. rewrite split_dot_digits by (apply show_nat_digits; exact IPnn). cbn [split_dot N.eqb Pos.eqb fst snd].
    rewrite (digit_not_dot fds DF). rewrite app_nil_r. destruct (show_nat ip) eqn:SN; [exfalso; exact (show_nat_nonempty ip SN)|]. rewrite <- SN. reflexivity.
  - (* the value *)
    assert (VA : dec_int (show_nat ip ++ fds) 0 = A).
    { change (dec_int (show_nat ip ++ fds) 0) with (val (show_nat ip ++ fds)). rewrite val_app, (val_show_nat ip IPnn). reflexivity. }
    rewrite VA. unfold num_equiv. 
    assert (QV : (Qred (Qmake A 1 / Qmake (10 ^ Z.of_nat L) 1) == inject_Z (Z.abs n) / inject_Z d)%Q).
    { rewrite Qred_correct. change (Qmake A 1) with (inject_Z A). change (Qmake (10 ^ Z.of_nat L) 1) with (inject_Z (10 ^ Z.of_nat L)).
      assert (inject_Z A * inject_Z d == inject_Z (Z.abs n) * inject_Z (10 ^ Z.of_nat L))%Q as E by (rewrite <- !inject_Z_mult, KEY; reflexivity).
      assert (~ inject_Z d == 0)%Q as Nd by (unfold Qeq; cbn; lia).
      assert (~ inject_Z (10 ^ Z.of_nat L) == 0)%Q as Nb by (unfold Qeq; cbn; lia).
      apply Qdiv_cross; assumption. }
    assert (QQ : (q == inject_Z n / inject_Z d)%Q).
    { rewrite <- (Qred_correct q). fold q'. destruct q' as [qn qd]. subst n d. cbn [Qnum Qden]. apply Qmake_Qdiv. }
    destruct (n <? 0) eqn:E; cbn [nneg qv].
    + apply Z.ltb_lt in E. rewrite QV, QQ. rewrite Z.abs_neq by lia. rewrite inject_Z_opp. field. unfold Qeq; cbn; lia.
    + apply Z.ltb_ge in E. rewrite QV, QQ. rewrite Z.abs_eq by lia. reflexivity.
Qed.

(* every constant that has a text at all (finite, at most 40 decimal places) satisfies the round-trip condition *)
Theorem const_text_all c : show_num c <> None -> exists neg run v, const_text c neg run v.
Proof.
  destruct c as [z|q|]; intros H.
  - exists (z <? 0), (show_nat (Z.abs z)), (NInt (Z.abs z)). apply const_text_int.
  - destruct (Z.eq_dec (Z.pos (Qden (Qred q))) 1) as [E|NE].
    + (* an integral float prints as an integer *)
      set (n := Qnum (Qred q)). exists (n <? 0), (show_nat (Z.abs n)), (NInt (Z.abs n)).
      destruct (const_text_int n) as (Hs & Hf & Hne & Hc & _). unfold const_text. split; [|split; [|split; [|split]]]; try assumption.
      * cbn [show_num]. fold n. rewrite E. cbn [Z.eqb Pos.eqb]. cbn [show_num] in Hs. exact Hs.
      * unfold num_equiv. assert (q == inject_Z n)%Q as QQ.
        { rewrite <- (Qred_correct q). destruct (Qred q) as [qn qd] eqn:EQ. cbn [Qden] in E. inversion E; subst qd. subst n. cbn [Qnum]. reflexivity. }
        destruct (n <? 0) eqn:L; cbn [nneg qv]; [apply Z.ltb_lt in L|apply Z.ltb_ge in L]; rewrite QQ; unfold Qeq; cbn; lia.
    + destruct (find_k 40 1 (Z.pos (Qden (Qred q)))) as [k|] eqn:FK.
      * exact (const_text_dec q k NE FK).
      * exfalso. apply H. cbn [show_num]. destruct (Z.pos (Qden (Qred q)) =? 1) eqn:E; [apply Z.eqb_eq in E; contradiction|]. rewrite FK. reflexivity.
  - exfalso. apply H. reflexivity.
Qed.
