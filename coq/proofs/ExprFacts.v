(* Paths, subtrees and the small inversion lemmas for the boolean node tests used by the rule classifiers. *)
From Coq Require Import List NArith ZArith QArith Bool Lia.
From Mathy Require Import Num Expr.
Import ListNotations.

Lemma parent_path_app p q d : parent_path p = Some (q, d) -> p = q ++ [d].
Proof.
  unfold parent_path. destruct (rev p) as [|x rq] eqn:E; [discriminate|]. intros [= <- <-].
  rewrite <- (rev_involutive p), E. reflexivity.
Qed.
Lemma parent_path_none p : parent_path p = None -> p = [].
Proof. unfold parent_path. destruct (rev p) eqn:E; [|discriminate]. intros _. rewrite <- (rev_involutive p), E. reflexivity. Qed.
Lemma subtree_app root q r : subtree root (q ++ r) = match subtree root q with Some e => subtree e r | None => None end.
Proof.
  revert root; induction q as [|d q IH]; intros root; simpl; [reflexivity|].
  destruct root as [n|v|u c|k a b]; destruct d; simpl; auto.
Qed.
Lemma subtree_one e d : subtree e [d] = match d with DL => lft e | DR => rgt e end.
Proof. destruct e, d; reflexivity. Qed.
Lemma replace_app root q r n e : subtree root q = Some e -> replace root (q ++ r) n = replace root q (replace e r n).
Proof.
  revert root; induction q as [|d q IH]; intros root H; simpl in *; [inversion H; reflexivity|].
  destruct root as [c|v|u c|k a b]; destruct d; simpl in *; try discriminate; f_equal; auto.
Qed.
Lemma subtree_replace_same root q n e : subtree root q = Some e -> subtree (replace root q n) q = Some n.
Proof.
  revert root; induction q as [|d q IH]; intros root H; simpl in *; [reflexivity|].
  destruct root as [c|v|u c|k a b]; destruct d; simpl in *; try discriminate; auto.
Qed.

Lemma is_k_inv k o : is_k k o = true -> exists l r, o = Some (Bin k l r).
Proof. destruct o as [[| | |k' l r]|]; simpl; try discriminate. intros H. destruct k, k'; try discriminate; eauto. Qed.
Lemma is_k_some k k' l r : is_k k (Some (Bin k' l r)) = bk_eqb k k'.
Proof. reflexivity. Qed.
Lemma bk_eqb_eq a b : bk_eqb a b = true <-> a = b.
Proof. destruct a, b; simpl; split; intros; try discriminate; auto. Qed.
Lemma is_bin_inv o : is_bin o = true -> exists k l r, o = Some (Bin k l r).
Proof. destruct o as [[| | |k l r]|]; simpl; try discriminate; eauto. Qed.
Lemma is_const_inv o : is_const o = true -> exists n, o = Some (Const n).
Proof. destruct o as [[n| | |]|]; simpl; try discriminate; eauto. Qed.
Lemma is_var_inv o : is_var o = true -> exists v, o = Some (Var v).
Proof. destruct o as [[|v| |]|]; simpl; try discriminate; eauto. Qed.
Lemma is_neg_inv o : is_neg o = true -> exists c, o = Some (Un UNeg c).
Proof. destruct o as [[| |[] c|]|]; simpl; try discriminate; eauto. Qed.
Lemma cval_inv o v : cval o = Some v -> o = Some (Const v).
Proof. destruct o as [[n| | |]|]; simpl; try discriminate. now intros [= ->]. Qed.
Lemma olft_some k l r : olft (Some (Bin k l r)) = Some l. Proof. reflexivity. Qed.
Lemma orgt_some k l r : orgt (Some (Bin k l r)) = Some r. Proof. reflexivity. Qed.
