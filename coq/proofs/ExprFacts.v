(* Paths, subtrees and the small inversion lemmas for the boolean node tests used by the rule classifiers. *)
From Coq Require Import List NArith ZArith QArith Bool Lia Arith.
From Mathy Require Import Num Expr.
Import ListNotations.

Lemma parent_path_app p q d : parent_path p = Some (q, d) -> p = q ++ [d].
Proof.
  unfold parent_path. destruct (rev p) as [|x rq] eqn:E; [discriminate|]. intros [= <- <-].
  rewrite <- (rev_involutive p), E. reflexivity.
Qed.
Lemma parent_path_none p : parent_path p = None -> p = [].
Proof. unfold parent_path. destruct (rev p) eqn:E; [|discriminate]. intros _. rewrite <- (rev_involutive p), E. reflexivity. Qed.
Lemma subtree_app root q r : subtree root (q ++ r) = match subtree root q with Some e => subtree e r | None => None end.
Proof.
  revert root; induction q as [|d q IH]; intros root; simpl; [reflexivity|].
  destruct root as [n|v|u c|k a b]; destruct d; simpl; auto.
Qed.
Lemma subtree_one e d : subtree e [d] = match d with DL => lft e | DR => rgt e end.
Proof. destruct e, d; reflexivity. Qed.
Lemma replace_app root q r n e : subtree root q = Some e -> replace root (q ++ r) n = replace root q (replace e r n).
Proof.
  revert root; induction q as [|d q IH]; intros root H; simpl in *; [inversion H; reflexivity|].
  destruct root as [c|v|u c|k a b]; destruct d; simpl in *; try discriminate; f_equal; auto.
Qed.
Lemma subtree_replace_same root q n e : subtree root q = Some e -> subtree (replace root q n) q = Some n.
Proof.
  revert root; induction q as [|d q IH]; intros root H; simpl in *; [reflexivity|].
  destruct root as [c|v|u c|k a b]; destruct d; simpl in *; try discriminate; auto.
Qed.

Lemma is_k_inv k o : is_k k o = true -> exists l r, o = Some (Bin k l r).
Proof. destruct o as [[| | |k' l r]|]; simpl; try discriminate. intros H. destruct k, k'; try discriminate; eauto. Qed.
Lemma is_k_some k k' l r : is_k k (Some (Bin k' l r)) = bk_eqb k k'.
Proof. reflexivity. Qed.
Lemma bk_eqb_eq a b : bk_eqb a b = true <-> a = b.
Proof. destruct a, b; simpl; split; intros; try discriminate; auto. Qed.
Lemma is_bin_inv o : is_bin o = true -> exists k l r, o = Some (Bin k l r).
Proof. destruct o as [[| | |k l r]|]; simpl; try discriminate; eauto. Qed.
Lemma is_const_inv o : is_const o = true -> exists n, o = Some (Const n).
Proof. destruct o as [[n| | |]|]; simpl; try discriminate; eauto. Qed.
Lemma is_var_inv o : is_var o = true -> exists v, o = Some (Var v).
Proof. destruct o as [[|v| |]|]; simpl; try discriminate; eauto. Qed.
Lemma is_neg_inv o : is_neg o = true -> exists c, o = Some (Un UNeg c).
Proof. destruct o as [[| |[] c|]|]; simpl; try discriminate; eauto. Qed.
Lemma cval_inv o v : cval o = Some v -> o = Some (Const v).
Proof. destruct o as [[n| | |]|]; simpl; try discriminate. now intros [= ->]. Qed.
Lemma olft_some k l r : olft (Some (Bin k l r)) = Some l. Proof. reflexivity. Qed.
Lemma orgt_some k l r : orgt (Some (Bin k l r)) = Some r. Proof. reflexivity. Qed.

(* the in-order enumeration of positions: every node exactly once *)
Lemma inorder_paths_prefix e : forall pre, inorder_paths e pre = map (app pre) (inorder_paths e []).
Proof.
  induction e as [n|v|u c IH|k l IHl r IHr]; intros pre; simpl.
  - now rewrite app_nil_r.
  - now rewrite app_nil_r.
  - rewrite app_nil_r. f_equal. rewrite (IH (pre ++ [DR])), (IH [DR]), map_map. apply map_ext. intros a. now rewrite <- app_assoc.
  - rewrite map_app. simpl. rewrite app_nil_r. rewrite (IHl (pre ++ [DL])), (IHl [DL]), (IHr (pre ++ [DR])), (IHr [DR]), !map_map.
    f_equal; [apply map_ext; intros a; now rewrite <- app_assoc|]. f_equal. apply map_ext. intros a. now rewrite <- app_assoc.
Qed.
Lemma inorder_paths_length e : length (inorder_paths e []) = size e.
Proof.
  induction e as [n|v|u c IH|k l IHl r IHr]; cbn [inorder_paths size length]; auto.
  - cbn [app]. rewrite (inorder_paths_prefix c [DR]), map_length. f_equal. exact IH.
  - cbn [app]. rewrite app_length. cbn [length]. rewrite (inorder_paths_prefix l [DL]), (inorder_paths_prefix r [DR]), !map_length. rewrite Nat.add_succ_r. f_equal. f_equal; assumption.
Qed.
Lemma inorder_paths_valid e : Forall (fun p => subtree e p <> None) (inorder_paths e []).
Proof.
  induction e as [n|v|u c IH|k l IHl r IHr]; simpl.
  - repeat constructor. discriminate.
  - repeat constructor. discriminate.
  - constructor; [discriminate|]. rewrite inorder_paths_prefix. apply Forall_forall. intros p Hp. apply in_map_iff in Hp.
    destruct Hp as (q & <- & Hq). simpl. rewrite Forall_forall in IH. now apply IH.
  - apply Forall_app. split.
    + rewrite inorder_paths_prefix. apply Forall_forall. intros p Hp. apply in_map_iff in Hp. destruct Hp as (q & <- & Hq). simpl. rewrite Forall_forall in IHl. now apply IHl.
    + constructor; [discriminate|]. rewrite inorder_paths_prefix. apply Forall_forall. intros p Hp. apply in_map_iff in Hp. destruct Hp as (q & <- & Hq). simpl.
      rewrite Forall_forall in IHr. now apply IHr.
Qed.
Lemma inorder_paths_complete e : forall p, subtree e p <> None -> In p (inorder_paths e []).
Proof.
  induction e as [n|v|u c IH|k l IHl r IHr]; intros p Hp; destruct p as [|d q]; cbn [inorder_paths app].
  - now left.
  - exfalso. apply Hp. destruct d; reflexivity.
  - now left.
  - exfalso. apply Hp. destruct d; reflexivity.
  - now left.
  - destruct d; [exfalso; apply Hp; reflexivity|]. right. rewrite (inorder_paths_prefix c [DR]). apply in_map_iff. exists q. split; auto.
  - apply in_or_app. right. now left.
  - destruct d.
    + apply in_or_app. left. rewrite (inorder_paths_prefix l [DL]). apply in_map_iff. exists q. split; auto.
    + apply in_or_app. right. right. rewrite (inorder_paths_prefix r [DR]). apply in_map_iff. exists q. split; auto.
Qed.

(* positions outside the rewritten subtree *)
Definition incomparable (q q2:path) : Prop := (forall c, q2 <> q ++ c) /\ (forall c, q <> q2 ++ c).
Lemma replace_disjoint : forall q root b q2, incomparable q q2 -> subtree (replace root q b) q2 = subtree root q2.
Proof.
  induction q as [|d q IH]; intros root b q2 (H1 & H2).
  - exfalso. apply (H1 q2). reflexivity.
  - destruct q2 as [|d2 q2']; [exfalso; apply (H2 (d :: q)); reflexivity|].
    destruct root as [n|v|u c|k l r]; simpl; try reflexivity.
    + destruct d; simpl; [reflexivity|]. destruct d2; [reflexivity|]. apply IH. split; intros c0 E; [apply (H1 c0)|apply (H2 c0)]; simpl; now f_equal.
    + destruct d, d2; simpl; try reflexivity; apply IH; split; intros c0 E; [apply (H1 c0)|apply (H2 c0)|apply (H1 c0)|apply (H2 c0)]; simpl; now f_equal.
Qed.
(* nodes above the rewritten subtree keep their kind and payload *)
Definition label (e:expr) : expr := match e with Const n => Const n | Var v => Var v | Un u _ => Un u (Const (NInt 0)) | Bin k _ _ => Bin k (Const (NInt 0)) (Const (NInt 0)) end.
Lemma replace_above : forall q2 root c d b, subtree root (q2 ++ d :: c) <> None ->
  option_map label (subtree (replace root (q2 ++ d :: c) b) q2) = option_map label (subtree root q2).
Proof.
  induction q2 as [|d2 q2 IH]; intros root c d b Hs; simpl in *.
  - destruct root as [n|v|u e|k l r]; destruct d; simpl in *; try reflexivity; try (exfalso; apply Hs; reflexivity).
  - destruct root as [n|v|u e|k l r]; destruct d2; simpl in *; try reflexivity; try (exfalso; apply Hs; reflexivity); apply IH; exact Hs.
Qed.
