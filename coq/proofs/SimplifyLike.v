(* gen_simplify_multiple_terms keeps its promise of a like pair whenever the like-term templates are repeated (fewer templates than
   terms) and the variable of a term is not optional: two terms over the same variable with the same power (C17). *)
From Coq Require Import List NArith ZArith QArith Qround Bool Lia Permutation.
From Mathy Require Import Tok Params Lexer Num Expr Parser Problems.
From MathyProofs Require Import ProblemsFacts.
Import ListNotations.
Local Open Scope nat_scope.

(* ---------- duplicates ---------- *)
Definition has_dup {A} (l:list A) : Prop := exists x l1 l2 l3, l = l1 ++ x :: l2 ++ x :: l3.
Lemma tmpl_dec : forall a b : tmpl, {a = b} + {a <> b}.
Proof. decide equality; [decide equality; apply N.eq_dec|]. decide equality; [apply Nat.eq_dec|apply Bool.bool_dec]. Qed.
Lemma has_dup_not_nodup (l:list tmpl) : has_dup l <-> ~ NoDup l.
Proof.
  split.
  - intros (x & l1 & l2 & l3 & ->) ND. apply NoDup_remove_2 in ND. apply ND. apply in_or_app. right. apply in_or_app. right. now left.
  - induction l as [|x r IH]; intros H; [exfalso; apply H; constructor|].
    destruct (in_dec tmpl_dec x r) as [Hin|Hn].
    + destruct (in_split _ _ Hin) as (l2 & l3 & ->). exists x, [], l2, l3. reflexivity.
    + destruct IH as (y & l1 & l2 & l3 & ->); [intros ND; apply H; constructor; assumption|]. exists y, (x :: l1), l2, l3. reflexivity.
Qed.
Lemma has_dup_perm (l l':list tmpl) : Permutation l l' -> has_dup l -> has_dup l'.
Proof. intros P H. apply has_dup_not_nodup. intros ND. apply has_dup_not_nodup in H. apply H. eapply Permutation_NoDup; [apply Permutation_sym; exact P|exact ND]. Qed.
Lemma has_dup_app {A} (a l b:list A) : has_dup l -> has_dup (a ++ l ++ b).
Proof. intros (x & l1 & l2 & l3 & ->). exists x, (a ++ l1), l2, (l3 ++ b). rewrite <- !app_assoc. cbn [app]. rewrite <- !app_assoc. reflexivity. Qed.

(* ---------- shuffle is a permutation ---------- *)
Lemma insert_by_perm {A} key (x:A) l : Permutation (x :: l) (insert_by key x l).
Proof.
  induction l as [|y r IH]; cbn [insert_by]; [reflexivity|]. destruct (str_leb (key x) (key y)); [reflexivity|].
  eapply perm_trans; [apply perm_swap|]. now apply perm_skip.
Qed.
Lemma sort_by_perm {A} key (l:list A) : Permutation l (sort_by key l).
Proof. unfold sort_by. induction l as [|x l IH]; cbn [fold_right]; [reflexivity|]. eapply perm_trans; [apply perm_skip; exact IH|apply insert_by_perm]. Qed.
Lemma set_nth_length {A} (l:list A) : forall i x, length (set_nth i x l) = length l.
Proof. induction l as [|y r IH]; intros [|i] x; cbn; auto. Qed.
Lemma set_nth_split {A} (l:list A) : forall i x, i < length l -> exists l1 y l2, l = l1 ++ y :: l2 /\ length l1 = i /\ set_nth i x l = l1 ++ x :: l2.
Proof.
  induction l as [|z r IH]; intros i x Hi; [cbn in Hi; lia|]. destruct i as [|i].
  - exists [], z, r. repeat split.
  - cbn in Hi. destruct (IH i x ltac:(lia)) as (l1 & y & l2 & -> & L & E). exists (z :: l1), y, l2. cbn. rewrite E, L. repeat split.
Qed.
Lemma set_nth_same {A} (d:A) (l:list A) : forall i, set_nth i (nth i l d) l = l.
Proof. induction l as [|z r IH]; intros [|i]; cbn; auto. now rewrite IH. Qed.
Lemma nth_set_nth_same {A} (d:A) (l:list A) : forall i x, i < length l -> nth i (set_nth i x l) d = x.
Proof. induction l as [|z r IH]; intros [|i] x Hi; cbn in *; try lia; auto. apply IH. lia. Qed.
Lemma swap_perm {A} (d:A) i j l : i < length l -> j < length l -> Permutation l (swap d i j l).
Proof.
  intros Hi Hj. unfold swap. destruct (Nat.eq_dec i j) as [->|NE].
  { rewrite set_nth_same. rewrite set_nth_same. reflexivity. }
  (* distinct positions: exchange two elements *)
  revert i j Hi Hj NE. induction l as [|z r IH]; intros i j Hi Hj NE; [cbn in Hi; lia|].
  destruct i as [|i], j as [|j]; try lia; cbn [nth set_nth].
  - cbn in Hj. destruct (set_nth_split r j z ltac:(lia)) as (l1 & y & l2 & E & L & S). rewrite S.
    assert (nth j r d = y) as -> by (rewrite E, app_nth2, L, Nat.sub_diag; [reflexivity|lia]). rewrite E.
    eapply perm_trans; [apply Permutation_middle|]. apply Permutation_sym. eapply perm_trans; [apply Permutation_middle|]. apply perm_swap || (rewrite perm_swap; reflexivity).
  - cbn in Hi. destruct (set_nth_split r i z ltac:(lia)) as (l1 & y & l2 & E & L & S).
    assert (nth i r d = y) as Y by (rewrite E, app_nth2, L, Nat.sub_diag; [reflexivity|lia]). rewrite Y.
    assert (set_nth i z r = l1 ++ z :: l2) as S' by exact S. rewrite S'. rewrite E.
    eapply perm_trans; [apply Permutation_middle|]. apply Permutation_sym. eapply perm_trans; [apply Permutation_middle|]. apply perm_swap || (rewrite perm_swap; reflexivity).
  - cbn in Hi, Hj. apply perm_skip. apply (IH i j); lia.
Qed.

Lemma fisher_yates_perm {A} (d:A) : forall i l s l' r, i < length l -> fisher_yates d i l s = POk l' r -> Permutation l l'.
Proof.
  induction i as [|i IH]; intros l s l' r Hi H; cbn [fisher_yates] in H.
  - unfold ret in H. inversion H; subst. reflexivity.
  - apply bindD_ok in H. destruct H as (j & s1 & E & H). apply draw_ok in E. destruct E as (Rj & _).
    assert (Z.to_nat j < length l) by lia.
    eapply perm_trans; [apply (swap_perm d (S i) (Z.to_nat j) l); lia|].
    apply (IH _ s1 l' r); [|exact H]. unfold swap. rewrite !set_nth_length. lia.
Qed.
Lemma shuffle_perm {A} (d:A) key l s l' r : shuffle d key l s = POk l' r -> Permutation l l'.
Proof.
  unfold shuffle. intros H. destruct l as [|x l0].
  - cbn in H. unfold ret in H. inversion H. reflexivity.
  - eapply perm_trans; [apply (sort_by_perm key)|]. eapply fisher_yates_perm; [|exact H].
    rewrite <- (Permutation_length (sort_by_perm key (x :: l0))). cbn [length]. lia.
Qed.

(* ---------- repeating the templates ---------- *)
Lemma cycle_take_prefix {A} : forall (cur base:list A) n, length cur <= n -> exists rest, cycle_take n base cur = cur ++ rest /\ rest = cycle_take (n - length cur) base [].
Proof.
  induction cur as [|x cur IH]; intros base n Hn.
  - exists (cycle_take n base []). rewrite Nat.sub_0_r. auto.
  - destruct n as [|n]; [cbn in Hn; lia|]. cbn [cycle_take length]. destruct (IH base n ltac:(cbn in Hn; lia)) as (rest & E & R).
    exists rest. rewrite E. split; [reflexivity|]. rewrite R. reflexivity.
Qed.
Lemma cycle_take_dup (base:list tmpl) n : base <> [] -> length base < n -> has_dup (cycle_take n base base).
Proof.
  intros NE Hn. destruct (cycle_take_prefix base base n ltac:(lia)) as (rest & E & R). rewrite E.
  destruct base as [|x b]; [contradiction|]. assert (exists m, n - length (x :: b) = S m) as (m & Hm) by (exists (n - length (x :: b) - 1); lia).
  rewrite Hm in R. cbn [cycle_take] in R. rewrite R. exists x, [], b, (cycle_take m (x :: b) b). reflexivity.
Qed.

(* ---------- the terms of the chain ---------- *)
Definition key_of (t:pterm) : option tmpl := match t with PVar _ v p => Some (v, p) | PNum _ => None end.
Lemma other_terms_keys pretty ovp m : forall l s rest r, other_terms pretty false ovp m l s = POk rest r -> map key_of (map snd rest) = map Some l.
Proof.
  induction l as [|[v p] l IH]; intros s rest r H; cbn [other_terms] in H.
  - unfold ret in H. inversion H. reflexivity.
  - apply bindD_ok in H. destruct H as (keep & s1 & E1 & H). unfold ret in E1. inversion E1; subst keep s1. clear E1.
    apply bindD_ok in H. destruct H as (t & s2 & E2 & H). apply bindD_ok in E2. destruct E2 as (c & s3 & E3 & E2). unfold ret in E2. inversion E2; subst t s2. clear E2.
    apply bindD_ok in H. destruct H as (o & s4 & E4 & H). apply bindD_ok in H. destruct H as (rest0 & s5 & E5 & H). unfold ret in H. inversion H; subst. clear H.
    cbn [map snd key_of]. f_equal. eapply IH; eauto.
Qed.

Lemma skipn_add {A} : forall a b (l:list A), skipn a (skipn b l) = skipn (a + b) l.
Proof. intros a b; revert a. induction b as [|b IH]; intros a l; [now rewrite Nat.add_0_r|]. destruct l as [|x l]; [now rewrite !skipn_nil|]. rewrite Nat.add_succ_r. cbn [skipn]. apply IH. Qed.
Lemma map_snd_combine {A B} : forall (a:list A) (b:list B), length b <= length a -> map snd (combine a b) = b.
Proof. induction a as [|x a IH]; intros [|y b] H; cbn in *; try lia; auto. f_equal. apply IH. lia. Qed.

Lemma group_chain_terms (c:chain pterm) gs ge p : gs <= ge -> ge < length (chain_list c) -> group_chain c gs ge = Some p -> terms_of p = chain_list c.
Proof.
  destruct c as [root rest]. unfold group_chain, chain_list. cbn [fst snd]. set (items := root :: map snd rest). set (ops := map fst rest).
  intros Hse Hge. assert (Lops : S (length ops) = length items) by (unfold items, ops; cbn; now rewrite !map_length).
  set (inside := firstn (S ge - gs) (skipn gs items)). destruct inside as [|g0 gr] eqn:Ei; [discriminate|].
  set (all := map ITerm (firstn gs items) ++ IGroup (g0, combine (firstn (ge - gs) (skipn gs ops)) gr) :: map ITerm (skipn (S ge) items)).
  destruct all as [|a0 ar] eqn:Ea; [discriminate|]. intros [= <-]. unfold terms_of, chain_list. cbn [fst snd].
  assert (Lin : length inside = S ge - gs). { unfold inside. rewrite firstn_length, skipn_length. lia. }
  assert (Lgr : length gr = ge - gs). { rewrite Ei in Lin. cbn [length] in Lin. lia. }
  rewrite map_snd_combine.
  2: { assert (length (a0 :: ar) = gs + 1 + (length items - S ge)) as La.
       { rewrite <- Ea. unfold all. rewrite app_length. cbn [length]. rewrite !map_length, firstn_length, skipn_length. lia. }
       cbn [length] in La. rewrite app_length, firstn_length, skipn_length. lia. }
  rewrite <- Ea. unfold all. rewrite flat_map_app. cbn [flat_map item_terms]. rewrite !terms_of_iterms. unfold chain_list. cbn [fst snd].
  rewrite map_snd_combine by (rewrite firstn_length, skipn_length; lia).
  rewrite <- Ei. unfold inside. rewrite app_nil_r || idtac.
  assert (skipn (S ge) items = skipn (S ge - gs) (skipn gs items)) as -> by (rewrite skipn_add; f_equal; lia).
  rewrite (firstn_skipn (S ge - gs) (skipn gs items)). apply firstn_skipn.
Qed.

Lemma adorn_length ppc : forall l s l' r, adorn ppc l s = POk l' r -> length l' = length l.
Proof.
  induction l as [|[v o] l IH]; intros s l' r H; cbn [adorn] in H.
  - unfold ret in H. inversion H. reflexivity.
  - apply bindD_ok in H. destruct H as (p & s1 & E1 & H). apply bindD_ok in H. destruct H as (rest & s2 & E2 & H). unfold ret in H. inversion H; subst. cbn [length]. f_equal. eapply IH; eauto.
Qed.
Lemma keys_like (terms:list pterm) (t3:list tmpl) : map key_of terms = map Some t3 -> has_dup t3 -> like_pair terms.
Proof.
  intros K (x & l1 & l2 & l3 & ->). rewrite map_app in K. apply map_eq_app in K. destruct K as (a1 & b1 & -> & K1 & K).
  cbn [map] in K. destruct b1 as [|y1 b1]; [discriminate|]. cbn [map] in K. inversion K as [[Ky1 K']]. clear K.
  rewrite map_app in K'. apply map_eq_app in K'. destruct K' as (a2 & b2 & -> & K2 & K). cbn [map] in K. destruct b2 as [|y2 b2]; [discriminate|]. cbn [map] in K. inversion K as [[Ky2 K3]].
  destruct x as [v pw]. destruct y1 as [|c1 v1 p1]; [discriminate|]. destruct y2 as [|c2 v2 p2]; [discriminate|]. cbn [key_of] in Ky1, Ky2. inversion Ky1; inversion Ky2; subst.
  exists c1, c2, v, pw, a1, a2, b2. reflexivity.
Qed.
Lemma terms_of_plain (a:pterm) (rest:list (opc * pterm)) : terms_of (ITerm a, map (fun x => (fst x, ITerm (snd x))) rest) = a :: map snd rest.
Proof.
  unfold terms_of, chain_list. cbn [fst snd flat_map item_terms app]. f_equal. rewrite map_map. cbn [snd].
  induction rest as [|[o t] rest IH]; cbn [map flat_map item_terms app snd]; congruence.
Qed.

Theorem simplify_like pretty nt m its pp ovp np shp svp gnp noise s p c r :
  gen_simplify_multiple_terms pretty nt false m its pp ovp np shp svp gnp noise s = POk (p, c) r ->
  ((if nt =? 2 then 1 else Z.max 2 (Qfloor (inject_Z nt * its))) < nt)%Z ->
  like_pair (terms_of p).
Proof.
  unfold gen_simplify_multiple_terms. intros H LT. bin H as use_grouping Eg. bin H as use_noise En.
  destruct (nt <=? 1)%Z eqn:NT; [discriminate H|]. apply Z.leb_gt in NT.
  set (num_like := (if nt =? 2 then 1 else Z.max 2 (Qfloor (inject_Z nt * its)))%Z) in *.
  bin H as like_vars El. bin H as share Es. bin H as st Est. destruct st as [[fixed to_adorn] shared].
  bin H as adorned Ea. bin H as t2c Et. destruct t2c as [t2 cx].
  apply get_rand_vars_spec in El. destruct El as (Ll & _).
  assert (NL : (1 <= num_like)%Z) by (unfold num_like; destruct (nt =? 2)%Z; lia).
  set (t0 := map (fun v : pvar => (v, @None N)) like_vars) in *.
  assert (L0 : length t0 = Z.to_nat num_like) by (unfold t0; rewrite map_length; lia).
  (* the templates that are repeated *)
  assert (LB : length (fixed ++ adorned) = Z.to_nat num_like).
  { apply adorn_length in Ea. rewrite app_length, Ea. destruct share.
    - destruct ((1 <? num_like)%Z && negb use_noise).
      + bin Est as pw Ep. destruct t0 as [|a [|b rr]]; try discriminate Est. unfold ret in Est. inversion Est; subst. cbn [length plus] in *. exact L0.
      + bin Est as pw Ep. destruct t0 as [|a rr]; try discriminate Est. unfold ret in Est. inversion Est; subst. cbn [length plus] in *. exact L0.
    - unfold ret in Est. inversion Est; subst. cbn [length plus]. exact L0. }
  set (base := fixed ++ adorned) in *.
  assert (D1 : has_dup (cycle_take (Z.to_nat nt) base base ++ match shared with Some s0 => [s0] | None => [] end)).
  { apply (has_dup_app [] _ _). apply cycle_take_dup; [intros Q; rewrite Q in LB; cbn in LB; lia|lia]. }
  assert (D2 : has_dup t2).
  { destruct use_noise.
    - bin Et as noise0 E1. bin Et as lohi E2. destruct lohi as [lo hi]. bin Et as fr E3. destruct fr as [front n1]. bin Et as bk E4. destruct bk as [back n2].
      unfold ret in Et. inversion Et; subst. now apply has_dup_app.
    - unfold ret in Et. inversion Et; subst. exact D1. }
  bin H as do_shuffle Ed. bin H as t3 E3.
  assert (D3 : has_dup t3).
  { destruct do_shuffle; [|unfold ret in E3; inversion E3; subst; exact D2]. eapply has_dup_perm; [eapply shuffle_perm; exact E3|exact D2]. }
  bin H as grp Egr. destruct t3 as [|[rv rp] others] eqn:T3; [discriminate H|].
  bin H as rc Erc. bin H as rest Er.
  pose proof (other_terms_keys _ _ _ _ _ _ _ Er) as K.
  assert (KK : map key_of (PVar rc rv rp :: map snd rest) = map Some ((rv, rp) :: others)) by (cbn [map key_of]; now rewrite K).
  assert (LR : length rest = length others) by (apply (f_equal (@length _)) in K; now rewrite !map_length in K).
  destruct grp as [[gs ge]|].
  - destruct (group_chain _ gs ge) as [q|] eqn:GC; [|discriminate H]. unfold ret in H. assert (q = p) by congruence. subst q.
    (* the two draws are inside the chain *)
    destruct use_grouping; [|unfold ret in Egr; discriminate Egr].
    bin Egr as g1 Eg1. bin Egr as g2 Eg2. unfold ret in Egr. inversion Egr; subst gs ge. apply draw_ok in Eg1, Eg2. destruct Eg1 as (R1 & _). destruct Eg2 as (R2 & _).
    cbn [length] in R1, R2.
    rewrite (group_chain_terms _ _ _ p) with (3 := GC).
    + unfold chain_list. cbn [fst snd]. eapply keys_like; [exact KK|exact D3].
    + lia.
    + unfold chain_list. cbn [fst snd length]. rewrite map_length. lia.
  - unfold ret in H. inversion H; subst. cbn [fst snd].
    rewrite terms_of_plain. eapply keys_like; [exact KK|exact D3].
Qed.
