(* C04, part 4: equations along the left spine; print, then parse: the text of a printable tree is accepted and re-parses to a tree
   with the same meaning and variables. *)
From Coq Require Import List NArith ZArith QArith Bool Lia Arith Reals Lra.
From Mathy Require Import Tok Params TokSet Lexer Num Expr Parser Grammar Printer Sem.
From MathyProofs Require Import ParamsFacts LexerFacts ParserNF ParserComplete ParserTop TermText ProblemsFacts NumSem.
From MathyProofs Require Import PrintTokens PrintGrammar PrintPhrase.
Import ListNotations.
Local Open Scope nat_scope.

(* ---------- whole expressions: '=' along the left spine from the root ---------- *)
Fixpoint printable (e:expr) : Prop := match e with Bin KEq l r => printable l /\ pr0 r | _ => pr0 e end.
Definition eq_ctx (parent:option (bk*dir)) : Prop := parent = None \/ parent = Some (KEq, DL).
Lemma eq_ctx_noparens parent : eq_ctx parent -> self_parens KEq parent = false.
Proof. intros [->| ->]; reflexivity. Qed.
Lemma pr0_printable e : pr0 e -> printable e.
Proof. destruct e as [| | |[] ? ?]; cbn [printable pr0]; tauto. Qed.
Lemma printable_not_eq e : (forall l r, e <> Bin KEq l r) -> printable e -> pr0 e.
Proof. destruct e as [| | |[] ? ?]; cbn [printable]; try tauto. intros H. exfalso. eapply H; reflexivity. Qed.

Definition tEq := T TEqual [61%N].
Lemma ptoks_eq l r parent : eq_ctx parent -> ptoks (Bin KEq l r) parent = ptoks l (Some (KEq,DL)) ++ tEq :: ptoks r (Some (KEq,DR)).
Proof. intros H. cbn [ptoks compact]. rewrite (eq_ctx_noparens parent H). reflexivity. Qed.
Lemma show_eq l r parent : eq_ctx parent -> show (Bin KEq l r) parent =
  match show l (Some (KEq,DL)), show r (Some (KEq,DR)) with Some a, Some b => Some (a ++ sp :: 61%N :: sp :: b) | _, _ => None end.
Proof. intros H. cbn [show compact]. rewrite (eq_ctx_noparens parent H). destruct (show l (Some (KEq, DL))), (show r (Some (KEq, DR))); reflexivity. Qed.

Lemma show_total_spine : forall e parent, printable e -> eq_ctx parent -> exists s, show e parent = Some s.
Proof.
  induction e as [c|v|u c IH|k l IHl r IHr]; intros parent P C; try (apply show_total; exact P).
  destruct k; try (apply show_total; exact P). destruct P as [Pl Pr]. rewrite (show_eq l r parent C).
  destruct (IHl (Some (KEq,DL)) Pl (or_intror eq_refl)) as (a & ->). destruct (show_total r (Some (KEq,DR)) Pr) as (b & ->). eauto.
Qed.
Lemma lex_spine : forall e parent s, printable e -> eq_ctx parent -> show e parent = Some s ->
  forall rest ts, clean rest -> LexSpec false rest ts -> LexSpec false (s ++ rest) (ptoks e parent ++ ts).
Proof.
  induction e as [c|v|u c IH|k l IHl r IHr]; intros parent s P C S rest ts CL H; try (apply lex_show; assumption).
  destruct k; try (apply lex_show; assumption). destruct P as [Pl Pr]. rewrite (show_eq l r parent C) in S. rewrite (ptoks_eq l r parent C).
  destruct (show l _) as [a|] eqn:Sa; [|discriminate]. destruct (show r _) as [b|] eqn:Sb; [|discriminate]. inversion S; subst s.
  rewrite <- !app_assoc. apply (IHl _ a Pl (or_intror eq_refl) Sa); [split; reflexivity|].
  cbn [app]. apply lex_space. apply (lex_opchar 61%N TEqual); [simpl; tauto|discriminate|]. apply lex_space.
  apply (lex_show r _ b Pr Sb); assumption.
Qed.

(* ---------- derivation of the whole text ---------- *)
Lemma okA_eof : okA [EOFtok]. Proof. repeat split; intros Q; discriminate Q. Qed.
Lemma okA_eq s : okA (tEq :: s). Proof. repeat split; intros Q; discriminate Q. Qed.
Lemma add_phrase e parent : pr0 e -> need parent e = LAdd -> exists e', rt e e' /\ forall rest, okA rest ->
  in_first_unary (ptoks e parent ++ rest) /\ G_add (ptoks e parent ++ rest) e' rest.
Proof.
  intros P N. destruct (phrase_main (Expr.size e) e (le_n _) P parent) as (e' & R & PH). rewrite N in PH. cbn [Ph] in PH.
  exists e'. split; [exact R|]. intros rest OK. destruct firsts as (_ & _ & _ & _ & _ & _ & F7). destruct phrases_sound as (_ & _ & _ & _ & _ & _ & S7).
  split; [apply unary_first_in; eapply F7; eauto|apply S7; assumption].
Qed.
Lemma spine_cps : forall e parent, printable e -> eq_ctx parent -> exists e', rt e e' /\
  forall rest efin sfin, okA rest -> G_eql e' rest efin sfin ->
    exists a0 s1, in_first_unary (ptoks e parent ++ rest) /\ G_add (ptoks e parent ++ rest) a0 s1 /\ G_eql a0 s1 efin sfin.
Proof.
  assert (forall e parent, pr0 e -> eq_ctx parent -> exists e', rt e e' /\
    forall rest efin sfin, okA rest -> G_eql e' rest efin sfin ->
      exists a0 s1, in_first_unary (ptoks e parent ++ rest) /\ G_add (ptoks e parent ++ rest) a0 s1 /\ G_eql a0 s1 efin sfin) as Base.
  { intros e parent P C. destruct (add_phrase e parent P) as (e' & R & D); [destruct C as [->| ->]; reflexivity|].
    exists e'. split; [exact R|]. intros rest efin sfin OK Q. destruct (D rest OK) as [F G]. exists e', rest. auto. }
  induction e as [c|v|u c IH|k l IHl r IHr]; intros parent P C; try (apply Base; assumption).
  destruct k; try (apply Base; assumption). destruct P as [Pl Pr].
  destruct (IHl (Some (KEq,DL)) Pl (or_intror eq_refl)) as (l' & Rl & Kl).
  destruct (add_phrase r (Some (KEq,DR)) Pr eq_refl) as (r' & Rr & Dr).
  exists (Bin KEq l' r'). split; [now apply rt_bin|]. intros rest efin sfin OK Q. rewrite (ptoks_eq l r parent C), <- app_assoc. cbn [app].
  destruct (Dr rest OK) as [Fr Gr].
  apply (Kl (tEq :: ptoks r (Some (KEq, DR)) ++ rest) efin sfin (okA_eq _)).
  eapply GQ_eq; [reflexivity|exact Fr|exact Gr|exact Q].
Qed.

(* ---------- C04: print, then parse ---------- *)
Theorem print_parse e : printable e -> exists s e', show_top e = Some s /\ parse s = Ok e' /\ rt e e'.
Proof.
  intros P. unfold show_top. destruct (show_total_spine e None P (or_introl eq_refl)) as (s & S).
  destruct (spine_cps e None P (or_introl eq_refl)) as (e' & R & K).
  exists s, e'. split; [exact S|]. split; [|exact R].
  assert (LexSpec false (s ++ []) (ptoks e None ++ [EOFtok])) as L by (apply (lex_spine e None s P (or_introl eq_refl) S); [split; reflexivity|constructor]).
  rewrite app_nil_r in L. assert (tokenize true s = LOk (ptoks e None ++ [EOFtok])) as TK by (apply tokenize_complete; exact L).
  unfold parse. rewrite TK. apply parse_tokens_complete; [apply (tokenize_eof_ok true s); exact TK|].
  destruct (K [EOFtok] e' [EOFtok] okA_eof) as (a0 & s1 & F & G & Q); [apply GQ_stop; intros X; discriminate X|].
  exists a0, s1, [EOFtok]. split; [exact F|]. split; [exact G|]. split; [exact Q|]. split; [reflexivity|intros X; discriminate X].
Qed.
