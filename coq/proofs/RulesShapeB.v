(* Structure preservation, part B: constant arithmetic (derived from RulesVarsB). *)
From Coq Require Import List NArith ZArith QArith Qreals Reals Lra Lia Bool.
From Mathy Require Import Num Expr Util Rules Sem.
From MathyProofs Require Import ExprFacts SemFacts NumSem PowSem .
From MathyProofs Require Import ShapeFacts RulesShapeA.
Import ListNotations.
Open Scope R_scope.

Lemma both_inv a b x y : both a b = Some (x,y) -> a = Some (Const x) /\ b = Some (Const y).
Proof.
  unfold both. destruct (cval a) as [x'|] eqn:A; [|discriminate]. destruct (cval b) as [y'|] eqn:B; [|discriminate].
  intros [= <- <-]. split; now apply cval_inv.
Qed.
Lemma fconst_inv f K e : fconst f K = ROk e -> exists n, f = FNum n /\ e = K n.
Proof. destruct f; simpl; try discriminate. intros [= <-]. eauto. Qed.

(* folding two constants: the folded constant denotes what the operation denotes, wherever that is defined *)
Lemma fold_shape k x y n : fold_bin k x y = FNum n -> keeps (Bin k (Const x) (Const y)) (Const n).
Proof. kauto. Qed.
Lemma fold_neg_shape k x y n : fold_bin k x y = FNum n -> keeps (Un UNeg (Bin k (Const x) (Const y))) (Const (nneg n)).
Proof. kauto. Qed.

(* regroupings used by the chained arrangements *)
Lemma mul_cv_c x v y c : keeps (Bin KMul (Const x) (Const y)) (Const c) -> keeps (Bin KMul (Bin KMul (Const x) v) (Const y)) (Bin KMul (Const c) v).
Proof. kauto. Qed.
Ltac fold_use H rho rx ry Ex Ey :=
  let Hc := fresh "Hc" in
  pose proof (H rho (rx*ry)) as Hc; cbn [den] in Hc; rewrite Ex, Ey in Hc; cbn [bind2 binop] in Hc; rewrite (Hc eq_refl).
Ltac fold_use_add H rho rx ry Ex Ey :=
  let Hc := fresh "Hc" in
  pose proof (H rho (rx+ry)) as Hc; cbn [den] in Hc; rewrite Ex, Ey in Hc; cbn [bind2 binop] in Hc; rewrite (Hc eq_refl).

Lemma mul_right x y rr c : keeps (Bin KMul (Const x) (Const y)) (Const c) ->
  keeps (Bin KMul (Const x) (Bin KMul (Const y) rr)) (Bin KMul (Const c) rr).
Proof. kauto. Qed.
Lemma add_right x y rr c : keeps (Bin KAdd (Const x) (Const y)) (Const c) ->
  keeps (Bin KAdd (Const x) (Bin KAdd (Const y) rr)) (Bin KAdd (Const c) rr).
Proof. kauto. Qed.
Lemma mul_right_deep x y rlr rr c : keeps (Bin KMul (Const x) (Const y)) (Const c) ->
  keeps (Bin KMul (Const x) (Bin KMul (Bin KMul (Const y) rlr) rr)) (Bin KMul (Bin KMul (Const c) rlr) rr).
Proof. kauto. Qed.
Lemma add_right_deep x y rlr rr c : keeps (Bin KAdd (Const x) (Const y)) (Const c) ->
  keeps (Bin KAdd (Const x) (Bin KAdd (Bin KAdd (Const y) rlr) rr)) (Bin KAdd (Bin KAdd (Const c) rlr) rr).
Proof. kauto. Qed.
Lemma mul_right_left x lr y rr c : keeps (Bin KMul (Const x) (Const y)) (Const c) ->
  keeps (Bin KMul (Bin KMul (Const x) lr) (Bin KMul (Const y) rr)) (Bin KMul (Bin KMul (Const c) lr) rr).
Proof. kauto. Qed.
Lemma mul_right_left_left x lr y rlr rr c : keeps (Bin KMul (Const x) (Const y)) (Const c) ->
  keeps (Bin KMul (Bin KMul (Const x) lr) (Bin KMul (Bin KMul (Const y) rlr) rr)) (Bin KMul (Bin KMul (Const c) lr) (Bin KMul rlr rr)).
Proof. kauto. Qed.
Lemma mul_left_left_right ll x lrr y rr c : keeps (Bin KMul (Const x) (Const y)) (Const c) ->
  keeps (Bin KMul (Bin KMul ll (Bin KMul (Const x) lrr)) (Bin KMul (Const y) rr)) (Bin KMul ll (Bin KMul (Bin KMul (Const c) lrr) rr)).
Proof. kauto. Qed.

Tactic Notation "casc" hyp(T) ident(C) := match type of T with
  | (match ?c with Some _ => _ | None => _ end) = _ => destruct c as [[? ?]|] eqn:C end.
Tactic Notation "ifc" hyp(C) ident(Cond) := match type of C with (if ?c then _ else _) = _ => destruct c eqn:Cond; [|discriminate C] end.
Ltac ands := repeat match goal with H : (_ && _) = true |- _ => let H1 := fresh "H" in apply andb_prop in H; destruct H as (H & H1) end.
(* turn the classifier's boolean facts into shapes *)
Ltac kstep :=
  cbn [olft orgt lft rgt] in *;
  match goal with
  | H : is_k _ (Some ?v) = true |- _ => is_var v; let l := fresh "l" in let r := fresh "r" in
        apply is_k_inv in H; destruct H as (l & r & H); inversion H; subst v; clear H
  | H : is_bin (Some ?v) = true |- _ => is_var v; let k := fresh "k" in let l := fresh "l" in let r := fresh "r" in
        apply is_bin_inv in H; destruct H as (k & l & r & H); inversion H; subst v; clear H
  | H : Expr.is_var (Some ?v) = true |- _ => is_var v; let x := fresh "x" in
        apply is_var_inv in H; destruct H as (x & H); inversion H; subst v; clear H
  | H : is_neg (Some ?v) = true |- _ => is_var v; let c := fresh "c" in
        apply is_neg_inv in H; destruct H as (c & H); inversion H; subst v; clear H
  | H : is_k ?k (Some (Bin ?k' _ _)) = true |- _ => destruct k'; try discriminate H; clear H
  | H : is_bin (Some (Bin _ _ _)) = true |- _ => clear H
  | H : Some ?v = Some (Const _) |- _ => is_var v; inversion H; subst v; clear H
  | H : Some (Const _) = Some (Const _) |- _ => inversion H; subst; clear H
  end.
Ltac shapes := ands; repeat kstep.
Ltac finish_fold HA lem k := cbn [get rbind is_k bk_eqb olft orgt lft rgt] in HA; apply fconst_inv in HA;
  let m := fresh "m" in let Hf := fresh "Hf" in destruct HA as (m & Hf & ->); apply lem; apply (fold_shape k); exact Hf.

Theorem const_shape root p z : isSome (const_type root p) = true -> const_apply root p = ROk z -> LocalAtK root p (fst z).
Proof.
  unfold const_apply. destruct (const_type root p) as [[[arr x] y]|] eqn:T; [|discriminate]. intros _.
  unfold node in *. destruct (subtree root p) as [n|] eqn:Hs; [|discriminate].
  unfold const_type, node in T. rewrite Hs in T. cbv zeta in T.
  intros HA.
  assert (forall res, (dor res0 <- res; ROk (replace root p res0, p)) = ROk z -> exists e, res = ROk e /\ fst z = replace root p e) as Fin.
  { intros res H. destruct res as [e|]; cbn [rbind] in H; [|discriminate]. inversion H; subst. eauto. }
  apply Fin in HA. destruct HA as (e & HA & ->). apply (local_atk _ _ _ _ Hs). clear Fin Hs.
  casc T C.
  { inversion T; subst arr x y. clear T. ifc C Cn. ifc C Cf. apply both_inv in C. destruct C as (B1 & B2). unfold foldable in Cf. shapes.
    cbn [rgt] in HA. apply fconst_inv in HA. destruct HA as (m & Hf & ->). now apply fold_neg_shape. }
  clear C. casc T C.
  { inversion T; subst arr x y. clear T. ifc C Cf. apply both_inv in C. destruct C as (B1 & B2). unfold foldable in Cf. shapes.
    apply fconst_inv in HA. destruct HA as (m & Hf & ->). now apply fold_shape. }
  clear C. casc T C.
  { inversion T; subst arr x y. clear T. ifc C Cf. apply both_inv in C. destruct C as (B1 & B2). shapes. finish_fold HA mul_cv_c KMul. }
  clear C. casc T C.
  { inversion T; subst arr x y. clear T. ifc C Cf. apply both_inv in C. destruct C as (B1 & B2). ands.
    match goal with H : (_ || _) = true |- _ => apply orb_prop in H; destruct H as [H|H] end; shapes.
    - finish_fold HA add_right_deep KAdd.
    - finish_fold HA mul_right_deep KMul. }
  clear C. casc T C.
  { inversion T; subst arr x y. clear T. ifc C Cf. apply both_inv in C. destruct C as (B1 & B2). ands.
    match goal with H : (_ || _) = true |- _ => apply orb_prop in H; destruct H as [H|H] end; shapes.
    - finish_fold HA add_right KAdd.
    - finish_fold HA mul_right KMul. }
  clear C. casc T C.
  { inversion T; subst arr x y. clear T. ifc C Cf. apply both_inv in C. destruct C as (B1 & B2). shapes. finish_fold HA mul_right_left KMul. }
  clear C. casc T C.
  { inversion T; subst arr x y. clear T. ifc C Cf. apply both_inv in C. destruct C as (B1 & B2). shapes. finish_fold HA mul_right_left_left KMul. }
  clear C. casc T C; [|discriminate T].
  { inversion T; subst arr x y. clear T. ifc C Cf. apply both_inv in C. destruct C as (B1 & B2). shapes. finish_fold HA mul_left_left_right KMul. }
Qed.
