(* ported from design/prototypes.md (A.13-4-Complete.v); statements are about the normal form NF, transferred to the model by nf_eq *)
From Coq Require Import List NArith ZArith QArith Bool Lia.
From Mathy Require Import Tok Params TokSet Lexer Num Expr Parser Grammar.
From MathyProofs Require Import ParserNF.
Import ListNotations.
Import NF.
From MathyProofs Require Import ParserSound.

Open Scope nat_scope.

(* ---------- fuel monotonicity ---------- *)
Definition Mono (n:nat) : Prop :=
  (forall s r, parse_add n s = Ok r -> forall m, n <= m -> parse_add m s = Ok r) /\
  (forall e s r, add_loop n e s = Ok r -> forall m, n <= m -> add_loop m e s = Ok r) /\
  (forall s r, parse_mult n s = Ok r -> forall m, n <= m -> parse_mult m s = Ok r) /\
  (forall e s r, mult_loop n e s = Ok r -> forall m, n <= m -> mult_loop m e s = Ok r) /\
  (forall s r, parse_exponent n s = Ok r -> forall m, n <= m -> parse_exponent m s = Ok r) /\
  (forall s r, parse_unary n s = Ok r -> forall m, n <= m -> parse_unary m s = Ok r) /\
  (forall b s r, parse_prefix n b s = Ok r -> forall m, n <= m -> parse_prefix m b s = Ok r) /\
  (forall s r, parse_factors n s = Ok r -> forall m, n <= m -> parse_factors m s = Ok r) /\
  (forall a s r, factors_loop n a s = Ok r -> forall m, n <= m -> factors_loop m a s = Ok r).

Ltac step_bind IH :=
  match goal with
  | H : bind ?r _ = Ok _ |- _ =>
    let E := fresh "E" in destruct r eqn:E; cbn [bind] in H; [|discriminate];
    try (erewrite IH by (try eassumption; lia); cbn [bind])
  end.

Lemma mono : forall n, Mono n.
Proof.
  induction n as [|n (IHa & IHal & IHm & IHml & IHe & IHu & IHp & IHf & IHfl)]; [repeat split; intros; discriminate|].
  unfold Mono. repeat split; intros until 1; intros m Hm; (destruct m as [|m]; [lia|]); assert (n <= m) as Hn by lia.
  - cbn [parse_add] in *. destruct (negb (check s FIRST_UNARY)); [discriminate|].
    destruct (parse_mult n s) as [[e1 s1]|] eqn:E; cbn [bind] in *; [|discriminate].
    rewrite (IHm _ _ E m Hn). cbn [bind]. eauto.
  - cbn [add_loop] in *. destruct (is s TPlus || is s TMinus); [|assumption].
    destruct (next s) as [s1|]; cbn [bind] in *; [|discriminate]. destruct (check s1 FIRST_UNARY); [|discriminate].
    destruct (parse_mult n s1) as [[e1 s2]|] eqn:E; cbn [bind] in *; [|discriminate].
    rewrite (IHm _ _ E m Hn). cbn [bind]. eauto.
  - cbn [parse_mult] in *. destruct (negb (check s FIRST_UNARY)); [discriminate|].
    destruct (parse_exponent n s) as [[e1 s1]|] eqn:E; cbn [bind] in *; [|discriminate].
    rewrite (IHe _ _ E m Hn). cbn [bind]. eauto.
  - cbn [mult_loop] in *. destruct (is s TMul || is s TDiv); [|assumption].
    destruct (next s) as [s1|]; cbn [bind] in *; [|discriminate]. destruct (check s1 FIRST_UNARY); [|discriminate].
    destruct (parse_mult n s1) as [[e1 s2]|] eqn:E; cbn [bind] in *; [|discriminate].
    rewrite (IHm _ _ E m Hn). cbn [bind]. eauto.
  - cbn [parse_exponent] in *. destruct (negb (check s FIRST_UNARY)); [discriminate|].
    destruct (parse_unary n s) as [[e1 s1]|] eqn:E; cbn [bind] in *; [|discriminate].
    rewrite (IHu _ _ E m Hn). cbn [bind]. destruct (is s1 TExp); [|assumption].
    destruct (next s1) as [s2|]; cbn [bind] in *; [|discriminate]. destruct (negb (check s2 FIRST_UNARY)); [discriminate|].
    destruct (parse_unary n s2) as [[e2 s3]|] eqn:E2; cbn [bind] in *; [|discriminate].
    rewrite (IHu _ _ E2 m Hn). cbn [bind]. assumption.
  - cbn [parse_unary] in *. destruct (is s TMinus).
    + destruct (next s) as [s1|]; cbn [bind] in *; [|discriminate]. eauto.
    + eauto.
  - cbn [parse_prefix] in *. destruct (negb (check s FIRST_FACTOR_PREFIX)); [discriminate|].
    destruct (is s TConst).
    + destruct (coerce (tval s)); cbn [bind] in *; [|discriminate].
      destruct (next s) as [s1|]; cbn [bind] in *; [|discriminate].
      destruct (check s1 FIRST_FACTOR); [|assumption]. destruct (is s1 TFact); [assumption|].
      destruct (parse_factors n s1) as [[f s2]|] eqn:E; cbn [bind] in *; [|discriminate].
      rewrite (IHf _ _ E m Hn). cbn [bind]. assumption.
    + destruct (parse_factors n s) as [[f s2]|] eqn:E; cbn [bind] in *; [|discriminate].
      rewrite (IHf _ _ E m Hn). cbn [bind]. assumption.
  - cbn [parse_factors] in *.
    destruct (factors_loop n [] s) as [[fs s1]|] eqn:E; cbn [bind] in *; [|discriminate].
    rewrite (IHfl _ _ _ E m Hn). cbn [bind]. destruct (is s1 TExp); [|assumption].
    destruct (next s1) as [s2|]; cbn [bind] in *; [|discriminate]. destruct (negb (check s2 FIRST_UNARY)); [discriminate|].
    destruct (parse_unary n s2) as [[e2 s3]|] eqn:E2; cbn [bind] in *; [|discriminate].
    rewrite (IHu _ _ E2 m Hn). cbn [bind]. assumption.
  - cbn [factors_loop] in *.
    match type of H with bind ?r _ = _ => destruct r as [[f s1]|] eqn:AT; cbn [bind] in H; [|discriminate] end.
    assert ((if is s TVar then do s' <- next s; Ok (Var (varname s), s')
       else if is s TFunc then do s0 <- next s; do s2 <- eat s0 TOpen; do (e, s3) <- parse_add m s2; do s4 <- eat s3 TClose; Ok (Un USgn e, s4)
       else if is s TOpen then do s0 <- next s; do (e, s2) <- parse_add m s0; do s3 <- eat s2 TClose; Ok (e, s3)
       else Raises UnexpectedBehavior) = Ok (f, s1)) as AT'.
    { destruct (is s TVar); [assumption|]. destruct (is s TFunc).
      - destruct (next s) as [s0|]; cbn [bind] in *; [|discriminate]. destruct (eat s0 TOpen) as [s2|]; cbn [bind] in *; [|discriminate].
        destruct (parse_add n s2) as [[e s3]|] eqn:E; cbn [bind] in *; [|discriminate]. rewrite (IHa _ _ E m Hn). cbn [bind]. assumption.
      - destruct (is s TOpen); [|discriminate]. destruct (next s) as [s0|]; cbn [bind] in *; [|discriminate].
        destruct (parse_add n s0) as [[e s3]|] eqn:E; cbn [bind] in *; [|discriminate]. rewrite (IHa _ _ E m Hn). cbn [bind]. assumption. }
    rewrite AT'. cbn [bind]. destruct (check s1 FIRST_FACTOR); [|assumption]. eauto.
Qed.

(* ---------- token lists end with exactly one EOF ---------- *)
Definition eof_ok (s:st) : Prop := exists body e, s = body ++ [e] /\ tk e = TEOF /\ Forall (fun t => tk t <> TEOF) body.
Lemma eof_tail t r : eof_ok (t::r) -> tk t <> TEOF -> eof_ok r /\ r <> [].
Proof.
  intros (body & e & E & He & Hb) Ht. destruct body as [|b body]; simpl in E.
  - inversion E; subst. contradiction.
  - inversion E; subst. inversion Hb; subst. split; [exists body, e; auto|]. destruct body; discriminate.
Qed.
Lemma next_ok t r : eof_ok (t::r) -> tk t <> TEOF -> next (t::r) = Ok r /\ eof_ok r.
Proof.
  intros H Ht. destruct (eof_tail _ _ H Ht) as (Hr & Hne). split; auto.
  unfold next. destruct (tkind_eqb (tk t) TEOF) eqn:E; [destruct (tk t); discriminate || (exfalso; apply Ht; destruct (tk t); try discriminate; reflexivity)|].
  destruct r; [contradiction|reflexivity].
Qed.
Lemma is_cons t r k : tk t = k -> is (t::r) k = true.
Proof. intros <-. unfold is, check. simpl. rewrite orb_false_r. destruct (tk t); reflexivity. Qed.
Lemma is_cons_ne t r k : tk t <> k -> is (t::r) k = false.
Proof. intros H. unfold is, check. simpl. rewrite orb_false_r. destruct (tk t), k; try reflexivity; exfalso; apply H; reflexivity. Qed.
Lemma is_ne s k : hdk s <> k -> is s k = false.
Proof. destruct s as [|t r]; [reflexivity|]. apply is_cons_ne. Qed.

(* ---------- completeness ---------- *)
Definition atom_step (m:nat) (s:st) : res (expr * st) :=
  if is s TVar then do s' <- next s; Ok (Var (varname s), s')
  else if is s TFunc then do s0 <- next s; do s2 <- eat s0 TOpen; do (e, s3) <- parse_add m s2; do s4 <- eat s3 TClose; Ok (Un USgn e, s4)
  else if is s TOpen then do s0 <- next s; do (e, s2) <- parse_add m s0; do s3 <- eat s2 TClose; Ok (e, s3)
  else Raises UnexpectedBehavior.
Lemma factors_loop_unfold n acc s : factors_loop (S n) acc s =
  (do (f, s1) <- atom_step n s; if check s1 FIRST_FACTOR then factors_loop n (acc ++ [f]) s1 else Ok (acc ++ [f], s1)).
Proof. reflexivity. Qed.

Lemma ma n s r m : parse_add n s = Ok r -> n <= m -> parse_add m s = Ok r. Proof. intros; eapply (proj1 (mono n)); eauto. Qed.
Lemma mal n e s r m : add_loop n e s = Ok r -> n <= m -> add_loop m e s = Ok r. Proof. intros; eapply (proj1 (proj2 (mono n))); eauto. Qed.
Lemma mm n s r m : parse_mult n s = Ok r -> n <= m -> parse_mult m s = Ok r. Proof. intros; eapply (proj1 (proj2 (proj2 (mono n)))); eauto. Qed.
Lemma mml n e s r m : mult_loop n e s = Ok r -> n <= m -> mult_loop m e s = Ok r. Proof. intros; eapply (proj1 (proj2 (proj2 (proj2 (mono n))))); eauto. Qed.
Lemma me n s r m : parse_exponent n s = Ok r -> n <= m -> parse_exponent m s = Ok r. Proof. intros; eapply (proj1 (proj2 (proj2 (proj2 (proj2 (mono n)))))); eauto. Qed.
Lemma mu n s r m : parse_unary n s = Ok r -> n <= m -> parse_unary m s = Ok r. Proof. intros; eapply (proj1 (proj2 (proj2 (proj2 (proj2 (proj2 (mono n))))))); eauto. Qed.
Lemma mp n b s r m : parse_prefix n b s = Ok r -> n <= m -> parse_prefix m b s = Ok r. Proof. intros; eapply (proj1 (proj2 (proj2 (proj2 (proj2 (proj2 (proj2 (mono n)))))))); eauto. Qed.
Lemma mf n s r m : parse_factors n s = Ok r -> n <= m -> parse_factors m s = Ok r. Proof. intros; eapply (proj1 (proj2 (proj2 (proj2 (proj2 (proj2 (proj2 (proj2 (mono n))))))))); eauto. Qed.
Lemma mfl n a s r m : factors_loop n a s = Ok r -> n <= m -> factors_loop m a s = Ok r. Proof. intros; eapply (proj2 (proj2 (proj2 (proj2 (proj2 (proj2 (proj2 (proj2 (mono n))))))))); eauto. Qed.
Lemma matom n s r m : atom_step n s = Ok r -> n <= m -> atom_step m s = Ok r.
Proof.
  unfold atom_step. intros H Hm. destruct (is s TVar); [assumption|]. destruct (is s TFunc).
  - destruct (next s) as [sa|]; cbn [bind] in *; [|discriminate]. destruct (eat sa TOpen) as [sb|]; cbn [bind] in *; [|discriminate].
    destruct (parse_add n sb) as [[e s3]|] eqn:E; cbn [bind] in *; [|discriminate]. rewrite (ma _ _ _ _ E Hm). assumption.
  - destruct (is s TOpen); [|discriminate]. destruct (next s) as [sa|]; cbn [bind] in *; [|discriminate].
    destruct (parse_add n sa) as [[e s3]|] eqn:E; cbn [bind] in *; [|discriminate]. rewrite (ma _ _ _ _ E Hm). assumption.
Qed.

Lemma check_nonempty s l : check s l = true -> exists t r, s = t :: r.
Proof. destruct s; [discriminate|eauto]. Qed.
Lemma kind_not_eof_of_check t r l : check (t::r) l = true -> ~ In TEOF l -> tk t <> TEOF.
Proof.
  unfold check, kin. intros H Hn E. apply existsb_exists in H. destruct H as (x & Hx & Hk). rewrite E in Hk.
  destruct x; try discriminate. contradiction.
Qed.

Theorem complete :
  (forall s e s', G_add s e s' -> eof_ok s -> eof_ok s' /\ exists n, parse_add n s = Ok (e,s')) /\
  (forall e0 s e s', G_addl e0 s e s' -> eof_ok s -> eof_ok s' /\ exists n, add_loop n e0 s = Ok (e,s')) /\
  (forall s e s', G_mult s e s' -> eof_ok s -> eof_ok s' /\ exists n, parse_mult n s = Ok (e,s')) /\
  (forall e0 s e s', G_multl e0 s e s' -> eof_ok s -> eof_ok s' /\ exists n, mult_loop n e0 s = Ok (e,s')) /\
  (forall s e s', G_exp s e s' -> eof_ok s -> eof_ok s' /\ exists n, parse_exponent n s = Ok (e,s')) /\
  (forall s e s', G_unary s e s' -> eof_ok s -> eof_ok s' /\ exists n, parse_unary n s = Ok (e,s')) /\
  (forall b s e s', G_prefix b s e s' -> eof_ok s -> eof_ok s' /\ exists n, parse_prefix n b s = Ok (e,s')) /\
  (forall s e s', G_factors s e s' -> eof_ok s -> eof_ok s' /\ exists n, parse_factors n s = Ok (e,s')) /\
  (forall s fs s', G_atoms s fs s' -> eof_ok s -> eof_ok s' /\ exists n, forall acc, factors_loop n acc s = Ok (acc ++ fs, s')) /\
  (forall s a s', G_atom s a s' -> eof_ok s -> eof_ok s' /\ exists n, atom_step n s = Ok (a, s')).
Proof.
  apply G_mutind.
  - (* GA *) intros s e s1 e' s' Hf _ IH1 _ IH2 Hs.
    destruct (IH1 Hs) as (Hs1 & n1 & P1). destruct (IH2 Hs1) as (Hs' & n2 & P2). split; auto.
    exists (S (max n1 n2)). cbn [parse_add]. unfold in_first_unary in Hf. rewrite Hf. cbn.
    rewrite (mm _ _ _ (max n1 n2) P1) by lia. cbn. apply (mal _ _ _ _ (max n1 n2) P2). lia.
  - (* GAL_stop *) intros e s H1 H2 Hs. split; auto. exists 1. cbn. rewrite (is_ne _ _ H1), (is_ne _ _ H2). reflexivity.
  - (* GAL_plus *) intros e t s1 r s2 e' s' Ht Hf _ IH1 _ IH2 Hs.
    destruct (next_ok t s1 Hs) as (N & Hs1); [rewrite Ht; discriminate|].
    destruct (IH1 Hs1) as (Hs2 & n1 & P1). destruct (IH2 Hs2) as (Hs' & n2 & P2). split; auto.
    exists (S (max n1 n2)). cbn [add_loop]. rewrite (is_cons _ _ _ Ht). cbn [orb]. rewrite N. cbn [bind].
    unfold in_first_unary in Hf. rewrite Hf. rewrite (mm _ _ _ (max n1 n2) P1) by lia. cbn [bind].
    apply (mal _ _ _ _ (max n1 n2) P2). lia.
  - (* GAL_minus *) intros e t s1 r s2 e' s' Ht Hf _ IH1 _ IH2 Hs.
    destruct (next_ok t s1 Hs) as (N & Hs1); [rewrite Ht; discriminate|].
    destruct (IH1 Hs1) as (Hs2 & n1 & P1). destruct (IH2 Hs2) as (Hs' & n2 & P2). split; auto.
    exists (S (max n1 n2)). cbn [add_loop]. rewrite (is_cons _ _ _ Ht). rewrite (is_cons_ne t s1 TPlus) by (rewrite Ht; discriminate). cbn [orb]. rewrite N. cbn [bind].
    unfold in_first_unary in Hf. rewrite Hf. rewrite (mm _ _ _ (max n1 n2) P1) by lia. cbn [bind].
    apply (mal _ _ _ _ (max n1 n2) P2). lia.
  - (* GM *) intros s e s1 e' s' Hf _ IH1 _ IH2 Hs.
    destruct (IH1 Hs) as (Hs1 & n1 & P1). destruct (IH2 Hs1) as (Hs' & n2 & P2). split; auto.
    exists (S (max n1 n2)). cbn [parse_mult]. unfold in_first_unary in Hf. rewrite Hf. cbn.
    rewrite (me _ _ _ (max n1 n2) P1) by lia. cbn. apply (mml _ _ _ _ (max n1 n2) P2). lia.
  - intros e s H1 H2 Hs. split; auto. exists 1. cbn. rewrite (is_ne _ _ H1), (is_ne _ _ H2). reflexivity.
  - intros e t s1 r s2 e' s' Ht Hf _ IH1 _ IH2 Hs.
    destruct (next_ok t s1 Hs) as (N & Hs1); [rewrite Ht; discriminate|].
    destruct (IH1 Hs1) as (Hs2 & n1 & P1). destruct (IH2 Hs2) as (Hs' & n2 & P2). split; auto.
    exists (S (max n1 n2)). cbn [mult_loop]. rewrite (is_cons _ _ _ Ht). cbn [orb]. rewrite N. cbn [bind].
    unfold in_first_unary in Hf. rewrite Hf. rewrite (mm _ _ _ (max n1 n2) P1) by lia. cbn [bind].
    apply (mml _ _ _ _ (max n1 n2) P2). lia.
  - intros e t s1 r s2 e' s' Ht Hf _ IH1 _ IH2 Hs.
    destruct (next_ok t s1 Hs) as (N & Hs1); [rewrite Ht; discriminate|].
    destruct (IH1 Hs1) as (Hs2 & n1 & P1). destruct (IH2 Hs2) as (Hs' & n2 & P2). split; auto.
    exists (S (max n1 n2)). cbn [mult_loop]. rewrite (is_cons _ _ _ Ht). rewrite (is_cons_ne t s1 TMul) by (rewrite Ht; discriminate). cbn [orb]. rewrite N. cbn [bind].
    unfold in_first_unary in Hf. rewrite Hf. rewrite (mm _ _ _ (max n1 n2) P1) by lia. cbn [bind].
    apply (mml _ _ _ _ (max n1 n2) P2). lia.
  - (* GE_plain *) intros s e s' Hf _ IH1 Hx Hs. destruct (IH1 Hs) as (Hs' & n1 & P1). split; auto.
    exists (S n1). cbn [parse_exponent]. unfold in_first_unary in Hf. rewrite Hf. cbn. rewrite P1. cbn. rewrite (is_ne _ _ Hx). reflexivity.
  - (* GE_pow *) intros s e t s1 r s' Hf _ IH1 Ht Hf1 _ IH2 Hs. destruct (IH1 Hs) as (Hts1 & n1 & P1).
    destruct (next_ok t s1 Hts1) as (N & Hs1); [rewrite Ht; discriminate|].
    destruct (IH2 Hs1) as (Hs' & n2 & P2). split; auto.
    exists (S (max n1 n2)). cbn [parse_exponent]. unfold in_first_unary in *. rewrite Hf. cbn [negb].
    rewrite (mu _ _ _ (max n1 n2) P1) by lia. cbn [bind]. rewrite (is_cons _ _ _ Ht). rewrite N. cbn [bind]. rewrite Hf1. cbn [negb].
    rewrite (mu _ _ _ (max n1 n2) P2) by lia. reflexivity.
  - (* GU_pos *) intros s e s' Hm _ IH Hs. destruct (IH Hs) as (Hs' & n1 & P1). split; auto.
    exists (S n1). cbn [parse_unary]. rewrite (is_ne _ _ Hm). exact P1.
  - (* GU_neg *) intros t s1 e s' Ht _ IH Hs.
    destruct (next_ok t s1 Hs) as (N & Hs1); [rewrite Ht; discriminate|].
    destruct (IH Hs1) as (Hs' & n1 & P1). split; auto.
    exists (S n1). cbn [parse_unary]. rewrite (is_cons _ _ _ Ht). rewrite N. cbn [bind]. exact P1.
  - (* GP_const *) intros neg t s1 v Ht Hc Hnf Hs.
    destruct (next_ok t s1 Hs) as (N & Hs1); [rewrite Ht; discriminate|]. split; auto.
    exists 1. cbn [parse_prefix].
    assert (check (t::s1) FIRST_FACTOR_PREFIX = true) as C by (unfold check; cbn; rewrite Ht; reflexivity). rewrite C. cbn [negb].
    rewrite (is_cons _ _ _ Ht). cbn [tval]. rewrite Hc. cbn [bind]. rewrite N. cbn [bind].
    unfold in_first_factor in Hnf. destruct (check s1 FIRST_FACTOR); [exfalso; apply Hnf; reflexivity|reflexivity].
  - (* GP_fact *) intros neg t b s2 v Ht Hc Hb Hs.
    destruct (next_ok t (b::s2) Hs) as (N & Hs1); [rewrite Ht; discriminate|].
    destruct (next_ok b s2 Hs1) as (N2 & Hs2); [rewrite Hb; discriminate|]. split; auto.
    exists 1. cbn [parse_prefix].
    assert (check (t::b::s2) FIRST_FACTOR_PREFIX = true) as C by (unfold check; cbn; rewrite Ht; reflexivity). rewrite C. cbn [negb].
    rewrite (is_cons _ _ _ Ht). cbn [tval]. rewrite Hc. cbn [bind]. rewrite N. cbn [bind].
    assert (check (b::s2) FIRST_FACTOR = true) as C2 by (unfold check; cbn; rewrite Hb; reflexivity). rewrite C2.
    rewrite (is_cons _ _ _ Hb). rewrite N2. reflexivity.
  - (* GP_cf *) intros neg t s1 v f s' Ht Hc Hff Hnf _ IH Hs.
    destruct (next_ok t s1 Hs) as (N & Hs1); [rewrite Ht; discriminate|].
    destruct (IH Hs1) as (Hs' & n1 & P1). split; auto.
    exists (S n1). cbn [parse_prefix].
    assert (check (t::s1) FIRST_FACTOR_PREFIX = true) as C by (unfold check; cbn; rewrite Ht; reflexivity). rewrite C. cbn [negb].
    rewrite (is_cons _ _ _ Ht). cbn [tval]. rewrite Hc. cbn [bind]. rewrite N. cbn [bind].
    unfold in_first_factor in Hff. rewrite Hff. rewrite (is_ne _ _ Hnf). rewrite P1. reflexivity.
  - (* GP_f *) intros neg s f s' Hnc Hff _ IH Hs. destruct (IH Hs) as (Hs' & n1 & P1). split; auto.
    exists (S n1). cbn [parse_prefix].
    assert (check s FIRST_FACTOR_PREFIX = true) as C.
    { unfold in_first_factor in Hff. destruct s as [|t r]; [discriminate|]. unfold check in *. cbn in *. rewrite Hff. apply orb_true_r. }
    rewrite C. cbn [negb]. rewrite (is_ne _ _ Hnc). rewrite P1. reflexivity.
  - (* GF_plain *) intros s fs s' e _ IH Hx Hp Hs. destruct (IH Hs) as (Hs' & n1 & P1). split; auto.
    exists (S n1). cbn [parse_factors]. rewrite (P1 []). cbn [bind app]. rewrite (is_ne _ _ Hx). rewrite Hp. reflexivity.
  - (* GF_pow *) intros s fs t s1 r s' e _ IH Ht Hf1 _ IH2 Hp Hs. destruct (IH Hs) as (Hts1 & n1 & P1).
    destruct (next_ok t s1 Hts1) as (N & Hs1); [rewrite Ht; discriminate|].
    destruct (IH2 Hs1) as (Hs' & n2 & P2). split; auto.
    exists (S (max n1 n2)). cbn [parse_factors]. rewrite (mfl _ _ _ _ (max n1 n2) (P1 [])) by lia. cbn [bind app].
    rewrite (is_cons _ _ _ Ht). rewrite N. cbn [bind]. unfold in_first_unary in Hf1. rewrite Hf1. cbn [negb].
    rewrite (mu _ _ _ (max n1 n2) P2) by lia. cbn [bind]. rewrite Hp. reflexivity.
  - (* GS_one *) intros s a s' _ IH Hnf Hs. destruct (IH Hs) as (Hs' & n1 & P1). split; auto.
    exists (S n1). intros acc. rewrite factors_loop_unfold. rewrite P1. cbn [bind].
    unfold in_first_factor in Hnf. destruct (check s' FIRST_FACTOR); [exfalso; apply Hnf; reflexivity|reflexivity].
  - (* GS_more *) intros s a s1 fs s' _ IH Hff _ IH2 Hs. destruct (IH Hs) as (Hs1 & n1 & P1). destruct (IH2 Hs1) as (Hs' & n2 & P2). split; auto.
    exists (S (max n1 n2)). intros acc. rewrite factors_loop_unfold. rewrite (matom _ _ _ (max n1 n2) P1) by lia. cbn [bind].
    unfold in_first_factor in Hff. rewrite Hff. rewrite (mfl _ _ _ _ (max n1 n2) (P2 (acc ++ [a]))) by lia. now rewrite <- app_assoc.
  - (* GT_var *) intros t s1 Ht Hs. destruct (next_ok t s1 Hs) as (N & Hs1); [rewrite Ht; discriminate|]. split; auto.
    exists 0. unfold atom_step. rewrite (is_cons _ _ _ Ht). rewrite N. reflexivity.
  - (* GT_fun *) intros t o s1 e c s' Ht Ho _ IH Hc Hs.
    destruct (next_ok t (o::s1) Hs) as (N & Hs0); [rewrite Ht; discriminate|].
    destruct (next_ok o s1 Hs0) as (N2 & Hs1); [rewrite Ho; discriminate|].
    destruct (IH Hs1) as (Hcs & n1 & P1). destruct (next_ok c s' Hcs) as (N3 & Hs'); [rewrite Hc; discriminate|]. split; auto.
    exists n1. unfold atom_step. rewrite (is_cons_ne t _ TVar) by (rewrite Ht; discriminate). rewrite (is_cons _ _ _ Ht). rewrite N. cbn [bind].
    unfold eat. rewrite (is_cons _ _ _ Ho). rewrite N2. cbn [bind]. rewrite P1. cbn [bind]. rewrite (is_cons _ _ _ Hc). rewrite N3. reflexivity.
  - (* GT_par *) intros o s1 e c s' Ho _ IH Hc Hs.
    destruct (next_ok o s1 Hs) as (N & Hs1); [rewrite Ho; discriminate|].
    destruct (IH Hs1) as (Hcs & n1 & P1). destruct (next_ok c s' Hcs) as (N3 & Hs'); [rewrite Hc; discriminate|]. split; auto.
    exists n1. unfold atom_step. rewrite (is_cons_ne o _ TVar) by (rewrite Ho; discriminate). rewrite (is_cons_ne o _ TFunc) by (rewrite Ho; discriminate).
    rewrite (is_cons _ _ _ Ho). rewrite N. cbn [bind]. rewrite P1. cbn [bind]. unfold eat. rewrite (is_cons _ _ _ Hc). rewrite N3. reflexivity.
Qed.
Print Assumptions complete.
