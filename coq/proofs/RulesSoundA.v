(* Local soundness of the rewrite rules over the real denotation, part A:
   the framework (Local steps + congruence) and the rules without term arithmetic:
   associative swap, commutative swap, multiplicative inverse, distributive multiply, restate subtraction. *)
From Coq Require Import List NArith ZArith QArith Qreals Reals Lra Lia Bool.
From Mathy Require Import Num Expr Util Rules Sem.
From MathyProofs Require Import ExprFacts SemFacts NumSem PowSem.
Import ListNotations.
Open Scope R_scope.

(* a rewrite that replaces ONE subtree by a refinement of it *)
Definition LocalAt (root:expr) (q:path) (root':expr) : Prop :=
  exists a b, subtree root q = Some a /\ root' = replace root q b /\ refines a b.
Definition Local (root root':expr) : Prop := exists q, LocalAt root q root'.
Lemma local_refines root root' : Local root root' -> refines root root'.
Proof. intros (q & a & b & Hs & -> & Hr). eapply refines_replace; eauto. Qed.
Lemma local_at root p a b : subtree root p = Some a -> refines a b -> LocalAt root p (replace root p b).
Proof. intros. exists a, b. auto. Qed.

Ltac rsolve :=
  let rho := fresh "rho" in let v := fresh "v" in
  intros rho v; cbn [den bind2 bind1 binop option_map];
  repeat match goal with |- context[den rho ?e] => destruct (den rho e) end;
  repeat match goal with |- context[numR ?e] => destruct (numR e) end;
  cbn [bind2 bind1 binop option_map]; try discriminate;
  repeat match goal with |- context[Req_EM_T ?a ?b] => destruct (Req_EM_T a b) end;
  cbn [bind2 bind1 binop option_map]; try discriminate;
  try (intros [= <-]; f_equal; first [ring | lra | (field; lra) | (field; assumption)]).

(* congruence for binary / unary nodes *)
Lemma refines_bin k a a' b b' : refines a a' -> refines b b' -> refines (Bin k a b) (Bin k a' b').
Proof.
  intros Ha Hb rho v. cbn [den]. destruct (den rho a) eqn:Ea; cbn [bind2]; [|discriminate].
  destruct (den rho b) eqn:Eb; cbn [bind2]; [|discriminate]. rewrite (Ha _ _ Ea), (Hb _ _ Eb). auto.
Qed.
Lemma refines_binl k a a' b : refines a a' -> refines (Bin k a b) (Bin k a' b).
Proof. intros. apply refines_bin; auto using refines_refl. Qed.
Lemma refines_binr k a b b' : refines b b' -> refines (Bin k a b) (Bin k a b').
Proof. intros. apply refines_bin; auto using refines_refl. Qed.

(* basic algebra as refinements *)
Lemma add_assoc_l a b c : refines (Bin KAdd (Bin KAdd a b) c) (Bin KAdd a (Bin KAdd b c)). Proof. rsolve. Qed.
Lemma add_assoc_r a b c : refines (Bin KAdd a (Bin KAdd b c)) (Bin KAdd (Bin KAdd a b) c). Proof. rsolve. Qed.
Lemma mul_assoc_l a b c : refines (Bin KMul (Bin KMul a b) c) (Bin KMul a (Bin KMul b c)). Proof. rsolve. Qed.
Lemma mul_assoc_r a b c : refines (Bin KMul a (Bin KMul b c)) (Bin KMul (Bin KMul a b) c). Proof. rsolve. Qed.
Lemma add_comm a b : refines (Bin KAdd a b) (Bin KAdd b a). Proof. rsolve. Qed.
Lemma mul_comm a b : refines (Bin KMul a b) (Bin KMul b a). Proof. rsolve. Qed.
Lemma eq_flip a b : refines (Bin KEq a b) (Bin KEq b a). Proof. rsolve. Qed.
Lemma add_swap_right x b y : refines (Bin KAdd (Bin KAdd x y) b) (Bin KAdd (Bin KAdd x b) y). Proof. rsolve. Qed.
Lemma mul_swap_right x b y : refines (Bin KMul (Bin KMul x y) b) (Bin KMul (Bin KMul x b) y). Proof. rsolve. Qed.

(* ---------- associative swap ---------- *)
Theorem assoc_sound root p z : assoc_can root p = true -> assoc_apply root p = ROk z ->
  exists q d, parent_path p = Some (q, d) /\ LocalAt root q (fst z) /\ (is_k KAdd (subtree root q) = true \/ is_k KMul (subtree root q) = true).
Proof.
  unfold assoc_can, assoc_apply, node, par, parent.
  destruct (parent_path p) as [[q d]|] eqn:PP.
  - pose proof (parent_path_app _ _ _ PP) as ->. rewrite subtree_app.
    destruct (subtree root q) as [pe|] eqn:Sq; [|simpl; discriminate].
    rewrite subtree_one. intros Hc.
    assert (exists K, (K = KAdd \/ K = KMul) /\ is_k K (match d with DL => lft pe | DR => rgt pe end) = true /\ is_k K (Some pe) = true) as (K & HK & Hn & Hp).
    { apply orb_prop in Hc. destruct Hc as [H|H]; apply andb_prop in H; destruct H; [exists KAdd|exists KMul]; auto. }
    apply is_k_inv in Hp. destruct Hp as (pl & pr & [= ->]). apply is_k_inv in Hn. destruct Hn as (a & b & Hn).
    destruct d; simpl in Hn; inversion Hn; subst; simpl; intros [= <-]; simpl.
    + exists q, DL. split; [reflexivity|]. split.
      * exists (Bin K (Bin K a b) pr), (Bin K a (Bin K b pr)). repeat split; auto. destruct HK as [-> | ->]; [apply add_assoc_l|apply mul_assoc_l].
      * rewrite Sq. destruct HK as [-> | ->]; auto.
    + exists q, DR. split; [reflexivity|]. split.
      * exists (Bin K pl (Bin K a b)), (Bin K (Bin K pl a) b). repeat split; auto. destruct HK as [-> | ->]; [apply add_assoc_r|apply mul_assoc_r].
      * rewrite Sq. destruct HK as [-> | ->]; auto.
  - simpl. rewrite !andb_false_r. discriminate.
Qed.

(* ---------- commutative swap ---------- *)
Lemma comm_can_kind root p pr : comm_can root p pr = true -> is_k KAdd (node root p) = true \/ is_k KEq (node root p) = true \/ is_k KMul (node root p) = true.
Proof.
  unfold comm_can. destruct (is_k KAdd (node root p)) eqn:A; [auto|]. destruct (is_k KEq (node root p)) eqn:E; [auto|]. simpl.
  destruct (is_k KMul (node root p)) eqn:M; [auto|]. simpl. discriminate.
Qed.
Theorem comm_sound root p pr z : comm_can root p pr = true -> comm_apply root p = ROk z -> LocalAt root p (fst z).
Proof.
  intros Hc. apply comm_can_kind in Hc. unfold comm_apply. unfold node in *.
  destruct (subtree root p) as [n|] eqn:Sp; [|destruct Hc as [H|[H|H]]; discriminate].
  destruct n as [| | |k a b]; try (destruct Hc as [H|[H|H]]; discriminate).
  intros [= <-]. simpl. apply (local_at _ _ _ _ Sp).
  assert (k = KAdd \/ k = KEq \/ k = KMul) as Hk.
  { destruct Hc as [H|[H|H]]; destruct k; simpl in H; try discriminate; auto. }
  destruct Hk as [-> | [-> | ->]].
  - destruct a as [| | |ka p1 q1]; try apply add_comm. destruct ka; try apply add_comm. apply add_swap_right.
  - apply eq_flip.
  - destruct a as [| | |ka p1 q1]; try apply mul_comm. destruct ka; try apply mul_comm. apply mul_swap_right.
Qed.

(* ---------- multiplicative inverse ---------- *)
Lemma div_as_mul l r : refines (Bin KDiv l r) (Bin KMul l (Bin KDiv (Const (NInt 1)) r)).
Proof.
  intros rho v. cbn [den bind2 binop]. rewrite numR_int. destruct (den rho l), (den rho r); cbn [bind2 binop]; try discriminate.
  destruct (Req_EM_T r1 0); try discriminate. intros [= <-]. f_equal; try (field; assumption).
Qed.
Theorem mi_sound root p z : mi_can root p = true -> mi_apply root p = ROk z -> LocalAt root p (fst z).
Proof.
  unfold mi_can, mi_apply, node. destruct (subtree root p) as [n|] eqn:Hs; [|discriminate].
  destruct n as [| | |k l r]; try discriminate. destruct k; try discriminate. intros _.
  assert (refines (Bin KDiv l r) (Bin KMul l (Bin KDiv (Const (NInt 1)) r))) as Gen.
  { intros rho v. cbn [den bind2 binop]. rewrite numR_int. destruct (den rho l), (den rho r); cbn [bind2 binop]; try discriminate.
    destruct (Req_EM_T r1 0); try discriminate. intros [= <-]. f_equal; try (field; assumption). }
  destruct r as [| |u c|]; try (intros [= <-]; simpl; apply (local_at _ _ _ _ Hs); exact Gen).
  destruct u; try (intros [= <-]; simpl; apply (local_at _ _ _ _ Hs); exact Gen).
  intros [= <-]. simpl. apply (local_at _ _ _ _ Hs).
  intros rho v. cbn [den bind2 binop option_map]. rewrite numR_int. destruct (den rho l), (den rho c); cbn [bind2 binop option_map]; try discriminate.
  destruct (Req_EM_T (- r0) 0); try discriminate. destruct (Req_EM_T r0 0); [lra|]. intros [= <-]. f_equal; try (field; assumption).
Qed.

(* ---------- distributive multiply ---------- *)
Lemma distr_l a b c : refines (Bin KMul a (Bin KAdd b c)) (Bin KAdd (Bin KMul a b) (Bin KMul a c)). Proof. rsolve. Qed.
Lemma distr_r a b c : refines (Bin KMul (Bin KAdd b c) a) (Bin KAdd (Bin KMul a b) (Bin KMul a c)). Proof. rsolve. Qed.
Lemma mul_either a b (s:bool) : refines (Bin KMul a b) (if s then Bin KMul b a else Bin KMul a b).
Proof. destruct s; [apply mul_comm|apply refines_refl]. Qed.
Ltac dm_close := repeat match goal with |- context[if ?c then _ else _] => destruct c end;
  apply refines_bin; first [apply refines_refl | apply mul_comm].
Theorem dm_sound root p z : dm_can root p = true -> dm_apply root p = ROk z -> LocalAt root p (fst z).
Proof.
  unfold dm_can, dm_apply, node. destruct (subtree root p) as [n|] eqn:Hs; [|discriminate].
  destruct n as [| | |k l r]; try discriminate. destruct k; try discriminate. intros _.
  destruct l as [| | |kl ll lr].
  1-3: destruct r as [| | |kr rl rr]; try discriminate; destruct kr; try discriminate;
       cbn [rbind]; intros [= <-]; cbn [fst]; apply (local_at _ _ _ _ Hs); (eapply refines_trans; [apply distr_l|]); dm_close.
  destruct kl.
  2: { cbn [rbind]. intros [= <-]. cbn [fst]. apply (local_at _ _ _ _ Hs). eapply refines_trans; [apply distr_r|]. dm_close. }
  all: destruct r as [| | |kr rl rr]; try discriminate; destruct kr; try discriminate;
       cbn [rbind]; intros [= <-]; cbn [fst]; apply (local_at _ _ _ _ Hs); (eapply refines_trans; [apply distr_l|]); dm_close.
Qed.

(* ---------- restate subtraction ---------- *)
Lemma sub_as_add_neg l r : refines (Bin KSub l r) (Bin KAdd l (Un UNeg r)). Proof. rsolve. Qed.
Lemma sub_neg_var l c : refines (Bin KSub l (Un UNeg c)) (Bin KAdd l c). Proof. rsolve. Qed.
Lemma sub_const l v : refines (Bin KSub l (Const v)) (Bin KAdd l (Const (nneg v))).
Proof.
  intros rho x. cbn [den]. destruct (numR v) as [rv|] eqn:E.
  - rewrite (numR_nneg _ _ E). destruct (den rho l); cbn [bind2 binop]; [|discriminate]. intros [= <-]. f_equal; try ring.
  - destruct (den rho l); cbn [bind2]; discriminate.
Qed.
Lemma add_const l v : refines (Bin KAdd l (Const v)) (Bin KSub l (Const (nneg v))).
Proof.
  intros rho x. cbn [den]. destruct (numR v) as [rv|] eqn:E.
  - rewrite (numR_nneg _ _ E). destruct (den rho l); cbn [bind2 binop]; [|discriminate]. intros [= <-]. f_equal; try ring.
  - destruct (den rho l); cbn [bind2]; discriminate.
Qed.
(* negating the leading constant of a product or quotient negates it *)
Lemma neg_left_mul v t : refines (Un UNeg (Bin KMul (Const v) t)) (Bin KMul (Const (nneg v)) t).
Proof.
  intros rho x. cbn [den]. destruct (numR v) as [rv|] eqn:E.
  - rewrite (numR_nneg _ _ E). destruct (den rho t); cbn [bind2 binop option_map]; [|discriminate]. intros [= <-]. f_equal; try ring.
  - cbn [bind2 option_map]. discriminate.
Qed.
Lemma neg_left_div v t : refines (Un UNeg (Bin KDiv (Const v) t)) (Bin KDiv (Const (nneg v)) t).
Proof.
  intros rho x. cbn [den]. destruct (numR v) as [rv|] eqn:E.
  - rewrite (numR_nneg _ _ E). destruct (den rho t) as [rt|]; cbn [bind2 binop option_map]; [|discriminate].
    destruct (Req_EM_T rt 0); cbn [option_map]; [discriminate|]. intros [= <-]. f_equal; try (field; assumption).
  - cbn [bind2 option_map]. discriminate.
Qed.
Lemma unneg_left_mul v t : refines (Bin KMul (Const v) t) (Un UNeg (Bin KMul (Const (nneg v)) t)).
Proof.
  intros rho x. cbn [den]. destruct (numR v) as [rv|] eqn:E.
  - rewrite (numR_nneg _ _ E). destruct (den rho t); cbn [bind2 binop option_map]; [|discriminate]. intros [= <-]. f_equal; try ring.
  - cbn [bind2]. discriminate.
Qed.
Lemma sub_to_add_negated l r r' : refines (Un UNeg r) r' -> refines (Bin KSub l r) (Bin KAdd l r').
Proof. intros H. eapply refines_trans; [apply sub_as_add_neg|]. apply refines_binr. exact H. Qed.
Lemma add_to_sub_negated l r r' : refines r (Un UNeg r') -> refines (Bin KAdd l r) (Bin KSub l r').
Proof.
  intros H rho x. cbn [den bind2 binop]. destruct (den rho l); cbn [bind2]; [|discriminate].
  destruct (den rho r) eqn:E; cbn [bind2 binop]; [|discriminate]. apply H in E. cbn [den option_map] in E.
  destruct (den rho r'); cbn [option_map] in E; [|discriminate]. inversion E; subst. cbn [bind2 binop]. intros [= <-]. f_equal; try ring.
Qed.


Theorem rs_sound root p z : isSome (rs_type root p) = true -> rs_apply root p = ROk z -> LocalAt root p (fst z).
Proof.
  unfold rs_apply. destruct (rs_type root p) as [op|] eqn:T; [|discriminate]. intros _.
  unfold node in *. destruct (subtree root p) as [n|] eqn:Hs; [|discriminate].
  destruct n as [| | |k l r]; try discriminate.
  unfold rs_type, node in T. rewrite Hs in T. cbv zeta in T. change (orgt (Some (Bin k l r))) with (Some r) in T.
  destruct (is_k KSub (Some (Bin k l r)) && _) eqn:SubCase.
  - apply andb_prop in SubCase. destruct SubCase as (Hk & _). destruct k; simpl in Hk; try discriminate. clear Hk.
    destruct (is_neg (Some r) && is_var (orgt (Some r))) eqn:NV.
    { inversion T; subst op. apply andb_prop in NV. destruct NV as (N1 & _). apply is_neg_inv in N1. destruct N1 as (c & [= ->]).
      cbn [rbind]. intros [= <-]. simpl. apply (local_at _ _ _ _ Hs). apply sub_neg_var. }
    destruct (match cval (Some r) with Some v => nlt0 v | None => false end) eqn:NC.
    { inversion T; subst op. destruct r as [v| | |]; try discriminate. cbn [rbind]. intros [= <-]. simpl. apply (local_at _ _ _ _ Hs). apply sub_const. }
    destruct ((is_k KMul (Some r) || is_k KDiv (Some r)) && is_const (olft (Some r))) eqn:TC.
    { inversion T; subst op. apply andb_prop in TC. destruct TC as (K & Cn). cbn [rbind]. intros [= <-]. simpl. apply (local_at _ _ _ _ Hs).
      apply sub_to_add_negated.
      apply orb_prop in K. destruct K as [K|K]; apply is_k_inv in K; destruct K as (rl & rr & [= ->]); simpl in Cn;
        destruct rl as [v| | |]; try discriminate; simpl; [apply neg_left_mul|apply neg_left_div]. }
    inversion T; subst op. cbn [rbind]. intros [= <-]. simpl. apply (local_at _ _ _ _ Hs). apply sub_as_add_neg.
  - destruct (negb (is_k KAdd (Some (Bin k l r)))) eqn:NA; [discriminate|].
    apply negb_false_iff in NA. destruct k; simpl in NA; try discriminate. clear NA.
    destruct (is_const (Some r)) eqn:RC.
    { apply is_const_inv in RC. destruct RC as (v & [= ->]). simpl in T. destruct (nlt0 v); [|discriminate]. inversion T; subst op.
      cbn [rbind]. intros [= <-]. simpl. apply (local_at _ _ _ _ Hs). apply add_const. }
    destruct (is_k KMul (Some r) && is_const (olft (Some r)) && is_var (orgt (Some r))) eqn:CV.
    { apply andb_prop in CV. destruct CV as (CV & _). apply andb_prop in CV. destruct CV as (K & Cn).
      apply is_k_inv in K. destruct K as (rl & rr & [= ->]). simpl in Cn. destruct rl as [v| | |]; try discriminate.
      simpl in T. destruct (nlt0 v); [|discriminate]. inversion T; subst op.
      cbn [rbind]. intros [= <-]. simpl. apply (local_at _ _ _ _ Hs). apply add_to_sub_negated. apply unneg_left_mul. }
    destruct (is_k KMul (Some r) && is_const (olft (Some r)) && is_k KPow (orgt (Some r))) eqn:CVE; [|discriminate].
    apply andb_prop in CVE. destruct CVE as (CVE & _). apply andb_prop in CVE. destruct CVE as (K & Cn).
    apply is_k_inv in K. destruct K as (rl & rr & [= ->]). simpl in Cn. destruct rl as [v| | |]; try discriminate.
    simpl in T. destruct (nlt0 v); [|discriminate]. inversion T; subst op.
    cbn [rbind]. intros [= <-]. simpl. apply (local_at _ _ _ _ Hs). apply add_to_sub_negated. apply unneg_left_mul.
Qed.
