(* The search-agent loop at heap level (C09's last clause, C07's clone-source clause along sequences): each step clones the current
   tree from its root, rewrites the copy and continues from the copy. Every tree reached earlier still stands in the heap exactly as
   it was (same objects, same links, same payloads), and the current tree is well-formed. *)
From Coq Require Import List NArith ZArith Bool Arith Lia.
From Mathy Require Import Num Expr Heap Rules Walk Plans HeapPlan.
From MathyProofs Require Import ExprFacts HeapFacts PlansFacts HeapPlanFacts HeapPlanClone HeapPlanSeq.
Import ListNotations.

(* ---------- executing a plan touches only the three pointers of old records; fresh records have clean scratch fields ---------- *)
Definition same_payload (n n':hnode) : Prop :=
  h_cls n' = h_cls n /\ h_id n' = h_id n /\ h_val n' = h_val n /\ h_ident n' = h_ident n /\ h_col n' = h_col n /\ h_cn n' = h_cn n /\ h_ct n' = h_ct n.
Definition pext (h g:heap) : Prop :=
  length h <= length g /\
  (forall b n, nth_error h b = Some n -> exists n', nth_error g b = Some n' /\ same_payload n n') /\
  (forall b n', length h <= b -> nth_error g b = Some n' -> h_ct n' = Some [] /\ h_cn n' = None).
Lemma same_payload_refl n : same_payload n n. Proof. repeat split. Qed.
Lemma same_payload_trans a b c : same_payload a b -> same_payload b c -> same_payload a c.
Proof. unfold same_payload. intuition congruence. Qed.
Lemma pext_refl h : pext h h.
Proof. split; [lia|]. split; [intros b n H; exists n; split; [exact H|apply same_payload_refl]|]. intros b n' Hb Hn. exfalso. assert (b < length h) by (apply nth_error_Some; congruence). lia. Qed.
Lemma pext_trans a b c : pext a b -> pext b c -> pext a c.
Proof.
  intros (L1 & P1 & F1) (L2 & P2 & F2). split; [lia|]. split.
  - intros x n H. destruct (P1 x n H) as (n1 & H1 & S1). destruct (P2 x n1 H1) as (n2 & H2 & S2). exists n2. split; [exact H2|eapply same_payload_trans; eauto].
  - intros x n' Hx Hn. destruct (Nat.lt_ge_cases x (length b)) as [Lt|Ge].
    + destruct (nth_error b x) as [n1|] eqn:E1; [|apply nth_error_None in E1; lia].
      destruct (F1 x n1 Hx E1) as (C1 & C2). destruct (P2 x n1 E1) as (n2 & H2 & S2). rewrite Hn in H2. inversion H2; subst n2.
      destruct S2 as (_ & _ & _ & _ & _ & Q1 & Q2). split; congruence.
    + apply (F2 x n' Ge Hn).
Qed.
Lemma pext_upd_ptr h a f : (forall n, same_payload n (f n)) -> pext h (upd h a f).
Proof.
  intros Hf. split; [rewrite upd_length; lia|]. split.
  - intros b n H. rewrite nth_upd. destruct (Nat.eqb_spec a b) as [->|_]; rewrite H; cbn [option_map]; eexists; split; eauto. apply same_payload_refl.
  - intros b n' Hb Hn. exfalso. rewrite nth_upd in Hn. assert (nth_error h b = None) as E by (apply nth_error_None; lia).
    destruct (Nat.eqb a b); rewrite E in Hn; discriminate.
Qed.
Lemma pext_link_l h a c : pext h (link_l h a c).
Proof. unfold link_l. eapply pext_trans; apply pext_upd_ptr; intros n; repeat split. Qed.
Lemma pext_link_r h a c : pext h (link_r h a c).
Proof. unfold link_r. eapply pext_trans; apply pext_upd_ptr; intros n; repeat split. Qed.
Lemma pext_new h cls v x : pext h (h ++ [new_node cls v x]).
Proof.
  split; [rewrite app_length; cbn; lia|]. split.
  - intros b n H. exists n. split; [|apply same_payload_refl]. rewrite nth_error_app1; [exact H|]. apply nth_error_Some. congruence.
  - intros b n' Hb Hn. rewrite nth_error_app2 in Hn by lia. destruct (b - length h) as [|k]; cbn in Hn; [inversion Hn; subst; split; reflexivity|destruct k; discriminate].
Qed.
Lemma alloc_pext e : forall h h' a, alloc h e = (h', a) -> pext h h'.
Proof.
  induction e as [n|v|u c IH|k l IHl r IHr]; intros h h' a; cbn [alloc].
  - intros [= <- <-]. apply pext_new.
  - intros [= <- <-]. apply pext_new.
  - destruct (alloc h c) as [h1 a1] eqn:E. intros [= <- <-]. eapply pext_trans; [eapply IH; eauto|]. eapply pext_trans; [apply pext_new|apply pext_link_r].
  - destruct (alloc h l) as [h1 a1] eqn:E1. destruct (alloc h1 r) as [h2 a2] eqn:E2. intros [= <- <-].
    eapply pext_trans; [eapply IHl; eauto|]. eapply pext_trans; [eapply IHr; eauto|]. eapply pext_trans; [apply pext_new|]. eapply pext_trans; [apply pext_link_l|apply pext_link_r].
Qed.
Lemma exec_pext ctx pl : forall h h' a, exec ctx pl h = Some (h', a) -> pext h h'.
Proof.
  induction pl as [q|e|k l IHl r IHr|u c IH|q l IHl r IHr]; intros h h' a; cbn [exec].
  - destruct (isub ctx q); [|discriminate]. intros [= <- <-]. apply pext_refl.
  - intros [= E]. destruct (alloc h e) as [hh aa] eqn:A. inversion E; subst. eapply alloc_pext; eauto.
  - destruct (exec ctx l h) as [[h1 a1]|] eqn:E1; [|discriminate]. destruct (exec ctx r h1) as [[h2 a2]|] eqn:E2; [|discriminate]. intros [= <- <-].
    eapply pext_trans; [eapply IHl; eauto|]. eapply pext_trans; [eapply IHr; eauto|]. eapply pext_trans; [apply pext_new|]. eapply pext_trans; [apply pext_link_l|apply pext_link_r].
  - destruct (exec ctx c h) as [[h1 a1]|] eqn:E1; [|discriminate]. intros [= <- <-].
    eapply pext_trans; [eapply IH; eauto|]. eapply pext_trans; [apply pext_new|apply pext_link_r].
  - destruct (isub ctx q) as [[| | |a0 k0 l0 r0]|]; try discriminate.
    destruct (exec ctx l h) as [[h1 a1]|] eqn:E1; [|discriminate]. destruct (exec ctx r h1) as [[h2 a2]|] eqn:E2; [|discriminate]. intros [= <- <-].
    eapply pext_trans; [eapply IHl; eauto|]. eapply pext_trans; [eapply IHr; eauto|]. eapply pext_trans; [apply pext_link_l|apply pext_link_r].
Qed.
Lemma run_plan_pext whole q pl h h' a : run_plan whole q pl h = Some (h', a) -> pext h h'.
Proof.
  unfold run_plan. destruct (isub whole q) as [ctx|]; [|discriminate]. destruct (exec ctx pl h) as [[h1 a1]|] eqn:E; [|discriminate].
  pose proof (exec_pext ctx pl h h1 a1 E) as P1.
  destruct (parent_path q) as [[q0 d]|]; [|intros [= <- <-]; exact P1].
  destruct (isub whole q0); [|discriminate]. intros [= <- <-]. eapply pext_trans; [exact P1|]. unfold attach. destruct d; [apply pext_link_l|apply pext_link_r].
Qed.

(* ---------- back from address-annotated expressions to C13's abstract heap trees ---------- *)
Lemma irep_rep : forall T h p, irep h T p ->
  exists t, rep h (Some (iaddr T)) p t /\ shape_of t (ierase T) /\ oaddrs h (Some (iaddr T)) t = iaddrs T.
Proof.
  induction T as [a n|a v|a u c IH|a k l IHl r IHr]; intros h p; cbn [irep iaddr ierase iaddrs].
  - intros (nd & Hn & C1 & C2 & C3 & C4 & C5). exists (AN cls_const (h_id nd) (Some n) (h_ident nd) (h_col nd) AE AE).
    split; [cbn [rep]; exists a, nd; repeat split; auto|]. split; [cbn [shape_of]; eauto|]. cbn [oaddrs]. rewrite Hn. reflexivity.
  - intros (nd & Hn & C1 & C2 & C3 & C4 & C5). exists (AN cls_var (h_id nd) (h_val nd) (Some v) (h_col nd) AE AE).
    split; [cbn [rep]; exists a, nd; repeat split; auto|]. split; [cbn [shape_of]; eauto|]. cbn [oaddrs]. rewrite Hn. reflexivity.
  - intros (nd & Hn & C1 & C2 & C3 & C4 & Rc). destruct (IH h (Some a) Rc) as (tc & R1 & S1 & O1).
    exists (AN (cls_un u) (h_id nd) (h_val nd) (h_ident nd) (h_col nd) AE tc).
    split; [cbn [rep]; exists a, nd; rewrite C3; repeat split; auto|]. split; [cbn [shape_of]; eauto 10|]. cbn [oaddrs]. rewrite Hn, C3, O1. reflexivity.
  - intros (nd & Hn & C1 & C2 & C3 & C4 & Rl & Rr). destruct (IHl h (Some a) Rl) as (tl & R1 & S1 & O1). destruct (IHr h (Some a) Rr) as (tr & R2 & S2 & O2).
    exists (AN (cls_bin k) (h_id nd) (h_val nd) (h_ident nd) (h_col nd) tl tr).
    split; [cbn [rep]; exists a, nd; rewrite C2, C3; repeat split; auto|]. split; [cbn [shape_of]; eauto 10|]. cbn [oaddrs]. rewrite Hn, C2, C3, O1, O2. reflexivity.
Qed.

(* the scratch fields of every node of the tree are at rest (no clone_from_root in progress) *)
Definition dead_tree (h:heap) (T:iexpr) : Prop := forall b n, In b (iaddrs T) -> nth_error h b = Some n -> dead (h_ct n).

(* one step of the loop: clone the current tree from its root through some node of it, rewrite the copy *)
Section LOOP.
Variable pick : heap -> iexpr -> nat.        (* the node handed to clone_from_root: any node of the current tree *)
Hypothesis pick_in : forall h T, In (pick h T) (iaddrs T).

Inductive Sreach : heap -> iexpr -> list step -> heap -> iexpr -> Prop :=
| sr_nil h T : Sreach h T [] h T
| sr_cons h T r p h1 k copy q pl h2 T1 rest h3 T3 :
    clone_from_root h (pick h T) = HOk (h1, length h + k) -> iaddr copy = length h -> wf_tree h1 copy -> ierase copy = ierase T ->
    rule_plan (ierase T) p r = Some (q, pl) -> run_plan copy q pl h1 = Some (h2, iaddr T1) -> wf_tree h2 T1 ->
    Sreach h2 T1 rest h3 T3 -> Sreach h T ((r, p) :: rest) h3 T3.

Lemma one_step h T r p z :
  wf_tree h T -> dead_tree h T -> can_apply (ierase T) p r = true -> apply (ierase T) p r = ROk z -> step_ok (ierase T) (r, p) = true ->
  exists h1 k copy q pl h2 T1,
    clone_from_root h (pick h T) = HOk (h1, length h + k) /\ iaddr copy = length h /\ wf_tree h1 copy /\ ierase copy = ierase T /\
    rule_plan (ierase T) p r = Some (q, pl) /\ run_plan copy q pl h1 = Some (h2, iaddr T1) /\ wf_tree h2 T1 /\ dead_tree h2 T1 /\ ierase T1 = fst z /\
    (forall a0 p0 t0, rep h (Some a0) p0 t0 -> rep h2 (Some a0) p0 t0).
Proof.
  intros (R & ND) DT C A SO.
  destruct (irep_rep T h None R) as (t & Rt & St & Ot).
  assert (NDo : NoDup (oaddrs h (Some (iaddr T)) t)) by (rewrite Ot; exact ND).
  assert (Hin : In (pick h T) (oaddrs h (Some (iaddr T)) t)) by (rewrite Ot; apply pick_in).
  assert (DD : forall b n, In b (oaddrs h (Some (iaddr T)) t) -> b <> pick h T -> nth_error h b = Some n -> dead (h_ct n)).
  { intros b n Hb _ Hn. rewrite Ot in Hb. eapply DT; eauto. }
  destruct (clone_from_root_full t h (iaddr T) (pick h T) Rt NDo Hin DD) as (h1 & k & X & _ & _ & Rc & Ro & L1 & OC & OO & SX & CL).
  destruct (rep_irep (ierase T) t h1 (length h) None Rc St) as (copy & E1 & E2 & E3 & E4).
  assert (NDc : NoDup (iaddrs copy)) by (rewrite E4, OC; apply seq_NoDup).
  destruct (plan_matches r (ierase T) p z C A) as (q & pl & at_ & e' & RP & Hs & Er & Ez).
  unfold step_ok in SO. cbn [fst snd] in SO. rewrite RP in SO.
  assert (TOP : q = [] -> top_ok pl = true) by (intros ->; exact SO).
  rewrite <- E1 in Hs. destruct (subtree_isub _ _ _ Hs) as (ctx & Ec & Ee). subst at_.
  destruct (run_plan_wf copy h1 q ctx pl e' (conj E3 NDc) Ec (plans_linear _ _ _ _ _ RP) Er TOP) as (h2 & T1 & X2 & W & E & F & I).
  pose proof (run_plan_pext copy q pl h1 h2 (iaddr T1) X2) as (PL & PP & PF).
  exists h1, k, copy, q, pl, h2, T1. split; [exact X|]. split; [exact E2|]. split; [exact (conj E3 NDc)|]. split; [exact E1|]. split; [exact RP|].
  split; [exact X2|]. split; [exact W|]. split; [|split; [rewrite Ez, E, E1; reflexivity|]].
  - (* scratch fields of the new tree: copies and fresh records are clean, the rewrite does not touch them *)
    intros b n Hb Hn. destruct (I b Hb) as [Q|Q].
    + rewrite E4, OC in Q. apply in_seq in Q.
      destruct (nth_error h1 b) as [n1|] eqn:H1; [|apply nth_error_None in H1; lia].
      destruct (CL b n1 (proj1 Q) H1) as (C1 & _). destruct (PP b n1 H1) as (n2 & H2 & S2). rewrite Hn in H2. inversion H2; subst n2.
      destruct S2 as (_ & _ & _ & _ & _ & _ & Q2). right. congruence.
    + destruct (PF b n Q Hn) as (C1 & _). right. exact C1.
  - (* everything that stood in the heap before still stands *)
    intros a0 p0 t0 R0. assert (R1 : rep h1 (Some a0) p0 t0) by (eapply rep_sext; eauto).
    apply (rep_frame t0 h1 h2); [|exact R1]. intros b Hb.
    assert (b < length h). { rewrite (oaddrs_sext t0 h h1 (Some a0) p0 SX R0) in Hb. eapply oaddrs_in_heap; eauto. }
    apply F; [lia|]. rewrite E4, OC. intros Q. apply in_seq in Q. lia.
Qed.

Theorem search_loop : forall steps h T final,
  wf_tree h T -> dead_tree h T -> run (ierase T) steps = Some final -> all_ok (ierase T) steps = true ->
  exists h' T', Sreach h T steps h' T' /\ wf_tree h' T' /\ dead_tree h' T' /\ ierase T' = final /\
    (forall a0 p0 t0, rep h (Some a0) p0 t0 -> rep h' (Some a0) p0 t0).
Proof.
  induction steps as [|[r p] rest IH]; intros h T final W DT R OK; cbn [run all_ok] in *.
  - inversion R; subst. exists h, T. split; [constructor|]. auto.
  - destruct (can_apply (ierase T) p r) eqn:C; [|discriminate]. destruct (apply (ierase T) p r) as [[root' p']|] eqn:A; [|discriminate].
    apply andb_prop in OK. destruct OK as (SO & OK).
    destruct (one_step h T r p (root', p') W DT C A SO) as (h1 & k & copy & q & pl & h2 & T1 & X & E2 & Wc & Ec & RP & X2 & W1 & D1 & E1 & K1).
    cbn [fst] in E1. rewrite <- E1 in R, OK.
    destruct (IH h2 T1 final W1 D1 R OK) as (h3 & T3 & SR & W3 & D3 & E3 & K3).
    exists h3, T3. split; [econstructor; eauto|]. split; [exact W3|]. split; [exact D3|]. split; [exact E3|]. intros a0 p0 t0 R0. apply K3. now apply K1.
Qed.
End LOOP.
