(* ported from design/prototypes.md (A.13-3-Sound.v); statements are about the normal form NF, transferred to the model by nf_eq *)
From Coq Require Import List NArith ZArith QArith Bool Lia.
From Mathy Require Import Tok Params TokSet Lexer Num Expr Parser Grammar.
From MathyProofs Require Import ParserNF.
Import ListNotations.
Import NF.


Lemma is_hk s k : is s k = true -> hdk s = k /\ exists t r, s = t :: r /\ tk t = k.
Proof.
  unfold is, check, hdk, hk. destruct s as [|t r]; [discriminate|]. simpl. rewrite orb_false_r.
  intros H. assert (tk t = k) by (destruct (tk t), k; simpl in H; try discriminate; reflexivity). split; eauto.
Qed.
Lemma is_false_hk s k : is s k = false -> hdk s <> k \/ s = [].
Proof.
  unfold is, check, hdk, hk. destruct s as [|t r]; [auto|]. simpl. rewrite orb_false_r.
  intros H. left. intro E. rewrite E in H. destruct k; discriminate.
Qed.
Lemma next_cons s s' : next s = Ok s' -> exists t, s = t :: s' /\ tk t <> TEOF /\ s' <> [].
Proof.
  unfold next. destruct s as [|t r]; [discriminate|]. destruct (tkind_eqb (tk t) TEOF) eqn:E; [discriminate|].
  destruct r; [discriminate|]. intros [= <-]. exists t. repeat split; try discriminate. intro H. rewrite H in E. discriminate.
Qed.

Ltac binds := repeat match goal with
  | H : bind ?r _ = Ok _ |- _ => let E := fresh "E" in destruct r as [[? ?]|] eqn:E; cbn [bind] in H; [|discriminate]
  | H : Raises _ = Ok _ |- _ => discriminate
  end.

Definition Snd (n:nat) : Prop :=
  (forall s e s', parse_add n s = Ok (e,s') -> G_add s e s') /\
  (forall e0 s e s', add_loop n e0 s = Ok (e,s') -> G_addl e0 s e s') /\
  (forall s e s', parse_mult n s = Ok (e,s') -> G_mult s e s') /\
  (forall e0 s e s', mult_loop n e0 s = Ok (e,s') -> G_multl e0 s e s') /\
  (forall s e s', parse_exponent n s = Ok (e,s') -> G_exp s e s') /\
  (forall s e s', parse_unary n s = Ok (e,s') -> G_unary s e s') /\
  (forall neg s e s', parse_prefix n neg s = Ok (e,s') -> G_prefix neg s e s') /\
  (forall s e s', parse_factors n s = Ok (e,s') -> G_factors s e s') /\
  (forall acc s fs s', factors_loop n acc s = Ok (fs,s') -> exists fs', fs = acc ++ fs' /\ G_atoms s fs' s').

Lemma hk_nil_not k : k <> TEOF -> hdk [] <> k. Proof. intros H E. apply H. symmetry. exact E. Qed.

Theorem sound : forall n, Snd n.
Proof.
  induction n as [|n (IHa & IHal & IHm & IHml & IHe & IHu & IHp & IHf & IHfl)]; [repeat split; intros; discriminate|].
  unfold Snd. repeat split.
  - (* parse_add *) intros s e s' H. cbn [parse_add] in H.
    destruct (check s FIRST_UNARY) eqn:C; cbn in H; [|discriminate].
    destruct (parse_mult n s) as [[e1 s1]|] eqn:E; cbn in H; [|discriminate]. econstructor; eauto.
  - (* add_loop *) intros e0 s e s' H. cbn [add_loop] in H.
    destruct (is s TPlus) eqn:P.
    + cbn in H. destruct (next s) as [s1|] eqn:N; cbn in H; [|discriminate].
      destruct (check s1 FIRST_UNARY) eqn:C; [|discriminate].
      destruct (parse_mult n s1) as [[r s2]|] eqn:E; cbn in H; [|discriminate].
      apply next_cons in N. destruct N as (t & -> & _ & _). apply is_hk in P. destruct P as (_ & t' & r' & [= <- <-] & Ht).
      eapply GAL_plus; eauto.
    + destruct (is s TMinus) eqn:Mi; cbn in H.
      * destruct (next s) as [s1|] eqn:N; cbn in H; [|discriminate].
        destruct (check s1 FIRST_UNARY) eqn:C; [|discriminate].
        destruct (parse_mult n s1) as [[r s2]|] eqn:E; cbn in H; [|discriminate].
        apply next_cons in N. destruct N as (t & -> & _ & _). apply is_hk in Mi. destruct Mi as (_ & t' & r' & [= <- <-] & Ht).
        eapply GAL_minus; eauto.
      * inversion H; subst. apply GAL_stop.
        -- destruct (is_false_hk _ _ P) as [? | ->]; auto. apply hk_nil_not; discriminate.
        -- destruct (is_false_hk _ _ Mi) as [? | ->]; auto. apply hk_nil_not; discriminate.
  - (* parse_mult *) intros s e s' H. cbn [parse_mult] in H.
    destruct (check s FIRST_UNARY) eqn:C; cbn in H; [|discriminate].
    destruct (parse_exponent n s) as [[e1 s1]|] eqn:E; cbn in H; [|discriminate]. econstructor; eauto.
  - (* mult_loop *) intros e0 s e s' H. cbn [mult_loop] in H.
    destruct (is s TMul) eqn:P.
    + cbn in H. destruct (next s) as [s1|] eqn:N; cbn in H; [|discriminate].
      destruct (check s1 FIRST_UNARY) eqn:C; [|discriminate].
      destruct (parse_mult n s1) as [[r s2]|] eqn:E; cbn in H; [|discriminate].
      apply next_cons in N. destruct N as (t & -> & _ & _). apply is_hk in P. destruct P as (_ & t' & r' & [= <- <-] & Ht).
      eapply GML_mul; eauto.
    + destruct (is s TDiv) eqn:Mi; cbn in H.
      * destruct (next s) as [s1|] eqn:N; cbn in H; [|discriminate].
        destruct (check s1 FIRST_UNARY) eqn:C; [|discriminate].
        destruct (parse_mult n s1) as [[r s2]|] eqn:E; cbn in H; [|discriminate].
        apply next_cons in N. destruct N as (t & -> & _ & _). apply is_hk in Mi. destruct Mi as (_ & t' & r' & [= <- <-] & Ht).
        eapply GML_div; eauto.
      * inversion H; subst. apply GML_stop.
        -- destruct (is_false_hk _ _ P) as [? | ->]; auto. apply hk_nil_not; discriminate.
        -- destruct (is_false_hk _ _ Mi) as [? | ->]; auto. apply hk_nil_not; discriminate.
  - (* parse_exponent *) intros s e s' H. cbn [parse_exponent] in H.
    destruct (check s FIRST_UNARY) eqn:C; cbn in H; [|discriminate].
    destruct (parse_unary n s) as [[e1 s1]|] eqn:E; cbn in H; [|discriminate].
    destruct (is s1 TExp) eqn:X.
    + destruct (next s1) as [s2|] eqn:N; cbn in H; [|discriminate].
      destruct (check s2 FIRST_UNARY) eqn:C2; cbn in H; [|discriminate].
      destruct (parse_unary n s2) as [[r s3]|] eqn:E2; cbn in H; [|discriminate]. inversion H; subst.
      apply next_cons in N. destruct N as (t & -> & _ & _). apply is_hk in X. destruct X as (_ & t' & r' & [= <- <-] & Ht).
      eapply GE_pow; eauto.
    + inversion H; subst. apply GE_plain; auto.
      destruct (is_false_hk _ _ X) as [? | ->]; auto. apply hk_nil_not; discriminate.
  - (* parse_unary *) intros s e s' H. cbn [parse_unary] in H.
    destruct (is s TMinus) eqn:IM.
    + destruct (next s) as [s1|] eqn:N; cbn in H; [|discriminate].
      apply next_cons in N. destruct N as (t & -> & _ & _). apply is_hk in IM. destruct IM as (_ & t' & r' & [= <- <-] & Ht).
      eapply GU_neg; eauto.
    + apply GU_pos; auto. destruct (is_false_hk _ _ IM) as [? | ->]; auto. discriminate.
  - (* parse_prefix *) intros neg s0 e s' H0. cbn [parse_prefix] in H0.
    destruct (check s0 FIRST_FACTOR_PREFIX) eqn:CP; cbn in H0; [|discriminate].
    destruct (is s0 TConst) eqn:IC.
    + destruct (coerce (tval s0)) as [v|] eqn:CO; cbn in H0; [|discriminate].
      destruct (next s0) as [s1|] eqn:N; cbn in H0; [|discriminate].
      apply next_cons in N. destruct N as (t & -> & _ & _). apply is_hk in IC. destruct IC as (_ & t' & r' & [= <- <-] & Ht). cbn in CO.
      destruct (check s1 FIRST_FACTOR) eqn:CF.
      * destruct (is s1 TFact) eqn:IF.
        -- destruct (next s1) as [s2|] eqn:N2; cbn in H0; [|discriminate]. inversion H0; subst.
           apply next_cons in N2. destruct N2 as (b & -> & _ & _). apply is_hk in IF. destruct IF as (_ & b' & r'' & [= <- <-] & Hb).
           eapply GP_fact; eauto.
        -- destruct (parse_factors n s1) as [[f s2]|] eqn:PFx; cbn in H0; [|discriminate]. inversion H0; subst.
           eapply GP_cf; eauto. destruct (is_false_hk _ _ IF) as [? | ->]; auto. discriminate.
      * inversion H0; subst. eapply GP_const; eauto. unfold in_first_factor. rewrite CF. discriminate.
    + destruct (parse_factors n s0) as [[f s2]|] eqn:PFx; cbn in H0; [|discriminate]. inversion H0; subst.
      eapply GP_f; eauto.
      * destruct (is_false_hk _ _ IC) as [? | ->]; auto. discriminate.
      * unfold in_first_factor. destruct s0 as [|t r]; [discriminate|]. cbn in *. rewrite orb_false_r in IC.
        destruct (tk t); simpl in *; try discriminate; reflexivity.
  - (* parse_factors *) intros s e s' H. cbn [parse_factors] in H.
    destruct (factors_loop n [] s) as [[fs s1]|] eqn:FL; cbn in H; [|discriminate].
    apply IHfl in FL. destruct FL as (fs' & -> & GA). simpl in *.
    destruct (is s1 TExp) eqn:X.
    + destruct (next s1) as [s2|] eqn:N; cbn in H; [|discriminate].
      destruct (check s2 FIRST_UNARY) eqn:C2; cbn in H; [|discriminate].
      destruct (parse_unary n s2) as [[r s3]|] eqn:E2; cbn in H; [|discriminate].
      destruct (prod (with_pow fs' r)) eqn:PR; [|discriminate]. inversion H; subst.
      apply next_cons in N. destruct N as (t & -> & _ & _). apply is_hk in X. destruct X as (_ & t' & r' & [= <- <-] & Ht).
      eapply GF_pow; eauto.
    + destruct (prod fs') eqn:PR; [|discriminate]. inversion H; subst. eapply GF_plain; eauto.
      destruct (is_false_hk _ _ X) as [? | ->]; auto. discriminate.
  - (* factors_loop *) intros acc s fs s' H. cbn [factors_loop] in H.
    match type of H with bind ?r _ = _ => destruct r as [[f s1]|] eqn:AT; cbn [bind] in H; [|discriminate] end.
    assert (G_atom s f s1) as GAt.
    { destruct (is s TVar) eqn:IV.
      - destruct (next s) as [s2|] eqn:N; cbn in AT; [|discriminate]. inversion AT; subst.
        apply next_cons in N. destruct N as (t & -> & _ & _). apply is_hk in IV. destruct IV as (_ & t' & r' & [= <- <-] & Ht).
        apply GT_var; auto.
      - destruct (is s TFunc) eqn:IFn.
        + destruct (next s) as [s2|] eqn:N; cbn in AT; [|discriminate].
          unfold eat in AT. destruct (is s2 TOpen) eqn:IO; cbn in AT; [|discriminate].
          destruct (next s2) as [s3|] eqn:N2; cbn in AT; [|discriminate].
          destruct (parse_add n s3) as [[e s4]|] eqn:PA; cbn in AT; [|discriminate].
          destruct (is s4 TClose) eqn:ICl; cbn in AT; [|discriminate].
          destruct (next s4) as [s5|] eqn:N3; cbn in AT; [|discriminate]. inversion AT; subst.
          apply next_cons in N. destruct N as (t & -> & _ & _). apply is_hk in IFn. destruct IFn as (_ & t' & r' & [= <- <-] & Ht).
          apply next_cons in N2. destruct N2 as (o & -> & _ & _). apply is_hk in IO. destruct IO as (_ & o' & r'' & [= <- <-] & Ho).
          apply next_cons in N3. destruct N3 as (c & -> & _ & _). apply is_hk in ICl. destruct ICl as (_ & c' & r3 & [= <- <-] & Hc).
          eapply GT_fun; eauto.
        + destruct (is s TOpen) eqn:IO; [|discriminate].
          destruct (next s) as [s2|] eqn:N; cbn in AT; [|discriminate].
          destruct (parse_add n s2) as [[e s4]|] eqn:PA; cbn in AT; [|discriminate].
          unfold eat in AT. destruct (is s4 TClose) eqn:ICl; cbn in AT; [|discriminate].
          destruct (next s4) as [s5|] eqn:N3; cbn in AT; [|discriminate]. inversion AT; subst.
          apply next_cons in N. destruct N as (o & -> & _ & _). apply is_hk in IO. destruct IO as (_ & o' & r'' & [= <- <-] & Ho).
          apply next_cons in N3. destruct N3 as (c & -> & _ & _). apply is_hk in ICl. destruct ICl as (_ & c' & r3 & [= <- <-] & Hc).
          eapply GT_par; eauto. }
    destruct (check s1 FIRST_FACTOR) eqn:CF.
    + apply IHfl in H. destruct H as (fs' & -> & GA). exists (f :: fs'). split; [now rewrite <- app_assoc|].
      eapply GS_more; eauto.
    + inversion H; subst. exists [f]. split; auto. apply GS_one; auto. unfold in_first_factor. rewrite CF. discriminate.
Qed.
Print Assumptions sound.
