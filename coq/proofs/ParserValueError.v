(* Where a ValueError of the parser comes from (C10): only from an unsupported character (the tokenizer) or from a number token
   whose text coerce_to_number rejects - more than one '.' or a lone '.'. *)
From Coq Require Import List NArith ZArith QArith Bool Lia.
From Mathy Require Import Tok Params TokSet Lexer Num Expr Parser Grammar.
From MathyProofs Require Import ParamsFacts LexerFacts ParserNF ParserSound ParserComplete ParserOperands ParserTotal ParserTop.
Import ListNotations.
Import NF.

Definition bad_number (v:list N) : Prop := coerce v = Raises ValueError.
Definition has_bad (s:st) : Prop := exists t, In t s /\ bad_number (tv t).
Definition suffix (s' s:st) : Prop := exists pre, s = pre ++ s'.
Lemma suffix_refl s : suffix s s. Proof. now exists []. Qed.
Lemma suffix_trans a b c : suffix a b -> suffix b c -> suffix a c.
Proof. intros (p & ->) (q & ->). exists (q ++ p). now rewrite app_assoc. Qed.
Lemma suffix_bad s' s : suffix s' s -> has_bad s' -> has_bad s.
Proof. intros (p & ->) (t & Hin & B). exists t. split; [apply in_or_app; auto|exact B]. Qed.

(* the invariant: results hand back a suffix of the tokens; a ValueError points at a rejected number among them *)
Definition vg {A} (s:st) (r:res (A * st)) : Prop :=
  match r with Ok (_, s') => suffix s' s | Raises ValueError => has_bad s | Raises _ => True end.
Definition vg0 (s:st) (r:res st) : Prop :=
  match r with Ok s' => suffix s' s | Raises ValueError => False | Raises _ => True end.

Lemma vg_next s : vg0 s (next s).
Proof.
  unfold next. destruct s as [|t r]; [exact I|]. destruct (tkind_eqb (tk t) TEOF); [exact I|]. destruct r; [exact I|]. now exists [t].
Qed.
Lemma vg_eat s k : vg0 s (eat s k).
Proof. unfold eat. destruct (is s k); [apply vg_next|exact I]. Qed.
Lemma vg_bind0 {B} s (a:res st) (k:st -> res (B * st)) :
  vg0 s a -> (forall s', suffix s' s -> vg s' (k s')) -> vg s (bind a k).
Proof.
  destruct a as [s'|x]; cbn [bind vg0]; intros H K.
  - specialize (K s' H). unfold vg in *. destruct (k s') as [[y s'']|[]]; auto; [eapply suffix_trans; eauto|eapply suffix_bad; eauto].
  - destruct x; cbn [vg]; auto. contradiction.
Qed.
Lemma vg_bind {A B} s (a:res (A * st)) (k:A * st -> res (B * st)) :
  vg s a -> (forall x s', suffix s' s -> vg s' (k (x, s'))) -> vg s (bind a k).
Proof.
  destruct a as [[x s']|x]; cbn [bind]; intros H K.
  - cbn [vg] in H. specialize (K x s' H). unfold vg in *. destruct (k (x, s')) as [[y s'']|[]]; auto; [eapply suffix_trans; eauto|eapply suffix_bad; eauto].
  - exact H.
Qed.
Lemma coerce_only_value_error v x : coerce v = Raises x -> x = ValueError.
Proof.
  unfold coerce. destruct (split_dot v) as [a [b|]]; [|discriminate].
  destruct (existsb _ b); [intros [= <-]; reflexivity|]. destruct a, b; try discriminate. intros [= <-]; reflexivity.
Qed.
Lemma vg_bind_num {B} s (k:num -> res (B * st)) :
  s <> [] -> (forall v, vg s (k v)) -> vg s (bind (coerce (tval s)) k).
Proof.
  intros NE K. destruct (coerce (tval s)) as [v|x] eqn:E; cbn [bind]; [apply K|].
  pose proof (coerce_only_value_error _ _ E) as ->. cbn [vg]. destruct s as [|t r]; [contradiction|]. exists t. split; [now left|exact E].
Qed.

Definition VG (n:nat) : Prop :=
  (forall s, vg s (parse_add n s)) /\
  (forall e s, vg s (add_loop n e s)) /\
  (forall s, vg s (parse_mult n s)) /\
  (forall e s, vg s (mult_loop n e s)) /\
  (forall s, vg s (parse_exponent n s)) /\
  (forall s, vg s (parse_unary n s)) /\
  (forall b s, vg s (parse_prefix n b s)) /\
  (forall s, vg s (parse_factors n s)) /\
  (forall a s, vg s (factors_loop n a s)).

Lemma is_nonempty s k : is s k = true -> s <> [].
Proof. intros H ->. discriminate H. Qed.

Ltac vg_step :=
  first
  [ exact I
  | apply suffix_refl
  | assumption
  | match goal with |- vg ?s (bind (next ?s) _) => apply vg_bind0; [apply vg_next | intros ] end
  | match goal with |- vg ?s (bind (eat ?s _) _) => apply vg_bind0; [apply vg_eat | intros ] end
  | match goal with |- vg ?s (bind (coerce (tval ?s)) _) => apply vg_bind_num; [eapply is_nonempty; eassumption | intros ] end
  | match goal with |- vg _ (bind _ _) => apply vg_bind; [ | intros ] end
  | match goal with |- vg _ (if ?c then _ else _) => destruct c eqn:? end
  | match goal with |- vg _ (match ?x with Some _ => _ | None => _ end) => destruct x end
  | match goal with H : forall s, vg s (?f ?n s) |- vg _ (?f ?n _) => apply H end
  | match goal with H : forall a s, vg s (?f ?n a s) |- vg _ (?f ?n _ _) => apply H end
  | match goal with |- vg _ (Ok (_, _)) => cbn [vg] end
  | match goal with |- vg _ (Raises _) => cbn [vg] end ].

Theorem vg_all : forall n, VG n.
Proof.
  induction n as [|n (IHa & IHal & IHm & IHml & IHe & IHu & IHp & IHf & IHfl)]; [repeat split; intros; exact I|].
  repeat split; intros.
  - cbn [parse_add]. repeat vg_step.
  - cbn [add_loop]. repeat vg_step.
  - cbn [parse_mult]. repeat vg_step.
  - cbn [mult_loop]. repeat vg_step.
  - cbn [parse_exponent]. repeat vg_step.
  - cbn [parse_unary]. repeat vg_step.
  - cbn [parse_prefix]. repeat vg_step.
  - cbn [parse_factors]. repeat vg_step.
  - cbn [factors_loop]. apply (vg_bind (A:=expr)).
    + repeat vg_step.
    + intros. repeat vg_step.
Qed.
Lemma vg_equal_loop n : forall m e s, vg s (equal_loop n m e s).
Proof.
  destruct (vg_all n) as (IHa & _).
  induction m as [|m IH]; intros e s; [exact I|]. cbn [equal_loop]. repeat vg_step.
Qed.

Theorem parse_tokens_value_error ts : parse_tokens ts = Raises ValueError -> has_bad ts.
Proof.
  rewrite parse_tokens_nf. destruct ts as [|t r]; [discriminate|].
  destruct (is (t::r) TEOF); [discriminate|]. destruct (negb (check (t::r) first_unary)); [discriminate|].
  pose proof (proj1 (vg_all (parse_fuel (t::r))) (t::r)) as G1.
  destruct (parse_add _ _) as [[e1 s1]|y]; cbn [bind vg] in *.
  - pose proof (vg_equal_loop (parse_fuel (t::r)) (parse_fuel (t::r)) e1 s1) as G2.
    destruct (equal_loop _ _ e1 s1) as [[e2 s2]|y]; cbn [bind vg] in *.
    + destruct (is s2 TEOF); discriminate.
    + intros [= ->]. eapply suffix_bad; eauto.
  - intros [= ->]. exact G1.
Qed.

(* what coerce_to_number rejects: more than one '.', or no digit at all around a single '.' *)
Definition dots (v:list N) : nat := length (filter (fun c => (c =? 46)%N) v).
Lemma split_dot_spec v : match split_dot v with
  | (a, None) => dots v = 0 /\ a = v
  | (a, Some b) => v = a ++ 46%N :: b /\ dots a = 0 end.
Proof.
  induction v as [|c r IH]; cbn [split_dot]; [split; reflexivity|].
  destruct (N.eqb_spec c 46) as [->|NE]; [split; reflexivity|].
  destruct (split_dot r) as [a [b|]].
  - destruct IH as (-> & D). split; [reflexivity|]. unfold dots in *. cbn [filter]. destruct (N.eqb_spec c 46); [contradiction|exact D].
  - destruct IH as (D & ->). split; [|reflexivity]. unfold dots in *. cbn [filter]. destruct (N.eqb_spec c 46); [contradiction|exact D].
Qed.
Theorem bad_number_spec v : bad_number v <-> (2 <= dots v \/ v = [46%N]).
Proof.
  unfold bad_number, coerce. pose proof (split_dot_spec v) as S. destruct (split_dot v) as [a [b|]].
  - destruct S as (-> & Da). unfold dots in *. rewrite filter_app, app_length, Da. cbn [filter]. rewrite N.eqb_refl. cbn [length plus].
    destruct (existsb (fun c => (c =? 46)%N) b) eqn:E.
    + split; [intros _; left|reflexivity]. apply existsb_exists in E. destruct E as (c & Hin & Hc).
      assert (In c (filter (fun c => (c =? 46)%N) b)) as F by (apply filter_In; auto). destruct (filter _ b); [contradiction|cbn; lia].
    + assert (filter (fun c => (c =? 46)%N) b = []) as F.
      { destruct (filter (fun c => (c =? 46)%N) b) as [|c l] eqn:Q; [reflexivity|]. assert (In c (filter (fun c => (c =? 46)%N) b)) as I0 by (rewrite Q; now left).
        apply filter_In in I0. destruct I0 as (I1 & I2). assert (existsb (fun c => (c =? 46)%N) b = true) by (apply existsb_exists; eauto). congruence. }
      rewrite F. cbn [length]. destruct a as [|x a], b as [|y b]; cbn [app].
      * split; [intros _; right; reflexivity|reflexivity].
      * split; [discriminate|]. intros [H|H]; [lia|discriminate H].
      * split; [discriminate|]. intros [H|H]; [lia|]. apply (f_equal (@length N)) in H. cbn [length] in H. rewrite app_length in H. cbn [length] in H. lia.
      * split; [discriminate|]. intros [H|H]; [lia|]. apply (f_equal (@length N)) in H. cbn [length] in H. rewrite app_length in H. cbn [length] in H. lia.
  - destruct S as (D & ->). rewrite D. split; [discriminate|]. intros [H|H]; [lia|]. subst v. unfold dots in D. cbn in D. discriminate.
Qed.

(* ValueError of the tokenizer exactly on unsupported characters (as C11_invalid) *)
Lemma lex_invalid_iff ex s : (exists c, tokenize ex s = LErr c) <-> forallb supported s = false.
Proof.
  split.
  - intros [c H]. destruct (lex_err_unsupported _ _ _ _ H) as (Hin & Hs).
    destruct (forallb supported s) eqn:E; auto. rewrite forallb_forall in E. rewrite (E _ Hin) in Hs. discriminate.
  - intros H. destruct (tokenize ex s) as [ts|c|] eqn:E.
    + apply lex_ok_supported in E. congruence.
    + eauto.
    + exfalso. revert E. apply lex_total. auto.
Qed.
