(* Model of MathExpression.__str__ (expressions.py), with the printer repair S1/S2/S3/S5/S7 of
   DESIGN section 5: NegateExpression and PowerExpression parenthesise the operands whose text would
   otherwise be re-read with a different grouping. Text = list of code points.
   show returns None when a constant has no finite decimal text (nan/inf, or a rational whose
   decimal expansion is infinite/too long: the implementation prints a rounded double there). *)
From Coq Require Import List NArith ZArith QArith Qround Bool.
From Mathy Require Import Params Num Expr.
Import ListNotations.

(* decimal digits of a non-negative Z *)
Fixpoint digits_pos (fuel:nat) (z:Z) (acc:list N) : list N :=
  match fuel with O => acc | S f => if (z <? 10)%Z then (Z.to_N z + 48)%N :: acc else digits_pos f (z / 10)%Z ((Z.to_N (z mod 10) + 48)%N :: acc) end.
Definition show_nat (z:Z) : list N := digits_pos (S (Z.to_nat (Z.log2 (Z.max z 1)))) z [].
Definition show_int (z:Z) : list N := if (z <? 0)%Z then 45%N :: show_nat (- z) else show_nat z.
(* exact finite decimal expansion of q when the denominator divides 10^k (k <= 40); None otherwise *)
Fixpoint find_k (fuel:nat) (k:nat) (d:Z) : option nat :=
  match fuel with O => None | S f => if ((10 ^ Z.of_nat k) mod d =? 0)%Z then Some k else find_k f (S k) d end.
(* zfill: leading zeros up to n digits *)
Definition pad0 (n:nat) (l:list N) : list N := repeat 48%N (n - length l) ++ l.
Fixpoint strip0 (l:list N) : list N := match l with [] => [] | c :: r => match strip0 r with [] => if (c =? 48)%N then [] else [c] | r' => c :: r' end end.
(* ConstantExpression.name: value % 1 == 0 -> str(int(value)); else format_float_positional(trim='-') *)
Definition show_num (n:num) : option (list N) :=
  match n with
  | NInt z => Some (show_int z)
  | NNonFinite => None
  | NFlt q => let q := Qred q in
    if (Z.pos (Qden q) =? 1)%Z then Some (show_int (Qnum q)) else
    match find_k 40 1 (Z.pos (Qden q)) with
    | None => None
    | Some k =>
      let m := (Z.abs (Qnum q) * (10 ^ Z.of_nat k / Z.pos (Qden q)))%Z in
      let ip := (m / 10 ^ Z.of_nat k)%Z in let fp := (m mod 10 ^ Z.of_nat k)%Z in
      let fds := strip0 (pad0 k (show_nat fp)) in
      Some ((if (Qnum q <? 0)%Z then [45%N] else []) ++ show_nat ip ++ 46%N :: fds)
    end end.

(* BinaryExpression.get_priority *)
Definition pri (k:bk) : Z := match k with KEq => OOO_INVALID | KAdd | KSub => OOO_ADDSUB | KMul | KDiv => OOO_MULTDIV | KPow => OOO_EXPONENT end.
Definition addsub k := match k with KAdd | KSub => true | _ => false end.
Definition muldiv k := match k with KMul | KDiv => true | _ => false end.
(* BinaryExpression.self_parens; parent = Some (kind, side) when the parent is a BinaryExpression *)
Definition self_parens (k:bk) (parent:option (bk * dir)) : bool :=
  match parent with None => false | Some (pk, side) =>
    if (pri k <? pri pk)%Z then true else
    if (pri pk =? pri k)%Z then
      match side with DR => addsub k && addsub pk | DL => muldiv k && muldiv pk end
    else false end.
Definition opname (k:bk) : list N := match k with KEq => [61] | KAdd => [43] | KSub => [45] | KMul => [42] | KDiv => [47] | KPow => [94] end%N.
Definition sp := 32%N.
Definition paren (s:list N) : list N := 40%N :: s ++ [41%N].
Definition has_space (s:list N) : bool := existsb (fun c => (c =? 32)%N) s.
Definition starts_minus (s:list N) : bool := match s with c::_ => (c =? 45)%N | [] => false end.
Definition starts_literal (s:list N) : bool := match s with c::_ => ((48 <=? c) && (c <=? 57))%N || (c =? 46)%N | [] => false end.
(* MultiplyExpression.__str__ compact forms  c*x  and  c*x^k *)
Definition compact (k:bk) (l r:expr) : bool :=
  match k, l, r with
  | KMul, Const _, Var _ => true
  | KMul, Const _, Bin KPow (Var _) _ => true
  | _,_,_ => false end.

Fixpoint show (e:expr) (parent:option (bk*dir)) : option (list N) :=
  match e with
  | Const n => show_num n
  | Var v => Some [v]
  | Un UNeg c =>
    match show c None with
    | Some s =>
      let loose := match c with Bin KAdd _ _ | Bin KSub _ _ => true | Bin KMul _ _ | Bin KDiv _ _ => has_space s | _ => false end in
      let literal_first := match c with Bin KPow _ _ | Un UFact _ => starts_literal s | _ => false end in
      Some (45%N :: (if loose || literal_first || starts_minus s then paren s else s))
    | None => None end
  | Un UFact c => match show c None with Some s => Some (s ++ [33%N]) | None => None end
  | Un USgn c => match show c None with Some s => Some ([115;103;110;40]%N ++ s ++ [41%N]) | None => None end
  | Un UAbs c => match show c None with Some s => Some ([97;98;115;40]%N ++ s ++ [41%N]) | None => None end
  | Bin KPow l r =>
    match show l (Some (KPow,DL)), show r (Some (KPow,DR)) with
    | Some a, Some b =>
      let lpar := match l with Un UNeg _ | Bin KPow _ _ => true | Bin KMul ll lr => compact KMul ll lr | _ => false end in
      let rpar := match r with Bin KPow _ _ => true | _ => false end in
      Some ((if lpar then paren a else a) ++ 94%N :: (if rpar then paren b else b))
    | _,_ => None end
  | Bin k l r =>
    match show l (Some (k,DL)), show r (Some (k,DR)) with
    | Some a, Some b =>
      if compact k l r then Some (a ++ b) else
      let body := a ++ sp :: opname k ++ sp :: b in
      Some (if self_parens k parent then paren body else body)
    | _,_ => None end
  end.
Definition show_top (e:expr) := show e None.
