(* Token kinds and tokens (mathy_core/tokenizer.py: TOKEN_TYPES, Token). Fixed vocabulary; the
   numeric codes and every table over them live in the GENERATED file Params.v. *)
From Coq Require Import List NArith Bool.
Import ListNotations.

Inductive tkind := TConst | TVar | TPlus | TMinus | TMul | TDiv | TExp | TFact | TOpen | TClose
                 | TFunc | TEqual | TPad | TEOF | TInvalid.
Record token := { tk : tkind; tv : list N }.   (* value = list of code points *)

Definition tkind_eqb (a b:tkind) : bool := match a,b with
  | TConst,TConst | TVar,TVar | TPlus,TPlus | TMinus,TMinus | TMul,TMul | TDiv,TDiv | TExp,TExp | TFact,TFact
  | TOpen,TOpen | TClose,TClose | TFunc,TFunc | TEqual,TEqual | TPad,TPad | TEOF,TEOF | TInvalid,TInvalid => true
  | _,_ => false end.

Definition all_kinds : list tkind :=
  [TConst; TVar; TPlus; TMinus; TMul; TDiv; TExp; TFact; TOpen; TClose; TFunc; TEqual; TPad; TEOF; TInvalid].
