(* Heap-level execution of the object-level plans of Plans.v, with the node records and the set_left / set_right model (link_l,
   link_r) of Heap.v. An `iexpr` is an expression whose nodes carry the address of their object; `irep` says that a heap holds
   it with mutually consistent pointers: every child pointer leads to an object whose parent pointer leads back, classes have
   the operands their arity requires (the operand of a unary node on the right), and the root's parent pointer is the given one.
   `exec` builds a plan bottom-up: constructor arguments are built first (as Python evaluates them), a constructor allocates a
   parentless, childless node and calls set_left / set_right; an old node that is kept (POld) has both children set anew;
   `attach` is ExpressionChangeRule.done: parent.set_side(result). No proofs in this file. *)
From Coq Require Import List NArith ZArith Bool Arith.
From Mathy Require Import Num Expr Heap Plans.
Import ListNotations.

Inductive iexpr := IConst (a:nat) (n:num) | IVar (a:nat) (v:N) | IUn (a:nat) (u:uk) (c:iexpr) | IBin (a:nat) (k:bk) (l r:iexpr).
Definition iaddr (t:iexpr) : nat := match t with IConst a _ | IVar a _ | IUn a _ _ | IBin a _ _ _ => a end.
Fixpoint iaddrs (t:iexpr) : list nat :=
  match t with IConst a _ | IVar a _ => [a] | IUn a _ c => a :: iaddrs c | IBin a _ l r => a :: iaddrs l ++ iaddrs r end.
Fixpoint ierase (t:iexpr) : expr :=
  match t with IConst _ n => Const n | IVar _ v => Var v | IUn _ u c => Un u (ierase c) | IBin _ k l r => Bin k (ierase l) (ierase r) end.
Fixpoint isub (t:iexpr) (p:path) {struct p} : option iexpr :=
  match p with [] => Some t | d :: q =>
    match t, d with
    | IBin _ _ l _, DL => isub l q | IBin _ _ _ r, DR => isub r q | IUn _ _ c, DR => isub c q | _, _ => None end end.
Fixpoint ireplace (t:iexpr) (p:path) (n:iexpr) {struct p} : iexpr :=
  match p with [] => n | d :: q =>
    match t, d with
    | IBin a k l r, DL => IBin a k (ireplace l q n) r | IBin a k l r, DR => IBin a k l (ireplace r q n)
    | IUn a u c, DR => IUn a u (ireplace c q n) | _, _ => t end end.

(* class tags *)
Definition cls_const : N := 1. Definition cls_var : N := 2.
Definition cls_un (u:uk) : N := match u with UNeg => 3 | UFact => 4 | USgn => 5 | UAbs => 12 end.
Definition cls_bin (k:bk) : N := match k with KEq => 6 | KAdd => 7 | KSub => 8 | KMul => 9 | KDiv => 10 | KPow => 11 end.

Fixpoint irep (h:heap) (t:iexpr) (p:option nat) : Prop :=
  match t with
  | IConst a n => exists nd, nth_error h a = Some nd /\ h_cls nd = cls_const /\ h_val nd = Some n /\ h_l nd = None /\ h_r nd = None /\ h_p nd = p
  | IVar a v => exists nd, nth_error h a = Some nd /\ h_cls nd = cls_var /\ h_ident nd = Some v /\ h_l nd = None /\ h_r nd = None /\ h_p nd = p
  | IUn a u c => exists nd, nth_error h a = Some nd /\ h_cls nd = cls_un u /\ h_l nd = None /\ h_r nd = Some (iaddr c) /\ h_p nd = p /\ irep h c (Some a)
  | IBin a k l r => exists nd, nth_error h a = Some nd /\ h_cls nd = cls_bin k /\ h_l nd = Some (iaddr l) /\ h_r nd = Some (iaddr r) /\ h_p nd = p /\
                    irep h l (Some a) /\ irep h r (Some a)
  end.
(* a well-formed tree in the heap: consistent links, no node object twice, the root without parent *)
Definition wf_tree (h:heap) (t:iexpr) : Prop := irep h t None /\ NoDup (iaddrs t).

(* a constructor call: a parentless, childless object *)
Definition new_node (cls:N) (v:option num) (x:option N) : hnode :=
  {| h_cls := cls; h_id := 0; h_val := v; h_ident := x; h_col := false; h_l := None; h_r := None; h_p := None; h_cn := None; h_ct := Some [] |}.

(* fresh objects forming e: children first, then the node and its set_left / set_right *)
Fixpoint alloc (h:heap) (e:expr) : heap * nat :=
  match e with
  | Const n => (h ++ [new_node cls_const (Some n) None], length h)
  | Var v => (h ++ [new_node cls_var None (Some v)], length h)
  | Un u c => let (h1, a) := alloc h c in let b := length h1 in (link_r (h1 ++ [new_node (cls_un u) None None]) b a, b)
  | Bin k l r => let (h1, a1) := alloc h l in let (h2, a2) := alloc h1 r in let b := length h2 in
                 (link_r (link_l (h2 ++ [new_node (cls_bin k) None None]) b a1) b a2, b)
  end.

Fixpoint exec (ctx:iexpr) (pl:plan) (h:heap) : option (heap * nat) :=
  match pl with
  | PKeep q => match isub ctx q with Some t => Some (h, iaddr t) | None => None end
  | PNew e => Some (alloc h e)
  | PBin k l r =>
    match exec ctx l h with Some (h1, a1) =>
    match exec ctx r h1 with Some (h2, a2) =>
      let b := length h2 in Some (link_r (link_l (h2 ++ [new_node (cls_bin k) None None]) b a1) b a2, b)
    | None => None end | None => None end
  | PUn u c =>
    match exec ctx c h with Some (h1, a) => let b := length h1 in Some (link_r (h1 ++ [new_node (cls_un u) None None]) b a, b) | None => None end
  | POld q l r =>
    match isub ctx q with
    | Some (IBin a _ _ _) =>
      match exec ctx l h with Some (h1, a1) =>
      match exec ctx r h1 with Some (h2, a2) => Some (link_r (link_l h2 a a1) a a2, a)
      | None => None end | None => None end
    | _ => None end
  end.

(* ExpressionChangeRule.done: the saved parent's set_side(result) *)
Definition attach (h:heap) (parent:nat) (d:dir) (a:nat) : heap := match d with DL => link_l h parent a | DR => link_r h parent a end.

(* a rule applied at the attachment path q of the tree `whole`: the new heap and the address of the new root *)
Definition run_plan (whole:iexpr) (q:path) (pl:plan) (h:heap) : option (heap * nat) :=
  match isub whole q with
  | None => None
  | Some ctx =>
    match exec ctx pl h with
    | None => None
    | Some (h1, a) =>
      match parent_path q with
      | None => Some (h1, a)
      | Some (q0, d) => match isub whole q0 with Some par => Some (attach h1 (iaddr par) d a, iaddr whole) | None => None end
      end
    end
  end.
