(* Object-level model of the nine apply_to bodies (mathy_core/rules/*.py): WHICH node objects of the tree the rule is applied to
   end up in the result, and where. A plan describes the subtree a rule puts in place of the rewritten node (for the associative
   rotation: of its parent) as a tree whose leaves are either old objects or fresh ones:

     PKeep q      the object at path q below the attachment point, re-used together with everything below it (node.left, keep_child ...)
     PNew e       fresh objects forming the expression e (constructors, clone(), make_term)
     PBin k l r   one fresh binary node over two sub-plans (AddExpression(keep_child, result) ...)
     PUn u c      one fresh unary node
     POld q l r   the old binary node object at q, kept with its class, with its two children set anew (the in-place rules:
                  commutative swap's set_left/set_right, the rotation of the associative swap)

   The order of the individual pointer writes inside apply_to is not modelled (the plan fixes their net effect on the objects reachable
   from the result); `exec` in proofs/HeapPlan.v links a plan bottom-up with the set_left/set_right model of Heap.v. The tie to the
   code is the `plans` correspondence: object identities of the implementation's result against `prov_whole`. *)
From Coq Require Import List NArith ZArith QArith Bool.
From Mathy Require Import Num Expr Util Rules.
Import ListNotations.

Inductive plan :=
| PKeep (q:path)
| PNew (e:expr)
| PBin (k:bk) (l r:plan)
| PUn (u:uk) (c:plan)
| POld (q:path) (l r:plan).

(* the expression a plan builds, given the subtree at the attachment point *)
Fixpoint erasep (at_:expr) (pl:plan) : option expr :=
  match pl with
  | PKeep q => subtree at_ q
  | PNew e => Some e
  | PBin k l r => match erasep at_ l, erasep at_ r with Some a, Some b => Some (Bin k a b) | _,_ => None end
  | PUn u c => match erasep at_ c with Some a => Some (Un u a) | None => None end
  | POld q l r => match subtree at_ q, erasep at_ l, erasep at_ r with Some (Bin k _ _), Some a, Some b => Some (Bin k a b) | _,_,_ => None end
  end.

(* the old objects a plan uses: (path, true) = the whole subtree at the path, (path, false) = the single object at the path *)
Fixpoint claims (pl:plan) : list (path * bool) :=
  match pl with
  | PKeep q => [(q, true)]
  | PNew _ => []
  | PBin _ l r => claims l ++ claims r
  | PUn _ c => claims c
  | POld q l r => (q, false) :: claims l ++ claims r
  end.
Definition dir_eqb (a b:dir) : bool := match a, b with DL, DL | DR, DR => true | _, _ => false end.
Fixpoint is_prefix (a b:path) : bool :=
  match a, b with [] , _ => true | x::a', y::b' => dir_eqb x y && is_prefix a' b' | _::_, [] => false end.
Definition path_eqb (a b:path) : bool := is_prefix a b && is_prefix b a.
(* two claims name disjoint sets of objects *)
Definition apart (c1 c2:path*bool) : bool :=
  match c1, c2 with
  | (q1,true), (q2,true) => negb (is_prefix q1 q2) && negb (is_prefix q2 q1)
  | (q1,true), (q2,false) => negb (is_prefix q1 q2)
  | (q1,false), (q2,true) => negb (is_prefix q2 q1)
  | (q1,false), (q2,false) => negb (path_eqb q1 q2)
  end.
Fixpoint all_apart (l:list (path*bool)) : bool :=
  match l with [] => true | c::rest => forallb (apart c) rest && all_apart rest end.
(* linear: no old object is used twice *)
Definition linearb (pl:plan) : bool := all_apart (claims pl).

(* the top of the plan is a fresh object or the old object at the attachment point itself (so that, when the result becomes the
   root, its parent pointer is None without any further write) *)
Definition top_ok (pl:plan) : bool := match pl with PKeep [] | POld [] _ _ | PNew _ | PBin _ _ _ | PUn _ _ => true | _ => false end.

(* ---- provenance, for the correspondence: the nodes of the result in pre-order, Some path = the old object at that path of the
   tree the rule was applied to, None = a fresh object ---- *)
Fixpoint prov_keep (e:expr) (q:path) : list (option path) :=
  Some q :: match e with Const _ | Var _ => [] | Un _ c => prov_keep c (q ++ [DR]) | Bin _ l r => prov_keep l (q ++ [DL]) ++ prov_keep r (q ++ [DR]) end.
Fixpoint prov_new (e:expr) : list (option path) :=
  None :: match e with Const _ | Var _ => [] | Un _ c => prov_new c | Bin _ l r => prov_new l ++ prov_new r end.
Fixpoint prov (at_:expr) (base:path) (pl:plan) : list (option path) :=
  match pl with
  | PKeep q => match subtree at_ q with Some e => prov_keep e (base ++ q) | None => [] end
  | PNew e => prov_new e
  | PBin _ l r => None :: prov at_ base l ++ prov at_ base r
  | PUn _ c => None :: prov at_ base c
  | POld q l r => Some (base ++ q) :: prov at_ base l ++ prov at_ base r
  end.
(* the whole result: everything outside the attachment point is the old object at the same path *)
Fixpoint prov_ctx (root:expr) (q:path) (cur:path) (inner:list (option path)) : list (option path) :=
  match q with
  | [] => inner
  | d :: q' =>
    match root, d with
    | Bin _ l r, DL => Some cur :: prov_ctx l q' (cur ++ [DL]) inner ++ prov_keep r (cur ++ [DR])
    | Bin _ l r, DR => Some cur :: prov_keep l (cur ++ [DL]) ++ prov_ctx r q' (cur ++ [DR]) inner
    | Un _ c, DR => Some cur :: prov_ctx c q' (cur ++ [DR]) inner
    | _, _ => []
    end
  end.

Section PL. Variable root : expr. Variable p : path.
Let node := subtree root p.

Definition oplan := option (path * plan).   (* attachment path, plan relative to it *)
Definition at_node (pl:plan) : oplan := Some (p, pl).

(* associative swap: node.rotate() - the node object moves up, its parent object becomes its child *)
Definition assoc_plan : oplan :=
  match parent_path p, node, parent root p with
  | Some (q, d), Some (Bin _ _ _), Some (Bin _ _ _) =>
    Some (q, match d with
             | DL => POld [DL] (PKeep [DL;DL]) (POld [] (PKeep [DL;DR]) (PKeep [DR]))
             | DR => POld [DR] (POld [] (PKeep [DL]) (PKeep [DR;DL])) (PKeep [DR;DR]) end)
  | _,_,_ => at_node (PKeep [])
  end.

(* commutative swap: set_right(a); set_left(b) on the node object, or the two set_right calls of the chained form *)
Definition comm_plan : oplan :=
  match node with
  | Some (Bin k a b) =>
    let chain := match k, a with KAdd, Bin KAdd _ _ => true | KMul, Bin KMul _ _ => true | _,_ => false end in
    at_node (match k with KEq => POld [] (PKeep [DR]) (PKeep [DL]) | _ =>
      if chain then POld [] (POld [DL] (PKeep [DL;DL]) (PKeep [DR])) (PKeep [DL;DR]) else POld [] (PKeep [DR]) (PKeep [DL]) end)
  | _ => None end.

Definition pconst (f:fold) (k:num -> plan) : option plan := match f with FNum n => Some (k n) | _ => None end.
Definition has (o:option expr) (pl:plan) : option plan := match o with Some _ => Some pl | None => None end.
Definition obind {A B} (o:option A) (f:A -> option B) : option B := match o with Some a => f a | None => None end.

(* constant arithmetic: a fresh ConstantExpression; the operands that survive are the old objects *)
Definition const_plan : oplan :=
  match const_type root p, node with
  | Some (arr, x, y), Some n =>
    let l := lft n in let r := rgt n in
    obind (match arr with
      | C_SIMPLE => match n with Bin k _ _ => pconst (fold_bin k x y) (fun v => PNew (Const v)) | _ => None end
      | C_NEG => match r with Some (Bin k _ _) => pconst (fold_bin k x y) (fun v => PNew (Const (nneg v))) | _ => None end
      | C_VARMULT => obind (orgt l) (fun _ => pconst (fold_bin KMul x y) (fun c => PBin KMul (PNew (Const c)) (PKeep [DL;DR])))
      | C_LEFT_LEFT_RIGHT => obind (olft l) (fun _ => obind (orgt (orgt l)) (fun _ => obind (orgt r) (fun _ =>
                             pconst (fold_bin KMul x y) (fun c => PBin KMul (PKeep [DL;DL]) (PBin KMul (PBin KMul (PNew (Const c)) (PKeep [DL;DR;DR])) (PKeep [DR;DR]))))))
      | C_RIGHT_LEFT => obind (orgt l) (fun _ => obind (orgt r) (fun _ =>
                        pconst (fold_bin KMul x y) (fun c => PBin KMul (PBin KMul (PNew (Const c)) (PKeep [DL;DR])) (PKeep [DR;DR]))))
      | C_RIGHT_LEFT_LEFT => obind (orgt l) (fun _ => obind (orgt (olft r)) (fun _ => obind (orgt r) (fun _ =>
                        pconst (fold_bin KMul x y) (fun c => PBin KMul (PBin KMul (PNew (Const c)) (PKeep [DL;DR])) (PBin KMul (PKeep [DR;DL;DR]) (PKeep [DR;DR]))))))
      | C_RIGHT => obind (orgt r) (fun _ =>
                   if is_k KAdd node then pconst (fold_bin KAdd x y) (fun c => PBin KAdd (PNew (Const c)) (PKeep [DR;DR]))
                   else if is_k KMul node then pconst (fold_bin KMul x y) (fun c => PBin KMul (PNew (Const c)) (PKeep [DR;DR])) else None)
      | C_RIGHT_DEEP => obind (orgt (olft r)) (fun _ => obind (orgt r) (fun _ =>
                   if is_k KAdd node then pconst (fold_bin KAdd x y) (fun c => PBin KAdd (PBin KAdd (PNew (Const c)) (PKeep [DR;DL;DR])) (PKeep [DR;DR]))
                   else if is_k KMul node then pconst (fold_bin KMul x y) (fun c => PBin KMul (PBin KMul (PNew (Const c)) (PKeep [DR;DL;DR])) (PKeep [DR;DR])) else None))
      end) (fun pl => at_node pl)
  | _,_ => None end.

(* distributive factor-out: the three terms are made fresh; the kept children are the old objects *)
Definition df_plan : oplan :=
  match df_type root p with
  | None => None
  | Some (pos, lt, rt) =>
    match factor_add_terms_ex lt rt with
    | None => None
    | Some f =>
      match make_term (best f) (f_var f) (f_exp f), make_term (f_left f) (l_var f) (l_exp f), make_term (f_right f) (r_var f) (r_exp f) with
      | Some a, Some b, Some c =>
        let l := olft node in let r := orgt node in
        let res0 := PNew (Bin KMul (Bin KAdd b c) a) in
        obind (match pos with D_LEFT | D_BOTH => has (olft l) (PBin KAdd (PKeep [DL;DL]) res0) | _ => Some res0 end) (fun res1 =>
        obind (match pos with D_LEFT_RIGHT => obind (olft l) (fun _ => has (olft (orgt l)) (PBin KAdd (PBin KAdd (PKeep [DL;DL]) (PKeep [DL;DR;DL])) res1)) | _ => Some res1 end) (fun res2 =>
        obind (match pos with D_RIGHT_LEFT => obind (orgt (olft r)) (fun _ => has (orgt r) (PBin KAdd res2 (PBin KAdd (PKeep [DR;DL;DR]) (PKeep [DR;DR])))) | _ => Some res2 end) (fun res3 =>
        obind (match pos with D_RIGHT | D_BOTH => has (orgt r) (PBin KAdd res3 (PKeep [DR;DR])) | _ => Some res3 end) (fun res4 =>
        at_node res4))))
      | _,_,_ => None end
    end end.

(* distributive multiply and multiplicative inverse build everything from clones: all fresh *)
Definition all_new (r:rres (expr * path)) : oplan :=
  match r with ROk (root', _) => match subtree root' p with Some e => at_node (PNew e) | None => None end | RRaises _ => None end.
Definition dm_plan : oplan := all_new (dm_apply root p).
Definition mi_plan : oplan := all_new (mi_apply root p).

(* restate subtraction: node.left is re-used, the right operand is a clone (or, for the plain case, re-used under a fresh negation) *)
Definition rs_plan : oplan :=
  match rs_type root p, node with
  | Some op, Some (Bin k l r) =>
    obind (match op with
      | S_TERM_CONST => Some (PBin KAdd (PKeep [DL]) (PNew (neg_left_const r)))
      | S_NEG_CONST => match r with Const v => Some (PBin KAdd (PKeep [DL]) (PNew (Const (nneg v)))) | _ => None end
      | S_NEG_VAR => match r with Un UNeg c => Some (PBin KAdd (PKeep [DL]) (PNew c)) | _ => None end
      | S_SUB => Some (PBin KAdd (PKeep [DL]) (PUn UNeg (PKeep [DR])))
      | S_ADD_C => match r with Const v => Some (PBin KSub (PKeep [DL]) (PNew (Const (nneg v)))) | _ => None end
      | S_ADD_CV | S_ADD_CVE => Some (PBin KSub (PKeep [DL]) (PNew (neg_left_const r)))
      end) (fun pl => at_node pl)
  | _,_ => None end.

(* variable multiply: power and coefficients are fresh; the kept child is the old object *)
Definition vm_plan : oplan :=
  match vm_type root p with
  | None => None
  | Some (pos, lt, rt) =>
    let le := match t_exp lt with Some k => k | None => NInt 1 end in
    let re := match t_exp rt with Some k => k | None => NInt 1 end in
    match t_var lt with None => None | Some x =>
    let power := Bin KPow (Var x) (Bin KAdd (Const le) (Const re)) in
    let coef : option (expr + (expr*expr)) :=
      match t_coef lt, t_coef rt with
      | Some a, Some b => Some (inr (Const a, Const b))
      | Some a, None => Some (inl (Const a))
      | None, Some b => Some (inl (Const b))
      | None, None => None end in
    let l := olft node in let r := orgt node in
    obind (match pos with
      | V_CHAINED => has (orgt r)
          (let r0 := PBin KMul (PNew power) (PKeep [DR;DR]) in
           match coef with Some (inr (a,b)) => PBin KMul (PNew a) (PBin KMul (PNew b) r0) | Some (inl c) => PBin KMul (PNew c) r0 | None => r0 end)
      | V_LEFT_RIGHT => has (olft l)
          (let r0 := match coef with Some (inr (a,b)) => PNew (Bin KMul b (Bin KMul a power)) | Some (inl c) => PNew (Bin KMul c power) | None => PNew power end in
           PBin KMul (PKeep [DL;DL]) r0)
      | V_SIMPLE => Some (PNew (match coef with Some (inr (a,b)) => Bin KMul (Bin KMul a b) power | Some (inl c) => Bin KMul c power | None => power end))
      end) (fun pl => at_node pl)
    end end.

(* balanced move works on node.clone_from_root(): every object of its result is fresh with respect to the tree it was applied to *)
Definition bm_plan : oplan :=
  match bm_apply root p with ROk (root', _) => Some ([], PNew root') | RRaises _ => None end.

Definition rule_plan (r:rule) : oplan :=
  match r with
  | RAssoc => assoc_plan | RComm _ => comm_plan | RConst => const_plan
  | RFactor _ => df_plan | RDistr => dm_plan | RInverse => mi_plan | RRestate => rs_plan
  | RVarMul => vm_plan | RBalanced => bm_plan end.
End PL.

(* what the correspondence compares: attachment path, the result tree the plan stands for, and the provenance of all its nodes *)
Definition plan_result (root:expr) (p:path) (r:rule) : option (path * expr * list (option path) * bool) :=
  match rule_plan root p r with
  | Some (q, pl) =>
    match subtree root q with
    | Some at_ =>
      match erasep at_ pl with
      | Some e => Some (q, replace root q e, prov_ctx root q [] (prov at_ q pl), linearb pl)
      | None => None end
    | None => None end
  | None => None end.
