(* Model of mathy_core/parser.py: ExpressionParser._parse and the productions parse_equal ... parse_function.
   The cursor is a token list whose head is current_token (the queue `self.tokens` is its tail).
   parse_unary is split into parse_unary/parse_prefix; loops are separate functions; recursion is on
   fuel (proofs/ParserTotal.v shows 8*|tokens|+c suffices, so OutOfFuel never escapes).
   Every `raise` of the source has its own outcome; "internal" failures (IndexError on an exhausted
   queue) are explicit so that their absence is a theorem.
   parse_factors is modelled with the exponent applied to the LAST factor only (documented grammar;
   repair P1 in DESIGN section 5). No proofs in this file. *)
From Coq Require Import List NArith ZArith QArith Bool.
From Mathy Require Import Tok Params TokSet Lexer Num Expr.
Import ListNotations.

Inductive exn := ValueError | InvalidSyntax | InvalidExpression | OutOfTokens | UnexpectedBehavior | TrailingTokens
               | IndexError | KeyError | OutOfFuel.
Inductive res (A:Type) := Ok (a:A) | Raises (e:exn).
Arguments Ok {A}. Arguments Raises {A}.
Definition bind {A B} (r:res A) (f:A -> res B) : res B := match r with Ok a => f a | Raises e => Raises e end.
Notation "'do' x <- r ; k" := (bind r (fun x => k)) (at level 200, x pattern, r at level 100, k at level 200).

(* token sets of parser.py, as kinds, computed from the generated bit masks *)
Definition FIRST_FACTOR := kinds_of Params.FIRST_FACTOR.
Definition FIRST_FACTOR_PREFIX := kinds_of Params.FIRST_FACTOR_PREFIX.
Definition FIRST_UNARY := kinds_of Params.FIRST_UNARY.
Definition FIRST_EXP := kinds_of Params.FIRST_EXP.
Definition FIRST_MULT := kinds_of Params.FIRST_MULT.
Definition FIRST_ADD := kinds_of Params.FIRST_ADD.
Definition IS_ADD := kinds_of Params.IS_ADD.
Definition IS_MULT := kinds_of Params.IS_MULT.
Definition IS_EXP := kinds_of Params.IS_EXP.
Definition IS_EQUAL := kinds_of Params.IS_EQUAL.

Definition st := list token.
Definition hk (s:st) : tkind := match s with t::_ => tk t | [] => TEOF end.
Definition check (s:st) (l:list tkind) : bool := match s with t::_ => kin (tk t) l | [] => false end.
Definition is (s:st) (k:tkind) : bool := check s [k].
(* next(): OutOfTokens past EOF; pop(0) on an exhausted queue would be an IndexError *)
Definition next (s:st) : res st :=
  match s with
  | [] => Raises IndexError
  | t :: r => if tkind_eqb (tk t) TEOF then Raises OutOfTokens else match r with [] => Raises IndexError | _ => Ok r end end.
Definition eat (s:st) (k:tkind) : res st := if is s k then next s else Raises InvalidSyntax.

(* tokenizer.coerce_to_number on a [0-9.]+ token *)
Definition digit (c:N) : Z := Z.of_N c - 48.
Fixpoint dec_int (l:list N) (acc:Z) : Z := match l with [] => acc | c::r => dec_int r (acc*10 + digit c)%Z end.
Fixpoint split_dot (l:list N) : list N * option (list N) :=
  match l with [] => ([],None) | c::r => if (c =? 46)%N then ([], Some r) else let (a,b) := split_dot r in (c::a,b) end.
Definition coerce (v:list N) : res num :=
  match split_dot v with
  | (a, None) => Ok (NInt (dec_int a 0))
  | (a, Some b) => if existsb (fun c => (c =? 46)%N) b then Raises ValueError
                   else match a, b with [], [] => Raises ValueError
                        | _,_ => Ok (NFlt (Qred (Qmake (dec_int (a++b) 0) 1 / Qmake (10 ^ Z.of_nat (length b)) 1))) end
  end.
Definition tval (s:st) : list N := match s with t::_ => tv t | [] => [] end.
Definition varname (s:st) : N := match tval s with c::_ => c | [] => 0%N end.

(* product of a run of factors, the exponent (if any) on the last one *)
Definition prod (fs:list expr) : option expr := match fs with [] => None | f0::r => Some (fold_left (Bin KMul) r f0) end.
Definition with_pow (fs:list expr) (r:expr) : list expr := match rev fs with [] => [] | last::ri => rev ri ++ [Bin KPow last r] end.

Fixpoint parse_add (n:nat) (s:st) : res (expr * st) :=
  match n with O => Raises OutOfFuel | S n =>
    if negb (check s FIRST_MULT) then Raises InvalidSyntax else
    do (e, s) <- parse_mult n s; add_loop n e s end
with add_loop (n:nat) (e:expr) (s:st) : res (expr * st) :=
  match n with O => Raises OutOfFuel | S n =>
    if check s IS_ADD then
      let plus := is s TPlus in let minus := is s TMinus in
      do s <- next s;
      if check s FIRST_MULT then
        do (r, s) <- parse_mult n s;
        if plus then add_loop n (Bin KAdd e r) s
        else if minus then add_loop n (Bin KSub e r) s
        else Raises UnexpectedBehavior
      else Raises UnexpectedBehavior
    else Ok (e, s) end
with parse_mult (n:nat) (s:st) : res (expr * st) :=
  match n with O => Raises OutOfFuel | S n =>
    if negb (check s FIRST_EXP) then Raises InvalidSyntax else
    do (e, s) <- parse_exponent n s; mult_loop n e s end
with mult_loop (n:nat) (e:expr) (s:st) : res (expr * st) :=
  match n with O => Raises OutOfFuel | S n =>
    if check s IS_MULT then
      let mul := is s TMul in let dv := is s TDiv in
      do s <- next s;
      if check s FIRST_EXP then
        do (r, s) <- parse_mult n s;       (* right operand: parse_mult again (right-nested chains) *)
        if mul then mult_loop n (Bin KMul e r) s
        else if dv then mult_loop n (Bin KDiv e r) s
        else Raises UnexpectedBehavior
      else Raises InvalidSyntax
    else Ok (e, s) end
with parse_exponent (n:nat) (s:st) : res (expr * st) :=
  match n with O => Raises OutOfFuel | S n =>
    if negb (check s FIRST_UNARY) then Raises InvalidSyntax else
    do (e, s) <- parse_unary n s;
    if check s IS_EXP then
      let ex := is s TExp in
      do s <- next s;
      if negb (check s FIRST_UNARY) then Raises InvalidSyntax else
      do (r, s) <- parse_unary n s;
      if ex then Ok (Bin KPow e r, s) else Raises UnexpectedBehavior
    else Ok (e, s) end
with parse_unary (n:nat) (s:st) : res (expr * st) :=
  match n with O => Raises OutOfFuel | S n =>
    if is s TMinus then do s1 <- next s; parse_prefix n true s1 else parse_prefix n false s end
with parse_prefix (n:nat) (negate:bool) (s:st) : res (expr * st) :=
  match n with O => Raises OutOfFuel | S n =>
    if negb (check s FIRST_FACTOR_PREFIX) then Raises InvalidSyntax else
    if is s TConst then
      do v <- coerce (tval s);
      do s' <- next s;
      let c := Const (if negate then nneg v else v) in
      if check s' FIRST_FACTOR then
        if is s' TFact then do s'' <- next s'; Ok (Un UFact c, s'')
        else do (f, s'') <- parse_factors n s'; Ok (Bin KMul c f, s'')
      else Ok (c, s')
    else
      if check s FIRST_FACTOR then
        do (e, s') <- parse_factors n s; Ok (if negate then Un UNeg e else e, s')
      else Raises InvalidSyntax end
with parse_factors (n:nat) (s:st) : res (expr * st) :=
  match n with O => Raises OutOfFuel | S n =>
    do (fs, s) <- factors_loop n [] s;
    if check s IS_EXP then
      do s <- next s;
      if negb (check s FIRST_UNARY) then Raises InvalidSyntax else
      do (r, s) <- parse_unary n s;
      match prod (with_pow fs r) with Some e => Ok (e, s) | None => Raises InvalidExpression end
    else match prod fs with Some e => Ok (e, s) | None => Raises InvalidExpression end end
with factors_loop (n:nat) (acc:list expr) (s:st) : res (list expr * st) :=
  match n with O => Raises OutOfFuel | S n =>
    do (f, s) <-
      (if is s TVar then do s' <- next s; Ok (Var (varname s), s')
       else if is s TFunc then   (* parse_function *)
         do s <- next s; do s <- eat s TOpen; do (e, s) <- parse_add n s; do s <- eat s TClose; Ok (Un USgn e, s)
       else if is s TOpen then
         do s <- next s; do (e, s) <- parse_add n s; do s <- eat s TClose; Ok (e, s)
       else Raises UnexpectedBehavior);
    if check s FIRST_FACTOR then factors_loop n (acc ++ [f]) s else Ok (acc ++ [f], s) end.

(* parse_equal's loop *)
Fixpoint equal_loop (n m:nat) (e:expr) (s:st) : res (expr * st) :=
  match m with O => Raises OutOfFuel | S m =>
    if check s IS_EQUAL then
      do s <- next s;
      if check s FIRST_ADD then do (r, s) <- parse_add n s; equal_loop n m (Bin KEq e r) s
      else Raises UnexpectedBehavior
    else Ok (e, s) end.

Definition parse_fuel (ts:list token) : nat := (10 * length ts + 20)%nat.
(* _parse: first next() (InvalidExpression on an empty token stream), parse_equal, trailing tokens *)
Definition parse_tokens (ts:list token) : res expr :=
  let n := parse_fuel ts in
  match ts with
  | [] => Raises IndexError
  | _ =>
    if is ts TEOF then Raises InvalidExpression else
    if negb (check ts FIRST_ADD) then Raises InvalidSyntax else
    do (e, s) <- parse_add n ts;
    do (e, s) <- equal_loop n n e s;
    if is s TEOF then Ok e else Raises TrailingTokens
  end.
Definition parse (s:list N) : res expr :=
  match tokenize true s with LOk ts => parse_tokens ts | LErr _ => Raises ValueError | LFuel => Raises OutOfFuel end.
