(* Model of the term-analysis half of util.py: get_sub_terms, is_simple_term, is_preferred_term_form, get_term,
   terms_are_like, get_terms, has_like_terms. A node is addressed as (root, path) because several of the functions look at
   the node's parent (get_term, is_preferred_term_form) or at the root of its tree (get_terms).
   Every `assert` of the source is the explicit outcome GAssert; loops on fuel have the explicit outcome GFuel.
   Repair U2 (DESIGN section 5) is in: terms_are_like compares the variable lists as multisets.
   No proofs in this file. *)
From Coq Require Import List NArith ZArith QArith Bool.
From Mathy Require Import Num Expr Printer Util.
Import ListNotations.

Fixpoint inorder_nodes (e:expr) : list expr :=
  match e with
  | Const _ | Var _ => [e]
  | Un _ c => e :: inorder_nodes c
  | Bin _ l r => inorder_nodes l ++ e :: inorder_nodes r end.

Definition is_addsub_e (e:expr) : bool := match e with Bin KAdd _ _ | Bin KSub _ _ => true | _ => false end.
Definition is_mdp (e:expr) : bool := match e with Bin KMul _ _ | Bin KDiv _ _ | Bin KPow _ _ => true | _ => false end.
Definition is_pow_e (e:expr) : bool := match e with Bin KPow _ _ => true | _ => false end.
Definition is_mul_e (e:expr) : bool := match e with Bin KMul _ _ => true | _ => false end.
Definition is_negate_e (e:expr) : bool := match e with Un UNeg _ => true | _ => false end.
Definition is_const_e (e:expr) : bool := match e with Const _ => true | _ => false end.
Definition is_var_e (e:expr) : bool := match e with Var _ => true | _ => false end.

(* ---- get_sub_terms: a scan over the in-order node list ---- *)
Definition term3 := (option expr * option expr * option expr)%type.
Inductive gst_res := GTerms (l:list term3) | GFalse | GAssert | GFuel.
Definition pop (l:list expr) : option expr * list expr := match l with [] => (None, []) | x :: r => (Some x, r) end.

(* "If there's a coefficient / variable, note it": shared shape of the two blocks; test = isinstance check *)
Definition take_leaf (test:expr -> bool) (cur:option expr) (rest:list expr) : gst_res + (option expr * option expr * list expr) :=
  match cur with
  | Some c =>
    if test c then
      let (c1, r1) := pop rest in
      match c1 with
      | Some x => if is_addsub_e x then inl GFalse else if negb (is_mdp x) then inl GAssert
                  else if is_pow_e x then inr (Some c, c1, r1) else let (c2, r2) := pop r1 in inr (Some c, c2, r2)
      | None => inr (Some c, None, r1)
      end
    else inr (None, cur, rest)
  | None => inr (None, cur, rest) end.
Definition take_exp (cur:option expr) (rest:list expr) : option expr * option expr * list expr :=
  match cur with
  | Some (Bin KPow _ _) => let (e, r1) := pop rest in let (c2, r2) := pop r1 in (e, c2, r2)
  | _ => (None, cur, rest) end.

Fixpoint gst (fuel:nat) (cur:option expr) (rest:list expr) (acc:list term3) : gst_res :=
  match fuel with O => GFuel | S f =>
  match cur with
  | None => GTerms (rev acc)
  | Some c =>
    if is_negate_e c then let (c', r') := pop rest in gst f c' r' acc else
    match take_leaf is_const_e cur rest with
    | inl r => r
    | inr (tc, cur1, rest1) =>
      match take_leaf is_var_e cur1 rest1 with
      | inl r => r
      | inr (tv, cur2, rest2) =>
        let '(te, cur3, rest3) := take_exp cur2 rest2 in
        match tc, tv, te with
        | None, None, None =>
          match cur3 with
          | Some m => if is_mul_e m then let (c', r') := pop rest3 in gst f c' r' acc else GFalse
          | None => GFalse end
        | _, _, _ => gst f cur3 rest3 ((tc, tv, te) :: acc)
        end
      end
    end
  end end.
Definition get_sub_terms (e:expr) : gst_res :=
  let l := inorder_nodes e in let (c, r) := pop l in gst (S (length l)) c r [].

(* ---- is_simple_term ---- *)
Inductive bres := BOk (b:bool) | BAssert | BFuel | BUnmodelled.   (* BUnmodelled: a constant whose decimal text the model does not produce *)
Definition s_None : list N := [78; 111; 110; 101]%N.
Definition s_coefficient : list N := [99; 111; 101; 102; 102; 105; 99; 105; 101; 110; 116]%N.
Definition str_of (o:option expr) : option (list N) :=
  match o with None => Some s_None | Some (Bin _ _ _) => None | Some e => show e None end.
Definition str_eqb (a b:list N) : bool := if list_eq_dec N.eq_dec a b then true else false.
Definition in_strs (s:list N) (l:list (list N)) : bool := existsb (str_eqb s) l.
Fixpoint simple_loop (ts:list term3) (seen:list (list N)) : bres :=
  match ts with
  | [] => BOk true
  | (c, v, e) :: r =>
    let after_c := match c with
                   | Some _ => if in_strs s_coefficient seen then None else Some (s_coefficient :: seen)
                   | None => Some seen end in
    match after_c with
    | None => BOk false
    | Some seen1 =>
      match v, e with
      | None, None => simple_loop r seen1
      | _, _ =>
        match str_of v, str_of e with
        | Some sv, Some se => let key := sv ++ se in if in_strs key seen1 then BOk false else simple_loop r (key :: seen1)
        | _, _ => BUnmodelled end
      end
    end
  end.
Definition is_simple_term (e:expr) : bres :=
  match get_sub_terms e with
  | GFalse => BOk false | GAssert => BAssert | GFuel => BFuel
  | GTerms ts => simple_loop ts [] end.

(* ---- is_preferred_term_form (root, path) ---- *)
Definition var_paths (root:expr) (p:path) : list (N * path) :=
  match subtree root p with
  | Some e => flat_map (fun q => match subtree root q with Some (Var v) => [(v, q)] | _ => [] end) (inorder_paths e p)
  | None => [] end.
Definition count_var (v:N) (l:list (N * path)) : nat := length (filter (fun x => N.eqb (fst x) v) l).
Definition coefficient_on_the_right (root:expr) (q:path) : bool :=
  let par := if is_k KPow (parent root q) then match parent_path q with Some (pq, _) => pq | None => q end else q in
  match parent_path par with
  | Some (gq, DL) => is_const (orgt (subtree root gq))
  | _ => false end.
Definition is_preferred_term_form (root:expr) (p:path) : bres :=
  match subtree root p with
  | None => BOk false
  | Some e =>
    match is_simple_term e with
    | BOk true =>
      let vs := var_paths root p in
      if existsb (fun x => coefficient_on_the_right root (snd x)) vs then BOk false
      else BOk (forallb (fun x => Nat.leb (count_var (fst x) vs) 1) vs)
    | r => r end
  end.

(* ---- get_term (root, path): None = False ---- *)
Record termres := { tr_coefs : list num; tr_vars : list N; tr_exp : option num }.
Fixpoint count_k (k:bk) (e:expr) : nat :=
  match e with
  | Bin k' l r => (if bk_eqb k k' then 1 else 0) + count_k k l + count_k k r
  | Un _ c => count_k k c | _ => 0 end.
Definition has_k (k:bk) (o:option expr) : bool := match o with Some e => negb (Nat.eqb (count_k k e) 0) | None => false end.
Definition is_leaf_e (e:expr) : bool := match e with Const _ | Var _ => true | _ => false end.
(* the PowerExpression nodes in in-order *)
Fixpoint pows (e:expr) : list expr :=
  match e with
  | Bin k l r => pows l ++ (if bk_eqb k KPow then [e] else []) ++ pows r
  | Un _ c => pows c | _ => [] end.
Fixpoint insert_sorted (x:N) (l:list N) : list N := match l with [] => [x] | y :: r => if (x <=? y)%N then x :: l else y :: insert_sorted x r end.
Definition sort_vars (l:list N) : list N := fold_right insert_sorted [] l.
(* constants of the subtree with the filter of get_term: top = the constant is the node itself *)
Inductive pkind := PNone | PMul | POtherBin | PNeg | POtherUn.
Fixpoint coefs (e:expr) (pk:pkind) (top:bool) : list num :=
  match e with
  | Const c => match pk with
               | POtherBin => if top then [c] else []
               | PNeg => [nneg c]
               | _ => [c] end
  | Var _ => []
  | Un u c => coefs c (match u with UNeg => PNeg | _ => POtherUn end) false
  | Bin k l r => let pk' := match k with KMul => PMul | _ => POtherBin end in coefs l pk' false ++ coefs r pk' false end.
Definition pkind_of (o:option expr) : pkind :=
  match o with None => PNone | Some (Bin KMul _ _) => PMul | Some (Bin _ _ _) => POtherBin | Some (Un UNeg _) => PNeg | Some _ => POtherUn end.
Definition oaddsub (o:option expr) : bool := match o with Some e => is_addsub_e e | None => false end.

(* the node and its parent (None at the root) *)
Definition get_term_ctx (node:expr) (par:option expr) : option termres :=
    let free := negb (isSome par) || oaddsub par in
    match node with
    | Const c => if free then Some {| tr_coefs := [c]; tr_vars := []; tr_exp := None |} else
                 (* falls through: a constant below another operator *)
                 Some {| tr_coefs := coefs node (pkind_of par) true; tr_vars := []; tr_exp := None |}
    | Var v => Some {| tr_coefs := []; tr_vars := [v]; tr_exp := None |}
    | _ =>
      if negb (is_addsub_e node) && (has_k KAdd (Some node) || has_k KSub (Some node)) then None else
      if has_k KAdd (lft node) && (match rgt node with Some r => negb (is_leaf_e r) | None => false end) then None else
      if has_k KAdd (rgt node) then None else
      let ps := pows node in
      let ex := match ps with
                | [] => Some None
                | [Bin _ _ (Const k)] => Some (Some k)
                | _ => None end in
      match ex with
      | None => None
      | Some ex =>
        let vs := sort_vars (vars node) in
        let cs := coefs node (pkind_of par) true in
        match vs, cs, ex with
        | [], [], None => None
        | _, _, _ => Some {| tr_coefs := cs; tr_vars := vs; tr_exp := ex |}
        end
      end
    end.
Definition get_term (root:expr) (p:path) : option termres :=
  match subtree root p with
  | None => None
  | Some node => get_term_ctx node (parent root p)
  end.

(* ---- terms_are_like (on the results of get_term), with repair U2: the variable lists must be equal as multisets ---- *)
Definition vars_eqb (a b:list N) : bool := if list_eq_dec N.eq_dec a b then true else false.
Definition terms_are_like_res (one two:option termres) : bool :=
  match one, two with
  | Some a, Some b =>
    match tr_vars a, tr_vars b with
    | [], [] => true
    | va, vb => if negb (Nat.eqb (length va) (length vb)) then false else
                if negb (vars_eqb (sort_vars va) (sort_vars vb)) then false else onum_eqb (tr_exp a) (tr_exp b)
    end
  | _, _ => false end.
Definition terms_are_like (root1:expr) (p1:path) (root2:expr) (p2:path) : bool :=
  terms_are_like_res (get_term root1 p1) (get_term root2 p2).

(* ---- get_terms (root, path of `expression`): paths of the term nodes ---- *)
Definition term_children (root:expr) (q:path) : list path :=
  match subtree root q with
  | Some (Bin k l r) =>
    if is_addsub_e (Bin k l r) then (if is_addsub_e l then [] else [q ++ [DL]]) ++ (if is_addsub_e r then [] else [q ++ [DR]]) else []
  | _ => [] end.
Definition get_terms (root:expr) (p:path) : list path :=
  let res := (if is_mul_e root then [[]] else []) ++ flat_map (term_children root) (inorder_paths root []) in
  match res with [] => [p] | _ => res end.

(* ---- has_like_terms ---- *)
Definition key := (list N * option num)%type.
Definition key_eqb (a b:key) : bool := vars_eqb (fst a) (fst b) && onum_eqb (snd a) (snd b).
Fixpoint has_dup (l:list key) : bool := match l with [] => false | k :: r => existsb (key_eqb k) r || has_dup r end.
Definition term_keys (root:expr) (ts:list path) : list key :=
  flat_map (fun q => match get_term root q with Some t => [(tr_vars t, tr_exp t)] | None => [] end) ts.
(* constants of the subtree whose parent is + or - (the parent of the subtree's own root comes from the context) *)
Fixpoint free_consts (e:expr) (parent_addsub:bool) : nat :=
  match e with
  | Const _ => if parent_addsub then 1 else 0
  | Var _ => 0
  | Un _ c => free_consts c false
  | Bin k l r => free_consts l (is_addsub_e e) + free_consts r (is_addsub_e e) end.
Definition has_like_terms (root:expr) (p:path) : bool :=
  match subtree root p with
  | None => false
  | Some e =>
    has_dup (term_keys root (get_terms root p)) || Nat.leb 2 (free_consts e (oaddsub (parent root p)))
  end.
