(* Model of MathExpression.evaluate (expressions.py) over Num, with explicit outcomes. *)
From Coq Require Import List NArith ZArith QArith Bool.
From Mathy Require Import Num Expr.
Import ListNotations.

(* context.get(id) is not None : the environment maps a variable to Some number or to None *)
Definition env := N -> option num.
(* ENonFinite: an OPERAND of an operation is nan/inf. The model has one non-finite value and does not follow IEEE arithmetic on it
   (1/inf = 0, sgn(inf) = 1, inf == inf ...), so the result of such an operation is outside the model. A non-finite RESULT of an
   operation on finite operands (division by zero -> nan) is an ordinary EOk NNonFinite. *)
Inductive eres := EOk (n:num) | EInexact | EValueError | ENonFinite.

Definition ebind (r:eres) (f:num -> eres) : eres := match r with EOk NNonFinite => ENonFinite | EOk n => f n | other => other end.
Definition operate (k:bk) (a b:num) : eres :=
  match k with
  | KAdd => EOk (nadd a b) | KSub => EOk (nsub a b) | KMul => EOk (nmul a b) | KDiv => EOk (ndiv a b)
  | KPow => match npow a b with PNum n => EOk n | PInexact => EInexact end
  | KEq => if num_eqb a b then EOk a else EValueError
  end.
Fixpoint eval (rho:env) (e:expr) : eres :=
  match e with
  | Const n => EOk n
  | Var v => match rho v with Some n => EOk n | None => EValueError end
  | Un UNeg c => ebind (eval rho c) (fun v => EOk (nneg v))
  | Un UFact c => ebind (eval rho c) (fun v => match nfact v with Some n => EOk n | None => EValueError end)
  | Un USgn c => ebind (eval rho c) (fun v => EOk (nsgn v))
  | Un UAbs c => ebind (eval rho c) (fun v => EOk (nabs v))
  | Bin k l r => ebind (eval rho l) (fun a => ebind (eval rho r) (fun b => operate k a b))
  end.
Definition no_env : env := fun _ => None.
