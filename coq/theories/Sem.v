(* SPEC: the meaning of an expression as a partial real function of its variables.
     Const n           : the number (a non-finite constant denotes nothing)
     + - *             : strict
     a / b             : undefined when b = 0
     a ^ b             : a > 0 -> exp(b ln a); a = 0 -> 0 if b > 0, 1 if b = 0, undefined if b < 0;
                         a < 0 -> a^z if b is the integer z, otherwise undefined
     -a, sgn a, a!     : factorial on the naturals only
     l = r             : the common value when both sides are defined and equal, otherwise undefined
   refines e e' : wherever e is defined, e' is defined with the same value (a preorder and, every operator
   being strict, a congruence). agree e e' is the literal wording "equal wherever both are defined".
   This file uses the standard library's real numbers (and therefore its axioms); it is not extracted. *)
From Coq Require Import List ZArith QArith Qreals Reals Lra Lia Bool.
From Mathy Require Import Num Expr.
Import ListNotations.
Open Scope R_scope.

Definition numR (n:num) : option R := option_map Q2R (qv n).

Definition is_int (b:R) : {exists z, b = IZR z} + {~ exists z, b = IZR z}.
Proof.
  destruct (Req_EM_T b (IZR (Int_part b))) as [H|H].
  - left. eauto.
  - right. intros [z Hz]. apply H. rewrite Hz. f_equal. symmetry.
    unfold Int_part. rewrite <- (tech_up (IZR z) (z+1)); try lia; rewrite plus_IZR; lra.
Defined.
Definition rpow (a b : R) : option R :=
  if Rlt_dec 0 a then Some (Rpower a b)
  else if Req_EM_T a 0 then
         (if Rlt_dec 0 b then Some 0 else if Req_EM_T b 0 then Some 1 else None)
  else if is_int b then Some (powerRZ a (Int_part b)) else None.
Definition rfact (a:R) : option R :=
  if is_int a then (if Rle_dec 0 a then Some (INR (fact (Z.to_nat (Int_part a)))) else None) else None.
Definition rsgn (a:R) : R := if Rlt_dec a 0 then -1 else if Rlt_dec 0 a then 1 else 0.

Definition env := N -> option R.
Definition bind2 (a b:option R) (f:R->R->option R) : option R :=
  match a, b with Some x, Some y => f x y | _,_ => None end.
Definition bind1 (a:option R) (f:R -> option R) : option R := match a with Some x => f x | None => None end.
Definition binop (k:bk) (a b:R) : option R :=
  match k with
  | KAdd => Some (a+b) | KSub => Some (a-b) | KMul => Some (a*b)
  | KDiv => if Req_EM_T b 0 then None else Some (a/b)
  | KPow => rpow a b
  | KEq => if Req_EM_T a b then Some a else None end.
Fixpoint den (rho:env) (e:expr) : option R :=
  match e with
  | Const n => numR n
  | Var v => rho v
  | Un UNeg c => option_map Ropp (den rho c)
  | Un UFact c => bind1 (den rho c) rfact
  | Un USgn c => option_map rsgn (den rho c)
  | Un UAbs c => option_map Rabs (den rho c)
  | Bin k l r => bind2 (den rho l) (den rho r) (binop k)
  end.

Definition refines (e e':expr) : Prop := forall rho v, den rho e = Some v -> den rho e' = Some v.
Definition agree (e e':expr) : Prop := forall rho v v', den rho e = Some v -> den rho e' = Some v' -> v = v'.
(* equations: same solutions wherever all four sides are defined *)
Definition same_solutions (l r l' r':expr) : Prop :=
  forall rho a b a' b', den rho l = Some a -> den rho r = Some b -> den rho l' = Some a' -> den rho r' = Some b' -> (a = b <-> a' = b').
(* the forward form used for sequences of rewrites: wherever the original equation's sides are defined, so are the new
   ones, and the new equation holds exactly when the original does (transitive, and implies same_solutions) *)
Definition eq_refines (l r l' r':expr) : Prop :=
  forall rho a b, den rho l = Some a -> den rho r = Some b ->
    exists a' b', den rho l' = Some a' /\ den rho r' = Some b' /\ (a = b <-> a' = b').
