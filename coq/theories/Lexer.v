(* Model of mathy_core/tokenizer.py: Tokenizer.tokenize (both padding modes).
   Structure (order of the three identify_* calls, maximal munch by eat_token, one Variable per
   letter unless the whole run is a registered function name, one EOF appended) is hand-written
   from the source; every table (character classes, operator/alias table, function names) comes
   from the generated Params.v. No proofs in this file. *)
From Coq Require Import List NArith Bool.
From Mathy Require Import Tok Params.
Import ListNotations.
Open Scope N_scope.

Definition in_ranges (rs:list (N*N)) (c:N) : bool := existsb (fun r => (fst r <=? c) && (c <=? snd r)) rs.
Definition is_alpha (c:N) : bool := in_ranges alpha_ranges c.      (* Tokenizer.is_alpha *)
Definition is_number (c:N) : bool := in_ranges number_ranges c.    (* Tokenizer.is_number *)

Fixpoint assoc {A} (t:list (N*A)) (c:N) : option A :=
  match t with [] => None | (k,v)::r => if k =? c then Some v else assoc r c end.
Definition op_of (c:N) : option (tkind * list N) := assoc op_table c.   (* identify_operators; None = ValueError *)

(* eat_token: longest prefix satisfying f *)
Fixpoint span (f:N->bool) (s:list N) : list N * list N :=
  match s with
  | [] => ([],[])
  | c::r => if f c then let (a,b) := span f r in (c::a,b) else ([],s)
  end.

Definition list_eqb (a b:list N) : bool := if list_eq_dec N.eq_dec a b then true else false.
Definition is_function_name (v:list N) : bool := existsb (list_eqb v) function_names.

Inductive lexres := LOk (ts:list token) | LErr (c:N) | LFuel.

(* keep_pad = (exclude_padding is False) *)
Fixpoint lex (fuel:nat) (keep_pad:bool) (s:list N) : lexres :=
  match fuel with O => LFuel | S fuel' =>
  match s with
  | [] => LOk [{|tk:=TEOF; tv:=[]|}]
  | c::_ =>
    if is_number c then
      let (v,r) := span is_number s in
      match lex fuel' keep_pad r with LOk ts => LOk ({|tk:=TConst;tv:=v|}::ts) | e => e end
    else if is_alpha c then
      let (v,r) := span is_alpha s in
      let here := if is_function_name v then [{|tk:=TFunc;tv:=v|}] else map (fun ch => {|tk:=TVar;tv:=[ch]|}) v in
      match lex fuel' keep_pad r with LOk ts => LOk (here ++ ts) | e => e end
    else match op_of c with
      | None => LErr c
      | Some (k,v) =>
        match lex fuel' keep_pad (tl s) with
        | LOk ts => LOk (if (match k with TPad => negb keep_pad | _ => false end) then ts else {|tk:=k;tv:=v|}::ts)
        | e => e end
      end
  end end.

Definition tokenize (exclude_padding:bool) (s:list N) : lexres := lex (S (length s)) (negb exclude_padding) s.
