(* parser.TokenSet: bit masks over token-type codes (both from the generated Params.v). *)
From Coq Require Import List NArith Bool.
From Mathy Require Import Tok Params.
Import ListNotations.
Open Scope N_scope.

Definition contains (set:N) (k:tkind) : bool := negb (N.land set (tok_code k) =? 0).   (* TokenSet.contains *)
Definition kinds_of (set:N) : list tkind := filter (contains set) all_kinds.
Definition kin (k:tkind) (l:list tkind) : bool := existsb (tkind_eqb k) l.
