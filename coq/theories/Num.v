(* Python numbers as the implementation uses them: int (unbounded), float (idealised as an exact
   rational; rounding is NOT modelled), and the non-finite floats (nan/inf, one value).
   Kind rules follow Python/numpy: int op int is int for + - *, `/` is true division (float),
   power follows PowerExpression.operate. No proofs in this file. *)
From Coq Require Import List ZArith QArith Qround Bool.
Import ListNotations.
Open Scope Q_scope.

Inductive num := NInt (z:Z) | NFlt (q:Q) | NNonFinite.

Definition qv (n:num) : option Q := match n with NInt z => Some (inject_Z z) | NFlt q => Some q | NNonFinite => None end.
Definition nflt (q:Q) : num := NFlt (Qred q).
(* Python ==  (nan != nan) *)
Definition num_eqb (a b:num) : bool := match qv a, qv b with Some x, Some y => Qeq_bool x y | _,_ => false end.
Definition nlt (a b:num) : bool := match qv a, qv b with Some x, Some y => match Qcompare x y with Lt => true | _ => false end | _,_ => false end.
Definition nlt0 (n:num) : bool := nlt n (NInt 0).
(* value as an integer when it is integral (int, or float such as 3.0) *)
Definition is_intval (n:num) : option Z :=
  match n with NInt z => Some z
  | NFlt q => if Qeq_bool (inject_Z (Qfloor q)) q then Some (Qfloor q) else None
  | NNonFinite => None end.
(* Python truthiness of a number: 0 and 0.0 are falsy, nan is truthy *)
Definition truthy (n:num) : bool := match qv n with Some q => negb (Qeq_bool q 0) | None => true end.
Definition one := NInt 1.

Definition nneg (n:num) : num := match n with NInt z => NInt (-z) | NFlt q => NFlt (Qopp q) | NNonFinite => NNonFinite end.
Definition nadd (a b:num) : num := match a,b with NInt x, NInt y => NInt (x+y)
  | _,_ => match qv a, qv b with Some x, Some y => nflt (x+y) | _,_ => NNonFinite end end.
Definition nsub (a b:num) : num := match a,b with NInt x, NInt y => NInt (x-y)
  | _,_ => match qv a, qv b with Some x, Some y => nflt (x-y) | _,_ => NNonFinite end end.
Definition nmul (a b:num) : num := match a,b with NInt x, NInt y => NInt (x*y)
  | _,_ => match qv a, qv b with Some x, Some y => nflt (x*y) | _,_ => NNonFinite end end.
(* DivideExpression.operate: two == 0 -> nan, else one / two (always a float) *)
Definition ndiv (a b:num) : num := match qv b with
  | Some y => if Qeq_bool y 0 then NNonFinite else match qv a with Some x => nflt (x/y) | None => NNonFinite end
  | None => NNonFinite end.
(* util.factor: value / i with i a Python int *)
Definition ndivf (a:num) (i:Z) : num := match qv a with Some x => nflt (x / inject_Z i) | None => NNonFinite end.

(* PowerExpression.operate (after repair R4: exact Python ints for int ^ non-negative int,
   float power otherwise). PInexact = a power with a non-integral exponent and positive base,
   whose value is in general irrational: not represented. *)
Inductive powres := PNum (n:num) | PInexact.
Definition qpow (q:Q) (z:Z) : Q := Qred (Qpower q z).
Definition npow (a b:num) : powres :=
  match a, b with
  | NInt x, NInt y => if (0 <=? y)%Z then PNum (NInt (x ^ y))
                      else if (x =? 0)%Z then PNum NNonFinite else PNum (NFlt (qpow (inject_Z x) y))
  | _, _ => match qv a, qv b with
    | Some x, Some y =>
      match is_intval b with
      | Some z => if Qeq_bool x 0 && (z <? 0)%Z then PNum NNonFinite else PNum (NFlt (qpow x z))
      | None => match Qcompare x 0 with Lt => PNum NNonFinite | Eq => (if Qle_bool 0 y then PNum (NFlt 0) else PNum NNonFinite) | Gt => PInexact end
      end
    | Some x, None => PNum NNonFinite
    | None, Some y => if Qeq_bool y 0 then PNum (NFlt 1) else PNum NNonFinite    (* numpy: nan ** 0 = 1 *)
    | None, None => PNum NNonFinite
    end end.

(* FactorialExpression.operate = math.factorial(int(value)); int() truncates toward zero and
   raises on nan/inf; factorial raises on negatives *)
Fixpoint fact_nat (n:nat) : Z := match n with O => 1%Z | S m => (Z.of_nat n * fact_nat m)%Z end.
Definition qtrunc (q:Q) : Z := if Qle_bool 0 q then Qfloor q else Qceiling q.
Definition nfact (a:num) : option num :=   (* None = ValueError *)
  match a with
  | NInt z => if (z <? 0)%Z then None else Some (NInt (fact_nat (Z.to_nat z)))
  | NFlt q => let z := qtrunc q in if (z <? 0)%Z then None else Some (NInt (fact_nat (Z.to_nat z)))
  | NNonFinite => None end.
(* SgnExpression.operate: ints -1 / 1 / 0 (nan compares false both ways -> 0) *)
Definition nabs (a:num) : num := if nlt a (NInt 0) then nneg a else a.
Definition nsgn (a:num) : num := if nlt a (NInt 0) then NInt (-1) else if nlt (NInt 0) a then NInt 1 else NInt 0.
