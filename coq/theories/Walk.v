(* A sequence of rewrites: at each step some rule (with its option) is applied at some node where it reports
   applicable, to a copy of the current expression (the model's trees are values, so earlier states are never altered). *)
From Coq Require Import List.
From Mathy Require Import Num Expr Util Rules.
Import ListNotations.

Definition step := (rule * path)%type.
(* run : the expression after the steps, or None as soon as a step is not applicable / does not complete *)
Fixpoint run (root:expr) (steps:list step) : option expr :=
  match steps with
  | [] => Some root
  | (r, p) :: rest =>
    if can_apply root p r then match apply root p r with ROk (root', _) => run root' rest | RRaises _ => None end else None
  end.
(* all intermediate expressions *)
Fixpoint trajectory (root:expr) (steps:list step) : list expr :=
  root :: match steps with
          | [] => []
          | (r, p) :: rest => if can_apply root p r then match apply root p r with ROk (root', _) => trajectory root' rest | RRaises _ => [] end else []
          end.
Definition is_equation (e:expr) : bool := match e with Bin KEq _ _ => true | _ => false end.
