(* Heap-level model of cloning (tree.py: BinaryTreeNode.clone, set_left/set_right; expressions.py: MathExpression.clone,
   clone_from_root, path_to_root and the payload copies of the subclasses, after repairs C1 and C2).
   A heap is a list of node records, an address is an index; allocation appends. Node identity, parent pointers, the
   cloned_node / cloned_target scratch fields and the order of the pointer writes are all explicit, so sharing and
   independence are statements about addresses. Recursion over pointers is on fuel (a heap may be cyclic); HFuel / HBad are
   explicit outcomes. No proofs in this file. *)
From Coq Require Import List NArith ZArith Bool Arith.
From Mathy Require Import Num.
Import ListNotations.

Record hnode := {
  h_cls : N;                 (* the class (a tag) *)
  h_id : N;                  (* node.id *)
  h_val : option num;        (* ConstantExpression.value *)
  h_ident : option N;        (* VariableExpression.identifier *)
  h_col : bool;              (* UnaryExpression.child_on_left *)
  h_l : option nat; h_r : option nat; h_p : option nat;
  h_cn : option nat;         (* cloned_node *)
  h_ct : option (list N) }.  (* cloned_target: None = None, Some [] = "" *)
Definition heap := list hnode.

Fixpoint upd {A} (l:list A) (i:nat) (f:A -> A) : list A :=
  match l, i with [], _ => [] | x :: r, O => f x :: r | x :: r, S j => x :: upd r j f end.
Definition set_l (v:option nat) (n:hnode) := {| h_cls := h_cls n; h_id := h_id n; h_val := h_val n; h_ident := h_ident n; h_col := h_col n; h_l := v; h_r := h_r n; h_p := h_p n; h_cn := h_cn n; h_ct := h_ct n |}.
Definition set_r (v:option nat) (n:hnode) := {| h_cls := h_cls n; h_id := h_id n; h_val := h_val n; h_ident := h_ident n; h_col := h_col n; h_l := h_l n; h_r := v; h_p := h_p n; h_cn := h_cn n; h_ct := h_ct n |}.
Definition set_p (v:option nat) (n:hnode) := {| h_cls := h_cls n; h_id := h_id n; h_val := h_val n; h_ident := h_ident n; h_col := h_col n; h_l := h_l n; h_r := h_r n; h_p := v; h_cn := h_cn n; h_ct := h_ct n |}.
Definition set_cn (v:option nat) (n:hnode) := {| h_cls := h_cls n; h_id := h_id n; h_val := h_val n; h_ident := h_ident n; h_col := h_col n; h_l := h_l n; h_r := h_r n; h_p := h_p n; h_cn := v; h_ct := h_ct n |}.
Definition set_ct (v:option (list N)) (n:hnode) := {| h_cls := h_cls n; h_id := h_id n; h_val := h_val n; h_ident := h_ident n; h_col := h_col n; h_l := h_l n; h_r := h_r n; h_p := h_p n; h_cn := h_cn n; h_ct := v |}.

(* self.__class__() followed by result.id = self.id and (in the subclasses) the payload copies: a parentless, childless node *)
Definition fresh_copy (n:hnode) : hnode :=
  {| h_cls := h_cls n; h_id := h_id n; h_val := h_val n; h_ident := h_ident n; h_col := h_col n;
     h_l := None; h_r := None; h_p := None; h_cn := None; h_ct := Some [] |}.

(* set_left(child) on a node whose left is None: self.left = child; child.parent = self *)
Definition link_l (h:heap) (a c:nat) : heap := upd (upd h a (set_l (Some c))) c (set_p (Some a)).
Definition link_r (h:heap) (a c:nat) : heap := upd (upd h a (set_r (Some c))) c (set_p (Some a)).

Inductive hres (A:Type) := HOk (a:A) | HFuel | HBad.
Arguments HOk {A}. Arguments HFuel {A}. Arguments HBad {A}.

(* path_to_root: the class names from the node up to the root *)
Fixpoint path_to_root (fuel:nat) (h:heap) (a:nat) : hres (list N) :=
  match fuel with O => HFuel | S f =>
    match nth_error h a with
    | None => HBad
    | Some n => match h_p n with
                | None => HOk [h_cls n]
                | Some p => match path_to_root f h p with HOk l => HOk (h_cls n :: l) | e => e end end end end.
Definition list_N_eqb (a b:list N) : bool := if list_eq_dec N.eq_dec a b then true else false.

(* MathExpression.clone *)
Fixpoint clone (fuel:nat) (h:heap) (a:nat) : hres (heap * nat) :=
  match fuel with O => HFuel | S f =>
    match nth_error h a with
    | None => HBad
    | Some n =>
      let r := length h in
      let h1 := h ++ [fresh_copy n] in
      let after_left := match h_l n with
                        | None => HOk h1
                        | Some l => match clone f h1 l with HOk (h', l') => HOk (link_l h' r l') | HFuel => HFuel | HBad => HBad end end in
      match after_left with
      | HOk h2 =>
        let after_right := match h_r n with
                           | None => HOk h2
                           | Some c => match clone f h2 c with HOk (h', c') => HOk (link_r h' r c') | HFuel => HFuel | HBad => HBad end end in
        match after_right with
        | HOk h3 =>
          (* the target marker: recorded on the node being copied when its own path is the target *)
          match nth_error h3 a with
          | None => HBad
          | Some n3 =>
            match h_ct n3 with
            | None => HOk (h3, r)
            | Some t => match path_to_root (S (length h3)) h3 a with
                        | HOk p => HOk (if list_N_eqb p t then upd h3 a (set_cn (Some r)) else h3, r)
                        | HFuel => HFuel | HBad => HBad end
            end
          end
        | HFuel => HFuel | HBad => HBad end
      | HFuel => HFuel | HBad => HBad end
    end end.

Fixpoint root_of (fuel:nat) (h:heap) (a:nat) : hres nat :=
  match fuel with O => HFuel | S f =>
    match nth_error h a with None => HBad | Some n => match h_p n with None => HOk a | Some p => root_of f h p end end end.

(* node.clone_from_root() : HOk (heap, address of the copy of `node`); HBad also stands for the "did not clone this node" exception *)
Definition clone_from_root (h:heap) (node:nat) : hres (heap * nat) :=
  let fuel := S (length h) in
  let h0 := upd h node (set_cn None) in
  match path_to_root fuel h0 node with
  | HOk t =>
    let h1 := upd h0 node (set_ct (Some t)) in
    match root_of fuel h1 node with
    | HOk root =>
      match clone fuel h1 root with
      | HOk (h2, _) =>
        match nth_error h2 node with
        | Some n => match h_cn n with
                    | Some c => HOk (upd (upd h2 node (set_cn None)) node (set_ct None), c)
                    | None => HBad end
        | None => HBad end
      | HFuel => HFuel | HBad => HBad end
    | HFuel => HFuel | HBad => HBad end
  | HFuel => HFuel | HBad => HBad end.

(* BinaryTreeNode.rotate (tree.py:86-113), pointer write by pointer write: parent.set_left(node.right) / set_right(node.left) with the
   child's parent write, node.right/left = parent, parent.parent = node, node.parent = grand_parent, grand_parent.left/right = node *)
Definition is_ptr (o:option nat) (a:nat) : bool := match o with Some x => Nat.eqb x a | None => false end.
Definition hrotate (h:heap) (node:nat) : heap :=
  match nth_error h node with None => h | Some n =>
  match h_p n with None => h | Some parent =>
  match nth_error h parent with None => h | Some pn =>
    let gp := h_p pn in
    let h1 :=
      if is_ptr (h_l pn) node then
        let h' := upd h parent (set_l (h_r n)) in
        let h'' := match h_r n with Some c => upd h' c (set_p (Some parent)) | None => h' end in
        upd (upd h'' node (set_r (Some parent))) parent (set_p (Some node))
      else
        let h' := upd h parent (set_r (h_l n)) in
        let h'' := match h_l n with Some c => upd h' c (set_p (Some parent)) | None => h' end in
        upd (upd h'' node (set_l (Some parent))) parent (set_p (Some node)) in
    let h2 := upd h1 node (set_p gp) in
    match gp with None => h2 | Some g =>
      match nth_error h2 g with None => h2 | Some gn =>
        if is_ptr (h_l gn) parent then upd h2 g (set_l (Some node)) else upd h2 g (set_r (Some node)) end end end end end.

