(* Model of the long-lived ExpressionParser object (parser.py:123-172): the two text-keyed memo
   tables, token lists as HEAP OBJECTS (so that aliasing between the cache and the lists handed to
   clients is visible), and the per-parse cursor fields stored on the object.
     tokenize(s): fills _tokens_cache[s] on a miss (a ValueError propagates and caches nothing) and
                  returns a COPY ([:]) of the cached list;
     parse(s)   : returns _parse_cache[s] on a hit; otherwise _parse(self.tokenize(s)), which sets
                  self.tokens/_all_tokens/current_token afresh, consumes ITS OWN copy with pop(0),
                  and memoises only a successful result;
     clear_cache; and a client consuming / editing a list it was handed.
   No proofs in this file. *)
From Coq Require Import List NArith Bool Arith.
From Mathy Require Import Tok Lexer Num Expr Parser.
Import ListNotations.

Definition ref := nat.
Record pstate := {
  heap : list (list token);                 (* list objects; a ref is an index *)
  tcache : list (list N * ref);             (* _tokens_cache : text -> list object *)
  pcache : list (list N * expr);            (* _parse_cache  : text -> tree *)
  handed : list ref;                        (* list objects returned to the client *)
  cur_tokens : option ref;                  (* self.tokens *)
  cur_all : option (list token);            (* self._all_tokens *)
  cur_tok : option token                    (* self.current_token *)
}.
Definition init : pstate := {| heap := []; tcache := []; pcache := []; handed := []; cur_tokens := None; cur_all := None; cur_tok := None |}.

Inductive op := OParse (s:list N) | OTokenize (s:list N) | OClear
              | OClientPop (r:ref)                       (* client: lst.pop(0) *)
              | OClientSet (r:ref) (i:nat) (t:token)     (* client: lst[i] = t *)
              | OClientClear (r:ref).                    (* client: lst.clear() *)
Inductive out := RTree (r:res expr) | RTokens (r:option (ref * list token)) | RUnit.

Fixpoint lookup {A} (c:list (list N * A)) (s:list N) : option A :=
  match c with [] => None | (k,v)::r => if list_eqb k s then Some v else lookup r s end.
Definition hget (h:list (list token)) (r:ref) : list token := nth r h [].
Fixpoint hset (h:list (list token)) (r:ref) (l:list token) : list (list token) :=
  match h, r with
  | [], _ => []
  | _ :: t, O => l :: t
  | x :: t, S r' => x :: hset t r' l end.
Fixpoint lset (l:list token) (i:nat) (t:token) : list token :=
  match l, i with [] , _ => [] | _ :: r, O => t :: r | x :: r, S i' => x :: lset r i' t end.
Definition with_heap (st:pstate) (h:list (list token)) : pstate :=
  {| heap := h; tcache := tcache st; pcache := pcache st; handed := handed st; cur_tokens := cur_tokens st; cur_all := cur_all st; cur_tok := cur_tok st |}.

(* ExpressionParser.tokenize: returns (state, Some (ref of the COPY, its content)) or None on ValueError *)
Definition do_tokenize (st:pstate) (s:list N) : pstate * option ref :=
  match lookup (tcache st) s with
  | Some r =>
    let copy := length (heap st) in
    (with_heap st (heap st ++ [hget (heap st) r]), Some copy)
  | None =>
    match tokenize true s with
    | LOk ts =>
      let r := length (heap st) in
      let st1 := {| heap := heap st ++ [ts; ts]; tcache := (s, r) :: tcache st; pcache := pcache st; handed := handed st;
                    cur_tokens := cur_tokens st; cur_all := cur_all st; cur_tok := cur_tok st |} in
      (st1, Some (S r))
    | _ => (st, None)
    end
  end.

Definition last_tok (ts:list token) : option token := match rev ts with t :: _ => Some t | [] => None end.

Definition pstep (st:pstate) (o:op) : pstate * out :=
  match o with
  | OTokenize s =>
    match do_tokenize st s with
    | (st1, Some r) => ({| heap := heap st1; tcache := tcache st1; pcache := pcache st1; handed := r :: handed st1;
                           cur_tokens := cur_tokens st1; cur_all := cur_all st1; cur_tok := cur_tok st1 |}, RTokens (Some (r, hget (heap st1) r)))
    | (st1, None) => (st1, RTokens None)
    end
  | OParse s =>
    match lookup (pcache st) s with
    | Some e => (st, RTree (Ok e))
    | None =>
      match do_tokenize st s with
      | (st1, None) => (st1, RTree (Raises ValueError))
      | (st1, Some r) =>
        let ts := hget (heap st1) r in
        let res := parse_tokens ts in
        (* _parse: cursor fields are (re)assigned before any use; its private copy is consumed *)
        let st2 := {| heap := hset (heap st1) r []; tcache := tcache st1;
                      pcache := match res with Ok e => (s, e) :: pcache st1 | Raises _ => pcache st1 end;
                      handed := handed st1; cur_tokens := Some r;
                      cur_all := match res with Ok _ => None | Raises _ => Some ts end; cur_tok := last_tok ts |} in
        (st2, RTree res)
      end
    end
  | OClear => ({| heap := heap st; tcache := []; pcache := []; handed := handed st; cur_tokens := cur_tokens st; cur_all := cur_all st; cur_tok := cur_tok st |}, RUnit)
  | OClientPop r => if existsb (Nat.eqb r) (handed st) then (with_heap st (hset (heap st) r (tl (hget (heap st) r))), RUnit) else (st, RUnit)
  | OClientSet r i t => if existsb (Nat.eqb r) (handed st) then (with_heap st (hset (heap st) r (lset (hget (heap st) r) i t)), RUnit) else (st, RUnit)
  | OClientClear r => if existsb (Nat.eqb r) (handed st) then (with_heap st (hset (heap st) r []), RUnit) else (st, RUnit)
  end.

Definition run (ops:list op) (st:pstate) : pstate := fold_left (fun s o => fst (pstep s o)) ops st.
Definition outs (ops:list op) (st:pstate) : list out :=
  snd (fold_left (fun '(s, acc) o => let '(s', r) := pstep s o in (s', acc ++ [r])) ops (st, [])).
