(* Model of the term utilities of util.py used by the rules: get_term_ex, factor (dict in insertion
   order, int/float kinds of keys and values), factor_add_terms_ex, make_term.
   Repairs of DESIGN section 5 already in: R2 (exponent presence tested with `is not None`),
   R3 (make_term builds c * x^e), A3 (builtin min/max: the chosen factor keeps its Python type). *)
From Coq Require Import List NArith ZArith QArith Qround Bool.
From Mathy Require Import Num Expr.
Import ListNotations.
Open Scope Q_scope.

Record termex := { t_coef : option num; t_var : option N; t_exp : option num }.
Definition mk c v e := {| t_coef := c; t_var := v; t_exp := e |}.
(* parent_is_pow: the node's parent is a PowerExpression *)
Definition get_term_ex (parent_is_pow:bool) (e:expr) : option termex :=
  match e with
  | Un UNeg (Var x) => Some (mk (Some (NInt (-1))) (Some x) None)
  | Un UNeg (Bin KPow (Var x) (Const k)) => Some (mk (Some (NInt (-1))) (Some x) (Some k))
  | Const c => if parent_is_pow then None else Some (mk (Some c) None None)
  | Var x => if parent_is_pow then None else Some (mk None (Some x) None)
  | Bin KMul (Const c) (Var x) => Some (mk (Some c) (Some x) None)
  | Bin KMul (Const c) (Bin KPow (Var x) (Const k)) => Some (mk (Some c) (Some x) (Some k))
  | Bin KPow (Var x) (Const k) => Some (mk None (Some x) (Some k))
  | _ => None
  end.

(* util.factor : association list in dict insertion order; keys compare by value (1 == 1.0) *)
Definition fdict := list (num * num).
Fixpoint flookup (d:fdict) (k:num) : option num := match d with [] => None | (a,b)::r => if num_eqb a k then Some b else flookup r k end.
Fixpoint fset (d:fdict) (k v:num) : fdict := match d with [] => [(k,v)] | (a,b)::r => if num_eqb a k then (a,v)::r else (a,b)::fset r k v end.
Fixpoint frange (d:fdict) (v:num) (z:Z) (i:Z) (n:nat) : fdict :=
  match n with O => d | S n' =>
    let d := if (z mod i =? 0)%Z then fset (fset d (NInt i) (ndivf v i)) (ndivf v i) (NInt i) else d in
    frange d v z (i+1) n' end.
Definition factor (v:num) : fdict :=
  match qv v with
  | None => []
  | Some q => if Qeq_bool q 0 then [] else
      match Qcompare q 0 with
      | Lt => [(one, v)]                       (* sqrt of a negative is nan *)
      | _ => let d := fset [(one, v)] v one in
             match is_intval v with
             | Some z => frange d v z 2 (Z.to_nat (Z.sqrt z - 1))
             | None => d   (* value % i == 0 never holds for a non-integer *)
             end
      end end.

Record fres := { best : num; f_left : num; f_right : num; f_var : option N; f_exp : option num;
                 l_exp : option num; r_exp : option num; l_var : option N; r_var : option N }.
Definition onum_eqb (a b:option num) := match a,b with Some x, Some y => num_eqb x y | None, None => true | _,_ => false end.
Definition ovar_eqb (a b:option N) := match a,b with Some x, Some y => N.eqb x y | None, None => true | _,_ => false end.
Definition otruthy (o:option num) : bool := match o with Some k => truthy k | None => false end.
Definition common (l r:fdict) : list num := map fst (filter (fun kv => isSome (flookup l (fst kv))) r).
(* builtin min / max: the first extremal element *)
Fixpoint nmin (d:num) (l:list num) : num := match l with [] => d | x::r => let m := nmin x r in if nlt x m then x else (if nlt m x then m else x) end.
Fixpoint nmax (d:num) (l:list num) : num := match l with [] => d | x::r => let m := nmax x r in if nlt m x then x else (if nlt x m then m else x) end.

Definition factor_add_terms_ex (lt rt:termex) : option fres :=
  let lf := factor (match t_coef lt with Some c => c | None => one end) in
  let rf := factor (match t_coef rt with Some c => c | None => one end) in
  match common lf rf with
  | [] => None
  | c0::cs =>
    let has_l := isSome (t_var lt) in let has_r := isSome (t_var rt) in
    let b := if has_l || has_r then nmin c0 (c0::cs) else nmax c0 (c0::cs) in
    match flookup lf b, flookup rf b with
    | Some fl, Some fr =>
      let two_match := isSome (t_exp lt) && isSome (t_exp rt) && onum_eqb (t_exp lt) (t_exp rt) in
      let both_match := negb ((isSome (t_exp lt) || isSome (t_exp rt)) && negb two_match) in
      let shared := has_l && has_r && ovar_eqb (t_var lt) (t_var rt) && both_match in
      let v := if shared then t_var lt else None in
      let e := if shared then t_exp lt else None in
      Some {| best := b; f_left := fl; f_right := fr; f_var := v; f_exp := e;
              l_exp := if isSome (t_exp lt) && negb (onum_eqb (t_exp lt) e) then t_exp lt else None;
              r_exp := if isSome (t_exp rt) && negb (onum_eqb (t_exp rt) e) then t_exp rt else None;
              l_var := if has_l && negb (ovar_eqb (t_var lt) v) then t_var lt else None;
              r_var := if has_r && negb (ovar_eqb (t_var rt) v) then t_var rt else None |}
    | _,_ => None   (* KeyError: unreachable (proofs/UtilFacts.v) *)
    end end.

(* make_term : None = VariableExpression(None) would be built (exponent without variable) *)
Definition make_term (c:num) (v:option N) (e:option num) : option expr :=
  match v, e with
  | None, None => Some (Const c)
  | Some x, None => if num_eqb c one then Some (Var x) else Some (Bin KMul (Const c) (Var x))
  | Some x, Some k => if num_eqb c one then Some (Bin KPow (Var x) (Const k))
                      else Some (Bin KMul (Const c) (Bin KPow (Var x) (Const k)))
  | None, Some k => None
  end.
