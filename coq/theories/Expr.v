(* Expression trees at the level of parser, printer, evaluator, rules and term utilities:
   arity-correct by construction; a unary node keeps its operand on the RIGHT (as the parser and
   every rule build them). Paths address nodes. No proofs in this file. *)
From Coq Require Import List NArith ZArith QArith Bool.
From Mathy Require Import Num.
Import ListNotations.

Inductive bk := KEq | KAdd | KSub | KMul | KDiv | KPow.
Inductive uk := UNeg | UFact | USgn | UAbs.
Inductive expr := Const (n:num) | Var (v:N) | Un (u:uk) (c:expr) | Bin (k:bk) (l r:expr).

Definition bk_eqb (a b:bk) : bool := match a,b with KEq,KEq|KAdd,KAdd|KSub,KSub|KMul,KMul|KDiv,KDiv|KPow,KPow => true | _,_ => false end.

(* tree access mirroring node.left / node.right *)
Definition lft (e:expr) : option expr := match e with Bin _ l _ => Some l | _ => None end.
Definition rgt (e:expr) : option expr := match e with Bin _ _ r => Some r | Un _ c => Some c | _ => None end.
Definition olft (o:option expr) := match o with Some e => lft e | None => None end.
Definition orgt (o:option expr) := match o with Some e => rgt e | None => None end.
Definition is_k (k:bk) (o:option expr) : bool := match o with Some (Bin k' _ _) => bk_eqb k k' | _ => false end.
Definition is_bin (o:option expr) : bool := match o with Some (Bin _ _ _) => true | _ => false end.
Definition is_const (o:option expr) : bool := match o with Some (Const _) => true | _ => false end.
Definition is_var (o:option expr) : bool := match o with Some (Var _) => true | _ => false end.
Definition is_neg (o:option expr) : bool := match o with Some (Un UNeg _) => true | _ => false end.
Definition cval (o:option expr) : option num := match o with Some (Const n) => Some n | _ => None end.
Definition isSome {A} (o:option A) := match o with Some _ => true | None => false end.

Inductive dir := DL | DR.
Definition path := list dir.
Fixpoint subtree (e:expr) (p:path) {struct p} : option expr :=
  match p with [] => Some e | d::q =>
    match e, d with
    | Bin _ l _, DL => subtree l q | Bin _ _ r, DR => subtree r q | Un _ c, DR => subtree c q | _,_ => None end end.
Fixpoint replace (e:expr) (p:path) (n:expr) {struct p} : expr :=
  match p with [] => n | d::q =>
    match e, d with
    | Bin k l r, DL => Bin k (replace l q n) r | Bin k l r, DR => Bin k l (replace r q n)
    | Un u c, DR => Un u (replace c q n) | _,_ => e end end.
Definition parent_path (p:path) : option (path * dir) :=
  match rev p with [] => None | d::rq => Some (rev rq, d) end.
Definition parent (root:expr) (p:path) : option expr := match parent_path p with Some (q,_) => subtree root q | None => None end.
Definition sibling (root:expr) (p:path) : option expr :=
  match parent_path p with Some (q,d) => match subtree root q with Some pe => match d with DL => rgt pe | DR => lft pe end | None => None end | None => None end.
(* in-order: a unary node is visited before its (right) operand *)
Fixpoint inorder_paths (e:expr) (pre:path) : list path :=
  match e with
  | Const _ | Var _ => [pre]
  | Un _ c => pre :: inorder_paths c (pre ++ [DR])
  | Bin _ l r => inorder_paths l (pre ++ [DL]) ++ pre :: inorder_paths r (pre ++ [DR]) end.
Fixpoint contains_add (e:expr) : bool :=
  match e with Bin KAdd l r => true | Bin _ l r => contains_add l || contains_add r | Un _ c => contains_add c | _ => false end.
Fixpoint vars (e:expr) : list N :=
  match e with Const _ => [] | Var v => [v] | Un _ c => vars c | Bin _ l r => vars l ++ vars r end.
Fixpoint size (e:expr) : nat := match e with Const _ | Var _ => 1 | Un _ c => S (size c) | Bin _ l r => S (size l + size r) end.
(* leaves left to right (operands) *)
Fixpoint leaves (e:expr) : list expr :=
  match e with Const _ | Var _ => [e] | Un _ c => leaves c | Bin _ l r => leaves l ++ leaves r end.
