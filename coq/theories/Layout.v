(* Model of layout.py (TreeLayout.layout = measure + transform): Reingold-Tilford with threads.
   The algorithm keeps its scratch state ON THE TREE NODES and that state survives between calls:
   per node an `offset` (always rewritten when the node is measured) and a `thread` (written only when
   an ancestor threads the node). The model threads that state explicitly: layout : tree -> state ->
   state * coordinates, so that repeated calls on the same nodes are expressible.
   `level` is read with getattr(.., "level", -1) and never written for a real node, so the two
   "deeper extreme" tests are constantly false (recorded as such below).
   Repair L1 (DESIGN section 5) is in: measuring a node first discards its stale thread.
   Numbers: offsets are exact rationals (all values are dyadic, so the implementation's floats are exact).
   No proofs in this file. *)
From Coq Require Import List ZArith QArith Qabs Bool Arith.
From Mathy Require Import Bt.
Import ListNotations.
Open Scope Q_scope.

Definition rid (t:bt nat) : option nat := match t with E => None | T _ i _ => Some i end.

Record cell := { off : option Q; thr : option nat }.
Definition st := list (nat * cell).
Fixpoint get (s:st) (i:nat) : cell := match s with [] => {|off:=None;thr:=None|} | (j,c)::r => if Nat.eqb i j then c else get r i end.
Definition set_off (s:st) (i:nat) (q:Q) : st := (i, {|off:=Some q; thr:=thr (get s i)|})::s.
Definition set_thr (s:st) (i:nat) (t:nat) : st := (i, {|off:=off (get s i); thr:=Some t|})::s.
Definition clr_thr (s:st) (i:nat) : st := (i, {|off:=off (get s i); thr:=None|})::s.

(* static child table of the tree being laid out: id -> (left id, right id) *)
Fixpoint kids (t:bt nat) (acc:list (nat*(option nat*option nat))) :=
  match t with E => acc | T l i r => kids l (kids r ((i,(rid l, rid r))::acc)) end.
Fixpoint kid_get (k:list (nat*(option nat*option nat))) (i:nat) := match k with [] => (None,None) | (j,c)::r => if Nat.eqb i j then c else kid_get r i end.

Definition truthyQ (o:option Q) : bool := match o with Some q => negb (Qeq_bool q 0) | None => false end.
Definition qred (q:Q) := Qred q.
Definition offQ (s:st) (i:nat) : Q := match off (get s i) with Some q => q | None => 0 end.
Definition isS {A} (o:option A) : bool := match o with Some _ => true | None => false end.

Section M.
Variable K : list (nat*(option nat*option nat)).
Definition Lc (i:nat) := fst (kid_get K i).
Definition Rc (i:nat) := snd (kid_get K i).

(* the contour loop `while left and right` (layout.py:118-141); min_separation = 1 *)
Fixpoint loop (fuel:nat) (s:st) (lft rgt:option nat) (cur rootsep los ros:Q) : (option nat*option nat*Q*Q*Q*Q) :=
  match fuel with O => (lft,rgt,cur,rootsep,los,ros) | S f =>
  match lft, rgt with
  | Some l, Some r =>
    let '(rootsep,cur) := if Qlt_le_dec cur 1 then (qred (rootsep + (1-cur)), 1) else (rootsep,cur) in
    let cl := get s l in
    let '(lft',cur,los) :=
      if isS (Rc l) && truthyQ (off cl) then
        let o := match off cl with Some o => o | None => 0 end in
        (match thr cl with Some t => Some t | None => Rc l end, qred (cur - o), qred (los + o))
      else match off cl with
           | Some o => (match thr cl with Some t => Some t | None => Lc l end, qred (cur + o), qred (los - o))
           | None => (Some l, cur, los) end in
    let cr := get s r in
    let '(rgt',cur,ros) :=
      if isS (Lc r) && truthyQ (off cr) then
        let o := match off cr with Some o => o | None => 0 end in
        (match thr cr with Some t => Some t | None => Lc r end, qred (cur - o), qred (ros - o))
      else match off cr with
           | Some o => (match thr cr with Some t => Some t | None => Rc r end, qred (cur + o), qred (ros + o))
           | None => (Some r, cur, ros) end in
    loop f s lft' rgt' cur rootsep los ros
  | _, _ => (lft,rgt,cur,rootsep,los,ros)
  end end.

(* measure: returns the state and the extremes (left, right) of the subtree *)
Fixpoint measure (fuel:nat) (t:bt nat) (s:st) : st * (option nat * option nat) :=
  match t with
  | E => (s,(None,None))
  | T l i r =>
    let s := clr_thr s i in                      (* repair L1: a node being measured has no thread yet *)
    let '(s,le) := measure fuel l s in
    let '(s,re) := measure fuel r s in
    match l, r with
    | E, E => (set_off s i 0, (Some i, Some i))
    | E, T _ c _ | T _ c _, E => (set_off s i 1, (Some c, Some c))    (* one child: the extreme is the CHILD itself *)
    | T _ li _, T _ ri _ =>
      let '(lft,rgt,cur,rootsep,los,ros) := loop fuel s (Some li) (Some ri) 1 0 0 0 in
      let o := qred ((rootsep + 1) / 2) in
      let s := set_off s i o in
      let los := qred (los - o) in let ros := qred (ros + o) in
      (* extremes: getattr(.., "level", -1) is -1 on both sides, so left comes from the left subtree, right from the right *)
      let el := fst le in let er := snd re in
      let s := match el with Some e => set_off s e (qred (offQ s e - o)) | None => s end in
      let s := match er with Some e => set_off s e (qred (offQ s e + o)) | None => s end in
      let thread_left := match lft, snd re with Some lf, Some e => if negb (Nat.eqb lf li) then Some (lf, e) else None | _, _ => None end in
      let s :=
        match thread_left with
        | Some (lf, e) => set_off (set_thr s e lf) e (qred (Qabs (offQ s e + o - los)))
        | None =>
          match rgt, fst le with
          | Some rt, Some e => if negb (Nat.eqb rt ri) then set_off (set_thr s e rt) e (qred (Qabs (offQ s e - o - ros))) else s
          | _, _ => s end
        end in
      (s,(el,er))
    end
  end.
End M.

(* transform: absolute coordinates (id, x, level) in in-order *)
Fixpoint transform (t:bt nat) (s:st) (x:Q) (d:nat) (acc:list (nat*Q*nat)) : list (nat*Q*nat) :=
  match t with E => acc | T l i r =>
    let o := offQ s i in
    transform l s (qred (x - o)) (S d) ((i,x,d) :: transform r s (qred (x + o)) (S d) acc) end.

Definition layout (t:bt nat) (s:st) : st * list (nat*Q*nat) :=
  let K := kids t [] in
  let '(s,_) := measure K (2 * bsize t + 2) t s in (s, transform t s 0 0 []).

(* TreeMeasurement: minX/maxX/minY/maxY with the initial values 10000 / 0 of the code *)
Record bounds := { minX : Q; maxX : Q; minY : Q; maxY : Q }.
Definition qmin (a b:Q) := if Qlt_le_dec b a then b else a.
Definition qmax (a b:Q) := if Qlt_le_dec a b then b else a.
Definition measure_bounds (ux uy:Q) (c:list (nat*Q*nat)) : bounds :=
  fold_left (fun b p => let '(i,x,d) := p in
     {| minX := qmin (minX b) (qred (x*ux)); maxX := qmax (maxX b) (qred (x*ux));
        minY := qmin (minY b) (qred (inject_Z (Z.of_nat d) * uy)); maxY := qmax (maxY b) (qred (inject_Z (Z.of_nat d) * uy)) |})
    c {| minX := 10000; maxX := 0; minY := 10000; maxY := 0 |}.

(* ---- checks used by the bounded theorems ---- *)
Fixpoint level_ok (lst:list (nat*Q*nat)) (lastx:list (nat*Q)) : bool :=
  match lst with [] => true | (i,x,d)::r =>
    let prev := (fix f (l:list (nat*Q)) := match l with [] => None | (d',x')::t => if Nat.eqb d d' then Some x' else f t end) lastx in
    match prev with
    | Some px => if Qle_bool (px + 1) x then level_ok r ((d,x)::lastx) else false
    | None => level_ok r ((d,x)::lastx) end end.
Definition xof (c:list (nat*Q*nat)) (i:nat) : Q := (fix f l := match l with [] => 0 | (j,x,_)::t => if Nat.eqb i j then x else f t end) c.
Fixpoint sides_ok (t:bt nat) (c:list (nat*Q*nat)) : bool :=
  match t with E => true | T l i r =>
    (match rid l with Some a => negb (Qle_bool (xof c i) (xof c a)) | None => true end) &&
    (match rid r with Some a => negb (Qle_bool (xof c a) (xof c i)) | None => true end) &&
    sides_ok l c && sides_ok r c end.
Fixpoint centred (t:bt nat) (c:list (nat*Q*nat)) : bool :=
  match t with E => true | T l i r =>
    (match rid l, rid r with Some a, Some b => Qeq_bool (xof c i * 2) (xof c a + xof c b) | _, _ => true end) && centred l c && centred r c end.
Fixpoint is_full {A} (t:bt A) : bool := match t with E => true | T E _ E => true | T E _ _ => false | T _ _ E => false | T l _ r => is_full l && is_full r end.
Fixpoint mirror {A} (t:bt A) : bt A := match t with E => E | T l a r => T (mirror r) a (mirror l) end.
Definition coords_eqb (a b:list (nat*Q*nat)) : bool :=
  (Nat.eqb (length a) (length b)) && forallb (fun p => let '(i,x,d) := fst p in let '(j,y,e) := snd p in Nat.eqb i j && Qeq_bool x y && Nat.eqb d e) (combine a b).
Definition mirrored (a b:list (nat*Q*nat)) : bool :=   (* same ids, x negated, same level *)
  forallb (fun p => let '(i,x,d) := p in Qeq_bool (xof b i) (- x)) a && Nat.eqb (length a) (length b).

Definition lab (s:bt unit) : bt nat := fst (label s 0).
Definition tidy_once (t:bt nat) : bool := let '(s,c) := layout t [] in level_ok c [] && sides_ok t c && centred t c.
Definition repeat_ok (t:bt nat) : bool := let '(s,c) := layout t [] in let '(s2,c2) := layout t s in let '(_,c3) := layout t s2 in coords_eqb c c2 && coords_eqb c c3.
Definition mirror_ok (t:bt nat) : bool := let '(_,c) := layout t [] in let '(_,c') := layout (mirror t) [] in mirrored c c'.
