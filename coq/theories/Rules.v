(* Model of the nine rewrite rules (mathy_core/rules/*.py): classifiers in the code's order of
   tests, apply returning the new ROOT and the path of `change.result`, find_node(s).
   A position is (root, path). Repairs of DESIGN section 5 already in: R1 (restate-subtraction
   "term with constant" only for * and / right operands), E1 (balanced move only for top-level
   addends), E2 (no division by a zero coefficient), E3 (constant arithmetic does not fold `=`).
   RInexact marks a fold whose exact value is not rational (power with non-integral exponent) or whose operand is nan/inf. *)
From Coq Require Import List NArith ZArith QArith Qround Bool.
From Mathy Require Import Num Expr Util.
Import ListNotations.

Inductive rexn := RValueError | RAssertion | RAttribute | RNotImplemented | ROther | RInexact.
Inductive rres (A:Type) := ROk (a:A) | RRaises (e:rexn).
Arguments ROk {A}. Arguments RRaises {A}.
Definition rbind {A B} (r:rres A) (f:A -> rres B) : rres B := match r with ROk a => f a | RRaises e => RRaises e end.
Notation "'dor' x <- r ; k" := (rbind r (fun x => k)) (at level 200, x pattern, r at level 100, k at level 200).

(* node.evaluate() of  Bin k (Const a) (Const b) *)
Inductive fold := FNum (n:num) | FInexact | FRaise (e:rexn).
Definition fold_fin (k:bk) (a b:num) : fold :=
  match k with
  | KAdd => FNum (nadd a b) | KSub => FNum (nsub a b) | KMul => FNum (nmul a b) | KDiv => FNum (ndiv a b)
  | KPow => match npow a b with PNum n => FNum n | PInexact => FInexact end
  | KEq => if num_eqb a b then FNum a else FRaise RValueError
  end.
(* a nan/inf operand: IEEE arithmetic on non-finite values is outside the model (one non-finite value stands for nan and both infinities) *)
Definition fold_bin (k:bk) (a b:num) : fold :=
  match a, b with NNonFinite, _ | _, NNonFinite => FInexact | _, _ => fold_fin k a b end.

Inductive rule := RAssoc | RComm (preferred:bool) | RConst | RFactor (constants:bool) | RDistr | RInverse | RRestate | RVarMul | RBalanced.

Section DR. Variable root : expr. Variable p : path.
Definition node : option expr := subtree root p.
Definition par := parent root p.

(* ---- associative swap ---- *)
Definition assoc_can : bool := (is_k KAdd node && is_k KAdd par) || (is_k KMul node && is_k KMul par).
Definition assoc_apply : rres (expr * path) :=
  match parent_path p, node, par with
  | Some (q, d), Some (Bin kn a b), Some (Bin kp pl pr) =>
    let n' := match d with DL => Bin kn a (Bin kp b pr) | DR => Bin kn (Bin kp pl a) b end in
    ROk (replace root q n', q)
  | _,_,_ => ROk (root, p)   (* rotate on a root: no change *)
  end.

(* ---- commutative swap ---- *)
Definition comm_can (preferred:bool) : bool :=
  if is_k KAdd node || is_k KEq node then true else
  if negb (is_k KMul node) then false else
  if preferred then true else
  let blocked := (fun _ : unit => if is_k KMul par then is_k KMul (sibling root p) else false) in
  if is_const (olft node) && is_var (orgt node) then blocked tt
  else if is_k KPow (orgt node) && is_var (olft (orgt node)) && is_const (orgt (orgt node)) then blocked tt
  else true.
Definition comm_apply : rres (expr * path) :=
  match node with
  | Some (Bin k a b) =>
    let chain := match k, a with KAdd, Bin KAdd _ _ => true | KMul, Bin KMul _ _ => true | _,_ => false end in
    let n' := match k with KEq => Bin k b a | _ =>
      if chain then match a with Bin ka p1 q1 => Bin k (Bin ka p1 b) q1 | _ => Bin k b a end else Bin k b a end in
    ROk (replace root p n', p)
  | _ => RRaises RAssertion end.

(* ---- constants simplify ---- *)
Inductive carr := C_SIMPLE | C_NEG | C_VARMULT | C_RIGHT | C_RIGHT_LEFT | C_RIGHT_LEFT_LEFT | C_LEFT_LEFT_RIGHT | C_RIGHT_DEEP.
Definition foldable (o:option expr) : bool := is_bin o && negb (is_k KEq o).
Definition both (a b:option expr) : option (num * num) := match cval a, cval b with Some x, Some y => Some (x,y) | _,_ => None end.
Definition const_type : option (carr * num * num) :=
  let n := node in let l := olft n in let r := orgt n in
  match (if is_neg n then (if foldable r then both (olft r) (orgt r) else None) else None) with
  | Some (x,y) => Some (C_NEG, x, y) | None =>
  match (if foldable n then both l r else None) with Some (x,y) => Some (C_SIMPLE, x, y) | None =>
  match (if is_k KMul n && is_k KMul l && is_var (orgt l) then both (olft l) r else None) with Some (x,y) => Some (C_VARMULT, x, y) | None =>
  match (if is_bin n && is_bin r && is_bin (olft r) && ((is_k KAdd n && is_k KAdd r && is_k KAdd (olft r)) || (is_k KMul n && is_k KMul r && is_k KMul (olft r)))
         then both l (olft (olft r)) else None) with Some (x,y) => Some (C_RIGHT_DEEP, x, y) | None =>
  match (if is_bin n && is_bin r && ((is_k KAdd n && is_k KAdd r) || (is_k KMul n && is_k KMul r)) then both l (olft r) else None) with Some (x,y) => Some (C_RIGHT, x, y) | None =>
  match (if is_k KMul n && is_k KMul l && is_k KMul r then both (olft l) (olft r) else None) with Some (x,y) => Some (C_RIGHT_LEFT, x, y) | None =>
  match (if is_k KMul n && is_k KMul l && is_k KMul r && is_k KMul (olft r) then both (olft l) (olft (olft r)) else None) with Some (x,y) => Some (C_RIGHT_LEFT_LEFT, x, y) | None =>
  match (if is_k KMul n && is_k KMul l && is_k KMul (orgt l) && is_k KMul r then both (olft (orgt l)) (olft r) else None) with Some (x,y) => Some (C_LEFT_LEFT_RIGHT, x, y) | None =>
  None end end end end end end end end.
Definition fconst (f:fold) (k:num -> expr) : rres expr := match f with FNum n => ROk (k n) | FInexact => RRaises RInexact | FRaise e => RRaises e end.
Definition get (o:option expr) : rres expr := match o with Some e => ROk e | None => RRaises RAttribute end.
Definition const_apply : rres (expr * path) :=
  match const_type, node with
  | Some (arr, x, y), Some n =>
    let l := lft n in let r := rgt n in
    dor res <- match arr with
      | C_SIMPLE => match n with Bin k _ _ => fconst (fold_bin k x y) Const | _ => RRaises RAssertion end
      | C_NEG => match r with Some (Bin k _ _) => fconst (fold_bin k x y) (fun v => Const (nneg v)) | _ => RRaises RAssertion end
      | C_VARMULT => dor v <- get (orgt l); fconst (fold_bin KMul x y) (fun c => Bin KMul (Const c) v)
      | C_LEFT_LEFT_RIGHT => dor ll <- get (olft l); dor lrr <- get (orgt (orgt l)); dor rr <- get (orgt r);
                             fconst (fold_bin KMul x y) (fun c => Bin KMul ll (Bin KMul (Bin KMul (Const c) lrr) rr))
      | C_RIGHT_LEFT => dor lr <- get (orgt l); dor rr <- get (orgt r);
                        fconst (fold_bin KMul x y) (fun c => Bin KMul (Bin KMul (Const c) lr) rr)
      | C_RIGHT_LEFT_LEFT => dor lr <- get (orgt l); dor rlr <- get (orgt (olft r)); dor rr <- get (orgt r);
                        fconst (fold_bin KMul x y) (fun c => Bin KMul (Bin KMul (Const c) lr) (Bin KMul rlr rr))
      | C_RIGHT => dor rr <- get (orgt r);
                   if is_k KAdd node then fconst (fold_bin KAdd x y) (fun c => Bin KAdd (Const c) rr)
                   else if is_k KMul node then fconst (fold_bin KMul x y) (fun c => Bin KMul (Const c) rr) else RRaises RNotImplemented
      | C_RIGHT_DEEP => dor rlr <- get (orgt (olft r)); dor rr <- get (orgt r);
                   if is_k KAdd node then fconst (fold_bin KAdd x y) (fun c => Bin KAdd (Bin KAdd (Const c) rlr) rr)
                   else if is_k KMul node then fconst (fold_bin KMul x y) (fun c => Bin KMul (Bin KMul (Const c) rlr) rr) else RRaises RNotImplemented
      end;
    ROk (replace root p res, p)
  | _,_ => RRaises RAssertion end.

Definition gte (o:option expr) : option termex := match o with Some e => get_term_ex false e | None => None end.
Definition mk_term (c:num) (v:option N) (e:option num) : rres expr := match make_term c v e with Some t => ROk t | None => RRaises ROther end.

(* ---- distributive factor out ---- *)
Inductive dpos := D_SIMPLE | D_BOTH | D_LEFT | D_LEFT_RIGHT | D_RIGHT_LEFT | D_RIGHT.
Definition df_type : option (dpos * termex * termex) :=
  if negb (is_k KAdd node) then None else
  let l := olft node in let r := orgt node in
  let lt := gte l in let rt := gte r in
  match lt, rt with
  | None, None =>
    let rt := if is_k KAdd r then gte (olft r) else None in
    match rt with Some rt' => if negb (isSome (t_var rt')) then None else
      let lt := if is_k KAdd l then gte (orgt l) else None in
      match lt with Some lt' => if negb (isSome (t_var lt')) then None else Some (D_BOTH, lt', rt') | None => None end
    | None => None end
  | Some lt', Some rt' => Some (D_SIMPLE, lt', rt')
  | Some lt', None =>
    let rt := if is_k KAdd r then gte (olft r) else None in
    match rt with
    | Some rt' => if negb (isSome (t_var rt')) then None else Some (D_RIGHT, lt', rt')
    | None =>
      let rt := if is_k KAdd r && is_k KAdd (olft r) then gte (olft (olft r)) else None in
      match rt with Some rt' => if negb (isSome (t_var rt')) then None else Some (D_RIGHT_LEFT, lt', rt') | None => None end
    end
  | None, Some rt' =>
    let lt := if is_k KAdd l then gte (orgt l) else None in
    match lt with
    | Some lt' => if negb (isSome (t_var lt')) then None else Some (D_LEFT, lt', rt')
    | None =>
      let lt := if is_k KAdd l && is_k KAdd (orgt l) then gte (orgt (orgt l)) else None in
      match lt with Some lt' => if negb (isSome (t_var lt')) then None else Some (D_LEFT_RIGHT, lt', rt') | None => None end
    end
  end.
Definition df_can (constants:bool) : bool :=
  match df_type with
  | None => false
  | Some (_, lt, rt) =>
    if negb constants && negb (isSome (t_var lt)) && negb (isSome (t_var rt)) then false else
    match factor_add_terms_ex lt rt with
    | None => false
    | Some f => negb (num_eqb (best f) one && negb (isSome (f_var f)) && negb (otruthy (f_exp f)))
    end end.
Definition df_apply : rres (expr * path) :=
  match df_type with
  | None => RRaises RAssertion
  | Some (pos, lt, rt) =>
    match factor_add_terms_ex lt rt with
    | None => RRaises RAssertion
    | Some f =>
      dor a <- mk_term (best f) (f_var f) (f_exp f);
      dor b <- mk_term (f_left f) (l_var f) (l_exp f);
      dor c <- mk_term (f_right f) (r_var f) (r_exp f);
      let l := olft node in let r := orgt node in
      let res0 := Bin KMul (Bin KAdd b c) a in
      dor res1 <- (match pos with D_LEFT | D_BOTH => dor k <- get (olft l); ROk (Bin KAdd k res0) | _ => ROk res0 end);
      dor res2 <- (match pos with D_LEFT_RIGHT => dor ll <- get (olft l); dor lrl <- get (olft (orgt l)); ROk (Bin KAdd (Bin KAdd ll lrl) res1) | _ => ROk res1 end);
      dor res3 <- (match pos with D_RIGHT_LEFT => dor rlr <- get (orgt (olft r)); dor rr <- get (orgt r); ROk (Bin KAdd res2 (Bin KAdd rlr rr)) | _ => ROk res2 end);
      dor res4 <- (match pos with D_RIGHT | D_BOTH => dor k <- get (orgt r); ROk (Bin KAdd res3 k) | _ => ROk res3 end);
      ROk (replace root p res4, p)
    end end.

(* ---- distributive multiply ---- *)
Definition dm_can : bool := is_k KMul node && (is_k KAdd (olft node) || is_k KAdd (orgt node)).
Definition dm_apply : rres (expr * path) :=
  match node with
  | Some (Bin KMul l r) =>
    dor abc <- (match l, r with
      | Bin KAdd ll lr, _ => ROk (r, ll, lr)
      | _, Bin KAdd rl rr => ROk (l, rl, rr)
      | _,_ => RRaises RAssertion end);
    let '(a,b,c) := abc in
    let a_var := (is_k KPow (Some a) && is_var (rgt a)) || is_var (lft a) || is_var (Some a) in
    let ab := if a_var && is_const (Some b) then Bin KMul b a else Bin KMul a b in
    let ac := if a_var && is_const (Some c) then Bin KMul c a else Bin KMul a c in
    ROk (replace root p (Bin KAdd ab ac), p)
  | _ => RRaises RAssertion end.

(* ---- multiplicative inverse ---- *)
Definition mi_can : bool := is_k KDiv node.
Definition mi_apply : rres (expr * path) :=
  match node with
  | Some (Bin KDiv l (Un UNeg c)) => ROk (replace root p (Bin KMul l (Bin KDiv (Const (NInt (-1))) c)), p)
  | Some (Bin KDiv l r) => ROk (replace root p (Bin KMul l (Bin KDiv (Const (NInt 1)) r)), p)
  | _ => RRaises RAssertion end.

(* ---- restate subtraction ---- *)
Inductive rsop := S_SUB | S_TERM_CONST | S_NEG_CONST | S_NEG_VAR | S_ADD_C | S_ADD_CV | S_ADD_CVE.
Definition rs_type : option rsop :=
  let r := orgt node in
  if is_k KSub node && (match par with None => true | Some _ => is_k KEq par || is_k KAdd par end) then
    if is_neg r && is_var (orgt r) then Some S_NEG_VAR
    else if (match cval r with Some v => nlt0 v | None => false end) then Some S_NEG_CONST
    else if (is_k KMul r || is_k KDiv r) && is_const (olft r) then Some S_TERM_CONST
    else Some S_SUB
  else if negb (is_k KAdd node) then None
  else if is_const r then (match cval r with Some v => if nlt0 v then Some S_ADD_C else None | None => None end)
  else if is_k KMul r && is_const (olft r) && is_var (orgt r) then
    (match cval (olft r) with Some v => if nlt0 v then Some S_ADD_CV else None | None => None end)
  else if is_k KMul r && is_const (olft r) && is_k KPow (orgt r) then
    (match cval (olft r) with Some v => if nlt0 v then Some S_ADD_CVE else None | None => None end)
  else None.
Definition neg_left_const (e:expr) : expr := match e with Bin k (Const v) r => Bin k (Const (nneg v)) r | _ => e end.
Definition rs_apply : rres (expr * path) :=
  match rs_type, node with
  | Some op, Some (Bin k l r) =>
    dor res <- (match op with
      | S_TERM_CONST => ROk (Bin KAdd l (neg_left_const r))
      | S_NEG_CONST => match r with Const v => ROk (Bin KAdd l (Const (nneg v))) | _ => RRaises RAssertion end
      | S_NEG_VAR => match r with Un UNeg c => ROk (Bin KAdd l c) | _ => RRaises RAssertion end
      | S_SUB => ROk (Bin KAdd l (Un UNeg r))
      | S_ADD_C => match r with Const v => ROk (Bin KSub l (Const (nneg v))) | _ => RRaises RAssertion end
      | S_ADD_CV | S_ADD_CVE => ROk (Bin KSub l (neg_left_const r))
      end);
    ROk (replace root p res, p)
  | _,_ => RRaises RAssertion end.

(* ---- variable multiply ---- *)
Inductive vpos := V_SIMPLE | V_CHAINED | V_LEFT_RIGHT.
Definition vm_type : option (vpos * termex * termex) :=
  if negb (is_k KMul node) then None else
  let l := olft node in let r := orgt node in
  let lt := gte l in let rt := gte r in
  match (if is_k KMul l && is_k KMul r then
           match gte (orgt l), rt with
           | Some cl, Some rt' => if ovar_eqb (t_var cl) (t_var rt') then Some (V_LEFT_RIGHT, cl, rt') else None
           | _,_ => None end else None) with
  | Some x => Some x
  | None =>
    match lt with
    | None => None
    | Some lt' => if negb (isSome (t_var lt')) then None else
      let '(chained, rt2) := match rt with None => if is_k KMul r then (true, gte (olft r)) else (false, None) | Some _ => (false, rt) end in
      match rt2 with
      | None => None
      | Some rt' => if negb (isSome (t_var rt')) then None else
        if negb (ovar_eqb (t_var lt') (t_var rt')) then None else
        Some (if chained then V_CHAINED else V_SIMPLE, lt', rt')
      end end end.
Definition vm_can : bool := isSome vm_type.
Definition vm_apply : rres (expr * path) :=
  match vm_type with
  | None => RRaises RAssertion
  | Some (pos, lt, rt) =>
    let le := match t_exp lt with Some k => k | None => NInt 1 end in
    let re := match t_exp rt with Some k => k | None => NInt 1 end in
    match t_var lt with None => RRaises ROther | Some x =>
    let power := Bin KPow (Var x) (Bin KAdd (Const le) (Const re)) in
    let coef : option (expr + (expr*expr)) :=
      match t_coef lt, t_coef rt with
      | Some a, Some b => Some (inr (Const a, Const b))
      | Some a, None => Some (inl (Const a))
      | None, Some b => Some (inl (Const b))
      | None, None => None end in
    let l := olft node in let r := orgt node in
    dor res <- (match pos with
      | V_CHAINED => dor keep <- get (orgt r);
          let r0 := Bin KMul power keep in
          ROk (match coef with Some (inr (a,b)) => Bin KMul a (Bin KMul b r0) | Some (inl c) => Bin KMul c r0 | None => r0 end)
      | V_LEFT_RIGHT => dor keep <- get (olft l);
          let r0 := match coef with Some (inr (a,b)) => Bin KMul b (Bin KMul a power) | Some (inl c) => Bin KMul c power | None => power end in
          ROk (Bin KMul keep r0)
      | V_SIMPLE => ROk (match coef with Some (inr (a,b)) => Bin KMul (Bin KMul a b) power | Some (inl c) => Bin KMul c power | None => power end)
      end);
    ROk (replace root p res, p)
    end end.

(* ---- balanced move ---- *)
Inductive bmt := B_ADD | B_MUL.
Definition root_side : option dir := match p with d::_ => Some d | [] => None end.
(* every node strictly between the equation and the node is an addition (top-level addend) *)
Fixpoint add_spine (e:expr) (q:path) {struct q} : bool :=
  match q with
  | [] => true
  | d :: q' => match e, d with
               | Bin KAdd l _, DL => add_spine l q'
               | Bin KAdd _ r, DR => add_spine r q'
               | _, _ => false end end.
Definition top_level_addend : bool :=
  match root, p with
  | Bin KEq rl _, DL :: q => add_spine rl q
  | Bin KEq _ rr, DR :: q => add_spine rr q
  | _, _ => false end.
Definition bm_type : option bmt :=
  match root with
  | Bin KEq rl rr =>
    if is_k KEq par then None else
    if is_k KMul par && is_const node then
      (match cval node with Some v => if truthy v then
        (match root_side with Some DL => if contains_add rl then None else Some B_MUL
                            | Some DR => if contains_add rr then None else Some B_MUL | None => None end)
        else None | None => None end)
    else if is_k KAdd par then
      (if (is_const node || isSome (gte node)) && top_level_addend then Some B_ADD else None)
    else None
  | _ => None end.
Definition bm_can : bool := isSome bm_type.
Definition bm_apply : rres (expr * path) :=
  match bm_type, root, node with
  | Some B_MUL, Bin KEq rl rr, Some n => ROk (Bin KEq (Bin KDiv rl n) (Bin KDiv rr n), [])
  | Some B_ADD, Bin KEq _ _, Some n =>
    match parent_path p, sibling root p with
    | Some (q, _), Some sib =>
      match replace root q sib with
      | Bin KEq rl' rr' =>
        (match root_side with
         | Some DL => ROk (Bin KEq rl' (Bin KSub rr' n), [])
         | Some DR => ROk (Bin KEq (Bin KSub rl' n) rr', [])
         | None => RRaises RAssertion end)
      | _ => RRaises RAssertion end
    | _,_ => RRaises RAssertion end
  | _,_,_ => RRaises RAssertion end.

Definition can_apply (r:rule) : bool :=
  match node with None => false | Some _ =>
  match r with
  | RAssoc => assoc_can | RComm pr => comm_can pr | RConst => isSome const_type
  | RFactor c => df_can c | RDistr => dm_can | RInverse => mi_can | RRestate => isSome rs_type
  | RVarMul => vm_can | RBalanced => bm_can end end.
Definition apply (r:rule) : rres (expr * path) :=
  match r with
  | RAssoc => assoc_apply | RComm _ => comm_apply | RConst => const_apply
  | RFactor _ => df_apply | RDistr => dm_apply | RInverse => mi_apply | RRestate => rs_apply
  | RVarMul => vm_apply | RBalanced => bm_apply end.
End DR.

(* BaseRule.find_nodes / find_node: in-order scan with the in-order index (r_index) *)
Definition find_nodes (r:rule) (root:expr) : list (nat * path) :=
  filter (fun ip => can_apply root (snd ip) r) (combine (seq 0 (length (inorder_paths root []))) (inorder_paths root [])).
Definition find_node (r:rule) (root:expr) : option path :=
  match find_nodes r root with (_, p) :: _ => Some p | [] => None end.
