(* SPEC: the documented grammar of parser.py (docstring, lines 85-121) as a relation
     tokens -> tree -> remaining tokens,
   one constructor per production, with the lookahead conditions that make it deterministic.
   Reading of the docstring (DESIGN 3.5): operators are mandatory; an exponent after a run of
   factors belongs to the last factor only; '-' directly before a Constant makes a negative literal;
   factorial of a literal. G_mult/G_multl nest a chain of * and / to the RIGHT, as the
   implementation does (known finding P2); D_mult below is the documented left-to-right reading. *)
From Coq Require Import List NArith ZArith QArith Bool Lia.
From Mathy Require Import Tok Lexer Num Expr Parser.
Import ListNotations.

(* FIRST sets of the documented grammar, written out (the parser's own sets come from Params.v and are
   proved equal to these in proofs/ParserNF.v) *)
Definition first_factor : list tkind := [TFunc; TVar; TOpen; TFact].
Definition first_factor_prefix : list tkind := TConst :: first_factor.
Definition first_unary : list tkind := TMinus :: first_factor_prefix.

(* ---------- the grammar (spec): relation  tokens -> tree -> remaining tokens ---------- *)
Definition hdk (s:st) : tkind := hk s.
Definition in_first_unary (s:st) := check s first_unary = true.
Definition in_first_factor (s:st) := check s first_factor = true.

Inductive G_add : st -> expr -> st -> Prop :=
| GA : forall s e s1 e' s', in_first_unary s -> G_mult s e s1 -> G_addl e s1 e' s' -> G_add s e' s'
with G_addl : expr -> st -> expr -> st -> Prop :=
| GAL_stop : forall e s, hdk s <> TPlus -> hdk s <> TMinus -> G_addl e s e s
| GAL_plus : forall e t s1 r s2 e' s', tk t = TPlus -> in_first_unary s1 -> G_mult s1 r s2 -> G_addl (Bin KAdd e r) s2 e' s' -> G_addl e (t::s1) e' s'
| GAL_minus : forall e t s1 r s2 e' s', tk t = TMinus -> in_first_unary s1 -> G_mult s1 r s2 -> G_addl (Bin KSub e r) s2 e' s' -> G_addl e (t::s1) e' s'
with G_mult : st -> expr -> st -> Prop :=
| GM : forall s e s1 e' s', in_first_unary s -> G_exp s e s1 -> G_multl e s1 e' s' -> G_mult s e' s'
with G_multl : expr -> st -> expr -> st -> Prop :=
| GML_stop : forall e s, hdk s <> TMul -> hdk s <> TDiv -> G_multl e s e s
| GML_mul : forall e t s1 r s2 e' s', tk t = TMul -> in_first_unary s1 -> G_mult s1 r s2 -> G_multl (Bin KMul e r) s2 e' s' -> G_multl e (t::s1) e' s'
| GML_div : forall e t s1 r s2 e' s', tk t = TDiv -> in_first_unary s1 -> G_mult s1 r s2 -> G_multl (Bin KDiv e r) s2 e' s' -> G_multl e (t::s1) e' s'
with G_exp : st -> expr -> st -> Prop :=
| GE_plain : forall s e s', in_first_unary s -> G_unary s e s' -> hdk s' <> TExp -> G_exp s e s'
| GE_pow : forall s e t s1 r s', in_first_unary s -> G_unary s e (t::s1) -> tk t = TExp -> in_first_unary s1 -> G_unary s1 r s' -> G_exp s (Bin KPow e r) s'
with G_unary : st -> expr -> st -> Prop :=
| GU_pos : forall s e s', hdk s <> TMinus -> G_prefix false s e s' -> G_unary s e s'
| GU_neg : forall t s1 e s', tk t = TMinus -> G_prefix true s1 e s' -> G_unary (t::s1) e s'
with G_prefix : bool -> st -> expr -> st -> Prop :=      (* bool: a '-' was just read *)
| GP_const : forall neg t s1 v, tk t = TConst -> coerce (tv t) = Ok v -> ~ in_first_factor s1 ->
             G_prefix neg (t::s1) (Const (if neg then nneg v else v)) s1
| GP_fact : forall neg t b s2 v, tk t = TConst -> coerce (tv t) = Ok v -> tk b = TFact ->
             G_prefix neg (t::b::s2) (Un UFact (Const (if neg then nneg v else v))) s2
| GP_cf : forall neg t s1 v f s', tk t = TConst -> coerce (tv t) = Ok v -> in_first_factor s1 -> hdk s1 <> TFact -> G_factors s1 f s' ->
             G_prefix neg (t::s1) (Bin KMul (Const (if neg then nneg v else v)) f) s'
| GP_f : forall neg s f s', hdk s <> TConst -> in_first_factor s -> G_factors s f s' -> G_prefix neg s (if neg then Un UNeg f else f) s'
with G_factors : st -> expr -> st -> Prop :=
| GF_plain : forall s fs s' e, G_atoms s fs s' -> hdk s' <> TExp -> prod fs = Some e -> G_factors s e s'
| GF_pow : forall s fs t s1 r s' e, G_atoms s fs (t::s1) -> tk t = TExp -> in_first_unary s1 -> G_unary s1 r s' -> prod (with_pow fs r) = Some e -> G_factors s e s'
with G_atoms : st -> list expr -> st -> Prop :=
| GS_one : forall s a s', G_atom s a s' -> ~ in_first_factor s' -> G_atoms s [a] s'
| GS_more : forall s a s1 fs s', G_atom s a s1 -> in_first_factor s1 -> G_atoms s1 fs s' -> G_atoms s (a::fs) s'
with G_atom : st -> expr -> st -> Prop :=
| GT_var : forall t s1, tk t = TVar -> G_atom (t::s1) (Var (varname (t::s1))) s1
| GT_fun : forall t o s1 e c s', tk t = TFunc -> tk o = TOpen -> G_add s1 e (c::s') -> tk c = TClose -> G_atom (t::o::s1) (Un USgn e) s'
| GT_par : forall o s1 e c s', tk o = TOpen -> G_add s1 e (c::s') -> tk c = TClose -> G_atom (o::s1) e s'.

Scheme G_add_i := Induction for G_add Sort Prop
with G_addl_i := Induction for G_addl Sort Prop
with G_mult_i := Induction for G_mult Sort Prop
with G_multl_i := Induction for G_multl Sort Prop
with G_exp_i := Induction for G_exp Sort Prop
with G_unary_i := Induction for G_unary Sort Prop
with G_prefix_i := Induction for G_prefix Sort Prop
with G_factors_i := Induction for G_factors Sort Prop
with G_atoms_i := Induction for G_atoms Sort Prop
with G_atom_i := Induction for G_atom Sort Prop.
Combined Scheme G_mutind from G_add_i, G_addl_i, G_mult_i, G_multl_i, G_exp_i, G_unary_i, G_prefix_i, G_factors_i, G_atoms_i, G_atom_i.

(* ---------- top level: EqualExp and the whole input ---------- *)
Inductive G_eql : expr -> st -> expr -> st -> Prop :=
| GQ_stop : forall e s, hdk s <> TEqual -> G_eql e s e s
| GQ_eq : forall e t s1 r s2 e' s', tk t = TEqual -> in_first_unary s1 -> G_add s1 r s2 -> G_eql (Bin KEq e r) s2 e' s' -> G_eql e (t::s1) e' s'.
(* the token list derives the tree: an EqualExp followed by exactly the end marker *)
Definition Derives (ts:st) (e:expr) : Prop :=
  exists e1 s1 s', in_first_unary ts /\ G_add ts e1 s1 /\ G_eql e1 s1 e s' /\ hdk s' = TEOF /\ s' <> [].
