(* Model of mathy_core/problems.py: the problem generators against an ORACLE STREAM OF DRAWS.
   Every use of the random module consumes one integer draw with a stated range (randrange(100), randint(a, b), the 20-bit
   numerator of random(), the 10-bit numerator of uniform(0, 1), the positions of shuffle / sample / choice); a generator is a
   function of the stream, so a theorem "for every stream" covers every seed of every generator state.
   The generators build STRUCTURED problem text (terms, groups, operators) and `render` turns it into characters; the
   correspondence check compares the rendered characters with the implementation's string for every sampled stream.
   shuffle(x) is modelled as "sort, then Fisher-Yates with the drawn positions" and sample as "draw a position, remove, repeat":
   both reach every outcome the library functions can produce (the harness installs exactly these as the random source).
   Outcomes: POk value rest-of-stream | PRaise (ValueError of the implementation: infeasible request, empty randint range)
           | PBad (the stream is not a legal draw sequence: a draw out of its range, or too few draws)
           | PRange (a parameter outside the documented range, for which the text is not a problem at all: no blockers,
                     more than 4 (3) variables for the binomial generators, fewer than 2 terms).
   Repairs in: G1a (get_rand_vars samples without replacement), G1b (default max_terms 25 - a default, not modelled).
   No proofs in this file. *)
From Coq Require Import List NArith ZArith QArith Qround Bool.
From Mathy Require Import Params Printer.
Import ListNotations.
Open Scope Z_scope.

(* ---------- structured problem text ---------- *)
Record numtext := { n_neg : bool; n_int : N; n_frac : option N }.     (* [-]ddd[.d] *)
Record pvar := { v_common : bool; v_idx : nat }.                      (* a letter of one of the two alphabets *)
Inductive pterm := PNum (c:numtext) | PVar (c:option numtext) (v:pvar) (p:option N).
Inductive opc := OPlus | OMinus | OTimes.
Definition chain (A:Type) : Type := (A * list (opc * A))%type.
Inductive pitem := ITerm (t:pterm) | IGroup (g:chain pterm) | IGroup2 (a b:chain pterm).
Definition problem := chain pitem.

Definition letter (v:pvar) : N := nth (v_idx v) (if v_common v then prob_common_variables else prob_variables) 120%N.
Definition r_num (c:numtext) : list N :=
  (if n_neg c then [45%N] else []) ++ show_nat (Z.of_N (n_int c)) ++ match n_frac c with Some d => [46%N; (48 + d mod 10)%N] | None => [] end.
Definition r_pow (p:option N) : list N := match p with Some k => 94%N :: show_nat (Z.of_N k) | None => [] end.
Definition r_term (t:pterm) : list N :=
  match t with
  | PNum c => r_num c
  | PVar c v p => (match c with Some c => r_num c | None => [] end) ++ letter v :: r_pow p end.
Definition r_op (o:opc) : list N := match o with OPlus => [32; 43; 32] | OMinus => [32; 45; 32] | OTimes => [32; 42; 32] end%N.
Definition r_chain {A} (f:A -> list N) (c:chain A) : list N := f (fst c) ++ flat_map (fun x => r_op (fst x) ++ f (snd x)) (snd c).
Definition r_group (g:chain pterm) : list N := 40%N :: r_chain r_term g ++ [41%N].
Definition r_item (i:pitem) : list N :=
  match i with ITerm t => r_term t | IGroup g => r_group g | IGroup2 a b => r_group a ++ r_group b end.
Definition render (p:problem) : list N := r_chain r_item p.

(* ---------- the draw monad ---------- *)
Inductive pres (A:Type) := POk (a:A) (rest:list Z) | PRaise | PBad | PRange.
Arguments POk {A}. Arguments PRaise {A}. Arguments PBad {A}. Arguments PRange {A}.
Definition D (A:Type) := list Z -> pres A.
Definition ret {A} (a:A) : D A := fun s => POk a s.
Definition bindD {A B} (m:D A) (f:A -> D B) : D B := fun s => match m s with POk a r => f a r | PRaise => PRaise | PBad => PBad | PRange => PRange end.
Notation "'dlet' x := m 'in' k" := (bindD m (fun x => k)) (at level 200, x pattern, m at level 100, k at level 200, right associativity).
Definition raise {A} : D A := fun _ => PRaise.
Definition out_of_range {A} : D A := fun _ => PRange.
(* one draw with its range; an empty range is randint's ValueError *)
Definition draw (lo hi:Z) : D Z := fun s =>
  if hi <? lo then PRaise else
  match s with [] => PBad | z :: r => if (lo <=? z) && (z <=? hi) then POk z r else PBad end.

Fixpoint repeatD {A} (n:nat) (m:D A) : D (list A) :=
  match n with O => ret [] | S k => dlet x := m in dlet xs := repeatD k m in ret (x :: xs) end.

(* ---------- small pieces ---------- *)
Definition pct (z:Z) : Q := inject_Z z.
Definition rand_bool (pct:Q) : D bool := dlet d := draw 0 99 in ret (match Qcompare (inject_Z d) pct with Lt => true | _ => false end).
Definition rand_var (common:bool) : D pvar :=
  let pool := if common then prob_common_variables else prob_variables in
  dlet i := draw 0 (Z.of_nat (length pool) - 1) in ret {| v_common := common; v_idx := Z.to_nat i |}.
Definition int_text (z:Z) : numtext := {| n_neg := z <? 0; n_int := Z.to_N (Z.abs z); n_frac := None |}.
(* truncate(random() * m, 1) for random() = r / 2^20: "%.1f" rounds the exact product to the nearest tenth, ties to even *)
Definition round_half_even (n d:Z) : Z :=
  let fl := n / d in let rem := n mod d in
  if 2 * rem <? d then fl else if d <? 2 * rem then fl + 1 else if Z.even fl then fl else fl + 1.
Definition float_text (r m:Z) : numtext :=
  let t := round_half_even (r * Z.abs m * 10) 1048576 in
  {| n_neg := m <? 0; n_int := Z.to_N (t / 10); n_frac := Some (Z.to_N (t mod 10)) |}.
Definition rand_number (pretty:bool) : D numtext :=
  if pretty then dlet z := draw 1 12 in ret (int_text z) else
  dlet b1 := rand_bool (pct 66) in
  if b1 then
    dlet b2 := rand_bool (pct 50) in
    if b2 then dlet z := draw (-10000) 10000 in ret (int_text z) else dlet z := draw 1 prob_max_const in ret (int_text z)
  else
    dlet b3 := rand_bool (pct 10) in
    if b3 then dlet r := draw 0 1048575 in ret (float_text r 10000) else
    dlet b4 := rand_bool (pct 10) in
    if b4 then dlet r := draw 0 1048575 in ret (float_text r (-10000)) else
    dlet r := draw 0 1048575 in ret (float_text r prob_max_const).
Definition maybe_number (pretty:bool) (pct:Q) : D (option numtext) :=
  dlet b := rand_bool pct in if b then dlet n := rand_number pretty in ret (Some n) else ret None.
Definition maybe_power (pct:Q) (max_power:Z) : D (option N) :=
  dlet b := rand_bool pct in if b then dlet k := draw 2 max_power in ret (Some (Z.to_N k)) else ret None.
Definition rand_op : D opc := dlet i := draw 0 2 in ret (match i with 0 => OPlus | 1 => OMinus | _ => OTimes end).

(* sample without replacement: draw a position, remove it *)
Fixpoint remove_nth {A} (i:nat) (l:list A) : list A := match l, i with [] , _ => [] | _ :: r, O => r | x :: r, S j => x :: remove_nth j r end.
Fixpoint sample {A} (dflt:A) (k:nat) (pool:list A) : D (list A) :=
  match k with O => ret [] | S k' =>
    dlet i := draw 0 (Z.of_nat (length pool) - 1) in
    dlet rest := sample dflt k' (remove_nth (Z.to_nat i) pool) in
    ret (nth (Z.to_nat i) pool dflt :: rest) end.
Definition pvar_eqb (a b:pvar) : bool := N.eqb (letter a) (letter b).
Definition get_rand_vars (n:Z) (exclude:list pvar) (common:bool) : D (list pvar) :=
  if 25 <? n then raise else
  let pool := if common then prob_common_variables else prob_variables in
  let all := map (fun i => {| v_common := common; v_idx := i |}) (seq 0 (length pool)) in
  let available := filter (fun v => negb (existsb (pvar_eqb v) exclude)) all in
  if (n <? 0) || (Z.of_nat (length available) <? n) then raise else
  sample {| v_common := common; v_idx := 0 |} (Z.to_nat n) available.

(* shuffle: sort (by the rendered text), then Fisher-Yates from the top *)
Fixpoint str_leb (a b:list N) : bool :=
  match a, b with [], _ => true | _ :: _, [] => false | x :: a', y :: b' => if (x <? y)%N then true else if (y <? x)%N then false else str_leb a' b' end.
Fixpoint insert_by {A} (key:A -> list N) (x:A) (l:list A) : list A :=
  match l with [] => [x] | y :: r => if str_leb (key x) (key y) then x :: l else y :: insert_by key x r end.
Definition sort_by {A} (key:A -> list N) (l:list A) : list A := fold_right (insert_by key) [] l.
Fixpoint set_nth {A} (i:nat) (x:A) (l:list A) : list A := match l, i with [], _ => [] | _ :: r, O => x :: r | y :: r, S j => y :: set_nth j x r end.
Definition swap {A} (d:A) (i j:nat) (l:list A) : list A := set_nth i (nth j l d) (set_nth j (nth i l d) l).
Fixpoint fisher_yates {A} (d:A) (i:nat) (l:list A) : D (list A) :=
  match i with O => ret l | S i' => dlet j := draw 0 (Z.of_nat i) in fisher_yates d i' (swap d i (Z.to_nat j) l) end.
Definition shuffle {A} (d:A) (key:A -> list N) (l:list A) : D (list A) := fisher_yates d (length l - 1) (sort_by key l).

(* split_in_two_random: uniform(0, 1) = k / 1024 *)
Definition split_in_two_random (value:Z) : D (Z * Z) :=
  dlet k := draw 0 1024 in
  let left := Z.quot (k * value) 1024 in let right := value - left in
  ret (Z.min left right, Z.max left right).

(* pop() takes from the END of the list *)
Definition pop_last {A} (l:list A) : option (A * list A) := match rev l with [] => None | x :: r => Some (x, rev r) end.
(* n times: pop a variable, build  [number]var[^k] *)
Fixpoint noise_terms (pretty:bool) (pc:Q) (n:nat) (vars:list pvar) : D (list pterm * list pvar) :=
  match n with O => ret ([], vars) | S k =>
    match pop_last vars with
    | None => out_of_range
    | Some (cur, vars') =>
      dlet c := maybe_number pretty (pct 80) in dlet p := maybe_power pc 4 in
      dlet (ts, vs) := noise_terms pretty pc k vars' in
      ret (PVar c cur p :: ts, vs) end end.
Definition plus_chain {A} (l:list A) : option (chain A) := match l with [] => None | x :: r => Some (x, map (fun y => (OPlus, y)) r) end.

(* ---------- the generators ---------- *)
Definition gen_combine_terms_in_place (pretty:bool) (min_terms max_terms:Z) (easy powers:bool) : D (problem * Z) :=
  dlet total := draw min_terms max_terms in
  dlet var := rand_var false in
  let pc : Q := if powers then pct 80 else pct 0 in
  dlet power := maybe_power pc 4 in
  dlet c1 := maybe_number pretty (pct 80) in dlet c2 := maybe_number pretty (pct 80) in
  let focus : chain pterm := (PVar c1 var power, [(OPlus, PVar c2 var power)]) in
  let n := total - 2 in
  dlet noise := get_rand_vars n [var] false in
  dlet (right_num, left_num) := split_in_two_random n in
  dlet (lt, noise1) := noise_terms pretty pc (Z.to_nat left_num) noise in
  dlet (rt, _) := noise_terms pretty pc (Z.to_nat right_num) noise1 in
  let focus_items := if easy then [IGroup focus] else [ITerm (fst focus); ITerm (PVar c2 var power)] in
  match plus_chain (map ITerm lt ++ focus_items ++ map ITerm rt) with
  | Some p => ret (p, total) | None => out_of_range end.

Definition gen_commute_haystack (pretty:bool) (min_terms max_terms commute_blockers:Z) (easy powers:bool) : D (problem * Z) :=
  if commute_blockers <? 1 then out_of_range else
  dlet total := draw min_terms max_terms in
  let n := Z.max (total - 2) commute_blockers in
  dlet var := rand_var false in
  dlet noise := get_rand_vars n [var] false in
  let pc : Q := if powers then pct 80 else pct 0 in
  dlet power := maybe_power pc 4 in
  dlet (blockers, noise1) := noise_terms pretty pc (Z.to_nat commute_blockers) noise in
  dlet c1 := maybe_number pretty (pct 80) in dlet c2 := maybe_number pretty (pct 80) in
  let focus_terms := PVar c1 var power :: blockers ++ [PVar c2 var power] in
  dlet grouped := rand_bool (if easy then pct 50 else pct 10) in
  dlet (right_num, left_num) := split_in_two_random (n - commute_blockers) in
  dlet (lt, noise2) := noise_terms pretty pc (Z.to_nat left_num) noise1 in
  dlet (rt, _) := noise_terms pretty pc (Z.to_nat right_num) noise2 in
  let focus_items := if grouped then match plus_chain focus_terms with Some g => [IGroup g] | None => [] end else map ITerm focus_terms in
  match plus_chain (map ITerm lt ++ focus_items ++ map ITerm rt) with
  | Some p => ret (p, Z.of_nat (length lt) + 1 + Z.of_nat (length rt)) | None => out_of_range end.

Fixpoint blocker_terms (pretty:bool) (vars:list pvar) : D (list pterm) :=
  match vars with [] => ret [] | v :: r => dlet c := maybe_number pretty (pct 80) in dlet ts := blocker_terms pretty r in ret (PVar c v None :: ts) end.
Definition get_blocker (pretty:bool) (n:Z) (exclude:list pvar) : D (list pterm) :=
  dlet vars := get_rand_vars n exclude false in blocker_terms pretty vars.
Definition gen_move_around_blockers_one (pretty:bool) (number_blockers:Z) (powers_probability:Q) : D (problem * Z) :=
  if number_blockers <? 1 then out_of_range else
  dlet var := rand_var false in
  dlet exp := maybe_power (powers_probability * pct 100)%Q 4 in
  dlet blockers := get_blocker pretty number_blockers [var] in
  dlet c1 := maybe_number pretty (pct 80) in dlet c2 := maybe_number pretty (pct 80) in
  match plus_chain (map ITerm (PVar c1 var exp :: blockers ++ [PVar c2 var exp])) with
  | Some p => ret (p, 2 + number_blockers) | None => out_of_range end.
Definition gen_move_around_blockers_two (pretty:bool) (number_blockers:Z) (powers_probability:Q) : D (problem * Z) :=
  if number_blockers <? 1 then out_of_range else
  dlet vars := get_rand_vars 3 [] false in
  match vars with
  | [one; two; three] =>
    let pc := (powers_probability * pct 100)%Q in
    dlet e1 := maybe_power pc 4 in dlet e2 := maybe_power pc 4 in dlet e3 := maybe_power pc 4 in
    dlet c1 := maybe_number pretty (pct 80) in dlet c2 := maybe_number pretty (pct 80) in
    dlet blockers := get_blocker pretty number_blockers vars in
    dlet c3 := maybe_number pretty (pct 80) in dlet c4 := maybe_number pretty (pct 80) in
    match plus_chain (map ITerm (PVar c1 one e1 :: PVar c2 two e2 :: blockers ++ [PVar c3 two e2; PVar c4 three e3])) with
    | Some p => ret (p, 4 + number_blockers) | None => out_of_range end
  | _ => out_of_range end.

(* binomials: a slot is a variable part (variable, power) or empty; a coefficient is attached unless simple_variables keeps it bare *)
Definition slot := option (pvar * option N).
Fixpoint fill_vars (powers:bool) (ppc2:Q) (vars:list pvar) : D (list slot) :=
  match vars with [] => ret [] | v :: r =>
    dlet p := (if powers then maybe_power ppc2 4 else ret None) in dlet rest := fill_vars powers ppc2 r in ret (Some (v, p) :: rest) end.
Fixpoint pad_slots (n:nat) (l:list slot) : list slot := match n with O => [] | S k => match l with [] => None :: pad_slots k [] | x :: r => x :: pad_slots k r end end.
Definition attach_one (pretty simple:bool) (s:slot) : D pterm :=
  match s with
  | Some (v, p) => if simple then ret (PVar None v p) else (dlet c := rand_number pretty in ret (PVar (Some c) v p))
  | None => dlet c := rand_number pretty in ret (PNum c) end.
Fixpoint attach (pretty simple:bool) (l:list slot) : D (list pterm) :=
  match l with [] => ret [] | s :: r => dlet t := attach_one pretty simple s in dlet ts := attach pretty simple r in ret (t :: ts) end.
Definition binomial_slots (nslots:nat) (min_vars max_vars:Z) (powers_probability like_variables_probability:Q) : D (list slot) :=
  let ppc := (powers_probability * pct 100)%Q in
  dlet powers := rand_bool ppc in
  dlet like := rand_bool (like_variables_probability * pct 100)%Q in
  dlet num_vars := draw min_vars max_vars in
  if (num_vars <? 0) || (Z.of_nat nslots <? num_vars) then out_of_range else
  if like then
    dlet var := rand_var false in
    dlet p := (if powers then maybe_power (ppc * pct 2)%Q 4 else ret None) in
    ret (pad_slots nslots (repeat (Some (var, p)) (Z.to_nat num_vars)))
  else
    dlet vars := get_rand_vars num_vars [] false in
    dlet filled := fill_vars powers (ppc * pct 2)%Q vars in
    ret (pad_slots nslots filled).
Definition dterm : pterm := PNum (int_text 0).
Definition gen_binomial_times_binomial (pretty:bool) (min_vars max_vars:Z) (simple:bool) (pp lp:Q) : D (problem * Z) :=
  dlet slots := binomial_slots 4 min_vars max_vars pp lp in
  dlet terms := attach pretty simple slots in
  dlet first := shuffle dterm r_term [nth 0 terms dterm; nth 2 terms dterm] in
  dlet second := shuffle dterm r_term [nth 1 terms dterm; nth 3 terms dterm] in
  ret ((IGroup2 (nth 0 first dterm, [(OPlus, nth 1 first dterm)]) (nth 0 second dterm, [(OPlus, nth 1 second dterm)]), []), 6).
Definition gen_binomial_times_monomial (pretty:bool) (min_vars max_vars:Z) (simple:bool) (pp lp:Q) : D (problem * Z) :=
  dlet slots := binomial_slots 3 min_vars max_vars pp lp in
  dlet terms := attach pretty simple slots in
  dlet first := shuffle dterm r_term [nth 0 terms dterm; nth 2 terms dterm] in
  ret ((IGroup (nth 0 first dterm, [(OPlus, nth 1 first dterm)]), [(OTimes, ITerm (nth 1 terms dterm))]), 3).

(* ---------- gen_simplify_multiple_terms ---------- *)
Definition tmpl := (pvar * option N)%type.
Inductive opmode := OpRand | OpChoice (l:list opc) | OpFixed (o:opc).
Definition get_op (m:opmode) : D opc :=
  match m with
  | OpRand => rand_op
  | OpChoice l => dlet i := draw 0 (Z.of_nat (length l) - 1) in ret (nth (Z.to_nat i) l OPlus)
  | OpFixed o => ret o end.
Fixpoint adorn (ppc:Q) (l:list tmpl) : D (list tmpl) :=
  match l with [] => ret [] | (v, _) :: r => dlet p := maybe_power ppc 4 in dlet rest := adorn ppc r in ret ((v, p) :: rest) end.
Fixpoint cycle_take {A} (n:nat) (base cur:list A) : list A :=     (* (l * k)[0:n] *)
  match n with O => [] | S k => match cur with x :: r => x :: cycle_take k base r | [] => match base with x :: r => x :: cycle_take k base r | [] => [] end end end.
(* n times: pop a variable, give it a power; returned in the order they were produced *)
Fixpoint noise_tmpls (ppc:Q) (n:nat) (vars:list pvar) : D (list tmpl * list pvar) :=
  match n with O => ret ([], vars) | S k =>
    match pop_last vars with
    | None => out_of_range
    | Some (cur, vars') => dlet p := maybe_power ppc 4 in dlet (ts, vs) := noise_tmpls ppc k vars' in ret ((cur, p) :: ts, vs) end end.
Definition tmpl_text (t:tmpl) : list N := letter (fst t) :: r_pow (snd t).
(* the terms after the root: (operator, term) in order *)
Fixpoint other_terms (pretty optional_var:bool) (ovp:Q) (m:opmode) (l:list tmpl) : D (list (opc * pterm)) :=
  match l with [] => ret [] | (v, p) :: r =>
    dlet keep := (if optional_var then rand_bool ovp else ret true) in
    dlet t := (if keep then (dlet c := maybe_number pretty (pct 80) in ret (PVar c v p)) else (dlet c := rand_number pretty in ret (PNum c))) in
    dlet o := get_op m in
    dlet rest := other_terms pretty optional_var ovp m r in ret ((o, t) :: rest) end.
(* put items gs..ge (0-based, root = 0) of the chain into one group *)
Definition group_chain (c:chain pterm) (gs ge:nat) : option problem :=
  let '(root, rest) := c in
  let items := root :: map snd rest in
  let ops := map fst rest in                                  (* ops[i] precedes items[i+1] *)
  let before := firstn gs items in
  let inside := firstn (S ge - gs) (skipn gs items) in
  let after := skipn (S ge) items in
  let ops_in := firstn (ge - gs) (skipn gs ops) in
  match inside with
  | [] => None
  | g0 :: gr =>
    let grp := IGroup (g0, combine ops_in gr) in
    let all := map ITerm before ++ grp :: map ITerm after in
    let top_ops := firstn gs ops ++ skipn ge ops in          (* the operator before the group, then those after it *)
    match all with
    | [] => None
    | a0 :: ar => Some (a0, combine top_ops ar) end end.
Definition gen_simplify_multiple_terms (pretty:bool) (num_terms:Z) (optional_var:bool) (m:opmode) (inner_terms_scaling pp ovp np shp svp gnp:Q)
    (noise_terms:option Z) : D (problem * Z) :=
  let ppc := (pp * pct 100)%Q in
  dlet use_grouping := rand_bool (gnp * pct 100)%Q in
  let num_like0 := Z.max 2 (Qfloor (inject_Z num_terms * inner_terms_scaling)) in
  dlet use_noise := rand_bool (np * pct 100)%Q in
  if num_terms <=? 1 then raise else
  let num_like := if num_terms =? 2 then 1 else num_like0 in
  dlet like_vars := get_rand_vars num_like [] false in
  let t0 : list tmpl := map (fun v => (v, None)) like_vars in
  dlet share := rand_bool (svp * pct 100)%Q in
  dlet st := (if share then
                if (1 <? num_like) && negb use_noise then
                  dlet p := maybe_power (pct 100) 4 in
                  match t0 with a :: _ :: r => ret (a :: (fst a, p) :: nil, r, None) | _ => out_of_range end
                else
                  dlet p := maybe_power (pct 100) 4 in
                  match t0 with a :: _ => ret (nil, t0, Some (fst a, p)) | [] => out_of_range end
              else ret (nil, t0, None)) in
  let '(fixed, to_adorn, shared) := st in
  dlet adorned := adorn ppc to_adorn in
  let base := fixed ++ adorned in
  let t1 := cycle_take (Z.to_nat num_terms) base base ++ match shared with Some s => [s] | None => [] end in
  dlet t2c := (if use_noise then
                 let n0 := Z.min 5 (Z.max 1 (num_terms / 3)) in
                 let n := match noise_terms with Some k => k | None => n0 end in
                 dlet noise := get_rand_vars n like_vars false in
                 dlet (lo, hi) := split_in_two_random n in
                 dlet (front, noise1) := noise_tmpls ppc (Z.to_nat lo) noise in
                 dlet (back, _) := noise_tmpls ppc (Z.to_nat hi) noise1 in
                 ret (rev front ++ t1 ++ back, num_terms + 1)
               else ret (t1, num_terms)) in
  let '(t2, complexity) := t2c in
  dlet do_shuffle := rand_bool (shp * pct 100)%Q in
  dlet t3 := (if do_shuffle then shuffle ({| v_common := false; v_idx := 0 |}, None) tmpl_text t2 else ret t2) in
  dlet grp := (if use_grouping then
                 let half := Z.max (Z.of_nat (length t3) / 2) 1 in
                 dlet gs := draw 0 (half - 1) in dlet ge := draw half (Z.of_nat (length t3) - 1) in ret (Some (Z.to_nat gs, Z.to_nat ge))
               else ret None) in
  match t3 with
  | [] => out_of_range
  | (rv, rp) :: others =>
    dlet rc := maybe_number pretty (pct 80) in
    dlet rest := other_terms pretty optional_var (ovp * pct 100)%Q m others in
    let c : chain pterm := (PVar rc rv rp, rest) in
    match grp with
    | None => ret ((ITerm (fst c), map (fun x => (fst x, ITerm (snd x))) (snd c)), complexity)
    | Some (gs, ge) => match group_chain c gs ge with Some p => ret (p, complexity) | None => out_of_range end
    end
  end.
