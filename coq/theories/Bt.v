(* Model of tree.py at the level of shapes: binary trees in which any node may lack either child,
   traversals with a stateful visitor and STOP, the defining orders, look-ups built on them
   (expressions.py: to_list, find_id, find_type), rotation as a function on trees, paths.
   The pointer-level counterpart (parent links, the seven writes of rotate) is proofs/HeapRotate.v.
   No proofs in this file. *)
From Coq Require Import List Arith Bool.
Import ListNotations.

Inductive bt (A:Type) := E | T (l:bt A) (a:A) (r:bt A).
Arguments E {A}. Arguments T {A}.

Section V.
Context {A S:Type}.
(* a visitor: user state, node payload, depth -> new state and "returned STOP?" *)
Variable f : S -> A -> nat -> S * bool.

(* BinaryTreeNode.visit_preorder / visit_inorder / visit_postorder ; result = (state, STOP?) *)
Fixpoint visit_pre (t:bt A) (d:nat) (s:S) : S * bool :=
  match t with E => (s,false) | T l a r =>
    let (s1,st) := f s a d in if st then (s1,true) else
    let (s2,st) := visit_pre l (d+1) s1 in if st then (s2,true) else
    visit_pre r (d+1) s2 end.
Fixpoint visit_in (t:bt A) (d:nat) (s:S) : S * bool :=
  match t with E => (s,false) | T l a r =>
    let (s1,st) := visit_in l (d+1) s in if st then (s1,true) else
    let (s2,st) := f s1 a d in if st then (s2,true) else
    visit_in r (d+1) s2 end.
Fixpoint visit_post (t:bt A) (d:nat) (s:S) : S * bool :=
  match t with E => (s,false) | T l a r =>
    let (s1,st) := visit_post l (d+1) s in if st then (s1,true) else
    let (s2,st) := visit_post r (d+1) s1 in if st then (s2,true) else
    f s2 a d end.

(* run the visitor over a list of (payload, depth), stopping after the first STOP *)
Fixpoint run (l:list (A*nat)) (s:S) : S * bool :=
  match l with [] => (s,false) | (a,d)::r => let (s1,st) := f s a d in if st then (s1,true) else run r s1 end.
End V.

(* SPEC: the defining orders, with depths *)
Fixpoint pre {A} (t:bt A) (d:nat) : list (A*nat) := match t with E => [] | T l a r => (a,d) :: pre l (d+1) ++ pre r (d+1) end.
Fixpoint ino {A} (t:bt A) (d:nat) : list (A*nat) := match t with E => [] | T l a r => ino l (d+1) ++ (a,d) :: ino r (d+1) end.
Fixpoint post {A} (t:bt A) (d:nat) : list (A*nat) := match t with E => [] | T l a r => post l (d+1) ++ post r (d+1) ++ [(a,d)] end.
Definition inorder {A} (t:bt A) : list A := map fst (ino t 0).

(* the calls actually made: log every (payload, depth) the visitor sees; stop when `stop` says so *)
Definition logger {A} (stop:A -> nat -> bool) : list (A*nat) -> A -> nat -> list (A*nat) * bool :=
  fun log a d => (log ++ [(a,d)], stop a d).
Fixpoint upto {A} (stop:A -> nat -> bool) (l:list (A*nat)) : list (A*nat) :=
  match l with [] => [] | (a,d)::r => if stop a d then [(a,d)] else (a,d) :: upto stop r end.

(* expressions.py look-ups, written as the code writes them: visitors over visit_inorder / the chosen order *)
Inductive order := OPre | OIn | OPost.
Definition to_list {A} (o:order) (t:bt A) : list A :=
  let f := fun (acc:list A) a (_:nat) => (acc ++ [a], false) in
  fst (match o with OPre => visit_pre f t 0 [] | OIn => visit_in f t 0 [] | OPost => visit_post f t 0 [] end).
Definition find_id {A} (eqb:A -> bool) (t:bt A) : option A :=
  fst (visit_in (fun (acc:option A) a (_:nat) => if eqb a then (Some a, true) else (acc, false)) t 0 None).
Definition find_type {A} (is_type:A -> bool) (t:bt A) : list A :=
  fst (visit_in (fun (acc:list A) a (_:nat) => (if is_type a then acc ++ [a] else acc, false)) t 0 []).

(* paths and rotation *)
Inductive side := SL | SR.
Fixpoint bsub {A} (t:bt A) (p:list side) {struct p} : bt A :=
  match p with [] => t | d :: q => match t with E => E | T l _ r => bsub (match d with SL => l | SR => r end) q end end.
Fixpoint bput {A} (t:bt A) (p:list side) (n:bt A) {struct p} : bt A :=
  match p with [] => n | d :: q =>
    match t with E => E | T l a r => match d with SL => T (bput l q n) a r | SR => T l a (bput r q n) end end end.
(* rotate the node that is the `d` child of the (sub)tree's root above that root *)
Definition rot_at {A} (t:bt A) (d:side) : bt A :=
  match t, d with
  | T (T a n b) p c, SL => T a n (T b p c)
  | T a p (T b n c), SR => T (T a p b) n c
  | _, _ => t end.
(* BinaryTreeNode.rotate of the node at path p (p = path of the parent ++ [side]); the root is left unchanged *)
Definition rotate_tree {A} (t:bt A) (p:list side) : bt A :=
  match rev p with
  | [] => t
  | d :: rq => let q := rev rq in bput t q (rot_at (bsub t q) d) end.
Fixpoint bpaths {A} (t:bt A) (pre:list side) : list (list side) :=
  match t with E => [] | T l _ r => bpaths l (pre ++ [SL]) ++ pre :: bpaths r (pre ++ [SR]) end.
Fixpoint bsize {A} (t:bt A) : nat := match t with E => 0 | T l _ r => S (bsize l + bsize r) end.
Fixpoint bmap {A B} (g:A -> B) (t:bt A) : bt B := match t with E => E | T l a r => T (bmap g l) (g a) (bmap g r) end.

(* all shapes with exactly n nodes (fuel > n), labelled later *)
Fixpoint shapes (fuel n:nat) : list (bt unit) :=
  match fuel with O => [] | S f =>
  match n with O => [E] | S m =>
    flat_map (fun k => flat_map (fun l => map (fun r => T l tt r) (shapes f (m - k))) (shapes f k)) (seq 0 (S m))
  end end.
Definition shapes_upto (N:nat) : list (bt unit) := flat_map (fun n => shapes (S n) n) (seq 0 (S N)).
(* label the nodes 0,1,2,... in pre-order *)
Fixpoint label {A} (t:bt A) (c:nat) : bt nat * nat :=
  match t with E => (E,c) | T l _ r => let '(l',c1) := label l (S c) in let '(r',c2) := label r c1 in (T l' c r', c2) end.
