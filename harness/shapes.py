"""Binary tree shapes (any node may lack either child) for the tree.py-level suites (C13, C14, C15, C18)."""
import functools


@functools.lru_cache(maxsize=None)
def shapes_n(n):
    """all shapes with exactly n nodes, as nested tuples (l, r) / None"""
    if n == 0:
        return (None,)
    out = []
    for k in range(n):
        for l in shapes_n(k):
            for r in shapes_n(n - 1 - k):
                out.append((l, r))
    return tuple(out)


def shapes_upto(n):
    out = []
    for k in range(1, n + 1):
        out.extend(shapes_n(k))
    return out


def random_shape(rnd, n):
    """uniform-ish random shape with n nodes"""
    if n == 0:
        return None
    k = rnd.randint(0, n - 1)
    return (random_shape(rnd, k), random_shape(rnd, n - 1 - k))


def label(s, c=0):
    """pre-order ids: returns labelled tuple (l, id, r) and next id"""
    if s is None:
        return None, c
    l, c1 = label(s[0], c + 1)
    r, c2 = label(s[1], c1)
    return (l, c, r), c2


def text(t):
    if t is None:
        return "."
    return f"({text(t[0])} {t[1]} {text(t[2])})"


def parse_text(s):
    ts = s.replace("(", " ( ").replace(")", " ) ").split()

    def rd(i):
        if ts[i] == ".":
            return None, i + 1
        assert ts[i] == "("
        l, i = rd(i + 1)
        nid = int(ts[i])
        r, i = rd(i + 1)
        assert ts[i] == ")"
        return (l, nid, r), i + 1

    return rd(0)[0]


def size(t):
    return 0 if t is None else 1 + size(t[0]) + size(t[2])


def is_full(t):
    if t is None:
        return True
    if (t[0] is None) != (t[2] is None):
        return False
    return is_full(t[0]) and is_full(t[2])


def mirror(t):
    return None if t is None else (mirror(t[2]), t[1], mirror(t[0]))


def orders(t, d=0):
    """reference pre/in/post orders with depths (written from the definitions)"""
    if t is None:
        return [], [], []
    lp, li, lo = orders(t[0], d + 1)
    rp, ri, ro = orders(t[2], d + 1)
    me = (t[1], d)
    return [me] + lp + rp, li + [me] + ri, lo + ro + [me]


def paths(t, pre=""):
    if t is None:
        return []
    return paths(t[0], pre + "L") + [pre] + paths(t[2], pre + "R")


def sub(t, p):
    for d in p:
        t = t[0] if d == "L" else t[2]
    return t


def build_nodes(t, cls=None, parent=None):
    """implementation nodes (BinaryTreeNode by default) for a labelled shape; returns (root, {id: node})"""
    from mathy_core.tree import BinaryTreeNode

    cls = cls or (lambda i: BinaryTreeNode(id=f"n{i}"))
    table = {}

    def go(s):
        if s is None:
            return None
        n = cls(s[1])
        table[s[1]] = n
        l, r = go(s[0]), go(s[2])
        n.set_left(l)
        n.set_right(r)
        return n

    root = go(t)
    return root, table


def read_back(root, ident):
    """walk left/right of real nodes and audit the links: (labelled shape, errors)"""
    errs = []
    seen = set()

    def go(n, par):
        if n is None:
            return None
        if id(n) in seen:
            errs.append(f"node {ident(n)} met twice")
            return None
        seen.add(id(n))
        if n.parent is not par:
            errs.append(f"node {ident(n)}: parent is {ident(n.parent) if n.parent is not None else None}, expected {ident(par) if par is not None else None}")
        return (go(n.left, n), ident(n), go(n.right, n))

    t = go(root, None)
    return t, errs
