#!/venv/bin/python
"""MANIFEST.setup_cmd: build everything from files on disk (Params.v from /repo, Coq, driver)."""
import os, sys
sys.path.insert(0, os.path.dirname(os.path.abspath(__file__)))
import common
b = common.ensure_build()
print("translate_error:", b.translate_error)
print("make rc:", b.make_rc)
print("driver:", b.driver_ok, b.driver_error)
if b.make_rc != 0:
    print(b.make_log[-3000:])
sys.exit(0 if (b.driver_ok and b.make_rc == 0 and not b.translate_error) else 1)
