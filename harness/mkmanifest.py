#!/usr/bin/env python3
"""Writes MANIFEST.json from the table below (kept as code so that it stays consistent)."""
import json, os
V = os.path.dirname(os.path.dirname(os.path.abspath(__file__)))
ALL = [f"C{i:02d}" for i in range(1, 19)]
CLAIMED = {
 "C11": dict(
   text="Machine-checked proof (Coq 8.16.1) over an executable Gallina model of Tokenizer.tokenize: losslessness up to the three normalisations, the declarative stream specification (maximal constant runs, one Variable per letter unless the whole run is a function name, operator/alias table), exactly one trailing EOF, padding mode removes only Pad tokens, totality, ValueError iff an unsupported character occurs - for ALL code-point strings, both padding modes. The character classes and the operator table in the theorems are regenerated from /repo on every run by evaluating the classifiers on every code point; the control structure is hand-modelled and tied to the code by a differential check (extracted model vs implementation) plus a direct oracle of the statement.",
   note="Trusted: Coq kernel; gen_params.py; extraction (ExtrOcamlBasic only) + OCaml driver; the differential harness; the hand-written model's correspondence is tested, not proved. All six theorems closed under the global context.",
   design="4 C11", technique="Coq proof over executable model + generated tables + differential correspondence"),
}
WIP = "model and theorems not built yet in this round (work in progress; planned, see DESIGN.md section 4)"
def main():
    checks = []
    for p in ALL:
        if p not in CLAIMED: continue
        c = CLAIMED[p]
        checks.append(dict(
            property_id=p,
            quick_cmd=f"/venv/bin/python harness/vcheck.py {p} --tier quick",
            thorough_cmd=f"/venv/bin/python harness/vcheck.py {p} --tier thorough",
            evidence_file=f"/verif/evidence/{p}.json",
            replay_cmd_template=f"/venv/bin/python harness/vcheck.py {p} --replay {{path}}",
            engine="coq-model",
            level_claimed=dict(category="proof", text=c["text"], design_ref=c["design"]),
            level_note=c["note"],
            technique=c["technique"]))
    m = dict(
        version=1,
        setup_cmd="/venv/bin/python harness/setup.py",
        hooks=dict(guard="MATHY_CORE_VERIF", enable="no hooks are needed: randomness is intercepted by replacing module attributes from the harness",
                   baseline_off_cmd="cd /repo && /venv/bin/python -m pytest -ra -q -p no:cacheprovider --timeout=900 --continue-on-collection-errors",
                   source_commits=[], add_only=True),
        engines=[dict(name="coq-model", path="/verif/coq", serves_properties=sorted(CLAIMED),
                      kind_free_text="Coq 8.16.1 development (executable model, proofs, property theorems) + extracted OCaml driver + Python differential harness (harness/vcheck.py)")],
        checks=checks,
        notes="See DESIGN.md. Known findings: known_findings.json.",
        not_applicable=[dict(property_id=p, reason=WIP) for p in ALL if p not in CLAIMED],
    )
    json.dump(m, open(os.path.join(V, "MANIFEST.json"), "w"), indent=1)
if __name__ == "__main__":
    main()
