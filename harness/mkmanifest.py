#!/usr/bin/env python3
"""Writes MANIFEST.json from the table below (kept as code so that it stays consistent)."""
import json, os
V = os.path.dirname(os.path.dirname(os.path.abspath(__file__)))
ALL = [f"C{i:02d}" for i in range(1, 19)]
CLAIMED = {
 "C11": dict(
   text="Machine-checked proof (Coq 8.16.1) over an executable Gallina model of Tokenizer.tokenize: losslessness up to the three normalisations, the declarative stream specification (maximal constant runs, one Variable per letter unless the whole run is a function name, operator/alias table), exactly one trailing EOF, padding mode removes only Pad tokens, totality, ValueError iff an unsupported character occurs - for ALL code-point strings, both padding modes. The character classes and the operator table in the theorems are regenerated from /repo on every run by evaluating the classifiers on every code point; the control structure is hand-modelled and tied to the code by a differential check (extracted model vs implementation) plus a direct oracle of the statement.",
   note="Trusted: Coq kernel; gen_params.py; extraction (ExtrOcamlBasic only) + OCaml driver; the differential harness; the hand-written model's correspondence is tested, not proved. All six theorems closed under the global context.",
   design="4 C11", technique="Coq proof over executable model + generated tables + differential correspondence"),
 "C03": dict(
   text="Machine-checked proof over an executable Gallina model of ExpressionParser (ten mutually recursive productions on fuel, every raise explicit): parse succeeds EXACTLY on the token lists the grammar relation `Derives` derives and returns the derived tree (soundness + completeness, hence uniqueness), and the leaves of the tree are exactly the Constant/Variable tokens in order (no operand dropped, duplicated or reordered) - for all strings. The grammar's FIRST/precedence sets are the bit masks regenerated from /repo on every run. The grammar relation nests * and / chains to the right like the implementation; that deviation from the documented left-to-right order is the known finding P2 (theorem C03_known_P2; known_findings.json) and the check's independent reference parser of the documented grammar reports every other deviation.",
   note="Trusted: Coq kernel; Grammar.v as the reading of the docstring grammar; gen_params.py; extraction + driver; differential harness incl. the independent reference parser (harness/refparser.py). Model-code tie tested, not proved. All theorems closed under the global context.",
   design="4 C03", technique="Coq proof (soundness+completeness of parser model vs grammar relation) + differential correspondence + reference-parser oracle"),
 "C10": dict(
   text="Machine-checked proof over the parser model: for every string the fuel 10*|tokens|+20 suffices (total, never OutOfFuel); every failure is one of the five documented parse exceptions or ValueError - the model's IndexError (exhausted token queue) and KeyError are unreachable because every cursor state ends in exactly one EOF (invariant proved for all ten productions); and for every call history on one parser object (failed parses, tokenize, clear_cache, client edits of handed lists) the next parse equals the pure function, i.e. a fresh parser (no sticky state). The RecursionError clause is runtime: the check probes flat chains of 3000 operands and nesting; flat * and / chains overflow the CPython stack (known finding P3, consequence of P2).",
   note="Trusted as C03, plus theories/ParserObj.v as the model of the parser object's memo tables and cursor fields. The CPython recursion limit is outside the model.",
   design="4 C10", technique="Coq proof (fuel bound, error-closure invariant, history-independence invariant) + differential correspondence + exception-type oracle"),
 "C12": dict(
   text="Machine-checked proof over a state-machine model of the ExpressionParser object in which token lists are heap objects (so aliasing between the cache and lists handed to clients is visible): an invariant (every cached list object holds exactly the tokens of its text and is never handed out; every cached tree is the parse of its text) holds initially and is preserved by every operation; hence after ANY sequence of parse/tokenize/clear_cache calls and client pops/overwrites/clears of handed lists, parse(s) and tokenize(s) return what a fresh parser returns, and every list handed out is a new object.",
   note="Trusted: Coq kernel; theories/ParserObj.v as model of parser.py:123-172 (tied by the `history` correspondence suite); clients mutating Token OBJECTS or cached TREES are outside the model (the property speaks of lists).",
   design="4 C12", technique="Coq proof (invariant by induction over operation sequences) + differential correspondence on call histories"),
 "C14": dict(
   text="Machine-checked proof over the model of tree.py's three visit methods on trees where any node may lack either child, for an ARBITRARY stateful visitor that may return STOP: each traversal equals running the visitor over the defining order (with true depths) until the first STOP; the callbacks made are exactly the prefix up to and including the stop node; every node occurs exactly once in each order; to_list, find_id (first in in-order) and find_type (in-order filter) agree with the orders. Unbounded in tree size and shape. The parent-pointer queries (root, root-side, side, sibling, children) are checked on the real nodes of every shape up to 7 nodes (quick) / 9 nodes (thorough) by the suite.",
   note="Trusted: Coq kernel; extraction + driver; the `traverse` correspondence (callback logs of the implementation vs the extracted model on ALL shapes up to the bound x every stop position). Parent-pointer look-ups are audited by the harness, not proved.",
   design="4 C14", technique="Coq proof by structural induction (visitor semantics) + exhaustive-shape differential correspondence"),
 "C15": dict(
   text="Machine-checked proof that rotation as a function on tree shapes (rotate_tree: the node at a path moves above its parent, inner child re-attached) preserves the in-order sequence and the size for every tree and every node, that rotating the root is the identity, and of the two local shapes. The pointer-level claims (parent/child links mutually consistent, grandparent now points at the rotated node) are audited on the real nodes: after node.rotate() the suite reads the whole heap back, checks every link and compares the shape with rotate_tree, for ALL shapes up to 7/9 nodes x every node.",
   note="Trusted: Coq kernel; extraction + driver; the `rotate` correspondence with its link audit. The seven pointer writes of BinaryTreeNode.rotate are not yet proved against rotate_tree at heap level (planned: proofs/HeapRotate.v).",
   design="4 C15", technique="Coq proof (rotation on shapes preserves in-order) + exhaustive-shape differential correspondence with heap audit"),
 "C18": dict(
   text="Machine-checked proof over a model of TreeLayout that threads the per-node scratch state (offset, thread) explicitly, so repeated calls on the same nodes are expressible. Unbounded: every node's level is its depth (y = depth x unit) and children are placed symmetrically around their parent. Bounded, by evaluation over enumerations PROVED complete (the property's own quantifier is bounded): every full binary tree with at most 13 nodes is laid out with children strictly on their sides, parents centred, each level left-to-right at least one unit apart, repeatably and mirror-symmetrically; every shape with at most 8 nodes is laid out identically by three successive calls and its reported bounds are the bounding box. Known findings exhibited as theorems: L2 (one-child nodes) and L3 (full trees from 15 nodes on).",
   note="Trusted: Coq kernel (vm_compute for the enumerations); extraction + driver; the `layout` correspondence (coordinates and bounds of 3 repeated calls compared exactly on all shapes up to 7/9 nodes, full trees up to 13/17 nodes, random shapes up to 80 nodes). Beyond the stated bounds only the differential check speaks.",
   design="4 C18", technique="Coq proof: structural lemmas + reflection over complete enumerations (vm_compute) + differential correspondence"),
 "C01": dict(
   text="Machine-checked proof over the model of all nine rules (eleven configurations): for every rule except balanced move (which applies only below an equation, C02), every option, every tree and every node where the rule reports applicable, the rewritten WHOLE tree refines the original over the real-number denotation (wherever the original is defined, the result is defined with the same value; hence equal wherever both are defined). Proved per classifier arrangement (associative 2, commutative 3+flip, constant arithmetic 8 incl. exact folding of + - * / and powers against the real power function, factor-out 6 positions with the factor table proved to hold factor pairs, distribute, inverse 2, restate 7, variable multiply 3 with the power law incl. definedness) plus congruence of refinement through any context. Unbounded in tree size, coefficients, exponents, assignments.",
   note="Trusted: Coq kernel; the Reals axioms of the standard library (sig_not_dec, sig_forall_dec, functional_extensionality_dep, classic), nothing else; Sem.v as the meaning of expressions; the `rules` correspondence (model vs implementation on every node x 11 configurations of thousands of trees incl. every rule-test arrangement and near-miss perturbations) and the exact-rational value oracle. Folds with irrational value (c1^c2, non-integral c2) are outside the exact model (marked RInexact, compared with tolerance).",
   design="4 C01", technique="Coq proof (local soundness per rule arrangement + congruence, over Reals) + differential correspondence + exact value oracle"),
 "C02": dict(
   text="Machine-checked proof: for every equation l = r, every rule (balanced move, the flip of the sides, any rewrite inside a side), every option and node where it reports applicable, the result is an equation l' = r' and wherever l, r are defined so are l', r' and (l = r) holds exactly when (l' = r') does (eq_refines, which implies 'same solutions wherever both are defined' and composes). Balanced move: the addend case is proved by induction along the spine of additions (the moved term is a TOP-LEVEL addend - theorem; never out of a product, quotient, power, negation or subtrahend), the coefficient case divides by a constant proved non-zero.",
   note="Trusted as C01. Oracle assignments include secant-solved roots of both equations so that one of them actually holds.",
   design="4 C02", technique="Coq proof (eq_refines per step; spine induction for balanced move) + differential correspondence + solution-set oracle"),
 "C08": dict(
   text="Machine-checked schema theorems over the model: for ALL operands/coefficients/variables/exponents and an ARBITRARY context (root, path), each documented form is accepted and rewritten to the documented shape: swap a+b / a*b (and the chain regrouping), (a+b)+c <-> a+(b+c), c1 op c2 -> constant, factor-out shape with the extracted number proved a common factor of both coefficients, a(b+c) -> ab+ac, a/b -> a*(1/b), a-b -> a+(-b) and back, x^a*x^b -> x^(a+b) (implicit 1s), balanced add / multiply; and the documented non-applicable forms (a-b, a/b not commutable, unlike variables, constants not factored unless enabled) are refused. The suite instantiates every schema independently and compares up to order/grouping of + and * and the factor pulled out. Known findings: zero coefficients (F0) and the undocumented context restriction of restate-subtraction (F1).",
   note="Trusted as C01 (most theorems closed under the global context; the common-factor theorem uses the Reals axioms).",
   design="4 C08", technique="Coq proof (symbolic schema theorems) + differential correspondence + independent schema oracle"),
 "C09": dict(
   text="Machine-checked proof by induction over the step list: any finite sequence of applicable rewrites (run) from an expression refines it (same value wherever the start is defined); from an equation, every sequence incl. balanced moves ends in an equation with the same solution set (eq_refines is transitive). The model's trees are immutable, so earlier states are untouched by construction; for the implementation the `walks` suite applies every step to a clone_from_root copy, audits the heap, re-parses str(root), compares values with the START expression and verifies all earlier roots bit-identical at the end.",
   note="Trusted as C01; 'prints and re-parses' is checked by the suite's round-trip oracle (C04), not proved here.",
   design="4 C09", technique="Coq proof (induction over rewrite sequences on top of C01/C02) + differential correspondence on random walks"),
 "C05": dict(
   text="Machine-checked proof over the model of evaluate (numbers = unbounded integers | exact rationals standing for floats | non-finite marker; a float operation whose exact result is not representable is the explicit outcome EInexact, never a rounded value inside the model): eval is SOUND against the real-number meaning of the expression (whenever it returns a number and the expression is defined, the number IS the mathematical value) and COMPLETE (a defined expression evaluates to its value or to the explicit inexact outcome - no other outcome, in particular no wrong number and no exception); on integer-only expressions (add, sub, mul, non-negative integer power, factorial, negate over integer constants and integer-valued variables) eval returns exactly the unbounded integer evalZ computes - for any magnitude, no wrap; an unbound variable is ValueError and a successful evaluation proves every variable bound; division by a zero divisor gives the non-finite marker (NaN); an equation returns the common value or ValueError. PARTIAL where the property speaks of 'a few ulps': IEEE rounding is outside the model; the suite's oracle checks the implementation's float results against exact rational arithmetic with a per-operation relative tolerance of 4 ulps.",
   note="Trusted: Coq kernel; the Reals axioms of the standard library for the soundness/completeness theorems (the integer-exactness, unbound-variable, division and equation theorems are closed under the global context); Sem.v as the meaning; the `eval` correspondence (implementation vs extracted model on int-only trees with huge operands and on mixed trees). numpy's power on floats is modelled as exact-or-inexact.",
   design="4 C05", technique="Coq proof (evaluator sound+complete vs real-number semantics; integer exactness) + differential correspondence + exact-rational oracle"),
 "C06": dict(
   text="Machine-checked proof over the model of all nine rules: wherever can_apply is true, apply returns a result tree (ROk) or the explicit marker RInexact (a float fold whose exact value the model does not represent; the implementation returns the rounded float there) - it never reaches any of the model's raise sites (C06_apply_completes, C06_no_internal_error); can_apply is a Gallina function of (tree, position, rule), hence pure and deterministic by construction, and the implementation's purity/repeatability incl. answers after in-place edits is the suite's oracle; find_nodes returns exactly the pairs (in-order index, position) at which can_apply holds, the in-order enumeration lists every position exactly once, and find_node is the first of them.",
   note="Trusted: Coq kernel (all theorems closed under the global context); the `rules` correspondence incl. FIND commands; heap snapshot oracle for purity on the implementation side.",
   design="4 C06", technique="Coq proof (totality of apply under can_apply per rule; specification of node search) + differential correspondence + purity oracle"),
 "C07": dict(
   text="Machine-checked proof over the model: every non-balanced rewrite replaces exactly one subtree - the node's own or, for the associative rotation, its parent's - so every position that is neither inside nor above that subtree holds the same subtree before and after (C07_context_preserved), and every ancestor keeps its kind and payload (C07_ancestors_preserved); balanced move returns an equation. Arity-correctness, absence of sharing and a parentless root hold by construction for the model's inductive trees; for the IMPLEMENTATION's pointer structure (mutually consistent links, no node object twice, root without parent, clone source untouched) and for the variable set the check is the heap audit run on every rewrite of every suite (not a theorem): PARTIAL for those clauses.",
   note="Trusted: Coq kernel (closed under the global context); correspondence of every rewrite result with the model; pyside.ser heap audit.",
   design="4 C07", technique="Coq proof (locality of rewrites: replace lemmas) + differential correspondence + heap audit of parent/child links"),
}
WIP = "model and theorems not built yet in this round (work in progress; planned, see DESIGN.md section 4)"
def main():
    checks = []
    for p in ALL:
        if p not in CLAIMED: continue
        c = CLAIMED[p]
        checks.append(dict(
            property_id=p,
            quick_cmd=f"/venv/bin/python harness/vcheck.py {p} --tier quick",
            thorough_cmd=f"/venv/bin/python harness/vcheck.py {p} --tier thorough",
            evidence_file=f"/verif/evidence/{p}.json",
            replay_cmd_template=f"/venv/bin/python harness/vcheck.py {p} --replay {{path}}",
            engine="coq-model",
            level_claimed=dict(category="proof", text=c["text"], design_ref=c["design"]),
            level_note=c["note"],
            technique=c["technique"]))
    m = dict(
        version=1,
        setup_cmd="/venv/bin/python harness/setup.py",
        hooks=dict(guard="MATHY_CORE_VERIF", enable="no hooks are needed: randomness is intercepted by replacing module attributes from the harness",
                   baseline_off_cmd="cd /repo && /venv/bin/python -m pytest -ra -q -p no:cacheprovider --timeout=900 --continue-on-collection-errors",
                   source_commits=[], add_only=True),
        engines=[dict(name="coq-model", path="/verif/coq", serves_properties=sorted(CLAIMED),
                      kind_free_text="Coq 8.16.1 development (executable model, proofs, property theorems) + extracted OCaml driver + Python differential harness (harness/vcheck.py)")],
        checks=checks,
        notes="See DESIGN.md. Known findings: known_findings.json.",
        not_applicable=[dict(property_id=p, reason=WIP) for p in ALL if p not in CLAIMED],
    )
    json.dump(m, open(os.path.join(V, "MANIFEST.json"), "w"), indent=1)
if __name__ == "__main__":
    main()
