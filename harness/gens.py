"""Input generators shared by the suites. All randomness comes from the Random object passed in."""

ATOMS = ["x", "y", "z", "a", "b", "2", "3", "7", "12", "0", "3.5", "0.5", ".5", "7.", "10", "4x", "2x^2", "xy", "xyz^2", "Sgn(x)", "SGN(2)", "sGn(y)", "sgN", "X", "Sx",
         "-x", "-3", "5!", "3!", "sgn(x)", "(x)", "0.5y^3", "12x^3", "x^2", "y^3", "2y", "-2x", "1", "11.8", "0.25"]
BINOPS = ["+", "-", "*", "/", "^", "="]
ALPHA = list("0123456789.xyzabsgn+-*/^!=()[] \t") + ["–"]
SOUP = ALPHA + ["sgn(", "sgn", "12", "3.5", "x^", "(", ")", "*", "+", "^", "!", "=", "Sgn(", "SGN", "sgnx", "S", "G", "N"]
WEIRD = list("#$%&_{}|~@,;:?<>\"'\\`") + ["é", "π", "×", "÷", "−", "—", " ", " ", "٣", "１", "ａ", "Ω", "​", "\x00", "\x0b", "\x0c", "E", "e"]


def valid_expr(rnd, d=3, eq=True):
    if d == 0 or rnd.random() < 0.3:
        return rnd.choice(ATOMS)
    op = rnd.choice(["+", "+", "-", "*", "*", "/", "^", "j", "neg", "par", "par"] + (["="] if eq else []))
    a = valid_expr(rnd, d - 1, False)
    if op == "neg":
        return "-" + a
    if op == "par":
        return rnd.choice(["(", "["]) + a + rnd.choice([")", "]"])
    b = valid_expr(rnd, d - 1, False)
    if op == "j":
        return a + b
    sp = rnd.choice(["", " ", " ", "  "])
    return a + sp + op + rnd.choice(["", " ", " "]) + b


def soup(rnd, maxlen=12):
    return "".join(rnd.choice(SOUP) for _ in range(rnd.randint(0, maxlen)))


def mutate(rnd, s):
    if not s:
        return rnd.choice(ALPHA)
    i = rnd.randrange(len(s))
    k = rnd.random()
    if k < 0.35:
        return s[:i] + s[i + 1:]
    if k < 0.7:
        return s[:i] + rnd.choice(ALPHA) + s[i:]
    if k < 0.9:
        return s[:i] + rnd.choice(ALPHA) + s[i + 1:]
    return s[:i]


def weird(rnd, maxlen=10):
    pool = ALPHA + WEIRD
    s = "".join(rnd.choice(pool) for _ in range(rnd.randint(1, maxlen)))
    if rnd.random() < 0.3:
        s += chr(rnd.choice([rnd.randrange(0x80, 0x800), rnd.randrange(0x800, 0xD7FF), rnd.randrange(0x10000, 0x10FFFF)]))
    return s


def strings(rnd, n):
    """Mostly-valid structured strings plus a malformed stream."""
    out = []
    for _ in range(n):
        r = rnd.random()
        if r < 0.55:
            out.append(valid_expr(rnd, rnd.randint(1, 4)))
        elif r < 0.7:
            out.append(mutate(rnd, valid_expr(rnd, rnd.randint(1, 3))))
        elif r < 0.85:
            out.append(soup(rnd))
        else:
            out.append(weird(rnd))
    return out


UWS = ["\x0b", "\x0c", "\x1c", "\x1d", "\x1e", "\x1f", "\x85", "\xa0", "\u1680", "\u2000", "\u2003", "\u2009", "\u200a", "\u2028", "\u2029", "\u202f",
       "\u205f", "\u3000", "\u200b", "\ufeff"]


def unsupported_blank_variants(rnd, s):
    """texts over the supported alphabet except for ONE blank-like character that the tokenizer does not support (Unicode
    whitespace, zero-width space, BOM), placed next to a supported blank, at either end, or inside a token run"""
    u = rnd.choice(UWS)
    b = rnd.choice([" ", "\t", "\r", "\n", "  "])
    i = rnd.randrange(len(s) + 1)
    out = [s[:i] + b + u + s[i:], s[:i] + u + b + s[i:], s[:i] + u + s[i:], u + s, s + b + u]
    if " " in s:
        out.append(s.replace(" ", " " + u, 1))
        out.append(s.replace(" ", u, 1))
    return out


def space_variants(rnd, s):
    """texts that differ from s only by blanks: inserted inside digit runs / letter runs, or removed"""
    out = []
    if len(s) >= 2:
        i = rnd.randrange(1, len(s))
        out.append(s[:i] + " " + s[i:])
        j = rnd.randrange(1, len(s))
        out.append(s[:j] + "  " + s[j:])
    if " " in s:
        out.append(s.replace(" ", "", 1))
        out.append(s.replace(" ", ""))
    return out


def cps(s):
    return " ".join(str(ord(c)) for c in s)
