"""Shared engine of the rule-based suites (C01, C02, C06, C07, C08, C09): runs every rule
configuration at every node of every tree on the implementation and on the extracted model, and
evaluates the independent oracles. Each property's suite selects the oracle classes that belong to it."""
import collections
from fractions import Fraction as F

import common
import pyside as P


def rule_table():
    from mathy_core import rules as R

    return [
        ("AS", "0", R.AssociativeSwapRule()), ("CS", "1", R.CommutativeSwapRule(True)), ("CS", "0", R.CommutativeSwapRule(False)),
        ("CA", "0", R.ConstantsSimplifyRule()), ("DF", "0", R.DistributiveFactorOutRule(False)),
        ("DF", "1", R.DistributiveFactorOutRule(True)), ("DM", "0", R.DistributiveMultiplyRule()),
        ("MI", "0", R.MultiplicativeInverseRule()), ("RS", "0", R.RestateSubtractionRule()), ("VM", "0", R.VariableMultiplyRule()),
        ("BM", "0", R.BalancedMoveRule()),
    ]


def arrangement(rule, node):
    """classifier arrangement tag (only for the distribution / coverage report)."""
    try:
        if hasattr(rule, "get_type"):
            gt = rule.get_type(node)
            return str(gt if isinstance(gt, str) or gt is None else gt[0])
    except Exception:
        return "?"
    return "-"


def hole(t, path):
    """t with the subtree at path replaced by a hole; None if the path does not exist."""
    if not path:
        return ("hole",)
    if t[0] in ("c", "v"):
        return None
    if t[0] in P.UN:
        if path[0] != "R":
            return None
        h = hole(t[1], path[1:])
        return None if h is None else (t[0], h)
    if path[0] == "L":
        h = hole(t[1], path[1:])
        return None if h is None else (t[0], h, t[2])
    h = hole(t[2], path[1:])
    return None if h is None else (t[0], t[1], h)


def has_float(t):
    if t[0] == "c":
        return t[1][0] != "i"
    if t[0] == "v":
        return False
    return any(has_float(a) for a in t[1:])


def secant_envs(rnd, t, base_envs):
    """assignments that SOLVE the equation t when it is linear in one variable (others fixed):
    random assignments almost never satisfy an equation, so the solution-set oracle needs these."""
    out = []
    vs = sorted(P.sx_vars(t))
    if t[0] != "eq" or not vs:
        return out

    def d(env):
        return P.eval_exact(t[1], env) - P.eval_exact(t[2], env)

    for env0 in base_envs[:3]:
        for v in vs:
            try:
                e1 = dict(env0)
                e2 = dict(env0)
                e1[v] = F(1)
                e2[v] = F(3)
                d1, d2 = d(e1), d(e2)
                if d1 == d2:
                    continue
                x0 = F(1) - d1 * (F(3) - F(1)) / (d2 - d1)
                e3 = dict(env0)
                e3[v] = x0
                out.append(e3)
            except (P.Undefined, P.Irrational, ZeroDivisionError, OverflowError):
                continue
    return out


def check_values(rnd, before, after, n_env=8):
    """C01 / C02 oracle on two tuple-form trees. Returns None or (class, detail)."""
    P.ILL[0] = has_float(before) or has_float(after)
    try:
        return _check_values(rnd, before, after, n_env)
    finally:
        P.ILL[0] = False


def _check_values(rnd, before, after, n_env=8):
    vs = P.sx_vars(before) | P.sx_vars(after)
    envs = P.assignments(rnd, vs, n_env)
    if before[0] == "eq":
        if after[0] != "eq":
            return ("equation-lost", "the rewritten equation is no longer an equation")
        envs = secant_envs(rnd, before, envs) + secant_envs(rnd, after, envs) + envs
        checked = 0
        exact = not has_float(before) and not has_float(after)
        for env in envs:
            try:
                # the tuple forms are exact rationals: compare the exact truth values first; only when those differ (a fold that
                # rounded a float) does the tolerant comparison decide - tolerance alone mistakes ill-conditioned rearrangements
                # (x / 2^40, eps - 1 = -1) for changes of the solution set
                hb = P.equation_holds(before, env, True)
            except (P.Undefined, P.Irrational, OverflowError):
                continue
            try:
                ha = P.equation_holds(after, env, True)
                if hb != ha and not exact:
                    hb = P.equation_holds(before, env, False)
                    ha = P.equation_holds(after, env, False)
            except P.Undefined:
                # both sides of the original are defined here, a side of the result is not: the rewrite divided by zero
                return ("solution-set", dict(env={chr(k): str(v) for k, v in env.items()}, holds_before=hb,
                                             holds_after="undefined (the rewritten equation has an undefined side where the original is defined)"))
            except (P.Irrational, OverflowError):
                continue
            checked += 1
            if hb != ha:
                return ("solution-set", dict(env={chr(k): str(v) for k, v in env.items()}, holds_before=hb, holds_after=ha))
        return None
    exact = not has_float(before) and not has_float(after)
    for env in envs:
        st = [F(0)]
        try:
            a = P.eval_exact(before, env, st)
        except (P.Undefined, P.Irrational, OverflowError):
            continue
        try:
            b = P.eval_exact(after, env, st)
        except P.Undefined:
            return ("value", dict(env={chr(k): str(v) for k, v in env.items()}, before=str(a), after="undefined where the original is defined"))
        except (P.Irrational, OverflowError):
            continue
        ok = (a == b) if exact else P.values_agree(a, b, st[0])
        if not ok:
            return ("value", dict(env={chr(k): str(v) for k, v in env.items()}, before=str(a), after=str(b)))
    return None


class Engine:
    def __init__(self, ctx):
        self.ctx = ctx
        self.res = ctx.res
        self.rules = rule_table()
        self.arr = collections.Counter()
        self.applied = collections.Counter()
        self.pending_plans = []
        self.plan_stats = collections.Counter()

    def model_rule_lines(self, trees):
        return [f"RULE {name} {opt} {P.sx_text(t)}" for t in trees for name, opt, _ in self.rules]

    def run_trees(self, trees, want):
        """want: set of oracle classes the calling property cares about:
        'value', 'solution-set', 'raises', 'purity', 'find', 'audit', 'vars', 'context', 'original-modified'."""
        res, rnd = self.res, self.ctx.rnd
        trees = [P.normalize(t) for t in trees]
        out = common.drive(self.model_rule_lines(trees)) if self.ctx.driver_ok else None
        k = 0
        for t in trees:
            paths = P.sx_inorder(t)
            for name, opt, rule in self.rules:
                mo = out[k].split(" | ") if out is not None else None
                k += 1
                if mo is not None and len(mo) != len(paths):
                    res.disagreements.append(dict(suite="rules", input=dict(tree=P.sx_text(t), rule=name + opt), impl=f"{len(paths)} nodes", model=out[k - 1][:200]))
                    continue
                base = P.build(t)
                nodes = P.inorder_nodes(base)
                cans = []
                for idx, node in enumerate(nodes):
                    res.evaluations += 1
                    snap = P.snapshot(base) if "purity" in want else None
                    try:
                        can = rule.can_apply_to(node)
                        can2 = rule.can_apply_to(node) if "purity" in want else can
                    except Exception as e:
                        res.failures.append(dict(**{"class": "can-apply-raises"}, rule=name + opt, input=dict(tree=P.sx_text(t), node=paths[idx]), detail=repr(e)))
                        cans.append(False)
                        continue
                    if "purity" in want and (P.snapshot(base) != snap or can != can2):
                        res.failures.append(dict(**{"class": "purity"}, rule=name + opt, input=dict(tree=P.sx_text(t), node=paths[idx]), detail="can_apply_to modified the tree or changed its answer"))
                    can = bool(can)
                    cans.append(can)
                    m = mo[idx] if mo is not None else None
                    if m is not None and (m != "0") != can:
                        res.disagreements.append(dict(suite="rules.can_apply", input=dict(tree=P.sx_text(t), rule=name + opt, node=paths[idx]), impl=can, model=m[:120]))
                        if not can:
                            continue
                    if not can:
                        continue
                    self.apply_one(t, paths[idx], idx, name, opt, rule, m, want)
                if "find" in want:
                    self.check_find(t, paths, name, opt, rule, cans)

    def apply_one(self, t, path, idx, name, opt, rule, m, want):
        res, rnd = self.res, self.ctx.rnd
        base = P.build(t)
        node = P.node_at(base, path)
        tag = f"{name}{opt}:{arrangement(rule, node)}"
        self.arr[tag] += 1
        inp = dict(tree=P.sx_text(t), rule=name + opt, node=path, arrangement=tag)
        # as search agents do: apply to a copy cloned from the root
        work = node.clone_from_root()
        snap = P.snapshot(base)
        # object identities of the tree the rule is applied to (the list keeps every old object alive, so an id is never re-used)
        old_objs = P.preorder_objs(work.get_root()) if "plans" in want else None
        old_ids = {id(o): pth for o, pth in old_objs} if old_objs is not None else None
        try:
            ch = rule.apply_to(work)
            result = ch.result
            if result is None:
                raise ValueError("change.result is None")
            root = result.get_root()
        except Exception as e:
            if m is not None and m.startswith("1 EXC") and m[6:] not in ("INEXACT",):
                pass  # the model predicts the exception as well; still a C06 finding below
            if "raises" in want:
                res.failures.append(dict(**{"class": "apply-raises"}, rule=name + opt, arrangement=tag.split(":")[1], input=inp, detail=f"{type(e).__name__}: {e}"[:200]))
            if m is not None and not m.startswith("1 EXC"):
                res.disagreements.append(dict(suite="rules.apply", input=inp, impl=f"raises {type(e).__name__}", model=m[:160]))
            return
        res.nontrivial.add((name + opt, P.sx_text(t), path))
        try:
            after = P.ser(root)
            rpath = P.path_of(result)
        except P.AuditError as e:
            if "audit" in want:
                res.failures.append(dict(**{"class": "audit"}, rule=name + opt, input=inp, detail=str(e)))
            res.disagreements.append(dict(suite="rules.apply", input=inp, impl=f"audit: {e}", model=(m or "")[:160]))
            return
        if "original-modified" in want and P.snapshot(base) != snap:
            res.failures.append(dict(**{"class": "original-modified"}, rule=name + opt, input=inp, detail="the tree the copy was cloned from changed"))
        # correspondence with the model
        if m is not None:
            if m.startswith("1 EXC"):
                if m[6:] != "INEXACT":
                    res.disagreements.append(dict(suite="rules.apply", input=inp, impl=P.sx_text(after), model=m[:160]))
                else:
                    self.res.count("inexact-fold")
            elif m.startswith("1 "):
                _, mp, msx = m.split(" ", 2)
                mt = P.sx_parse(msx)
                if mp != f"[{rpath}]" or not P.sx_same(after, mt):
                    res.disagreements.append(dict(suite="rules.apply", input=inp, impl=f"[{rpath}] {P.sx_text(after)}", model=m[:400]))
        if "plans" in want and self.ctx.driver_ok and m is not None and m.startswith("1 ") and not m.startswith("1 EXC"):
            if len(self.pending_plans) >= 3000:
                self.flush_plans()
            self.pending_plans.append((inp, f"PLAN {name} {opt} [{path}] {P.sx_text(t)}", P.sx_text(after),
                                       " ".join(("[" + old_ids[id(o)] + "]") if id(o) in old_ids else "-" for o, _ in P.preorder_objs(root))))
        # independent oracles
        if "value" in want or "solution-set" in want:
            bad = check_values(rnd, t, after)
            if bad and ((bad[0] == "value" and "value" in want) or (bad[0] != "value" and "solution-set" in want)):
                res.failures.append(dict(**{"class": bad[0]}, rule=name + opt, arrangement=tag.split(":")[1], input=inp, after=P.sx_text(after), detail=bad[1]))
        if "vars" in want and P.sx_vars(t) != P.sx_vars(after):
            res.failures.append(dict(**{"class": "vars"}, rule=name + opt, input=inp, after=P.sx_text(after), detail="variable set changed"))
        if "context" in want and name != "BM":
            nb = path[:-1] if name == "AS" and path else path
            if hole(t, nb) != hole(after, nb):
                res.failures.append(dict(**{"class": "context"}, rule=name + opt, input=inp, after=P.sx_text(after), detail=f"structure outside the neighbourhood [{nb}] changed"))
        if len(res.samples) < 8 and self.applied[name + opt] == 0:
            try:
                res.sample(dict(rule=name + opt, arrangement=tag, before=str(base), node=str(node), after=str(root)))
            except Exception:
                pass
        self.applied[name + opt] += 1

    def check_find(self, t, paths, name, opt, rule, cans):
        res = self.res
        base = P.build(t)
        try:
            found = rule.find_nodes(base)
            first = rule.find_node(base)
        except Exception as e:
            res.failures.append(dict(**{"class": "find-raises"}, rule=name + opt, input=dict(tree=P.sx_text(t)), detail=repr(e)))
            return
        nodes = P.inorder_nodes(base)
        exp = [n for n, c in zip(nodes, cans) if c]
        ok = len(found) == len(exp) and all(a is b for a, b in zip(found, exp))
        ok = ok and all(getattr(n, "r_index", None) == i for i, n in enumerate(nodes))
        ok = ok and ((first is exp[0]) if exp else first is None)
        if not ok:
            res.failures.append(dict(**{"class": "find"}, rule=name + opt, input=dict(tree=P.sx_text(t)),
                                     detail=f"find_nodes -> {[P.path_of(n) for n in found]}, applicable {[P.path_of(n) for n in exp]}, find_node -> {P.path_of(first) if first is not None else None}"))

    def flush_plans(self):
        """the `plans` correspondence: which OBJECTS of the tree the rule was applied to are in the result, and where (Plans.v)."""
        if not self.pending_plans:
            return
        out = common.drive([l for _, l, _, _ in self.pending_plans])
        for (inp, line, after, prov), m in zip(self.pending_plans, out):
            self.res.evaluations += 1
            if not m.startswith("OK "):
                self.res.disagreements.append(dict(suite="plans", input=inp, impl=f"{after} ; {prov}", model=m[:200]))
                continue
            head, mprov = m[3:].split(" ; ", 1) if " ; " in m else (m[3:], "")
            q, lin, msx = head.split(" ", 2)
            ok = P.sx_same(P.sx_parse(after), P.sx_parse(msx)) and mprov.strip() == prov.strip()
            if not ok:
                self.res.disagreements.append(dict(suite="plans", input=inp, impl=f"{after} ; {prov}", model=m[:600]))
            if lin != "1":
                self.res.failures.append(dict(**{"class": "plan-not-linear"}, rule=inp["rule"], input=inp, detail="the model's plan uses an old object twice: " + m[:300]))
            if self.plan_stats["sampled"] < 3 and any(x != "-" for x in prov.split()) and any(x == "-" for x in prov.split()):
                self.plan_stats["sampled"] += 1
                self.res.sample(dict(kind="object identities of a result (pre-order): path of the old object in the tree the rule was applied to, or - for a fresh object",
                                     rule=inp["rule"], tree=inp["tree"], node=inp["node"], result=after, provenance=prov, model_plan=m[:200]))
            self.plan_stats["old" if any(x != "-" for x in prov.split()) else "all-fresh"] += 1
            self.plan_stats["kept objects"] += sum(1 for x in prov.split() if x != "-")
            self.plan_stats["fresh objects"] += sum(1 for x in prov.split() if x == "-")
        self.pending_plans = []

    def finish(self):
        self.flush_plans()
        if self.plan_stats:
            self.res.dist["plans"] = dict(self.plan_stats)
        self.res.dist["arrangements"] = dict(sorted(self.arr.items()))
        self.res.dist["applications_per_rule"] = dict(sorted(self.applied.items()))


def standard_trees(ctx, n_random, with_tests=True, eq_share=0.3):
    """G2 random trees, G3 rule-test inputs (every classifier arrangement) embedded in random contexts."""
    rnd = ctx.rnd
    trees = []
    if with_tests:
        from mathy_core.parser import ExpressionParser

        for s in P.rule_test_inputs():
            try:
                t = P.ser(ExpressionParser().parse(s))
            except Exception:
                continue
            trees.append(t)
            if rnd.random() < 0.5:
                trees.append(P.embed(rnd, t))
            # near misses of every classifier arrangement: one or two operator kinds / leaf classes changed
            trees.append(P.perturb(rnd, t, 1))
            if rnd.random() < 0.5:
                trees.append(P.perturb(rnd, t, 2))
    for i in range(n_random):
        if i % 3 == 1:
            t = P.embed(rnd, P.like_pair(rnd), rnd.randint(0, 2)) if eq_share < 1 else P.like_pair(rnd)
        elif i % 9 == 2:
            t = P.embed(rnd, P.const_pair(rnd), rnd.randint(0, 2)) if eq_share < 1 else P.const_pair(rnd)
        elif i % 9 in (8, 3):
            t = P.embed(rnd, P.rare_forms(rnd), rnd.randint(0, 2)) if eq_share < 1 else P.rare_forms(rnd)
        elif i % 9 == 5:
            t = P.embed(rnd, P.unary_stack(rnd), rnd.randint(0, 2)) if eq_share < 1 else P.unary_stack(rnd)
        else:
            t = P.rtree(rnd, rnd.randint(1, 4))
        if rnd.random() < eq_share:
            t = ("eq", t, P.rtree(rnd, rnd.randint(0, 3)))
        trees.append(t)
    seen, out = set(), []
    for t in trees:
        s = P.sx_text(t)
        if s not in seen and P.sx_size(t) <= 41:
            seen.add(s)
            out.append(t)
    return out
