"""Cross-check of the extraction: the same definitions evaluated by the Coq kernel's vm_compute and by the extracted OCaml code.

The correspondence suites run the EXTRACTED model; the theorems are about the Gallina definitions. This module closes that gap on a
sample: it takes protocol lines and the driver's answers, turns them into a Coq file of `Example ... : f input = answer. Proof.
vm_compute. reflexivity. Qed.` and compiles it against the project's .vo files. A case on which extraction and kernel evaluation
differ makes the file fail to compile; the failing example is reported by bisection."""
import os
import re
import subprocess

import common
import pyside as P


def coq_num(t):
    if t[0] == "i":
        return f"(NInt ({t[1]})%Z)"
    if t[0] == "nan":
        return "NNonFinite"
    return f"(NFlt (({t[1].numerator})%Z # {t[1].denominator}))"


def coq_expr(t):
    k = t[0]
    if k == "c":
        return f"(Const {coq_num(t[1])})"
    if k == "v":
        return f"(Var {t[1]}%N)"
    if k in P.UN:
        return f"(Un {dict(neg='UNeg', fact='UFact', sgn='USgn', abs='UAbs')[k]} {coq_expr(t[1])})"
    return f"(Bin {dict(eq='KEq', add='KAdd', sub='KSub', mul='KMul', div='KDiv', pow='KPow')[k]} {coq_expr(t[1])} {coq_expr(t[2])})"


def coq_cps(cps):
    return "[" + "; ".join(f"{c}" for c in cps) + "]%N"


def statement(line, answer):
    """Coq proposition for one protocol line and the driver's answer; None when the command is not covered."""
    ws = line.split(" ")
    if ws[0] == "PARSE":
        cps = [int(x) for x in ws[1:] if x]
        if answer.startswith("OK "):
            return f"parse {coq_cps(cps)} = Ok {coq_expr(P.sx_parse(answer[3:]))}"
        if answer.startswith("EXC "):
            return f"parse {coq_cps(cps)} = Raises {answer[4:]}"
    if ws[0] == "PRINT":
        t = P.sx_parse(" ".join(ws[1:]))
        if answer.startswith("OK"):
            return f"show_top {coq_expr(t)} = Some {coq_cps([int(x) for x in answer.split()[1:]])}"
        if answer == "NONE":
            return f"show_top {coq_expr(t)} = None"
    if ws[0] == "EVAL" and ";" in ws:
        i = ws.index(";")
        t = P.sx_parse(" ".join(ws[1:i]))
        env = "(fun v : N => "
        for b in ws[i + 1:]:
            if not b:
                continue
            k, x = b.split("=")
            val = "None" if x == "none" else "Some " + coq_num(P.sx_parse("(c " + x + ")")[1])
            env += f"if (v =? {int(k)})%N then {val} else "
        env += "None)"
        if answer.startswith("OK "):
            return f"eval {env} {coq_expr(t)} = EOk {coq_num(P.sx_parse('(c ' + answer[3:] + ')')[1])}"
        if answer in ("INEXACT", "NONFINITE"):
            return f"eval {env} {coq_expr(t)} = {'EInexact' if answer == 'INEXACT' else 'ENonFinite'}"
        if answer == "EXC ValueError":
            return f"eval {env} {coq_expr(t)} = EValueError"
    if ws[0] == "APPLY" and len(ws) > 4:
        rule = {"AS": "RAssoc", "CS": f"(RComm {'true' if ws[2] == '1' else 'false'})", "CA": "RConst", "DF": f"(RFactor {'true' if ws[2] == '1' else 'false'})",
                "DM": "RDistr", "MI": "RInverse", "RS": "RRestate", "VM": "RVarMul", "BM": "RBalanced"}.get(ws[1])
        if rule is None:
            return None
        path = lambda s: "[" + "; ".join("DL" if c == "L" else "DR" for c in s.strip("[]")) + "]"
        root = coq_expr(P.sx_parse(" ".join(ws[4:])))
        p0 = path(ws[3])
        if answer == "0":
            return f"can_apply {root} {p0} {rule} = false"
        if answer.startswith("1 EXC "):
            ex = {"ValueError": "RValueError", "AssertionError": "RAssertion", "AttributeError": "RAttribute", "NotImplementedError": "RNotImplemented",
                  "Other": "ROther", "INEXACT": "RInexact"}.get(answer[6:].strip())
            return None if ex is None else f"can_apply {root} {p0} {rule} = true /\\ apply {root} {p0} {rule} = RRaises {ex}"
        if answer.startswith("1 ["):
            _, p1, sx = answer.split(" ", 2)
            return f"can_apply {root} {p0} {rule} = true /\\ apply {root} {p0} {rule} = ROk ({coq_expr(P.sx_parse(sx))}, {path(p1)})"
    if ws[0] == "PLAN" and len(ws) > 4:
        rule = {"AS": "RAssoc", "CS": f"(RComm {'true' if ws[2] == '1' else 'false'})", "CA": "RConst", "DF": f"(RFactor {'true' if ws[2] == '1' else 'false'})",
                "DM": "RDistr", "MI": "RInverse", "RS": "RRestate", "VM": "RVarMul", "BM": "RBalanced"}.get(ws[1])
        if rule is None:
            return None
        path = lambda s: "[" + "; ".join("DL" if c == "L" else "DR" for c in s.strip("[]")) + "]"
        root = coq_expr(P.sx_parse(" ".join(ws[4:])))
        p0 = path(ws[3])
        if answer == "NONE":
            return f"plan_result {root} {p0} {rule} = None"
        if answer.startswith("OK ") and " ; " in answer:
            head, prov = answer[3:].split(" ; ", 1)
            q, lin, sx = head.split(" ", 2)
            pv = "[" + "; ".join("None" if x == "-" else f"Some {path(x)}" for x in prov.split()) + "]"
            return f"plan_result {root} {p0} {rule} = Some ({path(q)}, {coq_expr(P.sx_parse(sx))}, {pv}, {'true' if lin == '1' else 'false'})"
    return None


HEADER = """From Coq Require Import List NArith ZArith QArith Bool.
From Mathy Require Import Tok Lexer Num Expr Parser Printer Eval Rules Plans.
Import ListNotations.
"""


def compile_examples(stmts, tag):
    path = os.path.join(common.BUILD, f"xcheck_{tag}.v")
    with open(path, "w") as f:
        f.write(HEADER)
        for i, s in enumerate(stmts):
            f.write(f"Example x{i} : {s}.\nProof. vm_compute. repeat split; reflexivity. Qed.\n")
    rc, out, err = common.run(["timeout", "600", "coqc", "-Q", "theories", "Mathy", path], cwd=common.COQ, timeout=700)
    for ext in (".vo", ".glob", ".vok", ".vos", ".v"):
        try:
            os.remove(path[:-2] + ext)
        except OSError:
            pass
    return rc == 0, (out + err)[-600:]


def cross_check(pairs, tag):
    """pairs: (protocol line, driver answer). Returns (number checked, list of (line, answer, coq statement) on which kernel evaluation
    and the extracted code disagree)."""
    items = [(l, a, statement(l, a)) for l, a in pairs]
    items = [x for x in items if x[2] is not None]
    if not items:
        return 0, []
    ok, log = compile_examples([x[2] for x in items], tag)
    if ok:
        return len(items), []
    # bisect to the failing examples (a compile error reports only the first)
    bad = []

    def go(sub):
        if not sub:
            return
        ok, _ = compile_examples([x[2] for x in sub], tag)
        if ok:
            return
        if len(sub) == 1:
            bad.append(sub[0])
            return
        go(sub[: len(sub) // 2])
        go(sub[len(sub) // 2:])
    go(items)
    return len(items), bad or [("?", "?", log)]
