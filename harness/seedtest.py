#!/venv/bin/python
"""Developer tool (not a registered check): confirm a seeded change and run the checks against it.

  seedtest.py confirm <prop> <patch.diff> <demo.py>     -> in a scratch worktree: demo passes clean, suite passes with the
                                                          patch, demo fails with the patch
  seedtest.py detect  <patch.diff> <prop> [<prop> ...]  -> apply the patch to /repo, run the quick checks, undo the patch
"""
import json
import os
import subprocess
import sys

PY = "/venv/bin/python"


def sh(cmd, cwd=None, env=None, timeout=3000):
    p = subprocess.run(cmd, cwd=cwd, env=env, capture_output=True, text=True, timeout=timeout, shell=isinstance(cmd, str))
    return p.returncode, (p.stdout + p.stderr)


def confirm(prop, patch, demo):
    wt = f"/tmp/wt/verify-{prop}"
    sh(f"git -C /repo worktree remove --force {wt}")
    rc, out = sh(f"git -C /repo worktree add -q --detach {wt} HEAD")
    assert rc == 0, out
    env = dict(os.environ, PYTHONPATH=wt, MATHY_PATH=wt, PYTHONHASHSEED="0")
    res = {}
    try:
        rc, out = sh([PY, demo], cwd=wt, env=env, timeout=600)
        res["demo_clean_rc"] = rc
        rc, out = sh(f"git apply {patch}", cwd=wt)
        res["apply_rc"] = rc
        if rc != 0:
            res["apply_out"] = out[-300:]
            return res
        rc, out = sh([PY, "-m", "pytest", "-q", "-p", "no:cacheprovider", "--timeout=900"], cwd=wt, env=env, timeout=1800)
        res["pytest_rc"] = rc
        res["pytest_tail"] = out.strip().split("\n")[-1]
        rc, out = sh([PY, demo], cwd=wt, env=env, timeout=600)
        res["demo_mut_rc"] = rc
        res["demo_mut_out"] = out.strip()[-400:]
    finally:
        sh(f"git -C /repo worktree remove --force {wt}")
    res["confirmed"] = res.get("demo_clean_rc") == 0 and res.get("pytest_rc") == 0 and "110 passed" in res.get("pytest_tail", "") and res.get("demo_mut_rc") not in (0, None)
    return res


def detect(patch, props):
    rc, out = sh("git -C /repo status --porcelain")
    assert out.strip() == "", "/repo is not clean: " + out
    rc, out = sh(f"git -C /repo apply {patch}")
    assert rc == 0, out
    results = {}
    try:
        for p in props:
            rc, out = sh([PY, "/verif/harness/vcheck.py", p, "--tier", "quick"], cwd="/verif", timeout=3000)
            lines = [l for l in out.split("\n") if l.startswith("VIOLATION") or l.startswith("KNOWN-FINDING")]
            results[p] = dict(rc=rc, lines=[l[:200] for l in lines if l.startswith("VIOLATION")], tail=out.strip().split("\n")[-1][:300])
            vio = [l for l in lines if l.startswith("VIOLATION")]
            if vio:
                path = vio[0].split("replay=")[1].split()[0]
                try:
                    d = json.load(open(path))
                    f = d.get("finding") or {}
                    results[p]["finding"] = dict(kind=d.get("kind"), cls=f.get("class"), input=str(f.get("input"))[:300], detail=str(f.get("detail"))[:300],
                                                 broken=str(d.get("broken_obligations"))[:300] if d.get("kind") == "unproved" else None)
                except Exception as e:
                    results[p]["finding"] = repr(e)
    finally:
        sh("git -C /repo checkout -- .")
        # restore the build to the unchanged tree (Params.v etc.)
        sh([PY, "/verif/harness/setup.py"], cwd="/verif", timeout=3000)
    return results


if __name__ == "__main__":
    if sys.argv[1] == "confirm":
        print(json.dumps(confirm(sys.argv[2], sys.argv[3], sys.argv[4]), indent=1))
    else:
        print(json.dumps(detect(sys.argv[2], sys.argv[3:]), indent=1))
