#!/venv/bin/python
"""Developer tool: re-validate every stored seeded change against the current checks.
For each /verif/seeded/<prop>-<X>/patch.diff: apply to /repo, run the property's quick check, undo; report whether the check
exits 1 with a VIOLATION line and a concrete failing input. Never commits anything in /repo."""
import glob, json, os, subprocess, sys
V = os.path.dirname(os.path.dirname(os.path.abspath(__file__)))
out = []
only = sys.argv[1:]
for d in sorted(glob.glob(os.path.join(V, "seeded", "*"))):
    tag = os.path.basename(d)
    prop = tag.split("-")[0]
    if only and prop not in only and tag not in only:
        continue
    patch = os.path.join(d, "patch.diff")
    assert subprocess.run(["git", "-C", "/repo", "status", "--porcelain"], capture_output=True, text=True).stdout.strip() == "", "repo not clean"
    a = subprocess.run(["git", "-C", "/repo", "apply", patch], capture_output=True, text=True)
    if a.returncode != 0:
        out.append((tag, "PATCH-DOES-NOT-APPLY", a.stderr.strip()[:100]))
        print(out[-1], flush=True)
        continue
    try:
        r = subprocess.run(["/venv/bin/python", os.path.join(V, "harness", "vcheck.py"), prop, "--tier", "quick"], capture_output=True, text=True, cwd=V, timeout=3000)
        lines = [l for l in r.stdout.splitlines() if l.startswith("VIOLATION")]
        kind = None
        if lines:
            rp = lines[0].split("replay=")[1].split()[0]
            try:
                kind = json.load(open(rp)).get("kind")
            except Exception:
                kind = "?"
        out.append((tag, r.returncode, kind, lines[0][:120] if lines else ""))
        try:
            mp = os.path.join(d, "meta.json")
            meta = json.load(open(mp))
            fnd = None
            if lines:
                try:
                    f = json.load(open(rp)).get("finding") or {}
                    fnd = dict(cls=f.get("class"), input=str(f.get("input"))[:400], detail=str(f.get("detail"))[:300])
                except Exception:
                    pass
            meta["revalidated"] = dict(check=prop, rc=r.returncode, kind=kind, finding=fnd, tail=r.stdout.strip().splitlines()[-1][:200] if r.stdout.strip() else "")
            meta["detected_by"] = [prop] if r.returncode != 0 else []
            meta["detected_with_failing_input"] = [prop] if kind == "failing-input" else []
            json.dump(meta, open(mp, "w"), indent=1)
        except Exception as e:
            print("meta update failed", tag, e)
    finally:
        subprocess.run(["git", "-C", "/repo", "checkout", "--", "."], check=True)
    print(out[-1], flush=True)
missed = [o for o in out if o[1] != 1 or o[2] != "failing-input"]
print("DONE", len(out), "seeds;", "not detected with a failing input:", missed)
subprocess.run(["/venv/bin/python", os.path.join(V, "harness", "setup.py")], capture_output=True)
